(* STOP LATENCY of the L2 search state machine (SearchImp.v), measured in node evaluations (st_nodes).
   Everything here is structural: it holds for every move ordering, log interval, killer table, window and for all three
   oracle streams; no chess hypothesis is used.

   One generic accounting theorem (Section Generic) is proved once for the three search routines and instantiated:
     (A) LATCH    once st_intr is set the search only unwinds (<= fuel / qfuel / 1 further evaluations), and st_intr stays set;
     (B) GAP      nodes <= (polls consumed + 1) * K, K = fuel (quiescence) or qfuel (alpha-beta, root: independent of d);
     (C) LATENCY  if the first [true] of the poll stream is at index k, the routine returns after <= (k+2)*K evaluations.
   The method is a potential function [Phi] on (st_intr, st_polls) that every *effective* poll decreases by one:
       nodes(st') - nodes(st) <= K * (Phi st - Phi st' + 1).
   Finally the PRE-fix quiescence loop (no poll in quiescence) is shown never to consume a poll. *)
From Coq Require Import ZArith List Bool Lia Permutation ZifyBool.
Require Import Base Generated Position Attack Make Gen Count Eval Search SearchProofs SearchImp SearchImpValue.
Open Scope Z_scope.

(* ================= frame steps: what leaves (intr, polls, nodes) alone ================= *)
Definition fs (a b : sst) : Prop := st_intr b = st_intr a /\ st_polls b = st_polls a /\ st_nodes b = st_nodes a.
Definition fs1 (a b : sst) : Prop := st_intr b = st_intr a /\ st_polls b = st_polls a /\ st_nodes b = st_nodes a + 1.
(* a stop is latched or still pending in the stream *)
Definition pend (st : sst) : Prop := st_intr st = true \/ In true (st_polls st).

Lemma fs_refl a : fs a a.
Proof. repeat split. Qed.
Lemma fs_trans a b c : fs a b -> fs b c -> fs a c.
Proof. unfold fs. intros (A1 & A2 & A3) (B1 & B2 & B3). repeat split; congruence. Qed.
Lemma fs_fs1 a b c : fs a b -> fs1 b c -> fs1 a c.
Proof. unfold fs, fs1. intros (A1 & A2 & A3) (B1 & B2 & B3). repeat split; congruence. Qed.
Lemma fs1_fs a b c : fs1 a b -> fs b c -> fs1 a c.
Proof. unfold fs, fs1. intros (A1 & A2 & A3) (B1 & B2 & B3). repeat split; congruence. Qed.
Lemma fs_pop a : fs a (pop a).
Proof. repeat split. Qed.
Lemma fs_emit a e : fs a (emit a e).
Proof. repeat split. Qed.
Lemma fs_set_killers a k : fs a (set_killers a k).
Proof. repeat split. Qed.
Lemma fs_set_first a i l : fs a (set_first a i l).
Proof. repeat split. Qed.
Lemma fs_set_stack a s : fs a (set_stack a s).
Proof. repeat split. Qed.
Lemma fs_time_up a : fs a (snd (time_up a)).
Proof. unfold time_up. destruct (st_clock a); repeat split. Qed.
Lemma fs_check_up a : fs a (snd (check_up a)).
Proof. unfold check_up. destruct (st_intr a); [apply fs_refl | apply fs_time_up]. Qed.
Lemma fs_pv_due a : fs a (snd (pv_print_due a)).
Proof. unfold pv_print_due. destruct (st_pvclock a); repeat split. Qed.
Lemma fs_push st m stp : push st m = Ok stp -> fs st stp.
Proof. intros H. apply push_ok in H. destruct H as (p & p' & _ & _ & ->). apply fs_set_stack. Qed.
Lemma fs_currmove li st1 st2 : currmove_step li st1 = Ok st2 -> fs st1 st2.
Proof.
  unfold currmove_step. destruct (li =? 0); [discriminate|].
  destruct (st_nodes st1 mod li =? 0).
  - destruct (nth_error _ _); intros H; inversion H. apply fs_emit.
  - intros H; inversion H. apply fs_refl.
Qed.
Lemma fs1_set_nodes st : fs1 st (set_nodes st (st_nodes st + 1)).
Proof. repeat split. Qed.
Lemma check_up_false a : fst (check_up a) = false -> st_intr a = false.
Proof. unfold check_up. destruct (st_intr a); [discriminate | reflexivity]. Qed.

(* ================= poll ================= *)
Lemma poll_nil a : st_polls a = [] -> poll a = a.
Proof. unfold poll. intros ->. reflexivity. Qed.
Lemma poll_cons a b r : st_polls a = b :: r ->
  st_intr (poll a) = st_intr a || b /\ st_polls (poll a) = r /\ st_nodes (poll a) = st_nodes a.
Proof. unfold poll. intros ->. repeat split. Qed.
Lemma poll_nodes a : st_nodes (poll a) = st_nodes a.
Proof. destruct (st_polls a) as [|b r] eqn:E; [rewrite poll_nil by exact E; reflexivity | apply (poll_cons _ _ _ E)]. Qed.
Lemma poll_intr_mono a : st_intr a = true -> st_intr (poll a) = true.
Proof.
  intros I. destruct (st_polls a) as [|b r] eqn:E; [rewrite poll_nil by exact E; exact I|].
  destruct (poll_cons _ _ _ E) as (-> & _). rewrite I. reflexivity.
Qed.
Lemma poll_intr_false a : st_intr (poll a) = false -> st_intr a = false.
Proof. intros H. destruct (st_intr a) eqn:I; [|reflexivity]. rewrite poll_intr_mono in H by exact I. discriminate. Qed.
Lemma pend_poll a : pend a -> pend (poll a).
Proof.
  unfold pend. intros [I|I]; [left; apply poll_intr_mono; exact I|].
  destruct (st_polls a) as [|b r] eqn:E; [destruct I|].
  destruct (poll_cons _ _ _ E) as (-> & -> & _). destruct I as [->|I]; [left; apply orb_true_r | right; exact I].
Qed.
Lemma pend_fs a b : fs a b -> pend a -> pend b.
Proof. unfold fs, pend. intros (-> & -> & _). auto. Qed.
Lemma pend_fs1 a b : fs1 a b -> pend a -> pend b.
Proof. unfold fs1, pend. intros (-> & -> & _). auto. Qed.

(* ================= the generic accounting theorem ================= *)
Section Generic.
Variable Phi : sst -> Z.          (* potential: how many effective polls may still happen before the flag is set *)
Variable live : sst -> Prop.      (* at this state every earlier poll was an effective one *)
Hypothesis Phi_view : forall a b, st_intr b = st_intr a -> st_polls b = st_polls a -> Phi b = Phi a.
Hypothesis live_view : forall a b, st_intr b = st_intr a -> st_polls b = st_polls a -> live b -> live a.
Hypothesis Phi_poll : forall a, Phi (poll a) <= Phi a.
Hypothesis live_poll : forall a, live (poll a) -> live a.
Hypothesis Phi_dec : forall a, live (poll a) -> st_intr a = false -> Phi (poll a) + 1 <= Phi a.

(* from a to b: at most K * (drop of potential + j) node evaluations *)
Definition GJ (K j : Z) (a b : sst) : Prop :=
  Phi b <= Phi a /\ (live b -> live a) /\ st_nodes a <= st_nodes b /\
  (st_intr a = true -> st_intr b = true) /\ (pend a -> pend b) /\
  (live b -> st_nodes b - st_nodes a <= K * (Phi a - Phi b + j)).
Definition G (K : Z) := GJ K 1.
Ltac gsplit := unfold G, GJ; split; [|split; [|split; [|split; [|split]]]].

Lemma GJ_refl K j a : 0 <= K -> 0 <= j -> GJ K j a a.
Proof. intros HK Hj. unfold GJ. repeat split; auto; try lia. Qed.
Lemma G_refl K a : 0 <= K -> G K a a.
Proof. intros HK. apply GJ_refl; lia. Qed.

Lemma GJ_fs_l K j a a' b : fs a a' -> GJ K j a' b -> GJ K j a b.
Proof.
  intros F (H1 & H2 & H3 & H4 & H5 & H6). pose proof F as (F1 & F2 & F3).
  pose proof (Phi_view _ _ F1 F2) as E. unfold GJ. rewrite <- E, <- F3. repeat split; auto.
  - intros L. eapply live_view; [exact F1 | exact F2 | auto].
  - intros I. apply H4. congruence.
  - intros P. apply H5. eapply pend_fs; eauto.
Qed.
Lemma GJ_fs_r K j a b b' : fs b b' -> GJ K j a b -> GJ K j a b'.
Proof.
  intros F (H1 & H2 & H3 & H4 & H5 & H6). pose proof F as (F1 & F2 & F3).
  pose proof (Phi_view _ _ F1 F2) as E. unfold GJ. rewrite E, F3, F1.
  assert (LB : live b' -> live b) by (intros L; eapply live_view; [exact F1 | exact F2 | exact L]).
  repeat split; auto. intros P. eapply pend_fs; eauto.
Qed.
Lemma G_fs K a b : 0 <= K -> fs a b -> G K a b.
Proof. intros HK F. eapply GJ_fs_r; [exact F | apply G_refl; exact HK]. Qed.

Lemma GJ_poll_r K j a c : 0 <= K -> GJ K j a c -> GJ K j a (poll c).
Proof.
  intros HK (H1 & H2 & H3 & H4 & H5 & H6). pose proof (Phi_poll c) as PP. unfold GJ. rewrite poll_nodes.
  repeat split; auto; try lia.
  - intros I. apply poll_intr_mono. auto.
  - intros P. apply pend_poll. auto.
  - intros L. apply live_poll in L. specialize (H6 L). nia.
Qed.

(* sequencing without a poll in between: the slacks add up *)
Lemma GJ_trans K i j a b c : 0 <= K -> GJ K i a b -> GJ K j b c -> GJ K (i + j) a c.
Proof.
  intros HK (H1 & H2 & H3 & H4 & H5 & H6) (I1 & I2 & I3 & I4 & I5 & I6). unfold GJ.
  repeat split; auto; try lia. intros L. specialize (I6 L). specialize (H6 (I2 L)). nia.
Qed.

(* sequencing THROUGH an effective poll: the slack is paid once *)
Lemma G_seq K a c r : 0 <= K -> G K a c -> st_intr c = false -> G K (poll c) r -> G K a r.
Proof.
  intros HK (H1 & H2 & H3 & H4 & H5 & H6) IC (I1 & I2 & I3 & I4 & I5 & I6).
  pose proof (Phi_poll c) as PP. rewrite poll_nodes in *. gsplit.
  - lia.
  - intros L. auto.
  - lia.
  - intros I. apply I4. apply poll_intr_mono. auto.
  - intros P. apply I5. apply pend_poll. auto.
  - intros L. specialize (I6 L). pose proof (I2 L) as LP. pose proof (Phi_dec _ LP IC) as D.
    specialize (H6 (live_poll _ LP)). nia.
Qed.

Lemma G_leaf K a b : 1 <= K -> fs1 a b -> G K a b.
Proof.
  intros HK F. pose proof F as (F1 & F2 & F3). pose proof (Phi_view _ _ F1 F2) as E. gsplit.
  - lia.
  - intros L. eapply live_view; [exact F1 | exact F2 | exact L].
  - lia.
  - congruence.
  - intros P. eapply pend_fs1; eauto.
  - intros _. rewrite E, F3. nia.
Qed.
(* a node that evaluates itself and then runs a loop whose children cost K *)
Lemma G_node K a b r : 0 <= K -> fs1 a b -> G K b r -> G (K + 1) a r.
Proof.
  intros HK F (H1 & H2 & H3 & H4 & H5 & H6). pose proof F as (F1 & F2 & F3). pose proof (Phi_view _ _ F1 F2) as E. gsplit.
  - lia.
  - intros L. eapply live_view; [exact F1 | exact F2 | auto].
  - lia.
  - intros I. apply H4. congruence.
  - intros P. apply H5. eapply pend_fs1; eauto.
  - intros L. specialize (H6 L). nia.
Qed.

(* ---------- the three loops, over an arbitrary child ---------- *)
Section GLoops.
Variable child : sst -> Z -> Z -> result ires.
Variable K : Z.
Hypothesis K_nonneg : 0 <= K.
Hypothesis child_G : forall stp x y c, child stp x y = Ok c -> G K stp (ist c).

Lemma step_G st m stp x y c : push st (rm m) = Ok stp -> child stp x y = Ok c -> G K st (pop (ist c)).
Proof.
  intros P C. eapply GJ_fs_l; [apply (fs_push _ _ _ P)|]. eapply GJ_fs_r; [apply fs_pop|]. eapply child_G; exact C.
Qed.

Lemma q_loop_G beta l : forall alpha line st r, q_loop child beta l alpha line st = Ok r -> G K st (ist r).
Proof.
  induction l as [|m l IH]; intros alpha line st r H.
  - inversion H. apply G_refl; exact K_nonneg.
  - cbn [q_loop] in H. apply bind_ok in H. destruct H as (stp & P & H). apply bind_ok in H. destruct H as (c & C & H).
    cbv zeta in H. pose proof (step_G _ _ _ _ _ _ P C) as Gc.
    pose proof (fs_check_up (poll (pop (ist c)))) as F. pose proof (check_up_false (poll (pop (ist c)))) as U.
    destruct (check_up (poll (pop (ist c)))) as [up st'']. cbn [fst snd] in F, U.
    assert (Gbrk : G K st st'') by (eapply GJ_fs_r; [exact F|]; apply GJ_poll_r; [exact K_nonneg | exact Gc]).
    destruct up; [inversion H; exact Gbrk|].
    destruct (- iv c >=? beta); [inversion H; exact Gbrk|].
    specialize (U eq_refl). apply poll_intr_false in U.
    assert (Gcont : forall a' l' r', q_loop child beta l a' l' st'' = Ok r' -> G K st (ist r')).
    { intros a' l' r' Hr. apply IH in Hr. eapply G_seq; [exact K_nonneg | exact Gc | exact U|].
      eapply GJ_fs_l; [exact F | exact Hr]. }
    destruct (- iv c >? alpha).
    + apply bind_ok in H. destruct H as (ln & _ & H). eapply Gcont; exact H.
    + eapply Gcont; exact H.
Qed.

Lemma ab_loop_i_G beta p l : forall alpha line st r, ab_loop_i child beta p l alpha line st = Ok r -> G K st (ist r).
Proof.
  induction l as [|m l IH]; intros alpha line st r H.
  - inversion H. apply G_refl; exact K_nonneg.
  - cbn [ab_loop_i] in H. destruct (st_intr st); [inversion H; apply G_refl; exact K_nonneg|].
    apply bind_ok in H. destruct H as (stp & P & H). apply bind_ok in H. destruct H as (c & C & H).
    cbv zeta in H. pose proof (step_G _ _ _ _ _ _ P C) as Gc.
    destruct (- iv c >=? beta).
    { inversion H. cbn [ist ir]. destruct (tactical m); [exact Gc|]. eapply GJ_fs_r; [apply fs_set_killers | exact Gc]. }
    apply bind_ok in H. destruct H as ([alpha' line'] & _ & H).
    pose proof (fs_check_up (pop (ist c))) as F. pose proof (check_up_false (pop (ist c))) as U.
    destruct (check_up (pop (ist c))) as [up st'']. cbn [fst snd] in F, U.
    assert (Gbrk : G K st st'') by (eapply GJ_fs_r; [exact F | exact Gc]).
    destruct up; [inversion H; exact Gbrk|].
    specialize (U eq_refl). apply IH in H.
    eapply G_seq; [exact K_nonneg | exact Gbrk | | exact H].
    destruct F as (-> & _). exact U.
Qed.

Lemma root_loop_i_G target sorted l : forall idx alpha line st r,
  root_loop_i child target sorted l idx alpha line st = Ok r -> G K st (ist r).
Proof.
  induction l as [|m l IH]; intros idx alpha line st r H.
  - inversion H. apply G_fs; [exact K_nonneg | apply fs_set_first].
  - cbn [root_loop_i] in H. cbv zeta in H.
    pose proof (fs_set_first st idx sorted) as F0.
    destruct (st_intr (set_first st idx sorted)); [inversion H; apply G_fs; [exact K_nonneg | exact F0]|].
    apply bind_ok in H. destruct H as (stp & P & H). apply bind_ok in H. destruct H as (c & C & H).
    pose proof (GJ_fs_l _ _ _ _ _ F0 (step_G _ _ _ _ _ _ P C)) as Gc.
    apply bind_ok in H. destruct H as ([[alpha' line'] st1] & A & H).
    assert (G1 : G K st st1).
    { destruct (- iv c >? alpha).
      - apply bind_ok in A. destruct A as (ln & _ & A).
        pose proof (fs_pv_due (pop (ist c))) as F3. destruct (pv_print_due (pop (ist c))) as [due st2].
        cbn [snd] in F3. destruct ln as [pv|]; [|discriminate]. inversion A.
        eapply GJ_fs_r; [|exact Gc]. destruct due; [eapply fs_trans; [exact F3 | apply fs_emit] | exact F3].
      - inversion A; subst. exact Gc. }
    pose proof (fs_check_up st1) as F. pose proof (check_up_false st1) as U.
    destruct (check_up st1) as [up st'']. cbn [fst snd] in F, U.
    assert (Gbrk : G K st st'') by (eapply GJ_fs_r; [exact F | exact G1]).
    destruct up; [inversion H; exact Gbrk|].
    destruct (next_move_wins (- iv c)); [inversion H; exact Gbrk|].
    specialize (U eq_refl). apply IH in H.
    eapply G_seq; [exact K_nonneg | exact Gbrk | | exact H].
    destruct F as (-> & _). exact U.
Qed.
End GLoops.

(* ---------- the three routines ---------- *)
Section GSearch.
Variable order : killer_table -> list move -> Z -> pos -> list rmove -> list rmove.
Variable log_interval : Z.

Lemma qfuel_pos : 1 <= Z.of_nat qfuel.
Proof. unfold qfuel. lia. Qed.

Lemma quiesce_i_G : forall fuel cand st a b depth r,
  quiesce_i order log_interval fuel cand st a b depth = Ok r -> G (Z.of_nat fuel) st (ist r).
Proof.
  induction fuel as [|f IH]; intros cand st a b depth r H; [discriminate H|].
  rewrite quiesce_i_eq in H. destruct (negb (row_ok depth)); [discriminate|].
  apply bind_ok in H. destruct H as ([score st1] & L & H).
  apply lazy_eval_st_ok in L. destruct L as (p & T & L). inversion L; subst score st1. clear L.
  apply bind_ok in H. destruct H as (st2 & CM & H). apply fs_currmove in CM.
  pose proof (fs1_fs _ _ _ (fs1_set_nodes st) CM) as F.
  rewrite Nat2Z.inj_succ, <- Z.add_1_r.
  destruct (lazy_eval p depth a b >=? b); [inversion H; apply G_leaf; [lia | exact F]|].
  destruct (if lazy_eval p depth a b >? a then (lazy_eval p depth a b, Some []) else (a, None)) as [alpha1 line1].
  apply bind_ok in H. destruct H as (p2 & _ & H). apply bind_ok in H. destruct H as (tms & _ & H).
  apply q_loop_G with (K := Z.of_nat f) in H; [eapply G_node; [lia | exact F | exact H] | lia |].
  intros stp x y c Hc. eapply IH; exact Hc.
Qed.

Lemma alpha_beta_i_G : forall d cand st a b depth r,
  alpha_beta_i order log_interval d cand st a b depth = Ok r -> G (Z.of_nat qfuel) st (ist r).
Proof.
  pose proof qfuel_pos as QP.
  induction d as [|k IH]; intros cand st a b depth r H.
  - rewrite alpha_beta_i_eq0 in H. destruct (negb (row_ok depth)); [discriminate|]. eapply quiesce_i_G; eauto.
  - rewrite alpha_beta_i_eq in H. destruct (negb (row_ok depth)); [discriminate|].
    apply bind_ok in H. destruct H as (p & T & H). apply bind_ok in H. destruct H as (ms & Gn & H).
    destruct ms as [|m0 ms].
    + apply bind_ok in H. destruct H as (r0 & TS & H). apply terminal_score_st_ok in TS.
      destruct TS as (q & _ & ->). inversion H. apply G_leaf; [exact QP | apply fs1_set_nodes].
    + apply ab_loop_i_G with (K := Z.of_nat qfuel) in H; [exact H | lia |].
      intros stp x y c Hc. eapply IH; exact Hc.
Qed.

Lemma root_search_i_G target cand st r one :
  root_search_i order log_interval target cand st = Ok (r, one) -> G (Z.of_nat qfuel) st (ist r).
Proof.
  pose proof qfuel_pos as QP.
  intros H. rewrite root_search_i_eq in H. destruct (negb (row_ok 0)); [discriminate|].
  apply bind_ok in H. destruct H as (p & T & H). apply bind_ok in H. destruct H as (ms & Gn & H).
  destruct ms as [|m0 ms].
  - apply bind_ok in H. destruct H as (r0 & TS & H). apply terminal_score_st_ok in TS.
    destruct TS as (q & _ & ->). inversion H. apply G_leaf; [exact QP | apply fs1_set_nodes].
  - cbv zeta in H. apply bind_ok in H. destruct H as (r' & H & E). inversion E; subst r'.
    apply root_loop_i_G with (K := Z.of_nat qfuel) in H; [exact H | lia |].
    intros stp x y c Hc. eapply alpha_beta_i_G; exact Hc.
Qed.

(* iterative deepening: no poll between two root searches, so each iteration pays its own slack *)
Lemma deepen_i_G max_depth : forall fuel d score done_ best st res,
  deepen_i order log_interval max_depth fuel d score done_ best st = Ok res ->
  GJ (Z.of_nat qfuel) (Z.of_nat (S max_depth - d)) st (snd res).
Proof.
  pose proof qfuel_pos as QP.
  induction fuel as [|f IH]; intros d score done_ best st res H.
  - inversion H. apply GJ_refl; lia.
  - cbn [deepen_i] in H. destruct (max_depth <? d)%nat eqn:MD; [inversion H; apply GJ_refl; lia|].
    apply Nat.ltb_ge in MD.
    apply bind_ok in H. destruct H as ([s one'] & RS & H). apply root_search_i_G in RS.
    pose proof (fs_time_up (ist s)) as F. destruct (time_up (ist s)) as [up st']. cbn [snd] in F.
    assert (G1 : GJ (Z.of_nat qfuel) 1 st st') by (eapply GJ_fs_r; [exact F | exact RS]).
    assert (W : forall x, fs st' x -> GJ (Z.of_nat qfuel) (Z.of_nat (S max_depth - d)) st x).
    { intros x Fx. replace (Z.of_nat (S max_depth - d)) with (1 + Z.of_nat (S max_depth - d - 1)) by lia.
      eapply GJ_trans; [lia | exact G1 |]. eapply GJ_fs_r; [exact Fx | apply GJ_refl; lia]. }
    destruct up; [inversion H; apply W, fs_refl|].
    destruct (st_intr st'); [inversion H; apply W, fs_refl|].
    destruct (iline s) as [[|m l]|]; [discriminate | | discriminate].
    cbv zeta in H.
    destruct ((plies_to_mate (iv s) =? Z.of_nat d) || one'); [inversion H; apply W, fs_emit|].
    apply IH in H.
    replace (Z.of_nat (S max_depth - d)) with (1 + Z.of_nat (S max_depth - S d)) by lia.
    eapply GJ_trans; [lia | exact G1 |]. eapply GJ_fs_l; [apply fs_emit | exact H].
Qed.

(* the whole 'go': the counter is reset to 0 and the flag to false at the start *)
Lemma iterate_i_G max_depth st0 stf :
  iterate_i order log_interval max_depth st0 = Ok stf ->
  GJ (Z.of_nat qfuel) (Z.of_nat (Nat.max 1 max_depth)) (set_nodes (set_intr st0 false) 0) stf.
Proof.
  pose proof qfuel_pos as QP.
  intros H. rewrite iterate_i_eq in H. cbv zeta in H.
  set (st := set_nodes (set_intr st0 false) 0) in *. clearbody st.
  apply bind_ok in H. destruct H as ([s1 one] & RS & H). apply root_search_i_G in RS.
  destruct (iline s1) as [best1|]; [|discriminate].
  pose proof (fs_time_up (ist s1)) as F. destruct (time_up (ist s1)) as [up1 st1]. cbn [snd] in F.
  assert (G1 : GJ (Z.of_nat qfuel) 1 st st1) by (eapply GJ_fs_r; [exact F | exact RS]).
  apply bind_ok in H. destruct H as ([[[score done_] best] sf] & FIN & H).
  assert (G2 : GJ (Z.of_nat qfuel) (Z.of_nat (Nat.max 1 max_depth)) st sf).
  { destruct (up1 || st_intr st1 || one || match best1 with [] => true | _ :: _ => false end).
    - inversion FIN; subst. replace (Z.of_nat (Nat.max 1 max_depth)) with (1 + Z.of_nat (Nat.max 1 max_depth - 1)) by lia.
      eapply GJ_trans; [lia | exact G1 | apply GJ_refl; lia].
    - apply deepen_i_G in FIN. cbn [snd] in FIN.
      replace (Z.of_nat (Nat.max 1 max_depth)) with (1 + Z.of_nat (S max_depth - 2)) by lia.
      eapply GJ_trans; [lia | exact G1 | exact FIN]. }
  destruct best as [|b0 best]; inversion H.
  - eapply GJ_fs_r; [apply fs_emit | exact G2].
  - eapply GJ_fs_r; [eapply fs_trans; apply fs_emit | exact G2].
Qed.
End GSearch.
End Generic.

(* ================= instance 1 (GAP): Phi = number of polls left, live = the stream is not exhausted ================= *)
Definition PhiB (st : sst) : Z := Z.of_nat (length (st_polls st)).
Definition liveB (st : sst) : Prop := (0 < length (st_polls st))%nat.

Lemma PhiB_view a b : st_intr b = st_intr a -> st_polls b = st_polls a -> PhiB b = PhiB a.
Proof. unfold PhiB. intros _ ->. reflexivity. Qed.
Lemma liveB_view a b : st_intr b = st_intr a -> st_polls b = st_polls a -> liveB b -> liveB a.
Proof. unfold liveB. intros _ ->. auto. Qed.
Lemma PhiB_poll a : PhiB (poll a) <= PhiB a.
Proof.
  destruct (st_polls a) as [|b r] eqn:E; [rewrite poll_nil by exact E; lia|].
  destruct (poll_cons _ _ _ E) as (_ & P & _). unfold PhiB. rewrite P, E. cbn [length]. lia.
Qed.
Lemma liveB_poll a : liveB (poll a) -> liveB a.
Proof.
  destruct (st_polls a) as [|b r] eqn:E; [rewrite poll_nil by exact E; auto|].
  unfold liveB. rewrite E. cbn [length]. lia.
Qed.
Lemma PhiB_dec a : liveB (poll a) -> st_intr a = false -> PhiB (poll a) + 1 <= PhiB a.
Proof.
  intros L _. destruct (st_polls a) as [|b r] eqn:E.
  - rewrite poll_nil in L by exact E. unfold liveB in L. rewrite E in L. cbn in L. lia.
  - destruct (poll_cons _ _ _ E) as (_ & P & _). unfold PhiB. rewrite P, E. cbn [length]. lia.
Qed.

(* ================= instance 2 (LATCH / LATENCY): Phi = 0 once latched, else 1 + index of the first [true] ================= *)
Fixpoint credit (l : list bool) : Z :=
  match l with [] => 0 | b :: r => if b then 1 else 1 + credit r end.
Definition PhiU (st : sst) : Z := if st_intr st then 0 else credit (st_polls st).
Definition liveU (st : sst) : Prop := st_intr st = true \/ st_polls st <> [].

Lemma credit_nonneg l : 0 <= credit l.
Proof. induction l as [|[|] l IH]; cbn [credit]; lia. Qed.
Lemma credit_le_length l : credit l <= Z.of_nat (length l).
Proof. induction l as [|[|] l IH]; cbn [credit length]; lia. Qed.
Lemma credit_repeat k rest : credit (repeat false k ++ true :: rest) = Z.of_nat k + 1.
Proof. induction k as [|k IH]; [reflexivity|]. cbn [repeat app credit]. rewrite IH. lia. Qed.
Lemma PhiU_nonneg st : 0 <= PhiU st.
Proof. unfold PhiU. destruct (st_intr st); [lia | apply credit_nonneg]. Qed.

Lemma PhiU_view a b : st_intr b = st_intr a -> st_polls b = st_polls a -> PhiU b = PhiU a.
Proof. unfold PhiU. intros -> ->. reflexivity. Qed.
Lemma liveU_view a b : st_intr b = st_intr a -> st_polls b = st_polls a -> liveU b -> liveU a.
Proof. unfold liveU. intros -> ->. auto. Qed.
Lemma PhiU_poll a : PhiU (poll a) <= PhiU a.
Proof.
  destruct (st_polls a) as [|b r] eqn:E; [rewrite poll_nil by exact E; lia|].
  destruct (poll_cons _ _ _ E) as (I & P & _). unfold PhiU. rewrite I, P, E.
  pose proof (credit_nonneg r). destruct (st_intr a), b; cbn [orb credit]; lia.
Qed.
Lemma liveU_poll a : liveU (poll a) -> liveU a.
Proof.
  destruct (st_polls a) as [|b r] eqn:E; [rewrite poll_nil by exact E; auto|].
  intros _. right. rewrite E. discriminate.
Qed.
Lemma PhiU_dec a : liveU (poll a) -> st_intr a = false -> PhiU (poll a) + 1 <= PhiU a.
Proof.
  intros L IA. destruct (st_polls a) as [|b r] eqn:E.
  - rewrite poll_nil in L by exact E. destruct L as [L|L]; congruence.
  - destruct (poll_cons _ _ _ E) as (I & P & _). unfold PhiU. rewrite I, P, E, IA.
    destruct b; cbn [orb credit]; lia.
Qed.
Lemma pend_liveU st : pend st -> liveU st.
Proof. unfold pend, liveU. intros [I|I]; [auto|]. right. intros E. rewrite E in I. destruct I. Qed.

Section Latency.
Variable order : killer_table -> list move -> Z -> pos -> list rmove -> list rmove.
Variable log_interval : Z.
Notation quiesce_i := (quiesce_i order log_interval).
Notation alpha_beta_i := (alpha_beta_i order log_interval).
Notation root_search_i := (root_search_i order log_interval).
Notation iterate_i := (iterate_i order log_interval).

Definition quiesce_i_GB := quiesce_i_G PhiB liveB PhiB_view liveB_view PhiB_poll liveB_poll PhiB_dec order log_interval.
Definition alpha_beta_i_GB := alpha_beta_i_G PhiB liveB PhiB_view liveB_view PhiB_poll liveB_poll PhiB_dec order log_interval.
Definition root_search_i_GB := root_search_i_G PhiB liveB PhiB_view liveB_view PhiB_poll liveB_poll PhiB_dec order log_interval.
Definition iterate_i_GB := iterate_i_G PhiB liveB PhiB_view liveB_view PhiB_poll liveB_poll PhiB_dec order log_interval.
Definition quiesce_i_GU := quiesce_i_G PhiU liveU PhiU_view liveU_view PhiU_poll liveU_poll PhiU_dec order log_interval.
Definition alpha_beta_i_GU := alpha_beta_i_G PhiU liveU PhiU_view liveU_view PhiU_poll liveU_poll PhiU_dec order log_interval.
Definition root_search_i_GU := root_search_i_G PhiU liveU PhiU_view liveU_view PhiU_poll liveU_poll PhiU_dec order log_interval.
Definition iterate_i_GU := iterate_i_G PhiU liveU PhiU_view liveU_view PhiU_poll liveU_poll PhiU_dec order log_interval.

(* ---------------- (A) LATCH ---------------- *)
Lemma latch_of_G K j st st' : GJ PhiU liveU K j st st' -> st_intr st = true ->
  st_intr st' = true /\ st_nodes st <= st_nodes st' <= st_nodes st + K * j.
Proof.
  intros (H1 & H2 & H3 & H4 & H5 & H6) I. pose proof (H4 I) as I'. specialize (H6 (or_introl I')).
  unfold PhiU in H6. rewrite I, I' in H6. split; [exact I'|]. lia.
Qed.

(* with the flag already set, a quiescence node still evaluates itself and descends into its first capture:
   one leftmost chain, at most [fuel] evaluations *)
Theorem latch_quiesce : forall fuel cand st a b depth r,
  st_intr st = true -> quiesce_i fuel cand st a b depth = Ok r ->
  st_intr (ist r) = true /\ st_nodes st <= st_nodes (ist r) <= st_nodes st + Z.of_nat fuel.
Proof.
  intros fuel cand st a b depth r I H. apply quiesce_i_GU in H.
  destruct (latch_of_G _ _ _ _ H I) as (I' & N). split; [exact I'|]. lia.
Qed.

(* an inner alpha-beta node (d > 0) tests the flag before its first move: only a terminal node evaluates (once) *)
Lemma latch_alpha_beta_inner : forall k cand st a b depth r,
  st_intr st = true -> alpha_beta_i (S k) cand st a b depth = Ok r ->
  st_intr (ist r) = true /\ st_nodes st <= st_nodes (ist r) <= st_nodes st + 1.
Proof.
  intros k cand st a b depth r I H. rewrite alpha_beta_i_eq in H. destruct (negb (row_ok depth)); [discriminate|].
  apply bind_ok in H. destruct H as (p & T & H). apply bind_ok in H. destruct H as (ms & Gn & H).
  destruct ms as [|m0 ms].
  - apply bind_ok in H. destruct H as (r0 & TS & H). apply terminal_score_st_ok in TS.
    destruct TS as (q & _ & ->). inversion H. cbn. split; [exact I | lia].
  - destruct (order (st_killers st) cand depth p (m0 :: ms)) as [|m l]; cbn [ab_loop_i] in H; [|rewrite I in H];
      inversion H; cbn [ist ir]; (split; [exact I | lia]).
Qed.

Theorem latch_alpha_beta : forall d cand st a b depth r,
  st_intr st = true -> alpha_beta_i d cand st a b depth = Ok r ->
  st_intr (ist r) = true /\
  st_nodes st <= st_nodes (ist r) <= st_nodes st + match d with O => Z.of_nat qfuel | S _ => 1 end.
Proof.
  intros [|k] cand st a b depth r I H; [|eapply latch_alpha_beta_inner; eauto].
  apply alpha_beta_i_GU in H. destruct (latch_of_G _ _ _ _ H I) as (I' & N). split; [exact I'|]. lia.
Qed.

Corollary latch_alpha_beta_weak : forall d cand st a b depth r,
  st_intr st = true -> alpha_beta_i d cand st a b depth = Ok r ->
  st_intr (ist r) = true /\ st_nodes (ist r) <= st_nodes st + Z.of_nat (d + qfuel).
Proof.
  intros d cand st a b depth r I H. destruct (latch_alpha_beta _ _ _ _ _ _ _ I H) as (I' & N).
  split; [exact I'|]. destruct d; lia.
Qed.

Lemma root_loop_i_latched child target sorted l idx alpha line st r :
  st_intr st = true -> root_loop_i child target sorted l idx alpha line st = Ok r -> ist r = set_first st idx sorted.
Proof.
  intros I H. destruct l as [|m l]; cbn [root_loop_i] in H; [inversion H; reflexivity|].
  cbv zeta in H. change (st_intr (set_first st idx sorted)) with (st_intr st) in H. rewrite I in H.
  inversion H. reflexivity.
Qed.

Theorem latch_root_search : forall target cand st r one,
  st_intr st = true -> root_search_i target cand st = Ok (r, one) ->
  st_intr (ist r) = true /\ st_nodes st <= st_nodes (ist r) <= st_nodes st + 1.
Proof.
  intros target cand st r one I H. rewrite root_search_i_eq in H. destruct (negb (row_ok 0)); [discriminate|].
  apply bind_ok in H. destruct H as (p & T & H). apply bind_ok in H. destruct H as (ms & Gn & H).
  destruct ms as [|m0 ms].
  - apply bind_ok in H. destruct H as (r0 & TS & H). apply terminal_score_st_ok in TS.
    destruct TS as (q & _ & ->). inversion H. cbn. split; [exact I | lia].
  - cbv zeta in H. apply bind_ok in H. destruct H as (r' & H & E). inversion E; subst r'.
    apply root_loop_i_latched in H; [|exact I]. rewrite H. cbn. split; [exact I | lia].
Qed.

(* ---------------- (B) GAP ---------------- *)
Lemma gap_of_G K j st st' : GJ PhiB liveB K j st st' -> (0 < length (st_polls st'))%nat ->
  (length (st_polls st') <= length (st_polls st))%nat /\
  st_nodes st' - st_nodes st <= (Z.of_nat (length (st_polls st) - length (st_polls st')) + j) * K.
Proof.
  intros (H1 & H2 & H3 & H4 & H5 & H6) L. specialize (H6 L). unfold PhiB in *.
  split; [lia|]. rewrite Nat2Z.inj_sub by lia. rewrite Z.mul_comm. exact H6.
Qed.

(* between two consumed polls (and before the first, and after the last) at most one leftmost descent *)
Theorem gap_quiesce : forall fuel cand st a b depth r,
  quiesce_i fuel cand st a b depth = Ok r -> (0 < length (st_polls (ist r)))%nat ->
  (length (st_polls (ist r)) <= length (st_polls st))%nat /\
  st_nodes (ist r) - st_nodes st <=
    (Z.of_nat (length (st_polls st) - length (st_polls (ist r))) + 1) * Z.of_nat fuel.
Proof. intros fuel cand st a b depth r H L. apply quiesce_i_GB in H. exact (gap_of_G _ _ _ _ H L). Qed.

(* the constant does NOT depend on d: interior alpha-beta nodes evaluate nothing, and every continuation of an
   alpha-beta loop polls; cutoffs / breaks return to a parent that polls before searching anything else *)
Theorem gap_alpha_beta : forall d cand st a b depth r,
  alpha_beta_i d cand st a b depth = Ok r -> (0 < length (st_polls (ist r)))%nat ->
  (length (st_polls (ist r)) <= length (st_polls st))%nat /\
  st_nodes (ist r) - st_nodes st <=
    (Z.of_nat (length (st_polls st) - length (st_polls (ist r))) + 1) * Z.of_nat qfuel.
Proof. intros d cand st a b depth r H L. apply alpha_beta_i_GB in H. exact (gap_of_G _ _ _ _ H L). Qed.

Corollary gap_alpha_beta_weak : forall d cand st a b depth r,
  alpha_beta_i d cand st a b depth = Ok r -> (0 < length (st_polls (ist r)))%nat ->
  st_nodes (ist r) - st_nodes st <=
    (Z.of_nat (length (st_polls st) - length (st_polls (ist r))) + 1) * Z.of_nat (d + qfuel + 1).
Proof.
  intros d cand st a b depth r H L. destruct (gap_alpha_beta _ _ _ _ _ _ _ H L) as (_ & N).
  eapply Z.le_trans; [exact N|]. apply Z.mul_le_mono_nonneg_l; lia.
Qed.

Theorem gap_root_search : forall target cand st r one,
  root_search_i target cand st = Ok (r, one) -> (0 < length (st_polls (ist r)))%nat ->
  (length (st_polls (ist r)) <= length (st_polls st))%nat /\
  st_nodes (ist r) - st_nodes st <=
    (Z.of_nat (length (st_polls st) - length (st_polls (ist r))) + 1) * Z.of_nat qfuel.
Proof. intros target cand st r one H L. apply root_search_i_GB in H. exact (gap_of_G _ _ _ _ H L). Qed.

(* whole 'go' (counter reset at the start): there is no poll between two iterations, so each iteration pays one slack *)
Theorem gap_iterate : forall max_depth st0 stf,
  iterate_i max_depth st0 = Ok stf -> (0 < length (st_polls stf))%nat ->
  (length (st_polls stf) <= length (st_polls st0))%nat /\
  st_nodes stf <=
    (Z.of_nat (length (st_polls st0) - length (st_polls stf)) + Z.of_nat (Nat.max 1 max_depth)) * Z.of_nat qfuel.
Proof.
  intros max_depth st0 stf H L. apply iterate_i_GB in H. destruct (gap_of_G _ _ _ _ H L) as (A & B).
  cbn [set_nodes set_intr st_polls st_nodes] in A, B. split; [exact A | lia].
Qed.

(* ---------------- (C) LATENCY ---------------- *)
Lemma latency_of_G K j st st' k rest : 0 <= K -> GJ PhiU liveU K j st st' ->
  st_intr st = false -> st_polls st = repeat false k ++ true :: rest ->
  st_nodes st' - st_nodes st <= (Z.of_nat k + 1 + j) * K.
Proof.
  intros HK (H1 & H2 & H3 & H4 & H5 & H6) I P.
  assert (PE : pend st) by (right; rewrite P; apply in_or_app; right; left; reflexivity).
  specialize (H6 (pend_liveU _ (H5 PE))). pose proof (PhiU_nonneg st') as NN.
  unfold PhiU in H6 at 1. rewrite I, P, credit_repeat in H6. nia.
Qed.

(* a stop request that becomes visible at the (k+1)-th poll: the routine returns after at most (k+2)*K evaluations,
   i.e. (k+1)*K until the poll that sees it and K to unwind *)
Theorem stop_latency_quiesce : forall fuel cand st a b depth r k rest,
  st_intr st = false -> st_polls st = repeat false k ++ true :: rest ->
  quiesce_i fuel cand st a b depth = Ok r ->
  st_nodes (ist r) - st_nodes st <= (Z.of_nat k + 2) * Z.of_nat fuel.
Proof.
  intros fuel cand st a b depth r k rest I P H. apply quiesce_i_GU in H.
  pose proof (latency_of_G _ _ _ _ _ _ (Nat2Z.is_nonneg fuel) H I P). lia.
Qed.

Theorem stop_latency_alpha_beta : forall d cand st a b depth r k rest,
  st_intr st = false -> st_polls st = repeat false k ++ true :: rest ->
  alpha_beta_i d cand st a b depth = Ok r ->
  st_nodes (ist r) - st_nodes st <= (Z.of_nat k + 2) * Z.of_nat qfuel.
Proof.
  intros d cand st a b depth r k rest I P H. apply alpha_beta_i_GU in H.
  pose proof (latency_of_G _ _ _ _ _ _ (Nat2Z.is_nonneg qfuel) H I P). lia.
Qed.

Theorem stop_latency_root_search : forall target cand st r one k rest,
  st_intr st = false -> st_polls st = repeat false k ++ true :: rest ->
  root_search_i target cand st = Ok (r, one) ->
  st_nodes (ist r) - st_nodes st <= (Z.of_nat k + 2) * Z.of_nat qfuel.
Proof.
  intros target cand st r one k rest I P H. apply root_search_i_GU in H.
  pose proof (latency_of_G _ _ _ _ _ _ (Nat2Z.is_nonneg qfuel) H I P). lia.
Qed.

Theorem stop_latency_iterate : forall max_depth st0 stf k rest,
  st_polls st0 = repeat false k ++ true :: rest ->
  iterate_i max_depth st0 = Ok stf ->
  st_nodes stf <= (Z.of_nat k + 1 + Z.of_nat (Nat.max 1 max_depth)) * Z.of_nat qfuel.
Proof.
  intros max_depth st0 stf k rest P H. apply iterate_i_GU in H.
  pose proof (latency_of_G _ _ _ _ _ _ (Nat2Z.is_nonneg qfuel) H eq_refl P) as N.
  cbn [set_nodes set_intr st_nodes] in N. lia.
Qed.
End Latency.

(* ================= the PRE-fix quiescence loop never consumed a poll ================= *)
Section Old.
Variable order : killer_table -> list move -> Z -> pos -> list rmove -> list rmove.
Variable log_interval : Z.

(* quiesce_i of SearchImp.v with the one line [let st' := poll (pop (ist c))] reverted to [pop (ist c)] *)
Fixpoint quiesce_old (fuel : nat) (cand : list move) (st : sst) (alpha beta depth : Z) : result ires :=
  match fuel with O => Panic P_FUEL | S f =>
    if negb (row_ok depth) then Panic P_PV_ROW else
    do r <- lazy_eval_st st depth alpha beta;
    let '(score, st1) := r in
    do st2 <- (if log_interval =? 0 then Panic P_DIV_ZERO else
               if st_nodes st1 mod log_interval =? 0 then
                 match nth_error (st_root_moves st1) (Z.to_nat (st_first st1)) with
                 | Some rmv => Ok (emit st1 (EvCurrMove (rm rmv) (st_first st1 + 1) (st_nodes st1)))
                 | None => Panic P_TOKEN_INDEX
                 end
               else Ok st1);
    if score >=? beta then Ok (ir beta None st2) else
    let '(alpha1, line1) := if score >? alpha then (score, Some []) else (alpha, None) in
    do p <- top st2;
    do tms <- gen_tactical p;
    (fix loop (ms : list rmove) (alpha : Z) (line : option (list move)) (st : sst) : result ires :=
       match ms with
       | [] => Ok (ir alpha line st)
       | m :: r =>
           do stp <- push st (rm m);
           do c <- quiesce_old f cand stp (- beta) (- alpha) (depth + 1);
           let st' := pop (ist c) in
           let s := - iv c in
           let '(up, st'') := if st_intr st' then (true, st') else time_up st' in
           if up then Ok (ir alpha line st'')
           else if s >=? beta then Ok (ir beta line st'')
           else if s >? alpha then do l <- extend (rm m) (iline c); loop r s l st''
           else loop r alpha line st''
       end) (order (st_killers st2) cand depth p tms) alpha1 line1 st2
  end.

Section OldLoop.
Variable child : sst -> Z -> Z -> result ires.
Variable beta : Z.
Fixpoint q_loop_old (ms : list rmove) (alpha : Z) (line : option (list move)) (st : sst) : result ires :=
  match ms with
  | [] => Ok (ir alpha line st)
  | m :: r =>
      do stp <- push st (rm m);
      do c <- child stp (- beta) (- alpha);
      let st' := pop (ist c) in
      let s := - iv c in
      let '(up, st'') := check_up st' in
      if up then Ok (ir alpha line st'')
      else if s >=? beta then Ok (ir beta line st'')
      else if s >? alpha then do l <- extend (rm m) (iline c); q_loop_old r s l st''
      else q_loop_old r alpha line st''
  end.
End OldLoop.

Lemma quiesce_old_eq f cand st a b depth :
  quiesce_old (S f) cand st a b depth =
    if negb (row_ok depth) then Panic P_PV_ROW else
    do r <- lazy_eval_st st depth a b;
    let '(score, st1) := r in
    do st2 <- currmove_step log_interval st1;
    if score >=? b then Ok (ir b None st2) else
    let '(alpha1, line1) := if score >? a then (score, Some []) else (a, None) in
    do p <- top st2;
    do tms <- gen_tactical p;
    q_loop_old (fun stp x y => quiesce_old f cand stp x y (depth + 1)) b
      (order (st_killers st2) cand depth p tms) alpha1 line1 st2.
Proof. reflexivity. Qed.

(* same stop-channel view: stream and flag untouched *)
Definition sv (a b : sst) : Prop := st_polls b = st_polls a /\ st_intr b = st_intr a.
Lemma sv_fs a b : fs a b -> sv a b.
Proof. intros (A & B & _). split; assumption. Qed.
Lemma sv_fs1 a b : fs1 a b -> sv a b.
Proof. intros (A & B & _). split; assumption. Qed.
Lemma sv_trans a b c : sv a b -> sv b c -> sv a c.
Proof. unfold sv. intros (A & B) (C & D). split; congruence. Qed.

Lemma q_loop_old_sv child beta : (forall stp x y c, child stp x y = Ok c -> sv stp (ist c)) ->
  forall l alpha line st r, q_loop_old child beta l alpha line st = Ok r -> sv st (ist r).
Proof.
  intros CH. induction l as [|m l IH]; intros alpha line st r H.
  - inversion H. split; reflexivity.
  - cbn [q_loop_old] in H. apply bind_ok in H. destruct H as (stp & P & H). apply bind_ok in H. destruct H as (c & C & H).
    cbv zeta in H. pose proof (fs_check_up (pop (ist c))) as F. destruct (check_up (pop (ist c))) as [up st'']. cbn [snd] in F.
    assert (S1 : sv st st'').
    { eapply sv_trans; [apply sv_fs, (fs_push _ _ _ P)|]. eapply sv_trans; [apply (CH _ _ _ _ C)|].
      apply sv_fs. eapply fs_trans; [apply fs_pop | exact F]. }
    destruct up; [inversion H; exact S1|].
    destruct (- iv c >=? beta); [inversion H; exact S1|].
    destruct (- iv c >? alpha).
    + apply bind_ok in H. destruct H as (ln & _ & H). apply IH in H. eapply sv_trans; eauto.
    + apply IH in H. eapply sv_trans; eauto.
Qed.

(* however many nodes the old quiescence search evaluated, it consumed no poll and never noticed a stop:
   there was no bound on node evaluations per poll *)
Theorem quiesce_old_never_polls : forall fuel cand st a b depth r,
  quiesce_old fuel cand st a b depth = Ok r ->
  st_polls (ist r) = st_polls st /\ st_intr (ist r) = st_intr st.
Proof.
  induction fuel as [|f IH]; intros cand st a b depth r H; [discriminate H|].
  rewrite quiesce_old_eq in H. destruct (negb (row_ok depth)); [discriminate|].
  apply bind_ok in H. destruct H as ([score st1] & L & H).
  apply lazy_eval_st_ok in L. destruct L as (p & T & L). inversion L; subst score st1. clear L.
  apply bind_ok in H. destruct H as (st2 & CM & H). apply fs_currmove in CM.
  pose proof (sv_fs1 _ _ (fs1_fs _ _ _ (fs1_set_nodes st) CM)) as F.
  destruct (lazy_eval p depth a b >=? b); [inversion H; exact F|].
  destruct (if lazy_eval p depth a b >? a then (lazy_eval p depth a b, Some []) else (a, None)) as [alpha1 line1].
  apply bind_ok in H. destruct H as (p2 & _ & H). apply bind_ok in H. destruct H as (tms & _ & H).
  apply q_loop_old_sv in H; [exact (sv_trans _ _ _ F H)|].
  intros stp x y c Hc. exact (IH _ _ _ _ _ _ Hc).
Qed.

(* sanity of the copy: on an EMPTY poll stream (where [poll] is the identity) the old loop IS the current one *)
Lemma q_loop_old_agree childO childN beta :
  (forall stp x y c, childO stp x y = Ok c -> sv stp (ist c)) ->
  (forall stp x y, st_polls stp = [] -> childO stp x y = childN stp x y) ->
  forall l alpha line st, st_polls st = [] ->
  q_loop_old childO beta l alpha line st = q_loop childN beta l alpha line st.
Proof.
  intros SV CH. induction l as [|m l IH]; intros alpha line st E; [reflexivity|].
  cbn [q_loop_old q_loop]. destruct (push st (rm m)) as [stp|w] eqn:P; cbn [bind]; [|reflexivity].
  assert (Ep : st_polls stp = []) by (destruct (fs_push _ _ _ P) as (_ & -> & _); exact E).
  rewrite <- (CH _ _ _ Ep). destruct (childO stp (- beta) (- alpha)) as [c|w] eqn:C; cbn [bind]; [|reflexivity].
  cbv zeta. assert (Ec : st_polls (pop (ist c)) = []) by (destruct (SV _ _ _ _ C) as (Q & _); cbn; rewrite Q; exact Ep).
  rewrite (poll_nil _ Ec).
  pose proof (fs_check_up (pop (ist c))) as F. destruct (check_up (pop (ist c))) as [up st'']. cbn [snd] in F.
  assert (E2 : st_polls st'' = []) by (destruct F as (_ & -> & _); exact Ec).
  destruct up; [reflexivity|]. destruct (- iv c >=? beta); [reflexivity|].
  destruct (- iv c >? alpha); [|apply IH; exact E2].
  destruct (extend (rm m) (iline c)); cbn [bind]; [apply IH; exact E2 | reflexivity].
Qed.

Theorem quiesce_old_agrees_without_polls : forall fuel cand st a b depth,
  st_polls st = [] -> quiesce_old fuel cand st a b depth = quiesce_i order log_interval fuel cand st a b depth.
Proof.
  induction fuel as [|f IH]; intros cand st a b depth E; [reflexivity|].
  rewrite quiesce_old_eq, quiesce_i_eq. destruct (negb (row_ok depth)); [reflexivity|].
  destruct (lazy_eval_st st depth a b) as [[score st1]|w] eqn:L; cbn [bind]; [|reflexivity].
  apply lazy_eval_st_ok in L. destruct L as (p & T & L). inversion L; subst score st1. clear L.
  destruct (currmove_step log_interval (set_nodes st (st_nodes st + 1))) as [st2|w] eqn:CM; cbn [bind]; [|reflexivity].
  apply fs_currmove in CM. assert (E2 : st_polls st2 = []) by (destruct CM as (_ & -> & _); exact E).
  destruct (lazy_eval p depth a b >=? b); [reflexivity|].
  destruct (if lazy_eval p depth a b >? a then (lazy_eval p depth a b, Some []) else (a, None)) as [alpha1 line1].
  destruct (top st2) as [p2|w]; cbn [bind]; [|reflexivity].
  destruct (gen_tactical p2) as [tms|w]; cbn [bind]; [|reflexivity].
  apply q_loop_old_agree; [| |exact E2].
  - intros stp x y c Hc. exact (quiesce_old_never_polls _ _ _ _ _ _ _ Hc).
  - intros stp x y Es. apply IH. exact Es.
Qed.
End Old.

Print Assumptions latch_quiesce.
Print Assumptions latch_alpha_beta.
Print Assumptions latch_alpha_beta_weak.
Print Assumptions latch_root_search.
Print Assumptions gap_quiesce.
Print Assumptions gap_alpha_beta.
Print Assumptions gap_alpha_beta_weak.
Print Assumptions gap_root_search.
Print Assumptions gap_iterate.
Print Assumptions stop_latency_quiesce.
Print Assumptions stop_latency_alpha_beta.
Print Assumptions stop_latency_root_search.
Print Assumptions stop_latency_iterate.
Print Assumptions quiesce_old_never_polls.
Print Assumptions quiesce_old_agrees_without_polls.
