(* Uninterrupted runs of the L2 search state machine (SearchImp.v):
   PART 1  value transparency (C04 on the state machine): bound-consistency with plain minimax,
   PART 2  independence of never-consumed / all-false oracle values (C11),
   PART 3  capacity: no PV-row / stack / fuel panic under a quiescence-depth measure (C18).
   No axioms. *)
From Coq Require Import ZArith List Bool Lia Permutation ZifyBool.
Require Import Base Generated Position Attack Make Gen Count Eval Search SearchProofs SearchImp.
Open Scope Z_scope.

(* ================= the position stack ================= *)
Lemma top_inv st p : top st = Ok p -> exists l, st_stack st = l ++ [p].
Proof.
  unfold top. destruct (rev (st_stack st)) as [|x l] eqn:E; intros H; inversion H; subst.
  exists (rev l). rewrite <- (rev_involutive (st_stack st)), E. reflexivity.
Qed.
Lemma top_intro st l p : st_stack st = l ++ [p] -> top st = Ok p.
Proof. unfold top. intros ->. rewrite rev_app_distr. reflexivity. Qed.
Lemma top_stack_eq st st' : st_stack st' = st_stack st -> top st' = top st.
Proof. unfold top. intros ->. reflexivity. Qed.
Lemma flip_flip p : flip_turn (flip_turn p) = p.
Proof. destruct p; unfold flip_turn; cbn. rewrite negb_involutive. reflexivity. Qed.
Lemma top_replace st q : top (replace_top st q) = Ok q.
Proof. unfold top, replace_top, set_stack; cbn [st_stack]. rewrite rev_app_distr. reflexivity. Qed.

Lemma lazy_eval_st_eq st p depth a b : top st = Ok p ->
  lazy_eval_st st depth a b = Ok (lazy_eval p depth a b, set_nodes st (st_nodes st + 1)).
Proof.
  intros T. destruct (top_inv _ _ T) as (l & S).
  unfold lazy_eval_st, lazy_eval. rewrite T. cbn [bind].
  destruct (is_checkmate p); [reflexivity|].
  destruct ((psq_score p >? b + fullEvalScoreMargin) || (psq_score p <? a - fullEvalScoreMargin)); [reflexivity|].
  destruct (count_moves p * MobilityScoreFactor =? 0); [reflexivity|].
  rewrite top_replace. cbn [bind]. rewrite flip_flip.
  f_equal. f_equal.
  unfold replace_top, set_stack, set_nodes; cbn [st_stack st_nodes st_intr st_killers st_polls st_clock st_pvclock st_first st_root_moves st_out].
  rewrite removelast_last, S, removelast_last. reflexivity.
Qed.

Lemma lazy_eval_st_ok st depth a b r : lazy_eval_st st depth a b = Ok r ->
  exists p, top st = Ok p /\ r = (lazy_eval p depth a b, set_nodes st (st_nodes st + 1)).
Proof.
  destruct (top st) as [p|w] eqn:T.
  - rewrite (lazy_eval_st_eq _ _ _ _ _ T). intros H; inversion H. eauto.
  - unfold lazy_eval_st. rewrite T. discriminate.
Qed.
Lemma terminal_score_st_ok st depth r : terminal_score_st st depth = Ok r ->
  exists p, top st = Ok p /\ r = (terminal_score p depth, set_nodes st (st_nodes st + 1)).
Proof.
  unfold terminal_score_st. destruct (top st) as [p|w]; cbn [bind]; intros H; inversion H. eauto.
Qed.

(* ================= naming the anonymous loops ================= *)
Definition check_up (st : sst) : bool * sst := if st_intr st then (true, st) else time_up st.

Section Named.
Variable order : killer_table -> list move -> Z -> pos -> list rmove -> list rmove.
Variable log_interval : Z.

Definition currmove_step (st1 : sst) : result sst :=
  if log_interval =? 0 then Panic P_DIV_ZERO else
  if st_nodes st1 mod log_interval =? 0 then
    match nth_error (st_root_moves st1) (Z.to_nat (st_first st1)) with
    | Some rmv => Ok (emit st1 (EvCurrMove (rm rmv) (st_first st1 + 1) (st_nodes st1)))
    | None => Panic P_TOKEN_INDEX
    end
  else Ok st1.

Section Loops.
Variable child : sst -> Z -> Z -> result ires.
Variable beta : Z.

Fixpoint q_loop (ms : list rmove) (alpha : Z) (line : option (list move)) (st : sst) : result ires :=
  match ms with
  | [] => Ok (ir alpha line st)
  | m :: r =>
      do stp <- push st (rm m);
      do c <- child stp (- beta) (- alpha);
      let st' := poll (pop (ist c)) in
      let s := - iv c in
      let '(up, st'') := check_up st' in
      if up then Ok (ir alpha line st'')
      else if s >=? beta then Ok (ir beta line st'')
      else if s >? alpha then do l <- extend (rm m) (iline c); q_loop r s l st''
      else q_loop r alpha line st''
  end.

Variable p : pos.
Fixpoint ab_loop_i (ms : list rmove) (alpha : Z) (line : option (list move)) (st : sst) : result ires :=
  match ms with
  | [] => Ok (ir alpha line st)
  | m :: r =>
      if st_intr st then Ok (ir alpha line st) else
      do stp <- push st (rm m);
      do c <- child stp (- beta) (- alpha);
      let st' := pop (ist c) in
      let s := - iv c in
      if s >=? beta then
        Ok (ir beta line (if tactical m then st' else set_killers st' (update_killers (st_killers st') (ply p) (rm m))))
      else
        do al <- (if s >? alpha then do l <- extend (rm m) (iline c); Ok (s, l) else Ok (alpha, line));
        let '(alpha', line') := al in
        let '(up, st'') := check_up st' in
        if up then Ok (ir alpha' line' st'')
        else ab_loop_i r alpha' line' (poll st'')
  end.
End Loops.

Section RootLoop.
Variable child : sst -> Z -> Z -> result ires.
Variable target : nat.
Variable sorted : list rmove.
Fixpoint root_loop_i (ms : list rmove) (idx : Z) (alpha : Z) (line : option (list move)) (st : sst) : result ires :=
  match ms with
  | [] => Ok (ir alpha line (set_first st idx sorted))
  | m :: r =>
      let st := set_first st idx sorted in
      if st_intr st then Ok (ir alpha line st) else
      do stp <- push st (rm m);
      do c <- child stp (- InfinityScore) (- alpha);
      let st' := pop (ist c) in
      let s := - iv c in
      do al <- (if s >? alpha then
                  do l <- extend (rm m) (iline c);
                  let '(due, st2) := pv_print_due st' in
                  match l with
                  | Some pv => Ok (s, l, if due then emit st2 (EvInfoScore s (Z.of_nat target) (st_nodes st2) pv) else st2)
                  | None => Panic P_STALE_PV end
                else Ok (alpha, line, st'));
      let '(alpha', line', st1) := al in
      let '(up, st'') := check_up st1 in
      if up then Ok (ir alpha' line' st'')
      else if next_move_wins s then Ok (ir alpha' line' st'')
      else root_loop_i r (idx + 1) alpha' line' (poll st'')
  end.
End RootLoop.

Lemma quiesce_i_eq f cand st a b depth :
  quiesce_i order log_interval (S f) cand st a b depth =
    if negb (row_ok depth) then Panic P_PV_ROW else
    do r <- lazy_eval_st st depth a b;
    let '(score, st1) := r in
    do st2 <- currmove_step st1;
    if score >=? b then Ok (ir b None st2) else
    let '(alpha1, line1) := if score >? a then (score, Some []) else (a, None) in
    do p <- top st2;
    do tms <- gen_tactical p;
    q_loop (fun stp x y => quiesce_i order log_interval f cand stp x y (depth + 1)) b
      (order (st_killers st2) cand depth p tms) alpha1 line1 st2.
Proof. reflexivity. Qed.

Lemma alpha_beta_i_eq0 cand st a b depth :
  alpha_beta_i order log_interval O cand st a b depth =
    if negb (row_ok depth) then Panic P_PV_ROW else quiesce_i order log_interval qfuel cand st a b depth.
Proof. reflexivity. Qed.

Lemma alpha_beta_i_eq k cand st a b depth :
  alpha_beta_i order log_interval (S k) cand st a b depth =
    if negb (row_ok depth) then Panic P_PV_ROW else
    do p <- top st;
    do ms <- gen_legal p;
    match ms with
    | [] => do r <- terminal_score_st st depth; Ok (ir (fst r) (Some []) (snd r))
    | _ => ab_loop_i (fun stp x y => alpha_beta_i order log_interval k cand stp x y (depth + 1)) b p
             (order (st_killers st) cand depth p ms) a None st
    end.
Proof. reflexivity. Qed.

Lemma root_search_i_eq target cand st :
  root_search_i order log_interval target cand st =
    if negb (row_ok 0) then Panic P_PV_ROW else
    do p <- top st;
    do ms <- gen_legal p;
    match ms with
    | [] => do r <- terminal_score_st st 0; Ok (ir (fst r) (Some []) (snd r), false)
    | _ =>
      let sorted := order (st_killers st) cand 0 p ms in
      do r <- root_loop_i (fun stp x y => alpha_beta_i order log_interval (pred target) cand stp x y 1) target sorted
                sorted 0 (- InfinityScore) None st;
      Ok (r, (length ms =? 1)%nat)
    end.
Proof. reflexivity. Qed.
End Named.

(* ================= uninterrupted states ================= *)
Definition allf (l : list bool) : Prop := Forall (fun b => b = false) l.
(* no interruption so far, and every future poll / deadline test answers false (in particular: both streams empty) *)
Definition quiet (st : sst) : Prop := st_intr st = false /\ allf (st_polls st) /\ allf (st_clock st).

Lemma quiet_nil st : st_intr st = false -> st_polls st = [] -> st_clock st = [] -> quiet st.
Proof. unfold quiet, allf. intros -> -> ->. auto. Qed.

(* [keeps st st']: same stack, and uninterruptedness is inherited *)
Definition keeps (st st' : sst) : Prop := st_stack st' = st_stack st /\ (quiet st -> quiet st').
Lemma keeps_refl st : keeps st st.
Proof. split; auto. Qed.
Lemma keeps_trans a b c : keeps a b -> keeps b c -> keeps a c.
Proof. unfold keeps. intros [H1 H2] [H3 H4]. split; [congruence | auto]. Qed.
Lemma keeps_set_nodes st n : keeps st (set_nodes st n).
Proof. split; auto. Qed.
Lemma keeps_emit st e : keeps st (emit st e).
Proof. split; auto. Qed.
Lemma keeps_set_killers st k : keeps st (set_killers st k).
Proof. split; auto. Qed.
Lemma keeps_set_first st i l : keeps st (set_first st i l).
Proof. split; auto. Qed.
Lemma keeps_poll st : keeps st (poll st).
Proof.
  unfold poll, keeps, quiet. destruct (st_polls st) as [|b r] eqn:E; [rewrite E; auto|].
  cbn. split; [reflexivity|]. unfold allf. intros (I & P & C). inversion P; subst. rewrite I. auto.
Qed.
Lemma keeps_time_up st : keeps st (snd (time_up st)).
Proof.
  unfold time_up, keeps, quiet. destruct (st_clock st) as [|b r] eqn:E; cbn; [rewrite E; auto|].
  split; [reflexivity|]. unfold allf. intros (I & P & C). inversion C; subst. auto.
Qed.
Lemma keeps_check_up st : keeps st (snd (check_up st)).
Proof. unfold check_up. destruct (st_intr st); [apply keeps_refl | apply keeps_time_up]. Qed.
Lemma keeps_pv_due st : keeps st (snd (pv_print_due st)).
Proof. unfold pv_print_due. destruct (st_pvclock st); cbn; split; auto. Qed.

Lemma quiet_time_up st : quiet st -> fst (time_up st) = false.
Proof.
  unfold time_up, quiet, allf. destruct (st_clock st) as [|b r]; cbn; [reflexivity|].
  intros (_ & _ & C). inversion C; assumption.
Qed.
Lemma quiet_check_up st : quiet st -> fst (check_up st) = false.
Proof. intros Q. unfold check_up. destruct Q as (I & Q'). rewrite I. apply quiet_time_up. split; assumption. Qed.

Lemma push_ok st m stp : push st m = Ok stp ->
  exists p p', top st = Ok p /\ make_legal p m = Ok p' /\ stp = set_stack st (st_stack st ++ [p']).
Proof.
  unfold push. destruct (plyBufferCapacity <=? ply_idx st + 1); [discriminate|].
  intros H. apply bind_ok in H. destruct H as (p & T & H). apply bind_ok in H. destruct H as (p' & M & H).
  inversion H. eauto.
Qed.
Lemma push_top st m stp p : push st m = Ok stp -> top st = Ok p ->
  exists p', make_legal p m = Ok p' /\ top stp = Ok p' /\ (quiet st -> quiet stp).
Proof.
  intros H T. apply push_ok in H. destruct H as (q & p' & T' & M & ->).
  rewrite T in T'. inversion T'; subst q. exists p'. split; [exact M|]. split; [|auto].
  eapply top_intro. reflexivity.
Qed.
Lemma keeps_push_pop st m stp st2 : push st m = Ok stp -> keeps stp st2 -> keeps st (pop st2).
Proof.
  intros H [S Q]. apply push_ok in H. destruct H as (q & p' & _ & _ & ->).
  split.
  - unfold pop, set_stack in *; cbn [st_stack] in *. rewrite S. apply removelast_last.
  - intros Q0. apply Q in Q0. exact Q0.
Qed.

(* ================= stack discipline and inheritance of uninterruptedness (all streams) ================= *)
Section Keeps.
Variable order : killer_table -> list move -> Z -> pos -> list rmove -> list rmove.
Variable log_interval : Z.

Lemma currmove_step_keeps st1 st2 : currmove_step log_interval st1 = Ok st2 -> keeps st1 st2.
Proof.
  unfold currmove_step. destruct (log_interval =? 0); [discriminate|].
  destruct (st_nodes st1 mod log_interval =? 0).
  - destruct (nth_error _ _); intros H; inversion H. apply keeps_emit.
  - intros H; inversion H. apply keeps_refl.
Qed.

Section L.
Variable child : sst -> Z -> Z -> result ires.
Hypothesis child_keeps : forall stp a b c, child stp a b = Ok c -> keeps stp (ist c).

Lemma q_loop_keeps beta l : forall alpha line st r, q_loop child beta l alpha line st = Ok r -> keeps st (ist r).
Proof.
  induction l as [|m l IH]; intros alpha line st r H.
  - inversion H. apply keeps_refl.
  - cbn [q_loop] in H. apply bind_ok in H. destruct H as (stp & P & H). apply bind_ok in H. destruct H as (c & C & H).
    cbv zeta in H.
    pose proof (keeps_trans _ _ _ (keeps_push_pop _ _ _ _ P (child_keeps _ _ _ _ C)) (keeps_poll (pop (ist c)))) as K1.
    pose proof (keeps_check_up (poll (pop (ist c)))) as K2. destruct (check_up (poll (pop (ist c)))) as [up st''].
    cbn [snd] in K2. pose proof (keeps_trans _ _ _ K1 K2) as K.
    destruct up; [inversion H; exact K|].
    destruct (- iv c >=? beta); [inversion H; exact K|].
    destruct (- iv c >? alpha).
    + apply bind_ok in H. destruct H as (ln & _ & H). apply IH in H. eapply keeps_trans; eauto.
    + apply IH in H. eapply keeps_trans; eauto.
Qed.

Lemma ab_loop_i_keeps beta p l : forall alpha line st r, ab_loop_i child beta p l alpha line st = Ok r -> keeps st (ist r).
Proof.
  induction l as [|m l IH]; intros alpha line st r H.
  - inversion H. apply keeps_refl.
  - cbn [ab_loop_i] in H. destruct (st_intr st); [inversion H; apply keeps_refl|].
    apply bind_ok in H. destruct H as (stp & P & H). apply bind_ok in H. destruct H as (c & C & H).
    cbv zeta in H. pose proof (keeps_push_pop _ _ _ _ P (child_keeps _ _ _ _ C)) as K1.
    destruct (- iv c >=? beta).
    { inversion H. cbn [ist ir]. destruct (tactical m); [exact K1|]. eapply keeps_trans; [exact K1 | apply keeps_set_killers]. }
    apply bind_ok in H. destruct H as ([alpha' line'] & _ & H).
    pose proof (keeps_check_up (pop (ist c))) as K2. destruct (check_up (pop (ist c))) as [up st''].
    cbn [snd] in K2. pose proof (keeps_trans _ _ _ K1 K2) as K.
    destruct up; [inversion H; exact K|].
    apply IH in H. eapply keeps_trans; [exact K|]. eapply keeps_trans; [apply keeps_poll | exact H].
Qed.

Lemma root_loop_i_keeps target sorted l : forall idx alpha line st r,
  root_loop_i child target sorted l idx alpha line st = Ok r -> keeps st (ist r).
Proof.
  induction l as [|m l IH]; intros idx alpha line st r H.
  - inversion H. apply keeps_set_first.
  - cbn [root_loop_i] in H. cbv zeta in H.
    pose proof (keeps_set_first st idx sorted) as K0.
    destruct (st_intr (set_first st idx sorted)); [inversion H; exact K0|].
    apply bind_ok in H. destruct H as (stp & P & H). apply bind_ok in H. destruct H as (c & C & H).
    pose proof (keeps_trans _ _ _ K0 (keeps_push_pop _ _ _ _ P (child_keeps _ _ _ _ C))) as K1.
    apply bind_ok in H. destruct H as ([[alpha' line'] st1] & A & H).
    assert (K2 : keeps st st1).
    { destruct (- iv c >? alpha).
      - apply bind_ok in A. destruct A as (ln & _ & A).
        pose proof (keeps_pv_due (pop (ist c))) as K3. destruct (pv_print_due (pop (ist c))) as [due st2].
        cbn [snd] in K3. destruct ln as [pv|]; [|discriminate]. inversion A.
        eapply keeps_trans; [exact K1|]. destruct due; [eapply keeps_trans; [exact K3 | apply keeps_emit] | exact K3].
      - inversion A; subst. exact K1. }
    pose proof (keeps_check_up st1) as K4. destruct (check_up st1) as [up st''].
    cbn [snd] in K4. pose proof (keeps_trans _ _ _ K2 K4) as K.
    destruct up; [inversion H; exact K|].
    destruct (next_move_wins (- iv c)); [inversion H; exact K|].
    apply IH in H. eapply keeps_trans; [exact K|]. eapply keeps_trans; [apply keeps_poll | exact H].
Qed.
End L.

Lemma quiesce_i_keeps : forall fuel cand st a b depth r,
  quiesce_i order log_interval fuel cand st a b depth = Ok r -> keeps st (ist r).
Proof.
  induction fuel as [|f IH]; intros cand st a b depth r H; [discriminate H|].
  rewrite quiesce_i_eq in H. destruct (negb (row_ok depth)); [discriminate|].
  apply bind_ok in H. destruct H as ([score st1] & L & H).
  apply lazy_eval_st_ok in L. destruct L as (p & T & L). inversion L; subst score st1. clear L.
  apply bind_ok in H. destruct H as (st2 & CM & H). apply currmove_step_keeps in CM.
  pose proof (keeps_trans _ _ _ (keeps_set_nodes st (st_nodes st + 1)) CM) as K.
  destruct (lazy_eval p depth a b >=? b); [inversion H; exact K|].
  destruct (if lazy_eval p depth a b >? a then (lazy_eval p depth a b, Some []) else (a, None)) as [alpha1 line1].
  apply bind_ok in H. destruct H as (p2 & _ & H). apply bind_ok in H. destruct H as (tms & _ & H).
  apply q_loop_keeps in H; [eapply keeps_trans; eauto|].
  intros stp x y c Hc. eapply IH; exact Hc.
Qed.

Lemma alpha_beta_i_keeps : forall d cand st a b depth r,
  alpha_beta_i order log_interval d cand st a b depth = Ok r -> keeps st (ist r).
Proof.
  induction d as [|k IH]; intros cand st a b depth r H.
  - rewrite alpha_beta_i_eq0 in H. destruct (negb (row_ok depth)); [discriminate|]. eapply quiesce_i_keeps; eauto.
  - rewrite alpha_beta_i_eq in H. destruct (negb (row_ok depth)); [discriminate|].
    apply bind_ok in H. destruct H as (p & T & H). apply bind_ok in H. destruct H as (ms & G & H).
    destruct ms as [|m0 ms].
    + apply bind_ok in H. destruct H as (r0 & TS & H). apply terminal_score_st_ok in TS.
      destruct TS as (q & _ & ->). inversion H. apply keeps_set_nodes.
    + apply ab_loop_i_keeps in H; [exact H|]. intros stp x y c Hc. eapply IH; exact Hc.
Qed.

Lemma root_search_i_keeps target cand st r one :
  root_search_i order log_interval target cand st = Ok (r, one) -> keeps st (ist r).
Proof.
  intros H. rewrite root_search_i_eq in H. destruct (negb (row_ok 0)); [discriminate|].
  apply bind_ok in H. destruct H as (p & T & H). apply bind_ok in H. destruct H as (ms & G & H).
  destruct ms as [|m0 ms].
  - apply bind_ok in H. destruct H as (r0 & TS & H). apply terminal_score_st_ok in TS.
    destruct TS as (q & _ & ->). inversion H. apply keeps_set_nodes.
  - cbv zeta in H. apply bind_ok in H. destruct H as (r' & H & E). inversion E; subst r'.
    apply root_loop_i_keeps in H; [exact H|]. intros stp x y c Hc. eapply alpha_beta_i_keeps; exact Hc.
Qed.
End Keeps.

(* ================= PART 1: value transparency ================= *)
(* every quiescence node of the FULL depth-d tree below p satisfies the lazy-evaluation assumption *)
Fixpoint qtree_ok (fuel : nat) (p : pos) (depth : Z) : Prop :=
  match fuel with O => True | S f =>
    lazy_sensitive p depth = false /\
    forall tms m p', gen_tactical p = Ok tms -> In m tms -> make_legal p (rm m) = Ok p' -> qtree_ok f p' (depth + 1)
  end.
Fixpoint tree_ok (d : nat) (p : pos) (depth : Z) : Prop :=
  match d with
  | O => qtree_ok qfuel p depth
  | S k => forall ms m p', gen_legal p = Ok ms -> In m ms -> make_legal p (rm m) = Ok p' -> tree_ok k p' (depth + 1)
  end.

Lemma keeps_top st st' p : keeps st st' -> quiet st -> top st = Ok p -> quiet st' /\ top st' = Ok p.
Proof. intros [S Q] Q0 T. split; [auto|]. rewrite (top_stack_eq _ _ S). exact T. Qed.

Lemma rfold_perm_ok p ref l l' x v : Permutation l' l -> rfold p ref l (Ok x) = Ok v -> rfold p ref l' (Ok x) = Ok v.
Proof. intros P H. apply val_ok. rewrite (rfold_perm p ref _ _ P). apply val_ok. exact H. Qed.

Section ValueLoops.
Variable child : sst -> Z -> Z -> result ires.
Variable p : pos.
Variable ref : pos -> result Z.
Variable okc : pos -> Prop.
Hypothesis child_keeps : forall stp a b c, child stp a b = Ok c -> keeps stp (ist c).
Hypothesis child_bc : forall stp p' a b c w,
  a < b -> wok a b -> quiet stp -> top stp = Ok p' -> okc p' -> child stp a b = Ok c -> ref p' = Ok w -> bc a b (iv c) w.

(* one move of any of the three loops, uninterrupted *)
Lemma step_quiet st m stp x y c : quiet st -> top st = Ok p -> push st (rm m) = Ok stp -> child stp x y = Ok c ->
  exists p', make_legal p (rm m) = Ok p' /\ quiet stp /\ top stp = Ok p' /\ quiet (pop (ist c)) /\ top (pop (ist c)) = Ok p.
Proof.
  intros Q T P C. destruct (push_top _ _ _ _ P T) as (p' & M & T' & Q').
  destruct (keeps_top _ _ _ (keeps_push_pop _ _ _ _ P (child_keeps _ _ _ _ C)) Q T) as [Q1 T1].
  exists p'. auto.
Qed.
Lemma check_up_quiet st : quiet st -> top st = Ok p ->
  exists st'', check_up st = (false, st'') /\ quiet st'' /\ top st'' = Ok p.
Proof.
  intros Q T. pose proof (quiet_check_up _ Q) as U. pose proof (keeps_check_up st) as K.
  destruct (check_up st) as [up st'']. cbn [fst snd] in *. subst up.
  destruct (keeps_top _ _ _ K Q T). eauto.
Qed.

Lemma q_loop_bc beta l : forall alpha line st v0 r v a0,
  alpha = Z.max a0 v0 -> alpha < beta -> wok a0 beta -> quiet st -> top st = Ok p ->
  (forall m p', In m l -> make_legal p (rm m) = Ok p' -> okc p') ->
  q_loop child beta l alpha line st = Ok r -> rfold p ref l (Ok v0) = Ok v -> bc a0 beta (iv r) v.
Proof.
  induction l as [|m l IH]; intros alpha line st v0 r v a0 A B W Q T OKC H R.
  - cbn in H, R. inversion H; inversion R; subst. cbn. unfold bc. lia.
  - apply rfold_cons in R. destruct R as (p'' & w & R1 & R2 & R).
    cbn [q_loop] in H. apply bind_ok in H. destruct H as (stp & P & H). apply bind_ok in H. destruct H as (c & C & H).
    destruct (step_quiet _ _ _ _ _ _ Q T P C) as (p' & M & Q' & T' & Q1 & T1).
    rewrite R1 in M. inversion M; subst p''. clear M.
    destruct (keeps_top _ _ _ (keeps_poll (pop (ist c))) Q1 T1) as [Q1p T1p].
    destruct (check_up_quiet _ Q1p T1p) as (st'' & CU & Q2 & T2).
    cbv zeta in H. rewrite CU in H. cbv beta iota in H.
    assert (W' : wok (- beta) (- alpha)) by (apply wok_neg; eapply wok_sub; [exact W | lia | lia]).
    pose proof (child_bc stp p' (- beta) (- alpha) c w ltac:(lia) W' Q' T' (OKC m p' (or_introl eq_refl) R1) C R2) as Cb.
    assert (OKC' : forall m p', In m l -> make_legal p (rm m) = Ok p' -> okc p') by (intros; eapply OKC; eauto; right; assumption).
    destruct (- iv c >=? beta) eqn:E1.
    + inversion H; subst r. cbn. apply rfold_ge in R. unfold bc in *. lia.
    + destruct (- iv c >? alpha) eqn:E2.
      * apply bind_ok in H. destruct H as (ln & _ & H).
        eapply IH in H; [exact H | | lia | exact W | exact Q2 | exact T2 | exact OKC' | exact R]. unfold bc in Cb. lia.
      * eapply IH in H; [exact H | | lia | exact W | exact Q2 | exact T2 | exact OKC' | exact R]. unfold bc in Cb. lia.
Qed.

Lemma ab_loop_i_bc beta l : forall alpha line st v0 r v a0,
  alpha = Z.max a0 v0 -> alpha < beta -> wok a0 beta -> quiet st -> top st = Ok p ->
  (forall m p', In m l -> make_legal p (rm m) = Ok p' -> okc p') ->
  ab_loop_i child beta p l alpha line st = Ok r -> rfold p ref l (Ok v0) = Ok v -> bc a0 beta (iv r) v.
Proof.
  induction l as [|m l IH]; intros alpha line st v0 r v a0 A B W Q T OKC H R.
  - cbn in H, R. inversion H; inversion R; subst. cbn. unfold bc. lia.
  - apply rfold_cons in R. destruct R as (p'' & w & R1 & R2 & R).
    cbn [ab_loop_i] in H. pose proof Q as (I & _). rewrite I in H.
    apply bind_ok in H. destruct H as (stp & P & H). apply bind_ok in H. destruct H as (c & C & H).
    destruct (step_quiet _ _ _ _ _ _ Q T P C) as (p' & M & Q' & T' & Q1 & T1).
    rewrite R1 in M. inversion M; subst p''. clear M.
    destruct (check_up_quiet _ Q1 T1) as (st'' & CU & Q2 & T2).
    cbv zeta in H. rewrite CU in H.
    assert (W' : wok (- beta) (- alpha)) by (apply wok_neg; eapply wok_sub; [exact W | lia | lia]).
    pose proof (child_bc stp p' (- beta) (- alpha) c w ltac:(lia) W' Q' T' (OKC m p' (or_introl eq_refl) R1) C R2) as Cb.
    assert (OKC' : forall m p', In m l -> make_legal p (rm m) = Ok p' -> okc p') by (intros; eapply OKC; eauto; right; assumption).
    destruct (keeps_top _ _ _ (keeps_poll st'') Q2 T2) as [Q3 T3].
    destruct (- iv c >=? beta) eqn:E1.
    + inversion H; subst r. cbn. apply rfold_ge in R. unfold bc in *. lia.
    + destruct (- iv c >? alpha) eqn:E2.
      * apply bind_ok in H. destruct H as ([alpha' line'] & A' & H).
        apply bind_ok in A'. destruct A' as (ln & _ & A'). inversion A'; subst alpha' line'. cbv beta iota in H.
        eapply IH in H; [exact H | | lia | exact W | exact Q3 | exact T3 | exact OKC' | exact R]. unfold bc in Cb. lia.
      * cbn [bind] in H. cbv beta iota in H.
        eapply IH in H; [exact H | | lia | exact W | exact Q3 | exact T3 | exact OKC' | exact R]. unfold bc in Cb. lia.
Qed.

Lemma root_loop_i_val target sorted l : forall idx alpha line st v0 r v,
  alpha = Z.max (- InfinityScore) v0 -> alpha <= - LostScore - 1 -> quiet st -> top st = Ok p ->
  (forall m p', In m l -> make_legal p (rm m) = Ok p' -> okc p') ->
  (forall m p' w, In m l -> make_legal p (rm m) = Ok p' -> ref p' = Ok w -> - w <= - LostScore - 1) ->
  root_loop_i child target sorted l idx alpha line st = Ok r -> rfold p ref l (Ok v0) = Ok v ->
  - InfinityScore < v -> iv r = v.
Proof.
  induction l as [|m l IH]; intros idx alpha line st v0 r v A B Q T OKC HB H R V.
  - cbn [root_loop_i] in H. cbn [rfold fold_left] in R. inversion H; inversion R; subst. cbn [iv ir]. lia.
  - apply rfold_cons in R. destruct R as (p'' & w & R1 & R2 & R).
    cbn [root_loop_i] in H. cbv zeta in H.
    destruct (keeps_top _ _ _ (keeps_set_first st idx sorted) Q T) as [Q0 T0].
    pose proof Q0 as (I & _). rewrite I in H.
    apply bind_ok in H. destruct H as (stp & P & H). apply bind_ok in H. destruct H as (c & C & H).
    destruct (step_quiet _ _ _ _ _ _ Q0 T0 P C) as (p' & M & Q' & T' & Q1 & T1).
    rewrite R1 in M. inversion M; subst p''. clear M.
    pose proof (HB m p' w (or_introl eq_refl) R1 R2) as Hw.
    assert (HB' : forall m p' w, In m l -> make_legal p (rm m) = Ok p' -> ref p' = Ok w -> - w <= - LostScore - 1)
      by (intros; eapply HB; eauto; right; assumption).
    assert (OKC' : forall m p', In m l -> make_legal p (rm m) = Ok p' -> okc p') by (intros; eapply OKC; eauto; right; assumption).
    assert (W' : wok (- InfinityScore) (- alpha)) by (left; lia).
    assert (AB : - InfinityScore < - alpha) by (unfold InfinityScore, LostScore in *; lia).
    pose proof (child_bc stp p' (- InfinityScore) (- alpha) c w AB W' Q' T' (OKC m p' (or_introl eq_refl) R1) C R2) as Cb.
    pose proof (rfold_ge _ _ _ _ _ R) as Rge.
    assert (Rle : v <= - LostScore - 1) by (eapply rfold_le; [exact HB' | | exact R]; lia).
    apply bind_ok in H. destruct H as ([[alpha' line'] st1] & AL & H).
    assert (A1 : alpha' = Z.max alpha (- iv c) /\ keeps (pop (ist c)) st1).
    { destruct (- iv c >? alpha) eqn:E1.
      - apply bind_ok in AL. destruct AL as (ln & _ & AL).
        pose proof (keeps_pv_due (pop (ist c))) as K3. destruct (pv_print_due (pop (ist c))) as [due st2].
        cbn [snd] in K3. destruct ln as [pv|]; [|discriminate]. inversion AL. split; [lia|].
        destruct due; [eapply keeps_trans; [exact K3 | apply keeps_emit] | exact K3].
      - inversion AL; subst. split; [lia | apply keeps_refl]. }
    destruct A1 as (A1 & K1). destruct (keeps_top _ _ _ K1 Q1 T1) as [Q1' T1'].
    destruct (check_up_quiet _ Q1' T1') as (st'' & CU & Q2 & T2).
    rewrite CU in H. cbv beta iota in H.
    destruct (keeps_top _ _ _ (keeps_poll st'') Q2 T2) as [Q3 T3].
    unfold bc in Cb. unfold next_move_wins in H.
    destruct (- iv c =? - LostScore - 1) eqn:E2.
    + inversion H; subst r. cbn [iv ir]. unfold InfinityScore, LostScore in *. lia.
    + eapply IH in H; [exact H | | | exact Q3 | exact T3 | exact OKC' | exact HB' | exact R | exact V];
        unfold InfinityScore, LostScore in *; lia.
Qed.
End ValueLoops.

Section Value.
Variable order : killer_table -> list move -> Z -> pos -> list rmove -> list rmove.
Hypothesis order_perm : forall k c d p l, Permutation (order k c d p l) l.
Variable log_interval : Z.

Lemma quiesce_i_value_gen : forall fuel cand st a b depth r p v, a < b -> wok a b ->
  quiet st -> top st = Ok p -> qtree_ok fuel p depth ->
  quiesce_i order log_interval fuel cand st a b depth = Ok r -> mm_quiesce fuel p depth = Ok v -> bc a b (iv r) v.
Proof.
  induction fuel as [|f IH]; intros cand st a b depth r p v AB W Q T OKT H M; [discriminate H|].
  rewrite quiesce_i_eq in H. rewrite mm_quiesce_eq in M.
  destruct (negb (row_ok depth)); [discriminate|].
  rewrite (lazy_eval_st_eq _ _ _ _ _ T) in H. cbn [bind] in H. cbv beta iota in H.
  apply bind_ok in H. destruct H as (st2 & CM & H). apply currmove_step_keeps in CM.
  destruct (keeps_top _ _ _ (keeps_trans _ _ _ (keeps_set_nodes st (st_nodes st + 1)) CM) Q T) as [Q2 T2].
  apply bind_ok in M. destruct M as (tms & G & R).
  pose proof (rfold_ge _ _ _ _ _ R) as Rge.
  destruct OKT as (S0 & OKT).
  pose proof (lazy_fact p depth a b W S0) as L.
  destruct (lazy_eval p depth a b >=? b) eqn:E1.
  - inversion H; subst r. cbn. unfold bc. lia.
  - assert (exists alpha1 line1,
        q_loop (fun stp x y => quiesce_i order log_interval f cand stp x y (depth + 1)) b
          (order (st_killers st2) cand depth p tms) alpha1 line1 st2 = Ok r
        /\ alpha1 = Z.max a (lazy_eval p depth a b)) as (alpha1 & line1 & H' & A1).
    { destruct (lazy_eval p depth a b >? a) eqn:E2; cbv beta iota in H; rewrite T2 in H; cbn [bind] in H;
        rewrite G in H; cbn [bind] in H; do 2 eexists; (split; [exact H | lia]). }
    clear H.
    eapply q_loop_bc with (ref := fun p' => mm_quiesce f p' (depth + 1)) (v0 := evaluate p depth)
        (okc := fun p' => qtree_ok f p' (depth + 1));
      [ | | | | exact W | exact Q2 | exact T2 | | exact H' | eapply rfold_perm_ok; [apply order_perm | exact R] ].
    + intros stp x y c Hc. eapply quiesce_i_keeps; exact Hc.
    + intros stp p' a' b' c w AB' W' Q' T' O' Hc Hw. exact (IH _ _ _ _ _ _ _ _ AB' W' Q' T' O' Hc Hw).
    + lia.
    + lia.
    + intros m p' I ML. eapply OKT; [exact G | | exact ML]. eapply Permutation_in; [apply order_perm | exact I].
Qed.

Lemma alpha_beta_i_value_gen : forall d cand st a b depth r p v, a < b -> wok a b ->
  quiet st -> top st = Ok p -> tree_ok d p depth ->
  alpha_beta_i order log_interval d cand st a b depth = Ok r -> minimax d p depth = Ok v -> bc a b (iv r) v.
Proof.
  induction d as [|k IH]; intros cand st a b depth r p v AB W Q T OKT H M.
  - rewrite alpha_beta_i_eq0 in H. destruct (negb (row_ok depth)); [discriminate|].
    eapply quiesce_i_value_gen; eauto.
  - rewrite alpha_beta_i_eq in H. rewrite minimax_eq in M.
    destruct (negb (row_ok depth)); [discriminate|].
    rewrite T in H. cbn [bind] in H.
    apply bind_ok in H. destruct H as (ms & G & H).
    rewrite G in M. cbn [bind] in M.
    destruct ms as [|m0 r0].
    + apply bind_ok in H. destruct H as (r1 & TS & H). apply terminal_score_st_ok in TS.
      destruct TS as (q & Tq & ->). rewrite T in Tq. inversion Tq; subst q.
      inversion H; inversion M; subst. cbn. apply bc_refl.
    + apply bind_ok in M. destruct M as (p0 & M1 & M). apply bind_ok in M. destruct M as (w0 & M2 & R).
      pose proof (rfold_seed p (fun p' => minimax k p' (depth + 1)) m0 r0 p0 w0 v (Z.min a v) M1 M2 R ltac:(lia)) as R'.
      eapply ab_loop_i_bc with (ref := fun p' => minimax k p' (depth + 1)) (v0 := Z.min a v)
          (okc := fun p' => tree_ok k p' (depth + 1));
        [ | | | | exact W | exact Q | exact T | | exact H | eapply rfold_perm_ok; [apply order_perm | exact R'] ].
      * intros stp x y c Hc. eapply alpha_beta_i_keeps; exact Hc.
      * intros stp p' a' b' c w AB' W' Q' T' O' Hc Hw. exact (IH _ _ _ _ _ _ _ _ AB' W' Q' T' O' Hc Hw).
      * lia.
      * lia.
      * intros m p' I ML. eapply (OKT _ m p' G); [|exact ML]. eapply Permutation_in; [apply order_perm | exact I].
Qed.

(* ---------- the theorems ---------- *)
Theorem quiesce_i_value : forall fuel cand st a b depth r p v,
  a < b -> - InfinityScore <= a -> b <= InfinityScore ->
  quiet st -> top st = Ok p ->
  quiesce_i order log_interval fuel cand st a b depth = Ok r -> mm_quiesce fuel p depth = Ok v ->
  qtree_ok fuel p depth -> bc a b (iv r) v.
Proof. intros. eapply quiesce_i_value_gen; eauto. left; lia. Qed.

Theorem alpha_beta_i_value : forall d cand st a b depth r p v,
  a < b -> - InfinityScore <= a -> b <= InfinityScore ->
  quiet st -> top st = Ok p ->
  alpha_beta_i order log_interval d cand st a b depth = Ok r -> minimax d p depth = Ok v ->
  tree_ok d p depth -> bc a b (iv r) v.
Proof. intros. eapply alpha_beta_i_value_gen; eauto. left; lia. Qed.

Theorem quiesce_i_value_psq : psq_small -> forall fuel cand st a b depth r p v, a < b ->
  quiet st -> top st = Ok p ->
  quiesce_i order log_interval fuel cand st a b depth = Ok r -> mm_quiesce fuel p depth = Ok v ->
  qtree_ok fuel p depth -> bc a b (iv r) v.
Proof. intros P; intros. eapply quiesce_i_value_gen; eauto. right; exact P. Qed.

Theorem alpha_beta_i_value_psq : psq_small -> forall d cand st a b depth r p v, a < b ->
  quiet st -> top st = Ok p ->
  alpha_beta_i order log_interval d cand st a b depth = Ok r -> minimax d p depth = Ok v ->
  tree_ok d p depth -> bc a b (iv r) v.
Proof. intros P; intros. eapply alpha_beta_i_value_gen; eauto. right; exact P. Qed.

(* the literal statement of the task: both streams empty *)
Corollary alpha_beta_i_value_nil : forall d cand st a b depth r p v,
  a < b -> - InfinityScore <= a -> b <= InfinityScore ->
  st_intr st = false -> st_polls st = [] -> st_clock st = [] -> top st = Ok p ->
  alpha_beta_i order log_interval d cand st a b depth = Ok r -> minimax d p depth = Ok v ->
  tree_ok d p depth -> bc a b (iv r) v.
Proof. intros. eapply alpha_beta_i_value; eauto. apply quiet_nil; assumption. Qed.
Corollary quiesce_i_value_nil : forall fuel cand st a b depth r p v,
  a < b -> - InfinityScore <= a -> b <= InfinityScore ->
  st_intr st = false -> st_polls st = [] -> st_clock st = [] -> top st = Ok p ->
  quiesce_i order log_interval fuel cand st a b depth = Ok r -> mm_quiesce fuel p depth = Ok v ->
  qtree_ok fuel p depth -> bc a b (iv r) v.
Proof. intros. eapply quiesce_i_value; eauto. apply quiet_nil; assumption. Qed.

(* a completed root iteration returns exactly the minimax value *)
Theorem root_search_i_value : forall d cand st r one p v,
  quiet st -> top st = Ok p ->
  root_search_i order log_interval (S d) cand st = Ok (r, one) -> minimax (S d) p 0 = Ok v ->
  tree_ok (S d) p 0 ->
  (forall ms m p' w, gen_legal p = Ok ms -> In m ms -> make_legal p (rm m) = Ok p' -> minimax d p' 1 = Ok w -> - w <= - LostScore - 1) ->
  - InfinityScore < v -> iv r = v.
Proof.
  intros d cand st r one p v Q T H M OKT HB V.
  rewrite root_search_i_eq in H. rewrite minimax_eq in M.
  destruct (negb (row_ok 0)); [discriminate|].
  rewrite T in H. cbn [bind] in H.
  apply bind_ok in H. destruct H as (ms & G & H).
  rewrite G in M. cbn [bind] in M. specialize (HB ms).
  destruct ms as [|m0 r0].
  - apply bind_ok in H. destruct H as (r1 & TS & H). apply terminal_score_st_ok in TS.
    destruct TS as (q & Tq & ->). rewrite T in Tq. inversion Tq; subst q.
    inversion H; inversion M; subst. reflexivity.
  - cbv zeta in H. apply bind_ok in H. destruct H as (r' & H & E). inversion E; subst r'. clear E.
    apply bind_ok in M. destruct M as (p0 & M1 & M). apply bind_ok in M. destruct M as (w0 & M2 & R).
    pose proof (rfold_seed p (fun p' => minimax d p' (0 + 1)) m0 r0 p0 w0 v (Z.min (- InfinityScore) v) M1 M2 R ltac:(lia)) as R'.
    eapply root_loop_i_val with (ref := fun p' => minimax d p' (0 + 1)) (v0 := Z.min (- InfinityScore) v)
        (okc := fun p' => tree_ok d p' (0 + 1));
      [ | | | | exact Q | exact T | | | exact H | eapply rfold_perm_ok; [apply order_perm | exact R'] | exact V ].
    + intros stp x y c Hc. eapply alpha_beta_i_keeps; exact Hc.
    + intros stp p' a' b' c w AB' W' Q' T' O' Hc Hw. exact (alpha_beta_i_value_gen _ _ _ _ _ _ _ _ _ AB' W' Q' T' O' Hc Hw).
    + lia.
    + unfold InfinityScore, LostScore. lia.
    + intros m p' I ML. eapply (OKT _ m p' G); [|exact ML]. eapply Permutation_in; [apply order_perm | exact I].
    + intros m p' w I L Hw. eapply HB; [exact G | | exact L | exact Hw].
      eapply Permutation_in; [apply order_perm | exact I].
Qed.

(* chaining: an uninterrupted call leaves an uninterrupted state with the same stack (hence the same top) *)
Theorem quiesce_i_quiet : forall fuel cand st a b depth r,
  quiesce_i order log_interval fuel cand st a b depth = Ok r -> quiet st -> quiet (ist r) /\ st_stack (ist r) = st_stack st.
Proof. intros. destruct (quiesce_i_keeps _ _ _ _ _ _ _ _ _ H). auto. Qed.
Theorem alpha_beta_i_quiet : forall d cand st a b depth r,
  alpha_beta_i order log_interval d cand st a b depth = Ok r -> quiet st -> quiet (ist r) /\ st_stack (ist r) = st_stack st.
Proof. intros. destruct (alpha_beta_i_keeps _ _ _ _ _ _ _ _ _ H). auto. Qed.
Theorem root_search_i_quiet : forall target cand st r one,
  root_search_i order log_interval target cand st = Ok (r, one) -> quiet st -> quiet (ist r) /\ st_stack (ist r) = st_stack st.
Proof. intros. destruct (root_search_i_keeps _ _ _ _ _ _ _ H). auto. Qed.
End Value.

(* ================= PART 2: all-false oracle values are unobservable ================= *)
(* forget the (all-false) remainders of the poll and clock streams *)
Definition erase (st : sst) : sst :=
  {| st_stack := st_stack st; st_nodes := st_nodes st; st_intr := st_intr st; st_killers := st_killers st;
     st_polls := []; st_clock := []; st_pvclock := st_pvclock st; st_first := st_first st;
     st_root_moves := st_root_moves st; st_out := st_out st |}.
Definition smap {A B} (f : A -> B) (r : result A) : result B := match r with Ok a => Ok (f a) | Panic w => Panic w end.
Definition erase_r (r : ires) : ires := ir (iv r) (iline r) (erase (ist r)).

Lemma quiet_erase st : quiet st -> quiet (erase st).
Proof. unfold quiet, allf. intros (I & _ & _). cbn. auto. Qed.
Lemma erase_idem st : erase (erase st) = erase st.
Proof. reflexivity. Qed.
Lemma push_erase st m : push (erase st) m = smap erase (push st m).
Proof.
  unfold push. change (ply_idx (erase st)) with (ply_idx st). change (top (erase st)) with (top st).
  destruct (plyBufferCapacity <=? ply_idx st + 1); [reflexivity|].
  destruct (top st) as [p|]; cbn [bind smap]; [|reflexivity].
  destruct (make_legal p m); reflexivity.
Qed.
Lemma push_quiet st m stp : push st m = Ok stp -> quiet st -> quiet stp.
Proof. intros H Q. apply push_ok in H. destruct H as (p & p' & _ & _ & ->). exact Q. Qed.
Lemma erase_poll st : quiet st -> erase (poll st) = erase st.
Proof.
  intros (I & P & C). unfold poll. destruct (st_polls st) as [|b r] eqn:E; [reflexivity|].
  inversion P; subst. unfold erase; cbn. rewrite I. reflexivity.
Qed.
Lemma check_up_erase st : quiet st ->
  exists st'', check_up st = (false, st'') /\ check_up (erase st) = (false, erase st) /\ erase st'' = erase st /\ quiet st''.
Proof.
  intros Q. pose proof Q as (I & P & C). unfold check_up. cbn [erase st_intr]. rewrite I.
  unfold time_up. cbn [st_clock]. destruct (st_clock st) as [|b r] eqn:E.
  - exists st. auto.
  - inversion C; subst. eexists. split; [reflexivity|]. split; [reflexivity|]. split; [reflexivity|].
    split; [exact I|]. split; assumption.
Qed.
Lemma pv_due_erase st : pv_print_due (erase st) = (fst (pv_print_due st), erase (snd (pv_print_due st))).
Proof. unfold pv_print_due. cbn [erase st_pvclock]. destruct (st_pvclock st); reflexivity. Qed.
Lemma lazy_eval_st_erase st depth a b :
  lazy_eval_st (erase st) depth a b = smap (fun r => (fst r, erase (snd r))) (lazy_eval_st st depth a b).
Proof.
  destruct (top st) as [p|w] eqn:T.
  - rewrite (lazy_eval_st_eq st p) by exact T. rewrite (lazy_eval_st_eq (erase st) p) by exact T. reflexivity.
  - unfold lazy_eval_st. change (top (erase st)) with (top st). rewrite T. reflexivity.
Qed.
Lemma terminal_score_st_erase st depth :
  terminal_score_st (erase st) depth = smap (fun r => (fst r, erase (snd r))) (terminal_score_st st depth).
Proof. unfold terminal_score_st. change (top (erase st)) with (top st). destruct (top st); reflexivity. Qed.
Lemma currmove_step_erase li st : currmove_step li (erase st) = smap erase (currmove_step li st).
Proof.
  unfold currmove_step. cbn [erase st_nodes st_root_moves st_first].
  destruct (li =? 0); [reflexivity|]. destruct (st_nodes st mod li =? 0); [|reflexivity].
  destruct (nth_error _ _); reflexivity.
Qed.

Section EraseLoops.
Variable child : sst -> Z -> Z -> result ires.
Hypothesis child_keeps : forall stp a b c, child stp a b = Ok c -> keeps stp (ist c).
Hypothesis child_erase : forall stp x y, quiet stp -> child (erase stp) x y = smap erase_r (child stp x y).

Lemma q_loop_erase beta l : forall alpha line st, quiet st ->
  q_loop child beta l alpha line (erase st) = smap erase_r (q_loop child beta l alpha line st).
Proof.
  induction l as [|m l IH]; intros alpha line st Q; [reflexivity|].
  cbn [q_loop]. rewrite push_erase. destruct (push st (rm m)) as [stp|w] eqn:P; cbn [smap bind]; [|reflexivity].
  rewrite child_erase by (eapply push_quiet; eauto).
  destruct (child stp (- beta) (- alpha)) as [c|w] eqn:C; cbn [smap bind]; [|reflexivity].
  cbv zeta. cbn [erase_r ist iv iline ir]. change (poll (pop (erase (ist c)))) with (erase (pop (ist c))).
  destruct (keeps_push_pop _ _ _ _ P (child_keeps _ _ _ _ C)) as [_ Q1]. specialize (Q1 Q).
  rewrite <- (erase_poll _ Q1).
  destruct (keeps_poll (pop (ist c))) as [_ Q1p]. specialize (Q1p Q1).
  destruct (check_up_erase _ Q1p) as (st'' & CU & CUE & ES & Q2). rewrite CU, CUE. cbv beta iota.
  rewrite <- ES.
  destruct (- iv c >=? beta); [reflexivity|].
  destruct (- iv c >? alpha); [|apply IH; exact Q2].
  destruct (extend (rm m) (iline c)); cbn [bind smap]; [apply IH; exact Q2 | reflexivity].
Qed.

Lemma ab_loop_i_erase beta p l : forall alpha line st, quiet st ->
  ab_loop_i child beta p l alpha line (erase st) = smap erase_r (ab_loop_i child beta p l alpha line st).
Proof.
  induction l as [|m l IH]; intros alpha line st Q; [reflexivity|].
  cbn [ab_loop_i]. cbn [erase st_intr]. change (st_intr st) with (st_intr st). destruct (st_intr st); [reflexivity|].
  fold (erase st). rewrite push_erase. destruct (push st (rm m)) as [stp|w] eqn:P; cbn [smap bind]; [|reflexivity].
  rewrite child_erase by (eapply push_quiet; eauto).
  destruct (child stp (- beta) (- alpha)) as [c|w] eqn:C; cbn [smap bind]; [|reflexivity].
  cbv zeta. cbn [erase_r ist iv iline ir]. change (pop (erase (ist c))) with (erase (pop (ist c))).
  destruct (keeps_push_pop _ _ _ _ P (child_keeps _ _ _ _ C)) as [_ Q1]. specialize (Q1 Q).
  destruct (- iv c >=? beta).
  { destruct (tactical m); reflexivity. }
  destruct (check_up_erase _ Q1) as (st'' & CU & CUE & ES & Q2). rewrite CU, CUE.
  assert (E : forall al ln, ab_loop_i child beta p l al ln (poll (erase (pop (ist c)))) =
                            smap erase_r (ab_loop_i child beta p l al ln (poll st''))).
  { intros al ln. change (poll (erase (pop (ist c)))) with (erase (pop (ist c))). rewrite <- ES.
    rewrite <- (erase_poll _ Q2). apply IH. destruct (keeps_poll st'') as [_ K]. auto. }
  destruct (- iv c >? alpha).
  - destruct (extend (rm m) (iline c)); cbn [bind smap]; [|reflexivity]. cbv beta iota. apply E.
  - cbn [bind]. cbv beta iota. apply E.
Qed.

Lemma root_loop_i_erase target sorted l : forall idx alpha line st, quiet st ->
  root_loop_i child target sorted l idx alpha line (erase st) = smap erase_r (root_loop_i child target sorted l idx alpha line st).
Proof.
  induction l as [|m l IH]; intros idx alpha line st Q; [reflexivity|].
  cbn [root_loop_i]. cbv zeta.
  change (set_first (erase st) idx sorted) with (erase (set_first st idx sorted)).
  destruct (keeps_set_first st idx sorted) as [_ Q0]. specialize (Q0 Q).
  set (st0 := set_first st idx sorted) in *. clearbody st0.
  change (st_intr (erase st0)) with (st_intr st0). destruct (st_intr st0); [reflexivity|].
  rewrite push_erase. destruct (push st0 (rm m)) as [stp|w] eqn:P; cbn [smap bind]; [|reflexivity].
  rewrite child_erase by (eapply push_quiet; eauto).
  destruct (child stp (- InfinityScore) (- alpha)) as [c|w] eqn:C; cbn [smap bind]; [|reflexivity].
  cbn [erase_r ist iv iline ir]. change (pop (erase (ist c))) with (erase (pop (ist c))).
  destruct (keeps_push_pop _ _ _ _ P (child_keeps _ _ _ _ C)) as [_ Q1]. specialize (Q1 Q0).
  set (st' := pop (ist c)) in *. clearbody st'.
  assert (TAIL : forall al ln st1, quiet st1 ->
    (let '(up, st'') := check_up (erase st1) in
     if up then Ok (ir al ln st'') else if next_move_wins (- iv c) then Ok (ir al ln st'')
     else root_loop_i child target sorted l (idx + 1) al ln (poll st'')) =
    smap erase_r
    (let '(up, st'') := check_up st1 in
     if up then Ok (ir al ln st'') else if next_move_wins (- iv c) then Ok (ir al ln st'')
     else root_loop_i child target sorted l (idx + 1) al ln (poll st''))).
  { intros al ln st1 Qs. destruct (check_up_erase _ Qs) as (st'' & CU & CUE & ES & Q2). rewrite CU, CUE. cbv beta iota.
    rewrite <- ES. destruct (next_move_wins (- iv c)); [reflexivity|].
    change (poll (erase st'')) with (erase st''). rewrite <- (erase_poll _ Q2). apply IH.
    destruct (keeps_poll st'') as [_ K]. auto. }
  destruct (- iv c >? alpha).
  - destruct (extend (rm m) (iline c)) as [ln|w]; cbn [bind smap]; [|reflexivity].
    rewrite pv_due_erase. pose proof (keeps_pv_due st') as [_ K3]. specialize (K3 Q1).
    destruct (pv_print_due st') as [due st2]. cbn [fst snd] in *.
    destruct ln as [pv|]; cbn [bind smap]; [|reflexivity]. cbv beta iota.
    destruct due.
    + change (emit (erase st2) (EvInfoScore (- iv c) (Z.of_nat target) (st_nodes (erase st2)) pv))
        with (erase (emit st2 (EvInfoScore (- iv c) (Z.of_nat target) (st_nodes st2) pv))).
      apply TAIL. exact K3.
    + apply TAIL. exact K3.
  - cbn [bind]. cbv beta iota. apply TAIL. exact Q1.
Qed.
End EraseLoops.

Section Erase.
Variable order : killer_table -> list move -> Z -> pos -> list rmove -> list rmove.
Variable log_interval : Z.

Lemma quiesce_i_erase : forall fuel cand st a b depth, quiet st ->
  quiesce_i order log_interval fuel cand (erase st) a b depth = smap erase_r (quiesce_i order log_interval fuel cand st a b depth).
Proof.
  induction fuel as [|f IH]; intros cand st a b depth Q; [reflexivity|].
  rewrite !quiesce_i_eq. destruct (negb (row_ok depth)); [reflexivity|].
  rewrite lazy_eval_st_erase.
  destruct (lazy_eval_st st depth a b) as [[score st1]|w] eqn:L; cbn [smap bind fst snd]; [|reflexivity].
  apply lazy_eval_st_ok in L. destruct L as (p & T & L).
  assert (Q1 : quiet st1) by (inversion L; subst; exact Q). clear L.
  rewrite currmove_step_erase.
  destruct (currmove_step log_interval st1) as [st2|w] eqn:CM; cbn [smap bind]; [|reflexivity].
  apply currmove_step_keeps in CM. destruct CM as [_ Q2]. specialize (Q2 Q1).
  destruct (score >=? b); [reflexivity|].
  destruct (if score >? a then (score, Some []) else (a, None)) as [alpha1 line1].
  change (top (erase st2)) with (top st2). destruct (top st2) as [p2|w]; cbn [bind smap]; [|reflexivity].
  destruct (gen_tactical p2) as [tms|w]; cbn [bind smap]; [|reflexivity].
  change (st_killers (erase st2)) with (st_killers st2).
  apply q_loop_erase; [ | | exact Q2].
  - intros stp x y c Hc. eapply quiesce_i_keeps; exact Hc.
  - intros stp x y Qs. apply IH. exact Qs.
Qed.

Lemma alpha_beta_i_erase : forall d cand st a b depth, quiet st ->
  alpha_beta_i order log_interval d cand (erase st) a b depth = smap erase_r (alpha_beta_i order log_interval d cand st a b depth).
Proof.
  induction d as [|k IH]; intros cand st a b depth Q.
  - rewrite !alpha_beta_i_eq0. destruct (negb (row_ok depth)); [reflexivity|]. apply quiesce_i_erase. exact Q.
  - rewrite !alpha_beta_i_eq. destruct (negb (row_ok depth)); [reflexivity|].
    change (top (erase st)) with (top st). destruct (top st) as [p|w]; cbn [bind smap]; [|reflexivity].
    destruct (gen_legal p) as [ms|w]; cbn [bind smap]; [|reflexivity].
    destruct ms as [|m0 ms].
    + rewrite terminal_score_st_erase. destruct (terminal_score_st st depth) as [[s st1]|w]; reflexivity.
    + change (st_killers (erase st)) with (st_killers st).
      apply ab_loop_i_erase; [ | | exact Q].
      * intros stp x y c Hc. eapply alpha_beta_i_keeps; exact Hc.
      * intros stp x y Qs. apply IH. exact Qs.
Qed.

Definition erase_r2 (r : ires * bool) : ires * bool := (erase_r (fst r), snd r).

Theorem root_search_i_erase : forall target cand st, quiet st ->
  root_search_i order log_interval target cand (erase st) = smap erase_r2 (root_search_i order log_interval target cand st).
Proof.
  intros target cand st Q. rewrite !root_search_i_eq. destruct (negb (row_ok 0)); [reflexivity|].
  change (top (erase st)) with (top st). destruct (top st) as [p|w]; cbn [bind smap]; [|reflexivity].
  destruct (gen_legal p) as [ms|w]; cbn [bind smap]; [|reflexivity].
  destruct ms as [|m0 ms].
  - rewrite terminal_score_st_erase. destruct (terminal_score_st st 0) as [[s st1]|w]; reflexivity.
  - cbv zeta. change (st_killers (erase st)) with (st_killers st).
    rewrite root_loop_i_erase; [ | | | exact Q].
    + destruct (root_loop_i _ _ _ _ _ _ _ _); reflexivity.
    + intros stp x y c Hc. eapply alpha_beta_i_keeps; exact Hc.
    + intros stp x y Qs. apply alpha_beta_i_erase. exact Qs.
Qed.

(* determinism: two uninterrupted runs that differ only in their (all-false) poll / clock streams return the same
   value, line and one-legal-move flag, and final states that differ only in the remaining streams
   (in particular the same emitted events, node count and killer table) *)
Theorem root_search_i_deterministic : forall target cand st1 st2,
  quiet st1 -> quiet st2 -> erase st1 = erase st2 ->
  smap erase_r2 (root_search_i order log_interval target cand st1) = smap erase_r2 (root_search_i order log_interval target cand st2).
Proof. intros target cand st1 st2 Q1 Q2 E. rewrite <- !root_search_i_erase by assumption. rewrite E. reflexivity. Qed.

Corollary root_search_i_deterministic_ok : forall target cand st1 st2 r1 one1,
  quiet st1 -> quiet st2 -> erase st1 = erase st2 ->
  root_search_i order log_interval target cand st1 = Ok (r1, one1) ->
  exists r2, root_search_i order log_interval target cand st2 = Ok (r2, one1) /\
    iv r2 = iv r1 /\ iline r2 = iline r1 /\ st_out (ist r2) = st_out (ist r1) /\ erase (ist r2) = erase (ist r1).
Proof.
  intros target cand st1 st2 r1 one1 Q1 Q2 E H.
  pose proof (root_search_i_deterministic target cand st1 st2 Q1 Q2 E) as D. rewrite H in D.
  destruct (root_search_i order log_interval target cand st2) as [[r2 one2]|w]; [|discriminate D].
  cbn in D. inversion D. subst one2. exists r2. split; [reflexivity|].
  repeat split; try congruence.
  unfold erase. congruence.
Qed.
End Erase.

(* ---------- the whole iterative deepening ---------- *)
Lemma time_up_erase st : quiet st ->
  exists st', time_up st = (false, st') /\ time_up (erase st) = (false, erase st) /\ erase st' = erase st /\ quiet st'.
Proof.
  intros Q. destruct (check_up_erase _ Q) as (st' & CU & CUE & ES & Q'). pose proof Q as (I & _).
  unfold check_up in CU, CUE. cbn [erase st_intr] in CUE. rewrite I in CU, CUE. eauto.
Qed.

Section Iter.
Variable order : killer_table -> list move -> Z -> pos -> list rmove -> list rmove.
Variable log_interval : Z.
Variable max_depth : nat.

Fixpoint deepen_i (fuel : nat) (d : nat) (score : Z) (done_ : Z) (best : list move) (st : sst) : result (Z * Z * list move * sst) :=
  match fuel with O => Ok (score, done_, best, st) | S f =>
    if (max_depth <? d)%nat then Ok (score, done_, best, st) else
    do r <- root_search_i order log_interval d best st;
    let '(s, one') := r in
    let '(up, st') := time_up (ist s) in
    if up then Ok (score, done_, best, st') else
    if st_intr st' then Ok (score, done_, best, st') else
    match iline s with
    | None => Panic P_STALE_PV
    | Some [] => Panic P_EMPTY_LINE
    | Some pv =>
        let st'' := emit st' (EvInfoDepth (Z.of_nat d) (iv s) (st_nodes st') pv) in
        if (plies_to_mate (iv s) =? Z.of_nat d) || one' then Ok (iv s, Z.of_nat d, pv, st'')
        else deepen_i f (S d) (iv s) (Z.of_nat d) pv st''
    end
  end.

Lemma iterate_i_eq st0 :
  iterate_i order log_interval max_depth st0 =
    let st := set_nodes (set_intr st0 false) 0 in
    do r1 <- root_search_i order log_interval 1 [] st;
    let '(s1, one) := r1 in
    match iline s1 with
    | None => Panic P_STALE_PV
    | Some best1 =>
      let terminal := match best1 with [] => true | _ => false end in
      let '(up1, st1) := time_up (ist s1) in
      do fin <- (if up1 || st_intr st1 || one || terminal then Ok (iv s1, 1, best1, st1)
                 else deepen_i max_depth 2%nat (iv s1) 1 best1 st1);
      let '(score, done_, best, stf) := fin in
      match best with
      | [] => Ok (emit stf EvBestMoveNone)
      | b :: _ => Ok (emit (emit stf (EvInfoScore score done_ (st_nodes stf) best)) (EvBestMove b))
      end
    end.
Proof. reflexivity. Qed.

Definition erase4 (x : Z * Z * list move * sst) : Z * Z * list move * sst :=
  let '(s, d, b, st) := x in (s, d, b, erase st).

Lemma deepen_i_erase : forall fuel d score done_ best st, quiet st ->
  deepen_i fuel d score done_ best (erase st) = smap erase4 (deepen_i fuel d score done_ best st).
Proof.
  induction fuel as [|f IH]; intros d score done_ best st Q; [reflexivity|].
  cbn [deepen_i]. destruct (max_depth <? d)%nat; [reflexivity|].
  rewrite root_search_i_erase by exact Q.
  destruct (root_search_i order log_interval d best st) as [[s one']|w] eqn:RS; cbn [smap bind]; [|reflexivity].
  unfold erase_r2; cbn [fst snd erase_r ist iv iline ir].
  destruct (root_search_i_keeps _ _ _ _ _ _ _ RS) as [_ Q1]. specialize (Q1 Q).
  destruct (time_up_erase _ Q1) as (st' & TU & TUE & ES & Q'). rewrite TU, TUE. cbv beta iota.
  change (st_intr (erase (ist s))) with (st_intr (ist s)).
  pose proof Q1 as (I1 & _). pose proof Q' as (I' & _). rewrite I1, I'.
  destruct (iline s) as [[|m l]|]; [reflexivity | | reflexivity].
  cbv zeta. rewrite <- ES.
  change (emit (erase st') (EvInfoDepth (Z.of_nat d) (iv s) (st_nodes (erase st')) (m :: l)))
    with (erase (emit st' (EvInfoDepth (Z.of_nat d) (iv s) (st_nodes st') (m :: l)))).
  destruct ((plies_to_mate (iv s) =? Z.of_nat d) || one'); [reflexivity|].
  apply IH. exact Q'.
Qed.

(* 'go' with every consumed poll / deadline answer false behaves exactly like 'go' with empty streams:
   same output events (st_out), node count, killer table, stack *)
Theorem iterate_i_erase : forall st0, allf (st_polls st0) -> allf (st_clock st0) ->
  iterate_i order log_interval max_depth (erase st0) = smap erase (iterate_i order log_interval max_depth st0).
Proof.
  intros st0 AP AC. rewrite !iterate_i_eq. cbv zeta.
  change (set_nodes (set_intr (erase st0) false) 0) with (erase (set_nodes (set_intr st0 false) 0)).
  assert (Q : quiet (set_nodes (set_intr st0 false) 0)) by (split; [reflexivity | split; assumption]).
  set (st := set_nodes (set_intr st0 false) 0) in *. clearbody st.
  rewrite root_search_i_erase by exact Q.
  destruct (root_search_i order log_interval 1 [] st) as [[s1 one]|w] eqn:RS; cbn [smap bind]; [|reflexivity].
  unfold erase_r2; cbn [fst snd erase_r ist iv iline ir].
  destruct (root_search_i_keeps _ _ _ _ _ _ _ RS) as [_ Q1]. specialize (Q1 Q).
  destruct (iline s1) as [best1|]; [|reflexivity].
  destruct (time_up_erase _ Q1) as (st1 & TU & TUE & ES & Q'). rewrite TU, TUE. cbv beta iota.
  change (st_intr (erase (ist s1))) with (st_intr (ist s1)).
  pose proof Q1 as (I1 & _). pose proof Q' as (I' & _). rewrite I1, I'. rewrite <- ES.
  assert (F : forall fin : result (Z * Z * list move * sst),
    (do fin0 <- smap erase4 fin;
     let '(score, done_, best, stf) := fin0 in
     match best with
     | [] => Ok (emit stf EvBestMoveNone)
     | b :: _ => Ok (emit (emit stf (EvInfoScore score done_ (st_nodes stf) best)) (EvBestMove b))
     end) =
    smap erase
    (do fin0 <- fin;
     let '(score, done_, best, stf) := fin0 in
     match best with
     | [] => Ok (emit stf EvBestMoveNone)
     | b :: _ => Ok (emit (emit stf (EvInfoScore score done_ (st_nodes stf) best)) (EvBestMove b))
     end)).
  { intros [[[[sc dn] bs] sf]|w]; [|reflexivity]. cbn [smap bind erase4]. destruct bs; reflexivity. }
  destruct (false || false || one || match best1 with [] => true | _ :: _ => false end).
  - apply (F (Ok (iv s1, 1, best1, st1))).
  - rewrite deepen_i_erase by exact Q'. apply F.
Qed.

Corollary iterate_i_all_false : forall p killers polls clock pvclock,
  allf polls -> allf clock ->
  smap st_out (iterate_i order log_interval max_depth (sst0 p killers polls clock pvclock)) =
  smap st_out (iterate_i order log_interval max_depth (sst0 p killers [] [] pvclock)).
Proof.
  intros p killers polls clock pvclock AP AC.
  change (sst0 p killers [] [] pvclock) with (erase (sst0 p killers polls clock pvclock)).
  rewrite iterate_i_erase by assumption.
  destruct (iterate_i order log_interval max_depth (sst0 p killers polls clock pvclock)); reflexivity.
Qed.
End Iter.

Lemma allf_repeat n : allf (repeat false n).
Proof. induction n; constructor; auto. Qed.

(* ================= PART 3: capacity ================= *)
Definition cap_panic (w : Z) : Prop := w = P_PV_ROW \/ w = P_STACK \/ w = P_FUEL.

Lemma bind_panic {A B} (r : result A) (f : A -> result B) w :
  bind r f = Panic w -> r = Panic w \/ exists y, r = Ok y /\ f y = Panic w.
Proof. destruct r; cbn; intros H; [right; eauto | left; inversion H; reflexivity]. Qed.

Lemma kill_panic why l k w : kill why l k = Panic w -> w = why.
Proof. unfold kill. destruct (index_of k l); intros H; inversion H; reflexivity. Qed.
Lemma append_cap_panic why cap l s w : append_cap why cap l s = Panic w -> w = why.
Proof. unfold append_cap. destruct (length l <? cap)%nat; intros H; inversion H; reflexivity. Qed.

Lemma make_panic p m w : make p m = Panic w -> w = P_KILL_PIECE \/ w = P_KILL_PAWN \/ w = P_APPEND_PIECE.
Proof.
  unfold make. cbv zeta. intros H.
  repeat match goal with
  | H : bind ?r ?f = Panic ?w |- _ =>
      let E := fresh "E" in destruct r eqn:E; cbn [bind] in H
  | H : Panic _ = Panic _ |- _ => inversion H; clear H; subst
  | H : Ok _ = Panic _ |- _ => discriminate H
  | H : kill _ _ _ = Panic _ |- _ => apply kill_panic in H; subst
  | H : append_cap _ _ _ _ = Panic _ |- _ => apply append_cap_panic in H; subst
  | H : (let '(_, _) := ?x in _) = Panic _ |- _ => destruct x
  | H : (if ?x then _ else _) = Panic _ |- _ => destruct x
  | H : match ?x with _ => _ end = Panic _ |- _ => destruct x
  end; auto.
Qed.

Lemma make_legal_panic p m w : make_legal p m = Panic w -> ~ cap_panic w.
Proof.
  unfold make_legal. intros H. apply bind_panic in H. destruct H as [H | (y & _ & H)].
  - apply make_panic in H. unfold cap_panic, P_KILL_PIECE, P_KILL_PAWN, P_APPEND_PIECE, P_PV_ROW, P_STACK, P_FUEL in *. lia.
  - destruct (snd y); inversion H. unfold cap_panic, P_ILLEGAL_PUSH, P_PV_ROW, P_STACK, P_FUEL. lia.
Qed.
Lemma gen_legal_panic p w : gen_legal p = Panic w -> ~ cap_panic w.
Proof.
  unfold gen_legal. destruct (negb (board_index_safe p)); [|destruct (negb (pieces_ok p)); [|destruct (negb (all_ok p (gen_pseudo p)))]];
    intros H; inversion H; unfold cap_panic, P_BOARD_INDEX, P_UNEXPECTED_PIECE, P_KILL_PIECE, P_PV_ROW, P_STACK, P_FUEL; lia.
Qed.
Lemma gen_tactical_panic p w : gen_tactical p = Panic w -> ~ cap_panic w.
Proof.
  unfold gen_tactical. destruct (negb (board_index_safe p)); [|destruct (negb (pieces_ok p)); [|destruct (negb (all_ok p (gen_pseudo_tactical p)))]];
    intros H; inversion H; unfold cap_panic, P_BOARD_INDEX, P_UNEXPECTED_PIECE, P_KILL_PIECE, P_PV_ROW, P_STACK, P_FUEL; lia.
Qed.
Lemma extend_panic m l w : extend m l = Panic w -> ~ cap_panic w.
Proof. destruct l; intros H; inversion H. unfold cap_panic, P_STALE_PV, P_PV_ROW, P_STACK, P_FUEL. lia. Qed.
Lemma currmove_step_panic li st w : currmove_step li st = Panic w -> ~ cap_panic w.
Proof.
  unfold currmove_step. destruct (li =? 0).
  - intros H; inversion H. unfold cap_panic, P_DIV_ZERO, P_PV_ROW, P_STACK, P_FUEL. lia.
  - destruct (st_nodes st mod li =? 0); [|discriminate]. destruct (nth_error _ _); [discriminate|].
    intros H; inversion H. unfold cap_panic, P_TOKEN_INDEX, P_PV_ROW, P_STACK, P_FUEL. lia.
Qed.

Lemma keeps_ply st st' : keeps st st' -> ply_idx st' = ply_idx st.
Proof. intros [S _]. unfold ply_idx. rewrite S. reflexivity. Qed.
Lemma keeps_top' st st' p : keeps st st' -> top st = Ok p -> top st' = Ok p.
Proof. intros [S _] T. rewrite (top_stack_eq _ _ S). exact T. Qed.

Lemma push_cap st m p : top st = Ok p -> ply_idx st + 1 < plyBufferCapacity ->
  push st m = do p' <- make_legal p m; Ok (set_stack st (st_stack st ++ [p'])).
Proof.
  intros T C. unfold push. destruct (plyBufferCapacity <=? ply_idx st + 1) eqn:E; [lia|]. rewrite T. reflexivity.
Qed.
Lemma ply_push st p' : ply_idx (set_stack st (st_stack st ++ [p'])) = ply_idx st + 1.
Proof. unfold ply_idx, set_stack; cbn [st_stack]. rewrite app_length. cbn [length]. lia. Qed.

Section CapLoops.
Variable child : sst -> Z -> Z -> result ires.
Variable p : pos.
Variable depth : Z.
Variable okm : pos -> Prop.
Hypothesis child_keeps : forall stp a b c, child stp a b = Ok c -> keeps stp (ist c).
Hypothesis child_cap : forall stp p' x y w, top stp = Ok p' -> ply_idx stp = depth + 1 -> okm p' ->
  child stp x y = Panic w -> ~ cap_panic w.
Hypothesis depth_cap : depth + 1 < plyBufferCapacity.

(* one move: either a non-capacity panic, or the child returns and the stack is as before *)
Lemma step_cap st m x y (k : ires -> result ires) w :
  top st = Ok p -> ply_idx st = depth -> (forall p', make_legal p (rm m) = Ok p' -> okm p') ->
  (do stp <- push st (rm m); do c <- child stp x y; k c) = Panic w ->
  ~ cap_panic w \/ exists c, keeps st (pop (ist c)) /\ k c = Panic w.
Proof.
  intros T D OK H. pose proof (push_cap st (rm m) p T ltac:(lia)) as PC. rewrite PC in H.
  apply bind_panic in H. destruct H as [H | (stp & P & H)].
  - apply bind_panic in H. destruct H as [H | (p' & _ & H)]; [|discriminate H]. left. eapply make_legal_panic; exact H.
  - rewrite <- PC in P. pose proof P as P0.
    apply push_ok in P0. destruct P0 as (q & p' & T' & M & E). rewrite T in T'. inversion T'; subst q.
    apply bind_panic in H. destruct H as [H | (c & C & H)].
    + left. eapply (child_cap stp p'); [ | | apply OK; exact M | exact H].
      * subst stp. eapply top_intro. reflexivity.
      * subst stp. rewrite ply_push. lia.
    + right. exists c. split; [|exact H]. eapply keeps_push_pop; [exact P | eapply child_keeps; exact C].
Qed.

Lemma q_loop_cap beta l : forall alpha line st w,
  top st = Ok p -> ply_idx st = depth -> (forall m p', In m l -> make_legal p (rm m) = Ok p' -> okm p') ->
  q_loop child beta l alpha line st = Panic w -> ~ cap_panic w.
Proof.
  induction l as [|m l IH]; intros alpha line st w T D OK H; [discriminate H|].
  cbn [q_loop] in H. apply step_cap in H; [ | exact T | exact D | intros p' M; eapply OK; [left; reflexivity | exact M]].
  destruct H as [H | (c & K & H)]; [exact H|]. cbv zeta in H.
  pose proof (keeps_check_up (poll (pop (ist c)))) as K2. destruct (check_up (poll (pop (ist c)))) as [up st''].
  cbn [snd] in K2. pose proof (keeps_trans _ _ _ (keeps_trans _ _ _ K (keeps_poll (pop (ist c)))) K2) as K3.
  assert (OK' : forall m p', In m l -> make_legal p (rm m) = Ok p' -> okm p') by (intros; eapply OK; eauto; right; assumption).
  pose proof (keeps_top' _ _ _ K3 T) as T3. pose proof (keeps_ply _ _ K3) as D3. rewrite D in D3.
  destruct up; [discriminate H|]. destruct (- iv c >=? beta); [discriminate H|].
  destruct (- iv c >? alpha).
  - apply bind_panic in H. destruct H as [H | (ln & _ & H)]; [eapply extend_panic; exact H|]. eapply IH; eauto.
  - eapply IH; eauto.
Qed.

Lemma ab_loop_i_cap beta l : forall alpha line st w,
  top st = Ok p -> ply_idx st = depth -> (forall m p', In m l -> make_legal p (rm m) = Ok p' -> okm p') ->
  ab_loop_i child beta p l alpha line st = Panic w -> ~ cap_panic w.
Proof.
  induction l as [|m l IH]; intros alpha line st w T D OK H; [discriminate H|].
  cbn [ab_loop_i] in H. destruct (st_intr st); [discriminate H|].
  apply step_cap in H; [ | exact T | exact D | intros p' M; eapply OK; [left; reflexivity | exact M]].
  destruct H as [H | (c & K & H)]; [exact H|]. cbv zeta in H.
  destruct (- iv c >=? beta); [discriminate H|].
  assert (OK' : forall m p', In m l -> make_legal p (rm m) = Ok p' -> okm p') by (intros; eapply OK; eauto; right; assumption).
  apply bind_panic in H. destruct H as [H | ([alpha' line'] & _ & H)].
  { destruct (- iv c >? alpha); [|discriminate H].
    apply bind_panic in H. destruct H as [H | (ln & _ & H)]; [eapply extend_panic; exact H | discriminate H]. }
  pose proof (keeps_check_up (pop (ist c))) as K2. destruct (check_up (pop (ist c))) as [up st''].
  cbn [snd] in K2. pose proof (keeps_trans _ _ _ (keeps_trans _ _ _ K K2) (keeps_poll st'')) as K3.
  pose proof (keeps_top' _ _ _ K3 T) as T3. pose proof (keeps_ply _ _ K3) as D3. rewrite D in D3.
  destruct up; [discriminate H|]. eapply IH; eauto.
Qed.

Lemma root_loop_i_cap target sorted l : forall idx alpha line st w,
  top st = Ok p -> ply_idx st = depth -> (forall m p', In m l -> make_legal p (rm m) = Ok p' -> okm p') ->
  root_loop_i child target sorted l idx alpha line st = Panic w -> ~ cap_panic w.
Proof.
  induction l as [|m l IH]; intros idx alpha line st w T D OK H; [discriminate H|].
  cbn [root_loop_i] in H. cbv zeta in H.
  pose proof (keeps_set_first st idx sorted) as K0.
  pose proof (keeps_top' _ _ _ K0 T) as T0. pose proof (keeps_ply _ _ K0) as D0. rewrite D in D0.
  destruct (st_intr (set_first st idx sorted)); [discriminate H|].
  apply step_cap in H; [ | exact T0 | exact D0 | intros p' M; eapply OK; [left; reflexivity | exact M]].
  destruct H as [H | (c & K & H)]; [exact H|].
  assert (OK' : forall m p', In m l -> make_legal p (rm m) = Ok p' -> okm p') by (intros; eapply OK; eauto; right; assumption).
  apply bind_panic in H. destruct H as [H | ([[alpha' line'] st1] & A & H)].
  { destruct (- iv c >? alpha); [|discriminate H].
    apply bind_panic in H. destruct H as [H | (ln & _ & H)]; [eapply extend_panic; exact H|].
    destruct (pv_print_due (pop (ist c))) as [due st2]. destruct ln; [discriminate H|]. inversion H.
    unfold cap_panic, P_STALE_PV, P_PV_ROW, P_STACK, P_FUEL. lia. }
  assert (K1 : keeps (pop (ist c)) st1).
  { destruct (- iv c >? alpha).
    - apply bind_ok in A. destruct A as (ln & _ & A).
      pose proof (keeps_pv_due (pop (ist c))) as K3. destruct (pv_print_due (pop (ist c))) as [due st2].
      cbn [snd] in K3. destruct ln as [pv|]; [|discriminate]. inversion A.
      destruct due; [eapply keeps_trans; [exact K3 | apply keeps_emit] | exact K3].
    - inversion A; subst. apply keeps_refl. }
  pose proof (keeps_check_up st1) as K2. destruct (check_up st1) as [up st''].
  cbn [snd] in K2.
  pose proof (keeps_trans _ _ _ (keeps_trans _ _ _ (keeps_trans _ _ _ K K1) K2) (keeps_poll st'')) as K3.
  pose proof (keeps_top' _ _ _ K3 T0) as T3. pose proof (keeps_ply _ _ K3) as D3. rewrite D0 in D3.
  destruct up; [discriminate H|]. destruct (next_move_wins (- iv c)); [discriminate H|].
  eapply IH; eauto.
Qed.
End CapLoops.

Section Capacity.
Variable order : killer_table -> list move -> Z -> pos -> list rmove -> list rmove.
(* weaker than being a permutation: the ordering invents no move *)
Hypothesis order_incl : forall k c d p l m, In m (order k c d p l) -> In m l.
Variable log_interval : Z.
(* a bound on the length of capture sequences *)
Variable mu : pos -> nat.
Hypothesis mu_dec : forall p tms m p', gen_tactical p = Ok tms -> In m tms -> make_legal p (rm m) = Ok p' -> (mu p' < mu p)%nat.
Hypothesis mu_legal : forall p ms m p', gen_legal p = Ok ms -> In m ms -> make_legal p (rm m) = Ok p' -> (mu p' <= mu p)%nat.

Lemma quiesce_i_cap : forall fuel cand st a b depth p w,
  top st = Ok p -> ply_idx st = depth ->
  depth + Z.of_nat (mu p) + 1 < pvTableRows -> depth + Z.of_nat (mu p) + 1 < plyBufferCapacity -> (mu p < fuel)%nat ->
  quiesce_i order log_interval fuel cand st a b depth = Panic w -> ~ cap_panic w.
Proof.
  induction fuel as [|f IH]; intros cand st a b depth p w T D R C F H; [lia|].
  rewrite quiesce_i_eq in H. unfold row_ok in H. destruct (depth + 1 <? pvTableRows) eqn:E; [|lia]. cbn [negb] in H.
  rewrite (lazy_eval_st_eq _ _ _ _ _ T) in H. cbn [bind] in H. cbv beta iota in H.
  apply bind_panic in H. destruct H as [H | (st2 & CM & H)]; [eapply currmove_step_panic; exact H|].
  apply currmove_step_keeps in CM.
  pose proof (keeps_trans _ _ _ (keeps_set_nodes st (st_nodes st + 1)) CM) as K.
  pose proof (keeps_top' _ _ _ K T) as T2. pose proof (keeps_ply _ _ K) as D2. rewrite D in D2.
  destruct (lazy_eval p depth a b >=? b); [discriminate H|].
  destruct (if lazy_eval p depth a b >? a then (lazy_eval p depth a b, Some []) else (a, None)) as [alpha1 line1].
  rewrite T2 in H. cbn [bind] in H.
  apply bind_panic in H. destruct H as [H | (tms & G & H)]; [eapply gen_tactical_panic; exact H|].
  eapply q_loop_cap with (okm := fun p' => (mu p' < mu p)%nat); [ | | | exact T2 | exact D2 | | exact H].
  - intros stp x y c Hc. eapply quiesce_i_keeps; exact Hc.
  - intros stp p' x y w' T' D' O' Hc. eapply (IH _ _ _ _ _ p'); [exact T' | exact D' | | | | exact Hc]; lia.
  - lia.
  - intros m p' I M. eapply mu_dec; [exact G | eapply order_incl; exact I | exact M].
Qed.

Theorem alpha_beta_i_capacity : forall d cand st a b depth p w,
  top st = Ok p -> ply_idx st = depth ->
  Z.of_nat d + depth + Z.of_nat (mu p) + 1 < pvTableRows ->
  Z.of_nat d + depth + Z.of_nat (mu p) + 1 < plyBufferCapacity ->
  (mu p < qfuel)%nat ->
  alpha_beta_i order log_interval d cand st a b depth = Panic w -> ~ cap_panic w.
Proof.
  induction d as [|k IH]; intros cand st a b depth p w T D R C F H.
  - rewrite alpha_beta_i_eq0 in H. unfold row_ok in H. destruct (depth + 1 <? pvTableRows) eqn:E; [|lia]. cbn [negb] in H.
    eapply quiesce_i_cap; [exact T | exact D | | | exact F | exact H]; lia.
  - rewrite alpha_beta_i_eq in H. unfold row_ok in H. destruct (depth + 1 <? pvTableRows) eqn:E; [|lia]. cbn [negb] in H.
    rewrite T in H. cbn [bind] in H.
    apply bind_panic in H. destruct H as [H | (ms & G & H)]; [eapply gen_legal_panic; exact H|].
    destruct ms as [|m0 ms].
    + unfold terminal_score_st in H. rewrite T in H. discriminate H.
    + eapply ab_loop_i_cap with (okm := fun p' => (mu p' <= mu p)%nat); [ | | | exact T | exact D | | exact H].
      * intros stp x y c Hc. eapply alpha_beta_i_keeps; exact Hc.
      * intros stp p' x y w' T' D' O' Hc. eapply (IH _ _ _ _ _ p'); [exact T' | exact D' | | | | exact Hc]; lia.
      * lia.
      * intros m p' I M. eapply mu_legal; [exact G | eapply order_incl; exact I | exact M].
Qed.

Theorem quiesce_i_capacity : forall cand st a b depth p w,
  top st = Ok p -> ply_idx st = depth ->
  depth + Z.of_nat (mu p) + 1 < pvTableRows -> depth + Z.of_nat (mu p) + 1 < plyBufferCapacity -> (mu p < qfuel)%nat ->
  quiesce_i order log_interval qfuel cand st a b depth = Panic w -> ~ cap_panic w.
Proof. intros. eapply quiesce_i_cap; eauto. Qed.

Theorem root_search_i_capacity : forall target cand st p w,
  top st = Ok p -> ply_idx st = 0 ->
  Z.of_nat (pred target) + 1 + Z.of_nat (mu p) + 1 < pvTableRows ->
  Z.of_nat (pred target) + 1 + Z.of_nat (mu p) + 1 < plyBufferCapacity ->
  (mu p < qfuel)%nat ->
  root_search_i order log_interval target cand st = Panic w -> ~ cap_panic w.
Proof.
  intros target cand st p w T D R C F H.
  rewrite root_search_i_eq in H. unfold row_ok in H. destruct (0 + 1 <? pvTableRows) eqn:E; [|lia]. cbn [negb] in H.
  rewrite T in H. cbn [bind] in H.
  apply bind_panic in H. destruct H as [H | (ms & G & H)]; [eapply gen_legal_panic; exact H|].
  destruct ms as [|m0 ms].
  - unfold terminal_score_st in H. rewrite T in H. discriminate H.
  - cbv zeta in H. apply bind_panic in H. destruct H as [H | (r & _ & H)]; [|discriminate H].
    eapply root_loop_i_cap with (okm := fun p' => (mu p' <= mu p)%nat) (depth := 0); [ | | | exact T | exact D | | exact H].
    + intros stp x y c Hc. eapply alpha_beta_i_keeps; exact Hc.
    + intros stp p' x y w' T' D' O' Hc.
      eapply (alpha_beta_i_capacity _ _ _ _ _ _ p'); [exact T' | exact D' | | | | exact Hc]; lia.
    + lia.
    + intros m p' I M. eapply mu_legal; [exact G | eapply order_incl; exact I | exact M].
Qed.
End Capacity.

Section IterCapacity.
Variable order : killer_table -> list move -> Z -> pos -> list rmove -> list rmove.
Hypothesis order_incl : forall k c d p l m, In m (order k c d p l) -> In m l.
Variable log_interval : Z.
Variable mu : pos -> nat.
Hypothesis mu_dec : forall p tms m p', gen_tactical p = Ok tms -> In m tms -> make_legal p (rm m) = Ok p' -> (mu p' < mu p)%nat.
Hypothesis mu_legal : forall p ms m p', gen_legal p = Ok ms -> In m ms -> make_legal p (rm m) = Ok p' -> (mu p' <= mu p)%nat.
Variable max_depth : nat.
Variable p : pos.
Hypothesis rows_ok : Z.of_nat (Nat.max 1 max_depth) + Z.of_nat (mu p) + 1 < pvTableRows.
Hypothesis stack_ok : Z.of_nat (Nat.max 1 max_depth) + Z.of_nat (mu p) + 1 < plyBufferCapacity.
Hypothesis fuel_ok : (mu p < qfuel)%nat.

Lemma deepen_i_cap : forall fuel d score done_ best st w,
  top st = Ok p -> ply_idx st = 0 -> (1 <= d)%nat ->
  deepen_i order log_interval max_depth fuel d score done_ best st = Panic w -> ~ cap_panic w.
Proof.
  induction fuel as [|f IH]; intros d score done_ best st w T D D1 H; [discriminate H|].
  cbn [deepen_i] in H. destruct (max_depth <? d)%nat eqn:E; [discriminate H|].
  apply Nat.ltb_ge in E.
  apply bind_panic in H. destruct H as [H | ([s one'] & RS & H)].
  - eapply (root_search_i_capacity order order_incl log_interval mu mu_dec mu_legal d best st p);
      [exact T | exact D | | | exact fuel_ok | exact H]; lia.
  - pose proof (root_search_i_keeps _ _ _ _ _ _ _ RS) as K.
    pose proof (keeps_time_up (ist s)) as K2. destruct (time_up (ist s)) as [up st']. cbn [snd] in K2.
    pose proof (keeps_trans _ _ _ K K2) as K3.
    destruct up; [discriminate H|]. destruct (st_intr st'); [discriminate H|].
    destruct (iline s) as [[|m l]|].
    + inversion H. unfold cap_panic, P_EMPTY_LINE, P_PV_ROW, P_STACK, P_FUEL. lia.
    + cbv zeta in H. destruct ((plies_to_mate (iv s) =? Z.of_nat d) || one'); [discriminate H|].
      pose proof (keeps_trans _ _ _ K3 (keeps_emit st' (EvInfoDepth (Z.of_nat d) (iv s) (st_nodes st') (m :: l)))) as K4.
      eapply IH; [ | | | exact H].
      * eapply keeps_top'; [exact K4 | exact T].
      * rewrite (keeps_ply _ _ K4). exact D.
      * lia.
    + inversion H. unfold cap_panic, P_STALE_PV, P_PV_ROW, P_STACK, P_FUEL. lia.
Qed.

(* 'go': no PV-row / stack / fuel panic, for all oracle streams *)
Theorem iterate_i_capacity : forall st0 w,
  top st0 = Ok p -> ply_idx st0 = 0 ->
  iterate_i order log_interval max_depth st0 = Panic w -> ~ cap_panic w.
Proof.
  intros st0 w T D H. rewrite iterate_i_eq in H. cbv zeta in H.
  assert (K0 : keeps st0 (set_nodes (set_intr st0 false) 0)).
  { split; [reflexivity|]. unfold quiet. cbn. tauto. }
  pose proof (keeps_top' _ _ _ K0 T) as T0. pose proof (keeps_ply _ _ K0) as D0. rewrite D in D0.
  set (st := set_nodes (set_intr st0 false) 0) in *. clearbody st.
  apply bind_panic in H. destruct H as [H | ([s1 one] & RS & H)].
  - eapply (root_search_i_capacity order order_incl log_interval mu mu_dec mu_legal 1%nat [] st p);
      [exact T0 | exact D0 | | | exact fuel_ok | exact H]; cbn [pred]; lia.
  - pose proof (root_search_i_keeps _ _ _ _ _ _ _ RS) as K.
    destruct (iline s1) as [best1|].
    2:{ inversion H. unfold cap_panic, P_STALE_PV, P_PV_ROW, P_STACK, P_FUEL. lia. }
    pose proof (keeps_time_up (ist s1)) as K2. destruct (time_up (ist s1)) as [up1 st1]. cbn [snd] in K2.
    pose proof (keeps_trans _ _ _ K K2) as K3.
    apply bind_panic in H. destruct H as [H | ([[[sc dn] bs] sf] & _ & H)].
    + destruct (up1 || st_intr st1 || one || match best1 with [] => true | _ :: _ => false end); [discriminate H|].
      eapply deepen_i_cap; [ | | | exact H].
      * eapply keeps_top'; [exact K3 | exact T0].
      * rewrite (keeps_ply _ _ K3). exact D0.
      * lia.
    + destruct bs; discriminate H.
Qed.
End IterCapacity.

(* ================= the side condition, computably =================
   [minimax_s] (Search.v) returns the minimax value together with the flag "some quiescence node of the full tree is
   lazy-sensitive"; flag = false implies [tree_ok], so the theorems of PART 1 hold under that executable check. *)
Section SFold.
Variable p : pos.
Variable refs : pos -> result (Z * bool).
Variable ref : pos -> result Z.
Variable okc : pos -> Prop.
Hypothesis refs_ok : forall p' w s, refs p' = Ok (w, s) -> ref p' = Ok w /\ (s = false -> okc p').

Definition sstep (acc : result (Z * bool)) (m : rmove) : result (Z * bool) :=
  do a <- acc; do p' <- make_legal p (rm m); do v <- refs p'; Ok (Z.max (fst a) (- fst v), snd a || snd v).

Lemma sfold_panic l w : fold_left sstep l (Panic w) = Panic w.
Proof. induction l; cbn; [reflexivity | exact IHl]. Qed.

Lemma sfold_ok l : forall x s v s', fold_left sstep l (Ok (x, s)) = Ok (v, s') ->
  rfold p ref l (Ok x) = Ok v /\
  (s' = false -> s = false /\ forall m p', In m l -> make_legal p (rm m) = Ok p' -> okc p').
Proof.
  induction l as [|a l IH]; intros x s v s' H.
  - cbn in H. inversion H; subst. split; [reflexivity|]. intros ->. split; [reflexivity|]. intros m p' [].
  - cbn [fold_left] in H. unfold sstep at 2 in H. cbn [bind fst snd] in H.
    unfold rfold. cbn [fold_left]. unfold rstep at 2. cbn [bind].
    destruct (make_legal p (rm a)) as [pa|w] eqn:M; cbn [bind] in H |- *; [|rewrite sfold_panic in H; discriminate H].
    destruct (refs pa) as [[wa sa]|w] eqn:R; cbn [bind fst snd] in H; [|rewrite sfold_panic in H; discriminate H].
    destruct (refs_ok _ _ _ R) as [R1 R2]. rewrite R1. cbn [bind].
    apply IH in H. destruct H as [H1 H2]. split; [exact H1|].
    intros E. destruct (H2 E) as [S HC]. apply orb_false_elim in S. destruct S as [S1 S2]. split; [exact S1|].
    intros m p' [<- | I] ML.
    + rewrite M in ML. inversion ML; subst p'. exact (R2 S2).
    + eapply HC; eauto.
Qed.
End SFold.

Lemma mm_quiesce_s_ok : forall fuel p depth v s, mm_quiesce_s fuel p depth = Ok (v, s) ->
  mm_quiesce fuel p depth = Ok v /\ (s = false -> qtree_ok fuel p depth).
Proof.
  induction fuel as [|f IH]; intros p depth v s H; [discriminate H|].
  cbn [mm_quiesce_s] in H. cbv zeta in H. rewrite mm_quiesce_eq.
  destruct (gen_tactical p) as [tms|w] eqn:G; cbn [bind] in H |- *; [|discriminate H].
  apply (sfold_ok p (fun p' => mm_quiesce_s f p' (depth + 1)) (fun p' => mm_quiesce f p' (depth + 1))
           (fun p' => qtree_ok f p' (depth + 1))) in H.
  - destruct H as [H1 H2]. split; [exact H1|]. intros E. destruct (H2 E) as [S HC].
    cbn [qtree_ok]. split; [exact S|]. intros tms' m p' G' I ML. rewrite G in G'. inversion G'; subst tms'. eapply HC; eauto.
  - intros p' w s0 R. exact (IH _ _ _ _ R).
Qed.

Lemma minimax_s_ok : forall d p depth v s, minimax_s d p depth = Ok (v, s) ->
  minimax d p depth = Ok v /\ (s = false -> tree_ok d p depth).
Proof.
  induction d as [|k IH]; intros p depth v s H.
  - apply mm_quiesce_s_ok in H. exact H.
  - cbn [minimax_s] in H. rewrite minimax_eq.
    destruct (gen_legal p) as [ms|w] eqn:G; cbn [bind] in H |- *; [|discriminate H].
    destruct ms as [|m0 r0].
    + inversion H; subst. split; [reflexivity|]. intros _. cbn [tree_ok]. intros ms m p' G' I. rewrite G in G'. inversion G'; subst ms. destruct I.
    + destruct (make_legal p (rm m0)) as [p0|w] eqn:M0; cbn [bind] in H |- *; [|discriminate H].
      destruct (minimax_s k p0 (depth + 1)) as [[w0 s0]|w] eqn:R0; cbn [bind fst snd] in H; [|discriminate H].
      destruct (IH _ _ _ _ R0) as [R1 R2]. rewrite R1. cbn [bind].
      apply (sfold_ok p (fun p' => minimax_s k p' (depth + 1)) (fun p' => minimax k p' (depth + 1))
               (fun p' => tree_ok k p' (depth + 1))) in H.
      * destruct H as [H1 H2]. split; [exact H1|]. intros E. destruct (H2 E) as [S HC].
        cbn [tree_ok]. intros ms m p' G' I ML. rewrite G in G'. inversion G'; subst ms.
        destruct I as [<- | I]; [|eapply HC; eauto]. rewrite M0 in ML. inversion ML; subst p'. exact (R2 S).
      * intros p' w s1 R. exact (IH _ _ _ _ R).
Qed.

Section ValueS.
Variable order : killer_table -> list move -> Z -> pos -> list rmove -> list rmove.
Hypothesis order_perm : forall k c d p l, Permutation (order k c d p l) l.
Variable log_interval : Z.

Theorem alpha_beta_i_value_s : forall d cand st a b depth r p v,
  a < b -> - InfinityScore <= a -> b <= InfinityScore ->
  quiet st -> top st = Ok p ->
  alpha_beta_i order log_interval d cand st a b depth = Ok r -> minimax_s d p depth = Ok (v, false) ->
  bc a b (iv r) v.
Proof.
  intros d cand st a b depth r p v AB A B Q T H M. apply minimax_s_ok in M. destruct M as [M O].
  eapply alpha_beta_i_value; eauto.
Qed.

Theorem root_search_i_value_s : forall d cand st r one p v,
  quiet st -> top st = Ok p ->
  root_search_i order log_interval (S d) cand st = Ok (r, one) -> minimax_s (S d) p 0 = Ok (v, false) ->
  (forall ms m p' w, gen_legal p = Ok ms -> In m ms -> make_legal p (rm m) = Ok p' -> minimax d p' 1 = Ok w -> - w <= - LostScore - 1) ->
  - InfinityScore < v -> iv r = v.
Proof.
  intros d cand st r one p v Q T H M HB V. apply minimax_s_ok in M. destruct M as [M O].
  eapply root_search_i_value; eauto.
Qed.
End ValueS.

Print Assumptions quiesce_i_value.
Print Assumptions alpha_beta_i_value.
Print Assumptions alpha_beta_i_value_nil.
Print Assumptions quiesce_i_value_psq.
Print Assumptions alpha_beta_i_value_psq.
Print Assumptions root_search_i_value.
Print Assumptions root_search_i_quiet.
Print Assumptions alpha_beta_i_quiet.
Print Assumptions root_search_i_erase.
Print Assumptions root_search_i_deterministic_ok.
Print Assumptions iterate_i_erase.
Print Assumptions iterate_i_all_false.
Print Assumptions alpha_beta_i_capacity.
Print Assumptions root_search_i_capacity.
Print Assumptions iterate_i_capacity.
Print Assumptions minimax_s_ok.
Print Assumptions alpha_beta_i_value_s.
Print Assumptions root_search_i_value_s.
