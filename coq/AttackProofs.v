(* isUnderCheck (model: Attack.is_under_check) coincides with the geometry of the specification (Spec.attacked)
   for every board.  Finite facts about the two 240-entry tables are established by kernel computation over the
   64 x 64 pairs of valid squares; everything that depends on the board contents is proved generically.
   No axioms, nothing admitted. *)
From Coq Require Import ZArith List Bool Lia ZifyBool.
Require Import Base Generated Position Attack Make WF.
Require Spec Abs.
Import ListNotations.
Open Scope Z_scope.

(* the per-attacker test that is_under_check applies to an entry [from] of the piece list *)
Definition piece_hits (b : list cell) (from dest : Z) : bool :=
  let idx := move_index from dest in
  match get b from with
  | Empty => false
  | Pc _ k => if Z.land (att idx) (kind_bit k) =? 0 then false
              else if kind_eqb k Knight then true
              else slide_clear 8 b (byte (from + dirt idx)) (dirt idx) dest
  end.

Lemma is_under_check_unfold : forall b pieces pawns king dest,
  is_under_check b pieces pawns king dest =
  existsb (fun from => negb (Z.land (att (move_index from dest))
              (match get b king with Pc Black _ => enc_BPawnAttacks | _ => enc_WPawnAttacks end) =? 0)) pawns
  || existsb (fun from => piece_hits b from dest) pieces
  || negb (Z.land (att (move_index king dest)) enc_KingAttacks =? 0).
Proof. reflexivity. Qed.

(* ---------- small generic helpers ---------- *)

Lemma valid_in : forall s, validb s = true -> In s valid_squares.
Proof.
  intros s H. unfold validb in H.
  apply andb_prop in H as [H Hon]. apply andb_prop in H as [H0 H1].
  unfold valid_squares. apply filter_In. split; [|exact Hon].
  unfold squares128. apply in_map_iff. exists (Z.to_nat s). split.
  - lia.
  - apply in_seq. lia.
Qed.

Lemma sweep1 (P : Z -> bool) :
  forallb P valid_squares = true -> forall a, validb a = true -> P a = true.
Proof. intros H a Ha. rewrite forallb_forall in H. exact (H a (valid_in a Ha)). Qed.

Lemma sweep2 (P : Z -> Z -> bool) :
  forallb (fun a => forallb (P a) valid_squares) valid_squares = true ->
  forall a b, validb a = true -> validb b = true -> P a b = true.
Proof.
  intros H a b Ha Hb. rewrite forallb_forall in H. specialize (H a (valid_in a Ha)).
  rewrite forallb_forall in H. exact (H b (valid_in b Hb)).
Qed.

Fixpoint zleqb (a b : list Z) : bool :=
  match a, b with
  | [], [] => true
  | x :: a', y :: b' => (x =? y) && zleqb a' b'
  | _, _ => false
  end.
Lemma zleqb_eq : forall a b, zleqb a b = true -> a = b.
Proof.
  induction a as [|x a IH]; destruct b as [|y b]; cbn [zleqb]; intros H; try discriminate; [reflexivity|].
  apply andb_prop in H as [H1 H2]. apply Z.eqb_eq in H1. rewrite (IH b H2), H1. reflexivity.
Qed.

Lemma color_eqb_refl : forall c, color_eqb c c = true.
Proof. destruct c; reflexivity. Qed.
Lemma color_eqb_eq : forall c c', color_eqb c c' = true -> c = c'.
Proof. destruct c, c'; cbn; intros H; try discriminate; reflexivity. Qed.

Lemma memb_In : forall x l, memb x l = true <-> In x l.
Proof.
  intros x l. unfold memb. rewrite existsb_exists. split.
  - intros [y [Hy E]]. apply Z.eqb_eq in E. subst y. exact Hy.
  - intros H. exists x. split; [exact H | apply Z.eqb_refl].
Qed.

(* ---------- the board-independent walk of checkedBySlidingPiece ---------- *)

Fixpoint walk (fuel : nat) (sq dir dest : Z) : option (list Z) :=
  match fuel with
  | O => None
  | S f => if sq =? dest then Some []
           else match walk f (byte (sq + dir)) dir dest with Some l => Some (sq :: l) | None => None end
  end.

Lemma slide_walk : forall fuel b sq dir dest,
  slide_clear fuel b sq dir dest =
  match walk fuel sq dir dest with
  | Some l => forallb (fun s => is_empty (get b s)) l
  | None => false
  end.
Proof.
  induction fuel as [|f IH]; intros b sq dir dest; cbn [slide_clear walk]; [reflexivity|].
  destruct (sq =? dest); [reflexivity|].
  rewrite IH. destruct (walk f (byte (sq + dir)) dir dest); cbn [forallb]; destruct (get b sq); reflexivity.
Qed.

(* ---------- specification side: the squares strictly between, blocker-free geometry ---------- *)

Definition nob : Spec.board := fun _ => None.

Definition betw (s t : Spec.sq) : list Spec.sq :=
  let df := fst t - fst s in let dr := snd t - snd s in
  let n := Z.max (Z.abs df) (Z.abs dr) in
  map (fun k => (fst s + Z.of_nat k * Z.sgn df, snd s + Z.of_nat k * Z.sgn dr)) (seq 1 (Z.to_nat n - 1)).

Lemma forallb_map_comp {A B} (f : B -> bool) (g : A -> B) (l : list A) :
  forallb f (map g l) = forallb (fun x => f (g x)) l.
Proof. induction l as [|x l IH]; cbn [map forallb]; [reflexivity | rewrite IH; reflexivity]. Qed.

Lemma between_empty_betw : forall b s t, Spec.between_empty b s t = forallb (Spec.empty b) (betw s t).
Proof. intros b s t. unfold Spec.between_empty, betw. cbv zeta. rewrite forallb_map_comp. reflexivity. Qed.

Lemma be_nob : forall s t, Spec.between_empty nob s t = true.
Proof. intros s t. unfold Spec.between_empty. cbv zeta. apply forallb_forall. intros x _. reflexivity. Qed.

Definition is_slider (k : kind) : bool := match k with Bishop | Rook | Queen => true | _ => false end.

Lemma pa_split : forall b c k s t, is_slider k = true ->
  Spec.piece_attacks b c k s t = Spec.piece_attacks nob White k s t && Spec.between_empty b s t.
Proof.
  intros b c k s t Hk. destruct k; try discriminate Hk;
    unfold Spec.piece_attacks; cbv zeta; rewrite be_nob, andb_true_r; reflexivity.
Qed.

Lemma slider_queen : forall k s t, is_slider k = true ->
  Spec.piece_attacks nob White k s t = true -> Spec.piece_attacks nob White Queen s t = true.
Proof.
  intros k s t Hk. destruct k; try discriminate Hk;
    unfold Spec.piece_attacks; cbv zeta; rewrite be_nob, !andb_true_r; intros H.
  - rewrite H. apply orb_true_r.
  - rewrite H. reflexivity.
  - exact H.
Qed.

(* ---------- coordinates: valid_squares <-> Spec.all_sq ---------- *)

Lemma coords_map : map Abs.coords valid_squares = Spec.all_sq.
Proof. vm_compute. reflexivity. Qed.

Lemma valid_sweep :
  forallb (fun s => Spec.on (Abs.coords s) && (Abs.sq88 (Abs.coords s) =? s)) valid_squares = true.
Proof. vm_compute. reflexivity. Qed.

Lemma all_sq_sweep :
  forallb (fun x => validb (Abs.sq88 x) && Spec.sq_eqb (Abs.coords (Abs.sq88 x)) x) Spec.all_sq = true.
Proof. vm_compute. reflexivity. Qed.

Lemma coords_in_all : forall s, validb s = true -> In (Abs.coords s) Spec.all_sq.
Proof. intros s H. rewrite <- coords_map. apply in_map. apply valid_in. exact H. Qed.

Lemma valid_coords : forall s, validb s = true ->
  Spec.on (Abs.coords s) = true /\ Abs.sq88 (Abs.coords s) = s.
Proof.
  intros s H. pose proof (sweep1 _ valid_sweep s H) as P. cbv beta in P.
  apply andb_prop in P as [P1 P2]. apply Z.eqb_eq in P2. split; assumption.
Qed.

Lemma all_sq_valid : forall x, In x Spec.all_sq ->
  validb (Abs.sq88 x) = true /\ Abs.coords (Abs.sq88 x) = x.
Proof.
  intros x H. pose proof all_sq_sweep as P. rewrite forallb_forall in P. specialize (P x H). cbv beta in P.
  apply andb_prop in P as [P1 P2]. split; [exact P1|].
  unfold Spec.sq_eqb in P2. apply andb_prop in P2 as [E1 E2]. apply Z.eqb_eq in E1, E2.
  destruct (Abs.coords (Abs.sq88 x)) as [f r]. destruct x as [f' r']. cbn [fst snd] in E1, E2. subst. reflexivity.
Qed.

Lemma abs_at : forall b s, validb s = true -> Abs.abs_board b (Abs.coords s) = Abs.abs_cell (get b s).
Proof.
  intros b s H. destruct (valid_coords s H) as [Hon Hsq]. unfold Abs.abs_board. rewrite Hon, Hsq. reflexivity.
Qed.

Lemma betw_abs : forall b l, forallb Spec.on l = true ->
  forallb (Spec.empty (Abs.abs_board b)) l = forallb (fun z => is_empty (get b z)) (map Abs.sq88 l).
Proof.
  intros b l. induction l as [|x l IH]; cbn [forallb map]; intros H; [reflexivity|].
  apply andb_prop in H as [Hx Hl]. rewrite (IH Hl). f_equal.
  unfold Spec.empty, Abs.abs_board. rewrite Hx. destruct (get b (Abs.sq88 x)); reflexivity.
Qed.

(* ---------- the table sweep ---------- *)

Definition hit (a bit : Z) : bool := negb (Z.land a bit =? 0).

Definition pair_ok (from dest : Z) : bool :=
  let idx := move_index from dest in
  let s := Abs.coords from in let t := Abs.coords dest in
  let a := att idx in
  Bool.eqb (hit a (kind_bit Knight)) (Spec.piece_attacks nob White Knight s t)
  && Bool.eqb (hit a (kind_bit Bishop)) (Spec.piece_attacks nob White Bishop s t)
  && Bool.eqb (hit a (kind_bit Rook)) (Spec.piece_attacks nob White Rook s t)
  && Bool.eqb (hit a (kind_bit Queen)) (Spec.piece_attacks nob White Queen s t)
  && Bool.eqb (hit a enc_WPawnAttacks) (Spec.piece_attacks nob White Pawn s t)
  && Bool.eqb (hit a enc_BPawnAttacks) (Spec.piece_attacks nob Black Pawn s t)
  && Bool.eqb (hit a enc_KingAttacks) (Spec.piece_attacks nob White King s t)
  && (if Spec.piece_attacks nob White Queen s t then
        match walk 8 (byte (from + dirt idx)) (dirt idx) dest with
        | Some l => zleqb l (map Abs.sq88 (betw s t)) && forallb Spec.on (betw s t)
        | None => false
        end
      else true).

Lemma table_geometry :
  forallb (fun from => forallb (pair_ok from) valid_squares) valid_squares = true.
Proof. vm_compute. reflexivity. Qed.

Lemma pair_sweep : forall from dest, validb from = true -> validb dest = true -> pair_ok from dest = true.
Proof. exact (sweep2 pair_ok table_geometry). Qed.

Lemma pair_facts : forall from dest, validb from = true -> validb dest = true ->
  let a := att (move_index from dest) in
  let s := Abs.coords from in let t := Abs.coords dest in
  (forall k, is_piece_kind k = true -> hit a (kind_bit k) = Spec.piece_attacks nob White k s t)
  /\ hit a enc_WPawnAttacks = Spec.piece_attacks nob White Pawn s t
  /\ hit a enc_BPawnAttacks = Spec.piece_attacks nob Black Pawn s t
  /\ hit a enc_KingAttacks = Spec.piece_attacks nob White King s t
  /\ (Spec.piece_attacks nob White Queen s t = true ->
      walk 8 (byte (from + dirt (move_index from dest))) (dirt (move_index from dest)) dest
        = Some (map Abs.sq88 (betw s t))
      /\ forallb Spec.on (betw s t) = true).
Proof.
  intros from dest Hf Hd a s t. pose proof (pair_sweep from dest Hf Hd) as P.
  unfold pair_ok in P. cbv zeta in P. fold a s t in P.
  apply andb_prop in P as [P PW]. apply andb_prop in P as [P PK]. apply andb_prop in P as [P PB].
  apply andb_prop in P as [P PWp]. apply andb_prop in P as [P PQ]. apply andb_prop in P as [P PR].
  apply andb_prop in P as [PN PBi].
  apply eqb_prop in PN, PBi, PR, PQ, PWp, PB, PK.
  repeat split; try assumption.
  - intros k Hk. destruct k; try discriminate Hk; assumption.
  - destruct (Spec.piece_attacks nob White Queen s t); [|discriminate].
    destruct (walk 8 _ _ dest) as [l|]; [|discriminate PW].
    apply andb_prop in PW as [E _]. apply zleqb_eq in E. rewrite E. reflexivity.
  - destruct (Spec.piece_attacks nob White Queen s t); [|discriminate].
    destruct (walk 8 _ _ dest) as [l|]; [|discriminate PW].
    apply andb_prop in PW as [_ E]. exact E.
Qed.

(* ---------- the per-attacker theorems ---------- *)

Theorem piece_hits_spec : forall b c k from dest,
  validb from = true -> validb dest = true -> is_piece_kind k = true -> get b from = Pc c k ->
  piece_hits b from dest = Spec.piece_attacks (Abs.abs_board b) c k (Abs.coords from) (Abs.coords dest).
Proof.
  intros b c k from dest Hf Hd Hk Hg.
  destruct (pair_facts from dest Hf Hd) as [Fk [_ [_ [_ Fw]]]].
  specialize (Fk k Hk). unfold hit in Fk.
  unfold piece_hits. cbv zeta. rewrite Hg.
  destruct k; try discriminate Hk.
  - (* Knight *)
    cbn [kind_eqb].
    change (Spec.piece_attacks (Abs.abs_board b) c Knight (Abs.coords from) (Abs.coords dest))
      with (Spec.piece_attacks nob White Knight (Abs.coords from) (Abs.coords dest)).
    rewrite <- Fk. destruct (Z.land _ _ =? 0); reflexivity.
  - (* Bishop *)
    cbn [kind_eqb]. rewrite pa_split by reflexivity. rewrite <- Fk.
    destruct (Z.land _ _ =? 0) eqn:E; cbn [negb andb]; [reflexivity|].
    cbn [negb] in Fk. symmetry in Fk.
    destruct (Fw (slider_queen Bishop _ _ eq_refl Fk)) as [W On].
    rewrite slide_walk, W, between_empty_betw, (betw_abs b _ On). reflexivity.
  - (* Rook *)
    cbn [kind_eqb]. rewrite pa_split by reflexivity. rewrite <- Fk.
    destruct (Z.land _ _ =? 0) eqn:E; cbn [negb andb]; [reflexivity|].
    cbn [negb] in Fk. symmetry in Fk.
    destruct (Fw (slider_queen Rook _ _ eq_refl Fk)) as [W On].
    rewrite slide_walk, W, between_empty_betw, (betw_abs b _ On). reflexivity.
  - (* Queen *)
    cbn [kind_eqb]. rewrite pa_split by reflexivity. rewrite <- Fk.
    destruct (Z.land _ _ =? 0) eqn:E; cbn [negb andb]; [reflexivity|].
    cbn [negb] in Fk. symmetry in Fk.
    destruct (Fw Fk) as [W On].
    rewrite slide_walk, W, between_empty_betw, (betw_abs b _ On). reflexivity.
Qed.

Theorem pawn_hits_spec : forall c from dest, validb from = true -> validb dest = true ->
  negb (Z.land (att (move_index from dest)) (match c with Black => enc_BPawnAttacks | White => enc_WPawnAttacks end) =? 0)
  = Spec.piece_attacks (fun _ => None) c Pawn (Abs.coords from) (Abs.coords dest).
Proof.
  intros c from dest Hf Hd. destruct (pair_facts from dest Hf Hd) as [_ [FW [FB _]]].
  destruct c; [exact FW | exact FB].
Qed.

Theorem king_hits_spec : forall c from dest, validb from = true -> validb dest = true ->
  negb (Z.land (att (move_index from dest)) enc_KingAttacks =? 0)
  = Spec.piece_attacks (fun _ => None) c King (Abs.coords from) (Abs.coords dest).
Proof.
  intros c from dest Hf Hd. destruct (pair_facts from dest Hf Hd) as [_ [_ [_ [FK _]]]]. exact FK.
Qed.

(* ---------- what lists_ok says ---------- *)

Definition cell_rule (b : list cell) (c : color) (pieces pawns : list Z) (king s : Z) : bool :=
  match get b s with
  | Pc c' k =>
      if color_eqb c c' then
        match k with
        | Pawn => memb s pawns && negb (memb s pieces) && negb (s =? king)
        | King => (s =? king) && negb (memb s pawns) && negb (memb s pieces)
        | _ => memb s pieces && negb (memb s pawns) && negb (s =? king)
        end
      else negb (memb s pawns) && negb (memb s pieces) && negb (s =? king)
  | Empty => negb (memb s pawns) && negb (memb s pieces) && negb (s =? king)
  end.

Lemma lists_ok_parts : forall b c pieces pawns king, lists_ok b c pieces pawns king = true ->
  validb king = true
  /\ (forall s, validb s = true -> cell_rule b c pieces pawns king s = true)
  /\ (forall s, In s pieces -> validb s = true)
  /\ (forall s, In s pawns -> validb s = true).
Proof.
  intros b c pieces pawns king H. unfold lists_ok in H.
  apply andb_prop in H as [H Hpw]. apply andb_prop in H as [H Hpc]. apply andb_prop in H as [H Hall].
  apply andb_prop in H as [H Hk].
  rewrite forallb_forall in Hpw, Hpc.
  repeat split; try assumption.
  intros s Hs. exact (sweep1 _ Hall s Hs).
Qed.

Lemma lo_pawn : forall b c pieces pawns king s, lists_ok b c pieces pawns king = true ->
  In s pawns -> validb s = true /\ get b s = Pc c Pawn.
Proof.
  intros b c pieces pawns king s H Hin. destruct (lists_ok_parts _ _ _ _ _ H) as [_ [R [_ Vp]]].
  pose proof (Vp s Hin) as Hv. split; [exact Hv|]. specialize (R s Hv). unfold cell_rule in R.
  apply memb_In in Hin. rewrite Hin in R.
  destruct (get b s) as [|c' k].
  - destruct (memb s pieces), (s =? king); discriminate R.
  - destruct (color_eqb c c') eqn:E.
    + apply color_eqb_eq in E. subst c'.
      destruct k; try reflexivity; destruct (memb s pieces), (s =? king); discriminate R.
    + destruct (memb s pieces), (s =? king); discriminate R.
Qed.

Lemma lo_piece : forall b c pieces pawns king s, lists_ok b c pieces pawns king = true ->
  In s pieces -> validb s = true /\ exists k, is_piece_kind k = true /\ get b s = Pc c k.
Proof.
  intros b c pieces pawns king s H Hin. destruct (lists_ok_parts _ _ _ _ _ H) as [_ [R [Vp _]]].
  pose proof (Vp s Hin) as Hv. split; [exact Hv|]. specialize (R s Hv). unfold cell_rule in R.
  apply memb_In in Hin. rewrite Hin in R.
  destruct (get b s) as [|c' k].
  - destruct (memb s pawns), (s =? king); discriminate R.
  - destruct (color_eqb c c') eqn:E.
    + apply color_eqb_eq in E. subst c'.
      destruct k; try (eexists; split; [|reflexivity]; reflexivity);
        destruct (memb s pawns), (s =? king); discriminate R.
    + destruct (memb s pawns), (s =? king); discriminate R.
Qed.

Lemma lo_king : forall b c pieces pawns king, lists_ok b c pieces pawns king = true ->
  validb king = true /\ get b king = Pc c King.
Proof.
  intros b c pieces pawns king H. destruct (lists_ok_parts _ _ _ _ _ H) as [Hv [R _]].
  split; [exact Hv|]. specialize (R king Hv). unfold cell_rule in R. rewrite Z.eqb_refl in R.
  destruct (get b king) as [|c' k].
  - destruct (memb king pawns), (memb king pieces); discriminate R.
  - destruct (color_eqb c c') eqn:E.
    + apply color_eqb_eq in E. subst c'.
      destruct k; try reflexivity; destruct (memb king pawns), (memb king pieces); discriminate R.
    + destruct (memb king pawns), (memb king pieces); discriminate R.
Qed.

Lemma lo_cell : forall b c pieces pawns king s k, lists_ok b c pieces pawns king = true ->
  validb s = true -> get b s = Pc c k ->
  match k with Pawn => In s pawns | King => s = king | _ => In s pieces end.
Proof.
  intros b c pieces pawns king s k H Hv Hg. destruct (lists_ok_parts _ _ _ _ _ H) as [_ [R _]].
  specialize (R s Hv). unfold cell_rule in R. rewrite Hg, color_eqb_refl in R.
  destruct k; apply andb_prop in R as [R _]; apply andb_prop in R as [R _];
    try (apply memb_In; exact R).
  apply Z.eqb_eq. exact R.
Qed.

(* ---------- the main result ---------- *)

Theorem is_under_check_spec : forall b c pieces pawns king dest,
  lists_ok b c pieces pawns king = true -> validb dest = true ->
  is_under_check b pieces pawns king dest = Spec.attacked (Abs.abs_board b) c (Abs.coords dest).
Proof.
  intros b c pieces pawns king dest HL Hd.
  destruct (lo_king _ _ _ _ _ HL) as [Hkv Hkg].
  rewrite is_under_check_unfold, Hkg.
  apply eq_true_iff_eq. unfold Spec.attacked.
  rewrite !orb_true_iff, !existsb_exists. split.
  - intros [[[from [Hin Ht]] | [from [Hin Ht]]] | Ht].
    + (* a pawn of the list *)
      destruct (lo_pawn _ _ _ _ _ _ HL Hin) as [Hv Hg].
      exists (Abs.coords from). split; [apply coords_in_all; exact Hv|].
      unfold Spec.owned, Spec.attacks. rewrite (abs_at b from Hv), Hg. cbn [Abs.abs_cell].
      rewrite color_eqb_refl. cbn [andb].
      rewrite <- Ht. symmetry. exact (pawn_hits_spec c from dest Hv Hd).
    + (* a piece of the list *)
      destruct (lo_piece _ _ _ _ _ _ HL Hin) as [Hv [k [Hk Hg]]].
      exists (Abs.coords from). split; [apply coords_in_all; exact Hv|].
      unfold Spec.owned, Spec.attacks. rewrite (abs_at b from Hv), Hg. cbn [Abs.abs_cell].
      rewrite color_eqb_refl. cbn [andb].
      rewrite <- (piece_hits_spec b c k from dest Hv Hd Hk Hg). exact Ht.
    + (* the king *)
      exists (Abs.coords king). split; [apply coords_in_all; exact Hkv|].
      unfold Spec.owned, Spec.attacks. rewrite (abs_at b king Hkv), Hkg. cbn [Abs.abs_cell].
      rewrite color_eqb_refl. cbn [andb].
      rewrite <- Ht. symmetry. exact (king_hits_spec c king dest Hkv Hd).
  - intros [s [Hin Ht]].
    destruct (all_sq_valid s Hin) as [Hv Hc].
    remember (Abs.sq88 s) as from eqn:Efrom. clear Efrom. subst s.
    unfold Spec.owned, Spec.attacks in Ht. rewrite (abs_at b from Hv) in Ht.
    destruct (get b from) as [|c' k] eqn:Hg; cbn [Abs.abs_cell] in Ht; [discriminate Ht|].
    apply andb_prop in Ht as [Hcol Ht]. apply color_eqb_eq in Hcol. subst c'.
    pose proof (lo_cell _ _ _ _ _ _ _ HL Hv Hg) as Hmem.
    destruct k.
    + left. left. exists from. split; [exact Hmem|].
      rewrite <- Ht. exact (pawn_hits_spec c from dest Hv Hd).
    + left. right. exists from. split; [exact Hmem|].
      rewrite (piece_hits_spec b c Knight from dest Hv Hd eq_refl Hg). exact Ht.
    + left. right. exists from. split; [exact Hmem|].
      rewrite (piece_hits_spec b c Bishop from dest Hv Hd eq_refl Hg). exact Ht.
    + left. right. exists from. split; [exact Hmem|].
      rewrite (piece_hits_spec b c Rook from dest Hv Hd eq_refl Hg). exact Ht.
    + left. right. exists from. split; [exact Hmem|].
      rewrite (piece_hits_spec b c Queen from dest Hv Hd eq_refl Hg). exact Ht.
    + right. subst from.
      rewrite <- Ht. exact (king_hits_spec c king dest Hv Hd).
Qed.

Print Assumptions piece_hits_spec.
Print Assumptions pawn_hits_spec.
Print Assumptions king_hits_spec.
Print Assumptions is_under_check_spec.
