(* Property C18: the fixed capacities (PV table rows, position stack, quiescence depth) are never exhausted, for every
   oracle and ordering, provided tactical moves decrease a measure mu and other moves do not increase it. *)
From Coq Require Import ZArith List.
Require Import Base Generated Position Make Gen Search SearchImp SearchImpValue.

Theorem C18_no_capacity_panic : forall (order : killer_table -> list move -> Z -> pos -> list rmove -> list rmove),
  (forall k c d p l m, In m (order k c d p l) -> In m l) ->
  forall log_interval (mu : pos -> nat),
  (forall p tms m p', gen_tactical p = Ok tms -> In m tms -> make_legal p (rm m) = Ok p' -> (mu p' < mu p)%nat) ->
  (forall p ms m p', gen_legal p = Ok ms -> In m ms -> make_legal p (rm m) = Ok p' -> (mu p' <= mu p)%nat) ->
  forall max_depth p,
  (Z.of_nat (Nat.max 1 max_depth) + Z.of_nat (mu p) + 1 < pvTableRows)%Z ->
  (Z.of_nat (Nat.max 1 max_depth) + Z.of_nat (mu p) + 1 < plyBufferCapacity)%Z ->
  (mu p < qfuel)%nat ->
  forall st0 w, top st0 = Ok p -> ply_idx st0 = 0%Z -> iterate_i order log_interval max_depth st0 = Panic w -> ~ cap_panic w.
Proof. exact iterate_i_capacity. Qed.
(* with the engine's constants: depth <= MaxSearchDepth (40, enforced by `go`) and mu <= 46 fit: 40 + 46 + 1 = 87 < 88 rows, < 200 slots, 46 < 64 *)
Example C18_constants : (40 + 46 + 1 < pvTableRows)%Z /\ (40 + 46 + 1 < plyBufferCapacity)%Z /\ (46 < qfuel)%nat /\ MaxSearchDepth = 40%Z /\ maxQuiescencePlies = 46%Z.
Proof. split; [reflexivity|]. split; [reflexivity|]. split; [unfold qfuel; apply Nat.ltb_lt; reflexivity|]. split; reflexivity. Qed.
Print Assumptions C18_no_capacity_panic.
