(* Shared vocabulary of the search-level property files. *)
From Coq Require Import ZArith List Permutation.
Require Import Base Generated Position Make Gen SearchImp.
(* any move ordering: may look at the killer table, the candidate line and the depth; returns a permutation of its input *)
Definition ordering2 := killer_table -> list move -> Z -> pos -> list rmove -> list rmove.
Definition is_ordering2 (order : ordering2) : Prop := forall k c d p l, Permutation (order k c d p l) l.
(* every tactical move the engine generates is one of its legal moves (property C06 supplies it for the chess instance) *)
Definition tactical_sub : Prop := forall p tms, gen_tactical p = Ok tms -> exists ms, gen_legal p = Ok ms /\ incl (map rm tms) (map rm ms).
