(* Property C05, tie to the source: the score-formatting arithmetic of engine/uci.go and the mate-in-one test of engine/search.go,
   translated from the source text on every run, are the model functions of the C05 theorems. *)
From Coq Require Import ZArith List String.
Require Import Base Generated Uci Search GoLang GeneratedFns GoFnsProofs.
Import ListNotations.
Open Scope Z_scope.

Theorem C05_source_closeToMate : forall score, in_int64 score -> -9223372036854775807 <= score ->
  run_fn fn_closeToMate [score] [] = Ok (Returned (b2z (close_to_mate score))).
Proof. exact closeToMate_translated. Qed.
Theorem C05_source_fullMovesToMate : forall score, -4000000000000000000 <= score <= 4000000000000000000 ->
  run_fn fn_fullMovesToMate [score] [] = Ok (Returned (full_moves_to_mate score)).
Proof. exact fullMovesToMate_translated. Qed.
Theorem C05_source_nextMoveWins : forall score, in_int64 score ->
  run_fn fn_nextMoveWins [score] [] = Ok (Returned (b2z (next_move_wins score))).
Proof. exact nextMoveWins_translated. Qed.
Print Assumptions C05_source_closeToMate.
Print Assumptions C05_source_fullMovesToMate.
Print Assumptions C05_source_nextMoveWins.
