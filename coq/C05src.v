(* Property C05, tie to the source: the score-formatting arithmetic of engine/uci.go and the mate-in-one test of engine/search.go,
   translated from the source text on every run, are the model functions of the C05 theorems. *)
From Coq Require Import ZArith List String Lia.
Require Import Base Generated Position Attack Eval Uci Search GoLang GeneratedFns GoFnsProofs.
Import ListNotations.
Open Scope Z_scope.

Theorem C05_source_closeToMate : forall score, in_int64 score -> -9223372036854775807 <= score ->
  run_fn fn_closeToMate [score] [] = Ok (Returned (b2z (close_to_mate score))).
Proof. exact closeToMate_translated. Qed.
Theorem C05_source_fullMovesToMate : forall score, -4000000000000000000 <= score <= 4000000000000000000 ->
  run_fn fn_fullMovesToMate [score] [] = Ok (Returned (full_moves_to_mate score)).
Proof. exact fullMovesToMate_translated. Qed.
Theorem C05_source_nextMoveWins : forall score, in_int64 score ->
  run_fn fn_nextMoveWins [score] [] = Ok (Returned (b2z (next_move_wins score))).
Proof. exact nextMoveWins_translated. Qed.
(* terminalNodeScore: with the position query `isCurrentKingUnderCheck` answering what the model's in_check answers (C09), the
   source text scores a node without legal moves exactly as the model's terminal_score *)
Theorem C05_source_terminalNodeScore : forall p position depth nodes, 0 <= depth <= 1000000 ->
  run_fn_env fn_terminalNodeScore [position; depth]
    [("position.isCurrentKingUnderCheck()"%string, b2z (in_check p)); ("evaluatedNodes"%string, nodes)]
  = Ok (Returned (terminal_score p depth)).
Proof.
  intros p position depth nodes H. unfold terminal_score.
  exact (terminalNodeScore_translated position depth nodes (in_check p) ltac:(unfold in_int64; lia) H).
Qed.
(* the helper abs that the score formatting calls: its source text means the built-in the semantics gives the call *)
Theorem C05_source_abs : forall a, run_fn fn_abs [a] [] = do v <- call "abs" [a]; Ok (Returned v).
Proof. exact abs_translated. Qed.
Print Assumptions C05_source_abs.
Print Assumptions C05_source_terminalNodeScore.
Print Assumptions C05_source_closeToMate.
Print Assumptions C05_source_fullMovesToMate.
Print Assumptions C05_source_nextMoveWins.
