(* Property C03, totality: every search started on a well-formed legal position ENDS (the model's iterate_i returns, for every
   oracle stream) and has then printed exactly one bestmove, legal by the rules or `0000` when there is no legal move. *)
From Coq Require Import ZArith List Permutation Lia.
Require Import Base Generated Position Make Gen Search SearchImp SearchImpProofs SearchImpChess SearchStmt WF SearchTotal.
Require Spec Abs.
Import ListNotations.
Open Scope Z_scope.

Theorem C03_every_search_answers_once : forall order log_interval, is_ordering2 order -> forall max_depth st p,
  log_interval <> 0 -> wf_legal p = true -> ply p + 200 < 32767 -> (max_depth <= 40)%nat ->
  top st = Ok p -> ply_idx st = 0 -> st_out st = [] ->
  exists stf, iterate_i order log_interval max_depth st = Ok stf
    /\ n_bestmoves (st_out stf) = 1%nat
    /\ ((exists b rest, st_out stf = EvBestMove b :: rest /\ Spec.legal (Abs.abs p) (Abs.absm b) = true)
        \/ (st_out stf = [EvBestMoveNone] /\ forall sm, Spec.legal (Abs.abs p) sm = false)).
Proof.
  intros order li OP md st p L W B D T I O.
  destruct (chess_iterate_i_total order OP li md p st L W B D T I) as (stf & H).
  assert (B' : ply p + Z.of_nat md + Z.of_nat qfuel + 2 < 32767) by (unfold qfuel; lia).
  exists stf. split; [exact H|]. split.
  - exact (proj1 (chess_iterate_i_one_bestmove order li OP md st stf p W B' T H O)).
  - destruct (chess_iterate_i_bestmove_rules order li OP md st stf p W B' H T) as [A | [A1 A2]]; [left; exact A | right].
    rewrite O in A1. split; assumption.
Qed.
Print Assumptions C03_every_search_answers_once.
