(* Proofs about the FEN loader model (Fen.v): totality (no panic on any string) and soundness
   (every accepted position is well formed and the side not to move is not in check). *)
From Coq Require Import ZArith List Bool Lia String Ascii ZifyBool.
Require Import Str.
Require Import Base Generated Position Attack Make WF Fen.
Import ListNotations.
Open Scope Z_scope.

Ltac Zify.zify_post_hook ::= Z.div_mod_to_equations.

(* ------------------------------------------------------------------ *)
(* basic facts: byte, upd, get / set                                   *)

Lemma byte_small z : 0 <= z < 256 -> byte z = z.
Proof. intros; unfold byte; apply Z.mod_small; lia. Qed.

Lemma upd_length {A} (l : list A) i v : List.length (upd l i v) = List.length l.
Proof. revert i; induction l; intros [|i]; cbn; auto. Qed.

Lemma nth_upd_eq {A} (l : list A) i v d : (i < List.length l)%nat -> nth i (upd l i v) d = v.
Proof. revert i; induction l; intros [|i] H; cbn in *; try lia; auto. apply IHl; lia. Qed.

Lemma nth_upd_neq {A} (l : list A) i j v d : i <> j -> nth j (upd l i v) d = nth j l d.
Proof. revert i j; induction l; intros [|i] [|j] H; cbn; auto; try congruence. Qed.

Lemma get_set b sq v s : List.length b = 128%nat -> 0 <= sq < 128 -> 0 <= s ->
  Position.get (set b sq v) s = if s =? sq then v else Position.get b s.
Proof.
  intros L Hq Hs. unfold Position.get, set. destruct (Z.eqb_spec s sq).
  - subst. apply nth_upd_eq. lia.
  - apply nth_upd_neq. lia.
Qed.

Lemma get_out b s : List.length b = 128%nat -> 128 <= s -> Position.get b s = Empty.
Proof. intros L H. unfold Position.get. apply nth_overflow. lia. Qed.

(* ------------------------------------------------------------------ *)
(* the scanner invariant                                               *)

Definition pk (k : kind) : bool := match k with Pawn | King => false | _ => true end.
Definition is_q (c : color) (x : cell) : bool :=
  match x with Pc c' k => color_eqb c c' && pk k | Empty => false end.
Definition is_p (c : color) (x : cell) : bool :=
  match x with Pc c' k => color_eqb c c' && kind_eqb k Pawn | Empty => false end.
Definition is_pawn (x : cell) : bool := match x with Pc _ Pawn => true | _ => false end.

(* list l holds exactly the squares of the board whose cell satisfies cp, once each *)
Definition tracks (cp : cell -> bool) (b : list cell) (l : list Z) : Prop :=
  NoDup l /\ forall s, In s l <-> (0 <= s < 128 /\ cp (Position.get b s) = true).
(* king counter n / king square k against the board *)
Definition kinv (kc : cell) (b : list cell) (n k : Z) : Prop :=
  0 <= n /\ (n = 0 -> forall s, 0 <= s < 128 -> Position.get b s <> kc) /\
  (n = 1 -> 0 <= k < 128 /\ Position.get b k = kc /\ forall s, 0 <= s < 128 -> Position.get b s = kc -> s = k).
Definition pawn_rows (b : list cell) : Prop :=
  forall s, 0 <= s < 128 -> is_pawn (Position.get b s) = true -> 16 <= s < 112.
(* squares already passed by the scanner when it is at rank base r, file f *)
Definition inW (r f s : Z) : Prop := (r + 16 <= s /\ s mod 16 < 8) \/ (r <= s < r + f).
Definition written (r f : Z) (b : list cell) : Prop :=
  forall s, 0 <= s < 128 -> Position.get b s <> Empty -> inW r f s.

Record inv (r f : Z) (st : scan) : Prop := {
  i_len : List.length (s_board st) = 128%nat;
  i_W : written r f (s_board st);
  i_bq : tracks (is_q Black) (s_board st) (s_bq st);
  i_wq : tracks (is_q White) (s_board st) (s_wq st);
  i_bp : tracks (is_p Black) (s_board st) (s_bp st);
  i_wp : tracks (is_p White) (s_board st) (s_wp st);
  i_cbq : (List.length (s_bq st) <= pieceCap)%nat;
  i_cwq : (List.length (s_wq st) <= pieceCap)%nat;
  i_cbp : (List.length (s_bp st) <= pawnCap)%nat;
  i_cwp : (List.length (s_wp st) <= pawnCap)%nat;
  i_pawn : pawn_rows (s_board st);
  i_bk : kinv (Pc Black King) (s_board st) (s_nbk st) (s_bk st);
  i_wk : kinv (Pc White King) (s_board st) (s_nwk st) (s_wk st) }.

Definition rank_ok (r : Z) : Prop := 0 <= r <= 112 /\ r mod 16 = 0.

Lemma NoDup_snoc {A} (l : list A) x : NoDup l -> ~ In x l -> NoDup (l ++ [x]).
Proof.
  induction l; intros ND NI; cbn.
  - repeat constructor; auto.
  - inversion ND; subst. constructor.
    + rewrite in_app_iff. cbn. intros [H|[H|[]]]; auto. subst. apply NI. left; auto.
    + apply IHl; auto. intro; apply NI; right; auto.
Qed.

(* effect of writing a fresh square *)
Section Fresh.
  Variables (b : list cell) (sq : Z) (v : cell).
  Hypothesis L : List.length b = 128%nat.
  Hypothesis Hsq : 0 <= sq < 128.
  Hypothesis Hfresh : Position.get b sq = Empty.

  Lemma tracks_add cp l : cp Empty = false -> cp v = true -> tracks cp b l -> tracks cp (set b sq v) (l ++ [sq]).
  Proof.
    intros E Hv [ND T]. split.
    - apply NoDup_snoc; auto. rewrite T, Hfresh, E. intros [_ H]; discriminate.
    - intro s. rewrite in_app_iff, T. cbn. split.
      + intros [[Hs H]|[<-|[]]].
        * split; auto. rewrite get_set by lia. destruct (Z.eqb_spec s sq); auto.
        * split; auto. rewrite get_set by lia. rewrite Z.eqb_refl; auto.
      + intros [Hs H]. rewrite get_set in H by lia. destruct (Z.eqb_spec s sq); auto.
  Qed.

  Lemma tracks_keep cp l : cp Empty = false -> cp v = false -> tracks cp b l -> tracks cp (set b sq v) l.
  Proof.
    intros E Hv [ND T]. split; auto.
    intro s. rewrite T. split; intros [Hs H]; split; auto.
    - rewrite get_set by lia. destruct (Z.eqb_spec s sq); auto. subst. congruence.
    - rewrite get_set in H by lia. destruct (Z.eqb_spec s sq); auto. congruence.
  Qed.

  Lemma kinv_add n k : v <> Empty -> kinv v b n k -> kinv v (set b sq v) (n + 1) sq.
  Proof.
    intros NE (Hn & H0 & H1). split; [lia|]. split; [lia|].
    intros Hn1. assert (n = 0) by lia. split; auto. split.
    - rewrite get_set by lia. rewrite Z.eqb_refl; auto.
    - intros s Hs. rewrite get_set by lia. destruct (Z.eqb_spec s sq); auto.
      intro G. exfalso. eapply H0; eauto.
  Qed.

  Lemma kinv_keep kc n k : kc <> Empty -> v <> kc -> kinv kc b n k -> kinv kc (set b sq v) n k.
  Proof.
    intros NE NV (Hn & H0 & H1). split; auto. split.
    - intros Hn0 s Hs. rewrite get_set by lia. destruct (Z.eqb_spec s sq); auto.
    - intros Hn1. destruct (H1 Hn1) as (Hk & Gk & U). split; auto. split.
      + rewrite get_set by lia. destruct (Z.eqb_spec k sq); auto. subst. congruence.
      + intros s Hs. rewrite get_set by lia. destruct (Z.eqb_spec s sq); auto. congruence.
  Qed.

  Lemma pawn_rows_set : (is_pawn v = true -> 16 <= sq < 112) -> pawn_rows b -> pawn_rows (set b sq v).
  Proof.
    intros Hv P s Hs. rewrite get_set by lia. destruct (Z.eqb_spec s sq); auto. subst; auto.
  Qed.

  Lemma written_set r f : 0 <= f -> sq = r + f -> written r f b -> written r (f + 1) (set b sq v).
  Proof.
    intros Hf -> W s Hs. rewrite get_set by lia. destruct (Z.eqb_spec s (r + f)).
    - intros _. right. lia.
    - intro G. destruct (W s Hs G) as [H|H]; [left|right]; lia.
  Qed.
End Fresh.

Lemma written_mono r f f' b : f <= f' -> written r f b -> written r f' b.
Proof. intros Hf W s Hs G. destruct (W s Hs G) as [H|H]; [left|right]; lia. Qed.

Lemma written_next r b : r mod 16 = 0 -> written r 8 b -> written (r - 16) 0 b.
Proof. intros Hr W s Hs G. left. destruct (W s Hs G) as [H|H]; lia. Qed.

Lemma inv_mono r f f' st : f <= f' -> inv r f st -> inv r f' st.
Proof. intros Hf []. constructor; auto. eapply written_mono; eauto. Qed.

Lemma inv_next r st : r mod 16 = 0 -> inv r 8 st -> inv (r - 16) 0 st.
Proof. intros Hr []. constructor; auto. apply written_next; auto. Qed.

Lemma fresh_square r f b : written r f b -> 0 <= r + f < 128 -> 0 <= f < 16 -> Position.get b (r + f) = Empty.
Proof.
  intros W Hs Hf. destruct (Position.get b (r + f)) eqn:G; auto.
  exfalso. assert (N : Position.get b (r + f) <> Empty) by congruence.
  destruct (W _ Hs N); lia.
Qed.

(* ------------------------------------------------------------------ *)
(* one character                                                       *)

Definition step_post (P : scan -> Z -> Prop) (o : result step_out) : Prop :=
  match o with Ok (Continue st f) => P st f | Ok (Stop _) => True | Panic _ => False end.

Lemma scan_char_spec r st f c : rank_ok r -> 0 <= f <= 8 -> inv r f st ->
  step_post (fun st' f' => inv r f' st' /\ 0 <= f' <= 8) (scan_char r st f c).
Proof.
  intros [Hr Hr16] Hf I. unfold scan_char.
  assert (Hc : 0 <= code c) by (unfold code; lia).
  destruct ((49 <=? code c) && (code c <=? 56)) eqn:Ed.
  - rewrite byte_small by lia. destruct (f + (code c - 48) >? 8) eqn:E8; [exact Logic.I|].
    cbn. split; [|lia]. apply inv_mono with f; auto; lia.
  - destruct (f >? 7) eqn:E7; [exact Logic.I|].
    destruct (char_to_piece c) as [|col k]; [exact Logic.I|].
    destruct (kind_eqb k Pawn && ((r =? 0) || (r =? 112))) eqn:Epr; [exact Logic.I|].
    rewrite (byte_small (r + f)) by lia. rewrite (byte_small (f + 1)) by lia.
    unfold set_r. replace ((0 <=? r + f) && (r + f <? 128)) with true by lia. cbn [bind].
    destruct I.
    assert (Fr : Position.get (s_board st) (r + f) = Empty) by (apply fresh_square; auto; lia).
    assert (Hq : 0 <= r + f < 128) by lia.
    assert (Pw : is_pawn (Pc col k) = true -> 16 <= r + f < 112).
    { destruct k; cbn; try discriminate. intros _. cbn in Epr. lia. }
    unfold pawnCap, pieceCap in *.
    destruct col, k.
    all: try (match goal with |- context [(?a =? ?b)%nat] => destruct (a =? b)%nat eqn:Ecap; [exact Logic.I|] end;
           unfold append_cap;
           match goal with |- context [(?a <? ?b)%nat] => destruct (a <? b)%nat eqn:Ecap2; [|exfalso; lia] end;
           cbn [bind]).
    all: cbn [step_post]; split; [|lia]; constructor; cbn [s_board s_bq s_wq s_bp s_wp s_bk s_wk s_nbk s_nwk].
    all: match goal with
      | |- List.length (set _ _ _) = _ => unfold set; rewrite upd_length; assumption
      | |- written _ _ _ => apply written_set; auto; lia
      | |- tracks _ _ _ => first [ solve [apply tracks_add; auto] | solve [apply tracks_keep; auto] ]
      | |- (_ <= _)%nat => unfold pawnCap, pieceCap; try (rewrite app_length; cbn [List.length]); lia
      | |- pawn_rows _ => apply pawn_rows_set; auto
      | |- kinv _ _ _ _ => first [ solve [eapply kinv_add; eauto; congruence] | solve [apply kinv_keep; auto; congruence] ]
      end.
Qed.

(* ------------------------------------------------------------------ *)
(* one rank, eight ranks                                               *)

Lemma scan_rank_spec r s : rank_ok r -> forall st f, 0 <= f <= 8 -> inv r f st ->
  step_post (fun st' f' => inv r 8 st' /\ f' = 8) (scan_rank r st f s).
Proof.
  intros Hr. induction s as [|c s IH]; intros st f Hf I; cbn [scan_rank].
  - destruct (Z.eqb_spec f 8); cbn; auto. subst; auto.
  - pose proof (scan_char_spec r st f c Hr Hf I) as H.
    destruct (scan_char r st f c) as [[st' f'|e]|w]; cbn [bind step_post] in *; auto.
    destruct H. apply IH; auto.
Qed.

Lemma scan_ranks_spec l : forall idx st, 0 <= idx -> idx + Z.of_nat (List.length l) = 8 ->
  inv ((7 - idx) * 16) 0 st ->
  step_post (fun st' _ => inv (-16) 0 st') (scan_ranks idx st l).
Proof.
  induction l as [|rs l IH]; intros idx st Hi Hl I; cbn [scan_ranks].
  - cbn in Hl. replace idx with 8 in I by lia. exact I.
  - cbn [List.length] in Hl.
    assert (Hr : rank_ok ((7 - idx) * 16)) by (unfold rank_ok; lia).
    pose proof (scan_rank_spec _ rs Hr st 0 ltac:(lia) I) as H.
    destruct (scan_rank ((7 - idx) * 16) st 0 rs) as [[st' f'|e]|w]; cbn [bind step_post] in *; auto.
    destruct H as [H _]. apply IH; try lia.
    replace ((7 - (idx + 1)) * 16) with ((7 - idx) * 16 - 16) by lia.
    apply inv_next; auto. apply Hr.
Qed.

Lemma get_repeat_empty n s : Position.get (repeat Empty n) s = Empty.
Proof.
  unfold Position.get. generalize (Z.to_nat s). induction n; intros [|m]; cbn; auto.
Qed.

Lemma tracks_nil cp : cp Empty = false -> tracks cp (repeat Empty 128) [].
Proof.
  intros E. split; [constructor|]. intro s. rewrite get_repeat_empty, E. split; [intros []|intros [_ H]; discriminate].
Qed.

Lemma inv_scan0 : inv 112 0 scan0.
Proof.
  constructor; cbn [scan0 s_board s_bq s_wq s_bp s_wp s_bk s_wk s_nbk s_nwk].
  - apply repeat_length.
  - intros s _ H. rewrite get_repeat_empty in H. congruence.
  - apply tracks_nil; auto.
  - apply tracks_nil; auto.
  - apply tracks_nil; auto.
  - apply tracks_nil; auto.
  - cbn; unfold pieceCap; lia.
  - cbn; unfold pieceCap; lia.
  - cbn; unfold pawnCap; lia.
  - cbn; unfold pawnCap; lia.
  - intros s _. rewrite get_repeat_empty. discriminate.
  - split; [lia|]. split; [|lia]. intros _ s _. rewrite get_repeat_empty. discriminate.
  - split; [lia|]. split; [|lia]. intros _ s _. rewrite get_repeat_empty. discriminate.
Qed.

Lemma scan_ranks_top l : List.length l = 8%nat ->
  step_post (fun st' _ => inv (-16) 0 st') (scan_ranks 0 scan0 l).
Proof. intros H. apply scan_ranks_spec; try lia. exact inv_scan0. Qed.

(* ------------------------------------------------------------------ *)
(* the en-passant field                                                *)

(* the value the loader computes for the en-passant field, as a function of what it depends on *)
Definition epr_of (b : list cell) (wt : bool) (f3 : string) : result (option Z) :=
  match f3 with
  | String fc (String rc EmptyString) =>
      if (code fc <? 97) || (code fc >? 104) || negb ((code rc =? 51) || (code rc =? 54)) then Ok None else
      let e := byte ((code fc - 97) + byte ((code rc - 49) * 16)) in
      if negb (Bool.eqb (code rc =? 54) wt) then Ok (Some (-1)) else
      let jumped := if wt then byte (e + 16) else byte (e - 16) in
      let psq := if wt then byte (e - 16) else byte (e + 16) in
      let pushed := if wt then Pc Black Pawn else Pc White Pawn in
      if (128 <=? psq) || (128 <=? jumped) || (128 <=? e) then Panic P_BOARD_INDEX else
      if negb (cell_eqb (Position.get b psq) pushed) || negb (is_empty (Position.get b e)) || negb (is_empty (Position.get b jumped))
      then Ok (Some (-1)) else Ok (Some e)
  | _ => if str_eqb f3 "-" then Ok (Some INVALID) else Ok None
  end.

(* what an accepted en-passant field means *)
Definition ep_fact (b : list cell) (wt : bool) (e : Z) : Prop :=
  e = INVALID \/
  (exists fl, 0 <= fl <= 7 /\
     if wt then e = 80 + fl /\ cell_eqb (Position.get b (e - 16)) (Pc Black Pawn) = true
                /\ is_empty (Position.get b e) = true /\ is_empty (Position.get b (e + 16)) = true
     else e = 32 + fl /\ cell_eqb (Position.get b (e + 16)) (Pc White Pawn) = true
                /\ is_empty (Position.get b e) = true /\ is_empty (Position.get b (e - 16)) = true).

Lemma epr_of_spec b wt f3 :
  match epr_of b wt f3 with
  | Ok None => True
  | Ok (Some e) => e = -1 \/ ep_fact b wt e
  | Panic _ => False end.
Proof.
  unfold epr_of.
  destruct f3 as [|fc [|rc [|x y]]];
    try (match goal with |- context [str_eqb ?a ?b] => destruct (str_eqb a b) end; auto; right; left; reflexivity).
  destruct ((code fc <? 97) || (code fc >? 104) || negb ((code rc =? 51) || (code rc =? 54))) eqn:E1; auto.
  assert (Hrc : code rc = 51 \/ code rc = 54) by lia.
  assert (Hfc : 97 <= code fc <= 104) by lia.
  destruct (negb (Bool.eqb (code rc =? 54) wt)) eqn:E2; [left; reflexivity|].
  cbv zeta.
  destruct wt.
  - assert (code rc = 54) by (destruct (code rc =? 54) eqn:E; cbn in E2; [lia|discriminate]).
    replace (code rc) with 54 by lia. change ((54 - 49) * 16) with 80. rewrite (byte_small 80) by lia.
    rewrite (byte_small (code fc - 97 + 80)) by lia.
    rewrite (byte_small (code fc - 97 + 80 + 16)) by lia.
    rewrite (byte_small (code fc - 97 + 80 - 16)) by lia.
    replace ((128 <=? code fc - 97 + 80 - 16) || (128 <=? code fc - 97 + 80 + 16) || (128 <=? code fc - 97 + 80)) with false by lia.
    destruct (cell_eqb _ _) eqn:A1; cbn [negb orb]; [|left; reflexivity].
    destruct (is_empty (Position.get b (code fc - 97 + 80))) eqn:A2; cbn [negb orb]; [|left; reflexivity].
    destruct (is_empty (Position.get b (code fc - 97 + 80 + 16))) eqn:A3; cbn [negb orb]; [|left; reflexivity].
    right. right. exists (code fc - 97). split; [lia|]. split; [lia|]. auto.
  - assert (code rc = 51) by (destruct (code rc =? 54) eqn:E; cbn in E2; [discriminate|lia]).
    replace (code rc) with 51 by lia. change ((51 - 49) * 16) with 32. rewrite (byte_small 32) by lia.
    rewrite (byte_small (code fc - 97 + 32)) by lia.
    rewrite (byte_small (code fc - 97 + 32 + 16)) by lia.
    rewrite (byte_small (code fc - 97 + 32 - 16)) by lia.
    replace ((128 <=? code fc - 97 + 32 + 16) || (128 <=? code fc - 97 + 32 - 16) || (128 <=? code fc - 97 + 32)) with false by lia.
    destruct (cell_eqb _ _) eqn:A1; cbn [negb orb]; [|left; reflexivity].
    destruct (is_empty (Position.get b (code fc - 97 + 32))) eqn:A2; cbn [negb orb]; [|left; reflexivity].
    destruct (is_empty (Position.get b (code fc - 97 + 32 - 16))) eqn:A3; cbn [negb orb]; [|left; reflexivity].
    right. right. exists (code fc - 97). split; [lia|]. split; [lia|]. auto.
Qed.

(* ------------------------------------------------------------------ *)
(* parse_fen restated with its second half named                       *)

Definition mk_pos (st : scan) (wt : bool) (f2 : string) (e n : Z) : pos :=
  let ply0 := int16 ((n - 1) * 2) in
  {| board := s_board st; bpieces := s_bq st; wpieces := s_wq st; bpawns := s_bp st; wpawns := s_wp st;
     bking := s_bk st; wking := s_wk st; wturn := wt;
     wK := contains f2 "K"; wQ := contains f2 "Q"; bK := contains f2 "k"; bQ := contains f2 "q";
     ep := e; ply := if wt then ply0 else int16 (ply0 + 1) |}.

Definition finish (st : scan) (f1 f2 f3 f4 f5 : string) : result fen_out :=
  if negb ((s_nbk st =? 1) && (s_nwk st =? 1)) then Ok (FenErr E_KINGS) else
  if (pieceCap <? List.length (s_bq st) + List.length (s_bp st))%nat || (pieceCap <? List.length (s_wq st) + List.length (s_wp st))%nat
  then Ok (FenErr E_MEN) else
  let b := s_board st in
  if negb (str_eqb f1 "w" || str_eqb f1 "b") then Ok (FenErr E_TURN) else
  let wt := str_eqb f1 "w" in
  if negb (str_eqb f2 "-") && (str_eqb f2 "" || negb (all_chars_in f2 "KQkq")) then Ok (FenErr E_CASTLE_SYNTAX) else
  let cwK := contains f2 "K" in let cwQ := contains f2 "Q" in let cbK := contains f2 "k" in let cbQ := contains f2 "q" in
  if (cwK && negb (cell_eqb (Position.get b 4) (Pc White King) && cell_eqb (Position.get b 7) (Pc White Rook)))
     || (cwQ && negb (cell_eqb (Position.get b 4) (Pc White King) && cell_eqb (Position.get b 0) (Pc White Rook)))
     || (cbK && negb (cell_eqb (Position.get b 116) (Pc Black King) && cell_eqb (Position.get b 119) (Pc Black Rook)))
     || (cbQ && negb (cell_eqb (Position.get b 116) (Pc Black King) && cell_eqb (Position.get b 112) (Pc Black Rook)))
  then Ok (FenErr E_CASTLE_CONSIST) else
  do epo <- epr_of b wt f3;
  match epo with
  | None => Ok (FenErr E_EP_SYNTAX)
  | Some e =>
    if e =? -1 then Ok (FenErr E_EP_CONSIST) else
    match atoi f4 with
    | None => Ok (FenErr E_HALFMOVE)
    | Some h => if h <? 0 then Ok (FenErr E_HALFMOVE) else
      match atoi f5 with
      | None => Ok (FenErr E_FULLMOVE_SYNTAX)
      | Some n =>
        if n <? 1 then Ok (FenErr E_FULLMOVE_LOW) else
        if n >? maxFullMoveCounter then Ok (FenErr E_FULLMOVE_HIGH) else
        let p := mk_pos st wt f2 e n in
        if in_check (flip_turn p) then Ok (FenErr E_IN_CHECK) else Ok (FenOk p)
      end
    end
  end.

Lemma parse_fen_eq fen :
  parse_fen fen =
  if negb (is_ascii fen) then Ok (FenErr E_ASCII) else
  match split_on " "%char fen with
  | [f0; f1; f2; f3; f4; f5] =>
    let ranks := split_on "/"%char f0 in
    if negb (List.length ranks =? 8)%nat then Ok (FenErr E_RANKS) else
    do o <- scan_ranks 0 scan0 ranks;
    match o with
    | Stop e => Ok (FenErr e)
    | Continue st _ => finish st f1 f2 f3 f4 f5
    end
  | _ => Ok (FenErr E_FIELDS)
  end.
Proof. reflexivity. Qed.

Lemma finish_total st f1 f2 f3 f4 f5 : exists o, finish st f1 f2 f3 f4 f5 = Ok o.
Proof.
  unfold finish. cbv zeta.
  repeat match goal with
  | |- exists o, (if ?c then Ok _ else _) = Ok o => destruct c; [eexists; reflexivity|]
  end.
  pose proof (epr_of_spec (s_board st) (str_eqb f1 "w") f3) as H.
  destruct (epr_of (s_board st) (str_eqb f1 "w") f3) as [[e|]|w]; [| |contradiction]; cbn [bind];
    [|eexists; reflexivity].
  repeat match goal with
  | |- exists o, (if ?c then _ else _) = Ok o => destruct c; try (eexists; reflexivity)
  | |- exists o, match ?c with Some _ => _ | None => _ end = Ok o => destruct c; try (eexists; reflexivity)
  end.
Qed.

(* 1. totality: no string whatsoever makes the loader crash *)
Theorem parse_fen_total : forall s : string, exists o, parse_fen s = Ok o.
Proof.
  intro s. rewrite parse_fen_eq.
  destruct (negb (is_ascii s)); [eexists; reflexivity|].
  destruct (split_on " " s) as [|f0 [|f1 [|f2 [|f3 [|f4 [|f5 [|x y]]]]]]]; try (eexists; reflexivity).
  cbv zeta.
  destruct (Nat.eqb_spec (List.length (split_on "/" f0)) 8) as [E|E]; cbn [negb]; [|eexists; reflexivity].
  pose proof (scan_ranks_top _ E) as H.
  destruct (scan_ranks 0 scan0 (split_on "/" f0)) as [[st f|e]|w]; cbn [bind step_post] in *;
    [apply finish_total | eexists; reflexivity | contradiction].
Qed.

Print Assumptions parse_fen_total.

(* ------------------------------------------------------------------ *)
(* from the invariant to the boolean well-formedness predicate         *)

Lemma in_squares128 s : 0 <= s < 128 -> In s squares128.
Proof.
  intros H. unfold squares128. apply in_map_iff. exists (Z.to_nat s). split; [lia|]. apply in_seq. lia.
Qed.
Lemma squares128_range s : In s squares128 -> 0 <= s < 128.
Proof.
  unfold squares128. rewrite in_map_iff. intros (n & <- & H). apply in_seq in H. lia.
Qed.
Lemma forall_squares (P : Z -> bool) : forallb P squares128 = true -> forall s, 0 <= s < 128 -> P s = true.
Proof. intros H s Hs. rewrite forallb_forall in H. apply H. apply in_squares128; auto. Qed.

Lemma onb_mod s : 0 <= s < 128 -> s mod 16 < 8 -> onb s = true.
Proof.
  intros Hs Hm.
  assert (H : forallb (fun s => implb (s mod 16 <? 8) (onb s)) squares128 = true) by (vm_compute; reflexivity).
  pose proof (forall_squares _ H s Hs) as H1. cbv beta in H1.
  replace (s mod 16 <? 8) with true in H1 by lia. exact H1.
Qed.
Lemma rank80 s : 80 <= s <= 87 -> (rankof s =? 80) && validb s = true.
Proof.
  intros Hs.
  assert (H : forallb (fun s => implb ((80 <=? s) && (s <=? 87)) ((rankof s =? 80) && validb s)) squares128 = true)
    by (vm_compute; reflexivity).
  pose proof (forall_squares _ H s ltac:(lia)) as H1. cbv beta in H1.
  replace ((80 <=? s) && (s <=? 87)) with true in H1 by lia. exact H1.
Qed.
Lemma rank32 s : 32 <= s <= 39 -> (rankof s =? 32) && validb s = true.
Proof.
  intros Hs.
  assert (H : forallb (fun s => implb ((32 <=? s) && (s <=? 39)) ((rankof s =? 32) && validb s)) squares128 = true)
    by (vm_compute; reflexivity).
  pose proof (forall_squares _ H s ltac:(lia)) as H1. cbv beta in H1.
  replace ((32 <=? s) && (s <=? 39)) with true in H1 by lia. exact H1.
Qed.
Lemma pawn_rank_ok s : 16 <= s < 112 -> negb ((rankof s =? 0) || (rankof s =? 112)) = true.
Proof.
  intros Hs.
  assert (H : forallb (fun s => implb ((16 <=? s) && (s <? 112)) (negb ((rankof s =? 0) || (rankof s =? 112)))) squares128 = true)
    by (vm_compute; reflexivity).
  pose proof (forall_squares _ H s ltac:(lia)) as H1. cbv beta in H1.
  replace ((16 <=? s) && (s <? 112)) with true in H1 by lia. exact H1.
Qed.

Lemma memb_In x l : memb x l = true <-> In x l.
Proof.
  unfold memb. rewrite existsb_exists. split.
  - intros (y & Hy & E). apply Z.eqb_eq in E. subst; auto.
  - intros H. exists x. split; auto. apply Z.eqb_refl.
Qed.
Lemma nodupb_NoDup l : NoDup l -> nodupb l = true.
Proof.
  induction 1; cbn; auto. rewrite IHNoDup, andb_true_r.
  destruct (existsb (Z.eqb x) l) eqn:E; auto. exfalso. apply H. apply memb_In. exact E.
Qed.
Lemma cell_eqb_eq x y : cell_eqb x y = true <-> x = y.
Proof.
  split.
  - destruct x as [|[] []], y as [|[] []]; cbn; intro; congruence.
  - intros <-. destruct x as [|[] []]; reflexivity.
Qed.

Definition onboard (b : list cell) : Prop := forall s, 0 <= s < 128 -> Position.get b s <> Empty -> onb s = true.

Lemma written_onboard b : written (-16) 0 b -> onboard b.
Proof. intros W s Hs G. apply onb_mod; auto. destruct (W s Hs G); lia. Qed.

Lemma tracks_memb cp b l s : tracks cp b l -> 0 <= s < 128 -> memb s l = cp (Position.get b s).
Proof.
  intros [_ T] Hs. apply eq_true_iff_eq. rewrite memb_In, T. tauto.
Qed.
Lemma kinv_eqb kc b k s : kinv kc b 1 k -> 0 <= s < 128 -> (s =? k) = cell_eqb (Position.get b s) kc.
Proof.
  intros (_ & _ & H1) Hs. destruct (H1 eq_refl) as (Hk & Gk & U).
  apply eq_true_iff_eq. rewrite Z.eqb_eq, cell_eqb_eq. split; [intros ->; auto|auto].
Qed.
Lemma tracks_valid cp b l : cp Empty = false -> onboard b -> tracks cp b l -> forallb validb l = true.
Proof.
  intros E O [_ T]. apply forallb_forall. intros s Hs. apply T in Hs. destruct Hs as [Hs C].
  unfold validb. rewrite O; auto; [lia|]. intro G. rewrite G, E in C. discriminate.
Qed.

Lemma valid_squares_range s : In s valid_squares -> 0 <= s < 128.
Proof.
  unfold valid_squares. intros Hs. apply filter_In in Hs. destruct Hs as [Hs _]. apply squares128_range; auto.
Qed.

Lemma lists_ok_square c b pieces pawns king :
  tracks (is_q c) b pieces -> tracks (is_p c) b pawns -> kinv (Pc c King) b 1 king ->
  forall s, 0 <= s < 128 ->
       match Position.get b s with
       | Pc c' k =>
           if color_eqb c c' then
             match k with
             | Pawn => memb s pawns && negb (memb s pieces) && negb (s =? king)
             | King => (s =? king) && negb (memb s pawns) && negb (memb s pieces)
             | _ => memb s pieces && negb (memb s pawns) && negb (s =? king)
             end
           else negb (memb s pawns) && negb (memb s pieces) && negb (s =? king)
       | Empty => negb (memb s pawns) && negb (memb s pieces) && negb (s =? king)
       end = true.
Proof.
  intros Tq Tp K s Hs.
  rewrite (tracks_memb _ _ _ _ Tq Hs), (tracks_memb _ _ _ _ Tp Hs), (kinv_eqb _ _ _ _ K Hs).
  destruct (Position.get b s) as [|c' k]; [reflexivity|]. destruct c, c', k; reflexivity.
Qed.

Lemma lists_ok_intro c b pieces pawns king : onboard b ->
  tracks (is_q c) b pieces -> tracks (is_p c) b pawns -> kinv (Pc c King) b 1 king ->
  lists_ok b c pieces pawns king = true.
Proof.
  intros O Tq Tp K. unfold lists_ok.
  repeat match goal with |- andb _ _ = true => apply andb_true_intro; split end.
  - apply nodupb_NoDup, Tq.
  - apply nodupb_NoDup, Tp.
  - destruct K as (_ & _ & H1). destruct (H1 eq_refl) as (Hk & Gk & _).
    unfold validb. rewrite O; auto; [lia|]. rewrite Gk. discriminate.
  - apply forallb_forall. intros s Hs. apply lists_ok_square; auto. apply valid_squares_range; auto.
  - apply (tracks_valid (is_q c) b); auto.
  - apply (tracks_valid (is_p c) b); auto.
Qed.

Lemma is_p_pawn c x : is_p c x = true -> is_pawn x = true.
Proof. destruct x as [|c' []]; cbn; auto; rewrite ?andb_false_r; auto. Qed.

Lemma int16_small z : -32768 <= z < 32768 -> int16 z = z.
Proof. intros H. unfold int16. rewrite Z.mod_small; lia. Qed.

Lemma ep_ok_intro b bq wq bp wp bk wk wt cK cQ ck cq e pl : ep_fact b wt e ->
  ep_ok {| board := b; bpieces := bq; wpieces := wq; bpawns := bp; wpawns := wp; bking := bk; wking := wk;
           wturn := wt; wK := cK; wQ := cQ; bK := ck; bQ := cq; ep := e; ply := pl |} = true.
Proof.
  intros [->|(fl & Hfl & H)]; unfold ep_ok; cbn [ep board wturn]; [reflexivity|].
  apply orb_true_iff. right.
  destruct wt.
  - destruct H as (-> & A1 & A2 & A3). rewrite rank80 by lia. rewrite A1, A2, A3. reflexivity.
  - destruct H as (-> & A1 & A2 & A3). rewrite rank32 by lia. rewrite A1, A2, A3. reflexivity.
Qed.

Lemma finish_sound st f1 f2 f3 f4 f5 p : inv (-16) 0 st ->
  finish st f1 f2 f3 f4 f5 = Ok (FenOk p) -> wf_legal p = true.
Proof.
  intros I H. unfold finish in H. cbv zeta in H.
  match type of H with (if ?c then _ else _) = _ => destruct c eqn:EK; [discriminate|] end.
  match type of H with (if ?c then _ else _) = _ => destruct c eqn:EM; [discriminate|] end.
  match type of H with (if ?c then _ else _) = _ => destruct c eqn:ET; [discriminate|] end.
  match type of H with (if ?c then _ else _) = _ => destruct c eqn:ECS; [discriminate|] end.
  match type of H with (if ?c then _ else _) = _ => destruct c eqn:ECC; [discriminate|] end.
  pose proof (epr_of_spec (s_board st) (str_eqb f1 "w") f3) as HE.
  destruct (epr_of (s_board st) (str_eqb f1 "w") f3) as [[e|]|w]; cbn [bind] in H; try discriminate.
  destruct (Z.eqb_spec e (-1)) as [|Ne]; [discriminate|].
  destruct HE as [|HE]; [contradiction|].
  destruct (atoi f4) as [h|]; [|discriminate].
  destruct (h <? 0); [discriminate|].
  destruct (atoi f5) as [n|]; [|discriminate].
  destruct (n <? 1) eqn:En1; [discriminate|].
  destruct (n >? maxFullMoveCounter) eqn:En2; [discriminate|].
  match type of H with (if ?c then _ else _) = _ => destruct c eqn:Ein; [discriminate|] end.
  injection H as <-.
  unfold wf_legal. apply andb_true_intro. split; [|unfold not_capturable; rewrite Ein; reflexivity].
  destruct I.
  pose proof (written_onboard _ i_W0) as O.
  assert (Kb : kinv (Pc Black King) (s_board st) 1 (s_bk st)) by (replace 1 with (s_nbk st) by lia; auto).
  assert (Kw : kinv (Pc White King) (s_board st) 1 (s_wk st)) by (replace 1 with (s_nwk st) by lia; auto).
  unfold wf, mk_pos. cbn [board bpieces wpieces bpawns wpawns bking wking wturn wK wQ bK bQ ep ply].
  unfold pawnCap, pieceCap in *.
  repeat match goal with |- andb _ _ = true => apply andb_true_intro; split end.
  - apply Nat.eqb_eq; auto.
  - apply forallb_forall. intros s Hs. apply squares128_range in Hs.
    destruct (Position.get (s_board st) s) eqn:G; [apply orb_true_r|].
    rewrite O; auto. congruence.
  - apply lists_ok_intro; auto.
  - apply lists_ok_intro; auto.
  - apply Nat.leb_le; auto.
  - apply Nat.leb_le; auto.
  - apply Nat.leb_le. lia.
  - apply Nat.leb_le. lia.
  - apply forallb_forall. intros s Hs. apply in_app_iff in Hs. apply pawn_rank_ok.
    destruct Hs as [Hs|Hs]; [apply i_wp0 in Hs|apply i_bp0 in Hs]; destruct Hs as [Hs C];
      apply i_pawn0; auto; eapply is_p_pawn; eauto.
  - unfold castle_flags_ok. cbn [board wK wQ bK bQ].
    repeat match type of ECC with context [contains f2 ?x] => destruct (contains f2 x) end;
    repeat match type of ECC with context [cell_eqb ?x ?y] => destruct (cell_eqb x y) end;
    cbn in ECC |- *; congruence.
  - apply ep_ok_intro; auto.
  - unfold maxFullMoveCounter in *.
    destruct (str_eqb f1 "w"); rewrite ?(int16_small ((n - 1) * 2)) by lia; rewrite ?int16_small by lia; lia.
  - unfold maxFullMoveCounter in *.
    destruct (str_eqb f1 "w"); rewrite ?(int16_small ((n - 1) * 2)) by lia; rewrite ?int16_small by lia; lia.
Qed.

(* 2. soundness: whatever is accepted is a well-formed position in which the side not to move is not in check *)
Theorem parse_fen_sound : forall s p, parse_fen s = Ok (FenOk p) -> wf_legal p = true.
Proof.
  intros s p. rewrite parse_fen_eq.
  destruct (negb (is_ascii s)); [discriminate|].
  destruct (split_on " " s) as [|f0 [|f1 [|f2 [|f3 [|f4 [|f5 [|x y]]]]]]]; try discriminate.
  cbv zeta.
  destruct (Nat.eqb_spec (List.length (split_on "/" f0)) 8) as [E|E]; cbn [negb]; [|discriminate].
  pose proof (scan_ranks_top _ E) as H.
  destruct (scan_ranks 0 scan0 (split_on "/" f0)) as [[st f|e]|w]; cbn [bind step_post] in *; try discriminate.
  apply finish_sound; auto.
Qed.

Print Assumptions parse_fen_sound.
