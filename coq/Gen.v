(* engine/movegen.go: pseudo-legal generation (all moves / tactical moves), legality filter, countTacticalMoves. *)
Require Import Base Generated Position Attack Make.

Record rmove := { rm : move; tactical : bool }.

Definition knight_dirs : list Z := [33; -33; 31; -31; 18; -18; 14; -14].   (* NNE SSW NNW SSE NEE SWW NWW SEE *)
Definition king_dirs : list Z := gen_king_directions.                       (* package variable kingDirections *)
Definition bishop_dirs : list Z := [17; -15; 15; -17].                      (* NE SE NW SW *)
Definition rook_dirs : list Z := [16; -16; 1; -1].                          (* N S E W *)
Definition queen_dirs : list Z := king_dirs.

Definition promo4 (f t : Z) : list rmove :=
  map (fun k => {| rm := {| mfrom := f; mto := t; mpromo := Some k; mep := INVALID |}; tactical := true |}) [Queen; Rook; Bishop; Knight].
(* appendPawnCaptures *)
Definition pawn_capture (f t promo_rank : Z) : list rmove :=
  if rankof t =? promo_rank then promo4 f t else [{| rm := new_move f t; tactical := true |}].
(* appendPawnPushes *)
Definition pawn_push (f t promo_rank : Z) : list rmove :=
  if rankof t =? promo_rank then promo4 f t else [{| rm := new_move f t; tactical := false |}].
(* appendMoveOrCapture / appendSlidingPieceMoveOrCapture / appendCapture *)
Definition move_or_capture (b : list cell) (f t : Z) : rmove :=
  {| rm := new_move f t; tactical := negb (is_empty (get b t)) |}.

(* appendSlidingPieceMoves, one direction; 7 steps of fuel reach every square of a ray *)
Fixpoint slide (fuel : nat) (b : list cell) (c : color) (f s d : Z) : list rmove :=
  match fuel with O => [] | S k =>
    let t := byte (s + d) in
    if onb t then
      match get b t with
      | Empty => move_or_capture b f t :: slide k b c f t d
      | Pc c' _ => if color_eqb c c' then [] else [move_or_capture b f t]
      end
    else [] end.
(* appendSlidingPieceCaptures *)
Fixpoint slide_cap (fuel : nat) (b : list cell) (c : color) (f s d : Z) : list rmove :=
  match fuel with O => [] | S k =>
    let t := byte (s + d) in
    if onb t then
      match get b t with
      | Empty => slide_cap k b c f t d
      | Pc c' _ => if color_eqb c c' then [] else [move_or_capture b f t]
      end
    else [] end.

Definition adv_of (p : pos) : Z := if wturn p then 16 else -16.
Definition start_rank_of (p : pos) : Z := if wturn p then 16 else 96.
Definition promo_rank_of (p : pos) : Z := if wturn p then 112 else 0.
Definition safe_sq (p : pos) (s : Z) : bool :=
  negb (is_under_check (board p) (en_pieces p) (en_pawns p) (en_king p) s).
Definition can_castle_q (p : pos) : bool :=
  let b := board p in let k := cur_king p in
  (if wturn p then wQ p else bQ p) && is_empty (get b (k - 1)) && is_empty (get b (k - 2)) && is_empty (get b (k - 3))
  && safe_sq p k && safe_sq p (byte (k - 1)) && safe_sq p (byte (k - 2)).
Definition can_castle_k (p : pos) : bool :=
  let b := board p in let k := cur_king p in
  (if wturn p then wK p else bK p) && is_empty (get b (k + 1)) && is_empty (get b (k + 2))
  && safe_sq p k && safe_sq p (byte (k + 1)) && safe_sq p (byte (k + 2)).

(* generatePseudoLegalMoves *)
Definition gen_pseudo (p : pos) : list rmove :=
  let c := cur_color p in let e := opp c in let b := board p in
  let cking := cur_king p in
  let adv := adv_of p in let start_rank := start_rank_of p in let promo_rank := promo_rank_of p in
  let pawn_moves := flat_map (fun from =>
      let tq := byte (from + adv - 1) in
      let q := if onb tq && is_col e (get b tq) then pawn_capture from tq promo_rank
               else if tq =? ep p then pawn_capture from tq promo_rank else [] in
      let tk := byte (from + adv + 1) in
      let k := if is_col e (get b tk) then pawn_capture from tk promo_rank
               else if tk =? ep p then pawn_capture from tk promo_rank else [] in
      let t1 := byte (from + adv) in
      let pu := match get b t1 with
                | Empty =>
                    let t2 := byte (t1 + adv) in
                    pawn_push from t1 promo_rank ++
                    (if (rankof from =? start_rank) then
                       match get b t2 with Empty => [{| rm := {| mfrom := from; mto := t2; mpromo := None; mep := t1 |}; tactical := false |}] | _ => [] end
                     else [])
                | _ => [] end in
      q ++ k ++ pu) (cur_pawns p) in
  let piece_moves := flat_map (fun from =>
      match get b from with
      | Pc _ Knight => flat_map (fun d => let t := byte (from + d) in
                         if onb t && negb (is_col c (get b t)) then [move_or_capture b from t] else []) knight_dirs
      | Pc _ Bishop => flat_map (slide 7 b c from from) bishop_dirs
      | Pc _ Rook => flat_map (slide 7 b c from from) rook_dirs
      | Pc _ Queen => flat_map (slide 7 b c from from) queen_dirs
      | _ => []      (* Go panics "Unexpected piece found": see pieces_ok *)
      end) (cur_pieces p) in
  let king_moves := flat_map (fun d => let t := byte (cking + d) in
      if onb t && negb (is_col c (get b t)) && safe_sq p t
      then [move_or_capture b cking t] else []) king_dirs in
  let qs := if can_castle_q p then [{| rm := new_move cking (cking - 2); tactical := false |}] else [] in
  let ks := if can_castle_k p then [{| rm := new_move cking (cking + 2); tactical := false |}] else [] in
  pawn_moves ++ piece_moves ++ king_moves ++ qs ++ ks.

(* generatePseudoLegalTacticalMoves *)
Definition gen_pseudo_tactical (p : pos) : list rmove :=
  let c := cur_color p in let e := opp c in let b := board p in
  let cking := cur_king p in
  let adv := adv_of p in let promo_rank := promo_rank_of p in
  let pawn_moves := flat_map (fun from =>
      let tq := byte (from + adv - 1) in
      let q := if onb tq && is_col e (get b tq) then pawn_capture from tq promo_rank
               else if tq =? ep p then pawn_capture from tq promo_rank else [] in
      let tk := byte (from + adv + 1) in
      let k := if is_col e (get b tk) then pawn_capture from tk promo_rank
               else if tk =? ep p then pawn_capture from tk promo_rank else [] in
      let t1 := byte (from + adv) in
      let pu := match get b t1 with Empty => if rankof t1 =? promo_rank then promo4 from t1 else [] | _ => [] end in
      q ++ k ++ pu) (cur_pawns p) in
  let piece_moves := flat_map (fun from =>
      match get b from with
      | Pc _ Knight => flat_map (fun d => let t := byte (from + d) in
                         if onb t && is_col e (get b t) then [move_or_capture b from t] else []) knight_dirs
      | Pc _ Bishop => flat_map (slide_cap 7 b c from from) bishop_dirs
      | Pc _ Rook => flat_map (slide_cap 7 b c from from) rook_dirs
      | Pc _ Queen => flat_map (slide_cap 7 b c from from) queen_dirs
      | _ => []
      end) (cur_pieces p) in
  let king_moves := flat_map (fun d => let t := byte (cking + d) in
      if onb t && is_col e (get b t) && safe_sq p t
      then [move_or_capture b cking t] else []) king_dirs in
  pawn_moves ++ piece_moves ++ king_moves.

(* the generator switch panics on anything but N/B/R/Q on a piece list *)
Definition pieces_ok (p : pos) : bool :=
  forallb (fun from => match get (board p) from with Pc _ Knight | Pc _ Bishop | Pc _ Rook | Pc _ Queen => true | _ => false end) (cur_pieces p).
(* Go index expressions that are not preceded by an & 0x88 test must stay below 128 *)
Definition board_index_safe (p : pos) : bool :=
  forallb (fun from => (byte (from + adv_of p + 1) <? 128) && (byte (from + adv_of p) <? 128) &&
                       (negb (rankof from =? start_rank_of p) || (byte (from + 2 * adv_of p) <? 128))) (cur_pawns p)
  && forallb (fun s => s <? 128) (cur_pawns p ++ cur_pieces p ++ [cur_king p; en_king p])
  && (negb (if wturn p then wQ p else bQ p) || ((3 <=? cur_king p) && (cur_king p <? 128)))
  && (negb (if wturn p then wK p else bK p) || ((0 <=? cur_king p) && (cur_king p + 2 <? 128))).

(* generateLegalMoves: filter by isLegal; every panic site becomes a Panic of the whole call *)
Definition all_ok (p : pos) (l : list rmove) : bool := forallb (fun r => is_ok (make p (rm r))) l.
Definition gen_legal_pure (p : pos) : list rmove := filter (fun r => is_legal p (rm r)) (gen_pseudo p).
Definition gen_tactical_pure (p : pos) : list rmove := filter (fun r => is_legal p (rm r)) (gen_pseudo_tactical p).
Definition gen_legal (p : pos) : result (list rmove) :=
  if negb (board_index_safe p) then Panic P_BOARD_INDEX
  else if negb (pieces_ok p) then Panic P_UNEXPECTED_PIECE
  else if negb (all_ok p (gen_pseudo p)) then Panic P_KILL_PIECE
  else Ok (gen_legal_pure p).
Definition gen_tactical (p : pos) : result (list rmove) :=
  if negb (board_index_safe p) then Panic P_BOARD_INDEX
  else if negb (pieces_ok p) then Panic P_UNEXPECTED_PIECE
  else if negb (all_ok p (gen_pseudo_tactical p)) then Panic P_KILL_PIECE
  else Ok (gen_tactical_pure p).

(* countTacticalMoves *)
Definition count_pawn (p : pos) (f t promo_rank : Z) : Z :=
  if is_legal p (new_move f t) then (if rankof t =? promo_rank then 4 else 1) else 0.
Fixpoint count_slide_cap (fuel : nat) (p : pos) (c : color) (f s d : Z) : Z :=
  match fuel with O => 0 | S k =>
    let t := byte (s + d) in
    if onb t then
      match get (board p) t with
      | Empty => count_slide_cap k p c f t d
      | Pc c' _ => if color_eqb c c' then 0 else b2z (is_legal p (new_move f t))
      end
    else 0 end.
Definition count_tactical (p : pos) : Z :=
  let c := cur_color p in let e := opp c in let b := board p in
  let cking := cur_king p in
  let adv := adv_of p in let promo_rank := promo_rank_of p in
  let pawns := zsum (map (fun from =>
      let tq := byte (from + adv - 1) in
      let q := if onb tq && (is_col e (get b tq) || (tq =? ep p)) then count_pawn p from tq promo_rank else 0 in
      let tk := byte (from + adv + 1) in
      let k := if is_col e (get b tk) || (tk =? ep p) then count_pawn p from tk promo_rank else 0 in
      let t1 := byte (from + adv) in
      let pu := if is_empty (get b t1) && (rankof t1 =? promo_rank) then count_pawn p from t1 promo_rank else 0 in
      q + k + pu) (cur_pawns p)) in
  let pieces := zsum (map (fun from =>
      match get b from with
      | Pc _ Knight => zsum (map (fun d => let t := byte (from + d) in
                         if onb t && is_col e (get b t) then b2z (is_legal p (new_move from t)) else 0) knight_dirs)
      | Pc _ Bishop => zsum (map (count_slide_cap 7 p c from from) bishop_dirs)
      | Pc _ Rook => zsum (map (count_slide_cap 7 p c from from) rook_dirs)
      | Pc _ Queen => zsum (map (count_slide_cap 7 p c from from) queen_dirs)
      | _ => 0
      end) (cur_pieces p)) in
  let king := zsum (map (fun d => let t := byte (cking + d) in
      if onb t && is_col e (get b t) then b2z (is_legal p (new_move cking t)) else 0) king_dirs) in
  pawns + pieces + king.
