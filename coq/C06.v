(* Property C06: tactical move list and perft/tperft counts agree with full legal generation (and with the rules). *)
From Coq Require Import ZArith List Bool.
Require Import Base Generated Position Attack Make Gen Count Perft WF MakeSpec MakeProofs GenProofs CountProofs PerftProofs.
Require Spec.
Require Import Abs.
Open Scope Z_scope.

(* the quiescence move list = the legal moves that capture (incl. en passant) or promote (all four pieces), each once *)
Theorem C06_tactical_exact : forall p, wf_legal p = true -> ply p + 1 < 32767 ->
  exists l, gen_tactical p = Ok l
    /\ NoDup (map (fun r => absm (rm r)) l)
    /\ (forall sm, In sm (map (fun r => absm (rm r)) l) <-> (Spec.legal (abs p) sm = true /\ Spec.is_tactical (abs p) sm = true)).
Proof. exact (gen_tactical_exact make_spec). Qed.
(* the tactical generator is literally the full generator restricted to flagged moves (no well-formedness needed) *)
Theorem C06_tactical_is_filter : forall p, gen_pseudo_tactical p = filter tactical (gen_pseudo p).
Proof. exact gen_pseudo_tactical_filter. Qed.
Theorem C06_flag_exact : forall p l r, wf_legal p = true -> ply p + 1 < 32767 -> gen_legal p = Ok l -> In r l ->
  tactical r = Spec.is_tactical (abs p) (absm (rm r)).
Proof. exact (tactical_flag_exact make_spec). Qed.
(* the two fast counters (mobility, mate detection, perft leaves) agree with the generators *)
Theorem C06_count_moves : forall p l, wf_legal p = true -> ply p + 1 < 32767 -> gen_legal p = Ok l -> count_moves p = Z.of_nat (length l).
Proof. exact (count_moves_exact make_spec). Qed.
Theorem C06_count_tactical : forall p l, wf_legal p = true -> ply p + 1 < 32767 -> gen_tactical p = Ok l -> count_tactical p = Z.of_nat (length l).
Proof. exact (count_tactical_exact make_spec). Qed.
(* perft for EVERY depth = number of legal move paths by the rules *)
Theorem C06_perft : forall n p, wf_legal p = true -> ply p + Z.of_nat n < 32767 -> perft n p = Ok (Spec.paths n (abs p)).
Proof. exact (perft_exact make_spec). Qed.

(* tperft: paths whose FINAL move captures or promotes (depth 0 counts like depth 1, as the engine does) *)
Theorem C06_tperft : forall n p, (1 <= n)%nat -> wf_legal p = true -> ply p + Z.of_nat n < 32767 -> perft_tactical n p = Ok (tpaths n (abs p)).
Proof. exact perft_tactical_exact_pos. Qed.
(* the divide output of `perft n` / `tperft n`: one row per legal move of the rules, each once, with the exact sub-count; total exact *)
Theorem C06_perft_divide : forall n p l, wf_legal p = true -> ply p + Z.of_nat n < 32767 -> (1 <= n)%nat -> gen_legal p = Ok l ->
  perft_divide n p = Ok (map (fun r => (rm r, Spec.paths (n - 1) (Spec.apply (abs p) (absm (rm r))))) l, Spec.paths n (abs p)).
Proof. exact perft_divide_exact. Qed.
Theorem C06_tperft_divide : forall n p l, wf_legal p = true -> ply p + Z.of_nat n < 32767 -> (1 <= n)%nat -> gen_legal p = Ok l ->
  tperft_divide n p = Ok (map (fun r => (rm r, trow n (abs p) (absm (rm r)))) l, tpaths n (abs p)).
Proof. exact tperft_divide_exact. Qed.

Example C06_example : wf_legal startpos = true /\ perft 2 startpos = Ok 400 /\ count_moves startpos = 20 /\ count_tactical startpos = 0.
Proof. repeat split; vm_compute; reflexivity. Qed.

Print Assumptions C06_tactical_exact.
Print Assumptions C06_tactical_is_filter.
Print Assumptions C06_flag_exact.
Print Assumptions C06_count_moves.
Print Assumptions C06_count_tactical.
Print Assumptions C06_perft.
Print Assumptions C06_tperft.
Print Assumptions C06_perft_divide.
Print Assumptions C06_tperft_divide.
