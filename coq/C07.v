(* Property C07 (move notation part): every move the engine prints parses back to the same move. *)
From Coq Require Import ZArith List.
Require Import Str.
Require Import Base Generated Position Make WF Uci SweepProofs.
Open Scope Z_scope.

(* all 64 x 64 x 5 printable moves, as printed, with upper-case promotion suffix, and fully upper-case *)
Theorem C07_roundtrip : forall m,
  validb (mfrom m) = true -> validb (mto m) = true -> promo_printable (mpromo m) = true -> mep m = INVALID ->
  parse_move (move_string m) = Some m.
Proof. exact (move_roundtrip (fun s => s) roundtrip_sweep). Qed.
Theorem C07_roundtrip_upper_suffix : forall m,
  validb (mfrom m) = true -> validb (mto m) = true -> promo_printable (mpromo m) = true -> mep m = INVALID ->
  parse_move (upper_suffix (move_string m)) = Some m.
Proof. exact (move_roundtrip upper_suffix roundtrip_upper_suffix_sweep). Qed.
Theorem C07_roundtrip_upper : forall m,
  validb (mfrom m) = true -> validb (mto m) = true -> promo_printable (mpromo m) = true -> mep m = INVALID ->
  parse_move (to_upper (move_string m)) = Some m.
Proof. exact (move_roundtrip to_upper roundtrip_upper_sweep). Qed.
Theorem C07_domain_size : Z.of_nat (length printable_moves) = 20480.
Proof. exact printable_count. Qed.

Example C07_example : parse_move "e7e8Q" = Some {| mfrom := 100; mto := 116; mpromo := Some Queen; mep := INVALID |}
  /\ move_string {| mfrom := 100; mto := 116; mpromo := Some Queen; mep := INVALID |} = "e7e8q"%string.
Proof. split; reflexivity. Qed.

Print Assumptions C07_roundtrip.
Print Assumptions C07_roundtrip_upper_suffix.
Print Assumptions C07_roundtrip_upper.
Print Assumptions C07_domain_size.
