(* Property C08 "faithfulness" as a theorem: a FEN printer for positions of the rules (written against Spec only),
   and the round trip  parse_fen (fen_text a hm n) = Ok (FenOk p)  with  abs p  equal to  a.
   The printer uses the canonical compression of empty squares (runs of empty squares as one digit 1..8).
   No axioms, nothing admitted. *)
From Coq Require Import ZArith List Bool Lia String Ascii ZifyBool.
Require Import Str.
Require Import Base Generated Position Attack Make WF Fen FenProofs.
Require Spec Abs MakeSpec AttackProofs EvalProofs GenProofs.
Import ListNotations.
Open Scope Z_scope.

(* ================================================================== *)
(* 1. strings: character classes, joining and splitting                *)
(* ================================================================== *)

Fixpoint sall (P : ascii -> bool) (s : string) : bool :=
  match s with EmptyString => true | String c s' => P c && sall P s' end.

(* a character that is 7-bit and is none of the two separators of a FEN *)
Definition plain (c : ascii) : bool := (code c <=? 127) && negb (code c =? 32) && negb (code c =? 47).

Lemma sapp_assoc (a b c : string) : ((a ++ b) ++ c = a ++ (b ++ c))%string.
Proof. induction a as [|x a IH]; cbn [append]; [reflexivity|]. rewrite IH. reflexivity. Qed.
Lemma sapp_nil (a : string) : (a ++ "" = a)%string.
Proof. induction a as [|x a IH]; cbn [append]; [reflexivity|]. rewrite IH. reflexivity. Qed.

Lemma sall_app P a b : sall P (a ++ b)%string = sall P a && sall P b.
Proof. induction a as [|c a IH]; cbn [append sall]; [reflexivity|]. rewrite IH. apply andb_assoc. Qed.

Lemma sall_ascii s : sall plain s = true -> is_ascii s = true.
Proof.
  induction s as [|c s IH]; cbn [sall is_ascii]; [reflexivity|]. intros H.
  apply andb_prop in H as [H1 H2]. rewrite (IH H2). unfold plain in H1. lia.
Qed.

Lemma sall_nosep sep s : (code sep = 32 \/ code sep = 47) -> sall plain s = true -> contains_char s sep = false.
Proof.
  intros Hs. induction s as [|c s IH]; cbn [sall contains_char]; [reflexivity|]. intros H.
  apply andb_prop in H as [H1 H2]. rewrite (IH H2). unfold plain in H1. unfold ascii_eqb. lia.
Qed.

Fixpoint join (sep : ascii) (l : list string) : string :=
  match l with
  | [] => EmptyString
  | [x] => x
  | x :: rest => (x ++ String sep (join sep rest))%string
  end.

Lemma split_nosep sep s : contains_char s sep = false -> split_on sep s = [s].
Proof.
  induction s as [|c s IH]; cbn [contains_char split_on]; [reflexivity|]. intros H.
  apply orb_false_elim in H as [H1 H2]. rewrite (IH H2).
  replace (ascii_eqb c sep) with false by (unfold ascii_eqb in *; lia). reflexivity.
Qed.

Lemma split_app sep a b : contains_char a sep = false ->
  split_on sep (a ++ String sep b)%string = a :: split_on sep b.
Proof.
  induction a as [|c a IH]; cbn [contains_char append]; intros H.
  - cbn [split_on]. replace (ascii_eqb sep sep) with true by (unfold ascii_eqb; lia). reflexivity.
  - apply orb_false_elim in H as [H1 H2]. cbn [split_on]. rewrite (IH H2).
    replace (ascii_eqb c sep) with false by (unfold ascii_eqb in *; lia). reflexivity.
Qed.

Lemma split_join sep l : l <> [] -> Forall (fun s => contains_char s sep = false) l ->
  split_on sep (join sep l) = l.
Proof.
  induction l as [|x l IH]; intros NE F; [congruence|].
  inversion F as [|? ? Hx Hl]; subst. destruct l as [|y l].
  - cbn [join]. apply split_nosep; assumption.
  - change (join sep (x :: y :: l)) with (x ++ String sep (join sep (y :: l)))%string.
    rewrite split_app by assumption. rewrite IH; [reflexivity|congruence|assumption].
Qed.

Lemma sall_join P sep l : P sep = true -> Forall (fun s => sall P s = true) l -> sall P (join sep l) = true.
Proof.
  intros Hs. induction l as [|x l IH]; intros F; [reflexivity|].
  inversion F as [|? ? Hx Hl]; subst. destruct l as [|y l]; [exact Hx|].
  change (join sep (x :: y :: l)) with (x ++ String sep (join sep (y :: l)))%string.
  rewrite sall_app. cbn [sall]. rewrite Hx, Hs, IH by assumption. reflexivity.
Qed.

Lemma code_of_N z : 0 <= z < 256 -> code (ascii_of_N (Z.to_N z)) = z.
Proof. intros H. unfold code. rewrite N_ascii_embedding by lia. lia. Qed.

(* ================================================================== *)
(* 2. the decimal printer of Str.v is inverted by Atoi                 *)
(* ================================================================== *)

Lemma digits_val_app s t a :
  digits_val (s ++ t)%string a = match digits_val s a with Some v => digits_val t v | None => None end.
Proof.
  revert a. induction s as [|c s IH]; intro a; cbn [append digits_val]; [reflexivity|].
  destruct (is_digit c); [apply IH|reflexivity].
Qed.

Definition dchar (d : Z) : ascii := ascii_of_N (Z.to_N (48 + d)).
Lemma dchar_code d : 0 <= d <= 9 -> code (dchar d) = 48 + d.
Proof. intros H. unfold dchar. apply code_of_N. lia. Qed.

(* pos_digits writes a non-empty digit string, whose value is n, in front of acc *)
Lemma pos_digits_spec fuel : forall n acc, 0 <= n < 10 ^ Z.of_nat fuel -> (0 < fuel)%nat ->
  exists ds, pos_digits fuel n acc = (ds ++ acc)%string /\ digits_val ds 0 = Some n
             /\ sall is_digit ds = true /\ ds <> EmptyString.
Proof.
  induction fuel as [|f IH]; intros n acc Hn Hf; [lia|].
  cbn [pos_digits]. fold (dchar (n mod 10)).
  assert (Hd : 0 <= n mod 10 <= 9) by lia.
  assert (Hc : is_digit (dchar (n mod 10)) = true) by (unfold is_digit; rewrite dchar_code by lia; lia).
  destruct (Z.eqb_spec (n / 10) 0) as [E|E].
  - exists (String (dchar (n mod 10)) EmptyString). split; [reflexivity|].
    split; [|split; [cbn [sall]; rewrite Hc; reflexivity|discriminate]].
    cbn [digits_val]. rewrite Hc, dchar_code by lia. f_equal. lia.
  - assert (Hp : 10 ^ Z.of_nat (S f) = 10 * 10 ^ Z.of_nat f) by (rewrite Nat2Z.inj_succ, Z.pow_succ_r; lia).
    destruct f as [|f']; [cbn in Hn; lia|].
    destruct (IH (n / 10) (String (dchar (n mod 10)) acc)) as (ds & E1 & E2 & E3 & E4); [lia|lia|].
    exists (ds ++ String (dchar (n mod 10)) EmptyString)%string.
    split; [rewrite E1, sapp_assoc; reflexivity|].
    split; [|split].
    + rewrite digits_val_app, E2. cbn [digits_val]. rewrite Hc, dchar_code by lia. f_equal. lia.
    + rewrite sall_app, E3. cbn [sall]. rewrite Hc. reflexivity.
    + destruct ds; [congruence|discriminate].
Qed.

Lemma atoi_digit_head c r : is_digit c = true ->
  atoi (String c r) =
  match digits_val (String c r) 0 with
  | Some v => if (- 9223372036854775808 <=? v) && (v <=? 9223372036854775807) then Some v else None
  | None => None end.
Proof.
  destruct c as [[] [] [] [] [] [] [] []]; intro H; try (exfalso; vm_compute in H; discriminate H); reflexivity.
Qed.

Definition int64_max : Z := 9223372036854775807.

Lemma itoa_plain_atoi n : 0 <= n <= int64_max ->
  atoi (itoa n) = Some n /\ sall plain (itoa n) = true.
Proof.
  intros Hn. unfold itoa. replace (n <? 0) with false by lia.
  destruct (pos_digits_spec 40 n EmptyString) as (ds & E1 & E2 & E3 & E4);
    [unfold int64_max in Hn; change (10 ^ Z.of_nat 40) with 10000000000000000000000000000000000000000; lia|lia|].
  rewrite E1. rewrite sapp_nil.
  split.
  - destruct ds as [|c r]; [congruence|]. cbn [sall] in E3. apply andb_prop in E3 as [E3 _].
    rewrite atoi_digit_head by assumption. rewrite E2. unfold int64_max in Hn.
    replace ((-9223372036854775808 <=? n) && (n <=? 9223372036854775807)) with true by lia. reflexivity.
  - clear - E3. induction ds as [|c r IH]; [reflexivity|]. cbn [sall] in *. apply andb_prop in E3 as [H1 H2].
    rewrite (IH H2), andb_true_r. unfold is_digit in H1. unfold plain. lia.
Qed.

(* ================================================================== *)
(* 3. the printer (rules level only: Spec.position -> string)          *)
(* ================================================================== *)

Definition piece_char (pc : Spec.piece) : ascii :=
  match pc with
  | (White, Pawn) => "P" | (White, Knight) => "N" | (White, Bishop) => "B"
  | (White, Rook) => "R" | (White, Queen) => "Q" | (White, King) => "K"
  | (Black, Pawn) => "p" | (Black, Knight) => "n" | (Black, Bishop) => "b"
  | (Black, Rook) => "r" | (Black, Queen) => "q" | (Black, King) => "k"
  end%char.

(* a pending run of empty squares: nothing, or one digit 1..8 *)
Definition run_str (run : Z) : string := if run =? 0 then EmptyString else String (dchar run) EmptyString.

Fixpoint zseq (start : Z) (len : nat) : list Z :=
  match len with O => [] | S l => start :: zseq (start + 1) l end.
Fixpoint zdown (top : Z) (len : nat) : list Z :=
  match len with O => [] | S l => top :: zdown (top - 1) l end.

(* the files fs of rank r, with [run] empty squares seen since the last piece *)
Fixpoint rank_str (b : Spec.board) (r : Z) (fs : list Z) (run : Z) : string :=
  match fs with
  | [] => run_str run
  | f :: fs' => match b (f, r) with
                | None => rank_str b r fs' (run + 1)
                | Some pc => (run_str run ++ String (piece_char pc) (rank_str b r fs' 0))%string
                end
  end.
Definition rank_text (b : Spec.board) (r : Z) : string := rank_str b r (zseq 0 8) 0.
Definition placement_text (b : Spec.board) : string := join "/" (map (rank_text b) (zdown 7 8)).

Definition turn_text (c : color) : string := match c with White => "w" | Black => "b" end.
Definition castle_text (a : Spec.position) : string :=
  let s := ((if Spec.rK a White then "K" else "") ++ (if Spec.rQ a White then "Q" else "") ++
            (if Spec.rK a Black then "k" else "") ++ (if Spec.rQ a Black then "q" else ""))%string in
  match s with EmptyString => "-" | _ => s end.
Definition ep_text (e : option Spec.sq) : string :=
  match e with
  | None => "-"
  | Some (f, r) => String (ascii_of_N (Z.to_N (97 + f))) (String (ascii_of_N (Z.to_N (49 + r))) EmptyString)
  end.

Definition fen_text (a : Spec.position) (halfmove fullmove : Z) : string :=
  join " " [placement_text (Spec.brd a); turn_text (Spec.turn a); castle_text a; ep_text (Spec.ep a);
            itoa halfmove; itoa fullmove].

(* ================================================================== *)
(* 4. list counting                                                    *)
(* ================================================================== *)

Lemma filter_split {A} (P Q : A -> bool) l :
  List.length (filter P l) =
  (List.length (filter (fun x => P x && Q x) l) + List.length (filter (fun x => P x && negb (Q x)) l))%nat.
Proof.
  induction l as [|x l IH]; [reflexivity|]. cbn [filter].
  destruct (P x), (Q x); cbn [andb negb List.length]; lia.
Qed.

Lemma filter_len_imp {A} (P Q : A -> bool) l : (forall x, P x = true -> Q x = true) ->
  (List.length (filter P l) <= List.length (filter Q l))%nat.
Proof.
  intros H. induction l as [|x l IH]; [cbn; lia|]. cbn [filter].
  destruct (P x) eqn:E; [rewrite (H x E)|destruct (Q x)]; cbn [List.length]; lia.
Qed.

Lemma filter_len1_unique {A} (P : A -> bool) l x y : List.length (filter P l) = 1%nat ->
  In x l -> P x = true -> In y l -> P y = true -> x = y.
Proof.
  intros L Hx Px Hy Py.
  assert (Ix : In x (filter P l)) by (apply filter_In; auto).
  assert (Iy : In y (filter P l)) by (apply filter_In; auto).
  destruct (filter P l) as [|z [|w t]]; try discriminate L.
  destruct Ix as [<-|[]]. destruct Iy as [<-|[]]. reflexivity.
Qed.

(* a duplicate-free list of 0x88 squares, each the image of a rules square satisfying P, is no longer than the
   number of such rules squares *)
Lemma squares_le (P : Spec.sq -> bool) (l : list Z) : NoDup l ->
  (forall s, In s l -> exists x, In x Spec.all_sq /\ Abs.sq88 x = s /\ P x = true) ->
  (List.length l <= List.length (filter P Spec.all_sq))%nat.
Proof.
  intros ND H. rewrite <- (map_length Abs.sq88 (filter P Spec.all_sq)).
  apply NoDup_incl_length; [exact ND|]. intros s Hs. destruct (H s Hs) as (x & Hx & E & Px).
  apply in_map_iff. exists x. split; [exact E|]. apply filter_In. auto.
Qed.

(* ================================================================== *)
(* 5. scanning the printed placement                                   *)
(* ================================================================== *)

Ltac Zify.zify_post_hook ::= Z.div_mod_to_equations.

Lemma piece_char_not_digit pc : (49 <=? code (piece_char pc)) && (code (piece_char pc) <=? 56) = false.
Proof. destruct pc as [[] []]; reflexivity. Qed.
Lemma piece_char_piece c k : char_to_piece (piece_char (c, k)) = Pc c k.
Proof. destruct c, k; reflexivity. Qed.
Lemma piece_char_plain pc : plain (piece_char pc) = true.
Proof. destruct pc as [[] []]; reflexivity. Qed.

Lemma dchar_plain d : 0 <= d <= 9 -> plain (dchar d) = true.
Proof. intros H. unfold plain. rewrite dchar_code by lia. lia. Qed.

(* a digit advances the file *)
Lemma scan_run R st f run rest : 0 <= f -> 0 <= run -> f + run <= 8 ->
  scan_rank R st f (run_str run ++ rest)%string = scan_rank R st (f + run) rest.
Proof.
  intros Hf Hr Hs. unfold run_str. destruct (Z.eqb_spec run 0) as [->|N].
  - cbn [append]. f_equal. lia.
  - cbn [append scan_rank]. unfold scan_char. rewrite dchar_code by lia.
    replace ((49 <=? 48 + run) && (48 + run <=? 56)) with true by lia.
    replace (48 + run - 48) with run by lia. rewrite byte_small by lia.
    replace (f + run >? 8) with false by lia. reflexivity.
Qed.

(* a piece letter on a free file writes the piece *)
Lemma scan_char_piece R st f c k : 0 <= R <= 112 -> 0 <= f <= 7 ->
  kind_eqb k Pawn && ((R =? 0) || (R =? 112)) = false ->
  match c, k with
  | _, King => True
  | Black, Pawn => (List.length (s_bp st) < 8)%nat | White, Pawn => (List.length (s_wp st) < 8)%nat
  | Black, _ => (List.length (s_bq st) < 15)%nat | White, _ => (List.length (s_wq st) < 15)%nat
  end ->
  exists st', scan_char R st f (piece_char (c, k)) = Ok (Continue st' (f + 1))
    /\ s_board st' = set (s_board st) (R + f) (Pc c k)
    /\ s_nbk st' = s_nbk st + (if cell_eqb (Pc c k) (Pc Black King) then 1 else 0)
    /\ s_nwk st' = s_nwk st + (if cell_eqb (Pc c k) (Pc White King) then 1 else 0).
Proof.
  intros HR Hf Hp Hcap. unfold scan_char.
  rewrite piece_char_not_digit, piece_char_piece, Hp.
  replace (f >? 7) with false by lia.
  rewrite (byte_small (R + f)) by lia. rewrite (byte_small (f + 1)) by lia.
  unfold set_r. replace ((0 <=? R + f) && (R + f <? 128)) with true by lia. cbn [bind].
  unfold pawnCap, pieceCap, append_cap.
  destruct c, k;
    try (match goal with |- context [(?a =? ?b)%nat] => replace (a =? b)%nat with false by lia end;
         match goal with |- context [(?a <? ?b)%nat] => replace (a <? b)%nat with true by lia end);
    cbn [bind]; eexists; (split; [reflexivity|]);
    cbn [s_board s_nbk s_nwk cell_eqb color_eqb kind_eqb andb]; repeat split; lia.
Qed.

Definition cell_of (o : option Spec.piece) : cell := match o with None => Empty | Some (c, k) => Pc c k end.

Lemma on_sq f r : 0 <= f < 8 -> 0 <= r < 8 ->
  validb (r * 16 + f) = true /\ Abs.coords (r * 16 + f) = (f, r).
Proof.
  intros Hf Hr. apply (GenProofs.on_valid (f, r)). unfold Spec.on; cbn [fst snd]. lia.
Qed.

Section Scan.
  Variable b : Spec.board.
  Hypothesis HK : forall c, Spec.count_pieces b c King = 1%nat.
  Hypothesis HP : forall c, (Spec.count_pieces b c Pawn <= 8)%nat.
  Hypothesis HC : forall c, (Spec.count_color b c <= 16)%nat.
  Hypothesis HR : forall f r c, 0 <= f < 8 -> 0 <= r < 8 -> b (f, r) = Some (c, Pawn) -> 0 < r < 7.

  (* pieces other than king and pawn *)
  Definition specQ (c : color) (x : Spec.sq) : bool :=
    match b x with Some (c', k') => color_eqb c c' && pk k' | None => false end.

  Lemma men_count c :
    (List.length (filter (specQ c) Spec.all_sq) + List.length (filter (fun x => Spec.has b x c Pawn) Spec.all_sq) <= 15)%nat.
  Proof.
    pose proof (HC c) as H. unfold Spec.count_color in H.
    pose proof (HK c) as H1. unfold Spec.count_pieces in H1.
    rewrite (filter_split _ (fun x => Spec.has b x c King)) in H.
    rewrite (filter_ext (fun x => Spec.owned b x c && Spec.has b x c King) (fun x => Spec.has b x c King)) in H.
    2:{ intro x. unfold Spec.owned, Spec.has. destruct (b x) as [[c' k']|]; [|reflexivity].
        destruct (color_eqb c c'); reflexivity. }
    rewrite H1 in H.
    rewrite (filter_split (fun x => Spec.owned b x c && negb (Spec.has b x c King)) (fun x => Spec.has b x c Pawn)) in H.
    rewrite (filter_ext (fun x => Spec.owned b x c && negb (Spec.has b x c King) && Spec.has b x c Pawn)
                        (fun x => Spec.has b x c Pawn)) in H.
    2:{ intro x. unfold Spec.owned, Spec.has. destruct (b x) as [[c' k']|]; [|reflexivity].
        destruct (color_eqb c c'), k'; reflexivity. }
    rewrite (filter_ext (fun x => Spec.owned b x c && negb (Spec.has b x c King) && negb (Spec.has b x c Pawn))
                        (specQ c)) in H.
    2:{ intro x. unfold Spec.owned, Spec.has, specQ. destruct (b x) as [[c' k']|]; [|reflexivity].
        destruct (color_eqb c c'), k'; reflexivity. }
    lia.
  Qed.

  Lemma king_unique c x y : Spec.on x = true -> Spec.on y = true ->
    b x = Some (c, King) -> b y = Some (c, King) -> x = y.
  Proof.
    intros Hx Hy Ex Ey. apply (filter_len1_unique (fun s => Spec.has b s c King) Spec.all_sq).
    - exact (HK c).
    - apply GenProofs.on_in_all; exact Hx.
    - unfold Spec.has. rewrite Ex. destruct c; reflexivity.
    - apply GenProofs.on_in_all; exact Hy.
    - unfold Spec.has. rewrite Ey. destruct c; reflexivity.
  Qed.

  Lemma king_exists c : exists f r, 0 <= f < 8 /\ 0 <= r < 8 /\ b (f, r) = Some (c, King).
  Proof.
    pose proof (HK c) as H. unfold Spec.count_pieces in H.
    destruct (filter (fun s => Spec.has b s c King) Spec.all_sq) as [|[f r] t] eqn:E; [discriminate H|].
    assert (I : In (f, r) (filter (fun s => Spec.has b s c King) Spec.all_sq)) by (rewrite E; left; reflexivity).
    apply filter_In in I as [I1 I2]. exists f, r.
    destruct (AttackProofs.all_sq_valid _ I1) as [V _].
    assert (O : Spec.on (f, r) = true).
    { revert I1. clear. unfold Spec.all_sq. rewrite in_flat_map. intros (rr & Hr & H).
      apply in_map_iff in H as (ff & E & Hf). apply in_seq in Hr, Hf. inversion E; subst.
      unfold Spec.on; cbn [fst snd]. lia. }
    unfold Spec.on in O; cbn [fst snd] in O. split; [lia|]. split; [lia|].
    unfold Spec.has in I2. destruct (b (f, r)) as [[c' k']|]; [|discriminate I2].
    destruct c, c', k'; try discriminate I2; reflexivity.
  Qed.

  (* what the scanner has written is what the rules board says, and nothing else *)
  Definition sub (bd : list cell) : Prop :=
    forall s, 0 <= s < 128 -> Position.get bd s <> Empty ->
      validb s = true /\ b (Abs.coords s) = Abs.abs_cell (Position.get bd s).
  Definition done (r cur : Z) (bd : list cell) : Prop :=
    forall f' r', 0 <= f' < 8 -> 0 <= r' < 8 -> (r' > r \/ (r' = r /\ f' < cur)) ->
      Abs.abs_cell (Position.get bd (r' * 16 + f')) = b (f', r').
  Record G (r cur : Z) (st : scan) : Prop := {
    g_sub : sub (s_board st);
    g_done : done r cur (s_board st);
    g_bk : s_nbk st = 0 \/ s_nbk st = 1;
    g_wk : s_nwk st = 0 \/ s_nwk st = 1 }.

  (* tracked squares correspond to rules squares *)
  Lemma tracked_spec cp (P : Spec.sq -> bool) bd l : sub bd -> tracks cp bd l -> cp Empty = false ->
    (forall x, cp (cell_of (b x)) = true -> P x = true) ->
    forall s, In s l -> exists x, In x Spec.all_sq /\ Abs.sq88 x = s /\ P x = true.
  Proof.
    intros S [_ T] E HP' s Hs. apply T in Hs as [Hs C].
    assert (N : Position.get bd s <> Empty) by (intro N; rewrite N, E in C; discriminate).
    destruct (S s Hs N) as [V B]. exists (Abs.coords s).
    split; [apply AttackProofs.coords_in_all; exact V|].
    split; [apply AttackProofs.valid_coords; exact V|].
    apply HP'. rewrite B. destruct (Position.get bd s) as [|c' k']; exact C.
  Qed.

  Lemma cap_room cp (P : Spec.sq -> bool) bd l f r : sub bd -> tracks cp bd l -> cp Empty = false ->
    (forall x, cp (cell_of (b x)) = true -> P x = true) ->
    0 <= f < 8 -> 0 <= r < 8 -> Position.get bd (r * 16 + f) = Empty -> P (f, r) = true ->
    (List.length l + 1 <= List.length (filter P Spec.all_sq))%nat.
  Proof.
    intros S T E HP' Hf Hr Fr Pfr.
    assert (Q : (List.length ((r * 16 + f)%Z :: l) <= List.length (filter P Spec.all_sq))%nat);
      [|cbn [List.length] in Q; lia].
    apply squares_le.
    - constructor; [|apply T]. intro I. apply T in I as [_ C]. rewrite Fr, E in C. discriminate.
    - intros s [<-|Hs]; [|eapply tracked_spec; eauto].
      exists (f, r). split; [apply GenProofs.on_in_all; unfold Spec.on; cbn [fst snd]; lia|].
      split; [reflexivity|exact Pfr].
  Qed.

  Lemma isq_spec c x : is_q c (cell_of (b x)) = true -> specQ c x = true.
  Proof. unfold specQ. destruct (b x) as [[c' k']|]; cbn [cell_of is_q]; auto. Qed.
  Lemma isp_spec c x : is_p c (cell_of (b x)) = true -> Spec.has b x c Pawn = true.
  Proof.
    unfold Spec.has. destruct (b x) as [[c' k']|]; cbn [cell_of is_p]; auto;
    try (destruct (color_eqb c c'), k'; auto).
  Qed.

  (* ---------------- one rank ---------------- *)
  Section Rank.
    Variables (R r : Z).
    Hypothesis HRr : R = r * 16.
    Hypothesis Hr : 0 <= r < 8.

    Lemma place_piece st cur c k : 0 <= cur < 8 -> b (cur, r) = Some (c, k) ->
      inv R cur st -> G r cur st ->
      exists st', scan_char R st cur (piece_char (c, k)) = Ok (Continue st' (cur + 1))
        /\ inv R (cur + 1) st' /\ G r (cur + 1) st'.
    Proof.
      intros Hc E I [Gs Gd Gb Gw].
      assert (Fr : Position.get (s_board st) (r * 16 + cur) = Empty).
      { rewrite <- HRr. apply (fresh_square R cur); [apply I|lia|lia]. }
      pose proof (men_count c) as MC. pose proof (HP c) as HPc. unfold Spec.count_pieces in HPc.
      destruct (scan_char_piece R st cur c k) as (st' & E1 & E2 & E3 & E4); [lia|lia| | |].
      { destruct k; try reflexivity. cbn [kind_eqb andb].
        pose proof (HR cur r c ltac:(lia) Hr E). lia. }
      { destruct I. destruct c, k; cbv beta iota; try exact Logic.I.
        all: match goal with
             | |- (List.length (s_wp _) < _)%nat =>
                 pose proof (cap_room (is_p White) (fun x => Spec.has b x White Pawn) _ _ cur r Gs i_wp eq_refl (isp_spec White) Hc Hr Fr)
             | |- (List.length (s_bp _) < _)%nat =>
                 pose proof (cap_room (is_p Black) (fun x => Spec.has b x Black Pawn) _ _ cur r Gs i_bp eq_refl (isp_spec Black) Hc Hr Fr)
             | |- (List.length (s_wq _) < _)%nat =>
                 pose proof (cap_room (is_q White) (specQ White) _ _ cur r Gs i_wq eq_refl (isq_spec White) Hc Hr Fr)
             | |- (List.length (s_bq _) < _)%nat =>
                 pose proof (cap_room (is_q Black) (specQ Black) _ _ cur r Gs i_bq eq_refl (isq_spec Black) Hc Hr Fr)
             end.
        all: match goal with H : _ -> (_ <= _)%nat |- _ =>
               assert (H' := H ltac:(cbv beta; unfold Spec.has, specQ; rewrite E; reflexivity)); clear H end; lia. }
      exists st'. split; [exact E1|].
      assert (I' : inv R (cur + 1) st').
      { pose proof (scan_char_spec R st cur (piece_char (c, k))) as Hs. rewrite E1 in Hs. cbn [step_post] in Hs.
        apply Hs; [unfold rank_ok; lia|lia|exact I]. }
      split; [exact I'|].
      assert (L : List.length (s_board st) = 128%nat) by apply I.
      destruct (on_sq cur r Hc Hr) as [V Co].
      assert (Unique : forall kc n kq, kinv (Pc kc King) (s_board st) n kq -> n = 1 -> b (cur, r) = Some (kc, King) -> False).
      { intros kc n kq (_ & _ & K1) -> Ek. destruct (K1 eq_refl) as (Hq & Gq & _).
        destruct (Gs kq Hq) as [Vq Bq]; [rewrite Gq; discriminate|]. rewrite Gq in Bq. cbn [Abs.abs_cell] in Bq.
        assert (Abs.coords kq = (cur, r)).
        { apply (king_unique kc); auto.
          - apply AttackProofs.valid_coords; exact Vq.
          - unfold Spec.on; cbn [fst snd]; lia. }
        assert (kq = r * 16 + cur).
        { destruct (AttackProofs.valid_coords kq Vq) as [_ Q]. rewrite H in Q. unfold Abs.sq88 in Q. cbn [fst snd] in Q. lia. }
        subst kq. rewrite Fr in Gq. discriminate. }
      constructor.
      - rewrite E2. intros s Hs. rewrite get_set by lia. destruct (Z.eqb_spec s (R + cur)) as [->|Ns].
        + intros _. rewrite HRr. split; [exact V|]. rewrite Co, E. reflexivity.
        + apply Gs; exact Hs.
      - rewrite E2. intros f' r' Hf' Hr' Hd. rewrite get_set by lia.
        destruct (Z.eqb_spec (r' * 16 + f') (R + cur)) as [Eq|Ns].
        + assert (f' = cur /\ r' = r) as [-> ->] by lia. rewrite E. reflexivity.
        + apply Gd; auto. lia.
      - rewrite E3. destruct (cell_eqb (Pc c k) (Pc Black King)) eqn:Ek; [|lia].
        apply cell_eqb_eq in Ek. injection Ek as -> ->.
        destruct Gb as [Z0|Z1]; [lia|]. exfalso. destruct I. exact (Unique Black _ _ i_bk Z1 E).
      - rewrite E4. destruct (cell_eqb (Pc c k) (Pc White King)) eqn:Ek; [|lia].
        apply cell_eqb_eq in Ek. injection Ek as -> ->.
        destruct Gw as [Z0|Z1]; [lia|]. exfalso. destruct I. exact (Unique White _ _ i_wk Z1 E).
    Qed.

    Lemma scan_files len : forall cur run f st, cur + Z.of_nat len = 8 -> 0 <= run <= cur -> f = cur - run ->
      inv R f st -> G r cur st ->
      exists st', scan_rank R st f (rank_str b r (zseq cur len) run) = Ok (Continue st' 8)
        /\ inv R 8 st' /\ G r 8 st'.
    Proof.
      induction len as [|len IH]; intros cur run f st Hl Hrun Hf I Gst.
      - assert (cur = 8) by lia. subst cur. cbn [zseq rank_str].
        rewrite <- (sapp_nil (run_str run)). rewrite scan_run by lia.
        replace (f + run) with 8 by lia. cbn [scan_rank]. exists st. split; [reflexivity|].
        split; [apply inv_mono with f; [lia|exact I]|exact Gst].
      - cbn [zseq rank_str]. destruct (b (cur, r)) as [[c k]|] eqn:E.
        + rewrite scan_run by lia. replace (f + run) with cur by lia. cbn [scan_rank].
          assert (Ic : inv R cur st) by (apply inv_mono with f; [lia|exact I]).
          destruct (place_piece st cur c k ltac:(lia) E Ic Gst) as (st1 & E1 & I1 & G1).
          rewrite E1. cbn [bind].
          apply (IH (cur + 1) 0 (cur + 1) st1); auto; lia.
        + apply (IH (cur + 1) (run + 1) f st); auto; try lia.
          destruct Gst as [Gs Gd Gb Gw]. constructor; auto.
          intros f' r' Hf' Hr' Hd.
          destruct (Z.eq_dec f' cur) as [->|Nf]; [destruct (Z.eq_dec r' r) as [->|Nr]|].
          * rewrite E. rewrite <- HRr. rewrite (fresh_square R cur); [reflexivity| |lia|lia].
            apply written_mono with f; [lia|apply I].
          * apply Gd; auto. lia.
          * apply Gd; auto. lia.
    Qed.
  End Rank.

  (* ---------------- eight ranks ---------------- *)
  Lemma scan_all len : forall r idx st, r = 7 - idx -> r + 1 = Z.of_nat len -> r < 8 ->
    inv (r * 16) 0 st -> G r 0 st ->
    exists st', scan_ranks idx st (map (rank_text b) (zdown r len)) = Ok (Continue st' 0)
      /\ inv (-16) 0 st' /\ G (-1) 0 st'.
  Proof.
    induction len as [|len IH]; intros r idx st Hri Hl Hr8 I Gst.
    - assert (Hm : r = -1) by lia. rewrite Hm in I, Gst. cbn [zdown map scan_ranks]. exists st. split; [reflexivity|split; [exact I|exact Gst]].
    - cbn [zdown map scan_ranks]. unfold rank_text at 1.
      destruct (scan_files ((7 - idx) * 16) r ltac:(lia) ltac:(lia) 8 0 0 0 st) as (st1 & E1 & I1 & G1); auto; try lia.
      { replace ((7 - idx) * 16) with (r * 16) by lia. exact I. }
      rewrite E1. cbn [bind].
      apply (IH (r - 1) (idx + 1) st1); try lia.
      + replace ((r - 1) * 16) with ((7 - idx) * 16 - 16) by lia. apply inv_next; [lia|exact I1].
      + destruct G1 as [Gs Gd Gb Gw]. constructor; auto.
        intros f' r' Hf' Hr' Hd. apply Gd; auto. lia.
  Qed.

  Lemma G_scan0 : G 7 0 scan0.
  Proof.
    constructor; cbn [scan0 s_board s_nbk s_nwk]; auto.
    - intros s _ H. rewrite get_repeat_empty in H. congruence.
    - intros f' r' Hf' Hr' Hd. lia.
  Qed.

  Theorem placement_scanned :
    exists st, scan_ranks 0 scan0 (map (rank_text b) (zdown 7 8)) = Ok (Continue st 0)
      /\ inv (-16) 0 st /\ G (-1) 0 st.
  Proof. apply (scan_all 8 7 0 scan0); try lia; [exact inv_scan0|exact G_scan0]. Qed.
End Scan.

(* ================================================================== *)
(* 6. "in check" only looks at the 64 squares                          *)
(* ================================================================== *)

Lemma existsb_ext_in {A} (f g : A -> bool) l : (forall x, In x l -> f x = g x) -> existsb f l = existsb g l.
Proof.
  induction l as [|x l IH]; intros H; cbn [existsb]; [reflexivity|].
  rewrite (H x (or_introl eq_refl)), IH; [reflexivity|]. intros y Hy. apply H. right. exact Hy.
Qed.
Lemma find_ext_in {A} (f g : A -> bool) l : (forall x, In x l -> f x = g x) -> find f l = find g l.
Proof.
  induction l as [|x l IH]; intros H; cbn [find]; [reflexivity|].
  rewrite (H x (or_introl eq_refl)), IH; [reflexivity|]. intros y Hy. apply H. right. exact Hy.
Qed.

Section ExtOn.
  Variables b b' : Spec.board.
  Hypothesis E : forall s, Spec.on s = true -> b s = b' s.

  Lemma all_sq_on x : In x Spec.all_sq -> Spec.on x = true.
  Proof.
    destruct x as [f r]. unfold Spec.all_sq. rewrite in_flat_map. intros (rr & Hr & H).
    apply in_map_iff in H as (ff & Eq & Hf). apply in_seq in Hr, Hf. inversion Eq; subst.
    unfold Spec.on; cbn [fst snd]. lia.
  Qed.

  Lemma piece_attacks_ext_on c k s t : In s Spec.all_sq -> In t Spec.all_sq ->
    Spec.piece_attacks b c k s t = Spec.piece_attacks b' c k s t.
  Proof.
    intros Hs Ht. destruct (AttackProofs.is_slider k) eqn:Sl.
    - rewrite (AttackProofs.pa_split b), (AttackProofs.pa_split b') by exact Sl.
      destruct (Spec.piece_attacks AttackProofs.nob White k s t) eqn:Gm; [|reflexivity]. cbn [andb].
      rewrite !AttackProofs.between_empty_betw.
      apply AttackProofs.slider_queen in Gm; [|exact Sl].
      destruct (AttackProofs.all_sq_valid s Hs) as [Vs Cs]. destruct (AttackProofs.all_sq_valid t Ht) as [Vt Ct].
      pose proof (AttackProofs.pair_facts (Abs.sq88 s) (Abs.sq88 t) Vs Vt) as PF. cbv zeta in PF.
      rewrite Cs, Ct in PF. destruct PF as (_ & _ & _ & _ & PQ). destruct (PQ Gm) as [_ On].
      revert On. generalize (AttackProofs.betw s t). intros l. induction l as [|x l IH]; cbn [forallb]; [reflexivity|].
      intros On. apply andb_prop in On as [O1 O2]. rewrite (IH O2). unfold Spec.empty. rewrite (E x O1). reflexivity.
    - destruct k; try discriminate Sl; reflexivity.
  Qed.

  Lemma attacked_ext_on c t : In t Spec.all_sq -> Spec.attacked b c t = Spec.attacked b' c t.
  Proof.
    intros Ht. unfold Spec.attacked. apply existsb_ext_in. intros s Hs.
    unfold Spec.owned, Spec.attacks. rewrite (E s (all_sq_on s Hs)).
    destruct (b' s) as [[c' k']|]; [|reflexivity]. rewrite piece_attacks_ext_on by assumption. reflexivity.
  Qed.

  Lemma king_sq_ext_on c : Spec.king_sq b c = Spec.king_sq b' c.
  Proof.
    unfold Spec.king_sq. apply find_ext_in. intros s Hs.
    unfold Spec.has. rewrite (E s (all_sq_on s Hs)). reflexivity.
  Qed.

  Lemma in_check_ext_on c : Spec.in_check b c = Spec.in_check b' c.
  Proof.
    unfold Spec.in_check. rewrite king_sq_ext_on. destruct (Spec.king_sq b' c) as [k|] eqn:K; [|reflexivity].
    apply attacked_ext_on. unfold Spec.king_sq in K. apply find_some in K. apply K.
  Qed.
End ExtOn.

(* the loader's verdict "side not to move is in check", on lists that agree with the board *)
Lemma in_check_flip p :
  lists_ok (board p) White (wpieces p) (wpawns p) (wking p) = true ->
  lists_ok (board p) Black (bpieces p) (bpawns p) (bking p) = true ->
  in_check (flip_turn p) = Spec.in_check (Abs.abs_board (board p)) (opp (cur_color p)).
Proof.
  intros HW HB. unfold in_check, flip_turn, en_pieces, en_pawns, en_king, cur_king, cur_color.
  cbn [board wpieces bpieces wpawns bpawns wking bking wturn]. unfold Spec.in_check.
  destruct (wturn p); cbn [negb opp].
  - rewrite (EvalProofs.king_sq_abs _ _ _ _ _ HB).
    apply AttackProofs.is_under_check_spec; [exact HW|]. apply (AttackProofs.lo_king _ _ _ _ _ HB).
  - rewrite (EvalProofs.king_sq_abs _ _ _ _ _ HW).
    apply AttackProofs.is_under_check_spec; [exact HB|]. apply (AttackProofs.lo_king _ _ _ _ _ HW).
Qed.

(* ================================================================== *)
(* 7. the other five fields                                            *)
(* ================================================================== *)

Definition plain2 (c : ascii) : bool := (code c <=? 127) && negb (code c =? 32).

Lemma sall_mono (P Q : ascii -> bool) s : (forall c, P c = true -> Q c = true) -> sall P s = true -> sall Q s = true.
Proof.
  intros H. induction s as [|c s IH]; cbn [sall]; [reflexivity|]. intros H1.
  apply andb_prop in H1 as [H1 H2]. rewrite (H c H1), (IH H2). reflexivity.
Qed.
Lemma plain_plain2 c : plain c = true -> plain2 c = true.
Proof. unfold plain, plain2. lia. Qed.
Lemma sall2_nospace s : sall plain2 s = true -> contains_char s " " = false.
Proof.
  induction s as [|c s IH]; cbn [sall contains_char]; [reflexivity|]. intros H.
  apply andb_prop in H as [H1 H2]. rewrite (IH H2). unfold plain2 in H1. unfold ascii_eqb.
  change (code " ") with 32. lia.
Qed.
Lemma sall2_ascii s : sall (fun c => plain2 c || (code c =? 32)) s = true -> is_ascii s = true.
Proof.
  induction s as [|c s IH]; cbn [sall is_ascii]; [reflexivity|]. intros H.
  apply andb_prop in H as [H1 H2]. rewrite (IH H2). unfold plain2 in H1. lia.
Qed.

Lemma run_str_plain run : 0 <= run <= 9 -> sall plain (run_str run) = true.
Proof.
  intros H. unfold run_str. destruct (run =? 0); [reflexivity|]. cbn [sall]. rewrite dchar_plain by lia. reflexivity.
Qed.
Lemma rank_str_plain b r fs : forall run, 0 <= run -> run + Z.of_nat (List.length fs) <= 8 ->
  sall plain (rank_str b r fs run) = true.
Proof.
  induction fs as [|f fs IH]; intros run H0 H8; cbn [rank_str].
  - apply run_str_plain. lia.
  - cbn [List.length] in H8. destruct (b (f, r)) as [pc|].
    + rewrite sall_app, run_str_plain by lia. cbn [sall]. rewrite piece_char_plain, IH by lia. reflexivity.
    + apply IH; lia.
Qed.
Lemma rank_text_plain b r : sall plain (rank_text b r) = true.
Proof. apply rank_str_plain; cbn; lia. Qed.

Lemma placement_split b : split_on "/" (placement_text b) = map (rank_text b) (zdown 7 8).
Proof.
  unfold placement_text. apply split_join; [discriminate|].
  apply Forall_forall. intros s Hs. apply in_map_iff in Hs as (r & <- & _).
  apply sall_nosep; [right; reflexivity|apply rank_text_plain].
Qed.
Lemma placement_plain2 b : sall plain2 (placement_text b) = true.
Proof.
  unfold placement_text. apply sall_join; [reflexivity|].
  apply Forall_forall. intros s Hs. apply in_map_iff in Hs as (r & <- & _).
  apply (sall_mono plain); [exact plain_plain2|apply rank_text_plain].
Qed.

Lemma turn_text_plain2 c : sall plain2 (turn_text c) = true.
Proof. destruct c; reflexivity. Qed.
Lemma castle_text_facts a :
  sall plain2 (castle_text a) = true
  /\ negb (str_eqb (castle_text a) "-") && (str_eqb (castle_text a) "" || negb (all_chars_in (castle_text a) "KQkq")) = false
  /\ contains (castle_text a) "K" = Spec.rK a White /\ contains (castle_text a) "Q" = Spec.rQ a White
  /\ contains (castle_text a) "k" = Spec.rK a Black /\ contains (castle_text a) "q" = Spec.rQ a Black.
Proof.
  unfold castle_text.
  destruct (Spec.rK a White), (Spec.rQ a White), (Spec.rK a Black), (Spec.rQ a Black); vm_compute; repeat split; reflexivity.
Qed.
Lemma ep_text_plain2 e : match e with Some (f, r) => 0 <= f < 8 /\ 0 <= r < 8 | None => True end ->
  sall plain2 (ep_text e) = true.
Proof.
  destruct e as [[f r]|]; [|reflexivity]. intros [Hf Hr]. cbn [ep_text sall]. unfold plain2.
  rewrite !code_of_N by lia. lia.
Qed.

(* the en-passant field of a square on rank 6 (white to move) or 3 (black to move) *)
Lemma epr_of_sq bd (wt : bool) ef er : 0 <= ef < 8 -> er = (if wt then 5 else 2) ->
  epr_of bd wt (ep_text (Some (ef, er))) =
  let e := er * 16 + ef in
  if negb (cell_eqb (Position.get bd (if wt then e - 16 else e + 16)) (if wt then Pc Black Pawn else Pc White Pawn))
     || negb (is_empty (Position.get bd e)) || negb (is_empty (Position.get bd (if wt then e + 16 else e - 16)))
  then Ok (Some (-1)) else Ok (Some e).
Proof.
  intros Hf ->.
  assert (C : ef = 0 \/ ef = 1 \/ ef = 2 \/ ef = 3 \/ ef = 4 \/ ef = 5 \/ ef = 6 \/ ef = 7) by lia.
  destruct wt; destruct C as [->|[->|[->|[->|[->|[->|[->| ->]]]]]]]; vm_compute; reflexivity.
Qed.

(* ================================================================== *)
(* 8. the round trip                                                   *)
(* ================================================================== *)

Lemma legal_facts a : Spec.legal_position a = true ->
  (forall c, Spec.count_pieces (Spec.brd a) c King = 1%nat)
  /\ (forall c, (Spec.count_pieces (Spec.brd a) c Pawn <= 8)%nat)
  /\ (forall c, (Spec.count_color (Spec.brd a) c <= 16)%nat)
  /\ (forall f r c, 0 <= f < 8 -> 0 <= r < 8 -> Spec.brd a (f, r) = Some (c, Pawn) -> 0 < r < 7)
  /\ Spec.in_check (Spec.brd a) (opp (Spec.turn a)) = false
  /\ Spec.rights_consistent a = true /\ Spec.ep_consistent a = true.
Proof.
  unfold Spec.legal_position. intros H.
  apply andb_prop in H as [H Hep]. apply andb_prop in H as [H Hrc]. apply andb_prop in H as [H Hnc].
  apply andb_prop in H as [Hcnt Hpr]. cbn [forallb] in Hcnt.
  split; [intros []; lia|]. split; [intros []; lia|]. split; [intros []; lia|].
  split; [|split; [destruct (Spec.in_check _ _); [discriminate Hnc|reflexivity]|split; assumption]].
  intros f r c Hf Hr Eb. rewrite forallb_forall in Hpr.
  assert (I : In (f, r) Spec.all_sq) by (apply GenProofs.on_in_all; unfold Spec.on; cbn [fst snd]; lia).
  specialize (Hpr _ I). cbn [snd] in Hpr. unfold Spec.has in Hpr. rewrite Eb in Hpr.
  destruct c; cbn in Hpr; lia.
Qed.

(* the ply the engine derives from the full-move number and the side to move *)
Definition ply_of (n : Z) (c : color) : Z := 2 * (n - 1) + (match c with White => 0 | Black => 1 end).
(* the engine's en-passant square *)
Definition ep88 (e : option Spec.sq) : Z := match e with None => INVALID | Some (f, r) => r * 16 + f end.

Definition pos_equiv_on (a b : Spec.position) : Prop :=
  (forall s, Spec.on s = true -> Spec.brd a s = Spec.brd b s) /\ Spec.turn a = Spec.turn b /\
  (forall c, Spec.rK a c = Spec.rK b c) /\ (forall c, Spec.rQ a c = Spec.rQ b c) /\
  Spec.ep a = Spec.ep b /\ Spec.ply a = Spec.ply b.

Section Final.
  Variables (a : Spec.position) (hm n : Z).
  Hypothesis HL : Spec.legal_position a = true.
  Hypothesis Hhm : 0 <= hm <= int64_max.
  Hypothesis Hn : 1 <= n <= maxFullMoveCounter.
  Let b := Spec.brd a.
  Local Notation wt := (color_eqb (Spec.turn a) White).

  Variable st : scan.
  Hypothesis I : inv (-16) 0 st.
  Hypothesis GG : G b (-1) 0 st.

  Lemma done_get f r : 0 <= f < 8 -> 0 <= r < 8 -> Position.get (s_board st) (r * 16 + f) = cell_of (b (f, r)).
  Proof.
    intros Hf Hr. destruct GG as [_ Gd _ _]. specialize (Gd f r Hf Hr ltac:(lia)).
    destruct (Position.get (s_board st) (r * 16 + f)) as [|c k]; cbn [Abs.abs_cell] in Gd; rewrite <- Gd; reflexivity.
  Qed.

  Lemma board_on s : Spec.on s = true -> Abs.abs_board (s_board st) s = b s.
  Proof.
    intros O. unfold Abs.abs_board. rewrite O. destruct s as [f r]. unfold Spec.on in O. cbn [fst snd] in O.
    unfold Abs.sq88. cbn [fst snd]. rewrite done_get by lia. destruct (b (f, r)) as [[c k]|]; reflexivity.
  Qed.

  Lemma kings_one : s_nbk st = 1 /\ s_nwk st = 1.
  Proof.
    destruct (legal_facts a HL) as (HK & HP & HC & HR & _).
    assert (Q : forall c n k, kinv (Pc c King) (s_board st) n k -> n = 0 \/ n = 1 -> n = 1).
    { intros c m k (_ & K0 & _) [Z0|Z1]; [|exact Z1]. exfalso.
      destruct (king_exists b HK HP HC HR c) as (f & r & Hf & Hr & Eb).
      apply (K0 Z0 (r * 16 + f)); [lia|]. rewrite done_get by lia. fold b in Eb. rewrite Eb. reflexivity. }
    destruct I, GG. split; eapply Q; eauto.
  Qed.

  Lemma men_ok : (List.length (s_bq st) + List.length (s_bp st) <= 15)%nat
              /\ (List.length (s_wq st) + List.length (s_wp st) <= 15)%nat.
  Proof.
    destruct (legal_facts a HL) as (HK & HP & HC & _).
    destruct I. destruct GG as [g_sub g_done g_bk g_wk].
    pose proof (men_count b HK HP HC Black). pose proof (men_count b HK HP HC White).
    pose proof (squares_le (specQ b Black) (s_bq st) (proj1 i_bq)
                  (tracked_spec b _ _ _ _ g_sub i_bq eq_refl (isq_spec b Black))).
    pose proof (squares_le (specQ b White) (s_wq st) (proj1 i_wq)
                  (tracked_spec b _ _ _ _ g_sub i_wq eq_refl (isq_spec b White))).
    pose proof (squares_le (fun x => Spec.has b x Black Pawn) (s_bp st) (proj1 i_bp)
                  (tracked_spec b _ _ _ _ g_sub i_bp eq_refl (isp_spec b Black))).
    pose proof (squares_le (fun x => Spec.has b x White Pawn) (s_wp st) (proj1 i_wp)
                  (tracked_spec b _ _ _ _ g_sub i_wp eq_refl (isp_spec b White))).
    lia.
  Qed.

  Lemma lists_both :
    lists_ok (s_board st) White (s_wq st) (s_wp st) (s_wk st) = true
    /\ lists_ok (s_board st) Black (s_bq st) (s_bp st) (s_bk st) = true.
  Proof.
    destruct kings_one as [Kb Kw]. destruct I.
    pose proof (written_onboard _ i_W) as O.
    split; apply lists_ok_intro; auto.
    - rewrite <- Kw. exact i_wk.
    - rewrite <- Kb. exact i_bk.
  Qed.

  Lemma has_get f r c k : 0 <= f < 8 -> 0 <= r < 8 -> Spec.has b (f, r) c k = true ->
    Position.get (s_board st) (r * 16 + f) = Pc c k.
  Proof.
    intros Hf Hr H. rewrite done_get by lia. unfold Spec.has in H. destruct (b (f, r)) as [[c' k']|]; [|discriminate H].
    destruct c, c', k, k'; try discriminate H; reflexivity.
  Qed.
  Lemma empty_get f r : 0 <= f < 8 -> 0 <= r < 8 -> Spec.empty b (f, r) = true ->
    Position.get (s_board st) (r * 16 + f) = Empty.
  Proof.
    intros Hf Hr H. rewrite done_get by lia. unfold Spec.empty in H. destruct (b (f, r)) as [[c' k']|]; [discriminate H|reflexivity].
  Qed.

  Lemma castle_consistent :
    let bd := s_board st in
    (Spec.rK a White && negb (cell_eqb (Position.get bd 4) (Pc White King) && cell_eqb (Position.get bd 7) (Pc White Rook)))
    || (Spec.rQ a White && negb (cell_eqb (Position.get bd 4) (Pc White King) && cell_eqb (Position.get bd 0) (Pc White Rook)))
    || (Spec.rK a Black && negb (cell_eqb (Position.get bd 116) (Pc Black King) && cell_eqb (Position.get bd 119) (Pc Black Rook)))
    || (Spec.rQ a Black && negb (cell_eqb (Position.get bd 116) (Pc Black King) && cell_eqb (Position.get bd 112) (Pc Black Rook)))
    = false.
  Proof.
    destruct (legal_facts a HL) as (_ & _ & _ & _ & _ & RC & _).
    unfold Spec.rights_consistent in RC. cbn [forallb Spec.home_rank] in RC. fold b in RC. cbv zeta.
    assert (Q : forall f r c k, 0 <= f < 8 -> 0 <= r < 8 ->
              Spec.has b (f, r) c k = true -> cell_eqb (Position.get (s_board st) (r * 16 + f)) (Pc c k) = true).
    { intros f r c k Hf Hr H. rewrite (has_get f r c k Hf Hr H). apply cell_eqb_eq. reflexivity. }
    pose proof (Q 4 0 White King ltac:(lia) ltac:(lia)) as Q1. pose proof (Q 7 0 White Rook ltac:(lia) ltac:(lia)) as Q2.
    pose proof (Q 0 0 White Rook ltac:(lia) ltac:(lia)) as Q3. pose proof (Q 4 7 Black King ltac:(lia) ltac:(lia)) as Q4.
    pose proof (Q 7 7 Black Rook ltac:(lia) ltac:(lia)) as Q5. pose proof (Q 0 7 Black Rook ltac:(lia) ltac:(lia)) as Q6.
    change (0 * 16 + 4) with 4 in Q1. change (0 * 16 + 7) with 7 in Q2. change (0 * 16 + 0) with 0 in Q3.
    change (7 * 16 + 4) with 116 in Q4. change (7 * 16 + 7) with 119 in Q5. change (7 * 16 + 0) with 112 in Q6.
    destruct (Spec.rK a White), (Spec.rQ a White), (Spec.rK a Black), (Spec.rQ a Black);
      cbn [negb orb andb] in RC |- *;
      repeat match type of RC with context [Spec.has b ?x ?c ?k] => destruct (Spec.has b x c k); cbn [negb orb andb] in RC end;
      try discriminate RC;
      rewrite ?Q1, ?Q2, ?Q3, ?Q4, ?Q5, ?Q6 by reflexivity; reflexivity.
  Qed.

  Lemma ep_field :
    epr_of (s_board st) wt (ep_text (Spec.ep a)) = Ok (Some (ep88 (Spec.ep a)))
    /\ ep88 (Spec.ep a) <> -1
    /\ (if onb (ep88 (Spec.ep a)) then Some (Abs.coords (ep88 (Spec.ep a))) else None) = Spec.ep a
    /\ sall plain2 (ep_text (Spec.ep a)) = true.
  Proof.
    destruct (legal_facts a HL) as (_ & _ & _ & _ & _ & _ & EC).
    unfold Spec.ep_consistent in EC. destruct (Spec.ep a) as [[ef er]|].
    - cbv zeta in EC. cbn [fst snd] in EC. fold b in EC.
      apply andb_prop in EC as [EC E3]. apply andb_prop in EC as [EC E2]. apply andb_prop in EC as [EC E1].
      apply andb_prop in EC as [On Er]. unfold Spec.on in On. cbn [fst snd] in On.
      assert (Her : er = if color_eqb (Spec.turn a) White then 5 else 2) by (destruct (color_eqb _ _); lia).
      cbn [ep88]. destruct (on_sq ef er ltac:(lia) ltac:(lia)) as [V Co].
      split; [|split; [lia|split; [|apply ep_text_plain2; lia]]].
      + rewrite epr_of_sq by (auto; lia). cbv zeta.
        destruct (Spec.turn a); cbn [color_eqb opp Spec.fwd] in *; subst er.
        * replace (5 * 16 + ef - 16) with ((5 - 1) * 16 + ef) by lia.
          rewrite (has_get ef (5 - 1) Black Pawn) by (auto; lia).
          rewrite (empty_get ef 5) by (auto; lia).
          replace (5 * 16 + ef + 16) with ((5 + 1) * 16 + ef) by lia.
          rewrite (empty_get ef (5 + 1)) by (auto; lia). reflexivity.
        * replace (2 * 16 + ef + 16) with ((2 - -1) * 16 + ef) by lia.
          rewrite (has_get ef (2 - -1) White Pawn) by (auto; lia).
          rewrite (empty_get ef 2) by (auto; lia).
          replace (2 * 16 + ef - 16) with ((2 + -1) * 16 + ef) by lia.
          rewrite (empty_get ef (2 + -1)) by (auto; lia). reflexivity.
      + unfold validb in V. apply andb_prop in V as [_ V]. rewrite V, Co. reflexivity.
    - split; [destruct (color_eqb _ _); reflexivity|]. split; [discriminate|]. split; reflexivity.
  Qed.

  Lemma counters :
    atoi (itoa hm) = Some hm /\ atoi (itoa n) = Some n
    /\ sall plain2 (itoa hm) = true /\ sall plain2 (itoa n) = true.
  Proof.
    destruct (itoa_plain_atoi hm Hhm) as [A1 A2].
    destruct (itoa_plain_atoi n) as [A3 A4]; [unfold maxFullMoveCounter, int64_max in *; lia|].
    repeat split; auto; apply (sall_mono plain); auto; exact plain_plain2.
  Qed.

  Definition loaded : pos := mk_pos st wt (castle_text a) (ep88 (Spec.ep a)) n.

  Lemma finish_ok :
    finish st (turn_text (Spec.turn a)) (castle_text a) (ep_text (Spec.ep a)) (itoa hm) (itoa n) = Ok (FenOk loaded).
  Proof.
    destruct kings_one as [Kb Kw]. destruct men_ok as [Mb Mw].
    destruct (castle_text_facts a) as (_ & CS & C1 & C2 & C3 & C4).
    destruct ep_field as (EP1 & EP2 & _ & _). destruct counters as (A1 & A2 & _ & _).
    destruct lists_both as [LW LB].
    destruct (legal_facts a HL) as (_ & _ & _ & _ & NC & _).
    assert (T1 : str_eqb (turn_text (Spec.turn a)) "w" = wt) by (destruct (Spec.turn a); reflexivity).
    assert (T2 : negb (str_eqb (turn_text (Spec.turn a)) "w" || str_eqb (turn_text (Spec.turn a)) "b") = false)
      by (destruct (Spec.turn a); reflexivity).
    unfold finish. cbv zeta.
    rewrite Kb, Kw. cbn [Z.eqb Pos.eqb andb negb].
    unfold pieceCap.
    replace ((15 <? List.length (s_bq st) + List.length (s_bp st))%nat || (15 <? List.length (s_wq st) + List.length (s_wp st))%nat)
      with false by lia.
    rewrite T2, T1, CS, C1, C2, C3, C4.
    rewrite castle_consistent. rewrite EP1. cbn [bind].
    replace (ep88 (Spec.ep a) =? -1) with false by lia.
    rewrite A1, A2.
    replace (hm <? 0) with false by lia. replace (n <? 1) with false by lia.
    replace (n >? maxFullMoveCounter) with false by lia.
    fold loaded.
    assert (IC : in_check (flip_turn loaded) = false).
    { rewrite in_check_flip by (unfold loaded, mk_pos; cbn [board wpieces wpawns wking bpieces bpawns bking]; assumption).
      unfold loaded at 1. unfold mk_pos at 1. cbn [board].
      rewrite (in_check_ext_on _ b board_on).
      replace (cur_color loaded) with (Spec.turn a); [exact NC|].
      unfold cur_color, loaded, mk_pos. cbn [wturn]. destruct (Spec.turn a); reflexivity. }
    rewrite IC. reflexivity.
  Qed.

  Hypothesis Hply : Spec.ply a = ply_of n (Spec.turn a).

  Lemma loaded_equiv : pos_equiv_on (Abs.abs loaded) a.
  Proof.
    destruct (castle_text_facts a) as (_ & _ & C1 & C2 & C3 & C4).
    destruct ep_field as (_ & _ & EP3 & _).
    unfold pos_equiv_on, Abs.abs, loaded, mk_pos.
    cbn [Spec.brd Spec.turn Spec.rK Spec.rQ Spec.ep Spec.ply board wK wQ bK bQ Position.ep Position.ply].
    split; [exact board_on|].
    split; [unfold cur_color; cbn [wturn]; destruct (Spec.turn a); reflexivity|].
    split; [intros []; [exact C1|exact C3]|].
    split; [intros []; [exact C2|exact C4]|].
    split; [exact EP3|].
    rewrite Hply. unfold ply_of, maxFullMoveCounter in *.
    destruct (Spec.turn a); cbn [color_eqb]; rewrite ?(int16_small ((n - 1) * 2)) by lia; rewrite ?int16_small by lia; lia.
  Qed.
End Final.

Definition supported (a : Spec.position) : Prop := forall s, Spec.on s = false -> Spec.brd a s = None.

(* MAIN THEOREM.  Every legal position of the rules, printed as a FEN (canonical compression of empty squares), is
   accepted by the loader and loaded as exactly that position: same 64 squares, side to move, castling rights,
   en-passant square and ply. *)
Theorem fen_roundtrip : forall a hm n,
  Spec.legal_position a = true -> 0 <= hm <= int64_max -> 1 <= n <= maxFullMoveCounter ->
  Spec.ply a = ply_of n (Spec.turn a) ->
  exists p, parse_fen (fen_text a hm n) = Ok (FenOk p) /\ pos_equiv_on (Abs.abs p) a.
Proof.
  intros a hm n HL Hhm Hn Hply.
  destruct (legal_facts a HL) as (HK & HP & HC & HR & _).
  destruct (placement_scanned (Spec.brd a) HK HP HC HR) as (st & ES & I & GG).
  exists (loaded a n st). split; [|apply loaded_equiv; assumption].
  destruct (ep_field a HL st GG) as (_ & _ & _ & EPl).
  destruct (counters a hm n Hhm Hn) as (_ & _ & Pl4 & Pl5).
  destruct (castle_text_facts a) as (Pl2 & _).
  pose proof (placement_plain2 (Spec.brd a)) as Pl0. pose proof (turn_text_plain2 (Spec.turn a)) as Pl1.
  assert (FA : Forall (fun s => sall plain2 s = true)
                 [placement_text (Spec.brd a); turn_text (Spec.turn a); castle_text a; ep_text (Spec.ep a); itoa hm; itoa n])
    by (repeat constructor; assumption).
  rewrite parse_fen_eq.
  assert (A : is_ascii (fen_text a hm n) = true).
  { apply sall2_ascii. unfold fen_text. apply sall_join; [reflexivity|].
    eapply Forall_impl; [|exact FA]. cbv beta. intros s Hs.
    apply (sall_mono plain2); [|exact Hs]. intros c Hc. rewrite Hc. reflexivity. }
  rewrite A. cbn [negb].
  assert (S : split_on " " (fen_text a hm n) =
              [placement_text (Spec.brd a); turn_text (Spec.turn a); castle_text a; ep_text (Spec.ep a); itoa hm; itoa n]).
  { unfold fen_text. apply split_join; [discriminate|].
    eapply Forall_impl; [|exact FA]. cbv beta. intros s Hs. apply sall2_nospace. exact Hs. }
  rewrite S. cbv beta iota zeta.
  rewrite placement_split.
  replace (List.length (map (rank_text (Spec.brd a)) (zdown 7 8)) =? 8)%nat with true by reflexivity.
  cbn [negb]. rewrite ES. cbn [bind].
  apply finish_ok; assumption.
Qed.

(* the same with full extensional equality of the rules positions, for boards that are empty off the 64 squares
   (every abs p is; Spec.legal_position says nothing about squares off the board) *)
Theorem fen_roundtrip_equiv : forall a hm n,
  Spec.legal_position a = true -> supported a -> 0 <= hm <= int64_max -> 1 <= n <= maxFullMoveCounter ->
  Spec.ply a = ply_of n (Spec.turn a) ->
  exists p, parse_fen (fen_text a hm n) = Ok (FenOk p) /\ MakeSpec.pos_equiv (Abs.abs p) a.
Proof.
  intros a hm n HL HS Hhm Hn Hply.
  destruct (fen_roundtrip a hm n HL Hhm Hn Hply) as (p & E & (B & R)).
  exists p. split; [exact E|]. split; [|exact R].
  intros s. destruct (Spec.on s) eqn:O; [apply B; exact O|].
  rewrite (HS s O). unfold Abs.abs, Abs.abs_board. cbn [Spec.brd]. rewrite O. reflexivity.
Qed.

(* the ply is not part of what "legal position" constrains: whatever a's ply, the FEN is accepted and the loaded
   position is a with the ply that the full-move number and the side to move stand for *)
Definition with_ply (a : Spec.position) (k : Z) : Spec.position :=
  {| Spec.brd := Spec.brd a; Spec.turn := Spec.turn a; Spec.rK := Spec.rK a; Spec.rQ := Spec.rQ a;
     Spec.ep := Spec.ep a; Spec.ply := k |}.
Corollary fen_accepted : forall a hm n,
  Spec.legal_position a = true -> 0 <= hm <= int64_max -> 1 <= n <= maxFullMoveCounter ->
  exists p, parse_fen (fen_text a hm n) = Ok (FenOk p)
            /\ pos_equiv_on (Abs.abs p) (with_ply a (ply_of n (Spec.turn a))) /\ wf_legal p = true.
Proof.
  intros a hm n HL Hhm Hn.
  destruct (fen_roundtrip (with_ply a (ply_of n (Spec.turn a))) hm n HL Hhm Hn eq_refl) as (p & E & Q).
  exists p. change (fen_text (with_ply a (ply_of n (Spec.turn a))) hm n) with (fen_text a hm n) in E.
  split; [exact E|]. split; [exact Q|]. exact (parse_fen_sound _ _ E).
Qed.

(* the placement field alone: the loader's scanner reads back exactly the 64 squares that were printed *)
Corollary placement_roundtrip : forall a, Spec.legal_position a = true ->
  exists st, scan_ranks 0 scan0 (split_on "/" (placement_text (Spec.brd a))) = Ok (Continue st 0)
    /\ (forall f r, 0 <= f < 8 -> 0 <= r < 8 ->
          Position.get (s_board st) (r * 16 + f) = cell_of (Spec.brd a (f, r)))
    /\ s_nbk st = 1 /\ s_nwk st = 1
    /\ (List.length (s_bq st) + List.length (s_bp st) <= 15)%nat
    /\ (List.length (s_wq st) + List.length (s_wp st) <= 15)%nat.
Proof.
  intros a HL. destruct (legal_facts a HL) as (HK & HP & HC & HR & _).
  destruct (placement_scanned (Spec.brd a) HK HP HC HR) as (st & ES & I & GG).
  exists st. rewrite placement_split. split; [exact ES|].
  split; [intros f r; apply (done_get a st GG)|].
  split; [apply (kings_one a HL st I GG)|]. split; [apply (kings_one a HL st I GG)|].
  apply (men_ok a HL st I GG).
Qed.

(* ================================================================== *)
(* 9. sanity examples (kernel computation)                             *)
(* ================================================================== *)

Example print_startpos : fen_text (Abs.abs startpos) 0 1 = startpos_fen.
Proof. vm_compute. reflexivity. Qed.

(* en-passant square, partial castling rights, black to move: load, abstract, print -> the same text *)
Example roundtrip_ep_castle :
  match parse_fen "rnbqkbnr/ppp1pppp/8/8/3pP3/8/PPPP1PPP/RNBQK2R b Kq e3 0 3" with
  | Ok (FenOk p) => fen_text (Abs.abs p) 0 3 = "rnbqkbnr/ppp1pppp/8/8/3pP3/8/PPPP1PPP/RNBQK2R b Kq e3 0 3"
                    /\ Spec.legal_position (Abs.abs p) = true /\ Spec.ply (Abs.abs p) = ply_of 3 Black
  | _ => False end.
Proof. vm_compute. repeat split; reflexivity. Qed.

Example roundtrip_white_ep :
  match parse_fen "r3k2r/pp1ppppp/8/2pP4/8/8/PPP1PPPP/R3K2R w Qk c6 12 57" with
  | Ok (FenOk p) => fen_text (Abs.abs p) 12 57 = "r3k2r/pp1ppppp/8/2pP4/8/8/PPP1PPPP/R3K2R w Qk c6 12 57"
                    /\ Spec.legal_position (Abs.abs p) = true
  | _ => False end.
Proof. vm_compute. repeat split; reflexivity. Qed.

(* the bounds of the theorem are the loader's: the last full-move number and the last half-move clock it takes *)
Example counter_bounds :
  parse_fen "4k3/8/8/8/8/8/8/4K3 w - - 0 15933" <> Ok (FenErr E_FULLMOVE_HIGH)
  /\ parse_fen "4k3/8/8/8/8/8/8/4K3 w - - 0 15934" = Ok (FenErr E_FULLMOVE_HIGH)
  /\ parse_fen "4k3/8/8/8/8/8/8/4K3 w - - 9223372036854775807 1" <> Ok (FenErr E_HALFMOVE)
  /\ parse_fen "4k3/8/8/8/8/8/8/4K3 w - - 9223372036854775808 1" = Ok (FenErr E_HALFMOVE).
Proof. repeat split; vm_compute; congruence. Qed.

Print Assumptions fen_roundtrip.
Print Assumptions fen_roundtrip_equiv.
Print Assumptions fen_accepted.
Print Assumptions placement_roundtrip.
