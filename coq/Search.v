(* engine/search.go without interruption (L1): quiescence, alphaBeta, startAlphaBeta, StartIterativeDeepening.
   Principal variations are returned functionally: [None] stands for "this node never wrote its row of the PV table",
   and a parent that would read such a row is a model panic (P_STALE_PV) -- so "no stale PV read" is a theorem about
   the model rather than an assumption.  Move ordering is a parameter: any function returning a permutation. *)
Require Import Base Generated Position Attack Make Gen Count Eval.
Open Scope Z_scope.

Definition P_STALE_PV := 16.

Section Search.
Variable order : pos -> list rmove -> list rmove.     (* sortMoves after ranking; only its being a permutation matters *)

Record sres := { sv : Z; sline : option (list move); snodes : Z; ssens : bool }.
Definition mk v l n s := {| sv := v; sline := l; snodes := n; ssens := s |}.

(* updateBestLine(currBestLine, bestSubline, move): reads the child's row *)
Definition extend (m : move) (child : option (list move)) : result (option (list move)) :=
  match child with Some l => Ok (Some (m :: l)) | None => Panic P_STALE_PV end.

Definition qfuel : nat := 64.

Fixpoint quiesce (fuel : nat) (p : pos) (alpha beta depth : Z) : result sres :=
  match fuel with O => Panic P_FUEL | S f =>
    let sens := lazy_sensitive p depth in
    let score := lazy_eval p depth alpha beta in
    if score >=? beta then Ok (mk beta None 1 sens) else
    let '(alpha1, line1) := if score >? alpha then (score, Some []) else (alpha, None) in
    do tms <- gen_tactical p;
    (fix loop (ms : list rmove) (alpha : Z) (line : option (list move)) (nodes : Z) (sens : bool) : result sres :=
       match ms with
       | [] => Ok (mk alpha line nodes sens)
       | m :: r =>
           do p' <- make_legal p (rm m);
           do c <- quiesce f p' (- beta) (- alpha) (depth + 1);
           let s := - sv c in
           let nodes' := nodes + snodes c in let sens' := sens || ssens c in
           if s >=? beta then Ok (mk beta line nodes' sens')
           else if s >? alpha then do l <- extend (rm m) (sline c); loop r s l nodes' sens'
           else loop r alpha line nodes' sens'
       end) (order p tms) alpha1 line1 1 sens
  end.

(* alphaBeta for depth >= 1; d = targetDepth - depth *)
Fixpoint alpha_beta (d : nat) (p : pos) (alpha beta depth : Z) : result sres :=
  match d with
  | O => quiesce qfuel p alpha beta depth
  | S k =>
    do ms <- gen_legal p;
    match ms with
    | [] => Ok (mk (terminal_score p depth) (Some []) 1 false)
    | _ =>
    (fix loop (ms : list rmove) (alpha : Z) (line : option (list move)) (nodes : Z) (sens : bool) : result sres :=
       match ms with
       | [] => Ok (mk alpha line nodes sens)
       | m :: r =>
           do p' <- make_legal p (rm m);
           do c <- alpha_beta k p' (- beta) (- alpha) (depth + 1);
           let s := - sv c in
           let nodes' := nodes + snodes c in let sens' := sens || ssens c in
           if s >=? beta then Ok (mk beta line nodes' sens')
           else if s >? alpha then do l <- extend (rm m) (sline c); loop r s l nodes' sens'
           else loop r alpha line nodes' sens'
       end) (order p ms) alpha None 0 false
    end
  end.

Definition next_move_wins (score : Z) : bool := score =? - LostScore - 1.

(* startAlphaBeta: full window, no beta cut-off, stops after a mate in one; returns also oneLegalMove *)
Definition root_search (target : nat) (p : pos) : result (sres * bool) :=
  do ms <- gen_legal p;
  match ms with
  | [] => Ok (mk (terminal_score p 0) (Some []) 1 false, false)
  | _ =>
    do r <- (fix loop (ms : list rmove) (alpha : Z) (line : option (list move)) (nodes : Z) (sens : bool) : result sres :=
       match ms with
       | [] => Ok (mk alpha line nodes sens)
       | m :: r =>
           do p' <- make_legal p (rm m);
           do c <- alpha_beta (pred target) p' (- InfinityScore) (- alpha) 1;
           let s := - sv c in
           let nodes' := nodes + snodes c in let sens' := sens || ssens c in
           if s >? alpha then
             do l <- extend (rm m) (sline c);
             if next_move_wins s then Ok (mk s l nodes' sens') else loop r s l nodes' sens'
           else if next_move_wins s then Ok (mk alpha line nodes' sens') else loop r alpha line nodes' sens'
       end) (order p ms) (- InfinityScore) None 0 false;
    Ok (r, (List.length ms =? 1)%nat)
  end.

Definition plies_to_mate (score : Z) : Z := - LostScore - Z.abs score.

(* one record per completed iteration, as 'info depth' lines report them (depth 1 is only in the final line) *)
Record iter := { it_depth : Z; it_score : Z; it_pv : list move; it_sens : bool }.
Inductive go_result :=
| GoNoMove                                     (* root is mate or stalemate: 'bestmove 0000' *)
| GoMove (iters : list iter) (best : move).

(* StartIterativeDeepening for 'go depth maxDepth', never interrupted, clock never expires *)
Definition iterate (max_depth : nat) (p : pos) : result go_result :=
  do r1 <- root_search 1 p;
  let '(s1, one) := r1 in
  match sline s1 with
  | None => Panic P_STALE_PV
  | Some [] => Ok GoNoMove
  | Some (b1 :: l1) =>
    let it1 := {| it_depth := 1; it_score := sv s1; it_pv := b1 :: l1; it_sens := ssens s1 |} in
    if one then Ok (GoMove [it1] b1) else
    (fix deepen (fuel : nat) (d : nat) (acc : list iter) (best : move) : result go_result :=
       match fuel with O => Ok (GoMove acc best) | S f =>
         if (max_depth <? d)%nat then Ok (GoMove acc best) else
         do r <- root_search d p;
         let '(s, one') := r in
         match sline s with
         | Some (b :: l) =>
             let acc' := acc ++ [{| it_depth := Z.of_nat d; it_score := sv s; it_pv := b :: l; it_sens := ssens s |}] in
             if (plies_to_mate (sv s) =? Z.of_nat d) || one' then Ok (GoMove acc' b) else deepen f (S d) acc' b
         | _ => Panic P_EMPTY_LINE
         end
       end) max_depth 2%nat [it1] b1
  end.
End Search.

(* reference: plain minimax of the depth-d tree under the full evaluation (what C04 calls the exact value) *)
Fixpoint mm_quiesce (fuel : nat) (p : pos) (depth : Z) : result Z :=
  match fuel with O => Panic P_FUEL | S f =>
    let sp := evaluate p depth in
    do tms <- gen_tactical p;
    fold_left (fun acc m => do a <- acc; do p' <- make_legal p (rm m); do v <- mm_quiesce f p' (depth + 1); Ok (Z.max a (- v))) tms (Ok sp)
  end.
Fixpoint minimax (d : nat) (p : pos) (depth : Z) : result Z :=
  match d with
  | O => mm_quiesce qfuel p depth
  | S k =>
    do ms <- gen_legal p;
    match ms with
    | [] => Ok (terminal_score p depth)
    | m0 :: r =>
        do p0 <- make_legal p (rm m0); do v0 <- minimax k p0 (depth + 1);
        fold_left (fun acc m => do a <- acc; do p' <- make_legal p (rm m); do v <- minimax k p' (depth + 1); Ok (Z.max a (- v))) r (Ok (- v0))
    end
  end.

(* minimax value together with "some quiescence node of the whole depth-d tree is lazy-sensitive" (the deviation C04 admits) *)
Fixpoint mm_quiesce_s (fuel : nat) (p : pos) (depth : Z) : result (Z * bool) :=
  match fuel with O => Panic P_FUEL | S f =>
    let sp := evaluate p depth in
    do tms <- gen_tactical p;
    fold_left (fun acc m => do a <- acc; do p' <- make_legal p (rm m); do v <- mm_quiesce_s f p' (depth + 1);
                            Ok (Z.max (fst a) (- fst v), snd a || snd v)) tms (Ok (sp, lazy_sensitive p depth))
  end.
Fixpoint minimax_s (d : nat) (p : pos) (depth : Z) : result (Z * bool) :=
  match d with
  | O => mm_quiesce_s qfuel p depth
  | S k =>
    do ms <- gen_legal p;
    match ms with
    | [] => Ok (terminal_score p depth, false)
    | m0 :: r =>
        do p0 <- make_legal p (rm m0); do v0 <- minimax_s k p0 (depth + 1);
        fold_left (fun acc m => do a <- acc; do p' <- make_legal p (rm m); do v <- minimax_s k p' (depth + 1);
                                Ok (Z.max (fst a) (- fst v), snd a || snd v)) r (Ok (- fst v0, snd v0))
    end
  end.
