(* Bound-consistency of the engine's fail-hard alpha-beta (lazy evaluation shortcut, arbitrary move ordering)
   with the plain minimax value, on searches that visit no lazy-sensitive quiescence node.  No axioms. *)
From Coq Require Import ZArith List Bool Lia Permutation ZifyBool.
Require Import Base Generated Position Attack Make Gen Count Eval Search.
Open Scope Z_scope.

Definition bc (a b r v : Z) : Prop := (v <= a -> r <= a) /\ (v >= b -> r >= b) /\ (a < v < b -> r = v).

Lemma bc_refl a b v : bc a b v v.
Proof. unfold bc; lia. Qed.

(* ---------- the panic monad ---------- *)
Lemma bind_ok {A B} (r : result A) (f : A -> result B) x : bind r f = Ok x -> exists y, r = Ok y /\ f y = Ok x.
Proof. destruct r; cbn; intros H; [eauto | discriminate]. Qed.

Definition val (r : result Z) : option Z := match r with Ok v => Some v | Panic _ => None end.
Lemma val_ok r v : val r = Some v <-> r = Ok v.
Proof. destruct r; cbn; split; intros H; inversion H; reflexivity. Qed.

(* ---------- the evaluation window condition ----------
   [evaluate] is [lazy_eval] with the window (-Inf, Inf).  For a position whose piece-square score lies beyond
   +-(Inf + margin) the shortcut fires even there, and then a narrower window that lies partly outside [-Inf, Inf]
   can make [lazy_eval] return the full score where [evaluate] returns the cheap one; nothing relates the two.
   So the lazy/full comparison needs EITHER a window inside [-Inf, Inf] (always the case in the engine: the root
   window is exactly that and windows only shrink) OR a bound on the piece-square score. *)
Definition psq_small : Prop := forall p, Z.abs (psq_score p) < InfinityScore - fullEvalScoreMargin.
Definition wok (a b : Z) : Prop := (- InfinityScore <= a /\ b <= InfinityScore) \/ psq_small.

Lemma wok_sub a b a' b' : wok a b -> a <= a' -> b' <= b -> wok a' b'.
Proof. unfold wok. intros [H | H] ? ?; [left; lia | right; exact H]. Qed.
Lemma wok_neg a b : wok a b -> wok (- b) (- a).
Proof. unfold wok. intros [H | H]; [left; lia | right; exact H]. Qed.

Lemma lazy_fact p depth a b :
  wok a b -> lazy_sensitive p depth = false ->
  lazy_eval p depth a b = evaluate p depth
  \/ (b < lazy_eval p depth a b /\ b < evaluate p depth)
  \/ (lazy_eval p depth a b < a /\ evaluate p depth < a).
Proof.
  unfold lazy_sensitive, evaluate, lazy_eval. intros W.
  destruct (is_checkmate p); [left; reflexivity|].
  assert (P : (- InfinityScore <= a /\ b <= InfinityScore) \/ Z.abs (psq_score p) < InfinityScore - fullEvalScoreMargin)
    by (destruct W as [W | W]; [left; exact W | right; apply W]).
  clear W. set (ms := psq_score p) in *.
  set (F := if count_moves p * MobilityScoreFactor =? 0 then DrawScore
            else ms + (count_moves p * MobilityScoreFactor - count_moves (flip_turn p) * MobilityScoreFactor)).
  clearbody F ms. unfold fullEvalScoreMargin, InfinityScore in *.
  destruct ((ms >? b + 320) || (ms <? a - 320)) eqn:E1;
  destruct ((ms >? 100000000 + 320) || (ms <? - (100000000) - 320)) eqn:E2; intros S; lia.
Qed.

(* ---------- the reference fold ---------- *)
Section Ref.
Variable p : pos.
Variable ref : pos -> result Z.

Definition rstep (acc : result Z) (m : rmove) : result Z :=
  do a <- acc; do p' <- make_legal p (rm m); do v <- ref p'; Ok (Z.max a (- v)).
Definition rfold (l : list rmove) (acc : result Z) : result Z := fold_left rstep l acc.

Lemma rfold_panic l w : rfold l (Panic w) = Panic w.
Proof. induction l; cbn; [reflexivity | exact IHl]. Qed.

Lemma rstep_val a a' m : val a = val a' -> val (rstep a m) = val (rstep a' m).
Proof.
  unfold rstep. destruct a, a'; cbn; intros H; try discriminate; try reflexivity.
  inversion H; reflexivity.
Qed.

Lemma rfold_val l : forall a a', val a = val a' -> val (rfold l a) = val (rfold l a').
Proof. induction l; cbn; intros; [assumption | apply IHl, rstep_val; assumption]. Qed.

Lemma rstep_swap a x y : val (rstep (rstep a x) y) = val (rstep (rstep a y) x).
Proof.
  unfold rstep. destruct a; cbn; [|reflexivity].
  destruct (make_legal p (rm x)) as [px|]; cbn; [destruct (ref px) as [vx|]; cbn|];
  (destruct (make_legal p (rm y)) as [py|]; cbn; [destruct (ref py) as [vy|]; cbn|]); try reflexivity.
  f_equal. lia.
Qed.

Lemma rfold_perm l l' : Permutation l l' -> forall a, val (rfold l a) = val (rfold l' a).
Proof.
  induction 1; intros acc; cbn.
  - reflexivity.
  - apply IHPermutation.
  - apply rfold_val, rstep_swap.
  - rewrite IHPermutation1. apply IHPermutation2.
Qed.

Lemma rfold_cons m l x v :
  rfold (m :: l) (Ok x) = Ok v ->
  exists p' w, make_legal p (rm m) = Ok p' /\ ref p' = Ok w /\ rfold l (Ok (Z.max x (- w))) = Ok v.
Proof.
  change (rfold (m :: l) (Ok x)) with (rfold l (do p' <- make_legal p (rm m); do v <- ref p'; Ok (Z.max x (- v)))).
  destruct (make_legal p (rm m)) as [p'|]; cbn; [|rewrite rfold_panic; discriminate].
  destruct (ref p') as [w|] eqn:R; cbn; [|rewrite rfold_panic; discriminate].
  intros H. exists p', w. auto.
Qed.

Lemma rfold_ge l : forall x v, rfold l (Ok x) = Ok v -> x <= v.
Proof.
  induction l; intros x v H.
  - cbn in H. inversion H. lia.
  - apply rfold_cons in H. destruct H as (p' & w & _ & _ & H). apply IHl in H. lia.
Qed.

Lemma rfold_shift l : forall x v X, rfold l (Ok x) = Ok v -> rfold l (Ok (Z.max X x)) = Ok (Z.max X v).
Proof.
  induction l; intros x v X H.
  - cbn in *. inversion H. reflexivity.
  - apply rfold_cons in H. destruct H as (p' & w & H1 & H2 & H).
    change (rfold (a :: l) (Ok (Z.max X x))) with
      (rfold l (do p' <- make_legal p (rm a); do v <- ref p'; Ok (Z.max (Z.max X x) (- v)))).
    rewrite H1. cbn [bind]. rewrite H2. cbn [bind].
    apply IHl with (X := X) in H. rewrite <- H. f_equal. f_equal. lia.
Qed.

Lemma rfold_le l B : forall x v,
  (forall m p' w, In m l -> make_legal p (rm m) = Ok p' -> ref p' = Ok w -> - w <= B) ->
  x <= B -> rfold l (Ok x) = Ok v -> v <= B.
Proof.
  induction l; intros x v HB Hx H.
  - cbn in H. inversion H. lia.
  - apply rfold_cons in H. destruct H as (p' & w & H1 & H2 & H).
    apply IHl in H; [assumption | intros; eapply HB; eauto; right; assumption|].
    specialize (HB a p' w (or_introl eq_refl) H1 H2). lia.
Qed.
End Ref.

(* ---------- the inner loop shared by quiesce and alpha_beta ---------- *)
Section Loop.
Variable child : pos -> Z -> Z -> result sres.
Variable p : pos.
Variable beta : Z.

Fixpoint ab_loop (ms : list rmove) (alpha : Z) (line : option (list move)) (nodes : Z) (sens : bool) : result sres :=
  match ms with
  | [] => Ok (mk alpha line nodes sens)
  | m :: r =>
      do p' <- make_legal p (rm m);
      do c <- child p' (- beta) (- alpha);
      let s := - sv c in
      let nodes' := nodes + snodes c in let sens' := sens || ssens c in
      if s >=? beta then Ok (mk beta line nodes' sens')
      else if s >? alpha then do l <- extend (rm m) (sline c); ab_loop r s l nodes' sens'
      else ab_loop r alpha line nodes' sens'
  end.

Lemma ab_loop_cons m l alpha line nodes sens r :
  ab_loop (m :: l) alpha line nodes sens = Ok r ->
  exists p' c, make_legal p (rm m) = Ok p' /\ child p' (- beta) (- alpha) = Ok c /\
    ((- sv c >= beta /\ r = mk beta line (nodes + snodes c) (sens || ssens c))
     \/ (- sv c < beta /\ - sv c > alpha /\ exists ln, ab_loop l (- sv c) ln (nodes + snodes c) (sens || ssens c) = Ok r)
     \/ (- sv c < beta /\ - sv c <= alpha /\ ab_loop l alpha line (nodes + snodes c) (sens || ssens c) = Ok r)).
Proof.
  cbn [ab_loop]. intros H.
  apply bind_ok in H. destruct H as (p' & H1 & H). apply bind_ok in H. destruct H as (c & H2 & H).
  exists p', c. split; [assumption|]. split; [assumption|]. cbv zeta in H.
  destruct (- sv c >=? beta) eqn:E1.
  - left. inversion H. split; [lia | reflexivity].
  - destruct (- sv c >? alpha) eqn:E2.
    + right; left. apply bind_ok in H. destruct H as (ln & _ & H). split; [lia|]. split; [lia|]. exists ln; exact H.
    + right; right. split; [lia|]. split; [lia|]. exact H.
Qed.

Lemma ab_loop_sens l : forall alpha line nodes sens r,
  ab_loop l alpha line nodes sens = Ok r -> ssens r = false -> sens = false.
Proof.
  induction l as [|m l IH]; intros alpha line nodes sens r H S.
  - cbn in H. inversion H; subst. exact S.
  - apply ab_loop_cons in H. destruct H as (p' & c & _ & _ & [(_ & H) | [(_ & _ & ln & H) | (_ & _ & H)]]).
    + subst r. cbn in S. apply orb_false_elim in S. tauto.
    + apply IH in H; [|assumption]. apply orb_false_elim in H. tauto.
    + apply IH in H; [|assumption]. apply orb_false_elim in H. tauto.
Qed.

(* fail-hard: the loop's value stays between its starting alpha and beta *)
Lemma ab_loop_window l : forall alpha line nodes sens r,
  ab_loop l alpha line nodes sens = Ok r -> alpha <= beta -> alpha <= sv r <= beta.
Proof.
  induction l as [|m l IH]; intros alpha line nodes sens r H A.
  - cbn in H. inversion H; subst. cbn. lia.
  - apply ab_loop_cons in H. destruct H as (p' & c & _ & _ & [(_ & H) | [(? & ? & ln & H) | (_ & _ & H)]]).
    + subst r. cbn. lia.
    + apply IH in H; lia.
    + apply IH in H; lia.
Qed.

Variable ref : pos -> result Z.
Hypothesis child_bc : forall p' a b c w,
  a < b -> wok a b -> child p' a b = Ok c -> ref p' = Ok w -> ssens c = false -> bc a b (sv c) w.

(* alpha summarises the running maximum v0 of the (true) child values seen so far w.r.t. the original bound a0 *)
Lemma ab_loop_bc l : forall alpha line nodes sens v0 r v a0,
  alpha = Z.max a0 v0 -> alpha < beta -> wok a0 beta ->
  ab_loop l alpha line nodes sens = Ok r -> ssens r = false -> rfold p ref l (Ok v0) = Ok v -> bc a0 beta (sv r) v.
Proof.
  induction l as [|m l IH]; intros alpha line nodes sens v0 r v a0 A B W H S R.
  - cbn in H, R. inversion H; inversion R; subst. cbn. unfold bc. lia.
  - apply rfold_cons in R. destruct R as (p'' & w & R1 & R2 & R).
    apply ab_loop_cons in H. destruct H as (p' & c & H1 & H2 & H).
    rewrite R1 in H1. inversion H1; subst p''. clear H1.
    assert (W' : wok (- beta) (- alpha)) by (apply wok_neg; eapply wok_sub; [exact W | lia | lia]).
    assert (Sc : ssens c = false).
    { destruct H as [(_ & H) | [(_ & _ & ln & H) | (_ & _ & H)]].
      - subst r. cbn in S. apply orb_false_elim in S. tauto.
      - apply ab_loop_sens in H; [|assumption]. apply orb_false_elim in H. tauto.
      - apply ab_loop_sens in H; [|assumption]. apply orb_false_elim in H. tauto. }
    pose proof (child_bc p' (- beta) (- alpha) c w ltac:(lia) W' H2 R2 Sc) as C.
    destruct H as [(E & H) | [(E1 & E2 & ln & H) | (E1 & E2 & H)]].
    + subst r. cbn. apply rfold_ge in R. unfold bc in *. lia.
    + eapply IH in H; [exact H | | lia | exact W | exact S | exact R]. unfold bc in C. lia.
    + eapply IH in H; [exact H | | lia | exact W | exact S | exact R]. unfold bc in C. lia.
Qed.
End Loop.

Lemma rfold_seed p ref m l p0 w v X :
  make_legal p (rm m) = Ok p0 -> ref p0 = Ok w -> rfold p ref l (Ok (- w)) = Ok v -> X <= v ->
  rfold p ref (m :: l) (Ok X) = Ok v.
Proof.
  intros H1 H2 R HX.
  change (rfold p ref (m :: l) (Ok X)) with
    (rfold p ref l (do p' <- make_legal p (rm m); do v <- ref p'; Ok (Z.max X (- v)))).
  rewrite H1; cbn [bind]; rewrite H2; cbn [bind].
  apply rfold_shift with (X := X) in R. rewrite R. f_equal. lia.
Qed.

(* ---------- the root loop: full window, no cut-off, early exit after a mate in one ---------- *)
Section Root.
Variable child : pos -> Z -> Z -> result sres.
Variable p : pos.

Fixpoint root_loop (ms : list rmove) (alpha : Z) (line : option (list move)) (nodes : Z) (sens : bool) : result sres :=
  match ms with
  | [] => Ok (mk alpha line nodes sens)
  | m :: r =>
      do p' <- make_legal p (rm m);
      do c <- child p' (- InfinityScore) (- alpha);
      let s := - sv c in
      let nodes' := nodes + snodes c in let sens' := sens || ssens c in
      if s >? alpha then
        do l <- extend (rm m) (sline c);
        if next_move_wins s then Ok (mk s l nodes' sens') else root_loop r s l nodes' sens'
      else if next_move_wins s then Ok (mk alpha line nodes' sens') else root_loop r alpha line nodes' sens'
  end.

Lemma root_loop_cons m l alpha line nodes sens r :
  root_loop (m :: l) alpha line nodes sens = Ok r ->
  exists p' c, make_legal p (rm m) = Ok p' /\ child p' (- InfinityScore) (- alpha) = Ok c /\
    ((- sv c > alpha /\ - sv c = - LostScore - 1 /\ exists ln, r = mk (- sv c) ln (nodes + snodes c) (sens || ssens c))
     \/ (- sv c > alpha /\ - sv c <> - LostScore - 1 /\ exists ln, root_loop l (- sv c) ln (nodes + snodes c) (sens || ssens c) = Ok r)
     \/ (- sv c <= alpha /\ - sv c = - LostScore - 1 /\ r = mk alpha line (nodes + snodes c) (sens || ssens c))
     \/ (- sv c <= alpha /\ - sv c <> - LostScore - 1 /\ root_loop l alpha line (nodes + snodes c) (sens || ssens c) = Ok r)).
Proof.
  cbn [root_loop]. intros H.
  apply bind_ok in H. destruct H as (p' & H1 & H). apply bind_ok in H. destruct H as (c & H2 & H).
  exists p', c. split; [assumption|]. split; [assumption|]. cbv zeta in H. unfold next_move_wins in H.
  destruct (- sv c >? alpha) eqn:E1.
  - apply bind_ok in H. destruct H as (ln & _ & H).
    destruct (- sv c =? - LostScore - 1) eqn:E2.
    + left. inversion H. split; [lia|]. split; [lia|]. exists ln; reflexivity.
    + right; left. split; [lia|]. split; [lia|]. exists ln; exact H.
  - destruct (- sv c =? - LostScore - 1) eqn:E2.
    + right; right; left. inversion H. split; [lia|]. split; [lia|]. reflexivity.
    + right; right; right. split; [lia|]. split; [lia|]. exact H.
Qed.

Lemma root_loop_sens l : forall alpha line nodes sens r,
  root_loop l alpha line nodes sens = Ok r -> ssens r = false -> sens = false.
Proof.
  induction l as [|m l IH]; intros alpha line nodes sens r H S.
  - cbn in H. inversion H; subst. exact S.
  - apply root_loop_cons in H.
    destruct H as (p' & c & _ & _ & [(_ & _ & ln & H) | [(_ & _ & ln & H) | [(_ & _ & H) | (_ & _ & H)]]]).
    + subst r. cbn in S. apply orb_false_elim in S. tauto.
    + apply IH in H; [|assumption]. apply orb_false_elim in H. tauto.
    + subst r. cbn in S. apply orb_false_elim in S. tauto.
    + apply IH in H; [|assumption]. apply orb_false_elim in H. tauto.
Qed.

Variable ref : pos -> result Z.
Hypothesis child_bc : forall p' a b c w,
  a < b -> wok a b -> child p' a b = Ok c -> ref p' = Ok w -> ssens c = false -> bc a b (sv c) w.

Lemma root_loop_val l : forall alpha line nodes sens v0 r v,
  alpha = Z.max (- InfinityScore) v0 -> alpha <= - LostScore - 1 ->
  (forall m p' w, In m l -> make_legal p (rm m) = Ok p' -> ref p' = Ok w -> - w <= - LostScore - 1) ->
  root_loop l alpha line nodes sens = Ok r -> ssens r = false -> rfold p ref l (Ok v0) = Ok v ->
  - InfinityScore < v -> sv r = v.
Proof.
  induction l as [|m l IH]; intros alpha line nodes sens v0 r v A B HB H S R V.
  - cbn [root_loop] in H. cbn [rfold fold_left] in R. inversion H; inversion R; subst. cbn [sv mk]. lia.
  - apply rfold_cons in R. destruct R as (p'' & w & R1 & R2 & R).
    apply root_loop_cons in H. destruct H as (p' & c & H1 & H2 & H).
    rewrite R1 in H1. inversion H1; subst p''. clear H1.
    pose proof (HB m p' w (or_introl eq_refl) R1 R2) as Hw.
    assert (HB' : forall m p' w, In m l -> make_legal p (rm m) = Ok p' -> ref p' = Ok w -> - w <= - LostScore - 1)
      by (intros; eapply HB; eauto; right; assumption).
    assert (W' : wok (- InfinityScore) (- alpha)) by (left; lia).
    assert (Sc : ssens c = false).
    { destruct H as [(_ & _ & ln & H) | [(_ & _ & ln & H) | [(_ & _ & H) | (_ & _ & H)]]].
      - subst r. cbn in S. apply orb_false_elim in S. tauto.
      - apply root_loop_sens in H; [|assumption]. apply orb_false_elim in H. tauto.
      - subst r. cbn in S. apply orb_false_elim in S. tauto.
      - apply root_loop_sens in H; [|assumption]. apply orb_false_elim in H. tauto. }
    assert (AB : - InfinityScore < - alpha) by (unfold InfinityScore, LostScore in *; lia).
    pose proof (child_bc p' (- InfinityScore) (- alpha) c w AB W' H2 R2 Sc) as C.
    pose proof (rfold_ge _ _ _ _ _ R) as Rge.
    assert (Rle : v <= - LostScore - 1) by (eapply rfold_le; [exact HB' | | exact R]; lia).
    unfold bc in C. unfold InfinityScore, LostScore in *.
    destruct H as [(E1 & E2 & ln & H) | [(E1 & E2 & ln & H) | [(E1 & E2 & H) | (E1 & E2 & H)]]].
    + subst r. cbn. lia.
    + eapply IH in H; [exact H | | | exact HB' | exact S | exact R | exact V]; lia.
    + subst r. cbn. lia.
    + eapply IH in H; [exact H | | | exact HB' | exact S | exact R | exact V]; lia.
Qed.
End Root.

Section SearchProofs.
Variable order : pos -> list rmove -> list rmove.
Hypothesis order_perm : forall p l, Permutation (order p l) l.

Lemma quiesce_eq f p a b depth :
  quiesce order (S f) p a b depth =
    let sens := lazy_sensitive p depth in
    let score := lazy_eval p depth a b in
    if score >=? b then Ok (mk b None 1 sens) else
    let '(alpha1, line1) := if score >? a then (score, Some []) else (a, None) in
    do tms <- gen_tactical p;
    ab_loop (fun p' x y => quiesce order f p' x y (depth + 1)) p b (order p tms) alpha1 line1 1 sens.
Proof. reflexivity. Qed.

Lemma mm_quiesce_eq f p depth :
  mm_quiesce (S f) p depth =
    do tms <- gen_tactical p; rfold p (fun p' => mm_quiesce f p' (depth + 1)) tms (Ok (evaluate p depth)).
Proof. reflexivity. Qed.

Lemma alpha_beta_eq k p a b depth :
  alpha_beta order (S k) p a b depth =
    do ms <- gen_legal p;
    match ms with
    | [] => Ok (mk (terminal_score p depth) (Some []) 1 false)
    | _ => ab_loop (fun p' x y => alpha_beta order k p' x y (depth + 1)) p b (order p ms) a None 0 false
    end.
Proof. reflexivity. Qed.

Lemma minimax_eq k p depth :
  minimax (S k) p depth =
    do ms <- gen_legal p;
    match ms with
    | [] => Ok (terminal_score p depth)
    | m0 :: r =>
        do p0 <- make_legal p (rm m0); do v0 <- minimax k p0 (depth + 1);
        rfold p (fun p' => minimax k p' (depth + 1)) r (Ok (- v0))
    end.
Proof. reflexivity. Qed.

Lemma root_search_eq target p :
  root_search order target p =
    do ms <- gen_legal p;
    match ms with
    | [] => Ok (mk (terminal_score p 0) (Some []) 1 false, false)
    | _ => do r <- root_loop (fun p' x y => alpha_beta order (pred target) p' x y 1) p (order p ms) (- InfinityScore) None 0 false;
           Ok (r, (List.length ms =? 1)%nat)
    end.
Proof. reflexivity. Qed.

Lemma rfold_order p ref l x v : rfold p ref l (Ok x) = Ok v -> rfold p ref (order p l) (Ok x) = Ok v.
Proof.
  intros H. apply val_ok. rewrite (rfold_perm p ref _ _ (order_perm p l)). apply val_ok. exact H.
Qed.

(* ---------- quiescence ---------- *)
Lemma quiesce_value_gen : forall fuel p a b depth r v, a < b -> wok a b ->
  quiesce order fuel p a b depth = Ok r -> mm_quiesce fuel p depth = Ok v -> ssens r = false -> bc a b (sv r) v.
Proof.
  induction fuel as [|f IH]; intros p a b depth r v AB W H M S; [discriminate H|].
  rewrite quiesce_eq in H. rewrite mm_quiesce_eq in M. cbv zeta in H.
  apply bind_ok in M. destruct M as (tms & G & R).
  pose proof (rfold_ge _ _ _ _ _ R) as Rge.
  destruct (lazy_eval p depth a b >=? b) eqn:E1.
  - inversion H; subst r. cbn in S |- *.
    pose proof (lazy_fact p depth a b W S) as L. unfold bc. lia.
  - assert (exists alpha1 line1,
        ab_loop (fun p' x y => quiesce order f p' x y (depth + 1)) p b (order p tms) alpha1 line1 1 (lazy_sensitive p depth) = Ok r
        /\ alpha1 = Z.max a (lazy_eval p depth a b)) as (alpha1 & line1 & H' & A1).
    { destruct (lazy_eval p depth a b >? a) eqn:E2; cbv beta iota in H; rewrite G in H; cbn [bind] in H;
        do 2 eexists; (split; [exact H | lia]). }
    clear H.
    pose proof (ab_loop_sens _ _ _ _ _ _ _ _ _ H' S) as S0.
    pose proof (lazy_fact p depth a b W S0) as L.
    eapply ab_loop_bc with (ref := fun p' => mm_quiesce f p' (depth + 1)) (v0 := evaluate p depth);
      [ | | | exact W | exact H' | exact S | apply rfold_order; exact R ].
    + intros p' a' b' c w AB' W' Hc Hw Sc. exact (IH _ _ _ _ _ _ AB' W' Hc Hw Sc).
    + lia.
    + lia.
Qed.

Lemma quiesce_window : forall fuel p a b depth r, a <= b ->
  quiesce order fuel p a b depth = Ok r -> a <= sv r <= b.
Proof.
  intros [|f] p a b depth r AB H; [discriminate H|].
  rewrite quiesce_eq in H. cbv zeta in H.
  destruct (lazy_eval p depth a b >=? b) eqn:E1.
  - inversion H; subst r. cbn. lia.
  - destruct (lazy_eval p depth a b >? a) eqn:E2; cbv beta iota in H;
      apply bind_ok in H; destruct H as (tms & _ & H); apply ab_loop_window in H; lia.
Qed.

(* ---------- full-width alpha-beta ---------- *)
Lemma alpha_beta_value_gen : forall d p a b depth r v, a < b -> wok a b ->
  alpha_beta order d p a b depth = Ok r -> minimax d p depth = Ok v -> ssens r = false -> bc a b (sv r) v.
Proof.
  induction d as [|k IH]; intros p a b depth r v AB W H M S.
  - eapply quiesce_value_gen; eauto.
  - rewrite alpha_beta_eq in H. rewrite minimax_eq in M.
    apply bind_ok in H. destruct H as (ms & G & H).
    rewrite G in M. cbn [bind] in M.
    destruct ms as [|m0 r0].
    + inversion H; inversion M; subst. cbn. apply bc_refl.
    + apply bind_ok in M. destruct M as (p0 & M1 & M). apply bind_ok in M. destruct M as (w0 & M2 & R).
      pose proof (rfold_seed p (fun p' => minimax k p' (depth + 1)) m0 r0 p0 w0 v (Z.min a v) M1 M2 R ltac:(lia)) as R'.
      eapply ab_loop_bc with (ref := fun p' => minimax k p' (depth + 1)) (v0 := Z.min a v);
        [ | | | exact W | exact H | exact S | apply rfold_order; exact R' ].
      * intros p' a' b' c w AB' W' Hc Hw Sc. exact (IH _ _ _ _ _ _ AB' W' Hc Hw Sc).
      * lia.
      * lia.
Qed.

(* ---------- the theorems ----------
   CHANGE w.r.t. the requested statements of quiesce_value / alpha_beta_value: the two hypotheses
   [- InfinityScore <= a] and [b <= InfinityScore] (the window lies inside the root window; this is invariant
   under the recursion and holds for every window the engine ever uses).  Without them (and without a bound on
   psq_score) the statement is not provable: see the comment at [wok].  The variants *_psq below have exactly the
   requested statements under the alternative, global hypothesis [psq_small]. *)
Theorem quiesce_value : forall fuel p a b depth r v, a < b -> - InfinityScore <= a -> b <= InfinityScore ->
  quiesce order fuel p a b depth = Ok r -> mm_quiesce fuel p depth = Ok v -> ssens r = false -> bc a b (sv r) v.
Proof. intros. eapply quiesce_value_gen; eauto. left; lia. Qed.

Theorem alpha_beta_value : forall d p a b depth r v, a < b -> - InfinityScore <= a -> b <= InfinityScore ->
  alpha_beta order d p a b depth = Ok r -> minimax d p depth = Ok v -> ssens r = false -> bc a b (sv r) v.
Proof. intros. eapply alpha_beta_value_gen; eauto. left; lia. Qed.

Theorem quiesce_value_psq : psq_small -> forall fuel p a b depth r v, a < b ->
  quiesce order fuel p a b depth = Ok r -> mm_quiesce fuel p depth = Ok v -> ssens r = false -> bc a b (sv r) v.
Proof. intros P; intros. eapply quiesce_value_gen; eauto. right; exact P. Qed.

Theorem alpha_beta_value_psq : psq_small -> forall d p a b depth r v, a < b ->
  alpha_beta order d p a b depth = Ok r -> minimax d p depth = Ok v -> ssens r = false -> bc a b (sv r) v.
Proof. intros P; intros. eapply alpha_beta_value_gen; eauto. right; exact P. Qed.

(* values never leave the window: fail-hard (as requested, unchanged) *)
Theorem alpha_beta_in_window : forall d p a b depth r, a <= b ->
  alpha_beta order d p a b depth = Ok r -> (exists ms, gen_legal p = Ok ms /\ ms <> nil) \/ d = O -> a <= sv r <= b.
Proof.
  intros [|k] p a b depth r AB H C.
  - eapply quiesce_window; eauto.
  - destruct C as [(ms & G & N) | C]; [|discriminate C].
    rewrite alpha_beta_eq in H. rewrite G in H. cbn [bind] in H.
    destruct ms as [|m0 r0]; [congruence|]. apply ab_loop_window in H; lia.
Qed.

(* at the root (as requested, unchanged) *)
Theorem root_search_value : forall d p r one v,
  root_search order (S d) p = Ok (r, one) -> minimax (S d) p 0 = Ok v -> ssens r = false ->
  (forall ms m p' w, gen_legal p = Ok ms -> In m ms -> make_legal p (rm m) = Ok p' -> minimax d p' 1 = Ok w -> - w <= - LostScore - 1) ->
  - InfinityScore < v -> sv r = v.
Proof.
  intros d p r one v H M S HB V.
  rewrite root_search_eq in H. rewrite minimax_eq in M.
  apply bind_ok in H. destruct H as (ms & G & H).
  rewrite G in M. cbn [bind] in M. specialize (HB ms).
  destruct ms as [|m0 r0].
  - inversion H; inversion M; subst. reflexivity.
  - apply bind_ok in H. destruct H as (r' & H & E). inversion E; subst r'. clear E.
    apply bind_ok in M. destruct M as (p0 & M1 & M). apply bind_ok in M. destruct M as (w0 & M2 & R).
    pose proof (rfold_seed p (fun p' => minimax d p' (0 + 1)) m0 r0 p0 w0 v (Z.min (- InfinityScore) v) M1 M2 R ltac:(lia)) as R'.
    apply rfold_order in R'.
    eapply root_loop_val with (ref := fun p' => minimax d p' (0 + 1)) (v0 := Z.min (- InfinityScore) v);
      [ | | | | exact H | exact S | exact R' | exact V ].
    + intros p' a' b' c w AB' W' Hc Hw Sc. exact (alpha_beta_value_gen _ _ _ _ _ _ _ AB' W' Hc Hw Sc).
    + lia.
    + unfold InfinityScore, LostScore. lia.
    + intros m p' w I L Hw. eapply HB; [exact G | | exact L | exact Hw].
      eapply Permutation_in; [apply order_perm | exact I].
Qed.
End SearchProofs.

Print Assumptions quiesce_value.
Print Assumptions alpha_beta_value.
Print Assumptions quiesce_value_psq.
Print Assumptions alpha_beta_value_psq.
Print Assumptions alpha_beta_in_window.
Print Assumptions root_search_value.
