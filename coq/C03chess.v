(* Properties C03 / C10 / C11 for the chess instance: no hypothesis left except that the move ordering is a permutation.
   For every well-formed position in which the side not to move is not in check (what the FEN loader and the move-list
   path establish, C08/C02), every oracle stream (stop timing, clock, 200-ms threshold), killer table, logging interval,
   depth limit: *)
From Coq Require Import ZArith List.
Require Import Base Generated Position Make Gen Search SearchImp SearchImpProofs SearchImpChess SearchStmt WF.
Require Spec Abs.
Import ListNotations.
Open Scope Z_scope.

(* C03: exactly one bestmove event, the newest *)
Theorem C03_chess_one_bestmove : forall order log_interval, is_ordering2 order -> forall max_depth st stf p,
  wf_legal p = true -> ply p + Z.of_nat max_depth + Z.of_nat qfuel + 2 < 32767 -> top st = Ok p ->
  iterate_i order log_interval max_depth st = Ok stf -> st_out st = [] ->
  n_bestmoves (st_out stf) = 1%nat /\ exists e r, st_out stf = e :: r /\ is_bestmove e = true.
Proof. exact chess_iterate_i_one_bestmove. Qed.
(* C03: it names a move that is legal BY THE RULES OF CHESS, or is `0000` exactly when the rules give no legal move *)
Theorem C03_chess_bestmove_legal_by_the_rules : forall order log_interval, is_ordering2 order -> forall max_depth st stf p,
  wf_legal p = true -> ply p + Z.of_nat max_depth + Z.of_nat qfuel + 2 < 32767 ->
  iterate_i order log_interval max_depth st = Ok stf -> top st = Ok p ->
  (exists b rest, st_out stf = EvBestMove b :: rest /\ Spec.legal (Abs.abs p) (Abs.absm b) = true)
  \/ (st_out stf = EvBestMoveNone :: st_out st /\ forall sm, Spec.legal (Abs.abs p) sm = false).
Proof. exact chess_iterate_i_bestmove_rules. Qed.
(* C10: every printed event is well formed; bestmove is the head of the last printed PV *)
Theorem C10_chess_events : forall order log_interval, is_ordering2 order -> forall max_depth st stf p,
  wf_legal p = true -> ply p + Z.of_nat max_depth + Z.of_nat qfuel + 2 < 32767 ->
  iterate_i order log_interval max_depth st = Ok stf -> top st = Ok p ->
  exists ms evs, gen_legal p = Ok ms /\ st_out stf = evs ++ st_out st /\ Forall (out_ev_ok p ms) evs.
Proof. exact chess_iterate_i_events. Qed.
Theorem C10_chess_bestmove_heads_last_pv : forall order log_interval, is_ordering2 order -> forall max_depth st stf p ms,
  wf_legal p = true -> ply p + Z.of_nat max_depth + Z.of_nat qfuel + 2 < 32767 ->
  iterate_i order log_interval max_depth st = Ok stf -> top st = Ok p -> gen_legal p = Ok ms ->
  (ms = [] -> st_out stf = EvBestMoveNone :: st_out st) /\
  (ms <> [] -> exists b l sc dn nd rest,
      st_out stf = EvBestMove b :: EvInfoScore sc dn nd (b :: l) :: rest ++ st_out st /\ legal_line p (b :: l) /\ In b (map rm ms)).
Proof. exact chess_iterate_i_bestmove_legal. Qed.
(* C11: the move comes from the newest completed iteration that passed the deadline test and the interruption test *)
Theorem C11_chess_no_leak : forall order log_interval, is_ordering2 order -> forall max_depth st stf p ms,
  wf_legal p = true -> ply p + Z.of_nat max_depth + Z.of_nat qfuel + 2 < 32767 ->
  iterate_i order log_interval max_depth st = Ok stf -> top st = Ok p -> gen_legal p = Ok ms -> ms <> [] ->
  last_depth_pv (st_out st) = None ->
  exists s1 one best1 b l sc dn nd rest,
    root_search_i order log_interval 1 [] (set_nodes (set_intr st false) 0) = Ok (s1, one) /\ iline s1 = Some best1 /\
    st_out stf = EvBestMove b :: EvInfoScore sc dn nd (b :: l) :: rest /\
    b :: l = match last_depth_pv (st_out stf) with Some pv => pv | None => best1 end /\
    (forall pv, last_depth_pv (st_out stf) = Some pv ->
       exists d sc' nd', In (EvInfoDepth d sc' nd' pv) (st_out stf) /\ depth_prov order log_interval p d sc' nd' pv).
Proof. exact chess_iterate_i_no_leak. Qed.

Print Assumptions C03_chess_one_bestmove.
Print Assumptions C03_chess_bestmove_legal_by_the_rules.
Print Assumptions C10_chess_events.
Print Assumptions C10_chess_bestmove_heads_last_pv.
Print Assumptions C11_chess_no_leak.
