(* engine/position.go, defs.go: position record, cells, squares on the 0x88 board. *)
Require Import Base Generated.

Inductive color := White | Black.
Inductive kind := Pawn | Knight | Bishop | Rook | Queen | King.
Inductive cell := Empty | Pc (c : color) (k : kind).
Definition color_eqb a b := match a, b with White, White | Black, Black => true | _, _ => false end.
Definition kind_eqb a b := match a, b with
  | Pawn, Pawn | Knight, Knight | Bishop, Bishop | Rook, Rook | Queen, Queen | King, King => true | _, _ => false end.
Definition cell_eqb a b := match a, b with
  | Empty, Empty => true | Pc c k, Pc c' k' => color_eqb c c' && kind_eqb k k' | _, _ => false end.
Definition opp c := match c with White => Black | Black => White end.

Definition onb (s : Z) : bool := Z.land s 136 =? 0.            (* s & InvalidSquare == 0 *)
Definition rankof (s : Z) : Z := Z.land s 240.                   (* getRank: s & 0xF0 *)
Definition fileof (s : Z) : Z := Z.land s 15.                    (* getFile: s & 0x0F *)
Definition INVALID : Z := 136.

(* the 128-cell board; reading past the end is a Go panic and is excluded by [board_index_safe] where it can happen *)
Definition get (b : list cell) (s : Z) : cell := nth (Z.to_nat s) b Empty.
Definition set (b : list cell) (s : Z) (v : cell) : list cell := upd b (Z.to_nat s) v.
Definition is_col (c : color) (x : cell) := match x with Pc c' _ => color_eqb c c' | Empty => false end.
Definition is_pc (c : color) (k : kind) (x : cell) :=
  match x with Pc c' k' => color_eqb c c' && kind_eqb k k' | Empty => false end.
Definition is_empty (x : cell) := match x with Empty => true | _ => false end.

(* lists hold the active prefix squares[:size] of the Go arrays, in array order *)
Record pos := { board : list cell;
  bpieces : list Z; wpieces : list Z; bpawns : list Z; wpawns : list Z; bking : Z; wking : Z;
  wturn : bool; wK : bool; wQ : bool; bK : bool; bQ : bool; ep : Z; ply : Z }.

Definition pawnCap : nat := 8.
Definition pieceCap : nat := 15.

Definition cur_color (p : pos) := if wturn p then White else Black.
Definition cur_pieces p := if wturn p then wpieces p else bpieces p.
Definition cur_pawns p := if wturn p then wpawns p else bpawns p.
Definition cur_king p := if wturn p then wking p else bking p.
Definition en_pieces p := if wturn p then bpieces p else wpieces p.
Definition en_pawns p := if wturn p then bpawns p else wpawns p.
Definition en_king p := if wturn p then bking p else wking p.
Definition castle_rank (c : color) : Z := match c with White => 0 | Black => 112 end.

(* byte encodings of cells and flags (defs.go / position.go); the constants come from the running code *)
Definition kind_bit (k : kind) : Z :=
  match k with Pawn => enc_Pawn | Knight => enc_Knight | Bishop => enc_Bishop | Rook => enc_Rook | Queen => enc_Queen | King => enc_King end.
Definition cell_byte (x : cell) : Z :=
  match x with Empty => 0 | Pc White k => kind_bit k + enc_WhitePieceBit | Pc Black k => kind_bit k + enc_BlackPieceBit end.
Definition flags_byte (p : pos) : Z :=
  (if wturn p then enc_FlagWhiteTurn else 0) + (if wK p then enc_FlagWhiteCanCastleKside else 0) +
  (if wQ p then enc_FlagWhiteCanCastleQside else 0) + (if bK p then enc_FlagBlackCanCastleKside else 0) +
  (if bQ p then enc_FlagBlackCanCastleQside else 0).

Definition flip_turn (p : pos) : pos :=
  {| board := board p; bpieces := bpieces p; wpieces := wpieces p; bpawns := bpawns p; wpawns := wpawns p;
     bking := bking p; wking := wking p; wturn := negb (wturn p); wK := wK p; wQ := wQ p; bK := bK p; bQ := bQ p;
     ep := ep p; ply := ply p |}.

(* NewPosition() *)
Definition back_rank := [Rook; Knight; Bishop; Queen; King; Bishop; Knight; Rook].
Definition start_board : list cell :=
  flat_map (fun r => map (fun f =>
     if (f <? 8)%nat then
       match r with
       | 0%nat => Pc White (nth f back_rank Pawn) | 1%nat => Pc White Pawn
       | 6%nat => Pc Black Pawn | 7%nat => Pc Black (nth f back_rank Pawn) | _ => Empty end
     else Empty) (seq 0 16)) (seq 0 8).
Definition startpos : pos := {| board := start_board;
  bpieces := [112;113;114;115;117;118;119]; wpieces := [0;1;2;3;5;6;7];
  bpawns := [96;97;98;99;100;101;102;103]; wpawns := [16;17;18;19;20;21;22;23];
  bking := 116; wking := 4; wturn := true; wK := true; wQ := true; bK := true; bQ := true; ep := INVALID; ply := 0 |}.
