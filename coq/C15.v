(* Property C15: static evaluation is colour-symmetric. *)
From Coq Require Import ZArith List Bool Permutation.
Require Import Base Generated Position Attack Make Gen Count Eval WF Mirror MirrorProofs.
Open Scope Z_scope.

(* the colour-flipped position (ranks reversed, colours, lists, rights, side to move, ep swapped) evaluates the same,
   mobility of both sides, the start-rank en-passant patch and the king-capture quirk of the opponent-mobility count included *)
Theorem C15_mirror : forall p d, wf p = true -> evaluate (mirror_pos p) d = evaluate p d.
Proof. exact evaluate_mirror. Qed.
Theorem C15_mirror_lazy : forall p d alpha beta, wf p = true -> lazy_eval (mirror_pos p) d alpha beta = lazy_eval p d alpha beta.
Proof. exact lazy_eval_mirror. Qed.
(* the evaluation does not depend on the order of the piece lists (so it does not matter how the mirror image was reached:
   loaded from a FEN in scan order, or by play) *)
Theorem C15_list_order : forall p q d, peq p q -> evaluate q d = evaluate p d.
Proof. exact evaluate_peq. Qed.
Theorem C15_symmetric : forall p q d, wf p = true -> peq (mirror_pos p) q -> evaluate q d = evaluate p d.
Proof. exact evaluate_mirror_peq. Qed.
(* building blocks *)
Theorem C15_material_squares : forall p, wf p = true -> psq_score (mirror_pos p) = psq_score p.
Proof. exact psq_score_mirror. Qed.
Theorem C15_mobility_own : forall p, wf p = true -> count_moves (mirror_pos p) = count_moves p.
Proof. exact count_moves_mirror. Qed.
Theorem C15_mobility_opponent : forall p, wf p = true -> count_moves (flip_turn (mirror_pos p)) = count_moves (flip_turn p).
Proof. exact count_moves_flip_mirror. Qed.

Print Assumptions C15_mirror.
Print Assumptions C15_mirror_lazy.
Print Assumptions C15_list_order.
Print Assumptions C15_symmetric.
Print Assumptions C15_material_squares.
Print Assumptions C15_mobility_own.
Print Assumptions C15_mobility_opponent.
