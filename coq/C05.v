(* Property C05: mate and stalemate scoring, score formatting, evaluation band. *)
From Coq Require Import ZArith List Bool.
Require Import Base Generated Position Attack Make Gen Count Eval Uci Search WF EvalProofs.
Require Spec Abs.
Open Scope Z_scope.

(* mate distance arithmetic of the printed score: "mover mates in n plies" is -LostScore - n and prints `mate ceil(n/2)`;
   "mover is mated in n plies" is LostScore + n and prints `mate -ceil(n/2)`; anything within the band prints `cp` *)
Theorem C05_format_win : forall n, 1 <= n <= 1000 -> format_score (- LostScore - n) = ShMate ((n + 1) / 2).
Proof. exact format_mate_win. Qed.
Theorem C05_format_loss : forall n, 0 <= n <= 1000 -> format_score (LostScore + n) = ShMate (- ((n + 1) / 2)).
Proof. exact format_mate_loss. Qed.
Theorem C05_format_cp : forall s, Z.abs s <= ScoreCloseToMate -> format_score s = ShCp s.
Proof. exact format_cp. Qed.
Theorem C05_plies_to_mate : forall n, 0 <= n <= 1000 -> plies_to_mate (- LostScore - n) = n /\ plies_to_mate (LostScore + n) = n.
Proof. exact plies_to_mate_win. Qed.
(* a position without legal moves is scored as mate exactly when the side to move is in check -- by the rules *)
Theorem C05_terminal_mate_iff_check : forall p depth, 0 <= depth <= 1000 -> (terminal_score p depth = LostScore + depth <-> in_check p = true).
Proof. exact terminal_score_mate_iff. Qed.
Theorem C05_terminal_draw : forall p depth, in_check p = false -> terminal_score p depth = DrawScore.
Proof. exact terminal_score_draw. Qed.
Theorem C05_in_check_is_the_rules : forall p, wf p = true -> in_check p = Spec.in_check (Spec.brd (Abs.abs p)) (cur_color p).
Proof. exact in_check_is_spec. Qed.
(* non-mate evaluations stay far inside the mate-score range (material <= 15 men a side, piece-square tables, the binary64
   king taper swept over every reachable material sum, mobility <= 420 moves), so they are always reported as cp *)
Theorem C05_band : forall p depth, wf p = true -> is_checkmate p = false -> Z.abs (evaluate p depth) < ScoreCloseToMate.
Proof. exact evaluate_band. Qed.
Theorem C05_eval_printed_as_cp : forall p depth, wf p = true -> is_checkmate p = false -> format_score (evaluate p depth) = ShCp (evaluate p depth).
Proof. exact evaluate_printed_cp. Qed.

Print Assumptions C05_format_win.
Print Assumptions C05_format_loss.
Print Assumptions C05_format_cp.
Print Assumptions C05_plies_to_mate.
Print Assumptions C05_terminal_mate_iff_check.
Print Assumptions C05_terminal_draw.
Print Assumptions C05_in_check_is_the_rules.
Print Assumptions C05_band.
Print Assumptions C05_eval_printed_as_cp.
