(* engine/movegen.go Perft, PerftTactical, Perftd, PerftDivTactical. *)
Require Import Base Generated Position Attack Make Gen Count.

Fixpoint perft (n : nat) (p : pos) : result Z :=
  match n with
  | O => Ok 1
  | S O => Ok (count_moves p)
  | S k => do ms <- gen_legal p;
           fold_left (fun acc r => do a <- acc; do p' <- make_legal p (rm r); do v <- perft k p'; Ok (a + v)) ms (Ok 0)
  end.
(* PerftTactical(depth): depth <= 1 counts tactical moves *)
Fixpoint perft_tactical (n : nat) (p : pos) : result Z :=
  match n with
  | O => Ok (count_tactical p)
  | S O => Ok (count_tactical p)
  | S k => do ms <- gen_legal p;
           fold_left (fun acc r => do a <- acc; do p' <- make_legal p (rm r); do v <- perft_tactical k p'; Ok (a + v)) ms (Ok 0)
  end.
(* Perftd: one line per root move, in generation order, and the total *)
Definition perft_divide (n : nat) (p : pos) : result (list (move * Z) * Z) :=
  match n with
  | O => Ok ([], 0)
  | S k => do ms <- gen_legal p;
           do rows <- fold_left (fun acc r => do a <- acc; do p' <- make_legal p (rm r); do v <- perft k p'; Ok (a ++ [(rm r, v)])) ms (Ok []);
           Ok (rows, zsum (map snd rows))
  end.
(* PerftDivTactical (after the tperft-1 fix) *)
Definition tperft_divide (n : nat) (p : pos) : result (list (move * Z) * Z) :=
  match n with
  | O => Ok ([], 0)
  | S k => do ms <- gen_legal p;
           do rows <- fold_left (fun acc r => do a <- acc;
                          match k with
                          | O => Ok (a ++ [(rm r, b2z (tactical r))])
                          | _ => do p' <- make_legal p (rm r); do v <- perft_tactical k p'; Ok (a ++ [(rm r, v)])
                          end) ms (Ok []);
           Ok (rows, zsum (map snd rows))
  end.
