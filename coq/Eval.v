(* engine/score.go: Evaluate / LazyEvaluate, gamePhaseFactor, pieceSquareScore, isCheckMate, terminalNodeScore.
   The king-table interpolation is IEEE binary64 in Go; here it is computed with Coq's SpecFloat (pure Gallina). *)
From Coq Require Import Floats.SpecFloat.
Require Import Base Generated Position Attack Make Gen Count.

Definition prec := 53. Definition emax := 1024.
Definition f_of_Z (z : Z) : spec_float :=
  match z with Z0 => S754_zero false | _ => binary_normalize prec emax z 0 false end.
(* Go int(float64): truncation toward zero (in range) *)
Definition f_trunc (f : spec_float) : Z :=
  match f with
  | S754_finite s m e => let a := if (0 <=? e) then Zpos m * 2 ^ e else Zpos m / 2 ^ (- e) in if s then - a else a
  | _ => 0 end.
(* int(g*yMid + (1.0-g)*yEnd) with g = float64(material) / StartingSumOfMaterial (math.Min result is discarded in Go) *)
Definition taper (m ymid yend : Z) : Z :=
  let g := SFdiv prec emax (f_of_Z m) (f_of_Z StartingSumOfMaterial) in
  f_trunc (SFadd prec emax (SFmul prec emax g (f_of_Z ymid)) (SFmul prec emax (SFsub prec emax (f_of_Z 1) g) (f_of_Z yend))).

Definition mat_of (k : kind) : Z :=
  match k with Knight => MatKnight | Bishop => MatBishop | Rook => MatRook | Queen => MatQueen | _ => 0 end.
(* nonPawnMaterialScore *)
Definition nonpawn (b : list cell) (l : list Z) : Z :=
  zsum (map (fun s => match get b s with Pc _ k => mat_of k | Empty => 0 end) l).
Definition piece_term (tn tb tr tq : list Z) (b : list cell) (s : Z) : Z :=
  match get b s with
  | Pc _ Knight => MatKnight + tabz tn s | Pc _ Bishop => MatBishop + tabz tb s
  | Pc _ Rook => MatRook + tabz tr s | Pc _ Queen => MatQueen + tabz tq s | _ => 0 end.
Definition side_score (b : list cell) (pieces pawns : list Z) (king : Z) (tn tb tr tq tp tkm tke : list Z) (m : Z) : Z :=
  zsum (map (piece_term tn tb tr tq b) pieces)
  + zsum (map (fun s => MatPawn + tabz tp s) pawns)
  + taper m (tabz tkm king) (tabz tke king).
Definition material_sum (p : pos) : Z := nonpawn (board p) (wpieces p) + nonpawn (board p) (bpieces p).
Definition white_score (p : pos) : Z :=
  side_score (board p) (wpieces p) (wpawns p) (wking p) pst_knight_w pst_bishop_w pst_rook_w pst_queen_w pst_pawn_w pst_kingmid_w pst_kingend_w (material_sum p).
Definition black_score (p : pos) : Z :=
  side_score (board p) (bpieces p) (bpawns p) (bking p) pst_knight_b pst_bishop_b pst_rook_b pst_queen_b pst_pawn_b pst_kingmid_b pst_kingend_b (material_sum p).
(* pieceSquareScore *)
Definition psq_score (p : pos) : Z := (white_score p - black_score p) * (if wturn p then 1 else -1).

Definition is_checkmate (p : pos) : bool := in_check p && (count_moves p =? 0).
(* LazyEvaluate *)
Definition lazy_eval (p : pos) (depth alpha beta : Z) : Z :=
  if is_checkmate p then LostScore + depth else
  let ms := psq_score p in
  if (ms >? beta + fullEvalScoreMargin) || (ms <? alpha - fullEvalScoreMargin) then ms else
  let cur := count_moves p * MobilityScoreFactor in
  if cur =? 0 then DrawScore else ms + (cur - count_moves (flip_turn p) * MobilityScoreFactor).
Definition evaluate (p : pos) (depth : Z) : Z := lazy_eval p depth (- InfinityScore) InfinityScore.
(* terminalNodeScore *)
Definition terminal_score (p : pos) (depth : Z) : Z := if in_check p then LostScore + depth else DrawScore.
(* node where full and cheap evaluation differ by more than the lazy margin (the deviation C04 admits) *)
Definition lazy_sensitive (p : pos) (depth : Z) : bool :=
  if is_checkmate p then false else Z.abs (evaluate p depth - psq_score p) >? fullEvalScoreMargin.
