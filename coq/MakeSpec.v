(* The statement tying MakeMove (model) to the rules of chess (Spec.apply), shared by the proof files.
   No proofs here: the statement, and a boolean version of it that the correspondence check evaluates on real positions. *)
From Coq Require Import ZArith List Bool.
Import ListNotations.
Require Import Base Generated Position Attack Make Gen WF.
Require Spec.
Require Import Abs.
Open Scope Z_scope.

(* the en-passant target a move carries: the jumped square for a double pawn push, InvalidSquare otherwise *)
Definition mep_of (p : pos) (from to : Z) : Z :=
  if is_pc (cur_color p) Pawn (get (board p) from) && ((to - from =? 32) || (from - to =? 32)) then (from + to) / 2 else INVALID.
Definition mep_ok (p : pos) (m : move) : Prop := mep m = mep_of p (mfrom m) (mto m).

(* equality of specification positions, field by field (boards extensionally) *)
Definition pos_equiv (a b : Spec.position) : Prop :=
  (forall s, Spec.brd a s = Spec.brd b s) /\ Spec.turn a = Spec.turn b /\
  (forall c, Spec.rK a c = Spec.rK b c) /\ (forall c, Spec.rQ a c = Spec.rQ b c) /\
  Spec.ep a = Spec.ep b /\ Spec.ply a = Spec.ply b.

(* MakeMove on a well-formed position and a move that obeys the movement rules: never panics, returns exactly the
   rules' position, keeps the bookkeeping consistent, and its verdict is "the mover's king is not attacked afterwards" *)
Definition make_spec_statement : Prop := forall p m,
  wf_legal p = true -> ply p + 1 < 32767 -> validb (mfrom m) = true -> validb (mto m) = true ->
  Spec.pseudo (abs p) (absm m) = true -> mep_ok p m ->
  exists p', make p m = Ok (p', negb (Spec.in_check (Spec.brd (Spec.apply (abs p) (absm m))) (cur_color p)))
     /\ wf p' = true /\ pos_equiv (abs p') (Spec.apply (abs p) (absm m)).

(* boolean instance of the statement for one position: all 64x64x5 candidate moves *)
Definition to_model_move (p : pos) (sm : Spec.move) : move :=
  let f := sq88 (Spec.mfrom sm) in let t := sq88 (Spec.mto sm) in
  {| mfrom := f; mto := t; mpromo := Spec.promo sm; mep := mep_of p f t |}.
Definition make_spec_check (p : pos) : bool :=
  forallb (fun sm =>
     negb (Spec.pseudo (abs p) sm) ||
     (let m := to_model_move p sm in
      match make p m with
      | Ok (p', ok) => Bool.eqb ok (negb (Spec.in_check (Spec.brd (Spec.apply (abs p) sm)) (cur_color p)))
                       && wf p' && pos_eqb (abs p') (Spec.apply (abs p) sm)
      | Panic _ => false end)) Spec.candidates.
