(* engine/fen.go NewPositionFromFen (with its validation), charToPiece. *)
Require Import Str.
Require Import Base Generated Position Attack Make.
Open Scope Z_scope.

Inductive fen_out := FenOk (p : pos) | FenErr (code : Z).
Definition E_ASCII := 1. Definition E_FIELDS := 2. Definition E_RANKS := 3. Definition E_FILES_MANY := 4.
Definition E_PIECE := 5. Definition E_PAWN_RANK := 6. Definition E_PAWN_CAP := 7. Definition E_PIECE_CAP := 8.
Definition E_FILES_FEW := 9. Definition E_KINGS := 10. Definition E_MEN := 11. Definition E_TURN := 12.
Definition E_CASTLE_SYNTAX := 13. Definition E_CASTLE_CONSIST := 14. Definition E_EP_SYNTAX := 15.
Definition E_EP_CONSIST := 16. Definition E_HALFMOVE := 17. Definition E_FULLMOVE_SYNTAX := 18.
Definition E_FULLMOVE_LOW := 19. Definition E_FULLMOVE_HIGH := 20. Definition E_IN_CHECK := 21.

Definition char_to_piece (c : ascii) : cell :=
  match c with
  | "p"%char => Pc Black Pawn | "n"%char => Pc Black Knight | "b"%char => Pc Black Bishop
  | "r"%char => Pc Black Rook | "q"%char => Pc Black Queen | "k"%char => Pc Black King
  | "P"%char => Pc White Pawn | "N"%char => Pc White Knight | "B"%char => Pc White Bishop
  | "R"%char => Pc White Rook | "Q"%char => Pc White Queen | "K"%char => Pc White King
  | _ => Empty end.

(* scanner state while reading the placement field *)
Record scan := { s_board : list cell; s_bq : list Z; s_wq : list Z; s_bp : list Z; s_wp : list Z;
                 s_bk : Z; s_wk : Z; s_nbk : Z; s_nwk : Z }.
Definition scan0 : scan := {| s_board := repeat Empty 128; s_bq := []; s_wq := []; s_bp := []; s_wp := [];
                              s_bk := 0; s_wk := 0; s_nbk := 0; s_nwk := 0 |}.
(* Go: pos.board[sq] = piece  -- index panic when sq >= 128 *)
Definition set_r (b : list cell) (s : Z) (v : cell) : result (list cell) :=
  if (0 <=? s) && (s <? 128) then Ok (set b s v) else Panic P_BOARD_INDEX.

Inductive step_out := Continue (st : scan) (f : Z) | Stop (code : Z).

(* one character of a rank string; f is the Go 'file' byte *)
Definition scan_char (r : Z) (st : scan) (f : Z) (c : ascii) : result step_out :=
  if (49 <=? code c) && (code c <=? 56) then
    let f' := byte (f + (code c - 48)) in
    if f' >? 8 then Ok (Stop E_FILES_MANY) else Ok (Continue st f')
  else if f >? 7 then Ok (Stop E_FILES_MANY) else
  let sq := byte (r + f) in
  match char_to_piece c with
  | Empty => Ok (Stop E_PIECE)
  | Pc col k =>
      if kind_eqb k Pawn && ((r =? 0) || (r =? 112)) then Ok (Stop E_PAWN_RANK) else
      do b' <- set_r (s_board st) sq (Pc col k);
      match col, k with
      | Black, King => Ok (Continue {| s_board := b'; s_bq := s_bq st; s_wq := s_wq st; s_bp := s_bp st; s_wp := s_wp st;
                                        s_bk := sq; s_wk := s_wk st; s_nbk := s_nbk st + 1; s_nwk := s_nwk st |} (byte (f + 1)))
      | White, King => Ok (Continue {| s_board := b'; s_bq := s_bq st; s_wq := s_wq st; s_bp := s_bp st; s_wp := s_wp st;
                                        s_bk := s_bk st; s_wk := sq; s_nbk := s_nbk st; s_nwk := s_nwk st + 1 |} (byte (f + 1)))
      | Black, Pawn =>
          if (List.length (s_bp st) =? pawnCap)%nat then Ok (Stop E_PAWN_CAP) else
          do l <- append_cap P_APPEND_PAWN pawnCap (s_bp st) sq;
          Ok (Continue {| s_board := b'; s_bq := s_bq st; s_wq := s_wq st; s_bp := l; s_wp := s_wp st;
                          s_bk := s_bk st; s_wk := s_wk st; s_nbk := s_nbk st; s_nwk := s_nwk st |} (byte (f + 1)))
      | Black, _ =>
          if (List.length (s_bq st) =? pieceCap)%nat then Ok (Stop E_PIECE_CAP) else
          do l <- append_cap P_APPEND_PIECE pieceCap (s_bq st) sq;
          Ok (Continue {| s_board := b'; s_bq := l; s_wq := s_wq st; s_bp := s_bp st; s_wp := s_wp st;
                          s_bk := s_bk st; s_wk := s_wk st; s_nbk := s_nbk st; s_nwk := s_nwk st |} (byte (f + 1)))
      | White, Pawn =>
          if (List.length (s_wp st) =? pawnCap)%nat then Ok (Stop E_PAWN_CAP) else
          do l <- append_cap P_APPEND_PAWN pawnCap (s_wp st) sq;
          Ok (Continue {| s_board := b'; s_bq := s_bq st; s_wq := s_wq st; s_bp := s_bp st; s_wp := l;
                          s_bk := s_bk st; s_wk := s_wk st; s_nbk := s_nbk st; s_nwk := s_nwk st |} (byte (f + 1)))
      | White, _ =>
          if (List.length (s_wq st) =? pieceCap)%nat then Ok (Stop E_PIECE_CAP) else
          do l <- append_cap P_APPEND_PIECE pieceCap (s_wq st) sq;
          Ok (Continue {| s_board := b'; s_bq := s_bq st; s_wq := l; s_bp := s_bp st; s_wp := s_wp st;
                          s_bk := s_bk st; s_wk := s_wk st; s_nbk := s_nbk st; s_nwk := s_nwk st |} (byte (f + 1)))
      end
  end.

Fixpoint scan_rank (r : Z) (st : scan) (f : Z) (s : string) : result step_out :=
  match s with
  | EmptyString => if f =? 8 then Ok (Continue st f) else Ok (Stop E_FILES_FEW)
  | String c s' => do o <- scan_char r st f c;
                   match o with Continue st' f' => scan_rank r st' f' s' | Stop e => Ok (Stop e) end
  end.
(* ranks come 8th first *)
Fixpoint scan_ranks (idx : Z) (st : scan) (l : list string) : result step_out :=
  match l with
  | [] => Ok (Continue st 0)
  | rs :: rest => do o <- scan_rank ((7 - idx) * 16) st 0 rs;
                  match o with Continue st' _ => scan_ranks (idx + 1) st' rest | Stop e => Ok (Stop e) end
  end.

Fixpoint all_chars_in (s : string) (allowed : string) : bool :=
  match s with EmptyString => true | String c s' => contains_char allowed c && all_chars_in s' allowed end.

Definition parse_fen (fen : string) : result fen_out :=
  if negb (is_ascii fen) then Ok (FenErr E_ASCII) else
  match split_on " "%char fen with
  | [f0; f1; f2; f3; f4; f5] =>
    let ranks := split_on "/"%char f0 in
    if negb (List.length ranks =? 8)%nat then Ok (FenErr E_RANKS) else
    do o <- scan_ranks 0 scan0 ranks;
    match o with
    | Stop e => Ok (FenErr e)
    | Continue st _ =>
      if negb ((s_nbk st =? 1) && (s_nwk st =? 1)) then Ok (FenErr E_KINGS) else
      if (pieceCap <? List.length (s_bq st) + List.length (s_bp st))%nat || (pieceCap <? List.length (s_wq st) + List.length (s_wp st))%nat
      then Ok (FenErr E_MEN) else
      let b := s_board st in
      if negb (str_eqb f1 "w" || str_eqb f1 "b") then Ok (FenErr E_TURN) else
      let wt := str_eqb f1 "w" in
      if negb (str_eqb f2 "-") && (str_eqb f2 "" || negb (all_chars_in f2 "KQkq")) then Ok (FenErr E_CASTLE_SYNTAX) else
      let cwK := contains f2 "K" in let cwQ := contains f2 "Q" in let cbK := contains f2 "k" in let cbQ := contains f2 "q" in
      if (cwK && negb (cell_eqb (get b 4) (Pc White King) && cell_eqb (get b 7) (Pc White Rook)))
         || (cwQ && negb (cell_eqb (get b 4) (Pc White King) && cell_eqb (get b 0) (Pc White Rook)))
         || (cbK && negb (cell_eqb (get b 116) (Pc Black King) && cell_eqb (get b 119) (Pc Black Rook)))
         || (cbQ && negb (cell_eqb (get b 116) (Pc Black King) && cell_eqb (get b 112) (Pc Black Rook)))
      then Ok (FenErr E_CASTLE_CONSIST) else
      let epr : result (option Z) :=       (* None = rejected *)
        match f3 with
        | String fc (String rc EmptyString) =>
            if (code fc <? 97) || (code fc >? 104) || negb ((code rc =? 51) || (code rc =? 54)) then Ok None else
            let e := byte ((code fc - 97) + byte ((code rc - 49) * 16)) in
            if negb (Bool.eqb (code rc =? 54) wt) then Ok (Some (-1)) else
            let jumped := if wt then byte (e + 16) else byte (e - 16) in
            let psq := if wt then byte (e - 16) else byte (e + 16) in
            let pushed := if wt then Pc Black Pawn else Pc White Pawn in
            if (128 <=? psq) || (128 <=? jumped) || (128 <=? e) then Panic P_BOARD_INDEX else
            if negb (cell_eqb (get b psq) pushed) || negb (is_empty (get b e)) || negb (is_empty (get b jumped))
            then Ok (Some (-1)) else Ok (Some e)
        | _ => if str_eqb f3 "-" then Ok (Some INVALID) else Ok None
        end in
      do epo <- epr;
      match epo with
      | None => Ok (FenErr E_EP_SYNTAX)
      | Some e =>
        if e =? -1 then Ok (FenErr E_EP_CONSIST) else
        match atoi f4 with
        | None => Ok (FenErr E_HALFMOVE)
        | Some h => if h <? 0 then Ok (FenErr E_HALFMOVE) else
          match atoi f5 with
          | None => Ok (FenErr E_FULLMOVE_SYNTAX)
          | Some n =>
            if n <? 1 then Ok (FenErr E_FULLMOVE_LOW) else
            if n >? maxFullMoveCounter then Ok (FenErr E_FULLMOVE_HIGH) else
            let ply0 := int16 ((n - 1) * 2) in
            let p := {| board := b; bpieces := s_bq st; wpieces := s_wq st; bpawns := s_bp st; wpawns := s_wp st;
                        bking := s_bk st; wking := s_wk st; wturn := wt; wK := cwK; wQ := cwQ; bK := cbK; bQ := cbQ;
                        ep := e; ply := if wt then ply0 else int16 (ply0 + 1) |} in
            if in_check (flip_turn p) then Ok (FenErr E_IN_CHECK) else Ok (FenOk p)
          end
        end
      end
    end
  | _ => Ok (FenErr E_FIELDS)
  end.

Definition startpos_fen : string := "rnbqkbnr/pppppppp/8/8/8/8/PPPPPPPP/RNBQKBNR w KQkq - 0 1".
