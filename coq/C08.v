(* Property C08: FEN loading is total (error, not crash) and sound (whatever is accepted is representable and legal). *)
From Coq Require Import ZArith List Bool String Ascii.
Require Import Str.
Require Import Base Generated Position Attack Make WF Fen FenProofs.

(* no string whatsoever makes the loader crash: every index and every append is guarded *)
Theorem C08_total : forall s : string, exists o, parse_fen s = Ok o.
Proof. exact parse_fen_total. Qed.
(* whatever is accepted is a well-formed position: one king each at the recorded squares, lists = board, capacities incl. room
   for every promotion, no pawn on the first/last rank, castling rights and ep square consistent with the placement, ply
   within the counter, and the side not to move is not in check *)
Theorem C08_sound : forall s p, parse_fen s = Ok (FenOk p) -> wf_legal p = true.
Proof. exact parse_fen_sound. Qed.

Example C08_startpos : exists p, parse_fen startpos_fen = Ok (FenOk p) /\ wf_legal p = true /\ board p = board startpos /\ wpieces p = wpieces startpos.
Proof. eexists. split; [vm_compute; reflexivity|]. split; vm_compute; auto. Qed.
Example C08_rejects : parse_fen "88p/8/8/8/8/8/8/8 w - - 0 1" = Ok (FenErr E_FILES_MANY)
  /\ parse_fen "4k3/P7/8/8/8/QQQQQQQQ/QQQQQQQ1/4K3 w - - 0 1" = Ok (FenErr E_MEN)
  /\ parse_fen "4k3/8/8/8/8/8/8/4K3 w - - 0 20000" = Ok (FenErr E_FULLMOVE_HIGH).
Proof. repeat split; vm_compute; reflexivity. Qed.

Print Assumptions C08_total.
Print Assumptions C08_sound.
