(* Property C04, chess level: the numeric premises of C04_root_value / C04_state_machine_root (mate-in-one bound, value above
   -Infinity) are discharged for every well-formed legal position from the value range of minimax. *)
From Coq Require Import ZArith List Bool Permutation.
Require Import Base Generated Position Attack Make Gen Count Eval WF Search SearchProofs SearchImp SearchImpValue SearchImpChess2.
Open Scope Z_scope.

Theorem C04_chess_root_value : forall order, (forall p l, Permutation (order p l) l) ->
  forall d p r one v, wf_legal p = true -> ply p + Z.of_nat d + Z.of_nat qfuel + 3 < 32767 -> (d <= 1000)%nat ->
  root_search order (S d) p = Ok (r, one) -> minimax (S d) p 0 = Ok v -> ssens r = false -> sv r = v.
Proof. exact chess_root_search_value. Qed.
Theorem C04_chess_state_machine_root : forall order,
  (forall k c d p l, Permutation (order k c d p l) l) ->
  forall log_interval d cand st r one p v,
  wf_legal p = true -> ply p + Z.of_nat d + Z.of_nat qfuel + 3 < 32767 -> (d <= 1000)%nat ->
  quiet st -> top st = Ok p ->
  root_search_i order log_interval (S d) cand st = Ok (r, one) -> minimax (S d) p 0 = Ok v ->
  tree_ok (S d) p 0 -> iv r = v.
Proof. exact chess_root_search_i_value. Qed.
(* every minimax value lies strictly inside the mate band: never +-Infinity, so the root's initial window never clips it *)
Theorem C04_chess_value_range : forall d p depth v,
  wf_legal p = true -> ply p + Z.of_nat d + Z.of_nat qfuel + 1 < 32767 ->
  0 <= depth -> depth + Z.of_nat d + Z.of_nat qfuel <= bandDepth ->
  minimax d p depth = Ok v -> LostScore + depth <= v <= - LostScore - depth - 1.
Proof. exact minimax_range. Qed.
Print Assumptions C04_chess_root_value.
Print Assumptions C04_chess_state_machine_root.
Print Assumptions C04_chess_value_range.
