(* Property C01: legal move generation is exactly the rules of chess, on every position. *)
From Coq Require Import ZArith List Bool.
Require Import Base Generated Position Attack Make Gen WF MakeSpec MakeProofs GenProofs.
Require Spec.
Require Import Abs.
Open Scope Z_scope.

(* for every well-formed position in which the side not to move is not in check: generation does not panic, lists every
   legal move of the rules exactly once and nothing else; what `perft 1` lists and what the search expands *)
Theorem C01_movegen_exact : forall p, wf_legal p = true -> ply p + 1 < 32767 ->
  exists l, gen_legal p = Ok l
    /\ NoDup (map (fun r => absm (rm r)) l)
    /\ (forall sm, In sm (map (fun r => absm (rm r)) l) <-> Spec.legal (abs p) sm = true)
    /\ (forall r, In r l -> mep_ok p (rm r) /\ validb (mfrom (rm r)) = true /\ validb (mto (rm r)) = true).
Proof. exact (gen_legal_exact make_spec). Qed.
(* the pseudo-legal level needs only consistent bookkeeping *)
Theorem C01_pseudo_sound : forall p m, wf p = true -> In m (map rm (gen_pseudo p)) ->
  validb (mfrom m) = true /\ validb (mto m) = true /\ mep_ok p m /\ Spec.pseudo (abs p) (absm m) = true.
Proof. exact gen_pseudo_sound. Qed.
(* the king pre-filter on the unmoved board removes only moves that are illegal anyway *)
Theorem C01_castling_q : forall p, wf p = true -> can_castle_q p = Spec.castle_ok (abs p) false.
Proof. exact castle_q_spec. Qed.
Theorem C01_castling_k : forall p, wf p = true -> can_castle_k p = Spec.castle_ok (abs p) true.
Proof. exact castle_k_spec. Qed.
(* terminal detection: no generated move iff no legal move by the rules *)
Theorem C01_no_moves_iff : forall p l, wf_legal p = true -> ply p + 1 < 32767 -> gen_legal p = Ok l ->
  (l = nil <-> forall sm, Spec.legal (abs p) sm = false).
Proof.
  intros p l H1 H2 Hl. destruct (gen_legal_exact make_spec p H1 H2) as (l' & Hl' & _ & Hin & _).
  rewrite Hl in Hl'. injection Hl' as <-. split.
  - intros -> sm. destruct (Spec.legal (abs p) sm) eqn:E; [|reflexivity]. apply Hin in E. destruct E.
  - intros Hn. destruct l as [|r t]; [reflexivity|]. exfalso.
    assert (E : Spec.legal (abs p) (absm (rm r)) = true) by (apply Hin; left; reflexivity). rewrite Hn in E. discriminate.
Qed.

Example C01_example : wf_legal startpos = true /\ ply startpos + 1 < 32767 /\
  (exists l, gen_legal startpos = Ok l /\ length l = 20%nat).
Proof. split; [vm_compute; reflexivity|]. split; [vm_compute; reflexivity|]. eexists. split; vm_compute; reflexivity. Qed.

Print Assumptions C01_movegen_exact.
Print Assumptions C01_pseudo_sound.
Print Assumptions C01_castling_q.
Print Assumptions C01_castling_k.
Print Assumptions C01_no_moves_iff.
