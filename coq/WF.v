(* Well-formedness of an engine position: the redundant bookkeeping agrees with the board and everything fits the
   fixed capacities.  Boolean, so it runs (the correspondence check evaluates it on every position it sees).
   Established by the FEN loader and the start position, preserved by make (theorems in the proof files). *)
Require Import Base Generated Position Attack Make.
Open Scope Z_scope.

Definition squares128 : list Z := map Z.of_nat (seq 0 128).
Definition valid_squares : list Z := filter onb squares128.
Definition is_piece_kind (k : kind) : bool := match k with Knight | Bishop | Rook | Queen => true | _ => false end.

Fixpoint nodupb (l : list Z) : bool :=
  match l with [] => true | x :: r => negb (existsb (Z.eqb x) r) && nodupb r end.
Definition memb (x : Z) (l : list Z) : bool := existsb (Z.eqb x) l.
Definition validb (s : Z) : bool := (0 <=? s) && (s <? 128) && onb s.

(* the three lists of colour c against the board *)
Definition lists_ok (b : list cell) (c : color) (pieces pawns : list Z) (king : Z) : bool :=
  nodupb pieces && nodupb pawns && validb king
  && forallb (fun s =>
       match get b s with
       | Pc c' k =>
           if color_eqb c c' then
             match k with
             | Pawn => memb s pawns && negb (memb s pieces) && negb (s =? king)
             | King => (s =? king) && negb (memb s pawns) && negb (memb s pieces)
             | _ => memb s pieces && negb (memb s pawns) && negb (s =? king)
             end
           else negb (memb s pawns) && negb (memb s pieces) && negb (s =? king)
       | Empty => negb (memb s pawns) && negb (memb s pieces) && negb (s =? king)
       end) valid_squares
  && forallb validb pieces && forallb validb pawns.

Definition castle_flags_ok (p : pos) : bool :=
  let b := board p in
  (negb (wK p) || (cell_eqb (get b 4) (Pc White King) && cell_eqb (get b 7) (Pc White Rook))) &&
  (negb (wQ p) || (cell_eqb (get b 4) (Pc White King) && cell_eqb (get b 0) (Pc White Rook))) &&
  (negb (bK p) || (cell_eqb (get b 116) (Pc Black King) && cell_eqb (get b 119) (Pc Black Rook))) &&
  (negb (bQ p) || (cell_eqb (get b 116) (Pc Black King) && cell_eqb (get b 112) (Pc Black Rook))).

(* ep is InvalidSquare, or the square jumped over by a pawn of the side that has just moved *)
Definition ep_ok (p : pos) : bool :=
  (ep p =? INVALID) ||
  (let e := ep p in let b := board p in
   if wturn p then (rankof e =? 80) && validb e && cell_eqb (get b (e - 16)) (Pc Black Pawn) && is_empty (get b e) && is_empty (get b (e + 16))
   else (rankof e =? 32) && validb e && cell_eqb (get b (e + 16)) (Pc White Pawn) && is_empty (get b e) && is_empty (get b (e - 16))).

Definition wf (p : pos) : bool :=
  let b := board p in
  (length b =? 128)%nat
  && forallb (fun s => onb s || is_empty (get b s)) squares128
  && lists_ok b White (wpieces p) (wpawns p) (wking p)
  && lists_ok b Black (bpieces p) (bpawns p) (bking p)
  && (length (wpawns p) <=? pawnCap)%nat && (length (bpawns p) <=? pawnCap)%nat
  && (length (wpieces p) + length (wpawns p) <=? pieceCap)%nat && (length (bpieces p) + length (bpawns p) <=? pieceCap)%nat
  && forallb (fun s => negb ((rankof s =? 0) || (rankof s =? 112))) (wpawns p ++ bpawns p)
  && castle_flags_ok p && ep_ok p
  && (0 <=? ply p) && (ply p <? 32767).

(* the side that is not to move is not in check (so the king can never be captured) *)
Definition not_capturable (p : pos) : bool := negb (in_check (flip_turn p)).
Definition wf_legal (p : pos) : bool := wf p && not_capturable p.
