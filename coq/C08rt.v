(* Property C08, faithfulness: every legal position of the rules of chess, written as a FEN (standard six fields, canonical
   compression of empty squares; the printer fen_text is defined on the rules' side only), is ACCEPTED by the loader and
   loaded as exactly that position: the same 64 squares, side to move, castling rights, en-passant square and ply. *)
From Coq Require Import ZArith List String.
Require Import Str.
Require Import Base Generated Position Fen WF.
Require Spec Abs MakeSpec.
Require Import FenRoundtrip.
Open Scope Z_scope.

Theorem C08_faithful : forall a hm n,
  Spec.legal_position a = true -> 0 <= hm <= int64_max -> 1 <= n <= maxFullMoveCounter ->
  Spec.ply a = ply_of n (Spec.turn a) ->
  exists p, parse_fen (fen_text a hm n) = Ok (FenOk p) /\ pos_equiv_on (Abs.abs p) a.
Proof. exact fen_roundtrip. Qed.
(* no legal position is ever rejected, whatever its ply (a FEN can only express the ply of its move number) *)
Theorem C08_every_legal_position_accepted : forall a hm n,
  Spec.legal_position a = true -> 0 <= hm <= int64_max -> 1 <= n <= maxFullMoveCounter ->
  exists p, parse_fen (fen_text a hm n) = Ok (FenOk p)
            /\ pos_equiv_on (Abs.abs p) (with_ply a (ply_of n (Spec.turn a))) /\ wf_legal p = true.
Proof. exact fen_accepted. Qed.
(* the printer prints what one expects *)
Example C08_prints_startpos : fen_text (Abs.abs startpos) 0 1 = startpos_fen.
Proof. exact print_startpos. Qed.
Print Assumptions C08_faithful.
Print Assumptions C08_every_legal_position_accepted.
