(* Proofs about the time allotment (engine/uci.go calcEndtime and the movetime path), model in Uci.v. *)
From Coq Require Import ZArith Lia Bool ZifyBool.
From Coq Require Import String Ascii List.
Require Import Base Generated Str Uci.
Import ListNotations.
Open Scope Z_scope.

(* the allotment without machine-integer wrap-around *)
Definition alloc (left inc mtg : Z) : Z :=
  Z.max 1 ((if left >? inc then Z.min (Z.quot left mtg + inc) left else left) - antiflagMillis).

Definition mover_left (w : bool) (a : goargs) := if w then ga_wleft a else ga_bleft a.
Definition mover_inc (w : bool) (a : goargs) := if w then ga_winc a else ga_binc a.
(* what a GUI can send: about 126 years in milliseconds; time.Duration (int64 nanoseconds) holds 292 years *)
Definition BIG := 4000000000000.
Definition in_range (z : Z) := - BIG <= z <= BIG.

Lemma int64_id z : - 9223372036854775808 <= z <= 9223372036854775807 -> int64 z = z.
Proof. unfold int64. intros H. rewrite Z.mod_small; lia. Qed.

Lemma quot_bound l m : 1 <= m -> Z.abs (Z.quot l m) <= Z.abs l.
Proof. intros Hm. Z.to_euclidean_division_equations. nia. Qed.

Lemma millis_no_wrap w a :
  in_range (mover_left w a) -> in_range (mover_inc w a) -> 1 <= ga_mtg a ->
  millis_for_move w a = Ok (alloc (mover_left w a) (mover_inc w a) (ga_mtg a)).
Proof.
  unfold in_range, BIG, millis_for_move, alloc, mover_left, mover_inc. intros Hl Hi Hm.
  set (l := if w then ga_wleft a else ga_bleft a) in *. set (i := if w then ga_winc a else ga_binc a) in *.
  unfold antiflagMillis.
  destruct (l >? i) eqn:E.
  - destruct (ga_mtg a =? 0) eqn:Z0; [lia|]. cbn [bind].
    pose proof (quot_bound l (ga_mtg a) Hm) as Q.
    generalize dependent (Z.quot l (ga_mtg a)). intros q Q.
    rewrite (int64_id (q + i)) by lia.
    rewrite int64_id by lia. f_equal. apply Z.max_comm.
  - cbn [bind]. rewrite int64_id by lia. f_equal. apply Z.max_comm.
Qed.

(* only the mover's own clock, increment and movestogo enter the result *)
Lemma millis_mover_only w a a' :
  mover_left w a = mover_left w a' -> mover_inc w a = mover_inc w a' -> ga_mtg a = ga_mtg a' ->
  millis_for_move w a = millis_for_move w a'.
Proof. unfold millis_for_move, mover_left, mover_inc. intros -> -> ->. reflexivity. Qed.

Lemma alloc_bounds l i m : 1 <= m -> 1 <= alloc l i m /\ alloc l i m <= Z.max 1 (l - antiflagMillis).
Proof. unfold alloc, antiflagMillis. intros Hm. generalize (Z.quot l m). intros q. destruct (l >? i) eqn:E; lia. Qed.

Lemma alloc_mono_left l l' i m : 1 <= m -> l <= l' -> alloc l i m <= alloc l' i m.
Proof.
  unfold alloc, antiflagMillis. intros Hm Hl.
  assert (Q : l <= 0 \/ Z.quot l m <= Z.quot l' m) by (destruct (Z_le_gt_dec l 0); [left; lia | right; apply Z.quot_le_mono; lia]).
  assert (Q0 : 0 < l -> 0 <= Z.quot l m) by (intros; apply Z.quot_pos; lia).
  assert (Q1 : l <= 0 -> Z.quot l m <= 0) by (intros; Z.to_euclidean_division_equations; nia).
  generalize dependent (Z.quot l m). generalize dependent (Z.quot l' m). intros q' q Q Q0 Q1.
  destruct (l >? i) eqn:E, (l' >? i) eqn:E'; lia.
Qed.

Lemma alloc_mono_inc l i i' m : 1 <= m -> i <= i' -> alloc l i m <= alloc l i' m.
Proof. unfold alloc, antiflagMillis. intros Hm Hi. generalize (Z.quot l m). intros q. destruct (l >? i) eqn:E, (l >? i') eqn:E'; lia. Qed.

Lemma alloc_anti_mtg l i m m' : 1 <= m -> m <= m' -> alloc l i m' <= alloc l i m.
Proof.
  unfold alloc, antiflagMillis. intros Hm Hmm.
  assert (Q : l <= 0 \/ Z.quot l m' <= Z.quot l m).
  { destruct (Z_le_gt_dec l 0); [left; lia | right]. apply Z.quot_le_compat_l; lia. }
  generalize dependent (Z.quot l m). generalize dependent (Z.quot l m'). intros q' q Q.
  destruct (l >? i) eqn:E; lia.
Qed.

Lemma allotted_movetime w a :
  in_range (ga_movetime a) ->
  allotted_ns w a = Ok ((ga_movetime a - antiflagMillis) * 1000000).
Proof.
  unfold allotted_ns, in_range, BIG, antiflagMillis, no_movetime. intros Hr.
  destruct (ga_movetime a =? 9223372036854775808) eqn:E; [lia|]. cbn [negb].
  rewrite (int64_id (ga_movetime a - 50)) by lia. rewrite int64_id by lia. reflexivity.
Qed.

Lemma allotted_clock w a :
  ga_movetime a = no_movetime -> in_range (mover_left w a) -> in_range (mover_inc w a) -> 1 <= ga_mtg a ->
  allotted_ns w a = Ok (1000000 * alloc (mover_left w a) (mover_inc w a) (ga_mtg a)).
Proof.
  intros Hmt Hl Hi Hm. unfold allotted_ns. rewrite Hmt. rewrite Z.eqb_refl. cbn [negb].
  rewrite millis_no_wrap by assumption. cbn [bind].
  pose proof (alloc_bounds (mover_left w a) (mover_inc w a) (ga_mtg a) Hm) as [B1 B2].
  unfold in_range, BIG, antiflagMillis in *. rewrite int64_id by lia. reflexivity.
Qed.

(* parse_go never yields movestogo < 1, so the division can never panic after parsing *)
Lemma parse_go_mtg toks : forall a a', 1 <= ga_mtg a -> parse_go toks a = Some a' -> 1 <= ga_mtg a'.
Proof.
  induction toks as [|t rest IH]; intros a a' Ha H; cbn [parse_go] in H.
  - injection H as <-. exact Ha.
  - repeat match type of H with
    | (if ?c then _ else _) = _ => destruct c eqn:?
    | match int_after rest with _ => _ end = _ => destruct (int_after rest) as [n|]; [|discriminate]
    | match ?x <? 1 with _ => _ end = _ => destruct (x <? 1) eqn:?; [discriminate|]
    end; try discriminate; try (injection H as <-; exact Ha); try (eapply IH; [|exact H]; cbn; lia).
Qed.
(* "no movetime argument" is encoded by no_movetime = 2^63.  No argument text can produce it: atoi yields int64 values only, so after
   parsing the field is either still the marker (no movetime argument was read) or an int64 -- the engine's separate flag
   moveTimeGiven, in one number *)
Lemma atoi_int64 s v : atoi s = Some v -> -9223372036854775808 <= v <= 9223372036854775807.
Proof.
  unfold atoi. destruct s as [|c r].
  - discriminate.
  - set (nb := match c with "-"%char => (true, r) | "+"%char => (false, r) | _ => (false, String c r) end).
    destruct nb as [neg body]. destruct body as [|c' r']; [discriminate|].
    destruct (digits_val (String c' r') 0) as [d|]; [|discriminate].
    destruct ((-9223372036854775808 <=? (if neg then - d else d)) && ((if neg then - d else d) <=? 9223372036854775807)) eqn:E; [|discriminate].
    intros H. injection H as <-. apply andb_prop in E. destruct E as [E1 E2]. lia.
Qed.
Lemma parse_go_movetime toks : forall a a', parse_go toks a = Some a' ->
  ga_movetime a' = ga_movetime a \/ -9223372036854775808 <= ga_movetime a' <= 9223372036854775807.
Proof.
  induction toks as [|t rest IH]; intros a a' H; cbn [parse_go] in H.
  - injection H as <-. left; reflexivity.
  - repeat match type of H with
    | (if ?c then _ else _) = _ => destruct c eqn:?
    | match int_after rest with _ => _ end = _ => destruct (int_after rest) as [n|] eqn:?; [|discriminate]
    | match ?x <? 1 with _ => _ end = _ => destruct (x <? 1) eqn:?; [discriminate|]
    end; try discriminate;
    try (injection H as <-; left; reflexivity);
    try (apply IH in H; cbn [ga_movetime] in H; exact H).
    injection H as <-. right. cbn [ga_movetime].
    unfold int_after in *. destruct rest as [|v0 rest']; [discriminate|]. eapply atoi_int64; eassumption.
Qed.
Lemma parsed_movetime_marker toks a : parse_go toks go_defaults = Some a ->
  ga_movetime a = no_movetime \/ -9223372036854775808 <= ga_movetime a <= 9223372036854775807.
Proof. intros H. apply parse_go_movetime in H. exact H. Qed.

Lemma go_defaults_mtg : 1 <= ga_mtg go_defaults.
Proof. cbn. unfold ExpectedFullMovesToBePlayed. lia. Qed.
Lemma millis_never_panics w a : 1 <= ga_mtg a -> exists m, millis_for_move w a = Ok m.
Proof.
  intros Hm. unfold millis_for_move.
  destruct ((if w then ga_wleft a else ga_bleft a) >? (if w then ga_winc a else ga_binc a)).
  - destruct (ga_mtg a =? 0) eqn:E; [lia|]. eexists; reflexivity.
  - eexists; reflexivity.
Qed.
