(* Property C16 (search part): the search never changes the game position, however it is interrupted: every push is popped on
   every exit path, and the evaluation's turn-flag flip on the stack top is undone. *)
From Coq Require Import ZArith List.
Require Import Base Generated Position Make Gen SearchImp SearchImpProofs.

Theorem C16_go_leaves_the_stack : forall order log_interval n st stf, iterate_i order log_interval n st = Ok stf -> st_stack stf = st_stack st.
Proof. exact iterate_i_stack. Qed.
Theorem C16_every_node_balanced : forall order log_interval d cand st a b depth r,
  alpha_beta_i order log_interval d cand st a b depth = Ok r -> st_stack (ist r) = st_stack st.
Proof. exact alpha_beta_i_stack. Qed.
Theorem C16_quiescence_balanced : forall order log_interval fuel cand st a b depth r,
  quiesce_i order log_interval fuel cand st a b depth = Ok r -> st_stack (ist r) = st_stack st.
Proof. exact quiesce_i_stack. Qed.
Print Assumptions C16_go_leaves_the_stack.
Print Assumptions C16_every_node_balanced.
Print Assumptions C16_quiescence_balanced.
