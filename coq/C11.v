(* Property C11: an interrupted iteration never leaks: the move played is the first PV move of the deepest iteration that
   was completed and passed both the deadline test and the interruption test. *)
From Coq Require Import ZArith List.
Require Import Base Generated Position Make Gen SearchImp SearchImpProofs SearchImpValue SearchStmt.
Import ListNotations.

Theorem C11_no_leak : forall order log_interval, is_ordering2 order -> tactical_sub ->
  forall n st stf p ms, iterate_i order log_interval n st = Ok stf -> top st = Ok p -> gen_legal p = Ok ms -> ms <> [] ->
  last_depth_pv (st_out st) = None ->
  exists s1 one best1 b l sc dn nd rest,
    root_search_i order log_interval 1 [] (set_nodes (set_intr st false) 0) = Ok (s1, one) /\ iline s1 = Some best1 /\
    st_out stf = EvBestMove b :: EvInfoScore sc dn nd (b :: l) :: rest /\
    b :: l = match last_depth_pv (st_out stf) with Some pv => pv | None => best1 end /\
    (forall pv, last_depth_pv (st_out stf) = Some pv ->
       exists d sc' nd', In (EvInfoDepth d sc' nd' pv) (st_out stf) /\ depth_prov order log_interval p d sc' nd' pv).
Proof. exact iterate_i_no_leak. Qed.
(* an iteration that is not interrupted does not depend on the unconsumed oracle values: it computes what it computes with
   empty streams -- so the completed iteration D of an interrupted run is the iteration D of `go depth D` *)
Theorem C11_completed_iteration_is_deterministic : forall order log_interval target cand st,
  quiet st -> root_search_i order log_interval target cand (erase st) = smap erase_r2 (root_search_i order log_interval target cand st).
Proof. exact root_search_i_erase. Qed.
Theorem C11_uninterrupted_run_ignores_streams : forall order log_interval max p killers polls clock pvclock,
  allf polls -> allf clock ->
  smap st_out (iterate_i order log_interval max (sst0 p killers polls clock pvclock)) = smap st_out (iterate_i order log_interval max (sst0 p killers [] [] pvclock)).
Proof. exact iterate_i_all_false. Qed.
Print Assumptions C11_no_leak.
Print Assumptions C11_completed_iteration_is_deterministic.
Print Assumptions C11_uninterrupted_run_ignores_streams.
