(* Shared basics: panic monad, byte arithmetic, list helpers.  No proofs here. *)
From Coq Require Export ZArith List Bool.
Export ListNotations.
Open Scope Z_scope.

(* Every Go run-time panic site of the modelled code is a [Panic] in the model. *)
Inductive result (A : Type) := Ok (a : A) | Panic (why : Z).
Arguments Ok {A}. Arguments Panic {A}.
Definition bind {A B} (r : result A) (f : A -> result B) : result B :=
  match r with Ok a => f a | Panic w => Panic w end.
Notation "'do' x <- r ; k" := (bind r (fun x => k)) (at level 200, x name, r at level 100, k at level 200).
Definition is_ok {A} (r : result A) : bool := match r with Ok _ => true | Panic _ => false end.

(* panic codes *)
Definition P_KILL_PIECE := 1.      (* killPiece: square not on the list *)
Definition P_KILL_PAWN := 2.       (* killPawn: square not on the list *)
Definition P_APPEND_PIECE := 3.    (* appendPiece beyond pieceCap *)
Definition P_APPEND_PAWN := 4.     (* appendPawn beyond pawnCap *)
Definition P_ILLEGAL_PUSH := 5.    (* PushMove / ApplyUciMove: "resulted in illegal position" *)
Definition P_BOARD_INDEX := 6.     (* board index >= 128 *)
Definition P_UNEXPECTED_PIECE := 7. (* generator switch default: "Unexpected piece found" *)
Definition P_STACK := 8.           (* position stack index out of range *)
Definition P_PV_ROW := 9.          (* bestLineAtDepth row index out of range *)
Definition P_EMPTY_LINE := 10.     (* Line.String / moves[0] on an empty line *)
Definition P_NIL_POS := 11.        (* nil posGen dereference *)
Definition P_TOKEN_INDEX := 12.    (* tokens[i+1] out of range *)
Definition P_DIV_ZERO := 13.       (* integer divide by zero *)
Definition P_FUEL := 14.           (* model fuel exhausted: the Go loop would not have terminated here *)
Definition P_KILLER_INDEX := 15.   (* killer table index out of range *)

Definition byte (z : Z) : Z := z mod 256.                       (* Go: conversion to / arithmetic in uint8 *)
Definition int8 (z : Z) : Z := (z + 128) mod 256 - 128.
Definition int16 (z : Z) : Z := (z + 32768) mod 65536 - 32768.
Definition uint16 (z : Z) : Z := z mod 65536.
Definition int64 (z : Z) : Z := (z + 9223372036854775808) mod 18446744073709551616 - 9223372036854775808.

Fixpoint upd {A} (l : list A) (i : nat) (v : A) : list A :=
  match l, i with [], _ => [] | _ :: r, O => v :: r | x :: r, S j => x :: upd r j v end.
Fixpoint index_of (k : Z) (l : list Z) : option nat :=
  match l with [] => None | x :: r => if x =? k then Some O else option_map S (index_of k r) end.
Definition replace_first (l : list Z) (a b : Z) : list Z :=
  match index_of a l with Some i => upd l i b | None => l end.
(* Go: l[i] = l[size-1]; size-- *)
Definition swap_remove (l : list Z) (i : nat) : list Z := removelast (upd l i (last l 0)).
Definition zsum (l : list Z) : Z := fold_left Z.add l 0.
Definition b2z (b : bool) : Z := if b then 1 else 0.
Definition tabz (t : list Z) (i : Z) : Z := if i <? 0 then 0 else nth (Z.to_nat i) t 0.
Definition zl_eqb (a b : list Z) : bool := if list_eq_dec Z.eq_dec a b then true else false.
