(* Property C02: playing moves keeps the position exact and consistent over whole games. *)
From Coq Require Import ZArith List Bool.
Require Import Str.
Require Import Base Generated Position Attack Make Gen WF Uci MakeSpec MakeProofs GenProofs SessionProofs.
Require Spec.
Require Import Abs.
Open Scope Z_scope.

(* MakeMove on a well-formed position and a move that obeys the movement rules (any pawn move incl. double push, en passant,
   the four promotions; castling; king steps; piece moves; captures): never panics, returns exactly the rules' position
   (placement, side to move, castling rights, ep target, ply), keeps the bookkeeping consistent with the board, and its
   verdict is "the mover's king is not attacked afterwards" *)
Theorem C02_make_refines : forall p m,
  wf_legal p = true -> ply p + 1 < 32767 -> validb (mfrom m) = true -> validb (mto m) = true ->
  Spec.pseudo (abs p) (absm m) = true -> mep_ok p m ->
  exists p', make p m = Ok (p', negb (Spec.in_check (Spec.brd (Spec.apply (abs p) (absm m))) (cur_color p)))
     /\ wf p' = true /\ pos_equiv (abs p') (Spec.apply (abs p) (absm m)).
Proof. exact make_spec. Qed.
(* every move the generator produces satisfies those hypotheses (so the search's PushMove and perft never panic) *)
Theorem C02_generated_moves_ok : forall p, wf_legal p = true -> ply p + 1 < 32767 ->
  exists l, gen_legal p = Ok l /\ (forall r, In r l -> mep_ok p (rm r) /\ validb (mfrom (rm r)) = true /\ validb (mto (rm r)) = true
                                                     /\ Spec.legal (abs p) (absm (rm r)) = true).
Proof.
  intros p H1 H2. destruct (gen_legal_exact make_spec p H1 H2) as (l & Hl & _ & Hin & Hok).
  exists l. split; [exact Hl|]. intros r Hr. destruct (Hok r Hr) as (A & B & C). repeat split; try assumption.
  apply Hin. apply in_map_iff. exists r. split; [reflexivity | exact Hr].
Qed.
(* whole games through the `position ... moves` path (ApplyUciMove reconstructs the ep target from the text move): any
   sequence of legal moves keeps the position well formed and counts the plies *)
Theorem C02_game : forall ms p, wf_legal p = true -> ply p + Z.of_nat (length ms) < 32767 -> moves_legal p ms ->
  exists p', apply_moves p ms = Ok (PosSet p') /\ wf_legal p' = true /\ ply p' = ply p + Z.of_nat (length ms).
Proof. exact (apply_moves_legal make_spec). Qed.

(* non-vacuity: the start position meets the hypotheses, and 1. e4 is such a move *)
Example C02_example : wf_legal startpos = true /\ ply startpos + 1 < 32767 /\
  Spec.pseudo (abs startpos) (absm {| mfrom := 20; mto := 52; mpromo := None; mep := 36 |}) = true /\
  mep_ok startpos {| mfrom := 20; mto := 52; mpromo := None; mep := 36 |}.
Proof. repeat split; vm_compute; reflexivity. Qed.

Print Assumptions C02_make_refines.
Print Assumptions C02_generated_moves_ok.
Print Assumptions C02_game.
