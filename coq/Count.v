(* engine/score.go countMoves and helpers. *)
Require Import Base Generated Position Attack Make Gen.

Fixpoint count_slide (fuel : nat) (p : pos) (c : color) (f s d : Z) : Z :=
  match fuel with O => 0 | S k =>
    let t := byte (s + d) in
    if onb t then
      match get (board p) t with
      | Empty => b2z (is_legal p (new_move f t)) + count_slide k p c f t d
      | Pc c' _ => if color_eqb c c' then 0 else b2z (is_legal p (new_move f t))
      end
    else 0 end.

Definition count_moves (p : pos) : Z :=
  let c := cur_color p in let e := opp c in let b := board p in
  let cking := cur_king p in
  let adv := adv_of p in let start_rank := start_rank_of p in let promo_rank := promo_rank_of p in
  let pawns := zsum (map (fun from =>
      let tq := byte (from + adv - 1) in
      let q := if onb tq && (is_col e (get b tq) || ((tq =? ep p) && negb (rankof from =? start_rank)))
               then count_pawn p from tq promo_rank else 0 in
      let tk := byte (from + adv + 1) in
      let k := if is_col e (get b tk) || ((tk =? ep p) && negb (rankof from =? start_rank))
               then count_pawn p from tk promo_rank else 0 in
      let t1 := byte (from + adv) in
      let pu := match get b t1 with
                | Empty => count_pawn p from t1 promo_rank +
                    (if rankof from =? start_rank then
                       let t2 := byte (t1 + adv) in
                       match get b t2 with Empty => b2z (is_legal p {| mfrom := from; mto := t2; mpromo := None; mep := t1 |}) | _ => 0 end
                     else 0)
                | _ => 0 end in
      q + k + pu) (cur_pawns p)) in
  let pieces := zsum (map (fun from =>
      match get b from with
      | Pc _ Knight => zsum (map (fun d => let t := byte (from + d) in
                         if onb t && negb (is_col c (get b t)) then b2z (is_legal p (new_move from t)) else 0) knight_dirs)
      | Pc _ Bishop => zsum (map (count_slide 7 p c from from) bishop_dirs)
      | Pc _ Rook => zsum (map (count_slide 7 p c from from) rook_dirs)
      | Pc _ Queen => zsum (map (count_slide 7 p c from from) queen_dirs)
      | _ => 0
      end) (cur_pieces p)) in
  let king := zsum (map (fun d => let t := byte (cking + d) in
      if onb t && negb (is_col c (get b t)) then b2z (is_legal p (new_move cking t)) else 0) king_dirs) in
  pawns + pieces + king + b2z (can_castle_q p) + b2z (can_castle_k p).
