(* Property C05, main statement: mate scores are found and real -- by the rules of chess (Spec.mate_score: the exact
   forced-mate verdict of the rules within n plies: Some k > 0 = the mover mates in k plies, Some (-k) = is mated in k). *)
From Coq Require Import ZArith List Bool.
Require Import Base Generated Position Make Gen Eval Search WF.
Require Spec.
Require Import Abs MateProofs.
Open Scope Z_scope.

(* found: a forced mate within the full-width depth is reported with exactly its length *)
Theorem C05_mate_found : forall d p depth n, wf_legal p = true -> ply p + Z.of_nat d + Z.of_nat qfuel < 32767 ->
  0 <= depth -> depth + Z.of_nat d <= 1000 ->
  (Spec.mate_score d (abs p) = Some n -> 0 < n -> minimax d p depth = Ok (- LostScore - depth - n)) /\
  (Spec.mate_score d (abs p) = Some (- n) -> 0 <= n -> minimax d p depth = Ok (LostScore + depth + n)).
Proof. exact mate_found. Qed.
(* real: the reference value always exists and is either inside the band with no forced mate within d by the rules, or a
   mate value whose length is the rules' forced mate (at most one ply beyond d: quiescence can see a capture that mates) *)
Theorem C05_mate_real : forall d p depth, wf_legal p = true -> ply p + Z.of_nat d + Z.of_nat qfuel < 32767 ->
  0 <= depth -> depth + Z.of_nat d <= 1000 ->
  exists v, minimax d p depth = Ok v /\
    ( (Z.abs v <= ScoreCloseToMate /\ Spec.mate_score d (abs p) = None)
      \/ (exists n, 0 < n <= Z.of_nat d + 1 /\ v = - LostScore - depth - n /\ Spec.mate_score (S d) (abs p) = Some n)
      \/ (exists n, 0 <= n <= Z.of_nat d + 1 /\ v = LostScore + depth + n /\ Spec.mate_score (S d) (abs p) = Some (- n)) ).
Proof. exact mate_real. Qed.
(* no forced mate within d+1 plies by the rules: the value is a centipawn value *)
Theorem C05_no_mate_is_cp : forall d p depth v, wf_legal p = true -> ply p + Z.of_nat d + Z.of_nat qfuel < 32767 ->
  0 <= depth -> depth + Z.of_nat d <= 1000 -> minimax d p depth = Ok v ->
  Spec.mate_score (S d) (abs p) = None -> Z.abs v <= ScoreCloseToMate.
Proof. exact no_mate_band. Qed.
(* the reference search never panics or runs out of fuel *)
Theorem C05_reference_total : forall d p depth, wf_legal p = true -> ply p + Z.of_nat d + Z.of_nat qfuel < 32767 ->
  exists v, minimax d p depth = Ok v.
Proof. exact minimax_total. Qed.
Print Assumptions C05_mate_found.
Print Assumptions C05_mate_real.
Print Assumptions C05_no_mate_is_cp.
Print Assumptions C05_reference_total.
