(* Proofs about Protocol.v (command thread / search thread hand-shake) and about Session.main_loop.
   No axioms, nothing admitted: see the Print Assumptions at the end. *)
Require Import Str.
Require Import Base Generated Position Attack Make Gen Count Eval Perft Fen Uci Search SearchImp Protocol Session.
From Coq Require Import Lia.
Open Scope nat_scope.

(* ------------------------------------------------------------------------------------------------------------------ *)
(* A. the protocol                                                                                                     *)
(* ------------------------------------------------------------------------------------------------------------------ *)

Definition alive (p : sphase) : nat := match p with SIdle => 0 | _ => 1 end.
Definition storing (c : cphase) : nat := match c with CGoStored => 1 | _ => 0 end.

(* the one inductive invariant *)
Record Inv (s : pstate) : Prop := {
  inv_count : go_count s = bestmoves s + alive (sp s) + storing (cp s);
  inv_ready : readyoks s = isreadys s;
  inv_consumed : forall k t, In (k, t) (consumed s) -> t = k;
  inv_chan : forall t, chan s = Some t -> t = go_count s;
  inv_drained : cp s = CGoDrained -> sp s = SIdle /\ chan s = None;
  inv_stored : cp s = CGoStored -> sp s = SIdle;
  inv_seen_le : forall k, stop_seen s = Some k -> k <= go_count s;
  inv_seen_lt : cp s = CGoStored -> forall k, stop_seen s = Some k -> k < go_count s;
  inv_not_lost : stop_seen s = Some (go_count s) ->
                 match sp s with SSpawned | SRunning false _ => chan s <> None | _ => True end;
  inv_fuel : forall f, sp s = SRunning true f -> f <= 100;
  inv_fuel_any : forall i f, sp s = SRunning i f -> f <= 1000;
  inv_running : running s = match sp s with
                            | SSpawned | SRunning _ _ => true
                            | SFinishing => false
                            | SIdle => match cp s with CGoStored => true | _ => false end
                            end;
  inv_loaded : forall r, cp s = CStopLoaded r -> r = true -> 1 <= go_count s
}.

Lemma Inv_init : Inv init.
Proof. constructor; cbn; intros; try discriminate; try contradiction; auto. Qed.

Ltac spec :=
  repeat match goal with
         | H : ?a = ?a -> _ |- _ => specialize (H eq_refl)
         | H : forall t, Some ?x = Some t -> _ |- _ => specialize (H _ eq_refl)
         | H : forall f, SRunning true _ = SRunning true f -> _ |- _ => specialize (H _ eq_refl)
         | H : forall i f, SRunning _ _ = SRunning i f -> _ |- _ => specialize (H _ _ eq_refl)
         | H : forall r, CStopLoaded _ = CStopLoaded r -> _ |- _ => specialize (H _ eq_refl)
         | H : forall k, ?ss = Some k -> _, E : ?ss = Some _ |- _ => specialize (H _ E)
         | H : forall k, Some ?x = Some k -> _ |- _ => specialize (H _ eq_refl)
         | H : _ /\ _ |- _ => destruct H
         | H : Some _ = Some _ |- _ => inversion H; clear H; subst
         | H : (_, _) = (_, _) |- _ => inversion H; clear H; subst
         | H : SRunning _ _ = SRunning _ _ |- _ => inversion H; clear H; subst
         | H : CStopLoaded _ = CStopLoaded _ |- _ => inversion H; clear H; subst
         | H : _ \/ _ |- _ => destruct H
         end.

Ltac fin := cbn in *; intros; spec; cbn in *;
  try discriminate; try contradiction; try congruence; try lia; auto.

Lemma Inv_step : forall s l s', Inv s -> step s l = Some s' -> Inv s'.
Proof.
  intros [r ch p c g b ro ir ss co] l s' [H1 H2 H3 H4 H5 H6 H7 H8 H9 H10 H11 H12 H13] Hs.
  cbn in *.
  destruct l; destruct c as [|r0| |]; destruct p as [| |[|] f|];
    cbn in Hs; try discriminate Hs;
    repeat match type of Hs with
           | context [match ?x with _ => _ end] => destruct x; cbn in Hs
           end; try discriminate Hs;
    inversion Hs as [Hs']; subst s'; clear Hs;
    constructor; cbn; try solve [fin].
Qed.

Lemma Inv_run : forall ls s s', Inv s -> run_labels s ls = Some s' -> Inv s'.
Proof.
  induction ls as [|l ls IH]; cbn; intros s s' Hi Hr.
  - inversion Hr; subst; exact Hi.
  - destruct (step s l) as [s1|] eqn:E; [|discriminate].
    eapply IH; [eapply Inv_step; eauto | exact Hr].
Qed.

Theorem reachable_Inv : forall s, reachable s -> Inv s.
Proof. intros s [ls H]. eapply Inv_run; [apply Inv_init | exact H]. Qed.

(* reachability is closed under steps (used to chain the theorems below along a run) *)
Lemma run_labels_app : forall l1 l2 s, run_labels s (l1 ++ l2) =
  match run_labels s l1 with Some s1 => run_labels s1 l2 | None => None end.
Proof.
  induction l1 as [|l l1 IH]; cbn; intros; [reflexivity|].
  destruct (step s l); [apply IH | reflexivity].
Qed.

Lemma reachable_step : forall s l s', reachable s -> step s l = Some s' -> reachable s'.
Proof.
  intros s l s' [ls H] Hs. exists (ls ++ [l]). rewrite run_labels_app, H. cbn. rewrite Hs. reflexivity.
Qed.

(* 1. the command thread never blocks: every step it may take is possible *)
Theorem never_blocks : forall s l, reachable s -> cmd_enabled s l = true -> exists s', step s l = Some s'.
Proof.
  intros s l Hr He. apply reachable_Inv in Hr. destruct Hr as [_ _ _ _ H5 H6 _ _ _ _ _ _ _].
  destruct s as [r ch p c g b ro ir ss co]; cbn in *.
  unfold cmd_enabled in He; unfold step; cbn in *.
  destruct l; destruct c; try discriminate He;
    try (destruct H5 as [H5 _]; [reflexivity|]); try specialize (H6 eq_refl); subst;
    try (destruct p; try discriminate He); eexists; reflexivity.
Qed.

(* 2. exactly one bestmove per go *)
Theorem one_bestmove_per_go : forall s, reachable s ->
  go_count s = (bestmoves s + (match sp s with SIdle => 0 | _ => 1 end) + (match cp s with CGoStored => 1 | _ => 0 end))%nat.
Proof. intros s Hr. apply reachable_Inv in Hr. exact (inv_count s Hr). Qed.

(* 3. isready is always answered, and changes nothing the search depends on *)
Theorem ready_answered : forall s, reachable s -> readyoks s = isreadys s.
Proof. intros s Hr. apply reachable_Inv in Hr. exact (inv_ready s Hr). Qed.

Theorem isready_transparent : forall s s', step s LIsReady = Some s' ->
  running s' = running s /\ chan s' = chan s /\ sp s' = sp s /\ cp s' = cp s /\ go_count s' = go_count s.
Proof.
  intros s s' H. unfold step in H. destruct (cp s) eqn:E; try discriminate H.
  inversion H; subst; cbn. repeat split; congruence.
Qed.

(* 4. a stop request never reaches a later search *)
Theorem no_stale_token : forall s, reachable s -> forall k t, In (k, t) (consumed s) -> t = k.
Proof. intros s Hr. apply reachable_Inv in Hr. exact (inv_consumed s Hr). Qed.

(* 5. a stop is never lost *)
Theorem stop_not_lost : forall s, reachable s -> cp s = CIdle -> stop_seen s = Some (go_count s) ->
  match sp s with
  | SSpawned | SRunning false _ => chan s <> None
  | _ => True end.
Proof. intros s Hr _ H. apply reachable_Inv in Hr. exact (inv_not_lost s Hr H). Qed.

(* the same without the side condition on the command thread: it holds in the middle of any handler too *)
Theorem stop_not_lost_any_phase : forall s, reachable s -> stop_seen s = Some (go_count s) ->
  match sp s with
  | SSpawned | SRunning false _ => chan s <> None
  | _ => True end.
Proof. intros s Hr H. apply reachable_Inv in Hr. exact (inv_not_lost s Hr H). Qed.

(* ... so the next poll of that search takes the token and marks the search interrupted *)
Theorem stop_taken_by_next_poll : forall s f, reachable s -> stop_seen s = Some (go_count s) -> sp s = SRunning false f ->
  exists s', step s LPoll = Some s' /\ sp s' = SRunning true (Nat.min f 100) /\ chan s' = None /\
             consumed s' = (go_count s, go_count s) :: consumed s.
Proof.
  intros s f Hr Hseen Hsp. pose proof (reachable_Inv s Hr) as Hi.
  pose proof (inv_not_lost s Hi Hseen) as Hn. rewrite Hsp in Hn.
  destruct (chan s) as [t|] eqn:Ec; [|congruence].
  pose proof (inv_chan s Hi t Ec) as Ht. subst t.
  unfold step. rewrite Hsp, Ec. destruct (cp s); eexists; (split; [reflexivity|]); cbn; auto.
Qed.

(* 6. promptness *)
Theorem interrupted_bounded : forall s, reachable s -> forall f, sp s = SRunning true f -> (f <= 100)%nat.
Proof. intros s Hr. apply reachable_Inv in Hr. exact (inv_fuel s Hr). Qed.

Theorem work_bounded : forall n s i f, sp s = SRunning i f -> (f < n)%nat -> run_labels s (repeat LWork n) = None.
Proof.
  induction n as [|n IH]; intros s i f Hsp Hlt; [lia|].
  cbn [repeat run_labels]. destruct (step s LWork) as [s1|] eqn:E; [|reflexivity].
  unfold step in E. rewrite Hsp in E.
  destruct f as [|f]; [destruct (cp s); discriminate E|].
  apply (IH s1 i f); [|lia].
  destruct (cp s); inversion E; subst; reflexivity.
Qed.

(* with the fuel used up the search thread can only poll or complete *)
Theorem work_exhausted : forall s i l s', sp s = SRunning i 0 -> step s l = Some s' ->
  match l with LEnter | LWork | LPrint => False | _ => True end.
Proof.
  intros s i l s' Hsp H. unfold step in H. rewrite Hsp in H.
  destruct l; auto; destruct (cp s); discriminate H.
Qed.

(* consequence: an interrupted search does at most 100 more units of work *)
Corollary interrupted_work_bounded : forall s f, reachable s -> sp s = SRunning true f ->
  run_labels s (repeat LWork 101) = None.
Proof.
  intros s f Hr Hsp. apply (work_bounded 101 s true f Hsp). pose proof (interrupted_bounded s Hr f Hsp). lia.
Qed.

(* the flag `running` as a function of the two phases *)
Theorem running_flag : forall s, reachable s ->
  running s = match sp s with
              | SSpawned | SRunning _ _ => true
              | SFinishing => false
              | SIdle => match cp s with CGoStored => true | _ => false end
              end.
Proof. intros s Hr. apply reachable_Inv in Hr. exact (inv_running s Hr). Qed.

(* ---- the pre-fix protocol: refutation witnesses ---- *)
Theorem legacy_stop_after_bestmove_blocks :
  exists s, lrun linit [GGo; GEnter; GFinish; GStop] = Some s /\ l_blocked s = true.
Proof. eexists; split; [vm_compute; reflexivity | reflexivity]. Qed.

Theorem legacy_stop_right_after_go_is_dropped :
  exists s, lrun linit [GGo; GStop; GEnter] = Some s /\ l_blocked s = false /\ l_sp s = LgRunning 10 /\ l_interrupted s = false.
Proof. eexists; split; [vm_compute; reflexivity | repeat split; reflexivity]. Qed.

Theorem legacy_isready_orphans_search :
  exists s, lrun linit [GGo; GEnter; GIsReady; GStop] = Some s /\ l_interrupted s = true /\ l_sp s = LgRunning 10.
Proof. eexists; split; [vm_compute; reflexivity | repeat split; reflexivity]. Qed.

(* ------------------------------------------------------------------------------------------------------------------ *)
(* B. the main loop                                                                                                    *)
(* ------------------------------------------------------------------------------------------------------------------ *)

Section MainLoop.
Variable run_search : Z -> nat -> sst -> result sst.

Lemma main_loop_S : forall n s input, main_loop run_search (S n) s input =
  if s_quit s then Exited s else
  match input with
  | [] => Exited s
  | (l, e) :: rest => match handle run_search s e l with
                      | Ok (s', _) => main_loop run_search n s' rest
                      | Panic w => Crashed w end
  end.
Proof. reflexivity. Qed.

Lemma handle_quit : forall s e, handle run_search s e "quit" = Ok (with_quit s, []).
Proof. intros. reflexivity. Qed.

(* with a budget of one more iteration than there are input lines the loop has ended, whatever the lines are *)
Theorem main_loop_ends : forall input s, exists r,
  main_loop run_search (S (length input)) s input = r /\ (forall s', r <> StillRunning s').
Proof.
  induction input as [|[l e] rest IH]; intros s.
  - eexists; split; [reflexivity|]. rewrite main_loop_S. destruct (s_quit s); discriminate.
  - eexists; split; [reflexivity|]. rewrite main_loop_S. destruct (s_quit s); [discriminate|].
    destruct (handle run_search s e l) as [[s1 o]|w]; [|discriminate].
    destruct (IH s1) as [r [Hr Hn]]. cbn [length]. rewrite Hr. exact Hn.
Qed.

(* more budget does not hurt *)
Theorem main_loop_ends_ge : forall input n s s', (length input < n)%nat -> main_loop run_search n s input <> StillRunning s'.
Proof.
  induction input as [|[l e] rest IH]; intros n s s' Hlt; (destruct n as [|n]; [cbn in Hlt; lia|]); rewrite main_loop_S.
  - destruct (s_quit s); discriminate.
  - destruct (s_quit s); [discriminate|].
    destruct (handle run_search s e l) as [[s1 o]|w]; [|discriminate]. apply IH. cbn in Hlt; lia.
Qed.

(* end of input ends the loop at once *)
Theorem main_loop_eof : forall n s, main_loop run_search (S n) s [] = Exited s.
Proof. intros. rewrite main_loop_S. destruct (s_quit s); reflexivity. Qed.

(* quit ends the loop at the line where it stands: nothing after it is read (the result does not depend on `rest`) *)
Theorem main_loop_quit : forall pre e rest s s1 outs n,
  s_quit s = false ->
  Session.run run_search s pre = Ok (s1, outs) -> s_quit s1 = false ->
  main_loop run_search (S (S (length pre)) + n) s (pre ++ ("quit"%string, e) :: rest) = Exited (with_quit s1).
Proof.
  induction pre as [|[l e0] pre IH]; intros e rest s s1 outs n Hq Hrun Hq1.
  - cbn in Hrun. inversion Hrun; subst. cbn [length app plus].
    rewrite main_loop_S, Hq, handle_quit, main_loop_S. reflexivity.
  - cbn [Session.run] in Hrun. cbn [length app plus]. rewrite main_loop_S, Hq.
    destruct (handle run_search s e0 l) as [[s2 o]|w]; cbn [bind fst snd] in Hrun; [|discriminate].
    destruct (s_quit s2) eqn:Hq2.
    + inversion Hrun; subst. congruence.
    + destruct (Session.run run_search s2 pre) as [[s3 o3]|w] eqn:Hr; cbn [bind fst snd] in Hrun; [|discriminate].
      inversion Hrun; subst. exact (IH e rest s2 s1 o3 n Hq2 Hr Hq1).
Qed.

(* the same stated on the loop alone: if the lines before `quit` are consumed without a crash and without setting the
   quit flag, the loop exits at `quit` *)
Fixpoint lines_no_quit (s : sess) (pre : list (string * env)) : option sess :=
  match pre with
  | [] => Some s
  | (l, e) :: rest => match handle run_search s e l with
                      | Ok (s', _) => if s_quit s' then None else lines_no_quit s' rest
                      | Panic _ => None end
  end.

Theorem main_loop_quit' : forall pre e rest s s1 n,
  s_quit s = false -> lines_no_quit s pre = Some s1 ->
  main_loop run_search (S (S (length pre)) + n) s (pre ++ ("quit"%string, e) :: rest) = Exited (with_quit s1).
Proof.
  induction pre as [|[l e0] pre IH]; intros e rest s s1 n Hq Hrun.
  - cbn in Hrun. inversion Hrun; subst. cbn [length app plus].
    rewrite main_loop_S, Hq, handle_quit, main_loop_S. reflexivity.
  - cbn [lines_no_quit] in Hrun. cbn [length app plus]. rewrite main_loop_S, Hq.
    destruct (handle run_search s e0 l) as [[s2 o]|w]; [|discriminate].
    destruct (s_quit s2) eqn:Hq2; [discriminate|].
    exact (IH e rest s2 s1 n Hq2 Hrun).
Qed.

(* a crash of a handler is the only other way out *)
Theorem main_loop_crash_or_exit : forall input s,
  (exists s', main_loop run_search (S (length input)) s input = Exited s') \/
  (exists w, main_loop run_search (S (length input)) s input = Crashed w).
Proof.
  intros input s. destruct (main_loop_ends input s) as [r [Hr Hn]].
  destruct r as [s'|s'|w]; [left; eauto | exfalso; eapply Hn; reflexivity | right; eauto].
Qed.
End MainLoop.

Print Assumptions never_blocks.
Print Assumptions one_bestmove_per_go.
Print Assumptions ready_answered.
Print Assumptions isready_transparent.
Print Assumptions no_stale_token.
Print Assumptions stop_not_lost.
Print Assumptions stop_not_lost_any_phase.
Print Assumptions stop_taken_by_next_poll.
Print Assumptions interrupted_bounded.
Print Assumptions work_bounded.
Print Assumptions work_exhausted.
Print Assumptions interrupted_work_bounded.
Print Assumptions running_flag.
Print Assumptions legacy_stop_after_bestmove_blocks.
Print Assumptions legacy_stop_right_after_go_is_dropped.
Print Assumptions legacy_isready_orphans_search.
Print Assumptions main_loop_ends.
Print Assumptions main_loop_ends_ge.
Print Assumptions main_loop_eof.
Print Assumptions main_loop_quit.
Print Assumptions main_loop_quit'.
Print Assumptions main_loop_crash_or_exit.
