(* The minimax VALUE against forced mates by the rules (Spec.mate_score), for well-formed positions.
   Reference search: Search.minimax d (full width for d plies, then mm_quiesce: captures/promotions with stand-pat).
     minimax_total                      the reference never panics: make/gen are total on well-formed positions and the
                                        quiescence fuel (64) exceeds the measure "material, pawns twice" (<= 48), which
                                        every capture / promotion decreases (tactical_decreases, rules level)
     mate_found_win / mate_found_loss   a forced mate within d plies is reported with exactly its distance
     no_mate_range                      no forced mate within d plies: the value lies strictly inside the mate-in-d values
     mate_real_win / mate_real_loss     a value beyond ScoreCloseToMate is a forced mate by the rules, of exactly the
                                        reported length n <= d + 1 (n = d + 1 only through the quiescence phase)
     mate_real                          the three-way classification of every value
     no_mate_band, band_no_mate         |v| <= ScoreCloseToMate lies between "no mate within d + 1" and "no mate within d"
   Rules-level facts about Spec.mate_score: mate_score_bound, mate_score_stable, mate_score_complete, mate_score_ext.
   No axioms, nothing admitted. *)
From Coq Require Import ZArith List Bool Lia ZifyBool Permutation.
Require Import Base Generated Position Attack Make Gen Count Eval Search WF.
Require Spec.
Require Import Abs MakeSpec ListProofs AttackProofs GenProofs CountProofs PerftProofs EvalProofs SearchProofs.
Require MakeProofs.
Import ListNotations.
Open Scope Z_scope.

(* ================= PART 1: Spec.mate_score, rules level ================= *)

Lemma some_inj {A} (x y : A) : Some x = Some y -> x = y.
Proof. intros H. injection H as H. exact H. Qed.
Lemma ok_inj {A} (x y : A) : Ok x = Ok y -> x = y.
Proof. intros H. injection H as H. exact H. Qed.
Ltac sinj H := first [discriminate H | apply some_inj in H; try subst | apply ok_inj in H; try subst].

(* a child's value seen from the parent *)
Definition tr (o : option Z) : option Z :=
  match o with Some v => if v <=? 0 then Some (1 - v) else Some (- (v + 1)) | None => None end.
Definition fpos (acc v : option Z) : option Z :=
  match v with
  | Some x => if 0 <? x then (match acc with Some y => Some (Z.min x y) | None => Some x end) else acc
  | None => acc end.
Definition fall (acc v : option Z) : option Z :=
  match v, acc with Some x, Some y => Some (Z.min x y) | Some x, None => Some x | None, _ => acc end.
Definition is_pos (v : option Z) : bool := match v with Some x => 0 <? x | None => false end.
Definition is_some (v : option Z) : bool := match v with Some _ => true | None => false end.

Lemma mate_score_0 a : Spec.mate_score 0 a =
  match Spec.legal_moves a with
  | [] => if Spec.in_check (Spec.brd a) (Spec.turn a) then Some 0 else None
  | _ => None end.
Proof. reflexivity. Qed.

Lemma mate_score_S k a : Spec.mate_score (S k) a =
  match Spec.legal_moves a with
  | [] => if Spec.in_check (Spec.brd a) (Spec.turn a) then Some 0 else None
  | _ => let vals := map (fun m => tr (Spec.mate_score k (Spec.apply a m))) (Spec.legal_moves a) in
         if existsb is_pos vals then fold_left fpos vals None
         else if forallb is_some vals then fold_left fall vals None else None
  end.
Proof. reflexivity. Qed.

Lemma mate_score_nil n a : Spec.legal_moves a = [] ->
  Spec.mate_score n a = if Spec.in_check (Spec.brd a) (Spec.turn a) then Some 0 else None.
Proof. intros H. destruct n; [rewrite mate_score_0|rewrite mate_score_S]; rewrite H; reflexivity. Qed.

Lemma tr_pos o x : tr o = Some x -> 0 < x -> exists v, o = Some v /\ v <= 0 /\ x = 1 - v.
Proof.
  unfold tr. destruct o as [v|]; [|discriminate]. destruct (v <=? 0) eqn:E; intros H Hx; sinj H; subst.
  - exists v. split; [reflexivity|lia].
  - lia.
Qed.
Lemma tr_nonpos o x : tr o = Some x -> x <= 0 -> exists v, o = Some v /\ 0 < v /\ x = - (v + 1).
Proof.
  unfold tr. destruct o as [v|]; [|discriminate]. destruct (v <=? 0) eqn:E; intros H Hx; sinj H; subst.
  - lia.
  - exists v. split; [reflexivity|lia].
Qed.
Lemma tr_none o : tr o = None -> o = None.
Proof. unfold tr. destruct o as [v|]; [|reflexivity]. destruct (v <=? 0); discriminate. Qed.

Lemma fpos_spec vals : forall acc, (forall y, acc = Some y -> 0 < y) ->
  match fold_left fpos vals acc with
  | Some z => 0 < z /\ (acc = Some z \/ In (Some z) vals) /\ (forall y, acc = Some y -> z <= y)
              /\ (forall x, In (Some x) vals -> 0 < x -> z <= x)
  | None => acc = None /\ forall x, In (Some x) vals -> x <= 0
  end.
Proof.
  induction vals as [|v vals IH]; intros acc Hacc; cbn [fold_left].
  - destruct acc as [y|].
    + split; [apply Hacc; reflexivity|]. split; [left; reflexivity|]. split.
      * intros y' E. sinj E. lia.
      * intros x [].
    + split; [reflexivity|]. intros x [].
  - assert (Hacc' : forall y, fpos acc v = Some y -> 0 < y).
    { intros y. unfold fpos. destruct v as [x|]; [|apply Hacc]. destruct (0 <? x) eqn:E; [|apply Hacc].
      destruct acc as [y0|]; intros H; sinj H; subst; [|lia]. specialize (Hacc y0 eq_refl). lia. }
    specialize (IH (fpos acc v) Hacc').
    destruct (fold_left fpos vals (fpos acc v)) as [z|].
    + destruct IH as [Hz [Hin [Hle Hmin]]]. split; [exact Hz|].
      unfold fpos in Hin, Hle. destruct v as [x|].
      * destruct (0 <? x) eqn:E.
        -- destruct acc as [y0|].
           ++ split; [|split].
              ** destruct Hin as [Hin|Hin]; [|right; right; exact Hin].
                 sinj Hin. destruct (Z.min_spec x y0) as [[_ M]|[_ M]]; rewrite M.
                 --- right. left. reflexivity.
                 --- left. reflexivity.
              ** intros y E'. sinj E'; subst. specialize (Hle _ eq_refl). lia.
              ** intros x' [E'|Hx'] Hp; [|apply Hmin; assumption]. sinj E'; subst. specialize (Hle _ eq_refl). lia.
           ++ split; [|split].
              ** destruct Hin as [Hin|Hin]; [|right; right; exact Hin]. sinj Hin. right. left. reflexivity.
              ** intros y E'. discriminate.
              ** intros x' [E'|Hx'] Hp; [|apply Hmin; assumption]. sinj E'; subst. specialize (Hle _ eq_refl). lia.
        -- split; [|split].
           ++ destruct Hin as [Hin|Hin]; [left; exact Hin|right; right; exact Hin].
           ++ exact Hle.
           ++ intros x' [E'|Hx'] Hp; [|apply Hmin; assumption]. sinj E'; subst. lia.
      * split; [|split].
        -- destruct Hin as [Hin|Hin]; [left; exact Hin|right; right; exact Hin].
        -- exact Hle.
        -- intros x' [E'|Hx'] Hp; [discriminate|apply Hmin; assumption].
    + destruct IH as [Hn Hall]. unfold fpos in Hn. destruct v as [x|].
      * destruct (0 <? x) eqn:E.
        -- destruct acc; discriminate.
        -- split; [exact Hn|]. intros x' [E'|Hx']; [sinj E'; subst; lia|apply Hall; exact Hx'].
      * split; [exact Hn|]. intros x' [E'|Hx']; [discriminate|apply Hall; exact Hx'].
Qed.

Lemma fall_spec vals : forall acc,
  match fold_left fall vals acc with
  | Some z => (acc = Some z \/ In (Some z) vals) /\ (forall y, acc = Some y -> z <= y) /\ (forall x, In (Some x) vals -> z <= x)
  | None => acc = None /\ forall x, ~ In (Some x) vals
  end.
Proof.
  induction vals as [|v vals IH]; intros acc; cbn [fold_left].
  - destruct acc as [y|].
    + split; [left; reflexivity|]. split; [intros y' E; sinj E; lia|intros x []].
    + split; [reflexivity|intros x []].
  - specialize (IH (fall acc v)). destruct (fold_left fall vals (fall acc v)) as [z|].
    + destruct IH as [Hin [Hle Hmin]]. unfold fall in Hin, Hle. destruct v as [x|].
      * destruct acc as [y0|].
        -- split; [|split].
           ++ destruct Hin as [Hin|Hin]; [|right; right; exact Hin].
              sinj Hin. destruct (Z.min_spec x y0) as [[_ M]|[_ M]]; rewrite M.
              ** right. left. reflexivity.
              ** left. reflexivity.
           ++ intros y E'. sinj E'; subst. specialize (Hle _ eq_refl). lia.
           ++ intros x' [E'|Hx']; [|apply Hmin; assumption]. sinj E'; subst. specialize (Hle _ eq_refl). lia.
        -- split; [|split].
           ++ destruct Hin as [Hin|Hin]; [|right; right; exact Hin]. sinj Hin. right. left. reflexivity.
           ++ intros y E'. discriminate.
           ++ intros x' [E'|Hx']; [|apply Hmin; assumption]. sinj E'; subst. specialize (Hle _ eq_refl). lia.
      * split; [|split].
        -- destruct Hin as [Hin|Hin]; [left; exact Hin|right; right; exact Hin].
        -- exact Hle.
        -- intros x' [E'|Hx']; [discriminate|apply Hmin; assumption].
    + destruct IH as [Hn Hall]. unfold fall in Hn. destruct v as [x|].
      * destruct acc; discriminate.
      * split; [exact Hn|]. intros x' [E'|Hx']; [discriminate|exact (Hall x' Hx')].
Qed.

(* the three outcomes of one level of the AND/OR search, in terms of the children *)
Lemma ms_cases k a : Spec.legal_moves a <> [] ->
  let c := fun m => Spec.mate_score k (Spec.apply a m) in
  let ms := Spec.legal_moves a in
  (exists n, 0 < n /\ Spec.mate_score (S k) a = Some n /\ (exists m, In m ms /\ c m = Some (1 - n))
             /\ (forall m v, In m ms -> c m = Some v -> v <= 0 -> n <= 1 - v))
  \/ (exists n, 0 < n /\ Spec.mate_score (S k) a = Some (- n) /\ (exists m, In m ms /\ c m = Some (n - 1))
             /\ (forall m, In m ms -> exists v, c m = Some v /\ 0 < v <= n - 1))
  \/ (Spec.mate_score (S k) a = None /\ (forall m v, In m ms -> c m = Some v -> 0 < v) /\ (exists m, In m ms /\ c m = None)).
Proof.
  intros Hne c ms. rewrite mate_score_S. fold ms. fold c.
  destruct ms as [|m0 ms'] eqn:Ems; [contradiction|]. rewrite <- Ems. cbv zeta.
  set (vals := map (fun m => tr (c m)) ms).
  change (map (fun m => tr (Spec.mate_score k (Spec.apply a m))) ms) with vals.
  assert (Hv : forall m, In m ms -> In (tr (c m)) vals) by (intros m Hm; unfold vals; apply in_map_iff; exists m; auto).
  assert (Hv' : forall o, In o vals -> exists m, In m ms /\ tr (c m) = o).
  { intros o Ho. unfold vals in Ho. apply in_map_iff in Ho as [m [E Hm]]. exists m. auto. }
  destruct (existsb is_pos vals) eqn:Eex.
  - left. pose proof (fpos_spec vals None) as F.
    destruct (fold_left fpos vals None) as [z|].
    + destruct F as [Hz [Hin [_ Hmin]]]; [intros y E; discriminate|]. destruct Hin as [Hin|Hin]; [discriminate|].
      exists z. split; [exact Hz|]. split; [reflexivity|]. split.
      * apply Hv' in Hin as [m [Hm E]]. apply tr_pos in E as [v [E1 [E2 E3]]]; [|exact Hz].
        exists m. split; [exact Hm|]. rewrite E1. f_equal. lia.
      * intros m v Hm E Hle. apply Hmin; [|lia]. specialize (Hv m Hm). rewrite E in Hv. unfold tr in Hv.
        destruct (v <=? 0) eqn:E'; [exact Hv|lia].
    + exfalso. destruct F as [_ F]; [intros y E; discriminate|].
      apply existsb_exists in Eex as [o [Ho Hp]]. destruct o as [x|]; [|discriminate]. cbn [is_pos] in Hp.
      specialize (F x Ho). lia.
  - right. assert (Hnp : forall x, In (Some x) vals -> x <= 0).
    { intros x Hx. destruct (0 <? x) eqn:E; [|lia]. exfalso.
      assert (existsb is_pos vals = true) by (apply existsb_exists; exists (Some x); split; [exact Hx|exact E]). congruence. }
    destruct (forallb is_some vals) eqn:Eall.
    + left. rewrite forallb_forall in Eall. pose proof (fall_spec vals None) as F.
      destruct (fold_left fall vals None) as [z|].
      * destruct F as [Hin [_ Hmin]]. destruct Hin as [Hin|Hin]; [discriminate|].
        pose proof (Hnp z Hin) as Hz. pose proof Hin as Hin'.
        apply Hv' in Hin' as [m [Hm E]]. apply tr_nonpos in E as [v [E1 [E2 E3]]]; [|exact Hz].
        exists (- z). split; [lia|]. split; [f_equal; lia|]. split.
        -- exists m. split; [exact Hm|]. rewrite E1. f_equal. lia.
        -- intros m' Hm'. pose proof (Hv m' Hm') as Hi. specialize (Eall _ Hi).
           destruct (tr (c m')) as [x|] eqn:Ex; [|discriminate]. pose proof (Hnp x Hi) as Hx.
           pose proof (Hmin x Hi). apply tr_nonpos in Ex as [v' [F1 [F2 F3]]]; [|exact Hx].
           exists v'. split; [exact F1|lia].
      * exfalso. destruct F as [_ F]. assert (Hm0 : In m0 ms) by (rewrite Ems; left; reflexivity).
        pose proof (Hv m0 Hm0) as Hi. specialize (Eall _ Hi). destruct (tr (c m0)) as [x|]; [|discriminate].
        exact (F x Hi).
    + right. split; [reflexivity|]. split.
      * intros m v Hm E. specialize (Hv m Hm). rewrite E in Hv. unfold tr in Hv.
        destruct (v <=? 0) eqn:E'; [|lia]. apply Hnp in Hv. lia.
      * assert (exists o, In o vals /\ is_some o = false) as [o [Ho Hs]].
        { clear - Eall. induction vals as [|o vals IH]; [discriminate|]. cbn [forallb] in Eall.
          destruct (is_some o) eqn:E.
          - destruct (IH Eall) as [o' [H1 H2]]. exists o'. split; [right; exact H1|exact H2].
          - exists o. split; [left; reflexivity|exact E]. }
        destruct o; [discriminate|]. apply Hv' in Ho as [m [Hm E]]. apply tr_none in E. exists m. auto.
Qed.

(* a reported distance never exceeds the search depth *)
Lemma mate_score_bound : forall n a k, Spec.mate_score n a = Some k -> - Z.of_nat n <= k <= Z.of_nat n.
Proof.
  induction n as [|n IH]; intros a k H.
  - rewrite mate_score_0 in H. destruct (Spec.legal_moves a); [|discriminate].
    destruct (Spec.in_check _ _); sinj H. lia.
  - destruct (Spec.legal_moves a) as [|m0 l] eqn:E.
    + rewrite (mate_score_nil _ _ E) in H. destruct (Spec.in_check _ _); sinj H. lia.
    + assert (Hne : Spec.legal_moves a <> []) by (rewrite E; discriminate).
      destruct (ms_cases n a Hne) as [[x [Hx [Hs [[m [Hm Hc]] _]]]]|[[x [Hx [Hs [[m [Hm Hc]] _]]]]|[Hs _]]];
        rewrite Hs in H; sinj H; subst; try (apply IH in Hc; lia).
Qed.

(* deeper searches do not change a verdict; a verdict of distance <= n is already found at depth n *)
Lemma mate_score_step : forall n a,
  (forall k, Spec.mate_score n a = Some k -> Spec.mate_score (S n) a = Some k) /\
  (forall k, Spec.mate_score (S n) a = Some k -> - Z.of_nat n <= k <= Z.of_nat n -> Spec.mate_score n a = Some k).
Proof.
  induction n as [|n IH]; intros a.
  - destruct (Spec.legal_moves a) as [|m0 l] eqn:E.
    + rewrite !(mate_score_nil _ _ E). auto.
    + assert (Hne : Spec.legal_moves a <> []) by (rewrite E; discriminate).
      rewrite mate_score_0, E. split; [discriminate|]. intros k H Hk. exfalso.
      destruct (ms_cases 0 a Hne) as [[x [Hx [Hs _]]]|[[x [Hx [Hs _]]]|[Hs _]]]; rewrite Hs in H; sinj H; lia.
  - destruct (Spec.legal_moves a) as [|m0 l] eqn:E.
    + rewrite !(mate_score_nil _ _ E). auto.
    + assert (Hne : Spec.legal_moves a <> []) by (rewrite E; discriminate).
      assert (Stab : forall m v, Spec.mate_score n (Spec.apply a m) = Some v -> Spec.mate_score (S n) (Spec.apply a m) = Some v)
        by (intros m v; apply (proj1 (IH (Spec.apply a m)))).
      assert (Comp : forall m v, Spec.mate_score (S n) (Spec.apply a m) = Some v ->
                       Spec.mate_score n (Spec.apply a m) = Some v \/ (v = Z.of_nat n + 1 \/ v = - (Z.of_nat n + 1))).
      { intros m v H. pose proof (mate_score_bound _ _ _ H) as B.
        destruct (Z_le_dec (- Z.of_nat n) v) as [L1|L1]; [|right; lia].
        destruct (Z_le_dec v (Z.of_nat n)) as [L2|L2]; [|right; lia].
        left. apply (proj2 (IH (Spec.apply a m))); [exact H|lia]. }
      pose proof (ms_cases n a Hne) as A. pose proof (ms_cases (S n) a Hne) as B. cbv zeta in A, B.
      split.
      * intros k H.
        destruct A as [[x [Hx [Hs [[m [Hm Hc]] Hmin]]]]|[[x [Hx [Hs [[m [Hm Hc]] Hall]]]]|[Hs _]]];
          rewrite Hs in H; sinj H.
        -- pose proof (mate_score_bound _ _ _ Hs) as Bx. pose proof (Stab _ _ Hc) as Hc'.
           destruct B as [[y [Hy [Ht [[m' [Hm' Hc2]] Hmin']]]]|[[y [Hy [Ht [_ Hall']]]]|[Ht [Hall' _]]]].
           ++ rewrite Ht. f_equal. pose proof (Hmin' _ _ Hm Hc' ltac:(lia)).
              destruct (Comp _ _ Hc2) as [C|C]; [|lia]. pose proof (Hmin _ _ Hm' C ltac:(lia)). lia.
           ++ exfalso. destruct (Hall' _ Hm) as [v [E1 E2]]. rewrite Hc' in E1. sinj E1. lia.
           ++ exfalso. pose proof (Hall' _ _ Hm Hc'). lia.
        -- assert (Hall2 : forall m, In m (Spec.legal_moves a) -> exists v, Spec.mate_score (S n) (Spec.apply a m) = Some v /\ 0 < v <= x - 1).
           { intros m1 Hm1. destruct (Hall _ Hm1) as [v [E1 E2]]. exists v. split; [apply Stab; exact E1|exact E2]. }
           pose proof (Stab _ _ Hc) as Hc'.
           destruct B as [[y [Hy [Ht [[m' [Hm' Hc2]] _]]]]|[[y [Hy [Ht [[m' [Hm' Hc2]] Hall']]]]|[Ht [_ [m' [Hm' Hc2]]]]]].
           ++ exfalso. destruct (Hall2 _ Hm') as [v [E1 E2]]. rewrite Hc2 in E1. sinj E1. lia.
           ++ rewrite Ht. f_equal. destruct (Hall2 _ Hm') as [v [E1 E2]]. rewrite Hc2 in E1. sinj E1.
              destruct (Hall' _ Hm) as [v' [F1 F2]]. rewrite Hc' in F1. sinj F1. lia.
           ++ exfalso. destruct (Hall2 _ Hm') as [v [E1 E2]]. rewrite Hc2 in E1. discriminate.
      * intros k H Hk.
        destruct B as [[y [Hy [Ht [[m' [Hm' Hc2]] Hmin']]]]|[[y [Hy [Ht [[m' [Hm' Hc2]] Hall']]]]|[Ht _]]];
          rewrite Ht in H; sinj H.
        -- assert (C : Spec.mate_score n (Spec.apply a m') = Some (1 - k)) by (destruct (Comp _ _ Hc2) as [C|C]; [exact C|lia]).
           destruct A as [[x [Hx [Hs [[m [Hm Hc]] Hmin]]]]|[[x [Hx [Hs [_ Hall]]]]|[Hs [Hall _]]]].
           ++ rewrite Hs. f_equal. pose proof (Hmin _ _ Hm' C ltac:(lia)).
              pose proof (Hmin' _ _ Hm (Stab _ _ Hc) ltac:(lia)). lia.
           ++ exfalso. destruct (Hall _ Hm') as [v [E1 E2]]. rewrite C in E1. sinj E1. lia.
           ++ exfalso. pose proof (Hall _ _ Hm' C). lia.
        -- assert (Hall2 : forall m, In m (Spec.legal_moves a) -> exists v, Spec.mate_score n (Spec.apply a m) = Some v /\ 0 < v <= y - 1
                              /\ Spec.mate_score (S n) (Spec.apply a m) = Some v).
           { intros m1 Hm1. destruct (Hall' _ Hm1) as [v [E1 E2]]. exists v. split; [|split; [exact E2|exact E1]].
             destruct (Comp _ _ E1) as [C|C]; [exact C|lia]. }
           destruct A as [[x [Hx [Hs [[m [Hm Hc]] _]]]]|[[x [Hx [Hs [[m [Hm Hc]] Hall]]]]|[Hs [_ [m [Hm Hc]]]]]].
           ++ exfalso. destruct (Hall2 _ Hm) as [v [E1 [E2 _]]]. rewrite Hc in E1. sinj E1. lia.
           ++ rewrite Hs. f_equal. destruct (Hall2 _ Hm) as [v [E1 [E2 _]]]. rewrite Hc in E1. sinj E1.
              destruct (Hall2 _ Hm') as [v' [F1 [F2 F3]]]. rewrite Hc2 in F3. sinj F3.
              destruct (Hall _ Hm') as [v'' [G1 G2]]. rewrite F1 in G1. sinj G1. lia.
           ++ exfalso. destruct (Hall2 _ Hm) as [v [E1 _]]. rewrite Hc in E1. discriminate.
Qed.

Theorem mate_score_stable : forall n a k, Spec.mate_score n a = Some k -> Spec.mate_score (S n) a = Some k.
Proof. intros n a. exact (proj1 (mate_score_step n a)). Qed.
Theorem mate_score_complete : forall n a k, Spec.mate_score (S n) a = Some k -> - Z.of_nat n <= k <= Z.of_nat n ->
  Spec.mate_score n a = Some k.
Proof. intros n a. exact (proj2 (mate_score_step n a)). Qed.

(* the mate search respects extensional equality of positions *)
Lemma mate_score_ext : forall n a a', pos_equiv a a' -> Spec.mate_score n a = Spec.mate_score n a'.
Proof.
  induction n as [|n IH]; intros a a' E.
  - rewrite !mate_score_0, (legal_moves_ext _ _ E), (in_check_ext _ _ (proj1 E)), (pe_turn _ _ E). reflexivity.
  - rewrite !mate_score_S, (legal_moves_ext _ _ E), (in_check_ext _ _ (proj1 E)), (pe_turn _ _ E).
    assert (M : map (fun m => tr (Spec.mate_score n (Spec.apply a m))) (Spec.legal_moves a')
              = map (fun m => tr (Spec.mate_score n (Spec.apply a' m))) (Spec.legal_moves a')).
    { apply map_ext. intros m. rewrite (IH _ _ (apply_ext _ _ E m)). reflexivity. }
    cbv zeta. rewrite M. reflexivity.
Qed.

(* ================= PART 2: one node of the model against the rules ================= *)

Lemma legal_of_gen p r : wf_legal p = true -> ply p + 1 < 32767 -> In r (gen_legal_pure p) ->
  In (absm (rm r)) (Spec.legal_moves (abs p)).
Proof.
  intros Hl Hp Hin. apply (Permutation_in _ (gen_perm make_spec p Hl Hp)).
  apply in_map_iff. exists r. auto.
Qed.

Lemma gen_of_legal p sm : wf_legal p = true -> ply p + 1 < 32767 -> In sm (Spec.legal_moves (abs p)) ->
  exists r, In r (gen_legal_pure p) /\ absm (rm r) = sm.
Proof.
  intros Hl Hp Hin. apply (Permutation_in _ (Permutation_sym (gen_perm make_spec p Hl Hp))) in Hin.
  apply in_map_iff in Hin as [r [E Hr]]. exists r. auto.
Qed.

Lemma gen_nil_iff p : wf_legal p = true -> ply p + 1 < 32767 ->
  (gen_legal_pure p = [] <-> Spec.legal_moves (abs p) = []).
Proof.
  intros Hl Hp. pose proof (gen_perm make_spec p Hl Hp) as P. split; intros H.
  - rewrite H in P. cbn [map] in P. apply Permutation_nil in P. exact P.
  - rewrite H in P. apply Permutation_sym, Permutation_nil in P. apply map_eq_nil in P. exact P.
Qed.

Lemma child_link p r p' : wf_legal p = true -> ply p + 1 < 32767 -> In r (gen_legal_pure p) -> make_legal p (rm r) = Ok p' ->
  wf_legal p' = true /\ ply p' = ply p + 1 /\
  forall n, Spec.mate_score n (abs p') = Spec.mate_score n (Spec.apply (abs p) (absm (rm r))).
Proof.
  intros Hl Hp Hin E. destruct (make_legal_generated make_spec p r Hl Hp Hin) as [q [E1 [W [Pl Q]]]].
  rewrite E in E1. injection E1 as E1. subst q. split; [exact W|]. split; [exact Pl|].
  intros n. apply mate_score_ext. exact Q.
Qed.

Lemma child_exists p r : wf_legal p = true -> ply p + 1 < 32767 -> In r (gen_legal_pure p) ->
  exists p', make_legal p (rm r) = Ok p'.
Proof. intros Hl Hp Hin. destruct (make_legal_generated make_spec p r Hl Hp Hin) as [q [E1 _]]. exists q. exact E1. Qed.

Lemma in_check_abs p : wf_legal p = true -> in_check p = Spec.in_check (Spec.brd (abs p)) (Spec.turn (abs p)).
Proof. intros Hl. exact (in_check_is_spec p (wf_of_legal p Hl)). Qed.

Lemma checkmate_eq p : wf_legal p = true -> ply p + 1 < 32767 ->
  is_checkmate p = in_check p && match gen_legal_pure p with [] => true | _ => false end.
Proof.
  intros Hl Hp. unfold is_checkmate.
  rewrite (count_moves_exact make_spec p _ Hl Hp (gen_guards_ok make_spec p Hl Hp)).
  destruct (gen_legal_pure p) as [|r l]; [reflexivity|]. f_equal; try (cbn [length]; lia).
Qed.

(* checkmate in the model = mated in 0 by the rules *)
Lemma checkmate_spec p n : wf_legal p = true -> ply p + 1 < 32767 -> is_checkmate p = true -> Spec.mate_score n (abs p) = Some 0.
Proof.
  intros Hl Hp H. rewrite (checkmate_eq p Hl Hp) in H. apply andb_prop in H as [H1 H2].
  destruct (gen_legal_pure p) eqn:E; [|discriminate]. apply (gen_nil_iff p Hl Hp) in E.
  rewrite (mate_score_nil _ _ E), <- (in_check_abs p Hl), H1. reflexivity.
Qed.

(* the max-fold over the children: lower bound, attainment, upper bound *)
Lemma rfold_char p ref l : forall x v, rfold p ref l (Ok x) = Ok v ->
  x <= v
  /\ (v = x \/ exists m p' w, In m l /\ make_legal p (rm m) = Ok p' /\ ref p' = Ok w /\ v = - w)
  /\ (forall m, In m l -> exists p' w, make_legal p (rm m) = Ok p' /\ ref p' = Ok w /\ - w <= v).
Proof.
  induction l as [|m l IH]; intros x v H.
  - cbn in H. sinj H. split; [lia|]. split; [left; reflexivity|intros m []].
  - pose proof (rfold_ge _ _ _ _ _ H) as G.
    apply rfold_cons in H as (p' & w & E1 & E2 & H). pose proof (rfold_ge _ _ _ _ _ H) as G'.
    destruct (IH _ _ H) as [_ [A B]]. split; [exact G|]. split.
    + destruct A as [A|(m' & q & w' & Hm & F1 & F2 & F3)].
      * destruct (Z.max_spec x (- w)) as [[_ M]|[_ M]]; rewrite M in A.
        -- right. exists m, p', w. split; [left; reflexivity|auto].
        -- left. exact A.
      * right. exists m', q, w'. split; [right; exact Hm|auto].
    + intros m' [Hm|Hm].
      * subst m'. exists p', w. split; [exact E1|]. split; [exact E2|lia].
      * apply B. exact Hm.
Qed.

(* a full-width node *)
Lemma minimax_S_char k p depth v : wf_legal p = true -> ply p + 1 < 32767 -> minimax (S k) p depth = Ok v ->
  (gen_legal_pure p = [] /\ v = terminal_score p depth) \/
  (gen_legal_pure p <> []
   /\ (exists r p' w, In r (gen_legal_pure p) /\ make_legal p (rm r) = Ok p' /\ minimax k p' (depth + 1) = Ok w /\ v = - w)
   /\ (forall r, In r (gen_legal_pure p) -> exists p' w, make_legal p (rm r) = Ok p' /\ minimax k p' (depth + 1) = Ok w /\ - w <= v)).
Proof.
  intros Hl Hp H. rewrite minimax_eq, (gen_guards_ok make_spec p Hl Hp) in H. cbn [bind] in H.
  destruct (gen_legal_pure p) as [|m0 l].
  - left. sinj H. auto.
  - right. split; [discriminate|].
    apply SearchProofs.bind_ok in H as [p0 [E0 H]]. apply SearchProofs.bind_ok in H as [v0 [F0 H]].
    destruct (rfold_char _ _ _ _ _ H) as [G [A B]]. split.
    + destruct A as [A|(m' & q & w' & Hm & F1 & F2 & F3)].
      * exists m0, p0, v0. split; [left; reflexivity|auto].
      * exists m', q, w'. split; [right; exact Hm|auto].
    + intros r [Hr|Hr].
      * subst r. exists p0, v0. auto.
      * apply B. exact Hr.
Qed.

(* a quiescence node: the value is the mated score exactly at a checkmate; otherwise it is above the lower band edge, and
   above the upper one only as "mate next ply", by a generated move into a checkmate *)
Lemma q_range : forall f p depth v, wf_legal p = true -> ply p + Z.of_nat f < 32767 -> mm_quiesce f p depth = Ok v ->
  (is_checkmate p = true /\ v = LostScore + depth) \/
  (is_checkmate p = false /\ - ScoreCloseToMate < v /\
     (v < ScoreCloseToMate \/
      (v = - LostScore - depth - 1 /\
       exists r p', In r (gen_legal_pure p) /\ make_legal p (rm r) = Ok p' /\ is_checkmate p' = true))).
Proof.
  induction f as [|f IH]; intros p depth v Hl Hp H; [discriminate|].
  assert (Hp1 : ply p + 1 < 32767) by lia.
  rewrite mm_quiesce_eq, (gen_tactical_guards_ok make_spec p Hl Hp1) in H. cbn [bind] in H.
  rewrite gen_tactical_pure_filter in H.
  destruct (rfold_char _ _ _ _ _ H) as [G [A B]].
  destruct (is_checkmate p) eqn:Ecm.
  - left. split; [reflexivity|].
    pose proof Ecm as Ecm'. rewrite (checkmate_eq p Hl Hp1) in Ecm'. apply andb_prop in Ecm' as [_ E2].
    destruct (gen_legal_pure p); [|discriminate]. cbn in H. sinj H.
    unfold evaluate, lazy_eval. rewrite Ecm. reflexivity.
  - right. split; [reflexivity|].
    pose proof (evaluate_band p depth (wf_of_legal p Hl) Ecm) as Bd. split; [lia|].
    destruct A as [A|(m & p' & w & Hm & F1 & F2 & F3)]; [left; lia|].
    apply filter_In in Hm as [Hm _].
    destruct (child_link p m p' Hl Hp1 Hm F1) as [W [Pl _]].
    destruct (IH p' (depth + 1) w W ltac:(lia) F2) as [[C1 C2]|[C1 [C2 _]]].
    + right. split; [lia|]. exists m, p'. auto.
    + left. lia.
Qed.

(* ================= PART 3: forced mates within the full-width depth are found exactly ================= *)

(* the value against the verdict of the rules at the same depth *)
Definition I_ok (d : nat) (a : Spec.position) (depth v : Z) : Prop :=
  match Spec.mate_score d a with
  | Some n => if 0 <? n then v = - LostScore - depth - n else v = LostScore + depth - n
  | None => LostScore + depth + Z.of_nat d + 1 <= v <= - LostScore - depth - Z.of_nat d - 1
  end.

Lemma qfuel_val : Z.of_nat qfuel = 64.
Proof. reflexivity. Qed.

Ltac zl := repeat match goal with H : forall _, _ |- _ => clear H end; lia.
Ltac iok X E := unfold I_ok in X; rewrite E in X;
  try (match type of X with context [0 <? ?u] => destruct (0 <? u) eqn:? end).

Lemma mate_I : forall d p depth v, wf_legal p = true -> ply p + Z.of_nat d + Z.of_nat qfuel < 32767 ->
  0 <= depth -> depth + Z.of_nat d <= 1000 -> minimax d p depth = Ok v -> I_ok d (abs p) depth v.
Proof.
  induction d as [|k IH]; intros p depth v Hl Hp Hd0 Hd1 H; pose proof qfuel_val as QF.
  - assert (Hp1 : ply p + 1 < 32767) by lia.
    change (minimax 0 p depth) with (mm_quiesce qfuel p depth) in H.
    destruct (q_range qfuel p depth v Hl ltac:(lia) H) as [[C1 C2]|[C1 [C2 C3]]].
    + unfold I_ok. rewrite (checkmate_spec p 0 Hl Hp1 C1). change (0 <? 0) with false. cbv iota. lia.
    + assert (E : Spec.mate_score 0 (abs p) = None).
      { rewrite mate_score_0. destruct (Spec.legal_moves (abs p)) eqn:En; [|reflexivity].
        apply (gen_nil_iff p Hl Hp1) in En. rewrite (checkmate_eq p Hl Hp1), En, andb_true_r in C1.
        rewrite <- (in_check_abs p Hl), C1. reflexivity. }
      unfold I_ok. rewrite E. unfold LostScore, ScoreCloseToMate in *. lia.
  - assert (Hp1 : ply p + 1 < 32767) by lia.
    destruct (minimax_S_char k p depth v Hl Hp1 H) as [[En Ev]|[Hne [Hatt Hub]]].
    + apply (gen_nil_iff p Hl Hp1) in En. unfold I_ok. rewrite (mate_score_nil _ _ En), <- (in_check_abs p Hl).
      subst v. unfold terminal_score. destruct (in_check p).
      * change (0 <? 0) with false. cbv iota. lia.
      * unfold LostScore, DrawScore. lia.
    + assert (Hne' : Spec.legal_moves (abs p) <> []) by (intros E; apply Hne; apply (gen_nil_iff p Hl Hp1); exact E).
      assert (CH : forall r p' w, In r (gen_legal_pure p) -> make_legal p (rm r) = Ok p' -> minimax k p' (depth + 1) = Ok w ->
                  In (absm (rm r)) (Spec.legal_moves (abs p)) /\ I_ok k (Spec.apply (abs p) (absm (rm r))) (depth + 1) w).
      { intros r p' w Hr E1 E2. destruct (child_link p r p' Hl Hp1 Hr E1) as [W [Pl Q]].
        split; [apply legal_of_gen; assumption|].
        pose proof (IH p' (depth + 1) w W ltac:(lia) ltac:(lia) ltac:(lia) E2) as I. unfold I_ok in *. rewrite <- Q. exact I. }
      destruct Hatt as (ra & pa & wa & Hra & Ea1 & Ea2 & Eva).
      destruct (CH _ _ _ Hra Ea1 Ea2) as [Hma Ia].
      pose proof (ms_cases k (abs p) Hne') as MC. cbv beta zeta in MC.
      destruct MC as [[n [Hn [Hs [[m0 [Hm0 Hc0]] Hmin]]]]|[[n [Hn [Hs [[m0 [Hm0 Hc0]] Hall]]]]|[Hs [Hall [m0 [Hm0 Hc0]]]]]].
      * (* the mover mates in n *)
        pose proof (mate_score_bound _ _ _ Hc0) as B0.
        destruct (gen_of_legal p m0 Hl Hp1 Hm0) as [r0 [Hr0 Er0]].
        destruct (Hub r0 Hr0) as (p0 & w0 & E01 & E02 & L0). destruct (CH _ _ _ Hr0 E01 E02) as [_ I0].
        rewrite Er0 in I0. unfold I_ok in I0. rewrite Hc0 in I0. destruct (0 <? 1 - n) eqn:?; [zl|].
        unfold I_ok. rewrite Hs. destruct (0 <? n) eqn:?; [|zl].
        destruct (Spec.mate_score k (Spec.apply (abs p) (absm (rm ra)))) as [u|] eqn:Eu.
        -- pose proof (mate_score_bound _ _ _ Eu) as Bu. iok Ia Eu.
           ++ unfold LostScore in *. zl.
           ++ pose proof (Hmin _ _ Hma Eu ltac:(zl)). unfold LostScore in *. zl.
        -- iok Ia Eu. unfold LostScore in *. zl.
      * (* the mover is mated in n *)
        destruct (gen_of_legal p m0 Hl Hp1 Hm0) as [r0 [Hr0 Er0]].
        destruct (Hub r0 Hr0) as (p0 & w0 & E01 & E02 & L0). destruct (CH _ _ _ Hr0 E01 E02) as [_ I0].
        destruct (Hall _ Hm0) as [u0 [Eu0 Bu0]]. rewrite Hc0 in Eu0. apply some_inj in Eu0.
        rewrite Er0 in I0. iok I0 Hc0; [|zl].
        unfold I_ok. rewrite Hs. destruct (0 <? - n) eqn:?; [zl|].
        destruct (Hall _ Hma) as [u [Eu Bu]]. iok Ia Eu; [|zl]. unfold LostScore in *. zl.
      * (* neither *)
        destruct (gen_of_legal p m0 Hl Hp1 Hm0) as [r0 [Hr0 Er0]].
        destruct (Hub r0 Hr0) as (p0 & w0 & E01 & E02 & L0). destruct (CH _ _ _ Hr0 E01 E02) as [_ I0].
        rewrite Er0 in I0. iok I0 Hc0.
        unfold I_ok. rewrite Hs.
        destruct (Spec.mate_score k (Spec.apply (abs p) (absm (rm ra)))) as [u|] eqn:Eu.
        -- pose proof (mate_score_bound _ _ _ Eu) as Bu. pose proof (Hall _ _ Hma Eu). iok Ia Eu; [|zl].
           unfold LostScore in *. zl.
        -- iok Ia Eu. unfold LostScore in *. zl.
Qed.

(* ================= PART 4: mate values are real forced mates ================= *)

(* the value against the verdict of the rules one ply deeper (the reach of the quiescence phase) *)
Definition J_ok (d : nat) (a : Spec.position) (depth v : Z) : Prop :=
  (ScoreCloseToMate < v -> exists n n', 0 < n' <= n /\ n <= Z.of_nat d + 1 /\ v = - LostScore - depth - n
                                        /\ Spec.mate_score (S d) a = Some n') /\
  (v < - ScoreCloseToMate -> exists n n', 0 <= n' <= n /\ n <= Z.of_nat d + 1 /\ v = LostScore + depth + n
                                          /\ Spec.mate_score (S d) a = Some (- n')).

Lemma mate_J : forall d p depth v, wf_legal p = true -> ply p + Z.of_nat d + Z.of_nat qfuel < 32767 ->
  0 <= depth -> depth + Z.of_nat d <= 1000 -> minimax d p depth = Ok v -> J_ok d (abs p) depth v.
Proof.
  induction d as [|k IH]; intros p depth v Hl Hp Hd0 Hd1 H; pose proof qfuel_val as QF.
  - assert (Hp1 : ply p + 1 < 32767) by lia.
    change (minimax 0 p depth) with (mm_quiesce qfuel p depth) in H.
    destruct (q_range qfuel p depth v Hl ltac:(lia) H) as [[C1 C2]|[C1 [C2 C3]]].
    + split; intros Hv; [exfalso; unfold LostScore, ScoreCloseToMate in *; lia|].
      exists 0, 0. split; [lia|]. split; [lia|]. split; [lia|]. exact (checkmate_spec p 1 Hl Hp1 C1).
    + split; intros Hv; [|exfalso; lia].
      destruct C3 as [C3|[C3 (r & p' & Hr & E1 & Cm)]]; [exfalso; lia|].
      destruct (child_link p r p' Hl Hp1 Hr E1) as [W [Pl Q]].
      pose proof (checkmate_spec p' 0 W ltac:(lia) Cm) as E0. rewrite Q in E0.
      pose proof (legal_of_gen p r Hl Hp1 Hr) as Hin.
      assert (Hne : Spec.legal_moves (abs p) <> []) by (intros E; rewrite E in Hin; exact Hin).
      pose proof (ms_cases 0 (abs p) Hne) as MC. cbv beta zeta in MC.
      destruct MC as [[n [Hn [Hs [_ Hmin]]]]|[[n [Hn [Hs [_ Hall]]]]|[Hs [Hall _]]]].
      * pose proof (Hmin _ _ Hin E0 ltac:(lia)). exists 1, n. split; [lia|]. split; [lia|]. split; [lia|exact Hs].
      * exfalso. destruct (Hall _ Hin) as [u [Eu Bu]]. rewrite E0 in Eu. apply some_inj in Eu. lia.
      * exfalso. pose proof (Hall _ _ Hin E0). lia.
  - assert (Hp1 : ply p + 1 < 32767) by lia.
    destruct (minimax_S_char k p depth v Hl Hp1 H) as [[En Ev]|[Hne [Hatt Hub]]].
    + apply (gen_nil_iff p Hl Hp1) in En. subst v. unfold terminal_score. destruct (in_check p) eqn:Ec.
      * split; intros Hv; [exfalso; unfold LostScore, ScoreCloseToMate in *; lia|].
        exists 0, 0. split; [lia|]. split; [lia|]. split; [lia|].
        rewrite (mate_score_nil _ _ En), <- (in_check_abs p Hl), Ec. reflexivity.
      * split; intros Hv; exfalso; unfold DrawScore, ScoreCloseToMate in *; lia.
    + assert (Hne' : Spec.legal_moves (abs p) <> []) by (intros E; apply Hne; apply (gen_nil_iff p Hl Hp1); exact E).
      assert (CH : forall r p' w, In r (gen_legal_pure p) -> make_legal p (rm r) = Ok p' -> minimax k p' (depth + 1) = Ok w ->
                  In (absm (rm r)) (Spec.legal_moves (abs p)) /\ J_ok k (Spec.apply (abs p) (absm (rm r))) (depth + 1) w).
      { intros r p' w Hr E1 E2. destruct (child_link p r p' Hl Hp1 Hr E1) as [W [Pl Q]].
        split; [apply legal_of_gen; assumption|].
        pose proof (IH p' (depth + 1) w W ltac:(lia) ltac:(lia) ltac:(lia) E2) as I. unfold J_ok in *. rewrite <- Q. exact I. }
      destruct Hatt as (ra & pa & wa & Hra & Ea1 & Ea2 & Eva).
      destruct (CH _ _ _ Hra Ea1 Ea2) as [Hma [Ja1 Ja2]].
      pose proof (ms_cases (S k) (abs p) Hne') as MC. cbv beta zeta in MC.
      split; intros Hv.
      * destruct (Ja2 ltac:(zl)) as (j & j' & Bj & Bj2 & Ew & Ec).
        destruct MC as [[n [Hn [Hs [_ Hmin]]]]|[[n [Hn [Hs [_ Hall]]]]|[Hs [Hall _]]]].
        -- pose proof (Hmin _ _ Hma Ec ltac:(zl)). exists (j + 1), n.
           split; [zl|]. split; [zl|]. split; [zl|exact Hs].
        -- exfalso. destruct (Hall _ Hma) as [u [Eu Bu]]. rewrite Ec in Eu. apply some_inj in Eu. zl.
        -- exfalso. pose proof (Hall _ _ Hma Ec). zl.
      * destruct (Ja1 ltac:(zl)) as (ja & ja' & Bja & Bja2 & Ewa & Eca).
        destruct MC as [[n [Hn [Hs [[m0 [Hm0 Hc0]] _]]]]|[[n [Hn [Hs [[m0 [Hm0 Hc0]] _]]]]|[Hs [_ [m0 [Hm0 Hc0]]]]]];
          destruct (gen_of_legal p m0 Hl Hp1 Hm0) as [r0 [Hr0 Er0]];
          destruct (Hub r0 Hr0) as (p0 & w0 & E01 & E02 & L0); destruct (CH _ _ _ Hr0 E01 E02) as [_ [J01 _]];
          rewrite Er0 in J01; destruct (J01 ltac:(zl)) as (j0 & j0' & Bj0 & Bj02 & Ew0 & Ec0); rewrite Hc0 in Ec0.
        -- exfalso. apply some_inj in Ec0. zl.
        -- apply some_inj in Ec0. exists (1 + ja), n. split; [zl|]. split; [zl|]. split; [zl|exact Hs].
        -- discriminate.
Qed.

(* ================= PART 4b: totality of the reference, given a measure for the quiescence phase ================= *)

Lemma rfold_total p ref l : (forall r, In r l -> exists p' w, make_legal p (rm r) = Ok p' /\ ref p' = Ok w) ->
  forall x, exists v, rfold p ref l (Ok x) = Ok v.
Proof.
  induction l as [|m l IH]; intros Hall x.
  - exists x. reflexivity.
  - destruct (Hall m (or_introl eq_refl)) as (p' & w & E1 & E2).
    change (rfold p ref (m :: l) (Ok x)) with (rfold p ref l (rstep p ref (Ok x) m)).
    unfold rstep. cbn [bind]. rewrite E1. cbn [bind]. rewrite E2. cbn [bind].
    apply IH. intros r Hr. apply Hall. right. exact Hr.
Qed.

Section Total.
Variable mu : pos -> nat.
Hypothesis mu_dec : forall p r p', wf_legal p = true -> ply p + 1 < 32767 -> In r (gen_tactical_pure p) ->
  make_legal p (rm r) = Ok p' -> (mu p' < mu p)%nat.

Lemma mm_quiesce_total_mu : forall f p depth, wf_legal p = true -> ply p + Z.of_nat f < 32767 -> (mu p < f)%nat ->
  exists v, mm_quiesce f p depth = Ok v.
Proof.
  induction f as [|f IH]; intros p depth Hl Hp Hm; [lia|].
  assert (Hp1 : ply p + 1 < 32767) by lia.
  rewrite mm_quiesce_eq, (gen_tactical_guards_ok make_spec p Hl Hp1). cbn [bind].
  apply rfold_total. intros r Hr.
  assert (Hr' : In r (gen_legal_pure p)) by (rewrite gen_tactical_pure_filter in Hr; apply filter_In in Hr; tauto).
  destruct (child_exists p r Hl Hp1 Hr') as [p' E1]. destruct (child_link p r p' Hl Hp1 Hr' E1) as [W [Pl _]].
  pose proof (mu_dec p r p' Hl Hp1 Hr E1) as D.
  destruct (IH p' (depth + 1) W ltac:(lia) ltac:(lia)) as [w E2]. exists p', w. auto.
Qed.

Hypothesis mu_bound : forall p, wf_legal p = true -> (mu p < qfuel)%nat.

Lemma minimax_total_mu : forall d p depth, wf_legal p = true -> ply p + Z.of_nat d + Z.of_nat qfuel < 32767 ->
  exists v, minimax d p depth = Ok v.
Proof.
  induction d as [|k IH]; intros p depth Hl Hp.
  - change (minimax 0 p depth) with (mm_quiesce qfuel p depth).
    apply mm_quiesce_total_mu; [exact Hl|lia|apply mu_bound; exact Hl].
  - assert (Hp1 : ply p + 1 < 32767) by lia.
    assert (CH : forall r, In r (gen_legal_pure p) -> exists p' w, make_legal p (rm r) = Ok p' /\ minimax k p' (depth + 1) = Ok w).
    { intros r Hr. destruct (child_exists p r Hl Hp1 Hr) as [p' E1]. destruct (child_link p r p' Hl Hp1 Hr E1) as [W [Pl _]].
      destruct (IH p' (depth + 1) W ltac:(lia)) as [w E2]. exists p', w. auto. }
    rewrite minimax_eq, (gen_guards_ok make_spec p Hl Hp1). cbn [bind].
    destruct (gen_legal_pure p) as [|m0 l]; [eexists; reflexivity|].
    destruct (CH m0 (or_introl eq_refl)) as (p0 & w0 & E1 & E2). rewrite E1. cbn [bind]. rewrite E2. cbn [bind].
    apply rfold_total. intros r Hr. apply CH. right. exact Hr.
Qed.
End Total.

Import MakeProofs.

(* ================= PART 4c: the measure: material, pawns counted twice (rules level, then the model) ================= *)

(* material counted in "remaining tactical moves": a pawn can still promote, so it counts twice *)
Definition wgt (o : option Spec.piece) : Z := match o with Some (_, Pawn) => 2 | Some _ => 1 | None => 0 end.
Fixpoint wsumb (b : Spec.board) (l : list Spec.sq) : Z := match l with [] => 0 | s :: r => wgt (b s) + wsumb b r end.
Definition wsum (a : Spec.position) : Z := wsumb (Spec.brd a) Spec.all_sq.

Lemma wgt_range o : 0 <= wgt o <= 2.
Proof. destruct o as [[c []]|]; cbn; lia. Qed.

Lemma sq_eqb_eq x s : Spec.sq_eqb x s = true <-> x = s.
Proof.
  destruct x as [a b], s as [c d]. unfold Spec.sq_eqb. cbn [fst snd]. split; intros H.
  - f_equal; lia.
  - injection H as -> ->. lia.
Qed.
Lemma sq_eqb_neq x s : x <> s -> Spec.sq_eqb x s = false.
Proof. intros H. destruct (Spec.sq_eqb x s) eqn:E; [|reflexivity]. apply sq_eqb_eq in E. contradiction. Qed.
Lemma sq_eqb_refl x : Spec.sq_eqb x x = true.
Proof. apply sq_eqb_eq. reflexivity. Qed.

Lemma wsumb_ext b b' l : (forall s, b s = b' s) -> wsumb b l = wsumb b' l.
Proof. intros H. induction l as [|x l IH]; cbn [wsumb]; [reflexivity|]. rewrite H, IH. reflexivity. Qed.

Lemma wsumb_set_notin b s v l : ~ In s l -> wsumb (Spec.set b s v) l = wsumb b l.
Proof.
  induction l as [|x l IH]; intros H; cbn [wsumb]; [reflexivity|].
  rewrite IH by (intros C; apply H; right; exact C).
  unfold Spec.set at 1. rewrite sq_eqb_neq; [reflexivity|]. intros ->. apply H. left. reflexivity.
Qed.

Lemma wsumb_set_in b s v l : NoDup l -> In s l -> wsumb (Spec.set b s v) l = wsumb b l - wgt (b s) + wgt v.
Proof.
  induction l as [|x l IH]; intros ND H; [destruct H|]. cbn [wsumb]. inversion ND as [|? ? Hx ND']; subst.
  destruct H as [->|H].
  - rewrite wsumb_set_notin by exact Hx. unfold Spec.set at 1. rewrite sq_eqb_refl. lia.
  - rewrite IH by assumption. unfold Spec.set at 1. rewrite sq_eqb_neq; [lia|]. intros ->. contradiction.
Qed.

Lemma wsumb_set_none_le b s l : NoDup l -> wsumb (Spec.set b s None) l <= wsumb b l.
Proof.
  intros ND. destruct (in_dec (fun x y : Spec.sq => ltac:(decide equality; apply Z.eq_dec) : {x = y} + {x <> y}) s l) as [H|H].
  - rewrite wsumb_set_in by assumption. pose proof (wgt_range (b s)). cbn [wgt]. lia.
  - rewrite wsumb_set_notin by assumption. lia.
Qed.

Lemma wsumb_move b s t placed : s <> t -> In s Spec.all_sq -> In t Spec.all_sq ->
  wsumb (Spec.set (Spec.set b s None) t placed) Spec.all_sq = wsumb b Spec.all_sq - wgt (b s) - wgt (b t) + wgt placed.
Proof.
  intros Hne Hs Ht. rewrite !wsumb_set_in by (try exact all_sq_NoDup; assumption).
  unfold Spec.set. rewrite sq_eqb_neq by (intros E; apply Hne; symmetry; exact E). cbn [wgt]. lia.
Qed.

Lemma has_Some b s c k : b s = Some (c, k) -> forall k', Spec.has b s c k' = kind_eqb k' k.
Proof. intros E k'. unfold Spec.has. rewrite E, color_eqb_refl. reflexivity. Qed.
Lemma has_inv b s c k : Spec.has b s c k = true -> b s = Some (c, k).
Proof.
  unfold Spec.has. destruct (b s) as [[c' k']|]; [|discriminate]. intros H. apply andb_prop in H as [H1 H2].
  apply color_eqb_eq in H1. apply kind_eqb_eq in H2. subst. reflexivity.
Qed.
Lemma owned_inv b s c : Spec.owned b s c = true -> exists k, b s = Some (c, k).
Proof.
  unfold Spec.owned. destruct (b s) as [[c' k]|]; [|discriminate]. intros H. apply color_eqb_eq in H. subst. eauto.
Qed.
Lemma empty_inv b s : Spec.empty b s = true -> b s = None.
Proof. unfold Spec.empty. destruct (b s); [discriminate|reflexivity]. Qed.
Lemma wgt_pos (b : Spec.board) t x : b t = Some x -> 1 <= wgt (b t).
Proof. intros ->. destruct x as [c []]; cbn; lia. Qed.

Ltac lia' := repeat match goal with H : ?x <> ?y |- _ =>
  match type of x with Spec.sq => clear H | (Z * Z)%type => clear H end end; lia.

Lemma capture_lt b s t c2 placed : s <> t -> In s Spec.all_sq -> In t Spec.all_sq -> Spec.owned b t c2 = true ->
  wgt placed = wgt (b s) ->
  wsumb (Spec.set (Spec.set b s None) t placed) Spec.all_sq < wsumb b Spec.all_sq.
Proof.
  intros Hne Is It Ho Hw. rewrite wsumb_move by assumption. apply owned_inv in Ho as [k E].
  pose proof (wgt_pos _ _ _ E). lia'.
Qed.

Lemma tactical_decreases a m :
  (forall e, Spec.ep a = Some e ->
     Spec.has (Spec.brd a) (fst e, snd e - Spec.fwd (Spec.turn a)) (opp (Spec.turn a)) Pawn = true) ->
  Spec.legal a m = true -> Spec.is_tactical a m = true -> wsum (Spec.apply a m) < wsum a.
Proof.
  intros Hep Hleg Htac. unfold Spec.legal in Hleg. apply andb_prop in Hleg as [Hps _].
  unfold wsum. rewrite apply_brd.
  destruct m as [s t pr]. unfold Spec.pseudo in Hps. unfold Spec.is_tactical, Spec.is_capture in Htac.
  cbv zeta in *. cbn [Spec.mfrom Spec.mto Spec.promo] in *.
  set (b := Spec.brd a) in *. set (c := Spec.turn a) in *.
  apply andb_prop in Hps as [Hps Hk]. apply andb_prop in Hps as [Hps Hnown]. apply andb_prop in Hps as [Hons Hont].
  destruct (b s) as [[c' k]|] eqn:Ebs; [|discriminate]. apply andb_prop in Hk as [Hc Hk].
  apply color_eqb_eq in Hc. subst c'.
  assert (Hst : s <> t). { intros ->. unfold Spec.owned in Hnown. rewrite Ebs, color_eqb_refl in Hnown. discriminate. }
  pose proof (on_in_all s Hons) as Is. pose proof (on_in_all t Hont) as It.
  rewrite !(has_Some _ _ _ _ Ebs) in *.
  assert (Simple : pr = None -> kind_eqb Pawn k = false ->
            wsumb (Spec.set (Spec.set b s None) t (Some (c, k))) Spec.all_sq < wsumb b Spec.all_sq).
  { intros -> Hnp. rewrite Hnp in Htac. cbn [andb orb] in Htac. rewrite !orb_false_r in Htac.
    eapply capture_lt; try eassumption. rewrite Ebs. reflexivity. }
  destruct k; cbn [kind_eqb andb negb] in *.
  - (* pawn *)
    apply andb_prop in Hk as [Hpo Hk].
    assert (E1 : forall placed, wsumb (Spec.set (Spec.set b s None) t placed) Spec.all_sq
                                = wsumb b Spec.all_sq - 2 - wgt (b t) + wgt placed).
    { intros placed. rewrite wsumb_move by assumption. rewrite Ebs. reflexivity. }
    pose proof (wgt_range (b t)) as Rt.
    destruct pr as [k'|].
    + match goal with |- context [Spec.set (Spec.set b s None) t ?pl] =>
        pose proof (E1 pl) as E1'; assert (Ew : wgt pl = 1); [|rewrite Ew in E1'; set (b1 := Spec.set (Spec.set b s None) t pl) in *] end.
      { unfold Spec.promo_ok in Hpo. destruct (snd t =? Spec.last_rank c); [|discriminate]. destruct k'; try discriminate; reflexivity. }
      destruct (negb (fst t - fst s =? 0) && Spec.empty b t).
      * eapply Z.le_lt_trans; [apply wsumb_set_none_le; exact all_sq_NoDup|lia'].
      * lia'.
    + match goal with |- context [Spec.set (Spec.set b s None) t ?pl] =>
        pose proof (E1 pl) as E1'; set (b1 := Spec.set (Spec.set b s None) t pl) in * end.
      cbn [wgt] in E1'. rewrite orb_false_r in Htac.
      destruct (Spec.owned b t (opp c)) eqn:Eo.
      * apply owned_inv in Eo as [k2 E2]. pose proof (wgt_pos _ _ _ E2).
        destruct (negb (fst t - fst s =? 0) && Spec.empty b t).
        -- eapply Z.le_lt_trans; [apply wsumb_set_none_le; exact all_sq_NoDup|lia'].
        -- lia'.
      * cbn [orb] in Htac. apply andb_prop in Htac as [Hdf Hem].
        assert (Hdf' : negb (fst t - fst s =? 0) = true) by lia'. rewrite Hdf', Hem. cbn [andb].
        assert (D3 : (Z.abs (fst t - fst s) =? 1) && (snd t - snd s =? Spec.fwd c) &&
                     (Spec.empty b t && match Spec.ep a with Some e => Spec.sq_eqb e t | None => false end) = true).
        { destruct (fst t - fst s =? 0) eqn:E0; [discriminate|]. cbn [andb orb] in Hk. exact Hk. }
        apply andb_prop in D3 as [D3 D4]. apply andb_prop in D3 as [_ Hdr]. apply andb_prop in D4 as [_ D4].
        destruct (Spec.ep a) as [e|] eqn:Ee; [|discriminate]. apply sq_eqb_eq in D4. subst e.
        pose proof (Hep t eq_refl) as Hq. fold b c in Hq.
        replace (snd t - Spec.fwd c) with (snd s) in Hq by lia'. apply has_inv in Hq.
        assert (Hq1 : b1 (fst t, snd s) = Some (opp c, Pawn)).
        { unfold b1, Spec.set. rewrite !sq_eqb_neq; [exact Hq| |].
          - intros E. apply (f_equal fst) in E. cbn [fst] in E. lia'.
          - intros E. apply (f_equal snd) in E. cbn [snd] in E. destruct (fwd_pm c); lia'. }
        assert (Iq : In (fst t, snd s) Spec.all_sq).
        { apply on_in_all. unfold Spec.on in *. cbn [fst snd]. lia'. }
        rewrite wsumb_set_in by (try exact all_sq_NoDup; assumption). rewrite Hq1. cbn [wgt].
        apply empty_inv in Hem. rewrite Hem in E1'. cbn [wgt] in E1'. lia'.
  - apply andb_prop in Hk as [Hn _]. apply no_promo_None in Hn. subst pr. exact (Simple eq_refl eq_refl).
  - apply andb_prop in Hk as [Hn _]. apply no_promo_None in Hn. subst pr. exact (Simple eq_refl eq_refl).
  - apply andb_prop in Hk as [Hn _]. apply no_promo_None in Hn. subst pr. exact (Simple eq_refl eq_refl).
  - apply andb_prop in Hk as [Hn _]. apply no_promo_None in Hn. subst pr. exact (Simple eq_refl eq_refl).
  - (* king: a capturing king move is no castling *)
    apply andb_prop in Hk as [Hn Hk]. apply no_promo_None in Hn. subst pr.
    rewrite orb_false_r in Htac. cbn [orb] in Htac. rewrite orb_false_r in Htac.
    assert (Hd : (fst t - fst s =? 2) = false /\ (fst t - fst s =? -2) = false).
    { apply orb_prop in Hk as [Hk|Hk]; [apply orb_prop in Hk as [Hk|Hk]|].
      - unfold Spec.attacks in Hk. rewrite Ebs in Hk. unfold Spec.piece_attacks in Hk. cbv zeta in Hk. lia'.
      - exfalso. unfold Spec.castle_ok in Hk. cbv zeta in Hk. fold b c in Hk.
        repeat match goal with H : (_ && _) = true |- _ => apply andb_prop in H; destruct H end.
        destruct t as [tf tr]. cbn [fst snd] in *.
        assert (tf = 6) by lia'. assert (tr = Spec.home_rank c) by lia'. subst tf tr.
        match goal with H : Spec.empty b (6, _) = true |- _ => apply empty_inv in H; rename H into He end.
        apply owned_inv in Htac as [k2 E2]. congruence.
      - exfalso. unfold Spec.castle_ok in Hk. cbv zeta in Hk. fold b c in Hk.
        repeat match goal with H : (_ && _) = true |- _ => apply andb_prop in H; destruct H end.
        destruct t as [tf tr]. cbn [fst snd] in *.
        assert (tf = 2) by lia'. assert (tr = Spec.home_rank c) by lia'. subst tf tr.
        match goal with H : Spec.empty b (2, _) = true |- _ => apply empty_inv in H; rename H into He end.
        apply owned_inv in Htac as [k2 E2]. congruence. }
    destruct Hd as [Hd1 Hd2]. rewrite Hd1, Hd2. cbn [andb]. eapply capture_lt; try eassumption. rewrite Ebs. reflexivity.
Qed.

Lemma wsumb_nonneg b l : 0 <= wsumb b l.
Proof. induction l as [|x l IH]; cbn [wsumb]; [lia|]. pose proof (wgt_range (b x)). lia. Qed.

(* ---------- the measure on the model: bounded by the capacities of well-formed positions ---------- *)

Definition cntq (Q : cell -> bool) (b : list cell) (l : list Z) : Z := Z.of_nat (length (filter (fun s => Q (get b s)) l)).

Lemma cntq_cons Q b x l : cntq Q b (x :: l) = b2z (Q (get b x)) + cntq Q b l.
Proof. unfold cntq. cbn [filter]. destruct (Q (get b x)); cbn [length b2z]; lia. Qed.

Lemma wgt_cells x c :
  wgt (abs_cell x) = b2z (qpiece c x) + 2 * b2z (qpawn c x) + b2z (qking c x)
                   + b2z (qpiece (opp c) x) + 2 * b2z (qpawn (opp c) x) + b2z (qking (opp c) x).
Proof. destruct x as [|[] []]; destruct c; reflexivity. Qed.

Lemma wsumb_cnt b c l : (forall s, In s l -> validb s = true) ->
  wsumb (abs_board b) (map coords l) =
    cntq (qpiece c) b l + 2 * cntq (qpawn c) b l + cntq (qking c) b l
    + cntq (qpiece (opp c)) b l + 2 * cntq (qpawn (opp c)) b l + cntq (qking (opp c)) b l.
Proof.
  induction l as [|x l IH]; intros Hv; [reflexivity|]. cbn [map wsumb]. rewrite !cntq_cons.
  rewrite IH by (intros s Hs; apply Hv; right; exact Hs).
  rewrite (abs_at b x (Hv x (or_introl eq_refl))), (wgt_cells (get b x) c). lia.
Qed.

Lemma cntq_le Q b l : LQ Q b l -> cntq Q b valid_squares <= Z.of_nat (length l).
Proof.
  intros [ND H]. unfold cntq. apply inj_le. apply NoDup_incl_length.
  - apply NoDup_filter. exact valid_squares_NoDup.
  - intros s Hs. apply filter_In in Hs as [Hs Hq]. apply H. split; [apply validb_In; exact Hs|exact Hq].
Qed.

Lemma wsum_bound p : wf p = true -> wsum (abs p) <= 48.
Proof.
  intros Hwf. destruct (wf_facts_of p Hwf) as [_ _ [C1 [C2 C3]] [E1 [E2 E3]] Cw Ew Cc Ec _ _ _ _ _ _ _ _].
  unfold wsum. rewrite abs_brd, <- coords_map.
  rewrite (wsumb_cnt (board p) (cur_color p)) by (intros s Hs; apply validb_In; exact Hs).
  pose proof (cntq_le _ _ _ C1). pose proof (cntq_le _ _ _ C2). pose proof (cntq_le _ _ _ C3).
  pose proof (cntq_le _ _ _ E1). pose proof (cntq_le _ _ _ E2). pose proof (cntq_le _ _ _ E3).
  cbn [length] in *. unfold pawnCap, pieceCap in *. lia.
Qed.

Lemma ep_pawn_abs p : wf p = true -> forall e, Spec.ep (abs p) = Some e ->
  Spec.has (Spec.brd (abs p)) (fst e, snd e - Spec.fwd (Spec.turn (abs p))) (opp (Spec.turn (abs p))) Pawn = true.
Proof.
  intros Hwf e He. destruct (wf_facts_of p Hwf) as [_ _ _ _ _ _ _ _ _ _ _ _ _ _ Hep _].
  rewrite abs_brd, abs_turn. unfold abs in He. cbn [Spec.ep] in He.
  destruct Hep as [Hep|Hep].
  - rewrite Hep in He. discriminate.
  - cbv zeta in Hep. destruct Hep as [Hv [Hr [Hg _]]].
    destruct (onb (ep p)); [|discriminate]. apply some_inj in He. subst e.
    destruct (sqrep_of_valid _ Hv) as [f [r R]]. rewrite (sr_coords _ _ _ R). cbn [fst snd].
    pose proof (sr_f _ _ _ R) as Hf. pose proof (sr_r _ _ _ R) as Hrr. pose proof (sr_eq _ _ _ R) as Eq.
    rewrite (sr_rank _ _ _ R) in Hr. unfold cur_color in *.
    destruct (wturn p); cbn [Spec.fwd opp] in *.
    + rewrite has_fr by lia. replace (16 * (r - 1) + f) with (ep p - 16) by lia. rewrite Hg. reflexivity.
    + rewrite has_fr by lia. replace (16 * (r - -1) + f) with (ep p - -16) by lia. rewrite Hg. reflexivity.
Qed.

Definition mu (p : pos) : nat := Z.to_nat (wsum (abs p)).

Lemma mu_dec : forall p r p', wf_legal p = true -> ply p + 1 < 32767 -> In r (gen_tactical_pure p) ->
  make_legal p (rm r) = Ok p' -> (mu p' < mu p)%nat.
Proof.
  intros p r p' Hl Hp Hr E. rewrite gen_tactical_pure_filter in Hr. apply filter_In in Hr as [Hr Ht].
  destruct (make_legal_generated make_spec p r Hl Hp Hr) as [q [E1 [W [Pl Q]]]].
  rewrite E in E1. apply ok_inj in E1. subst q.
  assert (Ew : wsum (abs p') = wsum (Spec.apply (abs p) (absm (rm r)))) by (apply wsumb_ext; exact (proj1 Q)).
  pose proof (legal_of_gen p r Hl Hp Hr) as Hin. unfold Spec.legal_moves in Hin. apply filter_In in Hin as [_ Hleg].
  rewrite (tactical_flag_exact make_spec p _ r Hl Hp (gen_guards_ok make_spec p Hl Hp) Hr) in Ht.
  pose proof (tactical_decreases (abs p) (absm (rm r)) (ep_pawn_abs p (wf_of_legal p Hl)) Hleg Ht) as D.
  pose proof (wsumb_nonneg (Spec.brd (abs p')) Spec.all_sq). unfold mu, wsum in *. lia.
Qed.

Lemma mu_bound : forall p, wf_legal p = true -> (mu p < qfuel)%nat.
Proof.
  intros p Hl. pose proof (wsum_bound p (wf_of_legal p Hl)). pose proof qfuel_val. unfold mu. lia.
Qed.

Theorem minimax_total : forall d p depth, wf_legal p = true -> ply p + Z.of_nat d + Z.of_nat qfuel < 32767 ->
  exists v, minimax d p depth = Ok v.
Proof. exact (minimax_total_mu mu mu_dec mu_bound). Qed.

(* ================= PART 5: the theorems ================= *)

Section Statements.
Variables (d : nat) (p : pos) (depth v : Z).
Hypothesis Hl : wf_legal p = true.
Hypothesis Hp : ply p + Z.of_nat d + Z.of_nat qfuel < 32767.
Hypothesis Hd0 : 0 <= depth.
Hypothesis Hd1 : depth + Z.of_nat d <= 1000.
Hypothesis Hv : minimax d p depth = Ok v.

(* 1. a forced mate within the full-width depth is found, with exactly its distance *)
Theorem mate_found_win_val : forall n, Spec.mate_score d (abs p) = Some n -> 0 < n -> v = - LostScore - depth - n.
Proof.
  intros n E Hn. pose proof (mate_I d p depth v Hl Hp Hd0 Hd1 Hv) as I. iok I E; [exact I|lia].
Qed.

Theorem mate_found_loss_val : forall n, Spec.mate_score d (abs p) = Some (- n) -> 0 <= n -> v = LostScore + depth + n.
Proof.
  intros n E Hn. pose proof (mate_I d p depth v Hl Hp Hd0 Hd1 Hv) as I. iok I E; lia.
Qed.

(* no forced mate within d plies: the value is no mate value of distance <= d *)
Theorem no_mate_range : Spec.mate_score d (abs p) = None ->
  LostScore + depth + Z.of_nat d + 1 <= v <= - LostScore - depth - Z.of_nat d - 1.
Proof. intros E. pose proof (mate_I d p depth v Hl Hp Hd0 Hd1 Hv) as I. iok I E. exact I. Qed.

(* 2. a value above the band is a forced mate by the rules, of exactly the reported length; length d + 1 only through quiescence *)
Theorem mate_real_win : ScoreCloseToMate < v ->
  exists n, 0 < n <= Z.of_nat d + 1 /\ v = - LostScore - depth - n /\ Spec.mate_score (S d) (abs p) = Some n
            /\ (n <= Z.of_nat d -> Spec.mate_score d (abs p) = Some n)
            /\ (n = Z.of_nat d + 1 -> Spec.mate_score d (abs p) = None).
Proof.
  intros Hb. destruct (mate_J d p depth v Hl Hp Hd0 Hd1 Hv) as [J _].
  destruct (J Hb) as (n & n' & B1 & B2 & Ev & Es).
  destruct (Z_le_dec n' (Z.of_nat d)) as [L|L].
  - pose proof (mate_score_complete d (abs p) n' Es ltac:(lia)) as Ed.
    pose proof (mate_found_win_val n' Ed ltac:(lia)) as Ev'. assert (n = n') by lia. subst n'.
    exists n. split; [lia|]. split; [exact Ev|]. split; [exact Es|]. split; [intros _; exact Ed|intros; lia].
  - assert (n = n') by lia. subst n'.
    exists n. split; [lia|]. split; [exact Ev|]. split; [exact Es|]. split; [intros; lia|intros _].
    destruct (Spec.mate_score d (abs p)) as [k|] eqn:Ed; [|reflexivity]. exfalso.
    pose proof (mate_score_bound _ _ _ Ed). apply mate_score_stable in Ed. rewrite Es in Ed. apply some_inj in Ed. lia.
Qed.

(* a value below the band: the side to move is mated by force, in exactly the reported number of plies *)
Theorem mate_real_loss : v < - ScoreCloseToMate ->
  exists n, 0 <= n <= Z.of_nat d + 1 /\ v = LostScore + depth + n /\ Spec.mate_score (S d) (abs p) = Some (- n)
            /\ (n <= Z.of_nat d -> Spec.mate_score d (abs p) = Some (- n))
            /\ (n = Z.of_nat d + 1 -> Spec.mate_score d (abs p) = None).
Proof.
  intros Hb. destruct (mate_J d p depth v Hl Hp Hd0 Hd1 Hv) as [_ J].
  destruct (J Hb) as (n & n' & B1 & B2 & Ev & Es).
  destruct (Z_le_dec n' (Z.of_nat d)) as [L|L].
  - pose proof (mate_score_complete d (abs p) (- n') Es ltac:(lia)) as Ed.
    pose proof (mate_found_loss_val n' Ed ltac:(lia)) as Ev'. assert (n = n') by lia. subst n'.
    exists n. split; [lia|]. split; [exact Ev|]. split; [exact Es|]. split; [intros _; exact Ed|intros; lia].
  - assert (n = n') by lia. subst n'.
    exists n. split; [lia|]. split; [exact Ev|]. split; [exact Es|]. split; [intros; lia|intros _].
    destruct (Spec.mate_score d (abs p)) as [k|] eqn:Ed; [|reflexivity]. exfalso.
    pose proof (mate_score_bound _ _ _ Ed). apply mate_score_stable in Ed. rewrite Es in Ed. apply some_inj in Ed. lia.
Qed.

(* 3. no forced mate within d + 1 plies: the value is inside the band; inside the band: no forced mate within d plies *)
Theorem no_mate_band : Spec.mate_score (S d) (abs p) = None -> Z.abs v <= ScoreCloseToMate.
Proof.
  intros E. destruct (Z_lt_dec ScoreCloseToMate v) as [L|L].
  - destruct (mate_real_win L) as (n & _ & _ & Es & _). congruence.
  - destruct (Z_lt_dec v (- ScoreCloseToMate)) as [L'|L'].
    + destruct (mate_real_loss L') as (n & _ & _ & Es & _). congruence.
    + lia.
Qed.

Theorem band_no_mate : Z.abs v <= ScoreCloseToMate -> Spec.mate_score d (abs p) = None.
Proof.
  intros B. destruct (Spec.mate_score d (abs p)) as [k|] eqn:E; [|reflexivity]. exfalso.
  pose proof (mate_score_bound _ _ _ E) as Bk.
  destruct (Z_lt_dec 0 k) as [L|L].
  - pose proof (mate_found_win_val k E L). unfold LostScore, ScoreCloseToMate in *. lia.
  - replace k with (- (- k)) in E by lia. pose proof (mate_found_loss_val (- k) E ltac:(lia)).
    unfold LostScore, ScoreCloseToMate in *. lia.
Qed.
End Statements.

(* the same with totality: the reference never panics on a well-formed position (minimax_total), so the value exists *)
Theorem mate_found_win : forall d p depth n, wf_legal p = true -> ply p + Z.of_nat d + Z.of_nat qfuel < 32767 ->
  0 <= depth -> depth + Z.of_nat d <= 1000 ->
  Spec.mate_score d (abs p) = Some n -> 0 < n -> minimax d p depth = Ok (- LostScore - depth - n).
Proof.
  intros d p depth n Hl Hp Hd0 Hd1 E Hn. destruct (minimax_total d p depth Hl Hp) as [v Hv]. rewrite Hv. f_equal.
  exact (mate_found_win_val d p depth v Hl Hp Hd0 Hd1 Hv n E Hn).
Qed.

Theorem mate_found_loss : forall d p depth n, wf_legal p = true -> ply p + Z.of_nat d + Z.of_nat qfuel < 32767 ->
  0 <= depth -> depth + Z.of_nat d <= 1000 ->
  Spec.mate_score d (abs p) = Some (- n) -> 0 <= n -> minimax d p depth = Ok (LostScore + depth + n).
Proof.
  intros d p depth n Hl Hp Hd0 Hd1 E Hn. destruct (minimax_total d p depth Hl Hp) as [v Hv]. rewrite Hv. f_equal.
  exact (mate_found_loss_val d p depth v Hl Hp Hd0 Hd1 Hv n E Hn).
Qed.

Theorem mate_found : forall d p depth n, wf_legal p = true -> ply p + Z.of_nat d + Z.of_nat qfuel < 32767 ->
  0 <= depth -> depth + Z.of_nat d <= 1000 ->
  (Spec.mate_score d (abs p) = Some n -> 0 < n -> minimax d p depth = Ok (- LostScore - depth - n)) /\
  (Spec.mate_score d (abs p) = Some (- n) -> 0 <= n -> minimax d p depth = Ok (LostScore + depth + n)).
Proof. intros. split; intros; [apply mate_found_win|apply mate_found_loss]; assumption. Qed.

(* every value of the reference, classified by the rules *)
Theorem mate_real : forall d p depth, wf_legal p = true -> ply p + Z.of_nat d + Z.of_nat qfuel < 32767 ->
  0 <= depth -> depth + Z.of_nat d <= 1000 ->
  exists v, minimax d p depth = Ok v /\
    ( (Z.abs v <= ScoreCloseToMate /\ Spec.mate_score d (abs p) = None)
      \/ (exists n, 0 < n <= Z.of_nat d + 1 /\ v = - LostScore - depth - n /\ Spec.mate_score (S d) (abs p) = Some n)
      \/ (exists n, 0 <= n <= Z.of_nat d + 1 /\ v = LostScore + depth + n /\ Spec.mate_score (S d) (abs p) = Some (- n)) ).
Proof.
  intros d p depth Hl Hp Hd0 Hd1. destruct (minimax_total d p depth Hl Hp) as [v Hv]. exists v. split; [exact Hv|].
  destruct (Z_lt_dec ScoreCloseToMate v) as [L|L].
  - right. left. destruct (mate_real_win d p depth v Hl Hp Hd0 Hd1 Hv L) as (n & B & E1 & E2 & _). exists n. auto.
  - destruct (Z_lt_dec v (- ScoreCloseToMate)) as [L'|L'].
    + right. right. destruct (mate_real_loss d p depth v Hl Hp Hd0 Hd1 Hv L') as (n & B & E1 & E2 & _). exists n. auto.
    + left. assert (B : Z.abs v <= ScoreCloseToMate) by lia. split; [exact B|].
      exact (band_no_mate d p depth v Hl Hp Hd0 Hd1 Hv B).
Qed.

Check minimax_total. Check mate_found_win. Check mate_found_loss. Check mate_found. Check mate_real_win. Check mate_real_loss.
Check mate_real. Check no_mate_range. Check no_mate_band. Check band_no_mate.
Check mate_score_bound. Check mate_score_stable. Check mate_score_complete. Check tactical_decreases.
Print Assumptions minimax_total.
Print Assumptions mate_found_win.
Print Assumptions mate_found_loss.
Print Assumptions mate_found.
Print Assumptions mate_real_win.
Print Assumptions mate_real_loss.
Print Assumptions mate_real.
Print Assumptions no_mate_range.
Print Assumptions no_mate_band.
Print Assumptions band_no_mate.
