(* engine/search.go as a state machine (L2): the search thread with its shared position stack, node counter,
   interruption flag, killer table, output, and three ORACLE STREAMS that stand for everything the environment decides:
     polls   - one boolean per `select { case <-search.stop: ... default: }` (is a stop request pending?)
     clock   - one boolean per `time.Now().After(endTime)` (is the deadline over?)
     pvclock - one boolean per maybePrintNewPvInfo (have 200 ms elapsed?)
   A theorem quantified over the three streams is a theorem about every stop timing and every clock behaviour.
   Move ordering (ranking by killers / PV bonus / captures, then Go's unstable sort) is a parameter [order]; it may read
   the killer table and the candidate line.  Principal variations are returned functionally with [None] = "row never
   written" (reading it is the model panic P_STALE_PV, as in Search.v).  Fixed capacities are explicit panics. *)
Require Import Base Generated Position Attack Make Gen Count Eval Search.
Open Scope Z_scope.

Inductive event :=
| EvInfoDepth (depth score : Z) (nodes : Z) (pv : list move)       (* printInfoAfterDepth *)
| EvInfoScore (score depth : Z) (nodes : Z) (pv : list move)       (* printInfo: mid-iteration and final summary *)
| EvCurrMove (m : move) (number : Z) (nodes : Z)                   (* info currmove *)
| EvBestMove (m : move)
| EvBestMoveNone.                                                  (* bestmove 0000 *)

Definition killer_table := Z -> (option move * option move).          (* indexed by killerSlot *)
Definition no_killers : killer_table := fun _ => (None, None).
Definition killer_slot (ply : Z) : Z := uint16 ply mod killerMovesMaxPly.
Definition update_killers (k : killer_table) (ply : Z) (m : move) : killer_table :=
  let s := killer_slot ply in fun i => if i =? s then (Some m, fst (k s)) else k i.

Record sst := {
  st_stack : list pos;          (* posStack[0..plyIdx], game position first *)
  st_nodes : Z;                 (* evaluatedNodes *)
  st_intr : bool;               (* search.interrupted *)
  st_killers : killer_table;
  st_polls : list bool; st_clock : list bool; st_pvclock : list bool;
  st_first : Z;                 (* firstMoveIdx *)
  st_root_moves : list rmove;   (* movStack[0] as sorted by the root *)
  st_out : list event           (* newest first *)
}.

Definition set_stack st s := {| st_stack := s; st_nodes := st_nodes st; st_intr := st_intr st; st_killers := st_killers st;
  st_polls := st_polls st; st_clock := st_clock st; st_pvclock := st_pvclock st; st_first := st_first st; st_root_moves := st_root_moves st; st_out := st_out st |}.
Definition set_nodes st n := {| st_stack := st_stack st; st_nodes := n; st_intr := st_intr st; st_killers := st_killers st;
  st_polls := st_polls st; st_clock := st_clock st; st_pvclock := st_pvclock st; st_first := st_first st; st_root_moves := st_root_moves st; st_out := st_out st |}.
Definition set_intr st b := {| st_stack := st_stack st; st_nodes := st_nodes st; st_intr := b; st_killers := st_killers st;
  st_polls := st_polls st; st_clock := st_clock st; st_pvclock := st_pvclock st; st_first := st_first st; st_root_moves := st_root_moves st; st_out := st_out st |}.
Definition set_killers st k := {| st_stack := st_stack st; st_nodes := st_nodes st; st_intr := st_intr st; st_killers := k;
  st_polls := st_polls st; st_clock := st_clock st; st_pvclock := st_pvclock st; st_first := st_first st; st_root_moves := st_root_moves st; st_out := st_out st |}.
Definition set_first st f ms := {| st_stack := st_stack st; st_nodes := st_nodes st; st_intr := st_intr st; st_killers := st_killers st;
  st_polls := st_polls st; st_clock := st_clock st; st_pvclock := st_pvclock st; st_first := f; st_root_moves := ms; st_out := st_out st |}.
Definition emit st e := {| st_stack := st_stack st; st_nodes := st_nodes st; st_intr := st_intr st; st_killers := st_killers st;
  st_polls := st_polls st; st_clock := st_clock st; st_pvclock := st_pvclock st; st_first := st_first st; st_root_moves := st_root_moves st; st_out := e :: st_out st |}.

(* the oracles *)
Definition poll (st : sst) : sst :=        (* select on the stop channel *)
  match st_polls st with
  | [] => st
  | b :: r => let st' := {| st_stack := st_stack st; st_nodes := st_nodes st; st_intr := st_intr st || b; st_killers := st_killers st;
                            st_polls := r; st_clock := st_clock st; st_pvclock := st_pvclock st; st_first := st_first st; st_root_moves := st_root_moves st; st_out := st_out st |} in st'
  end.
Definition time_up (st : sst) : bool * sst :=      (* time.Now().After(endTime) *)
  match st_clock st with
  | [] => (false, st)
  | b :: r => (b, {| st_stack := st_stack st; st_nodes := st_nodes st; st_intr := st_intr st; st_killers := st_killers st;
                     st_polls := st_polls st; st_clock := r; st_pvclock := st_pvclock st; st_first := st_first st; st_root_moves := st_root_moves st; st_out := st_out st |})
  end.
Definition pv_print_due (st : sst) : bool * sst :=
  match st_pvclock st with
  | [] => (false, st)
  | b :: r => (b, {| st_stack := st_stack st; st_nodes := st_nodes st; st_intr := st_intr st; st_killers := st_killers st;
                     st_polls := st_polls st; st_clock := st_clock st; st_pvclock := r; st_first := st_first st; st_root_moves := st_root_moves st; st_out := st_out st |})
  end.

(* position stack *)
Definition top (st : sst) : result pos := match rev (st_stack st) with p :: _ => Ok p | [] => Panic P_STACK end.
Definition ply_idx (st : sst) : Z := Z.of_nat (length (st_stack st)) - 1.
(* PushMove: posStack[plyIdx+1] = posStack[plyIdx]; plyIdx++; MakeMove; panic if illegal *)
Definition push (st : sst) (m : move) : result sst :=
  if plyBufferCapacity <=? ply_idx st + 1 then Panic P_STACK else
  do p <- top st; do p' <- make_legal p m; Ok (set_stack st (st_stack st ++ [p'])).
Definition pop (st : sst) : sst := set_stack st (removelast (st_stack st)).
(* evaluation works on the top slot in place: the turn flag is flipped for the opponent's mobility count and flipped back *)
Definition replace_top (st : sst) (p : pos) : sst := set_stack st (removelast (st_stack st) ++ [p]).
Definition lazy_eval_st (st : sst) (depth alpha beta : Z) : result (Z * sst) :=
  do p <- top st;
  let st1 := set_nodes st (st_nodes st + 1) in
  if is_checkmate p then Ok (LostScore + depth, st1) else
  let ms := psq_score p in
  if (ms >? beta + fullEvalScoreMargin) || (ms <? alpha - fullEvalScoreMargin) then Ok (ms, st1) else
  let cur := count_moves p * MobilityScoreFactor in
  if cur =? 0 then Ok (DrawScore, st1) else
  let st2 := replace_top st1 (flip_turn p) in
  do pf <- top st2;
  let en := count_moves pf * MobilityScoreFactor in
  let st3 := replace_top st2 (flip_turn pf) in
  Ok (ms + (cur - en), st3).
Definition terminal_score_st (st : sst) (depth : Z) : result (Z * sst) :=
  do p <- top st; Ok (terminal_score p depth, set_nodes st (st_nodes st + 1)).

Section Imp.
(* sortMoves after ranking: may look at the killer table, the candidate line and the depth; must return a permutation *)
Variable order : killer_table -> list move -> Z -> pos -> list rmove -> list rmove.
Variable log_interval : Z.                       (* currmoveLogInterval, within its declared range *)

Record ires := { iv : Z; iline : option (list move); ist : sst }.
Definition ir v l s := {| iv := v; iline := l; ist := s |}.

(* row depth+1 of the PV table must exist *)
Definition row_ok (depth : Z) : bool := depth + 1 <? pvTableRows.

Fixpoint quiesce_i (fuel : nat) (cand : list move) (st : sst) (alpha beta depth : Z) : result ires :=
  match fuel with O => Panic P_FUEL | S f =>
    if negb (row_ok depth) then Panic P_PV_ROW else
    do r <- lazy_eval_st st depth alpha beta;
    let '(score, st1) := r in
    (* info currmove every log_interval nodes *)
    do st2 <- (if log_interval =? 0 then Panic P_DIV_ZERO else
               if st_nodes st1 mod log_interval =? 0 then
                 match nth_error (st_root_moves st1) (Z.to_nat (st_first st1)) with
                 | Some rmv => Ok (emit st1 (EvCurrMove (rm rmv) (st_first st1 + 1) (st_nodes st1)))
                 | None => Panic P_TOKEN_INDEX
                 end
               else Ok st1);
    if score >=? beta then Ok (ir beta None st2) else
    let '(alpha1, line1) := if score >? alpha then (score, Some []) else (alpha, None) in
    do p <- top st2;
    do tms <- gen_tactical p;
    (fix loop (ms : list rmove) (alpha : Z) (line : option (list move)) (st : sst) : result ires :=
       match ms with
       | [] => Ok (ir alpha line st)
       | m :: r =>
           do stp <- push st (rm m);
           do c <- quiesce_i f cand stp (- beta) (- alpha) (depth + 1);
           (* the stop channel is polled after every capture searched (fix 67f3a87), then the interruption / deadline test *)
           let st' := poll (pop (ist c)) in
           let s := - iv c in
           let '(up, st'') := if st_intr st' then (true, st') else time_up st' in
           if up then Ok (ir alpha line st'')
           else if s >=? beta then Ok (ir beta line st'')
           else if s >? alpha then do l <- extend (rm m) (iline c); loop r s l st''
           else loop r alpha line st''
       end) (order (st_killers st2) cand depth p tms) alpha1 line1 st2
  end.

(* alphaBeta; d = targetDepth - depth *)
Fixpoint alpha_beta_i (d : nat) (cand : list move) (st : sst) (alpha beta depth : Z) : result ires :=
  if negb (row_ok depth) then Panic P_PV_ROW else
  match d with
  | O => quiesce_i qfuel cand st alpha beta depth
  | S k =>
    do p <- top st;
    do ms <- gen_legal p;
    match ms with
    | [] => do r <- terminal_score_st st depth; Ok (ir (fst r) (Some []) (snd r))
    | _ =>
    (fix loop (ms : list rmove) (alpha : Z) (line : option (list move)) (st : sst) : result ires :=
       match ms with
       | [] => Ok (ir alpha line st)
       | m :: r =>
           if st_intr st then Ok (ir alpha line st) else
           do stp <- push st (rm m);
           do c <- alpha_beta_i k cand stp (- beta) (- alpha) (depth + 1);
           let st' := pop (ist c) in
           let s := - iv c in
           if s >=? beta then
             Ok (ir beta line (if tactical m then st' else set_killers st' (update_killers (st_killers st') (ply p) (rm m))))
           else
             do al <- (if s >? alpha then do l <- extend (rm m) (iline c); Ok (s, l) else Ok (alpha, line));
             let '(alpha', line') := al in
             let '(up, st'') := if st_intr st' then (true, st') else time_up st' in
             if up then Ok (ir alpha' line' st'')
             else loop r alpha' line' (poll st'')
       end) (order (st_killers st) cand depth p ms) alpha None st
    end
  end.

(* startAlphaBeta *)
Definition root_search_i (target : nat) (cand : list move) (st : sst) : result (ires * bool) :=
  if negb (row_ok 0) then Panic P_PV_ROW else
  do p <- top st;
  do ms <- gen_legal p;
  match ms with
  | [] => do r <- terminal_score_st st 0; Ok (ir (fst r) (Some []) (snd r), false)
  | _ =>
    let sorted := order (st_killers st) cand 0 p ms in
    do r <- (fix loop (ms : list rmove) (idx : Z) (alpha : Z) (line : option (list move)) (st : sst) : result ires :=
       match ms with
       | [] => Ok (ir alpha line (set_first st idx sorted))
       | m :: r =>
           let st := set_first st idx sorted in
           if st_intr st then Ok (ir alpha line st) else
           do stp <- push st (rm m);
           do c <- alpha_beta_i (pred target) cand stp (- InfinityScore) (- alpha) 1;
           let st' := pop (ist c) in
           let s := - iv c in
           do al <- (if s >? alpha then
                       do l <- extend (rm m) (iline c);
                       let '(due, st2) := pv_print_due st' in
                       match l with
                       | Some pv => Ok (s, l, if due then emit st2 (EvInfoScore s (Z.of_nat target) (st_nodes st2) pv) else st2)
                       | None => Panic P_STALE_PV end
                     else Ok (alpha, line, st'));
           let '(alpha', line', st1) := al in
           let '(up, st'') := if st_intr st1 then (true, st1) else time_up st1 in
           if up then Ok (ir alpha' line' st'')
           else if next_move_wins s then Ok (ir alpha' line' st'')
           else loop r (idx + 1) alpha' line' (poll st'')
       end) sorted 0 (- InfinityScore) None st;
    Ok (r, (length ms =? 1)%nat)
  end.

(* StartIterativeDeepening: returns the final state (output in st_out, newest first) *)
Definition iterate_i (max_depth : nat) (st0 : sst) : result sst :=
  let st := set_nodes (set_intr st0 false) 0 in
  do r1 <- root_search_i 1 [] st;
  let '(s1, one) := r1 in
  match iline s1 with
  | None => Panic P_STALE_PV
  | Some best1 =>
    let terminal := match best1 with [] => true | _ => false end in
    let '(up1, st1) := time_up (ist s1) in
    do fin <-
      (if up1 || st_intr st1 || one || terminal then Ok (iv s1, 1, best1, st1) else
       (fix deepen (fuel : nat) (d : nat) (score : Z) (done_ : Z) (best : list move) (st : sst) : result (Z * Z * list move * sst) :=
          match fuel with O => Ok (score, done_, best, st) | S f =>
            if (max_depth <? d)%nat then Ok (score, done_, best, st) else
            do r <- root_search_i d best st;
            let '(s, one') := r in
            let '(up, st') := time_up (ist s) in
            if up then Ok (score, done_, best, st') else
            if st_intr st' then Ok (score, done_, best, st') else
            match iline s with
            | None => Panic P_STALE_PV
            | Some [] => Panic P_EMPTY_LINE                        (* Line.String on an empty line *)
            | Some pv =>
                let st'' := emit st' (EvInfoDepth (Z.of_nat d) (iv s) (st_nodes st') pv) in
                if (plies_to_mate (iv s) =? Z.of_nat d) || one' then Ok (iv s, Z.of_nat d, pv, st'')
                else deepen f (S d) (iv s) (Z.of_nat d) pv st''
            end
          end) max_depth 2%nat (iv s1) 1 best1 st1);
    let '(score, done_, best, stf) := fin in
    match best with
    | [] => Ok (emit stf EvBestMoveNone)
    | b :: _ => Ok (emit (emit stf (EvInfoScore score done_ (st_nodes stf) best)) (EvBestMove b))
    end
  end.
End Imp.

(* initial state of a search on game position p *)
Definition sst0 (p : pos) (killers : killer_table) (polls clock pvclock : list bool) : sst :=
  {| st_stack := [p]; st_nodes := 0; st_intr := true; st_killers := killers; st_polls := polls; st_clock := clock; st_pvclock := pvclock;
     st_first := 0; st_root_moves := []; st_out := [] |}.
Definition plain_order : killer_table -> list move -> Z -> pos -> list rmove -> list rmove := fun _ _ _ _ l => l.
