(* Proofs about the sequential session machine (Session.v):
   PART C  C17 "no input line can crash the engine": totality of the interpreter, modulo the search and perft,
   PART B  C14 "analysis is a function of position and depth only" at session level,
   PART A  "analysis independent of the logging option": the search does not depend on the currmove logging interval,
           apart from the EvCurrMove events themselves.
   No axioms; the only assumptions are explicit premises / Section hypotheses (listed where they are introduced). *)
From Coq Require Import ZArith List Bool Lia ZifyBool.
Require Import Str.
Require Import Base Generated Position Attack Make Gen Count Eval Perft Fen Uci Search SearchImp WF Session.
Require Import TimeProofs.
Require FenProofs.
Require SearchImpProofs.
Require Import SearchImpValue.
Require Spec.
Require Import Abs MakeSpec.
Require AttackProofs GenProofs.
Import ListNotations.
Open Scope Z_scope.

(* FenProofs installs Z.div_mod_to_equations as zify hook; back to the default here *)
Ltac Zify.zify_post_hook ::= idtac.

(* ====================================================================== *)
(* strings: the only fact needed about an abstract line                    *)
(* ====================================================================== *)
Lemma ascii_eqb_eq a b : ascii_eqb a b = true -> a = b.
Proof.
  unfold ascii_eqb, code. intros H. apply Z.eqb_eq in H. apply N2Z.inj in H.
  rewrite <- (ascii_N_embedding a), <- (ascii_N_embedding b), H. reflexivity.
Qed.
Lemma str_eqb_eq a : forall b, str_eqb a b = true -> a = b.
Proof.
  induction a as [|x a IH]; intros [|y b] H; cbn [str_eqb] in H; try discriminate; [reflexivity|].
  apply andb_prop in H. destruct H as [H1 H2]. apply ascii_eqb_eq in H1. apply IH in H2. subst. reflexivity.
Qed.

(* ====================================================================== *)
(* the dispatch of ParseInputLine as a classification of the line          *)
(* ====================================================================== *)
Inductive cls := CReady | CEval | CQuit | CPosition | CUci | CGo | CStop | CSetoption | CTostr | CPerft | CTperft | CHelp | COther.

Definition classify (line : string) : cls :=
  if str_eqb line "isready" then CReady
  else if str_eqb line "eval" then CEval
  else if str_eqb line "quit" then CQuit
  else if has_prefix line "position" then CPosition
  else if str_eqb line "uci" then CUci
  else if has_prefix line "go" then CGo
  else if str_eqb line "stop" then CStop
  else if has_prefix line "setoption" then CSetoption
  else if str_eqb line "tostr" then CTostr
  else if has_prefix line "perft" then CPerft
  else if has_prefix line "tperft" then CTperft
  else if str_eqb line "help" then CHelp
  else COther.

(* the argument text each handler receives *)
Definition arg_of (line kw : string) : string := trim_space (trim_prefix line kw).

Definition handle_cls (run_search : Z -> nat -> sst -> result sst) (s : sess) (e : env) (line : string) (c : cls)
  : result (sess * list out) :=
  match c with
  | CReady => Ok (with_search s, [OReadyOk])
  | CEval => match s_pos s with None => Ok (s, [ONoPositionEval]) | Some p => Ok (s, [OEval (evaluate p 0)]) end
  | CQuit => Ok (with_quit s, [])
  | CPosition => do_position_cmd s (arg_of line "position")
  | CUci => Ok (s, [OUciInfo])
  | CGo => do_go_cmd run_search s e (arg_of line "go")
  | CStop => Ok (s, [])
  | CSetoption => Ok (do_setoption_cmd s (arg_of line "setoption"), [])
  | CTostr => Ok (s, [OTostr])
  | CPerft => do o <- do_perft_cmd false s (arg_of line "perft"); Ok (s, o)
  | CTperft => do o <- do_perft_cmd true s (arg_of line "tperft"); Ok (s, o)
  | CHelp => Ok (s, [OHelp])
  | COther => Ok (s, [])
  end.

Lemma handle_classify run_search s e line :
  handle run_search s e line = handle_cls run_search s e line (classify line).
Proof.
  unfold handle, classify, arg_of.
  repeat match goal with |- context [if ?c then _ else _] => destruct c end; reflexivity.
Qed.

(* which lines fall into the prefix-dispatched classes *)
Ltac not_word H :=
  let E := fresh in
  match goal with |- context [str_eqb ?l ?w] =>
    destruct (str_eqb l w) eqn:E; [apply str_eqb_eq in E; subst l; cbn in H; try discriminate H|] end.

Lemma classify_position line : has_prefix line "position" = true -> classify line = CPosition.
Proof. intros H. unfold classify. do 3 not_word H. rewrite H. reflexivity. Qed.

Lemma classify_go line : has_prefix line "go" = true -> has_prefix line "position" = false -> classify line = CGo.
Proof. intros H N. unfold classify. do 3 not_word H. rewrite N. not_word H. rewrite H. reflexivity. Qed.

(* [handle] on a position line / go line IS the call of the handler *)
Lemma handle_position_line run_search s e line : has_prefix line "position" = true ->
  handle run_search s e line = do_position_cmd s (arg_of line "position").
Proof. intros H. rewrite handle_classify, classify_position by exact H. reflexivity. Qed.
Lemma handle_go_line run_search s e line : has_prefix line "go" = true -> has_prefix line "position" = false ->
  handle run_search s e line = do_go_cmd run_search s e (arg_of line "go").
Proof. intros H N. rewrite handle_classify, classify_go by assumption. reflexivity. Qed.
(* the literal form: "position " followed by any text *)
Lemma handle_position_literal run_search s e arg :
  handle run_search s e ("position " ++ arg) = do_position_cmd s (trim_space (String " "%char arg)).
Proof. rewrite handle_position_line by reflexivity. reflexivity. Qed.
Lemma handle_go_literal run_search s e arg :
  handle run_search s e ("go " ++ arg) = do_go_cmd run_search s e (trim_space (String " "%char arg)).
Proof. rewrite handle_go_line by reflexivity. reflexivity. Qed.

(* ====================================================================== *)
(* PART C: no input line can crash the engine                              *)
(* ====================================================================== *)
(* Room left below the int16 ply limit.  FEN accepts full-move numbers up to maxFullMoveCounter = 15933, i.e. ply up to
   31865 = 32767 - 902, so 901 (not 1000) is the largest margin the FEN loader guarantees. *)
Definition ply_margin : Z := 901.
Definition pos_ok (p : pos) : Prop := wf_legal p = true /\ ply p + ply_margin < 32767.
Definition sess_ok (s : sess) : Prop :=
  (forall p, s_pos s = Some p -> pos_ok p) /\ currmoveLogIntervalMin <= s_log s <= currmoveLogIntervalMax.

Lemma sess0_ok : sess_ok sess0.
Proof. split; [discriminate|]. cbn. unfold currmoveLogIntervalMin, currmoveLogIntervalDefault, currmoveLogIntervalMax. lia. Qed.

(* ---------- the FEN loader: ply bound (not exported by FenProofs) ---------- *)
Lemma finish_ply st f1 f2 f3 f4 f5 p : FenProofs.finish st f1 f2 f3 f4 f5 = Ok (FenOk p) -> 0 <= ply p <= 31865.
Proof.
  intros H. unfold FenProofs.finish in H. cbv zeta in H.
  do 5 match type of H with (if ?c then _ else _) = _ => destruct c; [discriminate|] end.
  destruct (FenProofs.epr_of (s_board st) (str_eqb f1 "w") f3) as [[e|]|w]; cbn [bind] in H; try discriminate.
  destruct (e =? -1); [discriminate|].
  destruct (atoi f4) as [h|]; [|discriminate].
  destruct (h <? 0); [discriminate|].
  destruct (atoi f5) as [n|]; [|discriminate].
  destruct (n <? 1) eqn:En1; [discriminate|].
  destruct (n >? maxFullMoveCounter) eqn:En2; [discriminate|].
  match type of H with (if ?c then _ else _) = _ => destruct c; [discriminate|] end.
  injection H as <-. unfold FenProofs.mk_pos. cbn [ply]. unfold maxFullMoveCounter in *.
  destruct (str_eqb f1 "w"); rewrite ?(FenProofs.int16_small ((n - 1) * 2)) by lia; rewrite ?FenProofs.int16_small by lia; lia.
Qed.
Lemma parse_fen_ply s p : parse_fen s = Ok (FenOk p) -> 0 <= ply p <= 31865.
Proof.
  rewrite FenProofs.parse_fen_eq.
  destruct (negb (is_ascii s)); [discriminate|].
  destruct (split_on " " s) as [|f0 [|f1 [|f2 [|f3 [|f4 [|f5 [|x y]]]]]]]; try discriminate.
  cbv zeta. destruct (negb (List.length (split_on "/" f0) =? 8)%nat); [discriminate|].
  destruct (scan_ranks 0 scan0 (split_on "/" f0)) as [[st f|e]|w]; cbn [bind]; try discriminate.
  apply finish_ply.
Qed.
Lemma parse_fen_pos_ok s p : parse_fen s = Ok (FenOk p) -> pos_ok p.
Proof.
  intros H. split; [eapply FenProofs.parse_fen_sound; exact H|].
  apply parse_fen_ply in H. unfold ply_margin. lia.
Qed.

Lemma startpos_wf_legal : wf_legal startpos = true.
Proof. vm_compute. reflexivity. Qed.
Lemma startpos_ok : pos_ok startpos.
Proof. split; [exact startpos_wf_legal | cbn; unfold ply_margin; lia]. Qed.

(* parsePosition never panics on any text, and what it accepts is a good position *)
Lemma parse_position_total s : exists r, parse_position s = Ok r /\ forall p, r = Some p -> pos_ok p.
Proof.
  unfold parse_position. destruct (has_prefix s "startpos").
  - eexists; split; [reflexivity|]. intros p H; injection H as <-. exact startpos_ok.
  - set (s' := match cut_prefix s "fen " with Some r => trim_space r | None => s end). clearbody s'.
    destruct (FenProofs.parse_fen_total s') as ([p|c] & E); rewrite E; cbn [bind].
    + eexists; split; [reflexivity|]. intros q H; injection H as <-. eapply parse_fen_pos_ok; exact E.
    + eexists; split; [reflexivity|]. discriminate.
Qed.

(* ---------- position without a move list ---------- *)
Definition no_move_list (arg : string) : Prop := index_str arg "moves" = None.

Lemma sess_ok_with_pos s p k : sess_ok s -> pos_ok p -> sess_ok (with_pos s (Some p) k).
Proof. intros [_ L] P. split; [|exact L]. cbn. intros q H; injection H as <-. exact P. Qed.

Lemma do_position_cmd_nomoves s arg : sess_ok s -> no_move_list arg ->
  exists s' o, do_position_cmd s arg = Ok (s', o) /\ sess_ok s'.
Proof.
  intros OK NM. unfold do_position_cmd, do_position. rewrite NM.
  destruct (parse_position_total arg) as (r & E & P). rewrite E. cbn [bind].
  destruct r as [p|]; cbn [bind].
  - do 2 eexists; split; [reflexivity|]. apply sess_ok_with_pos; auto.
  - do 2 eexists; split; [reflexivity|]. exact OK.
Qed.

(* ---------- setoption: any argument text ---------- *)
Lemma do_setoption_ok s arg : sess_ok s -> sess_ok (do_setoption_cmd s arg).
Proof.
  intros OK. unfold do_setoption_cmd.
  destruct (split_on " " arg) as [|t0 [|t1 [|t2 [|t3 [|t4 r]]]]]; try exact OK.
  destruct (str_eqb t0 "name" && str_eqb t2 "value" && str_eqb t1 "currmoveLogInterval"); [|exact OK].
  destruct (atoi t3) as [v|]; [|exact OK].
  destruct ((currmoveLogIntervalMin <=? v) && (v <=? currmoveLogIntervalMax)) eqn:E; [|exact OK].
  destruct OK as [P _]. split; [exact P|]. cbn [with_log s_log]. lia.
Qed.

(* ---------- go: everything before the search is total, for any argument text ---------- *)
Lemma allotted_never_panics w a : 1 <= ga_mtg a -> exists ns, allotted_ns w a = Ok ns.
Proof.
  intros H. unfold allotted_ns. destruct (negb (ga_movetime a =? no_movetime)); [eexists; reflexivity|].
  destruct (millis_never_panics w a H) as (m & E). rewrite E. eexists; reflexivity.
Qed.
(* the depth handed to the search is between 1 and MaxSearchDepth *)
Lemma parse_go_depth toks : forall a a', 1 <= ga_depth a <= MaxSearchDepth -> parse_go toks a = Some a' ->
  1 <= ga_depth a' <= MaxSearchDepth.
Proof.
  induction toks as [|t rest IH]; intros a a' Ha H; cbn [parse_go] in H.
  - injection H as <-. exact Ha.
  - repeat match type of H with
    | (if ?c then _ else _) = _ => destruct c eqn:?
    | match int_after rest with _ => _ end = _ => destruct (int_after rest) as [n|]; [|discriminate]
    | match ?x <? 1 with _ => _ end = _ => destruct (x <? 1) eqn:?; [discriminate|]
    end; try discriminate; try (injection H as <-; exact Ha); try (eapply IH; [|exact H]; cbn [ga_depth]; unfold MaxSearchDepth in *; lia).
Qed.
Lemma go_defaults_depth : 1 <= ga_depth go_defaults <= MaxSearchDepth.
Proof. cbn. unfold MaxSearchDepth. lia. Qed.

(* what is asked of the search: it terminates without panic from the initial state of a good position, for any killer
   table, any oracle streams, any admissible logging interval and any depth the go parser can produce *)
Definition search_total (run_search : Z -> nat -> sst -> result sst) : Prop :=
  forall log depth p k polls clock pvclock,
    pos_ok p -> currmoveLogIntervalMin <= log <= currmoveLogIntervalMax -> (1 <= depth <= Z.to_nat MaxSearchDepth)%nat ->
    exists stf, run_search log depth (sst0 p k polls clock pvclock) = Ok stf.

Lemma sess_ok_pos_eq s s' : s_pos s' = s_pos s -> s_log s' = s_log s -> sess_ok s -> sess_ok s'.
Proof. unfold sess_ok. intros -> ->. auto. Qed.

Lemma do_go_cmd_total run_search s e arg : search_total run_search -> sess_ok s ->
  exists s' o, do_go_cmd run_search s e arg = Ok (s', o) /\ sess_ok s' /\ s_pos s' = s_pos s /\ s_log s' = s_log s.
Proof.
  intros ST OK. unfold do_go_cmd. destruct (s_pos s) as [p|] eqn:P.
  2:{ do 2 eexists; split; [reflexivity|]. auto. }
  destruct (parse_go (split_on " " arg) go_defaults) as [a|] eqn:G.
  2:{ do 2 eexists; split; [reflexivity|]. split; [|split; [exact P | reflexivity]].
      eapply sess_ok_pos_eq; [| |exact OK]; reflexivity. }
  destruct (allotted_never_panics (wturn p) a (parse_go_mtg _ _ _ go_defaults_mtg G)) as (ns & A). rewrite A. cbn [bind].
  pose proof (parse_go_depth _ _ _ go_defaults_depth G) as D.
  destruct OK as [PO L].
  destruct (ST (s_log s) (Z.to_nat (ga_depth a)) p (s_killers s) (e_polls e) (e_clock e) (e_pvclock e) (PO p P) L) as (stf & R).
  { unfold MaxSearchDepth in *. lia. }
  rewrite R. cbn [bind]. do 2 eexists; split; [reflexivity|]. split; [|split; [exact P | reflexivity]].
  split; [|exact L]. cbn. exact PO.
Qed.

(* before the search nothing can panic, whatever the argument text and whatever the search does:
   a panic of the go command is a panic of the search *)
Lemma do_go_cmd_panic_is_search run_search s e arg w : do_go_cmd run_search s e arg = Panic w ->
  exists p a, s_pos s = Some p /\ parse_go (split_on " "%char arg) go_defaults = Some a /\
    run_search (s_log s) (Z.to_nat (ga_depth a)) (sst0 p (s_killers s) (e_polls e) (e_clock e) (e_pvclock e)) = Panic w.
Proof.
  unfold do_go_cmd. destruct (s_pos s) as [p|]; [|discriminate].
  destruct (parse_go (split_on " " arg) go_defaults) as [a|] eqn:G; [|discriminate].
  destruct (allotted_never_panics (wturn p) a (parse_go_mtg _ _ _ go_defaults_mtg G)) as (ns & A). rewrite A. cbn [bind].
  destruct (run_search _ _ _) eqn:R; cbn [bind]; [discriminate|]. intros H; injection H as <-. eauto.
Qed.

(* with the engine's own search the shared position stack is back to the game position afterwards *)
Lemma engine_search_stack order log depth p k polls clock pvclock stf :
  engine_search order log depth (sst0 p k polls clock pvclock) = Ok stf -> st_stack stf = [p].
Proof. unfold engine_search. intros H. apply SearchImpProofs.iterate_i_stack in H. exact H. Qed.

(* ---------- perft / tperft: any argument text ---------- *)
Definition perft_total : Prop := forall d p, pos_ok p -> 0 < d < plyBufferCapacity -> exists r, perft_divide (Z.to_nat d) p = Ok r.
Definition tperft_total : Prop := forall d p, pos_ok p -> 0 < d < plyBufferCapacity -> exists r, tperft_divide (Z.to_nat d) p = Ok r.

Lemma do_perft_cmd_total (t : bool) s arg : (if t then tperft_total else perft_total) -> sess_ok s ->
  exists o, do_perft_cmd t s arg = Ok o.
Proof.
  intros PT [PO _]. unfold do_perft_cmd. destruct (atoi arg) as [d|]; [|eexists; reflexivity].
  destruct ((d <=? 0) || (plyBufferCapacity <=? d)) eqn:E; [eexists; reflexivity|].
  destruct (s_pos s) as [p|]; [|eexists; reflexivity].
  assert (R : 0 < d < plyBufferCapacity) by lia.
  destruct t; destruct (PT d p (PO p eq_refl) R) as (r & H); rewrite H; eexists; reflexivity.
Qed.

(* ---------- the interpreter ---------- *)
(* the text after the keyword of a position line *)
Definition position_arg (line : string) : string := arg_of line "position".

(* lines handled by the interpreter alone: everything except go / perft / tperft and position with a move list *)
Definition simple_line (line : string) : Prop :=
  match classify line with
  | CGo | CPerft | CTperft => False
  | CPosition => no_move_list (position_arg line)
  | _ => True
  end.

Theorem handle_simple_total : forall run_search s e line, sess_ok s -> simple_line line ->
  exists s' o, handle run_search s e line = Ok (s', o) /\ sess_ok s'.
Proof.
  intros rs s e line OK SL. rewrite handle_classify. unfold simple_line in SL.
  destruct (classify line); cbn [handle_cls]; try contradiction;
    try (do 2 eexists; split; [reflexivity|]; first [exact OK | eapply sess_ok_pos_eq; [| |exact OK]; reflexivity]).
  - destruct (s_pos s); do 2 eexists; (split; [reflexivity | exact OK]).
  - apply do_position_cmd_nomoves; assumption.
  - do 2 eexists; split; [reflexivity|]. apply do_setoption_ok. exact OK.
Qed.

(* every line except a position command with a move list, given a total search and total perft *)
Definition not_position_with_moves (line : string) : Prop := classify line = CPosition -> no_move_list (position_arg line).

Theorem handle_total : forall run_search s e line,
  search_total run_search -> perft_total -> tperft_total ->
  sess_ok s -> not_position_with_moves line ->
  exists s' o, handle run_search s e line = Ok (s', o) /\ sess_ok s'.
Proof.
  intros rs s e line ST PT TT OK NP.
  destruct (classify line) eqn:C;
    try (apply handle_simple_total; [exact OK|]; unfold simple_line; rewrite C; try exact I; apply NP; exact C).
  - rewrite handle_classify, C. cbn [handle_cls].
    destruct (do_go_cmd_total rs s e (arg_of line "go") ST OK) as (s' & o & H & OK' & _). eauto.
  - rewrite handle_classify, C. cbn [handle_cls].
    destruct (do_perft_cmd_total false s (arg_of line "perft") PT OK) as (o & H). rewrite H. cbn [bind]. eauto.
  - rewrite handle_classify, C. cbn [handle_cls].
    destruct (do_perft_cmd_total true s (arg_of line "tperft") TT OK) as (o & H). rewrite H. cbn [bind]. eauto.
Qed.

(* the main loop never crashes on such input *)
Theorem main_loop_never_crashes : forall run_search,
  search_total run_search -> perft_total -> tperft_total ->
  forall iterations s input, sess_ok s -> Forall (fun le => not_position_with_moves (fst le)) input ->
  forall w, main_loop run_search iterations s input <> Crashed w.
Proof.
  intros rs ST PT TT. induction iterations as [|n IH]; intros s input OK F w; cbn [main_loop]; [discriminate|].
  destruct (s_quit s); [discriminate|]. destruct input as [|[l e] rest]; [discriminate|].
  inversion F as [|x y F1 F2]; subst. cbn [fst] in F1.
  destruct (handle_total rs s e l ST PT TT OK F1) as (s' & o & H & OK'). rewrite H. apply IH; assumption.
Qed.

(* ====================================================================== *)
(* PART A: the search does not depend on the logging interval              *)
(* ====================================================================== *)
Definition not_curr (e : event) : bool := match e with EvCurrMove _ _ _ => false | _ => true end.
Definition strip_curr (l : list event) : list event := filter not_curr l.

Lemma strip_curr_rev l : strip_curr (rev l) = rev (strip_curr l).
Proof.
  unfold strip_curr. induction l as [|x l IH]; [reflexivity|]. cbn [rev filter].
  rewrite filter_app, IH. cbn [filter]. destruct (not_curr x); [reflexivity | apply app_nil_r].
Qed.

(* two search states that differ only in their output, and there only in currmove events *)
Record sim (a b : sst) : Prop := {
  sim_stack : st_stack a = st_stack b; sim_nodes : st_nodes a = st_nodes b; sim_intr : st_intr a = st_intr b;
  sim_killers : st_killers a = st_killers b; sim_polls : st_polls a = st_polls b; sim_clock : st_clock a = st_clock b;
  sim_pvclock : st_pvclock a = st_pvclock b; sim_first : st_first a = st_first b;
  sim_root_moves : st_root_moves a = st_root_moves b; sim_out : strip_curr (st_out a) = strip_curr (st_out b) }.

Ltac sim_auto :=
  intros;
  repeat match goal with H : sim _ _ |- _ => destruct H end;
  constructor; cbn [st_stack st_nodes st_intr st_killers st_polls st_clock st_pvclock st_first st_root_moves st_out
                    set_stack set_nodes set_intr set_killers set_first emit pop replace_top] in *;
  try congruence.

Lemma sim_refl a : sim a a.
Proof. constructor; reflexivity. Qed.
Lemma sim_set_stack a b s1 s2 : sim a b -> s1 = s2 -> sim (set_stack a s1) (set_stack b s2).
Proof. sim_auto. Qed.
Lemma sim_set_nodes a b n1 n2 : sim a b -> n1 = n2 -> sim (set_nodes a n1) (set_nodes b n2).
Proof. sim_auto. Qed.
Lemma sim_set_intr a b i : sim a b -> sim (set_intr a i) (set_intr b i).
Proof. sim_auto. Qed.
Lemma sim_set_killers a b k1 k2 : sim a b -> k1 = k2 -> sim (set_killers a k1) (set_killers b k2).
Proof. sim_auto. Qed.
Lemma sim_set_first a b f ms : sim a b -> sim (set_first a f ms) (set_first b f ms).
Proof. sim_auto. Qed.
Lemma sim_emit a b e1 e2 : sim a b -> e1 = e2 -> sim (emit a e1) (emit b e2).
Proof. sim_auto. subst. unfold strip_curr in *. cbn [filter]. destruct (not_curr e2); congruence. Qed.
Lemma sim_emit_l a b m n k : sim a b -> sim (emit a (EvCurrMove m n k)) b.
Proof. sim_auto. exact sim_out0. Qed.
Lemma sim_emit_r a b m n k : sim a b -> sim a (emit b (EvCurrMove m n k)).
Proof. sim_auto. exact sim_out0. Qed.
Lemma sim_pop a b : sim a b -> sim (pop a) (pop b).
Proof. intros S. apply sim_set_stack; [exact S|]. rewrite (sim_stack _ _ S). reflexivity. Qed.
Lemma sim_poll a b : sim a b -> sim (poll a) (poll b).
Proof.
  intros S. unfold poll. rewrite <- (sim_polls _ _ S). destruct (st_polls a) as [|x r]; [exact S|].
  destruct S; constructor; cbn; first [congruence | assumption].
Qed.
Lemma sim_time_up a b : sim a b -> fst (time_up a) = fst (time_up b) /\ sim (snd (time_up a)) (snd (time_up b)).
Proof.
  intros S. unfold time_up. rewrite <- (sim_clock _ _ S). destruct (st_clock a) as [|x r]; cbn [fst snd]; [auto|].
  split; [reflexivity|]. destruct S; constructor; cbn; first [congruence | assumption].
Qed.
Lemma sim_pv_due a b : sim a b -> fst (pv_print_due a) = fst (pv_print_due b) /\ sim (snd (pv_print_due a)) (snd (pv_print_due b)).
Proof.
  intros S. unfold pv_print_due. rewrite <- (sim_pvclock _ _ S). destruct (st_pvclock a) as [|x r]; cbn [fst snd]; [auto|].
  split; [reflexivity|]. destruct S; constructor; cbn; first [congruence | assumption].
Qed.
Lemma sim_check_up a b : sim a b -> fst (check_up a) = fst (check_up b) /\ sim (snd (check_up a)) (snd (check_up b)).
Proof.
  intros S. unfold check_up. rewrite <- (sim_intr _ _ S). destruct (st_intr a); [auto | apply sim_time_up; exact S].
Qed.
Lemma sim_top a b : sim a b -> top a = top b.
Proof. intros S. unfold top. rewrite (sim_stack _ _ S). reflexivity. Qed.

(* frame: the root bookkeeping read by the currmove line is untouched below the root *)
Definition fr (a b : sst) : Prop := st_first b = st_first a /\ st_root_moves b = st_root_moves a.
Lemma fr_refl a : fr a a.
Proof. split; reflexivity. Qed.
Lemma fr_trans a b c : fr a b -> fr b c -> fr a c.
Proof. unfold fr. intros [] []. split; congruence. Qed.
Lemma fr_set_stack a s : fr a (set_stack a s).
Proof. split; reflexivity. Qed.
Lemma fr_set_nodes a n : fr a (set_nodes a n).
Proof. split; reflexivity. Qed.
Lemma fr_set_killers a k : fr a (set_killers a k).
Proof. split; reflexivity. Qed.
Lemma fr_emit a e : fr a (emit a e).
Proof. split; reflexivity. Qed.
Lemma fr_pop a : fr a (pop a).
Proof. split; reflexivity. Qed.
Lemma fr_poll a : fr a (poll a).
Proof. unfold poll. destruct (st_polls a); split; reflexivity. Qed.
Lemma fr_time_up a : fr a (snd (time_up a)).
Proof. unfold time_up. destruct (st_clock a); split; reflexivity. Qed.
Lemma fr_check_up a : fr a (snd (check_up a)).
Proof. unfold check_up. destruct (st_intr a); [apply fr_refl | apply fr_time_up]. Qed.

(* the currmove line finds its root move *)
Definition inrange (st : sst) : Prop := exists rmv, nth_error (st_root_moves st) (Z.to_nat (st_first st)) = Some rmv.
Lemma inrange_fr a b : fr a b -> inrange a -> inrange b.
Proof. unfold fr, inrange. intros [-> ->] H. exact H. Qed.

(* results related by R: both Ok with related values, or the same panic *)
Definition rrel {A B} (R : A -> B -> Prop) (r1 : result A) (r2 : result B) : Prop :=
  match r1, r2 with Ok a, Ok b => R a b | Panic w1, Panic w2 => w1 = w2 | _, _ => False end.
Lemma rrel_bind {A B C D} (R : A -> B -> Prop) (S : C -> D -> Prop) r1 r2 f g :
  rrel R r1 r2 -> (forall a b, R a b -> rrel S (f a) (g b)) -> rrel S (bind r1 f) (bind r2 g).
Proof. destruct r1, r2; cbn; intros H K; try contradiction; auto. Qed.
Lemma rrel_mono {A B} (R R' : A -> B -> Prop) r1 r2 : (forall a b, R a b -> R' a b) -> rrel R r1 r2 -> rrel R' r1 r2.
Proof. destruct r1, r2; cbn; auto. Qed.
Lemma rrel_eq {A} (r : result A) : rrel eq r r.
Proof. destruct r; reflexivity. Qed.

Lemma push_sim a b m : sim a b -> rrel (fun a' b' => sim a' b' /\ fr a a') (push a m) (push b m).
Proof.
  intros S. unfold push, ply_idx. rewrite <- (sim_top _ _ S), <- (sim_stack _ _ S).
  destruct (plyBufferCapacity <=? Z.of_nat (length (st_stack a)) - 1 + 1); [reflexivity|].
  destruct (top a) as [p|w]; cbn [bind]; [|reflexivity].
  destruct (make_legal p m) as [p'|w]; cbn [bind rrel]; [|reflexivity].
  split; [apply sim_set_stack; [exact S | reflexivity] | apply fr_set_stack].
Qed.

Lemma lazy_eval_st_sim a b depth x y : sim a b ->
  rrel (fun r1 r2 => fst r1 = fst r2 /\ sim (snd r1) (snd r2) /\ fr a (snd r1)) (lazy_eval_st a depth x y) (lazy_eval_st b depth x y).
Proof.
  intros S. pose proof (sim_top _ _ S) as T. destruct (top a) as [p|w] eqn:Ta.
  - rewrite (lazy_eval_st_eq a p) by exact Ta. rewrite (lazy_eval_st_eq b p) by (symmetry; exact T).
    cbn [rrel fst snd]. split; [reflexivity|]. split; [|apply fr_set_nodes].
    apply sim_set_nodes; [exact S|]. rewrite (sim_nodes _ _ S). reflexivity.
  - unfold lazy_eval_st. rewrite <- T, Ta. reflexivity.
Qed.
Lemma terminal_score_st_sim a b depth : sim a b ->
  rrel (fun r1 r2 => fst r1 = fst r2 /\ sim (snd r1) (snd r2) /\ fr a (snd r1)) (terminal_score_st a depth) (terminal_score_st b depth).
Proof.
  intros S. unfold terminal_score_st. rewrite <- (sim_top _ _ S). destruct (top a) as [p|w]; cbn [bind rrel fst snd]; [|reflexivity].
  split; [reflexivity|]. split; [|apply fr_set_nodes]. apply sim_set_nodes; [exact S|]. rewrite (sim_nodes _ _ S). reflexivity.
Qed.

(* the only place where the interval is read *)
Lemma currmove_step_sim l1 l2 a b : l1 <> 0 -> l2 <> 0 -> sim a b -> inrange a ->
  rrel (fun a' b' => sim a' b' /\ fr a a') (currmove_step l1 a) (currmove_step l2 b).
Proof.
  intros N1 N2 S (rmv & I). unfold currmove_step.
  destruct (Z.eqb_spec l1 0) as [|_]; [contradiction|]. destruct (Z.eqb_spec l2 0) as [|_]; [contradiction|].
  rewrite <- (sim_root_moves _ _ S), <- (sim_first _ _ S), I.
  destruct (st_nodes a mod l1 =? 0), (st_nodes b mod l2 =? 0); cbn [rrel].
  - split; [apply sim_emit_l, sim_emit_r; exact S | apply fr_emit].
  - split; [apply sim_emit_l; exact S | apply fr_emit].
  - split; [apply sim_emit_r; exact S | apply fr_refl].
  - split; [exact S | apply fr_refl].
Qed.

(* results of a node *)
Definition ires_sim (c1 c2 : ires) : Prop := iv c1 = iv c2 /\ iline c1 = iline c2 /\ sim (ist c1) (ist c2).
Definition ires_rel (st0 : sst) (c1 c2 : ires) : Prop := ires_sim c1 c2 /\ fr st0 (ist c1).
Lemma ires_rel_intro st0 v l s1 s2 : sim s1 s2 -> fr st0 s1 -> ires_rel st0 (ir v l s1) (ir v l s2).
Proof. intros S F. split; [split; [reflexivity | split; [reflexivity | exact S]] | exact F]. Qed.
Lemma ires_rel_fr st0 st1 r1 r2 : fr st0 st1 -> rrel (ires_rel st1) r1 r2 -> rrel (ires_rel st0) r1 r2.
Proof. intros F. apply rrel_mono. intros a b [S F']. split; [exact S | eapply fr_trans; eauto]. Qed.

Section SimLoops.
Variables child1 child2 : sst -> Z -> Z -> result ires.
Hypothesis child_sim : forall stp1 stp2 x y, sim stp1 stp2 -> inrange stp1 ->
  rrel (ires_rel stp1) (child1 stp1 x y) (child2 stp2 x y).

(* one move: push, child, pop *)
Lemma step_sim st1 st2 m x y : sim st1 st2 -> inrange st1 ->
  rrel (fun c1 c2 => iv c1 = iv c2 /\ iline c1 = iline c2 /\ sim (pop (ist c1)) (pop (ist c2)) /\ fr st1 (pop (ist c1)))
    (do stp <- push st1 m; child1 stp x y) (do stp <- push st2 m; child2 stp x y).
Proof.
  intros S I. eapply rrel_bind; [apply push_sim; exact S|]. intros stp1 stp2 [Sp Fp]. cbv beta.
  eapply rrel_mono; [|apply child_sim; [exact Sp | eapply inrange_fr; eauto]].
  intros c1 c2 [(Ev & El & Sc) Fc]. split; [exact Ev|]. split; [exact El|]. split; [apply sim_pop; exact Sc|].
  eapply fr_trans; [exact Fp|]. eapply fr_trans; [exact Fc | apply fr_pop].
Qed.

Lemma bind_assoc {A B C} (r : result A) (f : A -> result B) (g : B -> result C) :
  bind (bind r f) g = bind r (fun a => bind (f a) g).
Proof. destruct r; reflexivity. Qed.

Lemma q_loop_sim beta l : forall alpha line st1 st2, sim st1 st2 -> inrange st1 ->
  rrel (ires_rel st1) (q_loop child1 beta l alpha line st1) (q_loop child2 beta l alpha line st2).
Proof.
  induction l as [|m l IH]; intros alpha line st1 st2 S I.
  - cbn [q_loop rrel]. apply ires_rel_intro; [exact S | apply fr_refl].
  - cbn [q_loop]. rewrite <- !bind_assoc.
    eapply rrel_bind; [apply step_sim; eassumption|]. intros c1 c2 (Ev & El & Sc & Fc). cbv zeta.
    rewrite <- Ev, <- El.
    destruct (sim_check_up _ _ (sim_poll _ _ Sc)) as (Eu & Su). pose proof (fr_check_up (poll (pop (ist c1)))) as Fu.
    destruct (check_up (poll (pop (ist c1)))) as [up1 s1]. destruct (check_up (poll (pop (ist c2)))) as [up2 s2].
    cbn [fst snd] in *. subst up2. pose proof (fr_trans _ _ _ (fr_trans _ _ _ Fc (fr_poll (pop (ist c1)))) Fu) as F.
    destruct up1; [apply ires_rel_intro; assumption|].
    destruct (- iv c1 >=? beta); [apply ires_rel_intro; assumption|].
    destruct (- iv c1 >? alpha).
    + destruct (extend (rm m) (iline c1)); cbn [bind]; [|reflexivity].
      eapply ires_rel_fr; [exact F|]. apply IH; [exact Su | eapply inrange_fr; eauto].
    + eapply ires_rel_fr; [exact F|]. apply IH; [exact Su | eapply inrange_fr; eauto].
Qed.

Lemma ab_loop_i_sim beta p l : forall alpha line st1 st2, sim st1 st2 -> inrange st1 ->
  rrel (ires_rel st1) (ab_loop_i child1 beta p l alpha line st1) (ab_loop_i child2 beta p l alpha line st2).
Proof.
  induction l as [|m l IH]; intros alpha line st1 st2 S I.
  - cbn [ab_loop_i rrel]. apply ires_rel_intro; [exact S | apply fr_refl].
  - cbn [ab_loop_i]. rewrite <- (sim_intr _ _ S).
    destruct (st_intr st1); [apply ires_rel_intro; [exact S | apply fr_refl]|].
    rewrite <- !bind_assoc.
    eapply rrel_bind; [apply step_sim; eassumption|]. intros c1 c2 (Ev & El & Sc & Fc). cbv zeta.
    rewrite <- Ev, <- El.
    destruct (- iv c1 >=? beta).
    { cbn [rrel]. destruct (tactical m); [apply ires_rel_intro; assumption|].
      apply ires_rel_intro; [|eapply fr_trans; [exact Fc | apply fr_set_killers]].
      apply sim_set_killers; [exact Sc|]. rewrite (sim_killers _ _ Sc). reflexivity. }
    destruct (sim_check_up _ _ Sc) as (Eu & Su). pose proof (fr_check_up (pop (ist c1))) as Fu.
    assert (TAIL : forall al ln,
      rrel (ires_rel st1)
        (let '(up, st'') := check_up (pop (ist c1)) in
         if up then Ok (ir al ln st'') else ab_loop_i child1 beta p l al ln (poll st''))
        (let '(up, st'') := check_up (pop (ist c2)) in
         if up then Ok (ir al ln st'') else ab_loop_i child2 beta p l al ln (poll st''))).
    { intros al ln.
      destruct (check_up (pop (ist c1))) as [up1 s1]. destruct (check_up (pop (ist c2))) as [up2 s2].
      cbn [fst snd] in *. subst up2. pose proof (fr_trans _ _ _ Fc Fu) as F.
      destruct up1; [apply ires_rel_intro; assumption|].
      pose proof (fr_trans _ _ _ F (fr_poll s1)) as F'.
      eapply ires_rel_fr; [exact F'|]. apply IH; [apply sim_poll; exact Su | eapply inrange_fr; eauto]. }
    destruct (- iv c1 >? alpha).
    + destruct (extend (rm m) (iline c1)); cbn [bind]; [|reflexivity]. apply TAIL.
    + cbn [bind]. apply TAIL.
Qed.
End SimLoops.

Section SimRoot.
Variables child1 child2 : sst -> Z -> Z -> result ires.
Hypothesis child_sim : forall stp1 stp2 x y, sim stp1 stp2 -> inrange stp1 ->
  rrel (ires_rel stp1) (child1 stp1 x y) (child2 stp2 x y).

(* at the root the index is set before every child: it always points at the move being searched *)
Lemma root_loop_i_sim target sorted l : forall pre idx alpha line st1 st2,
  sorted = pre ++ l -> idx = Z.of_nat (length pre) -> sim st1 st2 ->
  rrel ires_sim (root_loop_i child1 target sorted l idx alpha line st1) (root_loop_i child2 target sorted l idx alpha line st2).
Proof.
  induction l as [|m l IH]; intros pre idx alpha line st1 st2 E EI S.
  - cbn [root_loop_i rrel]. split; [reflexivity|]. split; [reflexivity|]. apply sim_set_first. exact S.
  - cbn [root_loop_i]. cbv zeta.
    pose proof (sim_set_first _ _ idx sorted S) as S0.
    assert (I0 : inrange (set_first st1 idx sorted)).
    { exists m. cbn [set_first st_root_moves st_first]. subst sorted idx. rewrite Nat2Z.id.
      rewrite nth_error_app2 by lia. rewrite Nat.sub_diag. reflexivity. }
    set (s1 := set_first st1 idx sorted) in *. set (s2 := set_first st2 idx sorted) in *. clearbody s1 s2.
    rewrite <- (sim_intr _ _ S0). destruct (st_intr s1); [cbn [rrel]; split; [reflexivity|]; split; [reflexivity | exact S0]|].
    rewrite <- !bind_assoc.
    eapply rrel_bind; [apply step_sim; eassumption|]. intros c1 c2 (Ev & El & Sc & Fc).
    rewrite <- Ev, <- El.
    eapply rrel_bind with (R := fun t1 t2 => fst t1 = fst t2 /\ sim (snd t1) (snd t2)).
    { destruct (- iv c1 >? alpha); [|cbn [rrel fst snd]; auto].
      destruct (extend (rm m) (iline c1)) as [ln|w]; cbn [bind]; [|reflexivity].
      destruct (sim_pv_due _ _ Sc) as (Ed & Sd).
      destruct (pv_print_due (pop (ist c1))) as [due1 d1]. destruct (pv_print_due (pop (ist c2))) as [due2 d2].
      cbn [fst snd] in *. subst due2. destruct ln as [pv|]; [|reflexivity]. cbn [rrel fst snd]. split; [reflexivity|].
      destruct due1; [|exact Sd]. apply sim_emit; [exact Sd|]. rewrite (sim_nodes _ _ Sd). reflexivity. }
    intros [[al1 ln1] t1] [[al2 ln2] t2] [Et St]. cbn [fst snd] in *. injection Et as <- <-.
    destruct (sim_check_up _ _ St) as (Eu & Su).
    destruct (check_up t1) as [up1 u1]. destruct (check_up t2) as [up2 u2]. cbn [fst snd] in *. subst up2.
    destruct up1; [cbn [rrel]; split; [reflexivity|]; split; [reflexivity | exact Su]|].
    destruct (next_move_wins (- iv c1)); [cbn [rrel]; split; [reflexivity|]; split; [reflexivity | exact Su]|].
    apply (IH (pre ++ [m])); [subst sorted; rewrite <- app_assoc; reflexivity | rewrite app_length; cbn [length]; lia | apply sim_poll; exact Su].
Qed.
End SimRoot.

Section SimNodes.
Variable order : killer_table -> list move -> Z -> pos -> list rmove -> list rmove.
Variables l1 l2 : Z.
Hypothesis l1_nz : l1 <> 0.
Hypothesis l2_nz : l2 <> 0.

Lemma quiesce_i_sim : forall fuel cand st1 st2 a b depth, sim st1 st2 -> inrange st1 ->
  rrel (ires_rel st1) (quiesce_i order l1 fuel cand st1 a b depth) (quiesce_i order l2 fuel cand st2 a b depth).
Proof.
  induction fuel as [|f IH]; intros cand st1 st2 a b depth S I; [reflexivity|].
  rewrite !quiesce_i_eq. destruct (negb (row_ok depth)); [reflexivity|].
  eapply rrel_bind; [apply lazy_eval_st_sim; exact S|]. intros [sc1 e1] [sc2 e2] (Es & Se & Fe). cbn [fst snd] in *. subst sc2.
  eapply rrel_bind; [apply currmove_step_sim; [exact l1_nz | exact l2_nz | exact Se | eapply inrange_fr; eauto]|].
  intros c1 c2 [Sc Fc]. pose proof (fr_trans _ _ _ Fe Fc) as F.
  destruct (sc1 >=? b); [apply ires_rel_intro; assumption|].
  destruct (if sc1 >? a then (sc1, Some []) else (a, None)) as [alpha1 line1].
  rewrite <- (sim_top _ _ Sc). destruct (top c1) as [p|w]; cbn [bind]; [|reflexivity].
  destruct (gen_tactical p) as [tms|w]; cbn [bind]; [|reflexivity].
  rewrite <- (sim_killers _ _ Sc).
  eapply ires_rel_fr; [exact F|]. apply q_loop_sim; [|exact Sc | eapply inrange_fr; eauto].
  intros stp1 stp2 x y Sp Ip. apply IH; assumption.
Qed.

Lemma alpha_beta_i_sim : forall d cand st1 st2 a b depth, sim st1 st2 -> inrange st1 ->
  rrel (ires_rel st1) (alpha_beta_i order l1 d cand st1 a b depth) (alpha_beta_i order l2 d cand st2 a b depth).
Proof.
  induction d as [|k IH]; intros cand st1 st2 a b depth S I.
  - rewrite !alpha_beta_i_eq0. destruct (negb (row_ok depth)); [reflexivity|]. apply quiesce_i_sim; assumption.
  - rewrite !alpha_beta_i_eq. destruct (negb (row_ok depth)); [reflexivity|].
    rewrite <- (sim_top _ _ S). destruct (top st1) as [p|w]; cbn [bind]; [|reflexivity].
    destruct (gen_legal p) as [ms|w]; cbn [bind]; [|reflexivity].
    destruct ms as [|m0 ms].
    + eapply rrel_bind; [apply terminal_score_st_sim; exact S|]. intros [v1 t1] [v2 t2] (Ev & St & Ft). cbn [fst snd] in *. subst v2.
      cbn [rrel]. apply ires_rel_intro; assumption.
    + rewrite <- (sim_killers _ _ S). apply ab_loop_i_sim; [|exact S | exact I].
      intros stp1 stp2 x y Sp Ip. apply IH; assumption.
Qed.
End SimNodes.

Section SimIter.
Variable order : killer_table -> list move -> Z -> pos -> list rmove -> list rmove.
Variables l1 l2 : Z.
Hypothesis l1_nz : l1 <> 0.
Hypothesis l2_nz : l2 <> 0.

Definition ires2_sim (r1 r2 : ires * bool) : Prop := ires_sim (fst r1) (fst r2) /\ snd r1 = snd r2.

Lemma root_search_i_sim target cand st1 st2 : sim st1 st2 ->
  rrel ires2_sim (root_search_i order l1 target cand st1) (root_search_i order l2 target cand st2).
Proof.
  intros S. rewrite !root_search_i_eq. destruct (negb (row_ok 0)); [reflexivity|].
  rewrite <- (sim_top _ _ S). destruct (top st1) as [p|w]; cbn [bind]; [|reflexivity].
  destruct (gen_legal p) as [ms|w]; cbn [bind]; [|reflexivity].
  destruct ms as [|m0 ms].
  - eapply rrel_bind; [apply terminal_score_st_sim; exact S|]. intros [v1 t1] [v2 t2] (Ev & St & _). cbn [fst snd] in *. subst v2.
    cbn [rrel]. split; [|reflexivity]. cbn [fst]. split; [reflexivity|]. split; [reflexivity | exact St].
  - cbv zeta. rewrite <- (sim_killers _ _ S).
    eapply rrel_bind; [apply (root_loop_i_sim _ _ (fun stp1 stp2 x y Sp Ip => alpha_beta_i_sim order l1 l2 l1_nz l2_nz _ cand stp1 stp2 x y 1 Sp Ip)) with (pre := []); [reflexivity | reflexivity | exact S]|].
    intros r1 r2 R. cbn [rrel]. split; [exact R | reflexivity].
Qed.

Definition fin_sim (x y : Z * Z * list move * sst) : Prop :=
  fst x = fst y /\ sim (snd x) (snd y).

Lemma deepen_i_sim max_depth : forall fuel d score done_ best st1 st2, sim st1 st2 ->
  rrel fin_sim (deepen_i order l1 max_depth fuel d score done_ best st1) (deepen_i order l2 max_depth fuel d score done_ best st2).
Proof.
  induction fuel as [|f IH]; intros d score done_ best st1 st2 S; [cbn [deepen_i rrel]; split; [reflexivity | exact S]|].
  cbn [deepen_i]. destruct (max_depth <? d)%nat; [cbn [rrel]; split; [reflexivity | exact S]|].
  eapply rrel_bind; [apply root_search_i_sim; exact S|]. intros [s1 o1] [s2 o2] [(Ev & El & Ss) Eo]. cbn [fst snd] in *. subst o2.
  rewrite <- Ev, <- El.
  destruct (sim_time_up _ _ Ss) as (Eu & Su).
  destruct (time_up (ist s1)) as [up1 u1]. destruct (time_up (ist s2)) as [up2 u2]. cbn [fst snd] in *. subst up2.
  destruct up1; [cbn [rrel]; split; [reflexivity | exact Su]|].
  rewrite <- (sim_intr _ _ Su). destruct (st_intr u1); [cbn [rrel]; split; [reflexivity | exact Su]|].
  destruct (iline s1) as [[|m l]|]; [reflexivity | | reflexivity].
  cbv zeta. rewrite <- (sim_nodes _ _ Su).
  assert (Se : sim (emit u1 (EvInfoDepth (Z.of_nat d) (iv s1) (st_nodes u1) (m :: l)))
                   (emit u2 (EvInfoDepth (Z.of_nat d) (iv s1) (st_nodes u1) (m :: l)))) by (apply sim_emit; [exact Su | reflexivity]).
  destruct ((plies_to_mate (iv s1) =? Z.of_nat d) || o1); [cbn [rrel]; split; [reflexivity | exact Se]|].
  apply IH. exact Se.
Qed.

Theorem iterate_i_sim : forall n st1 st2, sim st1 st2 -> rrel sim (iterate_i order l1 n st1) (iterate_i order l2 n st2).
Proof.
  intros n st1 st2 S. rewrite !iterate_i_eq. cbv zeta.
  eapply rrel_bind; [apply root_search_i_sim; apply sim_set_nodes; [apply sim_set_intr; exact S | reflexivity]|].
  intros [s1 o1] [s2 o2] [(Ev & El & Ss) Eo]. cbn [fst snd] in *. subst o2.
  rewrite <- Ev, <- El. destruct (iline s1) as [best1|]; [|reflexivity].
  destruct (sim_time_up _ _ Ss) as (Eu & Su).
  destruct (time_up (ist s1)) as [up1 u1]. destruct (time_up (ist s2)) as [up2 u2]. cbn [fst snd] in *. subst up2.
  rewrite <- (sim_intr _ _ Su).
  eapply rrel_bind with (R := fin_sim).
  { destruct (up1 || st_intr u1 || o1 || match best1 with [] => true | _ :: _ => false end).
    - cbn [rrel]. split; [reflexivity | exact Su].
    - apply deepen_i_sim. exact Su. }
  intros [[[sc1 dn1] bs1] f1] [[[sc2 dn2] bs2] f2] [E Sf]. cbn [fst snd] in *. injection E as <- <- <-.
  destruct bs1 as [|b0 bs]; cbn [rrel].
  - apply sim_emit; [exact Sf | reflexivity].
  - apply sim_emit; [|reflexivity]. apply sim_emit; [exact Sf|]. rewrite (sim_nodes _ _ Sf). reflexivity.
Qed.
End SimIter.

(* what is observed of a search: its events without the currmove lines, the killer table, the stack, the node count *)
Definition obs (st : sst) := (strip_curr (st_out st), st_killers st, st_stack st, st_nodes st).
Definition smap_obs (r : result sst) := smap obs r.

Lemma sim_obs a b : sim a b -> obs a = obs b.
Proof. intros []. unfold obs. congruence. Qed.

(* general form: two initial states that already differ in currmove events only *)
Theorem iterate_i_log_independent_gen : forall order l1 l2 n st1 st2, l1 <> 0 -> l2 <> 0 -> sim st1 st2 ->
  smap_obs (iterate_i order l1 n st1) = smap_obs (iterate_i order l2 n st2).
Proof.
  intros order l1 l2 n st1 st2 N1 N2 S. pose proof (iterate_i_sim order l1 l2 N1 N2 n st1 st2 S) as R.
  unfold smap_obs. destruct (iterate_i order l1 n st1), (iterate_i order l2 n st2); cbn [rrel smap] in *; try contradiction.
  - rewrite (sim_obs _ _ R). reflexivity.
  - subst. reflexivity.
Qed.

(* exact equality, panics included: below the root the currmove index always points into the root move list, so the
   P_TOKEN_INDEX site is unreachable whatever the interval *)
Theorem iterate_i_log_independent : forall order l1 l2 n st, l1 <> 0 -> l2 <> 0 ->
  smap_obs (iterate_i order l1 n st) = smap_obs (iterate_i order l2 n st).
Proof. intros. apply iterate_i_log_independent_gen; [assumption | assumption | apply sim_refl]. Qed.

(* ====================================================================== *)
(* PART B: analysis is a function of position and depth only (C14)         *)
(* ====================================================================== *)
Definition strip_o (o : out) : out := match o with OSearch evs => OSearch (strip_curr evs) | _ => o end.
Definition strip_out (l : list out) : list out := map strip_o l.

(* an accepted position command: same position, no message, empty killer table, whatever the session was before *)
Theorem do_position_cmd_resets : forall s1 s2 arg s1' o1 s2' o2 p,
  do_position_cmd s1 arg = Ok (s1', o1) -> do_position_cmd s2 arg = Ok (s2', o2) ->
  s_pos s1' = Some p -> o1 = [] ->
  s_pos s2' = Some p /\ o2 = [] /\ s_killers s1' = no_killers /\ s_killers s2' = no_killers.
Proof.
  intros s1 s2 arg s1' o1 s2' o2 p H1 H2 P O. unfold do_position_cmd in *.
  destruct (do_position arg) as [[q| |[q|]]|w]; cbn [bind] in *; try discriminate;
    injection H1 as <- <-; injection H2 as <- <-; try discriminate O.
  cbn in *. auto.
Qed.

Theorem position_resets : forall run_search s1 s2 e1 e2 arg s1' o1 s2' o2 p,
  handle run_search s1 e1 ("position " ++ arg) = Ok (s1', o1) ->
  handle run_search s2 e2 ("position " ++ arg) = Ok (s2', o2) ->
  s_pos s1' = Some p -> o1 = [] ->
  s_pos s2' = Some p /\ o2 = [] /\ s_killers s1' = no_killers /\ s_killers s2' = no_killers.
Proof. intros rs s1 s2 e1 e2 arg s1' o1 s2' o2 p. rewrite !handle_position_literal. apply do_position_cmd_resets. Qed.

(* the same for any line that the dispatcher sends to the position handler *)
Theorem position_line_resets : forall run_search s1 s2 e1 e2 line s1' o1 s2' o2 p,
  has_prefix line "position" = true ->
  handle run_search s1 e1 line = Ok (s1', o1) -> handle run_search s2 e2 line = Ok (s2', o2) ->
  s_pos s1' = Some p -> o1 = [] ->
  s_pos s2' = Some p /\ o2 = [] /\ s_killers s1' = no_killers /\ s_killers s2' = no_killers.
Proof. intros rs s1 s2 e1 e2 line s1' o1 s2' o2 p HP. rewrite !handle_position_line by exact HP. apply do_position_cmd_resets. Qed.

(* go reads the position, the killer table and the logging interval, nothing else; and the interval only shows in the
   currmove lines.  Exact statement, panics included: the observable result is the same function of
   (position, killers, argument text, oracle streams). *)
Definition go_obs (r : sess * list out) := (strip_out (snd r), s_killers (fst r), s_pos (fst r)).

Theorem do_go_cmd_history_independent_gen : forall order s1 s2 e arg,
  s_pos s1 = s_pos s2 -> s_killers s1 = s_killers s2 -> s_log s1 <> 0 -> s_log s2 <> 0 ->
  smap go_obs (do_go_cmd (engine_search order) s1 e arg) = smap go_obs (do_go_cmd (engine_search order) s2 e arg).
Proof.
  intros order s1 s2 e arg EP EK N1 N2. unfold do_go_cmd. rewrite <- EP, <- EK.
  destruct (s_pos s1) as [p|] eqn:P; [|cbn; unfold go_obs; cbn; rewrite <- EK, P, EP; reflexivity].
  destruct (parse_go (split_on " " arg) go_defaults) as [a|]; [|cbn; unfold go_obs; cbn; rewrite <- EK, P, EP; reflexivity].
  destruct (allotted_ns (wturn p) a) as [ns|w]; cbn [bind smap]; [|reflexivity].
  unfold engine_search.
  pose proof (iterate_i_log_independent order (s_log s1) (s_log s2) (Z.to_nat (ga_depth a))
                (sst0 p (s_killers s1) (e_polls e) (e_clock e) (e_pvclock e)) N1 N2) as H.
  unfold smap_obs in H.
  destruct (iterate_i order (s_log s1) _ _) as [f1|w1], (iterate_i order (s_log s2) _ _) as [f2|w2];
    cbn [smap bind] in *; try discriminate H; [|injection H as ->; reflexivity].
  assert (H' : obs f1 = obs f2) by congruence. unfold obs in H'. injection H' as Ho Hk _ _.
  unfold go_obs. cbn [fst snd with_killers with_search s_killers s_pos strip_out map strip_o].
  rewrite !strip_curr_rev, Ho, Hk, P, <- EP. reflexivity.
Qed.

Theorem do_go_cmd_history_independent : forall order s1 s2 e arg s1' o1 s2' o2,
  s_pos s1 = s_pos s2 -> s_killers s1 = s_killers s2 -> s_log s1 <> 0 -> s_log s2 <> 0 ->
  do_go_cmd (engine_search order) s1 e arg = Ok (s1', o1) -> do_go_cmd (engine_search order) s2 e arg = Ok (s2', o2) ->
  strip_out o1 = strip_out o2 /\ s_killers s1' = s_killers s2' /\ s_pos s1' = s_pos s1 /\ s_pos s2' = s_pos s2.
Proof.
  intros order s1 s2 e arg s1' o1 s2' o2 EP EK N1 N2 H1 H2.
  pose proof (do_go_cmd_history_independent_gen order s1 s2 e arg EP EK N1 N2) as H.
  rewrite H1, H2 in H. cbn [smap] in H. injection H as Ho Hk Hp. cbn [fst snd] in *.
  split; [exact Ho|]. split; [exact Hk|].
  assert (K : forall s s' o, do_go_cmd (engine_search order) s e arg = Ok (s', o) -> s_pos s' = s_pos s).
  { intros s s' o G. unfold do_go_cmd in G. destruct (s_pos s) as [p|] eqn:P; [|injection G as <- _; exact P].
    destruct (parse_go _ _); [|injection G as <- _; exact P].
    destruct (allotted_ns _ _); cbn [bind] in G; [|discriminate].
    destruct (engine_search _ _ _ _); cbn [bind] in G; [|discriminate]. injection G as <- _. exact P. }
  split; eapply K; eassumption.
Qed.

(* at the level of input lines: a line with prefix "go" (and not "position", the only earlier prefix test; the exact
   words isready / eval / quit / uci tested before do not start with "go") *)
Theorem go_after_position_history_independent : forall order s1 s2 e goline s1' o1 s2' o2,
  s_pos s1 = s_pos s2 -> s_killers s1 = s_killers s2 -> s_log s1 <> 0 -> s_log s2 <> 0 ->
  has_prefix goline "go" = true -> has_prefix goline "position" = false ->
  handle (engine_search order) s1 e goline = Ok (s1', o1) -> handle (engine_search order) s2 e goline = Ok (s2', o2) ->
  strip_out o1 = strip_out o2 /\ s_killers s1' = s_killers s2' /\ s_pos s1' = s_pos s1.
Proof.
  intros order s1 s2 e goline s1' o1 s2' o2 EP EK N1 N2 HG HP. rewrite !handle_go_line by assumption. intros H1 H2.
  destruct (do_go_cmd_history_independent order s1 s2 e _ _ _ _ _ EP EK N1 N2 H1 H2) as (A & B & C & _). auto.
Qed.

(* the two together: after the same accepted position command, two sessions with arbitrary pasts (arbitrary previous
   positions, killer tables, logging intervals within range) answer the same go line identically up to currmove lines *)
Corollary position_then_go_history_independent : forall order s1 s2 e1 e2 e arg goline s1' o1 s2' o2 s1'' g1 s2'' g2 p,
  sess_ok s1 -> sess_ok s2 ->
  handle (engine_search order) s1 e1 ("position " ++ arg) = Ok (s1', o1) ->
  handle (engine_search order) s2 e2 ("position " ++ arg) = Ok (s2', o2) ->
  s_pos s1' = Some p -> o1 = [] ->
  has_prefix goline "go" = true -> has_prefix goline "position" = false ->
  handle (engine_search order) s1' e goline = Ok (s1'', g1) -> handle (engine_search order) s2' e goline = Ok (s2'', g2) ->
  strip_out g1 = strip_out g2 /\ s_killers s1'' = s_killers s2'' /\ s_pos s1'' = Some p /\ s_pos s2'' = Some p.
Proof.
  intros order s1 s2 e1 e2 e arg goline s1' o1 s2' o2 s1'' g1 s2'' g2 p [_ L1] [_ L2] H1 H2 P O HG HP G1 G2.
  destruct (position_resets _ _ _ _ _ _ _ _ _ _ _ H1 H2 P O) as (P2 & _ & K1 & K2).
  assert (LL : s_log s1' = s_log s1 /\ s_log s2' = s_log s2).
  { rewrite handle_position_literal in H1, H2. unfold do_position_cmd in H1, H2.
    destruct (do_position _) as [[q| |[q|]]|w]; cbn [bind] in *; try discriminate;
      injection H1 as <- _; injection H2 as <- _; split; reflexivity. }
  destruct LL as [E1 E2]. unfold currmoveLogIntervalMin in *.
  rewrite handle_go_line in G1, G2 by assumption.
  destruct (do_go_cmd_history_independent order s1' s2' e (arg_of goline "go") s1'' g1 s2'' g2) as (A & B & C & D);
    [congruence | congruence | lia | lia | exact G1 | exact G2 |].
  split; [exact A|]. split; [exact B|]. split; congruence.
Qed.

(* ====================================================================== *)
(* PART C, last item: position ... moves ... with a legal move list        *)
(* ====================================================================== *)
(* ---------- parseMoveString: what it accepts ---------- *)
Definition sqc (a b : Z) : Z := byte ((a - 97) + byte (Z.shiftl (b - 49) 4)).
Lemma sqc_sweep : forallb (fun i => forallb (fun j => validb (sqc (97 + Z.of_nat i) (49 + Z.of_nat j))) (seq 0 8)) (seq 0 8) = true.
Proof. vm_compute. reflexivity. Qed.
Lemma sqc_valid a b : 97 <= a <= 104 -> 49 <= b <= 56 -> validb (sqc a b) = true.
Proof.
  intros Ha Hb. pose proof sqc_sweep as S. rewrite forallb_forall in S.
  specialize (S (Z.to_nat (a - 97)) ltac:(apply in_seq; lia)). rewrite forallb_forall in S.
  specialize (S (Z.to_nat (b - 49)) ltac:(apply in_seq; lia)).
  replace (97 + Z.of_nat (Z.to_nat (a - 97))) with a in S by lia.
  replace (49 + Z.of_nat (Z.to_nat (b - 49))) with b in S by lia. exact S.
Qed.

Lemma parse_move_ok s m : parse_move s = Some m ->
  validb (mfrom m) = true /\ validb (mto m) = true /\ mep m = INVALID.
Proof.
  unfold parse_move. destruct (to_lower s) as [|c0 [|c1 [|c2 [|c3 rest]]]]; try discriminate.
  destruct ((code c0 <? 97) || (code c0 >? 104) || (code c2 <? 97) || (code c2 >? 104)) eqn:E1; [discriminate|].
  destruct ((code c1 <? 49) || (code c1 >? 56) || (code c3 <? 49) || (code c3 >? 56)) eqn:E2; [discriminate|].
  fold (sqc (code c0) (code c1)). fold (sqc (code c2) (code c3)).
  assert (V1 : validb (sqc (code c0) (code c1)) = true) by (apply sqc_valid; lia).
  assert (V2 : validb (sqc (code c2) (code c3)) = true) by (apply sqc_valid; lia).
  destruct rest as [|c4 [|c5 r]]; intros H; injection H as <-; cbn [mfrom mto mep new_move]; auto.
Qed.

(* ---------- ApplyUciMove reconstructs the en-passant target of the rules ---------- *)
Definition uci_ep (f t : Z) : Z :=
  if ((rankof f =? 96) && (rankof t =? 64)) || ((rankof f =? 16) && (rankof t =? 48)) then byte (f + t) / 2 else INVALID.
Definition pawn_shape (c : color) (f t : Z) : bool :=
  let df := GenProofs.cdf f t in let dr := GenProofs.cdr f t in
  ((df =? 0) && (dr =? Spec.fwd c)) || ((df =? 0) && (dr =? 2 * Spec.fwd c) && (snd (coords f) =? Spec.start_rank c))
  || ((Z.abs df =? 1) && (dr =? Spec.fwd c)).
Definition uci_geo (c : color) (f t : Z) : bool := implb (pawn_shape c f t) (uci_ep f t =? GenProofs.mepz f t).
Lemma uci_geo_sweep :
  forallb (fun c => forallb (fun a => forallb (uci_geo c a) valid_squares) valid_squares) [White; Black] = true.
Proof. vm_compute. reflexivity. Qed.
Lemma uci_geo_ok c f t : validb f = true -> validb t = true -> pawn_shape c f t = true -> uci_ep f t = GenProofs.mepz f t.
Proof.
  intros Hf Ht Hs. pose proof uci_geo_sweep as S. cbn [forallb] in S. apply andb_prop in S as [S1 S2]. apply andb_prop in S2 as [S2 _].
  assert (G : uci_geo c f t = true) by (destruct c; [exact (AttackProofs.sweep2 _ S1 f t Hf Ht) | exact (AttackProofs.sweep2 _ S2 f t Hf Ht)]).
  unfold uci_geo in G. rewrite Hs in G. cbn [implb] in G. apply Z.eqb_eq in G. exact G.
Qed.

Lemma pseudo_pawn_shape p f t pr : validb f = true -> validb t = true ->
  Spec.pseudo (abs p) {| Spec.mfrom := coords f; Spec.mto := coords t; Spec.promo := pr |} = true ->
  Position.get (board p) f = Pc (cur_color p) Pawn -> pawn_shape (cur_color p) f t = true.
Proof.
  intros Hf Ht H G. unfold Spec.pseudo in H. cbn [Spec.mfrom Spec.mto Spec.promo] in H.
  rewrite GenProofs.abs_brd, GenProofs.abs_turn in H. cbv zeta in H. rewrite (AttackProofs.abs_at _ _ Hf), G in H.
  cbn [abs_cell] in H. apply andb_prop in H as [_ H]. apply andb_prop in H as [_ H]. apply andb_prop in H as [_ H].
  unfold pawn_shape, GenProofs.cdf, GenProofs.cdr. cbv zeta.
  set (df := fst (coords t) - fst (coords f)) in *. set (dr := snd (coords t) - snd (coords f)) in *.
  apply orb_prop in H as [H|H]; [apply orb_prop in H as [H|H]|].
  - apply andb_prop in H as [H _]. rewrite H. reflexivity.
  - apply andb_prop in H as [H _]. apply andb_prop in H as [H _]. rewrite H. apply orb_true_iff. left. apply orb_true_r.
  - apply andb_prop in H as [H _]. rewrite H. apply orb_true_r.
Qed.

Lemma apply_uci_eq p m : apply_uci p m =
  make_legal p {| mfrom := mfrom m; mto := mto m; mpromo := mpromo m;
                  mep := if (match Position.get (board p) (mfrom m) with Pc _ Pawn => true | _ => false end)
                            && (((rankof (mfrom m) =? 96) && (rankof (mto m) =? 64)) || ((rankof (mfrom m) =? 16) && (rankof (mto m) =? 48)))
                         then byte (mfrom m + mto m) / 2 else mep m |}.
Proof. reflexivity. Qed.

Lemma apply_uci_mep p m : validb (mfrom m) = true -> validb (mto m) = true -> mep m = INVALID ->
  Spec.pseudo (abs p) (absm m) = true ->
  exists e, apply_uci p m = make_legal p {| mfrom := mfrom m; mto := mto m; mpromo := mpromo m; mep := e |}
            /\ e = mep_of p (mfrom m) (mto m).
Proof.
  intros Hf Ht He H. rewrite apply_uci_eq. eexists; split; [reflexivity|].
  destruct (GenProofs.pseudo_origin p (mfrom m) (mto m) (mpromo m) Hf Ht H) as (k & G). rewrite G.
  destruct k; try (rewrite He; cbn [andb]; symmetry; eapply GenProofs.mep_nonpawn; [exact G | discriminate]).
  rewrite (GenProofs.mep_pawn _ _ _ G), He. cbn [andb].
  apply (uci_geo_ok (cur_color p)); [exact Hf | exact Ht |]. eapply pseudo_pawn_shape; eauto.
Qed.

(* ---------- the verdict of MakeMove is not_capturable of its result ---------- *)
Lemma make_verdict p m p' ok : make p m = Ok (p', ok) -> not_capturable p' = ok.
Proof.
  unfold make. cbv zeta. intros H.
  match type of H with bind ?r _ = _ => destruct r as [[[[[a1 a2] a3] a4] a5]|]; cbn [bind] in H; [|discriminate] end.
  match type of H with bind ?r _ = _ => destruct r as [[b1 b2]|]; cbn [bind] in H; [|discriminate] end.
  match type of H with bind ?r _ = _ => destruct r as [[c1 c2]|]; cbn [bind] in H; [|discriminate] end.
  destruct (wturn p); injection H as <- <-; reflexivity.
Qed.

Section PositionMoves.
Hypothesis make_spec : make_spec_statement.

(* one move of the list *)
Lemma apply_uci_legal p m : wf_legal p = true -> Position.ply p + 1 < 32767 ->
  validb (mfrom m) = true -> validb (mto m) = true -> mep m = INVALID ->
  Spec.legal (abs p) (absm m) = true ->
  exists p', apply_uci p m = Ok p' /\ wf_legal p' = true /\ Position.ply p' = Position.ply p + 1
             /\ pos_equiv (abs p') (Spec.apply (abs p) (absm m)).
Proof.
  intros W B Hf Ht He L. unfold Spec.legal in L. apply andb_prop in L as [Ps Ck].
  destruct (apply_uci_mep p m Hf Ht He Ps) as (e & -> & Ee).
  set (m' := {| mfrom := mfrom m; mto := mto m; mpromo := mpromo m; mep := e |}).
  destruct (make_spec p m' W B Hf Ht Ps Ee) as (p' & M & W' & Q).
  change (absm m') with (absm m) in *. rewrite GenProofs.abs_turn in Ck. rewrite Ck in M.
  exists p'. unfold make_legal. rewrite M. cbn [bind snd fst]. split; [reflexivity|].
  split; [unfold wf_legal; rewrite W', (make_verdict _ _ _ _ M); reflexivity|].
  split; [|exact Q]. destruct Q as (_ & _ & _ & _ & _ & Q). cbn in Q. exact Q.
Qed.

(* the move list is legal by the rules, move after move *)
Fixpoint moves_legal (p : pos) (ms : list string) : Prop :=
  match ms with
  | [] => True
  | s :: rest => exists m, parse_move s = Some m /\ Spec.legal (abs p) (absm m) = true /\
                           forall p', apply_uci p m = Ok p' -> moves_legal p' rest
  end.

Theorem apply_moves_legal : forall ms p, wf_legal p = true -> Position.ply p + Z.of_nat (List.length ms) < 32767 ->
  moves_legal p ms ->
  exists p', apply_moves p ms = Ok (PosSet p') /\ wf_legal p' = true /\ Position.ply p' = Position.ply p + Z.of_nat (List.length ms).
Proof.
  induction ms as [|s rest IH]; intros p W B ML.
  - exists p. cbn. split; [reflexivity|]. split; [exact W | lia].
  - cbn [List.length] in B. destruct ML as (m & PM & L & K). destruct (parse_move_ok _ _ PM) as (Hf & Ht & He).
    destruct (apply_uci_legal p m W ltac:(lia) Hf Ht He L) as (p1 & A & W1 & P1 & _).
    cbn [apply_moves]. rewrite PM, A. cbn [bind].
    destruct (IH p1 W1 ltac:(lia) (K p1 A)) as (p' & R & W' & P'). exists p'. split; [exact R|]. split; [exact W'|].
    cbn [List.length]. lia.
Qed.

(* the position command: base position (any text) then a legal move list *)
Definition move_list_ok (margin : Z) (arg : string) : Prop :=
  match index_str arg "moves" with
  | None => True
  | Some i => forall p0, parse_position (trim_space (take i arg)) = Ok (Some p0) ->
      let toks := split_on " "%char (trim_space (drop (i + 5) arg)) in
      moves_legal p0 toks /\ Position.ply p0 + Z.of_nat (List.length toks) + margin < 32767
  end.

Theorem do_position_moves_legal : forall arg, move_list_ok 0 arg ->
  exists r, do_position arg = Ok r /\ (r = PosInvalidFen \/ exists p', r = PosSet p' /\ wf_legal p' = true).
Proof.
  intros arg ML. unfold do_position, move_list_ok in *. destruct (index_str arg "moves") as [i|].
  - destruct (parse_position_total (trim_space (take i arg))) as (r & E & P). rewrite E. cbn [bind].
    destruct r as [p0|]; [|eexists; split; [reflexivity | left; reflexivity]].
    destruct (ML p0 E) as (L & B). destruct (P p0 eq_refl) as [W _].
    assert (B' : Position.ply p0 + Z.of_nat (List.length (split_on " "%char (trim_space (drop (i + 5) arg)))) < 32767) by lia.
    destruct (apply_moves_legal _ p0 W B' L) as (p' & A & W' & _). rewrite A.
    eexists; split; [reflexivity|]. right. eauto.
  - destruct (parse_position_total arg) as (r & E & P). rewrite E. cbn [bind].
    destruct r as [p0|]; eexists; (split; [reflexivity|]); [right | left; reflexivity].
    exists p0. split; [reflexivity|]. apply (P p0 eq_refl).
Qed.

Lemma do_position_cmd_total s arg : sess_ok s -> move_list_ok ply_margin arg ->
  exists s' o, do_position_cmd s arg = Ok (s', o) /\ sess_ok s'.
Proof.
  intros OK ML. destruct (index_str arg "moves") as [i|] eqn:IX.
  2:{ apply do_position_cmd_nomoves; assumption. }
  unfold do_position_cmd, do_position, move_list_ok in *. rewrite IX in *.
  destruct (parse_position_total (trim_space (take i arg))) as (r & E & P). rewrite E. cbn [bind].
  destruct r as [p0|]; [|cbn [bind]; do 2 eexists; split; [reflexivity | exact OK]].
  destruct (ML p0 E) as (L & B). destruct (P p0 eq_refl) as [W _]. unfold ply_margin in *.
  assert (B' : Position.ply p0 + Z.of_nat (List.length (split_on " "%char (trim_space (drop (i + 5) arg)))) < 32767) by lia.
  destruct (apply_moves_legal _ p0 W B' L) as (p' & A & W' & P'). rewrite A. cbn [bind].
  do 2 eexists; split; [reflexivity|]. apply sess_ok_with_pos; [exact OK|]. split; [exact W'|]. unfold ply_margin. lia.
Qed.

(* C17 for every line whose position move lists (if any) are legal, given a total search and total perft *)
Definition line_ok (line : string) : Prop := classify line = CPosition -> move_list_ok ply_margin (position_arg line).

Theorem handle_total_legal_moves : forall run_search s e line,
  search_total run_search -> perft_total -> tperft_total ->
  sess_ok s -> line_ok line ->
  exists s' o, handle run_search s e line = Ok (s', o) /\ sess_ok s'.
Proof.
  intros rs s e line ST PT TT OK LO. destruct (classify line) eqn:C.
  4:{ rewrite handle_classify, C. cbn [handle_cls]. apply do_position_cmd_total; [exact OK | apply LO; exact C]. }
  all: apply handle_total; try assumption; unfold not_position_with_moves; rewrite C; discriminate.
Qed.

Theorem main_loop_never_crashes_legal_moves : forall run_search,
  search_total run_search -> perft_total -> tperft_total ->
  forall iterations s input, sess_ok s -> Forall (fun le => line_ok (fst le)) input ->
  forall w, main_loop run_search iterations s input <> Crashed w.
Proof.
  intros rs ST PT TT. induction iterations as [|n IH]; intros s input OK F w; cbn [main_loop]; [discriminate|].
  destruct (s_quit s); [discriminate|]. destruct input as [|[l e] rest]; [discriminate|].
  inversion F as [|x y F1 F2]; subst. cbn [fst] in F1.
  destruct (handle_total_legal_moves rs s e l ST PT TT OK F1) as (s' & o & H & OK'). rewrite H. apply IH; assumption.
Qed.
End PositionMoves.

(* ====================================================================== *)
Print Assumptions handle_simple_total.
Print Assumptions handle_total.
Print Assumptions main_loop_never_crashes.
Print Assumptions do_go_cmd_total.
Print Assumptions do_go_cmd_panic_is_search.
Print Assumptions do_perft_cmd_total.
Print Assumptions engine_search_stack.
Print Assumptions iterate_i_log_independent.
Print Assumptions iterate_i_log_independent_gen.
Print Assumptions position_resets.
Print Assumptions position_line_resets.
Print Assumptions do_go_cmd_history_independent_gen.
Print Assumptions go_after_position_history_independent.
Print Assumptions position_then_go_history_independent.
Print Assumptions apply_moves_legal.
Print Assumptions do_position_moves_legal.
Print Assumptions handle_total_legal_moves.
Print Assumptions main_loop_never_crashes_legal_moves.
