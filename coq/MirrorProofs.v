(* Colour symmetry of the static evaluation: evaluate (mirror_pos p) d = evaluate p d for every well-formed p.
   Proved by equivariance of the model under the square map msq (s xor 0x70) -- not through the rules of chess --
   because evaluate counts the moves of the turn-flipped position, which is not a legal chess position.
   All facts about squares, offsets and the two attack tables are finite sweeps decided by vm_compute.
   No axioms, nothing admitted. *)
From Coq Require Import ZArith List Bool Lia ZifyBool Permutation.
Require Import Base Generated Position Attack Make Gen Count Eval WF Mirror ListProofs SweepProofs AttackProofs.
Import ListNotations.
Open Scope Z_scope.

(* ================================================================ *)
(* 1. squares                                                        *)
(* ================================================================ *)

Lemma msq_inv : forall s, msq (msq s) = s.
Proof. intros s. unfold msq. rewrite Z.lxor_assoc, Z.lxor_nilpotent, Z.lxor_0_r. reflexivity. Qed.

Lemma msq_inj : forall a b, msq a = msq b -> a = b.
Proof. intros a b H. rewrite <- (msq_inv a), <- (msq_inv b), H. reflexivity. Qed.

Lemma msq_eqb : forall a b, (msq a =? msq b) = (a =? b).
Proof.
  intros a b. destruct (Z.eqb_spec a b) as [->|Hn].
  - apply Z.eqb_refl.
  - apply Z.eqb_neq. intro H. apply Hn. apply msq_inj. exact H.
Qed.

Lemma msq_range : forall s, 0 <= s < 128 -> 0 <= msq s < 128.
Proof.
  intros s Hs.
  assert (H : forallb (fun s => (0 <=? msq s) && (msq s <? 128)) squares128 = true) by (vm_compute; reflexivity).
  rewrite forallb_forall in H. specialize (H s (proj2 (squares128_In s) Hs)). lia.
Qed.

Lemma validb_msq : forall s, validb s = true -> validb (msq s) = true.
Proof. intros s H. exact (proj1 (mirror_sq_valid s H)). Qed.

Lemma validb_bounds : forall s, validb s = true -> 0 <= s < 128.
Proof. intros s H. exact (proj1 (validb_range s H)). Qed.

Lemma validb_onb : forall s, validb s = true -> onb s = true.
Proof. intros s H. exact (proj2 (validb_range s H)). Qed.

Lemma invalid_not_valid : validb INVALID = false.
Proof. reflexivity. Qed.

Lemma valid_neq_INVALID : forall s, validb s = true -> (s =? INVALID) = false.
Proof. intros s H. apply Z.eqb_neq. intro E. subst s. discriminate H. Qed.

(* file, rank, board membership under the mirror *)
Definition sq_fact (s : Z) : bool :=
  (fileof (msq s) =? fileof s) && (rankof (msq s) =? 112 - rankof s) && (rankof s =? s - fileof s)
  && (0 <=? fileof s) && (fileof s <? 8) && (0 <=? rankof s) && (rankof s <=? 112).
Lemma sq_facts : forall s, validb s = true ->
  fileof (msq s) = fileof s /\ rankof (msq s) = 112 - rankof s /\ 0 <= fileof s < 8 /\ 0 <= rankof s <= 112.
Proof.
  intros s Hs.
  assert (H : forallb sq_fact valid_squares = true) by (vm_compute; reflexivity).
  pose proof (sweep1 _ H s Hs) as F. unfold sq_fact in F. lia.
Qed.
Lemma fileof_msq : forall s, validb s = true -> fileof (msq s) = fileof s.
Proof. intros s H. apply sq_facts. exact H. Qed.
Lemma rankof_msq : forall s, validb s = true -> rankof (msq s) = 112 - rankof s.
Proof. intros s H. apply sq_facts. exact H. Qed.

Lemma rank_eqb_msq : forall s r, validb s = true -> (rankof (msq s) =? 112 - r) = (rankof s =? r).
Proof. intros s r H. rewrite (rankof_msq s H). lia. Qed.

Lemma castle_rank_opp : forall c, castle_rank (opp c) = 112 - castle_rank c.
Proof. destruct c; reflexivity. Qed.

(* ---------- the mirrored board ---------- *)

Lemma mirror_board_length : forall b, length (mirror_board b) = 128%nat.
Proof. intros b. unfold mirror_board. rewrite map_length, seq_length. reflexivity. Qed.

Lemma get_mirror : forall b s, 0 <= s < 128 -> get (mirror_board b) s = mcell (get b (msq s)).
Proof.
  intros b s Hs. unfold get at 1. unfold mirror_board.
  set (f := fun i : nat => mcell (get b (msq (Z.of_nat i)))).
  rewrite (nth_indep _ Empty (f 0%nat)) by (rewrite map_length, seq_length; lia).
  rewrite map_nth. rewrite seq_nth by lia. unfold f. rewrite Nat.add_0_l, Z2Nat.id by lia. reflexivity.
Qed.

Lemma get_mirror_msq : forall b s, 0 <= s < 128 -> get (mirror_board b) (msq s) = mcell (get b s).
Proof. intros b s Hs. rewrite get_mirror by (apply msq_range; exact Hs). rewrite msq_inv. reflexivity. Qed.

Lemma get_mirror_v : forall b s, validb s = true -> get (mirror_board b) (msq s) = mcell (get b s).
Proof. intros b s Hs. apply get_mirror_msq. apply validb_bounds. exact Hs. Qed.

Lemma board_ext : forall a b : list cell, length a = 128%nat -> length b = 128%nat ->
  (forall s, 0 <= s < 128 -> get a s = get b s) -> a = b.
Proof.
  intros a b Ha Hb H. apply (nth_ext a b Empty Empty); [congruence|].
  intros n Hn. specialize (H (Z.of_nat n)). unfold get in H. rewrite Nat2Z.id in H. apply H. lia.
Qed.

Lemma set_mirror : forall b s v, length b = 128%nat -> 0 <= s < 128 ->
  set (mirror_board b) (msq s) (mcell v) = mirror_board (set b s v).
Proof.
  intros b s v Hl Hs. pose proof (msq_range s Hs) as Hm.
  apply board_ext; [rewrite set_length; apply mirror_board_length | apply mirror_board_length |].
  intros i Hi. pose proof (msq_range i Hi) as Hmi.
  rewrite (get_mirror (set b s v)) by exact Hi.
  destruct (Z.eq_dec i (msq s)) as [->|Hn].
  - rewrite get_set_same by (rewrite mirror_board_length; lia).
    rewrite msq_inv. rewrite get_set_same by lia. reflexivity.
  - rewrite get_set_other by lia. rewrite get_mirror by exact Hi.
    rewrite get_set_other; [reflexivity | lia | lia |].
    intro E. apply Hn. rewrite E. rewrite msq_inv. reflexivity.
Qed.

Lemma set_mirror_E : forall b s, length b = 128%nat -> 0 <= s < 128 ->
  set (mirror_board b) (msq s) Empty = mirror_board (set b s Empty).
Proof. intros b s Hl Hs. exact (set_mirror b s Empty Hl Hs). Qed.

Lemma set_mirror_pc : forall b s c k, length b = 128%nat -> 0 <= s < 128 ->
  set (mirror_board b) (msq s) (Pc (opp c) k) = mirror_board (set b s (Pc c k)).
Proof. intros b s c k Hl Hs. exact (set_mirror b s (Pc c k) Hl Hs). Qed.

Lemma mcell_inv : forall x, mcell (mcell x) = x.
Proof. intros [|[] k]; reflexivity. Qed.
Lemma is_pc_mcell : forall c k x, is_pc (opp c) k (mcell x) = is_pc c k x.
Proof. intros [] k [|[] k']; reflexivity. Qed.
Lemma is_col_mcell : forall c x, is_col (opp c) (mcell x) = is_col c x.
Proof. intros [] [|[] k']; reflexivity. Qed.
Lemma is_empty_mcell : forall x, is_empty (mcell x) = is_empty x.
Proof. intros [|[] k]; reflexivity. Qed.
Lemma opp_opp : forall c, opp (opp c) = c.
Proof. destruct c; reflexivity. Qed.

(* ================================================================ *)
(* 2. the Go list idioms commute with map msq                        *)
(* ================================================================ *)

Definition rmap {A B} (f : A -> B) (r : result A) : result B :=
  match r with Ok a => Ok (f a) | Panic w => Panic w end.

Lemma index_of_map : forall a l, index_of (msq a) (map msq l) = index_of a l.
Proof.
  intros a. induction l as [|x r IH]; cbn [map index_of]; [reflexivity|].
  rewrite msq_eqb, IH. reflexivity.
Qed.

Lemma upd_map : forall A B (f : A -> B) l i v, upd (map f l) i (f v) = map f (upd l i v).
Proof.
  induction l as [|x r IH]; intros [|i] v; cbn [map upd]; try reflexivity.
  rewrite IH. reflexivity.
Qed.

Lemma replace_first_map : forall l a b, replace_first (map msq l) (msq a) (msq b) = map msq (replace_first l a b).
Proof.
  intros l a b. unfold replace_first. rewrite index_of_map.
  destruct (index_of a l); [apply upd_map | reflexivity].
Qed.

Lemma last_map : forall A B (f : A -> B) l d d', l <> [] -> last (map f l) d' = f (last l d).
Proof.
  induction l as [|x r IH]; intros d d' H; [congruence|].
  destruct r as [|y r]; [reflexivity|].
  change (last (map f (y :: r)) d' = f (last (y :: r) d)). apply IH. discriminate.
Qed.

Lemma removelast_map : forall A B (f : A -> B) l, removelast (map f l) = map f (removelast l).
Proof.
  induction l as [|x r IH]; [reflexivity|].
  destruct r as [|y r]; [reflexivity|].
  change (f x :: removelast (map f (y :: r)) = f x :: map f (removelast (y :: r))). rewrite IH. reflexivity.
Qed.

Lemma swap_remove_map : forall l i, swap_remove (map msq l) i = map msq (swap_remove l i).
Proof.
  intros l i. unfold swap_remove. destruct l as [|x r]; [reflexivity|].
  rewrite (last_map _ _ msq (x :: r) 0 0) by discriminate.
  rewrite upd_map, removelast_map. reflexivity.
Qed.

Lemma kill_map : forall why l k, kill why (map msq l) (msq k) = rmap (map msq) (kill why l k).
Proof.
  intros why l k. unfold kill. rewrite index_of_map.
  destruct (index_of k l); cbn [rmap]; [rewrite swap_remove_map|]; reflexivity.
Qed.

Lemma append_cap_map : forall why cap l s,
  append_cap why cap (map msq l) (msq s) = rmap (map msq) (append_cap why cap l s).
Proof.
  intros why cap l s. unfold append_cap. rewrite map_length.
  destruct (length l <? cap)%nat; cbn [rmap]; [rewrite map_app|]; reflexivity.
Qed.

Lemma existsb_map_ext : forall A B (f : B -> bool) (g : A -> B) (h : A -> bool) l,
  (forall x, In x l -> f (g x) = h x) -> existsb f (map g l) = existsb h l.
Proof.
  induction l as [|x r IH]; intros H; cbn [map existsb]; [reflexivity|].
  rewrite H by (left; reflexivity). rewrite IH; [reflexivity|]. intros y Hy. apply H. right. exact Hy.
Qed.

Lemma zsum_map_ext : forall A (f g : A -> Z) l, (forall x, In x l -> f x = g x) -> zsum (map f l) = zsum (map g l).
Proof. intros A f g l H. rewrite (map_ext_in f g l H). reflexivity. Qed.

(* ================================================================ *)
(* 3. tables, directions, is_under_check                             *)
(* ================================================================ *)

Definition inr (s : Z) : bool := (0 <=? s) && (s <? 128).
Definition beq (a b : bool) : bool := Bool.eqb a b.
Lemma beq_eq : forall a b, beq a b = true -> a = b.
Proof. intros a b H. apply Bool.eqb_prop. exact H. Qed.

Definition bit0 (a k : Z) : bool := Z.land a k =? 0.
Definition att_fact (from to : Z) : bool :=
  let i := move_index from to in let i' := move_index (msq from) (msq to) in
  let a := att i in let a' := att i' in
  beq (bit0 a' 64) (bit0 a 1) && beq (bit0 a' 1) (bit0 a 64)
  && beq (bit0 a' 2) (bit0 a 2) && beq (bit0 a' 4) (bit0 a 4) && beq (bit0 a' 8) (bit0 a 8)
  && beq (bit0 a' 16) (bit0 a 16) && beq (bit0 a' 32) (bit0 a 32)
  && match walk 8 (byte (from + dirt i)) (dirt i) to, walk 8 (byte (msq from + dirt i')) (dirt i') (msq to) with
     | Some l, Some l' => zleqb l' (map msq l) && forallb inr l
     | None, None => true
     | _, _ => false
     end.
Lemma att_sweep : forallb (fun a => forallb (att_fact a) valid_squares) valid_squares = true.
Proof. vm_compute. reflexivity. Qed.

Lemma att_facts : forall from to, validb from = true -> validb to = true ->
  let a := att (move_index from to) in let a' := att (move_index (msq from) (msq to)) in
  bit0 a' 64 = bit0 a 1 /\ bit0 a' 1 = bit0 a 64 /\ bit0 a' 2 = bit0 a 2 /\ bit0 a' 4 = bit0 a 4 /\
  bit0 a' 8 = bit0 a 8 /\ bit0 a' 16 = bit0 a 16 /\ bit0 a' 32 = bit0 a 32.
Proof.
  intros from to Hf Ht. pose proof (sweep2 _ att_sweep from to Hf Ht) as H. unfold att_fact in H. cbv zeta in H |- *.
  repeat (apply andb_prop in H; destruct H as [H ?]).
  repeat split; apply beq_eq; assumption.
Qed.

Lemma slide_clear_mirror : forall b from to, validb from = true -> validb to = true ->
  let i := move_index from to in let i' := move_index (msq from) (msq to) in
  slide_clear 8 (mirror_board b) (byte (msq from + dirt i')) (dirt i') (msq to)
  = slide_clear 8 b (byte (from + dirt i)) (dirt i) to.
Proof.
  intros b from to Hf Ht. cbv zeta.
  pose proof (sweep2 _ att_sweep from to Hf Ht) as H. unfold att_fact in H. cbv zeta in H.
  apply andb_prop in H. destruct H as [_ H].
  rewrite !slide_walk.
  destruct (walk 8 (byte (from + dirt (move_index from to))) (dirt (move_index from to)) to) as [l|];
  destruct (walk 8 (byte (msq from + dirt (move_index (msq from) (msq to)))) (dirt (move_index (msq from) (msq to))) (msq to)) as [l'|];
    try discriminate H; [|reflexivity].
  apply andb_prop in H. destruct H as [H1 H2]. apply zleqb_eq in H1. subst l'.
  rewrite forallb_map_comp. rewrite forallb_forall in H2.
  clear - H2. induction l as [|x r IH]; cbn [forallb]; [reflexivity|].
  rewrite IH by (intros y Hy; apply H2; right; exact Hy).
  specialize (H2 x (or_introl eq_refl)). unfold inr in H2.
  rewrite get_mirror_msq by lia. rewrite is_empty_mcell. reflexivity.
Qed.

Definition not_pawn (x : cell) : Prop := match x with Pc _ Pawn => False | _ => True end.

Lemma piece_hits_mirror : forall b from to, validb from = true -> validb to = true -> not_pawn (get b from) ->
  piece_hits (mirror_board b) (msq from) (msq to) = piece_hits b from to.
Proof.
  intros b from to Hf Ht Hnp. unfold piece_hits. cbv zeta.
  rewrite (get_mirror_v b from Hf).
  pose proof (att_facts from to Hf Ht) as A. cbv zeta in A. unfold bit0 in A.
  destruct A as [_ [_ [A2 [A4 [A8 [A16 A32]]]]]].
  pose proof (slide_clear_mirror b from to Hf Ht) as S. cbv zeta in S.
  destruct (get b from) as [|c k]; cbn [mcell]; [reflexivity|].
  destruct k; cbn [kind_bit kind_eqb not_pawn] in *; try contradiction;
    unfold enc_Knight, enc_Bishop, enc_Rook, enc_Queen, enc_King;
    rewrite ?A2, ?A4, ?A8, ?A16, ?A32, ?S; reflexivity.
Qed.

Theorem is_under_check_mirror : forall b pieces pawns king dest,
  (forall s, In s pieces -> validb s = true /\ not_pawn (get b s)) ->
  (forall s, In s pawns -> validb s = true) ->
  validb king = true -> validb dest = true -> get b king <> Empty ->
  is_under_check (mirror_board b) (map msq pieces) (map msq pawns) (msq king) (msq dest)
  = is_under_check b pieces pawns king dest.
Proof.
  intros b pieces pawns king dest Hpc Hpw Hk Hd Hne.
  rewrite !is_under_check_unfold. f_equal; [f_equal|].
  - apply existsb_map_ext. intros s Hs. specialize (Hpw s Hs).
    pose proof (att_facts s dest Hpw Hd) as A. cbv zeta in A. unfold bit0 in A. destruct A as [A1 [A2 _]].
    rewrite (get_mirror_v b king Hk).
    destruct (get b king) as [|[] k]; cbn [mcell opp]; [congruence | |];
      unfold enc_BPawnAttacks, enc_WPawnAttacks; rewrite ?A1, ?A2; reflexivity.
  - apply existsb_map_ext. intros s Hs. destruct (Hpc s Hs) as [Hv Hnp].
    apply piece_hits_mirror; assumption.
  - pose proof (att_facts king dest Hk Hd) as A. cbv zeta in A. unfold bit0 in A.
    destruct A as [_ [_ [_ [_ [_ [_ A32]]]]]]. unfold enc_KingAttacks. rewrite A32. reflexivity.
Qed.

(* ---------- directions ---------- *)

Definition mdir (d : Z) : Z := 2 * ((d + 8) mod 16 - 8) - d.     (* dr*16 + df  |->  -dr*16 + df *)

Lemma nodup_perm : forall l l' : list Z, nodupb l = true -> nodupb l' = true ->
  forallb (fun x => memb x l') l = true -> forallb (fun x => memb x l) l' = true -> Permutation l l'.
Proof.
  intros l l' H1 H2 H3 H4. apply NoDup_Permutation; [apply nodupb_NoDup; exact H1 | apply nodupb_NoDup; exact H2 |].
  rewrite forallb_forall in H3, H4. intros x. split; intros Hx.
  - apply ListProofs.memb_In. apply H3. exact Hx.
  - apply ListProofs.memb_In. apply H4. exact Hx.
Qed.

Lemma knight_perm : Permutation knight_dirs (map mdir knight_dirs).
Proof. apply nodup_perm; vm_compute; reflexivity. Qed.
Lemma king_perm : Permutation king_dirs (map mdir king_dirs).
Proof. apply nodup_perm; vm_compute; reflexivity. Qed.
Lemma bishop_perm : Permutation bishop_dirs (map mdir bishop_dirs).
Proof. apply nodup_perm; vm_compute; reflexivity. Qed.
Lemma rook_perm : Permutation rook_dirs (map mdir rook_dirs).
Proof. apply nodup_perm; vm_compute; reflexivity. Qed.

Lemma zsum_dirs : forall (F' F : Z -> Z) l, Permutation l (map mdir l) ->
  (forall d, In d l -> F' (mdir d) = F d) -> zsum (map F' l) = zsum (map F l).
Proof.
  intros F' F l P H. rewrite (zsum_map_perm F' _ _ P). rewrite map_map. apply zsum_map_ext. exact H.
Qed.

(* stepping from a valid square in a knight / king direction *)
Definition all_dirs : list Z := knight_dirs ++ king_dirs.
Definition step_fact (s d : Z) : bool :=
  let t := byte (s + d) in let t' := byte (msq s + mdir d) in
  beq (onb t') (onb t) && (if onb t then (t' =? msq t) && validb t else true).
Lemma step_sweep : forallb (fun s => forallb (step_fact s) all_dirs) valid_squares = true.
Proof. vm_compute. reflexivity. Qed.
Lemma step_facts : forall s d, validb s = true -> In d all_dirs ->
  let t := byte (s + d) in let t' := byte (msq s + mdir d) in
  onb t' = onb t /\ (onb t = true -> t' = msq t /\ validb t = true).
Proof.
  intros s d Hs Hd. cbv zeta. pose proof (sweep1 _ step_sweep s Hs) as H. cbv beta in H.
  rewrite forallb_forall in H. specialize (H d Hd). unfold step_fact in H. cbv zeta in H.
  apply andb_prop in H. destruct H as [H1 H2]. apply beq_eq in H1. split; [exact H1|].
  intros E. rewrite E in H2. apply andb_prop in H2. destruct H2 as [H2 H3]. apply Z.eqb_eq in H2. tauto.
Qed.
Lemma in_all_knight : forall d, In d knight_dirs -> In d all_dirs.
Proof. intros d H. unfold all_dirs. apply in_or_app. left. exact H. Qed.
Lemma in_all_king : forall d, In d king_dirs -> In d all_dirs.
Proof. intros d H. unfold all_dirs. apply in_or_app. right. exact H. Qed.
Lemma in_all_bishop : forall d, In d bishop_dirs -> In d all_dirs.
Proof. intros d H. apply in_all_king. revert d H. apply incl_Forall_in_iff. vm_compute. repeat constructor; tauto. Qed.
Lemma in_all_rook : forall d, In d rook_dirs -> In d all_dirs.
Proof. intros d H. apply in_all_king. revert d H. apply incl_Forall_in_iff. vm_compute. repeat constructor; tauto. Qed.

(* ================================================================ *)
(* 4. make, cut into stages                                          *)
(* ================================================================ *)

Definition st1_t : Type := (list Z * list Z * Z * list cell * bool)%type.
Definition stage1 (c : color) (b : list cell) (from to : Z) (promo : option kind) (cpieces cpawns : list Z) (cking : Z)
  : result st1_t :=
  let crank := castle_rank c in
  if is_pc c Pawn (get b from) then
    match promo with
    | None => Ok (cpieces, replace_first cpawns from to, cking, b, false)
    | Some _ =>
        match index_of from cpawns with
        | Some i => do cp <- append_cap P_APPEND_PIECE pieceCap cpieces to; Ok (cp, swap_remove cpawns i, cking, b, false)
        | None => Ok (cpieces, cpawns, cking, b, false)
        end
    end
  else if from =? cking then
    if fileof from =? 4 then
      if fileof to =? 2 then
        Ok (replace_first cpieces (0 + crank) (3 + crank), cpawns, to,
            set (set b (0 + crank) Empty) (3 + crank) (Pc c Rook), true)
      else if fileof to =? 6 then
        Ok (replace_first cpieces (7 + crank) (5 + crank), cpawns, to,
            set (set b (7 + crank) Empty) (5 + crank) (Pc c Rook), true)
      else Ok (cpieces, cpawns, to, b, true)
    else Ok (cpieces, cpawns, to, b, true)
  else Ok (replace_first cpieces from to, cpawns, cking, b, false).

Definition stage2 (e : color) (b1 : list cell) (to : Z) (epieces epawns : list Z) : result (list Z * list Z) :=
  match get b1 to with
  | Empty => Ok (epieces, epawns)
  | _ => if is_pc e King (get b1 to) then Ok (epieces, epawns)
         else if is_pc e Pawn (get b1 to) then do ep' <- kill P_KILL_PAWN epawns to; Ok (epieces, ep')
         else do ep' <- kill P_KILL_PIECE epieces to; Ok (ep', epawns)
  end.

Definition stage3 (c : color) (b1 : list cell) (from to : Z) (promo : option kind) (epold : Z) (epawns1 : list Z)
  : result (list cell * list Z) :=
  match promo with
  | None =>
      let b2 := set b1 to (get b1 from) in
      if (epold =? to) && is_pc c Pawn (get b2 from) then
        let ks := fileof to + rankof from in
        do ep' <- kill P_KILL_PAWN epawns1 ks; Ok (set b2 ks Empty, ep')
      else Ok (b2, epawns1)
  | Some k => Ok (set b1 to (Pc c k), epawns1)
  end.

Definition build (p : pos) (m : move) (cpieces1 cpawns1 : list Z) (cking1 : Z) (king_moved : bool)
  (epieces1 epawns2 : list Z) (b4 : list cell) : pos :=
  let c := cur_color p in let e := opp c in
  let from := mfrom m in let to := mto m in
  let crank := castle_rank c in let erank := castle_rank e in
  let cK := (if wturn p then wK p else bK p) && negb king_moved && negb ((fileof from =? 7) && (rankof from =? crank)) in
  let cQ := (if wturn p then wQ p else bQ p) && negb king_moved && negb ((fileof from =? 0) && (rankof from =? crank)) in
  let eK := (if wturn p then bK p else wK p) && negb ((fileof to =? 7) && (rankof to =? erank)) in
  let eQ := (if wturn p then bQ p else wQ p) && negb ((fileof to =? 0) && (rankof to =? erank)) in
  let ply' := int16 (ply p + 1) in
  if wturn p then
    {| board := b4; bpieces := epieces1; wpieces := cpieces1; bpawns := epawns2; wpawns := cpawns1; bking := en_king p; wking := cking1;
       wturn := false; wK := cK; wQ := cQ; bK := eK; bQ := eQ; ep := mep m; ply := ply' |}
  else
    {| board := b4; bpieces := cpieces1; wpieces := epieces1; bpawns := cpawns1; wpawns := epawns2; bking := cking1; wking := en_king p;
       wturn := true; wK := eK; wQ := eQ; bK := cK; bQ := cQ; ep := mep m; ply := ply' |}.

Definition make_staged (p : pos) (m : move) : result (pos * bool) :=
  do st1 <- stage1 (cur_color p) (board p) (mfrom m) (mto m) (mpromo m) (cur_pieces p) (cur_pawns p) (cur_king p);
  let '(cpieces1, cpawns1, cking1, b1, king_moved) := st1 in
  do st2 <- stage2 (opp (cur_color p)) b1 (mto m) (en_pieces p) (en_pawns p);
  let '(epieces1, epawns1) := st2 in
  do st3 <- stage3 (cur_color p) b1 (mfrom m) (mto m) (mpromo m) (ep p) epawns1;
  let '(b3, epawns2) := st3 in
  let b4 := set b3 (mfrom m) Empty in
  Ok (build p m cpieces1 cpawns1 cking1 king_moved epieces1 epawns2 b4,
      negb (is_under_check b4 epieces1 epawns2 (en_king p) cking1)).

Lemma make_eq : forall p m, make p m = make_staged p m.
Proof. reflexivity. Qed.

(* ---------- each stage is equivariant ---------- *)

Definition m5 (x : st1_t) : st1_t :=
  let '(a, b, k, bd, km) := x in (map msq a, map msq b, msq k, mirror_board bd, km).
Definition m2 (x : list Z * list Z) : list Z * list Z := (map msq (fst x), map msq (snd x)).
Definition m3 (x : list cell * list Z) : list cell * list Z := (mirror_board (fst x), map msq (snd x)).
Definition mep' (x : Z) : Z := if x =? INVALID then INVALID else msq x.

Lemma csq : forall c i, In i [0; 3; 5; 7] ->
  i + castle_rank (opp c) = msq (i + castle_rank c) /\ 0 <= i + castle_rank c < 128.
Proof.
  intros c i H. cbn [In] in H.
  destruct c; destruct H as [<-|[<-|[<-|[<-|[]]]]]; (split; [reflexivity | cbn; lia]).
Qed.

Lemma stage1_mirror : forall c b from to promo cpieces cpawns cking,
  length b = 128%nat -> validb from = true -> validb to = true ->
  stage1 (opp c) (mirror_board b) (msq from) (msq to) promo (map msq cpieces) (map msq cpawns) (msq cking)
  = rmap m5 (stage1 c b from to promo cpieces cpawns cking).
Proof.
  intros c b from to promo cpieces cpawns cking Hl Hf Ht.
  unfold stage1. cbv zeta.
  rewrite (get_mirror_v b from Hf), is_pc_mcell, msq_eqb, (fileof_msq from Hf), (fileof_msq to Ht).
  destruct (is_pc c Pawn (get b from)).
  - destruct promo as [k|].
    + rewrite index_of_map. destruct (index_of from cpawns) as [i|]; [|reflexivity].
      rewrite append_cap_map. destruct (append_cap P_APPEND_PIECE pieceCap cpieces to); cbn [rmap bind m5]; [|reflexivity].
      rewrite swap_remove_map. reflexivity.
    + cbn [rmap m5]. rewrite replace_first_map. reflexivity.
  - destruct (from =? cking).
    + destruct (fileof from =? 4); [|reflexivity].
      destruct (csq c 0 ltac:(cbn; tauto)) as [E0 R0]. destruct (csq c 3 ltac:(cbn; tauto)) as [E3 R3].
      destruct (csq c 5 ltac:(cbn; tauto)) as [E5 R5]. destruct (csq c 7 ltac:(cbn; tauto)) as [E7 R7].
      destruct (fileof to =? 2).
      * cbn [rmap m5]. rewrite E0, E3, replace_first_map.
        rewrite set_mirror_E by assumption. rewrite set_mirror_pc by (rewrite ?set_length; assumption). reflexivity.
      * destruct (fileof to =? 6); [|reflexivity].
        cbn [rmap m5]. rewrite E7, E5, replace_first_map.
        rewrite set_mirror_E by assumption. rewrite set_mirror_pc by (rewrite ?set_length; assumption). reflexivity.
    + cbn [rmap m5]. rewrite replace_first_map. reflexivity.
Qed.

Lemma stage2_mirror : forall e b1 to epieces epawns, validb to = true ->
  stage2 (opp e) (mirror_board b1) (msq to) (map msq epieces) (map msq epawns)
  = rmap m2 (stage2 e b1 to epieces epawns).
Proof.
  intros e b1 to epieces epawns Ht. unfold stage2. rewrite (get_mirror_v b1 to Ht).
  destruct (get b1 to) as [|c' k]; cbn [mcell]; [reflexivity|].
  change (Pc (opp c') k) with (mcell (Pc c' k)). rewrite !is_pc_mcell.
  destruct (is_pc e King (Pc c' k)); [reflexivity|].
  destruct (is_pc e Pawn (Pc c' k)); rewrite kill_map.
  - destruct (kill P_KILL_PAWN epawns to); reflexivity.
  - destruct (kill P_KILL_PIECE epieces to); reflexivity.
Qed.

Lemma mep'_eqb : forall e t, (e = INVALID \/ validb e = true) -> validb t = true -> (mep' e =? msq t) = (e =? t).
Proof.
  intros e t He Ht. unfold mep'. destruct He as [->|He].
  - change (INVALID =? INVALID) with true. cbv iota.
    pose proof (valid_neq_INVALID _ (validb_msq t Ht)). pose proof (valid_neq_INVALID t Ht). lia.
  - rewrite (valid_neq_INVALID e He). apply msq_eqb.
Qed.

Lemma mep'_eqb2 : forall e t, (e = INVALID \/ validb e = true) -> validb t = true -> (msq t =? mep' e) = (t =? e).
Proof. intros e t He Ht. rewrite Z.eqb_sym, (mep'_eqb e t He Ht). apply Z.eqb_sym. Qed.

Definition ks_fact (from to : Z) : bool :=
  (fileof (msq to) + rankof (msq from) =? msq (fileof to + rankof from)) && inr (fileof to + rankof from).
Lemma ks_sweep : forallb (fun a => forallb (ks_fact a) valid_squares) valid_squares = true.
Proof. vm_compute. reflexivity. Qed.
Lemma ks_facts : forall from to, validb from = true -> validb to = true ->
  fileof (msq to) + rankof (msq from) = msq (fileof to + rankof from) /\ 0 <= fileof to + rankof from < 128.
Proof.
  intros from to Hf Ht. pose proof (sweep2 _ ks_sweep from to Hf Ht) as H. unfold ks_fact, inr in H. lia.
Qed.

Lemma stage3_mirror : forall c b1 from to promo epold epawns1,
  length b1 = 128%nat -> validb from = true -> validb to = true -> (epold = INVALID \/ validb epold = true) ->
  stage3 (opp c) (mirror_board b1) (msq from) (msq to) promo (mep' epold) (map msq epawns1)
  = rmap m3 (stage3 c b1 from to promo epold epawns1).
Proof.
  intros c b1 from to promo epold epawns1 Hl Hf Ht He.
  pose proof (validb_bounds from Hf) as Bf. pose proof (validb_bounds to Ht) as Bt.
  unfold stage3. destruct promo as [k|].
  - cbn [rmap m3 fst snd]. rewrite set_mirror_pc by assumption. reflexivity.
  - cbv zeta. rewrite (get_mirror_v b1 from Hf). rewrite set_mirror by assumption.
    rewrite (get_mirror_v _ from Hf), is_pc_mcell. rewrite (mep'_eqb epold to He Ht).
    destruct ((epold =? to) && is_pc c Pawn (get (set b1 to (get b1 from)) from)); [|reflexivity].
    destruct (ks_facts from to Hf Ht) as [E R]. rewrite E, kill_map.
    destruct (kill P_KILL_PAWN epawns1 (fileof to + rankof from)); [|reflexivity].
    cbn [rmap bind m3 fst snd]. rewrite set_mirror_E by (rewrite ?set_length; assumption). reflexivity.
Qed.

Lemma cur_color_mirror : forall p, cur_color (mirror_pos p) = opp (cur_color p).
Proof. intros p. unfold cur_color, mirror_pos. cbn [wturn]. destruct (wturn p); reflexivity. Qed.
Lemma cur_pieces_mirror : forall p, cur_pieces (mirror_pos p) = map msq (cur_pieces p).
Proof. intros p. unfold cur_pieces, mirror_pos. cbn [wturn wpieces bpieces]. destruct (wturn p); reflexivity. Qed.
Lemma cur_pawns_mirror : forall p, cur_pawns (mirror_pos p) = map msq (cur_pawns p).
Proof. intros p. unfold cur_pawns, mirror_pos. cbn [wturn wpawns bpawns]. destruct (wturn p); reflexivity. Qed.
Lemma cur_king_mirror : forall p, cur_king (mirror_pos p) = msq (cur_king p).
Proof. intros p. unfold cur_king, mirror_pos. cbn [wturn wking bking]. destruct (wturn p); reflexivity. Qed.
Lemma en_pieces_mirror : forall p, en_pieces (mirror_pos p) = map msq (en_pieces p).
Proof. intros p. unfold en_pieces, mirror_pos. cbn [wturn wpieces bpieces]. destruct (wturn p); reflexivity. Qed.
Lemma en_pawns_mirror : forall p, en_pawns (mirror_pos p) = map msq (en_pawns p).
Proof. intros p. unfold en_pawns, mirror_pos. cbn [wturn wpawns bpawns]. destruct (wturn p); reflexivity. Qed.
Lemma en_king_mirror : forall p, en_king (mirror_pos p) = msq (en_king p).
Proof. intros p. unfold en_king, mirror_pos. cbn [wturn wking bking]. destruct (wturn p); reflexivity. Qed.
Lemma board_mirror : forall p, board (mirror_pos p) = mirror_board (board p).
Proof. reflexivity. Qed.
Lemma ep_mirror : forall p, ep (mirror_pos p) = mep' (ep p).
Proof. reflexivity. Qed.

Lemma build_mirror : forall p m cp1 cpw1 ck1 km ep1 epw2 b4,
  validb (mfrom m) = true -> validb (mto m) = true ->
  build (mirror_pos p) (mirror_move m) (map msq cp1) (map msq cpw1) (msq ck1) km (map msq ep1) (map msq epw2) (mirror_board b4)
  = mirror_pos (build p m cp1 cpw1 ck1 km ep1 epw2 b4).
Proof.
  intros p m cp1 cpw1 ck1 km ep1 epw2 b4 Hf Ht.
  destruct (sq_facts _ Hf) as [F1 [F2 _]]. destruct (sq_facts _ Ht) as [T1 [T2 _]].
  destruct p as [bd bp wp bpw wpw bk wk wt fwK fwQ fbK fbQ e pl].
  unfold build, mirror_pos, mirror_move, cur_color, en_king. cbv zeta.
  cbn [board bpieces wpieces bpawns wpawns bking wking wturn wK wQ bK bQ ep ply mfrom mto mep].
  rewrite F1, F2, T1, T2.
  destruct wt; cbn [negb castle_rank opp board bpieces wpieces bpawns wpawns bking wking wturn wK wQ bK bQ ep ply];
    f_equal; lia.
Qed.

(* ================================================================ *)
(* 5. the shape of a position, and what make leaves behind            *)
(* ================================================================ *)

Definition offboard_empty (b : list cell) : Prop := forall s, 0 <= s -> validb s = false -> get b s = Empty.

(* everything of wf that does not depend on the side to move: holds of p and of flip_turn p *)
Definition shape (p : pos) : Prop :=
  length (board p) = 128%nat
  /\ offboard_empty (board p)
  /\ lists_ok (board p) White (wpieces p) (wpawns p) (wking p) = true
  /\ lists_ok (board p) Black (bpieces p) (bpawns p) (bking p) = true
  /\ (forall s, In s (wpawns p ++ bpawns p) -> rankof s <> 0 /\ rankof s <> 112)
  /\ castle_flags_ok p = true
  /\ (ep p = INVALID \/ validb (ep p) = true).

Lemma wf_shape : forall p, wf p = true -> shape p.
Proof.
  intros p H. unfold wf in H. cbv zeta in H.
  apply andb_prop in H. destruct H as [H _]. apply andb_prop in H. destruct H as [H _].
  apply andb_prop in H. destruct H as [H Hep]. apply andb_prop in H. destruct H as [H Hcf].
  apply andb_prop in H. destruct H as [H Hrk]. apply andb_prop in H. destruct H as [H _].
  apply andb_prop in H. destruct H as [H _]. apply andb_prop in H. destruct H as [H _].
  apply andb_prop in H. destruct H as [H _]. apply andb_prop in H. destruct H as [H HLB].
  apply andb_prop in H. destruct H as [H HLW]. apply andb_prop in H. destruct H as [Hlen Hoff].
  apply Nat.eqb_eq in Hlen. rewrite forallb_forall in Hoff, Hrk.
  unfold shape. split; [exact Hlen|]. split; [|split; [exact HLW|split; [exact HLB|split; [|split; [exact Hcf|]]]]].
  - intros s Hs Hv. destruct (Z_lt_ge_dec s 128) as [Hlt|Hge].
    + specialize (Hoff s (proj2 (squares128_In s) (conj Hs Hlt))).
      unfold validb in Hv. destruct (get (board p) s); [reflexivity|].
      cbn [is_empty] in Hoff. clear - Hs Hlt Hv Hoff. lia.
    + unfold get. apply nth_overflow. lia.
  - intros s Hs. specialize (Hrk s Hs). clear - Hrk. lia.
  - unfold ep_ok in Hep. cbv zeta in Hep. revert Hep. clear. intros He.
    destruct (ep p =? INVALID) eqn:E; [left; lia|right].
    destruct (wturn p); lia.
Qed.

Lemma shape_flip : forall p, shape p -> shape (flip_turn p).
Proof. intros p H. exact H. Qed.

Lemma shape_cur : forall p, shape p ->
  lists_ok (board p) (cur_color p) (cur_pieces p) (cur_pawns p) (cur_king p) = true.
Proof.
  intros p [_ [_ [HW [HB _]]]]. unfold cur_color, cur_pieces, cur_pawns, cur_king. destruct (wturn p); assumption.
Qed.
Lemma shape_en : forall p, shape p ->
  lists_ok (board p) (opp (cur_color p)) (en_pieces p) (en_pawns p) (en_king p) = true.
Proof.
  intros p [_ [_ [HW [HB _]]]]. unfold cur_color, en_pieces, en_pawns, en_king. destruct (wturn p); assumption.
Qed.

Lemma lists_ok_nodup : forall b c pieces pawns king, lists_ok b c pieces pawns king = true -> NoDup pieces /\ NoDup pawns.
Proof.
  intros b c pieces pawns king H. unfold lists_ok in H.
  repeat (apply andb_prop in H; destruct H as [H ?]).
  split; apply nodupb_NoDup; assumption.
Qed.

Definition noncastle (cking from to : Z) : Prop :=
  ~ (from = cking /\ fileof from = 4 /\ (fileof to = 2 \/ fileof to = 6)).

Definition okmove (p : pos) (m : move) : Prop :=
  validb (mfrom m) = true /\ validb (mto m) = true /\ (mep m = INVALID \/ validb (mep m) = true)
  /\ is_col (cur_color p) (get (board p) (mfrom m)) = true
  /\ noncastle (cur_king p) (mfrom m) (mto m).

Lemma stage1_frame : forall c b from to promo cpieces cpawns cking cp1 cpw1 ck1 b1 km,
  noncastle cking from to ->
  stage1 c b from to promo cpieces cpawns cking = Ok (cp1, cpw1, ck1, b1, km) ->
  b1 = b /\ (ck1 = cking \/ ck1 = to).
Proof.
  intros c b from to promo cpieces cpawns cking cp1 cpw1 ck1 b1 km NC H. unfold stage1 in H. cbv zeta in H.
  destruct (is_pc c Pawn (get b from)).
  - destruct promo as [k|].
    + destruct (index_of from cpawns) as [i|].
      * destruct (append_cap P_APPEND_PIECE pieceCap cpieces to); cbn [bind] in H; inversion H; subst; tauto.
      * inversion H; subst; tauto.
    + inversion H; subst; tauto.
  - destruct (from =? cking) eqn:E1.
    + destruct (fileof from =? 4) eqn:E2.
      * destruct (fileof to =? 2) eqn:E3; [exfalso; apply NC; lia|].
        destruct (fileof to =? 6) eqn:E4; [exfalso; apply NC; lia|].
        inversion H; subst; tauto.
      * inversion H; subst; tauto.
    + inversion H; subst; tauto.
Qed.

Lemma piece_not_cell : forall b e pieces pawns king s x, lists_ok b e pieces pawns king = true ->
  In s pieces -> get b s = x ->
  match x with Empty => False | Pc _ Pawn => False | Pc _ King => False | _ => True end.
Proof.
  intros b e pieces pawns king s x L Hin G. destruct (lo_piece _ _ _ _ _ _ L Hin) as [_ [k [Hk G2]]].
  rewrite G2 in G. subst x. destruct k; try discriminate Hk; exact I.
Qed.

Lemma stage2_inv : forall e b to epieces epawns eking ep1 epw1,
  lists_ok b e epieces epawns eking = true ->
  stage2 e b to epieces epawns = Ok (ep1, epw1) ->
  (forall s, In s ep1 -> In s epieces /\ s <> to) /\ (forall s, In s epw1 -> In s epawns).
Proof.
  intros e b to epieces epawns eking ep1 epw1 L H. unfold stage2 in H.
  destruct (lists_ok_nodup _ _ _ _ _ L) as [ND _].
  assert (NP : forall s, In s epieces -> s = to ->
            match get b to with Empty => False | Pc _ Pawn => False | Pc _ King => False | _ => True end).
  { intros s Hs ->. exact (piece_not_cell _ _ _ _ _ _ _ L Hs eq_refl). }
  destruct (get b to) as [|c' k] eqn:G.
  - inversion H; subst. split; [|tauto]. intros s Hs. split; [exact Hs|]. intro E. exact (NP s Hs E).
  - destruct (is_pc e King (Pc c' k)) eqn:IK.
    + inversion H; subst. split; [|tauto]. intros s Hs. split; [exact Hs|]. intro E.
      specialize (NP s Hs E). destruct e, c', k; cbn in IK; try discriminate IK; exact NP.
    + destruct (is_pc e Pawn (Pc c' k)) eqn:IP.
      * destruct (kill P_KILL_PAWN epawns to) as [l|] eqn:K; cbn [bind] in H; inversion H; subst.
        split.
        -- intros s Hs. split; [exact Hs|]. intro E.
           specialize (NP s Hs E). destruct e, c', k; cbn in IP; try discriminate IP; exact NP.
        -- intros s Hs. apply kill_perm in K. eapply Permutation_in in K; [|right; exact Hs]. exact K.
      * destruct (kill P_KILL_PIECE epieces to) as [l|] eqn:K; cbn [bind] in H; inversion H; subst.
        split; [|tauto]. intros s Hs. apply (kill_In _ _ _ _ s ND K). exact Hs.
Qed.

Lemma stage3_inv : forall c b1 from to promo epold epw1 b3 epw2,
  length b1 = 128%nat -> validb from = true -> validb to = true ->
  stage3 c b1 from to promo epold epw1 = Ok (b3, epw2) ->
  length b3 = 128%nat
  /\ (forall s, In s epw2 -> In s epw1)
  /\ (forall s, 0 <= s -> s <> to -> get b3 s = get b1 s \/ get b3 s = Empty)
  /\ (forall s, 0 <= s -> s <> to -> ~ In s epw1 -> get b3 s = get b1 s)
  /\ (~ In to epw1 -> get b3 to = match promo with None => get b1 from | Some k => Pc c k end).
Proof.
  intros c b1 from to promo epold epw1 b3 epw2 Hl Hf Ht H.
  pose proof (validb_bounds from Hf) as Bf. pose proof (validb_bounds to Ht) as Bt.
  unfold stage3 in H. destruct promo as [k|].
  - inversion H; subst. rewrite set_length. split; [exact Hl|]. split; [tauto|].
    split; [intros s Hs Hn; left; apply get_set_other; lia|].
    split; [intros s Hs Hn _; apply get_set_other; lia|].
    intros _. apply get_set_same. lia.
  - cbv zeta in H.
    destruct ((epold =? to) && is_pc c Pawn (get (set b1 to (get b1 from)) from)).
    + destruct (ks_facts from to Hf Ht) as [_ R].
      destruct (kill P_KILL_PAWN epw1 (fileof to + rankof from)) as [l|] eqn:K; cbn [bind] in H; inversion H; subst.
      pose proof (kill_In_self _ _ _ _ K) as Hks.
      rewrite !set_length. split; [exact Hl|]. split.
      { intros s Hs. apply kill_perm in K. eapply Permutation_in in K; [|right; exact Hs]. exact K. }
      split.
      { intros s Hs Hn. destruct (Z.eq_dec s (fileof to + rankof from)) as [->|Hne].
        - right. apply get_set_same. rewrite set_length. lia.
        - left. rewrite get_set_other by lia. apply get_set_other; lia. }
      split.
      { intros s Hs Hn Hni. rewrite get_set_other; [apply get_set_other; lia | lia | lia |].
        intro E. apply Hni. rewrite <- E. exact Hks. }
      intros Hni. rewrite get_set_other; [apply get_set_same; lia | lia | lia |].
      intro E. apply Hni. rewrite <- E. exact Hks.
    + inversion H; subst. rewrite set_length. split; [exact Hl|]. split; [tauto|].
      split; [intros s Hs Hn; left; apply get_set_other; lia|].
      split; [intros s Hs Hn _; apply get_set_other; lia|].
      intros _. apply get_set_same. lia.
Qed.

Lemma color_opp_neq : forall c, color_eqb c (opp c) = false.
Proof. destruct c; reflexivity. Qed.

(* after make: the enemy lists still describe the board well enough for the pawn flag and the kind bits *)
Lemma make_inv : forall p m cp1 cpw1 ck1 b1 km ep1 epw1 b3 epw2,
  shape p -> okmove p m ->
  stage1 (cur_color p) (board p) (mfrom m) (mto m) (mpromo m) (cur_pieces p) (cur_pawns p) (cur_king p)
    = Ok (cp1, cpw1, ck1, b1, km) ->
  stage2 (opp (cur_color p)) b1 (mto m) (en_pieces p) (en_pawns p) = Ok (ep1, epw1) ->
  stage3 (cur_color p) b1 (mfrom m) (mto m) (mpromo m) (ep p) epw1 = Ok (b3, epw2) ->
  b1 = board p /\ length b3 = 128%nat
  /\ (forall s, In s ep1 -> validb s = true /\ not_pawn (get (set b3 (mfrom m) Empty) s))
  /\ (forall s, In s epw2 -> validb s = true)
  /\ validb (en_king p) = true /\ validb ck1 = true
  /\ get (set b3 (mfrom m) Empty) (en_king p) <> Empty.
Proof.
  intros p m cp1 cpw1 ck1 b1 km ep1 epw1 b3 epw2 SH [Hf [Ht [_ [Hcol NC]]]] S1 S2 S3.
  pose proof (shape_cur p SH) as LC. pose proof (shape_en p SH) as LE.
  destruct SH as [Hl _].
  destruct (stage1_frame _ _ _ _ _ _ _ _ _ _ _ _ _ NC S1) as [-> Hck].
  destruct (stage2_inv _ _ _ _ _ _ _ _ LE S2) as [I2a I2b].
  destruct (stage3_inv _ _ _ _ _ _ _ _ _ Hl Hf Ht S3) as [Hl3 [I3a [I3b [I3c I3d]]]].
  destruct (lo_king _ _ _ _ _ LE) as [HKv HKg]. destruct (lo_king _ _ _ _ _ LC) as [Hkv _].
  pose proof (validb_bounds _ Hf) as Bf. pose proof (validb_bounds _ Ht) as Bt. pose proof (validb_bounds _ HKv) as BK.
  assert (HfK : mfrom m <> en_king p).
  { intro E. rewrite E, HKg in Hcol. cbn [is_col] in Hcol. rewrite color_opp_neq in Hcol. discriminate. }
  assert (HKp : ~ In (en_king p) epw1).
  { intro Hin. apply I2b in Hin. destruct (lo_pawn _ _ _ _ _ _ LE Hin) as [_ G]. rewrite HKg in G. discriminate. }
  split; [reflexivity|]. split; [exact Hl3|]. split; [|split; [|split; [exact HKv|split]]].
  - intros s Hs. destruct (I2a s Hs) as [Hin Hne].
    destruct (lo_piece _ _ _ _ _ _ LE Hin) as [Hv [k [Hk G]]]. split; [exact Hv|].
    pose proof (validb_bounds _ Hv) as Bs.
    destruct (Z.eq_dec s (mfrom m)) as [->|Hnf].
    + rewrite get_set_same by (rewrite Hl3; clear - Bf; lia). exact I.
    + rewrite get_set_other by (clear - Bf Bs Hnf; lia). destruct (I3b s (proj1 Bs) Hne) as [E|E]; rewrite E; [|exact I].
      rewrite G. destruct k; try discriminate Hk; exact I.
  - intros s Hs. apply I3a, I2b in Hs. exact (proj1 (lo_pawn _ _ _ _ _ _ LE Hs)).
  - destruct Hck as [->| ->]; assumption.
  - rewrite get_set_other by (clear - Bf BK HfK; lia).
    destruct (Z.eq_dec (en_king p) (mto m)) as [E|Hne].
    + rewrite E in *. rewrite (I3d HKp). destruct (mpromo m); [discriminate|].
      intro G. rewrite G in Hcol. discriminate.
    + rewrite (I3c (en_king p) (proj1 BK) Hne HKp). rewrite HKg. discriminate.
Qed.

Definition mres (r : pos * bool) : pos * bool := (mirror_pos (fst r), snd r).

Lemma mfrom_mirror : forall m, mfrom (mirror_move m) = msq (mfrom m). Proof. reflexivity. Qed.
Lemma mto_mirror : forall m, mto (mirror_move m) = msq (mto m). Proof. reflexivity. Qed.
Lemma mpromo_mirror : forall m, mpromo (mirror_move m) = mpromo m. Proof. reflexivity. Qed.

Theorem make_mirror : forall p m, shape p -> okmove p m ->
  make (mirror_pos p) (mirror_move m) = rmap mres (make p m).
Proof.
  intros p m SH OK. pose proof OK as [Hf [Ht [_ [Hcol NC]]]]. pose proof SH as [Hl [_ [_ [_ [_ [_ Hep]]]]]].
  rewrite (make_eq p m), (make_eq (mirror_pos p) (mirror_move m)). unfold make_staged.
  rewrite cur_color_mirror, board_mirror, cur_pieces_mirror, cur_pawns_mirror, cur_king_mirror,
    en_pieces_mirror, en_pawns_mirror, en_king_mirror, ep_mirror, mfrom_mirror, mto_mirror, mpromo_mirror.
  rewrite (stage1_mirror _ _ _ _ _ _ _ _ Hl Hf Ht).
  destruct (stage1 (cur_color p) (board p) (mfrom m) (mto m) (mpromo m) (cur_pieces p) (cur_pawns p) (cur_king p))
    as [[[[[cp1 cpw1] ck1] b1] km]|w] eqn:S1; cbn [rmap bind m5]; [|reflexivity].
  rewrite (stage2_mirror _ _ _ _ _ Ht).
  destruct (stage2 (opp (cur_color p)) b1 (mto m) (en_pieces p) (en_pawns p)) as [[ep1 epw1]|w] eqn:S2;
    cbn [rmap bind m2 fst snd]; [|reflexivity].
  assert (Hb1 : b1 = board p) by (exact (proj1 (stage1_frame _ _ _ _ _ _ _ _ _ _ _ _ _ NC S1))).
  assert (Hl1 : length b1 = 128%nat) by (rewrite Hb1; exact Hl).
  rewrite (stage3_mirror _ _ _ _ _ _ _ Hl1 Hf Ht Hep).
  destruct (stage3 (cur_color p) b1 (mfrom m) (mto m) (mpromo m) (ep p) epw1) as [[b3 epw2]|w] eqn:S3;
    cbn [rmap bind m3 fst snd]; [|reflexivity].
  destruct (make_inv _ _ _ _ _ _ _ _ _ _ _ SH OK S1 S2 S3) as [_ [Hl3 [Hpc [Hpw [HK [Hck HKne]]]]]].
  rewrite (set_mirror_E b3 (mfrom m) Hl3 (validb_bounds _ Hf)).
  rewrite build_mirror by assumption.
  rewrite (is_under_check_mirror _ _ _ _ _ Hpc Hpw HK Hck HKne).
  reflexivity.
Qed.

Theorem is_legal_mirror : forall p m, shape p -> okmove p m ->
  is_legal (mirror_pos p) (mirror_move m) = is_legal p m.
Proof.
  intros p m SH OK. unfold is_legal. rewrite (make_mirror p m SH OK).
  destruct (make p m) as [[p' ok]|w]; reflexivity.
Qed.

(* ================================================================ *)
(* 6. count_moves                                                    *)
(* ================================================================ *)

Definition pawn_cnt (p : pos) (from : Z) : Z :=
  let e := opp (cur_color p) in let b := board p in
  let adv := adv_of p in let start_rank := start_rank_of p in let promo_rank := promo_rank_of p in
  let tq := byte (from + adv - 1) in
  let q := if onb tq && (is_col e (get b tq) || ((tq =? ep p) && negb (rankof from =? start_rank)))
           then count_pawn p from tq promo_rank else 0 in
  let tk := byte (from + adv + 1) in
  let k := if is_col e (get b tk) || ((tk =? ep p) && negb (rankof from =? start_rank))
           then count_pawn p from tk promo_rank else 0 in
  let t1 := byte (from + adv) in
  let pu := match get b t1 with
            | Empty => count_pawn p from t1 promo_rank +
                (if rankof from =? start_rank then
                   let t2 := byte (t1 + adv) in
                   match get b t2 with Empty => b2z (is_legal p {| mfrom := from; mto := t2; mpromo := None; mep := t1 |}) | _ => 0 end
                 else 0)
            | _ => 0 end in
  q + k + pu.

Definition step_cnt (p : pos) (from d : Z) : Z :=
  let t := byte (from + d) in
  if onb t && negb (is_col (cur_color p) (get (board p) t)) then b2z (is_legal p (new_move from t)) else 0.

Definition piece_cnt (p : pos) (from : Z) : Z :=
  let c := cur_color p in
  match get (board p) from with
  | Pc _ Knight => zsum (map (step_cnt p from) knight_dirs)
  | Pc _ Bishop => zsum (map (count_slide 7 p c from from) bishop_dirs)
  | Pc _ Rook => zsum (map (count_slide 7 p c from from) rook_dirs)
  | Pc _ Queen => zsum (map (count_slide 7 p c from from) queen_dirs)
  | _ => 0
  end.

Lemma count_moves_eq : forall p, count_moves p =
  zsum (map (pawn_cnt p) (cur_pawns p)) + zsum (map (piece_cnt p) (cur_pieces p))
  + zsum (map (step_cnt p (cur_king p)) king_dirs) + b2z (can_castle_q p) + b2z (can_castle_k p).
Proof. reflexivity. Qed.

Lemma adv_mirror : forall p, adv_of (mirror_pos p) = - adv_of p.
Proof. intros p. unfold adv_of, mirror_pos. cbn [wturn]. destruct (wturn p); reflexivity. Qed.
Lemma start_mirror : forall p, start_rank_of (mirror_pos p) = 112 - start_rank_of p.
Proof. intros p. unfold start_rank_of, mirror_pos. cbn [wturn]. destruct (wturn p); reflexivity. Qed.
Lemma promo_mirror : forall p, promo_rank_of (mirror_pos p) = 112 - promo_rank_of p.
Proof. intros p. unfold promo_rank_of, mirror_pos. cbn [wturn]. destruct (wturn p); reflexivity. Qed.
Lemma adv_cases : forall p, (adv_of p = 16 /\ start_rank_of p = 16) \/ (adv_of p = -16 /\ start_rank_of p = 96).
Proof. intros p. unfold adv_of, start_rank_of. destruct (wturn p); tauto. Qed.

Lemma byte_nonneg : forall z, 0 <= byte z.
Proof. intros z. unfold byte. apply Z.mod_pos_bound. lia. Qed.

(* ---------- safe squares, check ---------- *)

Lemma en_facts : forall p, shape p ->
  (forall s, In s (en_pieces p) -> validb s = true /\ not_pawn (get (board p) s))
  /\ (forall s, In s (en_pawns p) -> validb s = true)
  /\ validb (en_king p) = true /\ get (board p) (en_king p) <> Empty.
Proof.
  intros p SH. pose proof (shape_en p SH) as LE. split; [|split; [|split]].
  - intros s Hs. destruct (lo_piece _ _ _ _ _ _ LE Hs) as [Hv [k [Hk G]]]. split; [exact Hv|].
    rewrite G. destruct k; try discriminate Hk; exact I.
  - intros s Hs. exact (proj1 (lo_pawn _ _ _ _ _ _ LE Hs)).
  - exact (proj1 (lo_king _ _ _ _ _ LE)).
  - rewrite (proj2 (lo_king _ _ _ _ _ LE)). discriminate.
Qed.

Lemma safe_sq_mirror : forall p s, shape p -> validb s = true -> safe_sq (mirror_pos p) (msq s) = safe_sq p s.
Proof.
  intros p s SH Hs. unfold safe_sq. rewrite board_mirror, en_pieces_mirror, en_pawns_mirror, en_king_mirror.
  destruct (en_facts p SH) as [H1 [H2 [H3 H4]]].
  rewrite (is_under_check_mirror _ _ _ _ _ H1 H2 H3 Hs H4). reflexivity.
Qed.

Theorem in_check_mirror : forall p, shape p -> in_check (mirror_pos p) = in_check p.
Proof.
  intros p SH. unfold in_check. rewrite board_mirror, en_pieces_mirror, en_pawns_mirror, en_king_mirror, cur_king_mirror.
  destruct (en_facts p SH) as [H1 [H2 [H3 H4]]].
  pose proof (proj1 (lo_king _ _ _ _ _ (shape_cur p SH))) as Hk.
  exact (is_under_check_mirror _ _ _ _ _ H1 H2 H3 Hk H4).
Qed.

(* ---------- moves of the mover's own men are okmoves ---------- *)

Lemma okmove_new : forall p f t, validb f = true -> validb t = true ->
  is_col (cur_color p) (get (board p) f) = true -> f <> cur_king p -> okmove p (new_move f t).
Proof.
  intros p f t Hf Ht Hc Hn. unfold okmove, new_move. cbn [mfrom mto mep].
  repeat split; try assumption; [left; reflexivity|]. intros [E _]. exact (Hn E).
Qed.

Lemma cur_pawn_facts : forall p s, shape p -> In s (cur_pawns p) ->
  validb s = true /\ is_col (cur_color p) (get (board p) s) = true /\ s <> cur_king p
  /\ rankof s <> 0 /\ rankof s <> 112.
Proof.
  intros p s SH Hs. pose proof (shape_cur p SH) as LC.
  destruct (lo_pawn _ _ _ _ _ _ LC Hs) as [Hv G]. destruct (lo_king _ _ _ _ _ LC) as [_ GK].
  split; [exact Hv|]. split; [rewrite G; cbn [is_col]; apply color_eqb_refl|]. split.
  - intro E. rewrite E, GK in G. discriminate.
  - destruct SH as [_ [_ [_ [_ [HR _]]]]]. apply HR. apply in_or_app.
    unfold cur_pawns in Hs. destruct (wturn p); [left|right]; exact Hs.
Qed.

Lemma cur_piece_facts : forall p s, shape p -> In s (cur_pieces p) ->
  validb s = true /\ is_col (cur_color p) (get (board p) s) = true /\ s <> cur_king p.
Proof.
  intros p s SH Hs. pose proof (shape_cur p SH) as LC.
  destruct (lo_piece _ _ _ _ _ _ LC Hs) as [Hv [k [Hk G]]]. destruct (lo_king _ _ _ _ _ LC) as [_ GK].
  split; [exact Hv|]. split; [rewrite G; cbn [is_col]; apply color_eqb_refl|].
  intro E. rewrite E, GK in G. inversion G; subst k. discriminate Hk.
Qed.

Lemma count_pawn_mirror : forall p f t pr, shape p -> okmove p (new_move f t) ->
  count_pawn (mirror_pos p) (msq f) (msq t) (112 - pr) = count_pawn p f t pr.
Proof.
  intros p f t pr SH OK. unfold count_pawn.
  change (new_move (msq f) (msq t)) with (mirror_move (new_move f t)).
  rewrite (is_legal_mirror _ _ SH OK). destruct OK as [_ [Ht _]]. cbn [mto new_move] in Ht.
  rewrite (rank_eqb_msq t pr Ht). reflexivity.
Qed.

(* ---------- pawns ---------- *)

Definition mp (t t' : Z) : bool :=
  if onb t then (t' =? msq t) && validb t
  else negb (onb t') && negb (t =? INVALID) && negb (t' =? INVALID).
Definition pawn_fact (a st s : Z) : bool :=
  if (rankof s =? 0) || (rankof s =? 112) then true else
  mp (byte (s + a - 1)) (byte (msq s + - a - 1)) && mp (byte (s + a + 1)) (byte (msq s + - a + 1))
  && (byte (msq s + - a) =? msq (byte (s + a))) && validb (byte (s + a))
  && (if rankof s =? st
      then (byte (byte (msq s + - a) + - a) =? msq (byte (byte (s + a) + a))) && validb (byte (byte (s + a) + a))
      else true).
Lemma pawn_sweep : forallb (pawn_fact 16 16) valid_squares && forallb (pawn_fact (-16) 96) valid_squares = true.
Proof. vm_compute. reflexivity. Qed.

Definition mpP (t t' : Z) : Prop :=
  (onb t = true /\ t' = msq t /\ validb t = true) \/ (onb t = false /\ onb t' = false /\ t <> INVALID /\ t' <> INVALID).
Lemma mp_mpP : forall t t', mp t t' = true -> mpP t t'.
Proof.
  intros t t' H. unfold mp in H. unfold mpP. destruct (onb t); [left|right].
  - apply andb_prop in H. destruct H as [H1 H2]. apply Z.eqb_eq in H1. tauto.
  - destruct (onb t'); [discriminate H|]. cbn [negb andb] in H. lia.
Qed.

Lemma pawn_facts : forall a st s, (a = 16 /\ st = 16) \/ (a = -16 /\ st = 96) ->
  validb s = true -> rankof s <> 0 -> rankof s <> 112 ->
  mpP (byte (s + a - 1)) (byte (msq s + - a - 1)) /\ mpP (byte (s + a + 1)) (byte (msq s + - a + 1))
  /\ byte (msq s + - a) = msq (byte (s + a)) /\ validb (byte (s + a)) = true
  /\ ((rankof s =? st) = true ->
      byte (byte (msq s + - a) + - a) = msq (byte (byte (s + a) + a)) /\ validb (byte (byte (s + a) + a)) = true).
Proof.
  intros a st s Ha Hs R0 R7. pose proof pawn_sweep as SW. apply andb_prop in SW. destruct SW as [SW1 SW2].
  assert (F : pawn_fact a st s = true).
  { destruct Ha as [[-> ->]|[-> ->]]; [exact (sweep1 _ SW1 s Hs) | exact (sweep1 _ SW2 s Hs)]. }
  unfold pawn_fact in F.
  replace ((rankof s =? 0) || (rankof s =? 112)) with false in F by lia.
  apply andb_prop in F. destruct F as [F F5]. apply andb_prop in F. destruct F as [F F4].
  apply andb_prop in F. destruct F as [F F3]. apply andb_prop in F. destruct F as [F1 F2].
  apply mp_mpP in F1. apply mp_mpP in F2. apply Z.eqb_eq in F3.
  split; [exact F1|]. split; [exact F2|]. split; [exact F3|]. split; [exact F4|].
  intros E. rewrite E in F5. apply andb_prop in F5. destruct F5 as [G1 G2].
  split; [apply Z.eqb_eq; exact G1 | exact G2].
Qed.

Lemma onb_msq_128 : forall s, 0 <= s < 128 -> onb (msq s) = onb s.
Proof.
  intros s Hs.
  assert (H : forallb (fun s => beq (onb (msq s)) (onb s)) squares128 = true) by (vm_compute; reflexivity).
  rewrite forallb_forall in H. apply beq_eq. apply H. apply squares128_In. exact Hs.
Qed.

Lemma onb_false_invalid : forall s, onb s = false -> validb s = false.
Proof. intros s H. unfold validb. rewrite H. apply andb_false_r. Qed.

Lemma get_off : forall b s, offboard_empty b -> 0 <= s -> onb s = false -> get b s = Empty.
Proof. intros b s OB Hs H. apply OB; [exact Hs | apply onb_false_invalid; exact H]. Qed.

Lemma get_mirror_off : forall b s, offboard_empty b -> 0 <= s -> onb s = false -> get (mirror_board b) s = Empty.
Proof.
  intros b s OB Hs H. destruct (Z_lt_ge_dec s 128) as [Hlt|Hge].
  - rewrite get_mirror by lia. rewrite get_off; [reflexivity | exact OB | apply msq_range; lia |].
    rewrite onb_msq_128 by lia. exact H.
  - unfold get. apply nth_overflow. rewrite mirror_board_length. lia.
Qed.

Lemma off_ep : forall t e, onb t = false -> t <> INVALID -> (e = INVALID \/ validb e = true) -> (t =? e) = false.
Proof.
  intros t e Ho Hn [->|He]; apply Z.eqb_neq; [exact Hn|].
  intro E. subst e. apply validb_onb in He. congruence.
Qed.

Lemma mep'_ok : forall e, (e = INVALID \/ validb e = true) -> (mep' e = INVALID \/ validb (mep' e) = true).
Proof.
  intros e [->|He]; [left; reflexivity|right]. unfold mep'. rewrite (valid_neq_INVALID e He). apply validb_msq. exact He.
Qed.

(* a capture-or-ep target and its mirror image *)
Lemma target_mirror : forall p from t t' pr (g : bool), shape p ->
  validb from = true -> is_col (cur_color p) (get (board p) from) = true -> from <> cur_king p ->
  mpP t t' -> 0 <= t -> 0 <= t' ->
  (if is_col (opp (opp (cur_color p))) (get (mirror_board (board p)) t') || ((t' =? mep' (ep p)) && g)
   then count_pawn (mirror_pos p) (msq from) t' (112 - pr) else 0)
  = (if is_col (opp (cur_color p)) (get (board p) t) || ((t =? ep p) && g) then count_pawn p from t pr else 0).
Proof.
  intros p from t t' pr g SH Hf Hc Hn M Ht Ht'. pose proof SH as [_ [OB [_ [_ [_ [_ Hep]]]]]].
  destruct M as [[Ho [-> Hv]]|[Ho [Ho' [N N']]]].
  - rewrite (get_mirror_v _ t Hv), is_col_mcell, (mep'_eqb2 _ _ Hep Hv).
    rewrite (count_pawn_mirror p from t pr SH (okmove_new p from t Hf Hv Hc Hn)). reflexivity.
  - rewrite (get_mirror_off _ _ OB Ht' Ho'), (get_off _ _ OB Ht Ho).
    rewrite (off_ep t' _ Ho' N' (mep'_ok _ Hep)), (off_ep t _ Ho N Hep). reflexivity.
Qed.

Lemma pawn_cnt_mirror : forall p from, shape p -> In from (cur_pawns p) ->
  pawn_cnt (mirror_pos p) (msq from) = pawn_cnt p from.
Proof.
  intros p from SH Hin. destruct (cur_pawn_facts p from SH Hin) as [Hf [Hc [Hn [R0 R7]]]].
  destruct (pawn_facts _ _ from (adv_cases p) Hf R0 R7) as [Mq [Mk [E1 [V1 H2]]]].
  unfold pawn_cnt. cbv zeta.
  rewrite cur_color_mirror, board_mirror, adv_mirror, start_mirror, promo_mirror, ep_mirror.
  rewrite (rank_eqb_msq from _ Hf).
  f_equal; [f_equal|].
  - (* capture towards the a-file: guarded by onb *)
    pose proof (target_mirror p from _ _ (promo_rank_of p) (negb (rankof from =? start_rank_of p)) SH Hf Hc Hn Mq
                  (byte_nonneg _) (byte_nonneg _)) as T.
    destruct Mq as [[Ho [E Hv]]|[Ho [Ho' _]]].
    + rewrite Ho. rewrite E in *. rewrite (validb_onb _ (validb_msq _ Hv)). cbn [andb]. exact T.
    + rewrite Ho, Ho'. reflexivity.
  - exact (target_mirror p from _ _ (promo_rank_of p) (negb (rankof from =? start_rank_of p)) SH Hf Hc Hn Mk
             (byte_nonneg _) (byte_nonneg _)).
  - rewrite E1. rewrite (get_mirror_v _ _ V1).
    destruct (get (board p) (byte (from + adv_of p))) as [|c' k'] eqn:G1; cbn [mcell]; [|reflexivity].
    rewrite (count_pawn_mirror p from _ (promo_rank_of p) SH (okmove_new p from _ Hf V1 Hc Hn)).
    f_equal. destruct (rankof from =? start_rank_of p) eqn:ER; [|reflexivity].
    destruct (H2 eq_refl) as [E2 V2]. rewrite E1 in E2. rewrite E2. rewrite (get_mirror_v _ _ V2).
    destruct (get (board p) (byte (byte (from + adv_of p) + adv_of p))) as [|c2 k2]; cbn [mcell]; [|reflexivity].
    f_equal.
    set (mv := {| mfrom := from; mto := byte (byte (from + adv_of p) + adv_of p); mpromo := None; mep := byte (from + adv_of p) |}).
    assert (EM : mirror_move mv = {| mfrom := msq from; mto := msq (byte (byte (from + adv_of p) + adv_of p));
                                     mpromo := None; mep := msq (byte (from + adv_of p)) |}).
    { unfold mirror_move, mv. cbn [mfrom mto mpromo mep]. rewrite (valid_neq_INVALID _ V1). reflexivity. }
    rewrite <- EM. apply is_legal_mirror; [exact SH|].
    unfold okmove, mv. cbn [mfrom mto mep]. repeat split; try assumption; [right; exact V1|].
    intros [E _]. exact (Hn E).
Qed.

(* ---------- knight / king steps, sliders ---------- *)

Lemma color_eqb_opp : forall c c', color_eqb (opp c) (opp c') = color_eqb c c'.
Proof. intros [] []; reflexivity. Qed.

Lemma step_cnt_mirror : forall p f d, shape p -> validb f = true -> In d all_dirs ->
  (forall t, validb t = true -> t = byte (f + d) -> okmove p (new_move f t)) ->
  step_cnt (mirror_pos p) (msq f) (mdir d) = step_cnt p f d.
Proof.
  intros p f d SH Hf Hd OK. unfold step_cnt. cbv zeta. rewrite cur_color_mirror, board_mirror.
  destruct (step_facts f d Hf Hd) as [Eo Ht]. cbv zeta in Eo, Ht. rewrite Eo.
  destruct (onb (byte (f + d))) eqn:O; [|reflexivity].
  destruct (Ht eq_refl) as [E Hv]. rewrite E. rewrite (get_mirror_v _ _ Hv), is_col_mcell.
  change (new_move (msq f) (msq (byte (f + d)))) with (mirror_move (new_move f (byte (f + d)))).
  rewrite (is_legal_mirror _ _ SH (OK _ Hv eq_refl)). reflexivity.
Qed.

Lemma count_slide_mirror : forall p c f d, shape p -> validb f = true ->
  is_col (cur_color p) (get (board p) f) = true -> f <> cur_king p -> In d all_dirs ->
  forall fuel s, validb s = true ->
  count_slide fuel (mirror_pos p) (opp c) (msq f) (msq s) (mdir d) = count_slide fuel p c f s d.
Proof.
  intros p c f d SH Hf Hc Hn Hd. induction fuel as [|n IH]; intros s Hs; [reflexivity|].
  cbn [count_slide]. cbv zeta. rewrite board_mirror.
  destruct (step_facts s d Hs Hd) as [Eo Ht]. cbv zeta in Eo, Ht. rewrite Eo.
  destruct (onb (byte (s + d))) eqn:O; [|reflexivity].
  destruct (Ht eq_refl) as [E Hv]. rewrite E. rewrite (get_mirror_v _ _ Hv).
  change (new_move (msq f) (msq (byte (s + d)))) with (mirror_move (new_move f (byte (s + d)))).
  rewrite (is_legal_mirror _ _ SH (okmove_new p f _ Hf Hv Hc Hn)).
  destruct (get (board p) (byte (s + d))) as [|c' k']; cbn [mcell].
  - rewrite (IH _ Hv). reflexivity.
  - rewrite color_eqb_opp. reflexivity.
Qed.

Lemma piece_cnt_mirror : forall p from, shape p -> In from (cur_pieces p) ->
  piece_cnt (mirror_pos p) (msq from) = piece_cnt p from.
Proof.
  intros p from SH Hin. destruct (cur_piece_facts p from SH Hin) as [Hf [Hc Hn]].
  pose proof (fun t Hv => okmove_new p from t Hf Hv Hc Hn) as OKM.
  pose proof (fun c d Hd => count_slide_mirror p c from d SH Hf Hc Hn Hd) as CS.
  unfold piece_cnt. cbv zeta. rewrite board_mirror, (get_mirror_v _ _ Hf), cur_color_mirror.
  destruct (get (board p) from) as [|c' k]; cbn [mcell]; [reflexivity|].
  destruct k; try reflexivity.
  - apply (zsum_dirs _ _ _ knight_perm). intros d Hd.
    apply step_cnt_mirror; [exact SH | exact Hf | apply in_all_knight; exact Hd |].
    intros t Hv _. apply OKM. exact Hv.
  - apply (zsum_dirs _ _ _ bishop_perm). intros d Hd.
    apply CS; [apply in_all_bishop; exact Hd | exact Hf].
  - apply (zsum_dirs _ _ _ rook_perm). intros d Hd.
    apply CS; [apply in_all_rook; exact Hd | exact Hf].
  - unfold queen_dirs. apply (zsum_dirs _ _ _ king_perm). intros d Hd.
    apply CS; [apply in_all_king; exact Hd | exact Hf].
Qed.

Definition king_file_fact (s d : Z) : bool :=
  let t := byte (s + d) in
  if onb t then negb ((fileof s =? 4) && ((fileof t =? 2) || (fileof t =? 6))) else true.
Lemma king_file_sweep : forallb (fun s => forallb (king_file_fact s) king_dirs) valid_squares = true.
Proof. vm_compute. reflexivity. Qed.

Lemma king_cnt_mirror : forall p d, shape p -> In d king_dirs ->
  step_cnt (mirror_pos p) (msq (cur_king p)) (mdir d) = step_cnt p (cur_king p) d.
Proof.
  intros p d SH Hd. pose proof (shape_cur p SH) as LC. destruct (lo_king _ _ _ _ _ LC) as [Hk G].
  apply step_cnt_mirror; [exact SH | exact Hk | apply in_all_king; exact Hd |].
  intros t Hv Et. unfold okmove, new_move. cbn [mfrom mto mep].
  split; [exact Hk|]. split; [exact Hv|]. split; [left; reflexivity|].
  split; [rewrite G; cbn [is_col]; apply color_eqb_refl|].
  pose proof (sweep1 _ king_file_sweep _ Hk) as F. cbv beta in F. rewrite forallb_forall in F.
  specialize (F d Hd). unfold king_file_fact in F. cbv zeta in F. rewrite <- Et in F.
  rewrite (validb_onb t Hv) in F. intros [_ [E4 E26]]. lia.
Qed.

(* ---------- castling ---------- *)

Lemma cell_eqb_eq : forall a b, cell_eqb a b = true -> a = b.
Proof. intros [|[] []] [|[] []]; cbn; intros H; try discriminate H; reflexivity. Qed.

Lemma home_king : forall p, shape p ->
  (if wturn p then wQ p else bQ p) = true \/ (if wturn p then wK p else bK p) = true ->
  cur_king p = 4 \/ cur_king p = 116.
Proof.
  intros p [_ [_ [LW [LB [_ [CF _]]]]]] H. unfold castle_flags_ok in CF. cbv zeta in CF.
  apply andb_prop in CF. destruct CF as [CF C4]. apply andb_prop in CF. destruct CF as [CF C3].
  apply andb_prop in CF. destruct CF as [C1 C2].
  unfold cur_king. destruct (wturn p).
  - left. assert (G : get (board p) 4 = Pc White King).
    { destruct H as [H|H]; rewrite H in *; cbn [negb orb] in *;
        [apply andb_prop in C2; destruct C2 as [C _] | apply andb_prop in C1; destruct C1 as [C _]];
        apply cell_eqb_eq; exact C. }
    symmetry. exact (lo_cell _ _ _ _ _ 4 King LW eq_refl G).
  - right. assert (G : get (board p) 116 = Pc Black King).
    { destruct H as [H|H]; rewrite H in *; cbn [negb orb] in *;
        [apply andb_prop in C4; destruct C4 as [C _] | apply andb_prop in C3; destruct C3 as [C _]];
        apply cell_eqb_eq; exact C. }
    symmetry. exact (lo_cell _ _ _ _ _ 116 King LB eq_refl G).
Qed.

Lemma home_facts : forall k, k = 4 \/ k = 116 ->
  validb k = true
  /\ (msq k - 1 = msq (k - 1) /\ msq k - 2 = msq (k - 2) /\ msq k - 3 = msq (k - 3)
      /\ msq k + 1 = msq (k + 1) /\ msq k + 2 = msq (k + 2))
  /\ (validb (k - 1) = true /\ validb (k - 2) = true /\ validb (k - 3) = true
      /\ validb (k + 1) = true /\ validb (k + 2) = true)
  /\ (byte (k - 1) = k - 1 /\ byte (k - 2) = k - 2 /\ byte (k + 1) = k + 1 /\ byte (k + 2) = k + 2)
  /\ (byte (msq k - 1) = msq k - 1 /\ byte (msq k - 2) = msq k - 2
      /\ byte (msq k + 1) = msq k + 1 /\ byte (msq k + 2) = msq k + 2).
Proof. intros k [->| ->]; vm_compute; repeat split; reflexivity. Qed.

Lemma flagQ_mirror : forall p,
  (if wturn (mirror_pos p) then wQ (mirror_pos p) else bQ (mirror_pos p)) = (if wturn p then wQ p else bQ p).
Proof. intros p. unfold mirror_pos. cbn [wturn wQ bQ]. destruct (wturn p); reflexivity. Qed.
Lemma flagK_mirror : forall p,
  (if wturn (mirror_pos p) then wK (mirror_pos p) else bK (mirror_pos p)) = (if wturn p then wK p else bK p).
Proof. intros p. unfold mirror_pos. cbn [wturn wK bK]. destruct (wturn p); reflexivity. Qed.

Lemma can_castle_q_mirror : forall p, shape p -> can_castle_q (mirror_pos p) = can_castle_q p.
Proof.
  intros p SH. unfold can_castle_q. cbv zeta. rewrite flagQ_mirror, board_mirror, cur_king_mirror.
  destruct (if wturn p then wQ p else bQ p) eqn:F; [|reflexivity].
  destruct (home_facts _ (home_king p SH (or_introl F)))
    as [V [[E1 [E2 [E3 [E4 E5]]]] [[V1 [V2 [V3 [V4 V5]]]] [[B1 [B2 [B4 B5]]] [M1 [M2 [M4 M5]]]]]]].
  rewrite M1, M2, B1, B2, E1, E2, E3.
  rewrite !get_mirror_v, !is_empty_mcell, !safe_sq_mirror by assumption. reflexivity.
Qed.

Lemma can_castle_k_mirror : forall p, shape p -> can_castle_k (mirror_pos p) = can_castle_k p.
Proof.
  intros p SH. unfold can_castle_k. cbv zeta. rewrite flagK_mirror, board_mirror, cur_king_mirror.
  destruct (if wturn p then wK p else bK p) eqn:F; [|reflexivity].
  destruct (home_facts _ (home_king p SH (or_intror F)))
    as [V [[E1 [E2 [E3 [E4 E5]]]] [[V1 [V2 [V3 [V4 V5]]]] [[B1 [B2 [B4 B5]]] [M1 [M2 [M4 M5]]]]]]].
  rewrite M4, M5, B4, B5, E4, E5.
  rewrite !get_mirror_v, !is_empty_mcell, !safe_sq_mirror by assumption. reflexivity.
Qed.

(* the engine's legal-move counter does not see colour; holds for every position of the right shape,
   in particular for the turn-flipped position that the mobility term counts on *)
Theorem count_moves_shape_mirror : forall p, shape p -> count_moves (mirror_pos p) = count_moves p.
Proof.
  intros p SH. rewrite !count_moves_eq.
  rewrite cur_pawns_mirror, cur_pieces_mirror, cur_king_mirror, !map_map.
  rewrite (can_castle_q_mirror p SH), (can_castle_k_mirror p SH).
  f_equal. f_equal. f_equal. f_equal.
  - apply zsum_map_ext. intros s Hs. apply pawn_cnt_mirror; assumption.
  - apply zsum_map_ext. intros s Hs. apply piece_cnt_mirror; assumption.
  - apply (zsum_dirs _ _ _ king_perm). intros d Hd. apply king_cnt_mirror; assumption.
Qed.

Theorem count_moves_mirror : forall p, wf p = true -> count_moves (mirror_pos p) = count_moves p.
Proof. intros p H. apply count_moves_shape_mirror. apply wf_shape. exact H. Qed.

Lemma flip_mirror : forall p, flip_turn (mirror_pos p) = mirror_pos (flip_turn p).
Proof. reflexivity. Qed.

Theorem count_moves_flip_mirror : forall p, wf p = true ->
  count_moves (flip_turn (mirror_pos p)) = count_moves (flip_turn p).
Proof.
  intros p H. rewrite flip_mirror. apply count_moves_shape_mirror. apply shape_flip. apply wf_shape. exact H.
Qed.

(* ================================================================ *)
(* 7. piece-square score, evaluation                                 *)
(* ================================================================ *)

Lemma pst_w_b : forall w b s, In (w, b) pst_pairs -> validb s = true ->
  tabz w (msq s) = tabz b s /\ tabz b (msq s) = tabz w s.
Proof.
  intros w b s Hin Hs. split.
  - rewrite (pst_mirror w b (msq s) Hin (validb_msq s Hs)). change (mirror_sq (msq s)) with (msq (msq s)).
    rewrite msq_inv. reflexivity.
  - symmetry. exact (pst_mirror w b s Hin Hs).
Qed.

Lemma pp_pawn : In (pst_pawn_w, pst_pawn_b) pst_pairs. Proof. left. reflexivity. Qed.
Lemma pp_knight : In (pst_knight_w, pst_knight_b) pst_pairs. Proof. right. left. reflexivity. Qed.
Lemma pp_bishop : In (pst_bishop_w, pst_bishop_b) pst_pairs. Proof. right. right. left. reflexivity. Qed.
Lemma pp_rook : In (pst_rook_w, pst_rook_b) pst_pairs. Proof. right. right. right. left. reflexivity. Qed.
Lemma pp_queen : In (pst_queen_w, pst_queen_b) pst_pairs. Proof. do 4 right. left. reflexivity. Qed.
Lemma pp_kingmid : In (pst_kingmid_w, pst_kingmid_b) pst_pairs. Proof. do 5 right. left. reflexivity. Qed.
Lemma pp_kingend : In (pst_kingend_w, pst_kingend_b) pst_pairs. Proof. do 6 right. left. reflexivity. Qed.

Lemma nonpawn_mirror : forall b l, (forall s, In s l -> validb s = true) ->
  nonpawn (mirror_board b) (map msq l) = nonpawn b l.
Proof.
  intros b l H. unfold nonpawn. rewrite map_map. apply zsum_map_ext. intros s Hs.
  rewrite (get_mirror_v b s (H s Hs)). destruct (get b s); reflexivity.
Qed.

Lemma shape_valid : forall p, shape p ->
  (forall s, In s (wpieces p) -> validb s = true) /\ (forall s, In s (bpieces p) -> validb s = true)
  /\ (forall s, In s (wpawns p) -> validb s = true) /\ (forall s, In s (bpawns p) -> validb s = true)
  /\ validb (wking p) = true /\ validb (bking p) = true.
Proof.
  intros p [_ [_ [LW [LB _]]]].
  destruct (lists_ok_parts _ _ _ _ _ LW) as [W1 [_ [W2 W3]]].
  destruct (lists_ok_parts _ _ _ _ _ LB) as [B1 [_ [B2 B3]]]. tauto.
Qed.

Lemma material_mirror : forall p, shape p -> material_sum (mirror_pos p) = material_sum p.
Proof.
  intros p SH. destruct (shape_valid p SH) as [VW [VB _]]. unfold material_sum.
  rewrite board_mirror. unfold mirror_pos at 1 2. cbn [wpieces bpieces].
  rewrite (nonpawn_mirror _ _ VW), (nonpawn_mirror _ _ VB). apply Z.add_comm.
Qed.

(* one side's score under a pair of mirror-image table sets *)
Lemma side_score_mirror : forall b pieces pawns king m tn tb tr tq tp tkm tke tn' tb' tr' tq' tp' tkm' tke',
  (forall s, In s pieces -> validb s = true) -> (forall s, In s pawns -> validb s = true) -> validb king = true ->
  (forall s, validb s = true -> tabz tn (msq s) = tabz tn' s) -> (forall s, validb s = true -> tabz tb (msq s) = tabz tb' s) ->
  (forall s, validb s = true -> tabz tr (msq s) = tabz tr' s) -> (forall s, validb s = true -> tabz tq (msq s) = tabz tq' s) ->
  (forall s, validb s = true -> tabz tp (msq s) = tabz tp' s) -> (forall s, validb s = true -> tabz tkm (msq s) = tabz tkm' s) ->
  (forall s, validb s = true -> tabz tke (msq s) = tabz tke' s) ->
  side_score (mirror_board b) (map msq pieces) (map msq pawns) (msq king) tn tb tr tq tp tkm tke m
  = side_score b pieces pawns king tn' tb' tr' tq' tp' tkm' tke' m.
Proof.
  intros b pieces pawns king m tn tb tr tq tp tkm tke tn' tb' tr' tq' tp' tkm' tke' Vpc Vpw Vk Hn Hb Hr Hq Hp Hkm Hke.
  unfold side_score. rewrite !map_map. rewrite (Hkm king Vk), (Hke king Vk). f_equal. f_equal.
  - apply zsum_map_ext. intros s Hs. pose proof (Vpc s Hs) as Hv. unfold piece_term.
    rewrite (get_mirror_v b s Hv). destruct (get b s) as [|c k]; cbn [mcell]; [reflexivity|].
    destruct k; rewrite ?(Hn s Hv), ?(Hb s Hv), ?(Hr s Hv), ?(Hq s Hv); reflexivity.
  - apply zsum_map_ext. intros s Hs. rewrite (Hp s (Vpw s Hs)). reflexivity.
Qed.

Lemma white_score_mirror : forall p, shape p -> white_score (mirror_pos p) = black_score p.
Proof.
  intros p SH. destruct (shape_valid p SH) as [VW [VB [VWP [VBP [VWK VBK]]]]].
  unfold white_score, black_score. rewrite (material_mirror p SH), board_mirror.
  unfold mirror_pos at 1 2 3. cbn [wpieces wpawns wking].
  apply side_score_mirror; try assumption; intros s Hs.
  - exact (proj1 (pst_w_b _ _ s pp_knight Hs)).
  - exact (proj1 (pst_w_b _ _ s pp_bishop Hs)).
  - exact (proj1 (pst_w_b _ _ s pp_rook Hs)).
  - exact (proj1 (pst_w_b _ _ s pp_queen Hs)).
  - exact (proj1 (pst_w_b _ _ s pp_pawn Hs)).
  - exact (proj1 (pst_w_b _ _ s pp_kingmid Hs)).
  - exact (proj1 (pst_w_b _ _ s pp_kingend Hs)).
Qed.

Lemma black_score_mirror : forall p, shape p -> black_score (mirror_pos p) = white_score p.
Proof.
  intros p SH. destruct (shape_valid p SH) as [VW [VB [VWP [VBP [VWK VBK]]]]].
  unfold white_score, black_score. rewrite (material_mirror p SH), board_mirror.
  unfold mirror_pos at 1 2 3. cbn [bpieces bpawns bking].
  apply side_score_mirror; try assumption; intros s Hs.
  - exact (proj2 (pst_w_b _ _ s pp_knight Hs)).
  - exact (proj2 (pst_w_b _ _ s pp_bishop Hs)).
  - exact (proj2 (pst_w_b _ _ s pp_rook Hs)).
  - exact (proj2 (pst_w_b _ _ s pp_queen Hs)).
  - exact (proj2 (pst_w_b _ _ s pp_pawn Hs)).
  - exact (proj2 (pst_w_b _ _ s pp_kingmid Hs)).
  - exact (proj2 (pst_w_b _ _ s pp_kingend Hs)).
Qed.

Theorem psq_score_shape_mirror : forall p, shape p -> psq_score (mirror_pos p) = psq_score p.
Proof.
  intros p SH. unfold psq_score. rewrite (white_score_mirror p SH), (black_score_mirror p SH).
  unfold mirror_pos. cbn [wturn]. destruct (wturn p); cbn [negb]; lia.
Qed.

Theorem psq_score_mirror : forall p, wf p = true -> psq_score (mirror_pos p) = psq_score p.
Proof. intros p H. apply psq_score_shape_mirror. apply wf_shape. exact H. Qed.

Theorem is_checkmate_mirror : forall p, wf p = true -> is_checkmate (mirror_pos p) = is_checkmate p.
Proof.
  intros p H. unfold is_checkmate. rewrite (in_check_mirror p (wf_shape p H)), (count_moves_mirror p H). reflexivity.
Qed.

Theorem lazy_eval_mirror : forall p d alpha beta, wf p = true ->
  lazy_eval (mirror_pos p) d alpha beta = lazy_eval p d alpha beta.
Proof.
  intros p d alpha beta H. unfold lazy_eval. cbv zeta.
  rewrite (is_checkmate_mirror p H), (psq_score_mirror p H), (count_moves_mirror p H), (count_moves_flip_mirror p H).
  reflexivity.
Qed.

Theorem evaluate_mirror : forall p d, wf p = true -> evaluate (mirror_pos p) d = evaluate p d.
Proof. intros p d H. unfold evaluate. apply lazy_eval_mirror. exact H. Qed.

(* ================================================================ *)
(* 8. the order of the piece lists does not matter                   *)
(* ================================================================ *)

Definition peq (p q : pos) : Prop :=
  board q = board p
  /\ Permutation (bpieces p) (bpieces q) /\ Permutation (wpieces p) (wpieces q)
  /\ Permutation (bpawns p) (bpawns q) /\ Permutation (wpawns p) (wpawns q)
  /\ bking q = bking p /\ wking q = wking p /\ wturn q = wturn p
  /\ wK q = wK p /\ wQ q = wQ p /\ bK q = bK p /\ bQ q = bQ p /\ ep q = ep p /\ ply q = ply p.

Definition rrel {A} (R : A -> A -> Prop) (x y : result A) : Prop :=
  match x, y with Ok a, Ok b => R a b | Panic w, Panic w' => w = w' | _, _ => False end.

Lemma existsb_perm : forall (f : Z -> bool) l l', Permutation l l' -> existsb f l = existsb f l'.
Proof.
  intros f l l' P. induction P; cbn [existsb].
  - reflexivity.
  - rewrite IHP. reflexivity.
  - destruct (f x), (f y); reflexivity.
  - congruence.
Qed.

Lemma is_under_check_perm : forall b pieces pieces' pawns pawns' king dest,
  Permutation pieces pieces' -> Permutation pawns pawns' ->
  is_under_check b pieces' pawns' king dest = is_under_check b pieces pawns king dest.
Proof.
  intros b pieces pieces' pawns pawns' king dest P1 P2. rewrite !is_under_check_unfold.
  rewrite (existsb_perm _ _ _ P1), (existsb_perm _ _ _ P2). reflexivity.
Qed.

Lemma perm_in_iff : forall (l m : list Z) x, Permutation l m -> (In x l <-> In x m).
Proof. intros l m x P. split; apply Permutation_in; [exact P | apply Permutation_sym; exact P]. Qed.

Lemma perm_replace_first : forall l m a b, Permutation l m -> Permutation (replace_first l a b) (replace_first m a b).
Proof.
  intros l m a b P. destruct (in_dec Z.eq_dec a l) as [Hin|Hni].
  - pose proof (proj1 (perm_in_iff l m a P) Hin) as Hin'.
    destruct (replace_first_perm_gen l a b Hin) as [l' [L1 L2]].
    destruct (replace_first_perm_gen m a b Hin') as [m' [M1 M2]].
    assert (Q : Permutation l' m').
    { apply (Permutation_cons_inv (a := a)).
      eapply perm_trans; [apply Permutation_sym; exact L1|]. eapply perm_trans; [exact P | exact M1]. }
    eapply perm_trans; [exact L2|]. eapply perm_trans; [apply perm_skip; exact Q | apply Permutation_sym; exact M2].
  - assert (Hni' : ~ In a m) by (intro H; apply Hni; apply (perm_in_iff l m a P); exact H).
    rewrite !replace_first_absent by assumption. exact P.
Qed.

Lemma perm_kill : forall why l m k, Permutation l m ->
  rrel (@Permutation Z) (kill why l k) (kill why m k).
Proof.
  intros why l m k P. destruct (in_dec Z.eq_dec k l) as [Hin|Hni].
  - pose proof (proj1 (perm_in_iff l m k P) Hin) as Hin'.
    destruct (kill_Ok why l k Hin) as [l' L]. destruct (kill_Ok why m k Hin') as [m' M]. rewrite L, M. cbn [rrel].
    apply (Permutation_cons_inv (a := k)).
    eapply perm_trans; [exact (kill_perm _ _ _ _ L)|]. eapply perm_trans; [exact P|].
    apply Permutation_sym. exact (kill_perm _ _ _ _ M).
  - assert (Hni' : ~ In k m) by (intro H; apply Hni; apply (perm_in_iff l m k P); exact H).
    rewrite !kill_Panic by assumption. reflexivity.
Qed.

Lemma perm_append_cap : forall why cap l m s, Permutation l m ->
  rrel (@Permutation Z) (append_cap why cap l s) (append_cap why cap m s).
Proof.
  intros why cap l m s P. unfold append_cap. rewrite <- (Permutation_length P).
  destruct (length l <? cap)%nat; cbn [rrel]; [|reflexivity].
  apply Permutation_app_tail. exact P.
Qed.

Definition R1 (x y : st1_t) : Prop :=
  let '(a, b, k, bd, km) := x in let '(a', b', k', bd', km') := y in
  Permutation a a' /\ Permutation b b' /\ k = k' /\ bd = bd' /\ km = km'.
Definition R2 (x y : list Z * list Z) : Prop := Permutation (fst x) (fst y) /\ Permutation (snd x) (snd y).
Definition R3 (x y : list cell * list Z) : Prop := fst x = fst y /\ Permutation (snd x) (snd y).

Lemma stage1_perm : forall c b from to promo cp cp' cpw cpw' ck,
  Permutation cp cp' -> Permutation cpw cpw' ->
  rrel R1 (stage1 c b from to promo cp cpw ck) (stage1 c b from to promo cp' cpw' ck).
Proof.
  intros c b from to promo cp cp' cpw cpw' ck P1 P2. unfold stage1. cbv zeta.
  destruct (is_pc c Pawn (get b from)).
  - destruct promo as [k|].
    + pose proof (perm_kill 0 cpw cpw' from P2) as K. unfold kill in K.
      destruct (index_of from cpw) as [i|], (index_of from cpw') as [j|]; cbn [rrel] in K; try contradiction.
      * pose proof (perm_append_cap P_APPEND_PIECE pieceCap cp cp' to P1) as A.
        destruct (append_cap P_APPEND_PIECE pieceCap cp to), (append_cap P_APPEND_PIECE pieceCap cp' to);
          cbn [rrel bind] in *; try contradiction; [|exact A].
        unfold R1. tauto.
      * cbn [rrel]. unfold R1. tauto.
    + cbn [rrel]. unfold R1. pose proof (perm_replace_first cpw cpw' from to P2). tauto.
  - destruct (from =? ck).
    + destruct (fileof from =? 4); [|cbn [rrel]; unfold R1; tauto].
      destruct (fileof to =? 2).
      * cbn [rrel]. unfold R1. pose proof (perm_replace_first cp cp' (0 + castle_rank c) (3 + castle_rank c) P1). tauto.
      * destruct (fileof to =? 6); [|cbn [rrel]; unfold R1; tauto].
        cbn [rrel]. unfold R1. pose proof (perm_replace_first cp cp' (7 + castle_rank c) (5 + castle_rank c) P1). tauto.
    + cbn [rrel]. unfold R1. pose proof (perm_replace_first cp cp' from to P1). tauto.
Qed.

Lemma stage2_perm : forall e b1 to ep ep' epw epw', Permutation ep ep' -> Permutation epw epw' ->
  rrel R2 (stage2 e b1 to ep epw) (stage2 e b1 to ep' epw').
Proof.
  intros e b1 to ep ep' epw epw' P1 P2. unfold stage2.
  destruct (get b1 to) as [|c' k]; [cbn [rrel]; unfold R2; cbn [fst snd]; tauto|].
  destruct (is_pc e King (Pc c' k)); [cbn [rrel]; unfold R2; cbn [fst snd]; tauto|].
  destruct (is_pc e Pawn (Pc c' k)).
  - pose proof (perm_kill P_KILL_PAWN epw epw' to P2) as K.
    destruct (kill P_KILL_PAWN epw to), (kill P_KILL_PAWN epw' to); cbn [rrel bind] in *; try contradiction; [|exact K].
    unfold R2. cbn [fst snd]. tauto.
  - pose proof (perm_kill P_KILL_PIECE ep ep' to P1) as K.
    destruct (kill P_KILL_PIECE ep to), (kill P_KILL_PIECE ep' to); cbn [rrel bind] in *; try contradiction; [|exact K].
    unfold R2. cbn [fst snd]. tauto.
Qed.

Lemma stage3_perm : forall c b1 from to promo epold epw epw', Permutation epw epw' ->
  rrel R3 (stage3 c b1 from to promo epold epw) (stage3 c b1 from to promo epold epw').
Proof.
  intros c b1 from to promo epold epw epw' P. unfold stage3.
  destruct promo as [k|]; [cbn [rrel]; unfold R3; cbn [fst snd]; tauto|]. cbv zeta.
  destruct ((epold =? to) && is_pc c Pawn (get (set b1 to (get b1 from)) from));
    [|cbn [rrel]; unfold R3; cbn [fst snd]; tauto].
  pose proof (perm_kill P_KILL_PAWN epw epw' (fileof to + rankof from) P) as K.
  destruct (kill P_KILL_PAWN epw (fileof to + rankof from)), (kill P_KILL_PAWN epw' (fileof to + rankof from));
    cbn [rrel bind] in *; try contradiction; [|exact K].
  unfold R3. cbn [fst snd]. tauto.
Qed.

Lemma peq_acc : forall p q, peq p q ->
  board q = board p /\ cur_color q = cur_color p /\ cur_king q = cur_king p /\ en_king q = en_king p /\ ep q = ep p
  /\ Permutation (cur_pieces p) (cur_pieces q) /\ Permutation (cur_pawns p) (cur_pawns q)
  /\ Permutation (en_pieces p) (en_pieces q) /\ Permutation (en_pawns p) (en_pawns q)
  /\ adv_of q = adv_of p /\ start_rank_of q = start_rank_of p /\ promo_rank_of q = promo_rank_of p
  /\ (if wturn q then wQ q else bQ q) = (if wturn p then wQ p else bQ p)
  /\ (if wturn q then wK q else bK q) = (if wturn p then wK p else bK p).
Proof.
  intros p q [Hb [P1 [P2 [P3 [P4 [K1 [K2 [T [F1 [F2 [F3 [F4 [E _]]]]]]]]]]]]].
  unfold cur_color, cur_king, en_king, cur_pieces, cur_pawns, en_pieces, en_pawns, adv_of, start_rank_of, promo_rank_of.
  rewrite T, K1, K2, F1, F2, F3, F4. destruct (wturn p); repeat split; assumption.
Qed.

Lemma build_peq : forall p q m cp cp' cpw cpw' ck km ep1 ep1' epw epw' b4, peq p q ->
  Permutation cp cp' -> Permutation cpw cpw' -> Permutation ep1 ep1' -> Permutation epw epw' ->
  peq (build p m cp cpw ck km ep1 epw b4) (build q m cp' cpw' ck km ep1' epw' b4).
Proof.
  intros p q m cp cp' cpw cpw' ck km ep1 ep1' epw epw' b4 PQ Q1 Q2 Q3 Q4.
  destruct PQ as [Hb [P1 [P2 [P3 [P4 [K1 [K2 [T [F1 [F2 [F3 [F4 [E PL]]]]]]]]]]]]].
  unfold build, cur_color, en_king. cbv zeta. rewrite T, K1, K2, F1, F2, F3, F4, PL.
  destruct (wturn p); unfold peq; cbn [board bpieces wpieces bpawns wpawns bking wking wturn wK wQ bK bQ ep ply];
    repeat split; assumption.
Qed.

Theorem make_peq : forall p q m, peq p q ->
  rrel (fun r r' => peq (fst r) (fst r') /\ snd r' = snd r) (make p m) (make q m).
Proof.
  intros p q m PQ. destruct (peq_acc p q PQ) as [Hb [Hc [Hk [Hek [He [P1 [P2 [P3 [P4 _]]]]]]]]].
  rewrite (make_eq p m), (make_eq q m). unfold make_staged. rewrite Hb, Hc, Hk, Hek, He.
  pose proof (stage1_perm (cur_color p) (board p) (mfrom m) (mto m) (mpromo m) _ _ _ _ (cur_king p) P1 P2) as S1.
  destruct (stage1 (cur_color p) (board p) (mfrom m) (mto m) (mpromo m) (cur_pieces p) (cur_pawns p) (cur_king p))
    as [[[[[a1 a2] a3] a4] a5]|w];
  destruct (stage1 (cur_color p) (board p) (mfrom m) (mto m) (mpromo m) (cur_pieces q) (cur_pawns q) (cur_king p))
    as [[[[[a1' a2'] a3'] a4'] a5']|w']; cbn [rrel bind] in *; try contradiction; [|exact S1].
  destruct S1 as [Q1 [Q2 [<- [<- <-]]]].
  pose proof (stage2_perm (opp (cur_color p)) a4 (mto m) _ _ _ _ P3 P4) as S2.
  destruct (stage2 (opp (cur_color p)) a4 (mto m) (en_pieces p) (en_pawns p)) as [[e1 e2]|w];
  destruct (stage2 (opp (cur_color p)) a4 (mto m) (en_pieces q) (en_pawns q)) as [[e1' e2']|w'];
    cbn [rrel bind] in *; try contradiction; [|exact S2].
  destruct S2 as [Q3 Q4]. cbn [fst snd] in Q3, Q4.
  pose proof (stage3_perm (cur_color p) a4 (mfrom m) (mto m) (mpromo m) (ep p) _ _ Q4) as S3.
  destruct (stage3 (cur_color p) a4 (mfrom m) (mto m) (mpromo m) (ep p) e2) as [[b3 e3]|w];
  destruct (stage3 (cur_color p) a4 (mfrom m) (mto m) (mpromo m) (ep p) e2') as [[b3' e3']|w'];
    cbn [rrel bind] in *; try contradiction; [|exact S3].
  unfold R3 in S3. cbn [fst snd] in S3. destruct S3 as [<- Q5]. cbn [fst snd].
  split; [apply build_peq; assumption|].
  rewrite (is_under_check_perm _ _ _ _ _ _ _ Q3 Q5). reflexivity.
Qed.

Lemma is_legal_peq : forall p q m, peq p q -> is_legal q m = is_legal p m.
Proof.
  intros p q m PQ. unfold is_legal. pose proof (make_peq p q m PQ) as H.
  destruct (make p m) as [[p' ok]|w], (make q m) as [[q' ok']|w']; cbn [rrel fst snd] in H; try contradiction;
    [exact (proj2 H) | reflexivity].
Qed.

Lemma safe_sq_peq : forall p q s, peq p q -> safe_sq q s = safe_sq p s.
Proof.
  intros p q s PQ. destruct (peq_acc p q PQ) as [Hb [_ [_ [Hek [_ [_ [_ [P3 [P4 _]]]]]]]]].
  unfold safe_sq. rewrite Hb, Hek, (is_under_check_perm _ _ _ _ _ _ _ P3 P4). reflexivity.
Qed.

Lemma in_check_peq : forall p q, peq p q -> in_check q = in_check p.
Proof.
  intros p q PQ. destruct (peq_acc p q PQ) as [Hb [_ [Hk [Hek [_ [_ [_ [P3 [P4 _]]]]]]]]].
  unfold in_check. rewrite Hb, Hek, Hk, (is_under_check_perm _ _ _ _ _ _ _ P3 P4). reflexivity.
Qed.

Lemma count_slide_peq : forall p q c f d, peq p q -> forall fuel s, count_slide fuel q c f s d = count_slide fuel p c f s d.
Proof.
  intros p q c f d PQ. pose proof (proj1 PQ) as Hb.
  induction fuel as [|n IH]; intros s; [reflexivity|]. cbn [count_slide]. cbv zeta.
  rewrite Hb, IH, (is_legal_peq p q _ PQ). reflexivity.
Qed.

Lemma count_moves_peq : forall p q, peq p q -> count_moves q = count_moves p.
Proof.
  intros p q PQ.
  destruct (peq_acc p q PQ) as [Hb [Hc [Hk [Hek [He [P1 [P2 [P3 [P4 [Ha [Hs [Hp [FQ FK]]]]]]]]]]]]].
  rewrite !count_moves_eq.
  assert (EP : forall from, pawn_cnt q from = pawn_cnt p from).
  { intros from. unfold pawn_cnt, count_pawn. cbv zeta. rewrite Hb, Hc, Ha, Hs, Hp, He.
    rewrite !(is_legal_peq p q _ PQ). reflexivity. }
  assert (ES : forall from d, step_cnt q from d = step_cnt p from d).
  { intros from d. unfold step_cnt. cbv zeta. rewrite Hb, Hc, (is_legal_peq p q _ PQ). reflexivity. }
  assert (EC : forall from, piece_cnt q from = piece_cnt p from).
  { intros from. unfold piece_cnt. cbv zeta. rewrite Hb, Hc.
    destruct (get (board p) from) as [|c' k]; [reflexivity|].
    destruct k; try reflexivity; apply zsum_map_ext; intros d _;
      [apply ES | apply (count_slide_peq p q _ _ _ PQ) ..]. }
  assert (EQ : can_castle_q q = can_castle_q p).
  { unfold can_castle_q. cbv zeta. rewrite FQ, Hb, Hk, !(safe_sq_peq p q _ PQ). reflexivity. }
  assert (EK : can_castle_k q = can_castle_k p).
  { unfold can_castle_k. cbv zeta. rewrite FK, Hb, Hk, !(safe_sq_peq p q _ PQ). reflexivity. }
  rewrite EQ, EK, Hk. f_equal. f_equal. f_equal. f_equal.
  - rewrite (zsum_map_ext _ _ _ (cur_pawns q) (fun x _ => EP x)). symmetry. apply zsum_map_perm. exact P2.
  - rewrite (zsum_map_ext _ _ _ (cur_pieces q) (fun x _ => EC x)). symmetry. apply zsum_map_perm. exact P1.
  - apply zsum_map_ext. intros d _. apply ES.
Qed.

Lemma psq_score_peq : forall p q, peq p q -> psq_score q = psq_score p.
Proof.
  intros p q [Hb [P1 [P2 [P3 [P4 [K1 [K2 [T _]]]]]]]].
  unfold psq_score, white_score, black_score, material_sum, side_score, nonpawn. rewrite Hb, K1, K2, T.
  rewrite <- (zsum_map_perm _ _ _ P1), <- (zsum_map_perm _ _ _ P2).
  rewrite <- !(zsum_map_perm _ _ _ P3), <- !(zsum_map_perm _ _ _ P4).
  rewrite <- !(zsum_map_perm _ _ _ P1), <- !(zsum_map_perm _ _ _ P2). reflexivity.
Qed.

Lemma peq_flip : forall p q, peq p q -> peq (flip_turn p) (flip_turn q).
Proof.
  intros p q [Hb [P1 [P2 [P3 [P4 [K1 [K2 [T R]]]]]]]]. unfold peq, flip_turn.
  cbn [board bpieces wpieces bpawns wpawns bking wking wturn wK wQ bK bQ ep ply]. rewrite T. tauto.
Qed.

(* no well-formedness needed: the evaluation reads the four lists only as multisets *)
Theorem lazy_eval_peq : forall p q d alpha beta, peq p q -> lazy_eval q d alpha beta = lazy_eval p d alpha beta.
Proof.
  intros p q d alpha beta PQ. unfold lazy_eval, is_checkmate. cbv zeta.
  rewrite (in_check_peq p q PQ), (count_moves_peq p q PQ), (psq_score_peq p q PQ),
    (count_moves_peq _ _ (peq_flip p q PQ)). reflexivity.
Qed.

Theorem evaluate_peq : forall p q d, peq p q -> evaluate q d = evaluate p d.
Proof. intros p q d PQ. unfold evaluate. apply lazy_eval_peq. exact PQ. Qed.

(* the form the checks use: any position that is the mirror image up to list order (e.g. loaded from the mirrored FEN) *)
Theorem evaluate_mirror_peq : forall p q d, wf p = true -> peq (mirror_pos p) q -> evaluate q d = evaluate p d.
Proof. intros p q d H PQ. rewrite (evaluate_peq _ _ d PQ). apply evaluate_mirror. exact H. Qed.

Print Assumptions is_under_check_mirror.
Print Assumptions make_mirror.
Print Assumptions in_check_mirror.
Print Assumptions count_moves_mirror.
Print Assumptions count_moves_flip_mirror.
Print Assumptions psq_score_mirror.
Print Assumptions is_checkmate_mirror.
Print Assumptions lazy_eval_mirror.
Print Assumptions evaluate_mirror.
Print Assumptions evaluate_peq.
Print Assumptions evaluate_mirror_peq.
