(* The rules of chess on (file, rank) coordinates: the specification the engine model is proved against.
   Deliberately naive: the legal moves of a position are the candidates (64 x 64 x 5) that pass [legal].
   Uses only the enumerations [color], [kind] (and [opp]) from Position.v. *)
From Coq Require Import ZArith List Bool.
Import ListNotations.
Require Import Position.
Open Scope Z_scope.

Definition piece := (color * kind)%type.
Definition sq := (Z * Z)%type.                 (* (file, rank), each 0..7 *)
Definition board := sq -> option piece.

Definition sq_eqb (s t : sq) := (fst s =? fst t) && (snd s =? snd t).
Definition fwd c := match c with White => 1 | Black => -1 end.
Definition start_rank c := match c with White => 1 | Black => 6 end.
Definition last_rank c := match c with White => 7 | Black => 0 end.
Definition home_rank c := match c with White => 0 | Black => 7 end.
Definition on (s : sq) := (0 <=? fst s) && (fst s <? 8) && (0 <=? snd s) && (snd s <? 8).

Record position := { brd : board; turn : color; rK : color -> bool; rQ : color -> bool; ep : option sq; ply : Z }.
Record move := { mfrom : sq; mto : sq; promo : option kind }.

Definition has (b : board) (s : sq) (c : color) (k : kind) :=
  match b s with Some (c', k') => color_eqb c c' && kind_eqb k k' | None => false end.
Definition empty (b : board) (s : sq) := match b s with None => true | Some _ => false end.
Definition owned (b : board) (s : sq) (c : color) := match b s with Some (c', _) => color_eqb c c' | None => false end.

Definition all_sq : list sq := flat_map (fun r => map (fun f => (Z.of_nat f, Z.of_nat r)) (seq 0 8)) (seq 0 8).

(* every square strictly between s and t (on a common line) is empty *)
Definition between_empty (b : board) (s t : sq) : bool :=
  let df := fst t - fst s in let dr := snd t - snd s in
  let n := Z.max (Z.abs df) (Z.abs dr) in
  forallb (fun k => empty b (fst s + Z.of_nat k * Z.sgn df, snd s + Z.of_nat k * Z.sgn dr)) (seq 1 (Z.to_nat n - 1)).

(* how a piece of the given colour and kind standing on s attacks t, on board b *)
Definition piece_attacks (b : board) (c : color) (k : kind) (s t : sq) : bool :=
  let df := fst t - fst s in let dr := snd t - snd s in
  let adf := Z.abs df in let adr := Z.abs dr in
  let straight := ((adf =? 0) && negb (adr =? 0)) || ((adr =? 0) && negb (adf =? 0)) in
  let diagonal := (adf =? adr) && negb (adf =? 0) in
  match k with
  | Pawn => (adf =? 1) && (dr =? fwd c)
  | Knight => ((adf =? 1) && (adr =? 2)) || ((adf =? 2) && (adr =? 1))
  | King => (Z.max adf adr =? 1)
  | Bishop => diagonal && between_empty b s t
  | Rook => straight && between_empty b s t
  | Queen => (straight || diagonal) && between_empty b s t
  end.
(* the piece standing on s attacks square t *)
Definition attacks (b : board) (s t : sq) : bool :=
  match b s with None => false | Some (c, k) => piece_attacks b c k s t end.

Definition attacked (b : board) (by_ : color) (t : sq) : bool :=
  existsb (fun s => owned b s by_ && attacks b s t) all_sq.
Definition king_sq (b : board) (c : color) : option sq := find (fun s => has b s c King) all_sq.
Definition in_check (b : board) (c : color) : bool :=
  match king_sq b c with Some k => attacked b (opp c) k | None => false end.

Definition promo_ok (c : color) (t : sq) (p : option kind) : bool :=
  if snd t =? last_rank c
  then match p with Some Knight | Some Bishop | Some Rook | Some Queen => true | _ => false end
  else match p with None => true | Some _ => false end.
Definition no_promo (p : option kind) := match p with None => true | Some _ => false end.

Definition castle_ok (a : position) (kingside : bool) : bool :=
  let b := brd a in let c := turn a in let h := home_rank c in
  if kingside then
    rK a c && has b (4, h) c King && has b (7, h) c Rook && empty b (5, h) && empty b (6, h)
    && negb (attacked b (opp c) (4, h)) && negb (attacked b (opp c) (5, h)) && negb (attacked b (opp c) (6, h))
  else
    rQ a c && has b (4, h) c King && has b (0, h) c Rook && empty b (3, h) && empty b (2, h) && empty b (1, h)
    && negb (attacked b (opp c) (4, h)) && negb (attacked b (opp c) (3, h)) && negb (attacked b (opp c) (2, h)).

(* the move follows the movement rules, king safety aside *)
Definition pseudo (a : position) (m : move) : bool :=
  let b := brd a in let c := turn a in
  let s := mfrom m in let t := mto m in
  let df := fst t - fst s in let dr := snd t - snd s in
  on s && on t && negb (owned b t c) &&
  match b s with
  | None => false
  | Some (c', k) =>
      color_eqb c c' &&
      match k with
      | Pawn =>
          promo_ok c t (promo m) &&
          ( ((df =? 0) && (dr =? fwd c) && empty b t)
          || ((df =? 0) && (dr =? 2 * fwd c) && (snd s =? start_rank c) && empty b (fst s, snd s + fwd c) && empty b t)
          || ((Z.abs df =? 1) && (dr =? fwd c) &&
               (owned b t (opp c) || (empty b t && match ep a with Some e => sq_eqb e t | None => false end))) )
      | King =>
          no_promo (promo m) &&
          ( attacks b s t
          || ((snd s =? home_rank c) && (fst s =? 4) && (dr =? 0) && (df =? 2) && castle_ok a true)
          || ((snd s =? home_rank c) && (fst s =? 4) && (dr =? 0) && (df =? -2) && castle_ok a false) )
      | _ => no_promo (promo m) && attacks b s t
      end
  end.

Definition set (b : board) (s : sq) (v : option piece) : board := fun x => if sq_eqb x s then v else b x.

(* the position after the move *)
Definition apply (a : position) (m : move) : position :=
  let b := brd a in let c := turn a in
  let s := mfrom m in let t := mto m in
  let df := fst t - fst s in let dr := snd t - snd s in
  let is_pawn := has b s c Pawn in let is_king := has b s c King in
  let is_ep := is_pawn && negb (df =? 0) && empty b t in
  let placed := match promo m with Some k => Some (c, k) | None => b s end in
  let b1 := set (set b s None) t placed in
  let b2 := if is_ep then set b1 (fst t, snd s) None else b1 in
  let b3 := if is_king && (df =? 2) then set (set b2 (7, snd s) None) (5, snd s) (Some (c, Rook))
            else if is_king && (df =? -2) then set (set b2 (0, snd s) None) (3, snd s) (Some (c, Rook))
            else b2 in
  let touches (x : sq) := sq_eqb s x || sq_eqb t x in
  let keepK col := rK a col && negb (touches (4, home_rank col)) && negb (touches (7, home_rank col)) in
  let keepQ col := rQ a col && negb (touches (4, home_rank col)) && negb (touches (0, home_rank col)) in
  {| brd := b3; turn := opp c; rK := keepK; rQ := keepQ;
     ep := if is_pawn && (Z.abs dr =? 2) then Some (fst s, snd s + fwd c) else None;
     ply := ply a + 1 |}.

Definition legal (a : position) (m : move) : bool :=
  pseudo a m && negb (in_check (brd (apply a m)) (turn a)).

Definition is_capture (a : position) (m : move) : bool :=
  owned (brd a) (mto m) (opp (turn a))
  || (has (brd a) (mfrom m) (turn a) Pawn && negb (fst (mto m) =? fst (mfrom m)) && empty (brd a) (mto m)).
Definition is_tactical (a : position) (m : move) : bool :=
  is_capture a m || match promo m with Some _ => true | None => false end.

Definition promos : list (option kind) := [None; Some Knight; Some Bishop; Some Rook; Some Queen].
Definition candidates : list move :=
  flat_map (fun s => flat_map (fun t => map (fun p => {| mfrom := s; mto := t; promo := p |}) promos) all_sq) all_sq.
Definition legal_moves (a : position) : list move := filter (legal a) candidates.
Definition tactical_moves (a : position) : list move := filter (is_tactical a) (legal_moves a).

(* number of legal move paths of length n *)
Fixpoint paths (n : nat) (a : position) : Z :=
  match n with
  | O => 1
  | S k => fold_left (fun acc m => acc + paths k (apply a m)) (legal_moves a) 0
  end.

(* the quantifier of the properties: what "legal position" means *)
Definition count_pieces (b : board) (c : color) (k : kind) : nat := length (filter (fun s => has b s c k) all_sq).
Definition count_color (b : board) (c : color) : nat := length (filter (fun s => owned b s c) all_sq).
Definition rights_consistent (a : position) : bool :=
  forallb (fun c => let h := home_rank c in
     (negb (rK a c) || (has (brd a) (4, h) c King && has (brd a) (7, h) c Rook)) &&
     (negb (rQ a c) || (has (brd a) (4, h) c King && has (brd a) (0, h) c Rook))) [White; Black].
Definition ep_consistent (a : position) : bool :=
  match ep a with
  | None => true
  | Some e => let c := turn a in     (* the pawn that has just moved belongs to opp c and went away from c's last rank *)
      on e && (snd e =? (if color_eqb c White then 5 else 2)) &&
      has (brd a) (fst e, snd e - fwd c) (opp c) Pawn && empty (brd a) e && empty (brd a) (fst e, snd e + fwd c)
  end.
Definition legal_position (a : position) : bool :=
  forallb (fun c => (count_pieces (brd a) c King =? 1)%nat
                    && (count_pieces (brd a) c Pawn <=? 8)%nat
                    && (count_color (brd a) c <=? 16)%nat) [White; Black]
  && forallb (fun s => negb (has (brd a) s White Pawn || has (brd a) s Black Pawn) || ((0 <? snd s) && (snd s <? 7))) all_sq
  && negb (in_check (brd a) (opp (turn a)))
  && rights_consistent a && ep_consistent a.

(* colour flip: ranks reversed, colours, side to move, rights and ep swapped *)
Definition mirror_sq (s : sq) : sq := (fst s, 7 - snd s).
Definition mirror (a : position) : position :=
  {| brd := fun s => match brd a (mirror_sq s) with Some (c, k) => Some (opp c, k) | None => None end;
     turn := opp (turn a); rK := fun c => rK a (opp c); rQ := fun c => rQ a (opp c);
     ep := option_map mirror_sq (ep a); ply := ply a |}.

(* forced mates by the rules alone (AND/OR search on mate distance, independent of any evaluation):
   [mate_score n a] = Some k  (k > 0): the side to move can force mate in exactly k plies (k odd, shortest);
                      Some (-k) (k >= 0): the side to move is mated in exactly k plies whatever it does (k even, longest defence);
                      None: neither within n plies.  A stalemate is None. *)
Fixpoint mate_score (n : nat) (a : position) : option Z :=
  let ms := legal_moves a in
  match ms with
  | [] => if in_check (brd a) (turn a) then Some 0 else None
  | _ =>
    match n with
    | O => None
    | S k =>
        (* child value v (from the opponent's view): Some (-j) opponent mated in j -> we mate in j+1; Some j -> we are mated in j+1 *)
        let vals := map (fun m => match mate_score k (apply a m) with
                                  | Some v => if v <=? 0 then Some (1 - v) else Some (- (v + 1))
                                  | None => None end) ms in
        if existsb (fun v => match v with Some x => 0 <? x | None => false end) vals
        then fold_left (fun acc v => match v with Some x => if 0 <? x then (match acc with Some y => Some (Z.min x y) | None => Some x end) else acc | None => acc end) vals None
        else if forallb (fun v => match v with Some _ => true | None => false end) vals
        then fold_left (fun acc v => match v, acc with Some x, Some y => Some (Z.min x y) | Some x, None => Some x | None, _ => acc end) vals None
        else None
    end
  end.
