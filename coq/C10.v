(* Property C10: every printed PV is a legal line and `bestmove` is its first move; currmove lines name a legal root move. *)
From Coq Require Import ZArith List.
Require Import Base Generated Position Make Gen SearchImp SearchImpProofs SearchStmt.
Import ListNotations.

(* whatever a node hands to its parent as its line is legal from that node's position (under every oracle) *)
Theorem C10_node_lines_legal : forall order log_interval, is_ordering2 order -> tactical_sub ->
  forall d cand st a b depth r p l, alpha_beta_i order log_interval d cand st a b depth = Ok r -> top st = Ok p -> iline r = Some l -> legal_line p l.
Proof. exact alpha_beta_i_legal. Qed.
Theorem C10_quiescence_lines_legal : forall order log_interval, is_ordering2 order -> tactical_sub ->
  forall fuel cand st a b depth r p l, quiesce_i order log_interval fuel cand st a b depth = Ok r -> top st = Ok p -> iline r = Some l -> legal_line p l.
Proof. exact quiesce_i_legal. Qed.
(* every event of a whole `go`: info lines (mid-iteration ones included) carry a non-empty line legal from the root, currmove
   lines a legal root move with its 1-based number, bestmove a legal root move (or 0000 exactly when there is none) *)
Theorem C10_all_output_wellformed : forall order log_interval, is_ordering2 order -> tactical_sub ->
  forall n st stf p, iterate_i order log_interval n st = Ok stf -> top st = Ok p ->
  exists ms evs, gen_legal p = Ok ms /\ st_out stf = evs ++ st_out st /\ Forall (out_ev_ok p ms) evs.
Proof. exact iterate_i_events. Qed.
(* bestmove = first move of the last principal variation printed before it: see C03_bestmove_legal (the event right before
   EvBestMove b is EvInfoScore .. (b :: l)) *)
Print Assumptions C10_node_lines_legal.
Print Assumptions C10_quiescence_lines_legal.
Print Assumptions C10_all_output_wellformed.
