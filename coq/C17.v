(* Property C17: no input line can crash or wedge the engine (command interpreter part). *)
From Coq Require Import ZArith List.
Require Import Str.
Require Import Base Generated Position Make Gen SearchImp Session SessionProofs MakeSpec MakeProofs PerftProofs.

(* every line that is not `position ... moves ...`: arbitrary text, malformed or truncated commands, numeric arguments of any
   size or sign, options out of range, commands before any position, rejected FENs -- handled without a panic, keeping the
   session invariant (position well formed, logging interval within its declared range).  The search started by `go` and
   the perft walkers are the premises search_total / perft_total / tperft_total (C03/C18 and C01/C02/C06). *)
Theorem C17_interpreter_total : forall run_search s e line,
  search_total run_search -> perft_total -> tperft_total -> sess_ok s -> not_position_with_moves line ->
  exists s' o, handle run_search s e line = Ok (s', o) /\ sess_ok s'.
Proof. exact handle_total. Qed.
(* with move lists that are legal for their start position (the UCI precondition), given the make/rules refinement *)
Theorem C17_interpreter_total_legal_moves : make_spec_statement -> forall run_search s e line,
  search_total run_search -> perft_total -> tperft_total -> sess_ok s -> line_ok line ->
  exists s' o, handle run_search s e line = Ok (s', o) /\ sess_ok s'.
Proof. exact handle_total_legal_moves. Qed.
(* `go` with any argument text: whatever precedes the search (token parsing, the clock arithmetic incl. the division by
   movestogo) never panics; a panic of `go` can only be a panic of the search itself *)
Theorem C17_go_arguments_total : forall run_search s e arg, search_total run_search -> sess_ok s ->
  exists s' o, do_go_cmd run_search s e arg = Ok (s', o) /\ sess_ok s' /\ s_pos s' = s_pos s /\ s_log s' = s_log s.
Proof. exact do_go_cmd_total. Qed.
(* the read loop never crashes on such input *)
Theorem C17_session_never_crashes : make_spec_statement -> forall run_search, search_total run_search -> perft_total -> tperft_total ->
  forall n s input, sess_ok s -> Forall (fun le => line_ok (fst le)) input -> forall w, main_loop run_search n s input <> Crashed w.
Proof. exact main_loop_never_crashes_legal_moves. Qed.

(* perft / tperft with ANY argument text never crash (premises discharged: C06 + C02) *)
Theorem C17_perft_never_panics : perft_total /\ tperft_total.
Proof. exact (conj perft_total_holds tperft_total_holds). Qed.
(* the interpreter with only the search left as a premise *)
Theorem C17_interpreter_total_modulo_search : forall run_search s e line,
  search_total run_search -> sess_ok s -> line_ok line ->
  exists s' o, handle run_search s e line = Ok (s', o) /\ sess_ok s'.
Proof. intros rs s e line Hs. exact (handle_total_legal_moves make_spec rs s e line Hs perft_total_holds tperft_total_holds). Qed.

Print Assumptions C17_interpreter_total.
Print Assumptions C17_perft_never_panics.
Print Assumptions C17_interpreter_total_modulo_search.
Print Assumptions C17_interpreter_total_legal_moves.
Print Assumptions C17_go_arguments_total.
Print Assumptions C17_session_never_crashes.
