(* Property C07, position part: `position [fen] <start> moves m1 ... mn` sets up exactly the position the rules of chess define
   by replaying the moves (Spec.apply on coordinates) from the given start; a move list legal by the rules is never rejected. *)
From Coq Require Import ZArith List.
Require Import Str.
Require Import Base Generated Position Make Gen Fen Uci WF SearchImp Session.
Require Spec.
Require Import Abs MakeSpec SessionProofs PositionProofs.
Import ListNotations.
Open Scope Z_scope.

(* any input line the dispatcher routes to the position handler *)
Theorem C07_position_line : forall run_search s e line p0,
  has_prefix line "position" = true ->
  let cmd := position_arg line in
  parse_position (start_text cmd) = Ok (Some p0) ->
  Position.ply p0 + Z.of_nat (List.length (move_texts cmd)) < 32767 ->
  moves_legal p0 (move_texts cmd) ->
  exists s' p' a', handle run_search s e line = Ok (s', [])
     /\ s_pos s' = Some p' /\ s_killers s' = no_killers /\ wf_legal p' = true
     /\ spec_play (abs p0) (move_texts cmd) = Some a' /\ pos_equiv (abs p') a'.
Proof. exact handle_position_line_refines. Qed.
(* legality stated by the rules alone (no reference to the engine's generator) *)
Theorem C07_position_by_the_rules : forall run_search s e arg p0,
  let cmd := trim_space (String " "%char arg) in
  parse_position (start_text cmd) = Ok (Some p0) ->
  Position.ply p0 + Z.of_nat (List.length (move_texts cmd)) < 32767 ->
  spec_moves_legal (abs p0) (move_texts cmd) ->
  exists s' p' a', handle run_search s e ("position " ++ arg) = Ok (s', [])
     /\ s_pos s' = Some p' /\ s_killers s' = no_killers /\ wf_legal p' = true
     /\ spec_play (abs p0) (move_texts cmd) = Some a' /\ pos_equiv (abs p') a'.
Proof. exact handle_position_refines_spec. Qed.
(* the start is the initial position of chess, which is a legal position of the rules with 20 / 400 / 8902 paths *)
Theorem C07_startpos : Spec.legal_position (abs startpos) = true /\ Spec.paths 1 (abs startpos) = 20
  /\ Spec.paths 2 (abs startpos) = 400 /\ Spec.paths 3 (abs startpos) = 8902.
Proof. exact (conj startpos_legal_position (conj startpos_paths1 (conj startpos_paths2 startpos_paths3))). Qed.
Print Assumptions C07_position_line.
Print Assumptions C07_position_by_the_rules.
Print Assumptions C07_startpos.
