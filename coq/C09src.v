(* Property C09, tie to the source: the index into the attack and direction tables, moveIndex of engine/attackLookup.go, is
   translated from the source text on every run (GeneratedFns.v) and proved, under the Go semantics of GoLang.v, to be the
   model's move_index for every pair of byte-sized squares -- the index every attack test of the C09 theorems goes through. *)
From Coq Require Import ZArith List String.
Require Import Base Generated Position Attack GoLang GeneratedFns GoFnsProofs.
Import ListNotations.
Open Scope Z_scope.

Theorem C09_source_moveIndex : forall from to, 0 <= from <= 255 -> 0 <= to <= 255 ->
  run_fn fn_moveIndex [from; to] [] = Ok (Returned (move_index from to)).
Proof. exact moveIndex_translated. Qed.
Print Assumptions C09_source_moveIndex.
