(* engine/uci.go: parseMoveString, Move.String, ApplyUciMove, parsePosition/doPosition, doGo token parsing, calcEndtime. *)
Require Import Str.
Require Import Base Generated Position Attack Make Gen Fen.
Open Scope Z_scope.

(* ---------- move text ---------- *)
Definition char_of (z : Z) : ascii := ascii_of_N (Z.to_N z).
(* square.String (valid squares) *)
Definition sq_string (s : Z) : string :=
  if negb (onb s) then "--" else String (char_of (Z.land s 15 + 97)) (String (char_of (Z.shiftr s 4 + 49)) EmptyString).
(* piece.String for the colourless promotion piece *)
Definition promo_string (k : kind) : string :=
  match k with Pawn => "p" | Knight => "n" | Bishop => "b" | Rook => "r" | Queen => "q" | King => "k" end.
(* Move.String *)
Definition move_string (m : move) : string :=
  match mpromo m with
  | Some k => (sq_string (mfrom m) ++ sq_string (mto m) ++ promo_string k)%string
  | None => (sq_string (mfrom m) ++ sq_string (mto m))%string end.

(* parseMoveString: None = error *)
Definition parse_move (s0 : string) : option move :=
  let s := to_lower s0 in
  match s with
  | String c0 (String c1 (String c2 (String c3 rest))) =>
      if (code c0 <? 97) || (code c0 >? 104) || (code c2 <? 97) || (code c2 >? 104) then None else
      if (code c1 <? 49) || (code c1 >? 56) || (code c3 <? 49) || (code c3 >? 56) then None else
      let from := byte ((code c0 - 97) + byte (Z.shiftl (code c1 - 49) 4)) in
      let to := byte ((code c2 - 97) + byte (Z.shiftl (code c3 - 49) 4)) in
      match rest with
      | String c4 EmptyString =>
          let pr := match c4 with "n"%char => Some Knight | "b"%char => Some Bishop | "r"%char => Some Rook | "q"%char => Some Queen | _ => None end in
          Some {| mfrom := from; mto := to; mpromo := pr; mep := INVALID |}
      | _ => Some (new_move from to)
      end
  | _ => None
  end.

(* ApplyUciMove: reconstructs the en-passant target of a double push, then MakeMove in place *)
Definition apply_uci (p : pos) (m : move) : result pos :=
  let is_pawn := match get (board p) (mfrom m) with Pc _ Pawn => true | _ => false end in
  let f := mfrom m in let t := mto m in
  let e := if is_pawn && (((rankof f =? 96) && (rankof t =? 64)) || ((rankof f =? 16) && (rankof t =? 48)))
           then byte (f + t) / 2 else mep m in
  make_legal p {| mfrom := f; mto := t; mpromo := mpromo m; mep := e |}.

(* ---------- position command ---------- *)
Inductive pos_out := PosSet (p : pos) | PosInvalidFen | PosInvalidMove (p : option pos).
(* parsePosition: Some p = position set, None = rejected (message printed) *)
Definition parse_position (s : string) : result (option pos) :=
  if has_prefix s "startpos" then Ok (Some startpos) else
  let s' := match cut_prefix s "fen " with Some r => trim_space r | None => s end in
  do r <- parse_fen s';
  match r with FenOk p => Ok (Some p) | FenErr _ => Ok None end.

Fixpoint apply_moves (p : pos) (ms : list string) : result pos_out :=
  match ms with
  | [] => Ok (PosSet p)
  | s :: rest => match parse_move s with
                 | None => Ok (PosInvalidMove (Some p))     (* moves applied so far stay *)
                 | Some m => do p' <- apply_uci p m; apply_moves p' rest
                 end
  end.
(* doPosition on the text after the keyword (already trimmed) *)
Definition do_position (cmd : string) : result pos_out :=
  match index_str cmd "moves" with
  | None => do r <- parse_position cmd; match r with Some p => Ok (PosSet p) | None => Ok PosInvalidFen end
  | Some i =>
      do r <- parse_position (trim_space (take i cmd));
      match r with
      | None => Ok PosInvalidFen
      | Some p => apply_moves p (split_on " "%char (trim_space (drop (i + 5) cmd)))
      end
  end.

(* ---------- go command ---------- *)
Record goargs := { ga_movetime : Z; ga_bleft : Z; ga_wleft : Z; ga_binc : Z; ga_winc : Z; ga_mtg : Z; ga_depth : Z }.
(* "no movetime argument" (Go: moveTimeGiven = false) is encoded by a value that is not an int64, so that no parsed argument
   (atoi yields int64 values only) can be taken for it *)
Definition no_movetime : Z := 9223372036854775808.
Definition go_defaults : goargs :=
  {| ga_movetime := no_movetime; ga_bleft := 100000000000; ga_wleft := 100000000000; ga_binc := 0; ga_winc := 0;
     ga_mtg := ExpectedFullMovesToBePlayed; ga_depth := MaxSearchDepth |}.
(* intAfter(i): value of the token following the keyword *)
Definition int_after (rest : list string) : option Z := match rest with [] => None | v :: _ => atoi v end.
(* None = command ignored (early return) *)
Fixpoint parse_go (toks : list string) (a : goargs) : option goargs :=
  match toks with
  | [] => Some a
  | t :: rest =>
      if str_eqb t "movetime" then
        match int_after rest with None => None | Some n =>
          Some {| ga_movetime := n; ga_bleft := ga_bleft a; ga_wleft := ga_wleft a; ga_binc := ga_binc a; ga_winc := ga_winc a; ga_mtg := ga_mtg a; ga_depth := ga_depth a |} end
      else if str_eqb t "infinite" then Some a
      else if str_eqb t "wtime" then
        match int_after rest with None => None | Some n =>
          parse_go rest {| ga_movetime := ga_movetime a; ga_bleft := ga_bleft a; ga_wleft := n; ga_binc := ga_binc a; ga_winc := ga_winc a; ga_mtg := ga_mtg a; ga_depth := ga_depth a |} end
      else if str_eqb t "btime" then
        match int_after rest with None => None | Some n =>
          parse_go rest {| ga_movetime := ga_movetime a; ga_bleft := n; ga_wleft := ga_wleft a; ga_binc := ga_binc a; ga_winc := ga_winc a; ga_mtg := ga_mtg a; ga_depth := ga_depth a |} end
      else if str_eqb t "winc" then
        match int_after rest with None => None | Some n =>
          parse_go rest {| ga_movetime := ga_movetime a; ga_bleft := ga_bleft a; ga_wleft := ga_wleft a; ga_binc := ga_binc a; ga_winc := n; ga_mtg := ga_mtg a; ga_depth := ga_depth a |} end
      else if str_eqb t "binc" then
        match int_after rest with None => None | Some n =>
          parse_go rest {| ga_movetime := ga_movetime a; ga_bleft := ga_bleft a; ga_wleft := ga_wleft a; ga_binc := n; ga_winc := ga_winc a; ga_mtg := ga_mtg a; ga_depth := ga_depth a |} end
      else if str_eqb t "movestogo" then
        match int_after rest with None => None | Some n => if n <? 1 then None else
          parse_go rest {| ga_movetime := ga_movetime a; ga_bleft := ga_bleft a; ga_wleft := ga_wleft a; ga_binc := ga_binc a; ga_winc := ga_winc a; ga_mtg := n; ga_depth := ga_depth a |} end
      else if str_eqb t "depth" then
        match int_after rest with None => None | Some n => if n <? 1 then None else
          parse_go rest {| ga_movetime := ga_movetime a; ga_bleft := ga_bleft a; ga_wleft := ga_wleft a; ga_binc := ga_binc a; ga_winc := ga_winc a; ga_mtg := ga_mtg a; ga_depth := Z.min n MaxSearchDepth |} end
      else parse_go rest a
  end.

(* calcEndtime: milliseconds allotted; Go int is int64, / truncates toward zero, panics on zero divisor *)
Definition millis_for_move (white_to_move : bool) (a : goargs) : result Z :=
  let left := if white_to_move then ga_wleft a else ga_bleft a in
  let inc := if white_to_move then ga_winc a else ga_binc a in
  let mtg := ga_mtg a in
  do m <- (if left >? inc then
             if mtg =? 0 then Panic P_DIV_ZERO else Ok (Z.min (int64 (Z.quot left mtg + inc)) left)
           else Ok left);
  Ok (Z.max (int64 (m - antiflagMillis)) 1).
(* duration in nanoseconds between startTime and the deadline *)
Definition allotted_ns (white_to_move : bool) (a : goargs) : result Z :=
  if negb (ga_movetime a =? no_movetime) then Ok (int64 (int64 (ga_movetime a - antiflagMillis) * 1000000))
  else do m <- millis_for_move white_to_move a; Ok (int64 (1000000 * m)).

(* ---------- score formatting (formatScore, closeToMate, fullMovesToMate, pliesToMate) ---------- *)
Inductive shown_score := ShMate (n : Z) | ShCp (v : Z).
Definition close_to_mate (score : Z) : bool := Z.abs score >? ScoreCloseToMate.
Definition full_moves_to_mate (score : Z) : Z :=
  let sign := if score <? 0 then -1 else 1 in
  let plies := - LostScore - Z.abs score in
  Z.quot (sign * (plies + 1)) 2.
Definition format_score (score : Z) : shown_score :=
  if close_to_mate score then ShMate (full_moves_to_mate score) else ShCp score.
