(* Property C12, promptness of `stop`: the transition system of Protocol.v lets the search thread "work a bounded time between
   polls"; these theorems tie that bound to the search code (model SearchImp): in terms of the node counter (one node evaluation
   is bounded work), for EVERY ordering, window, killer table and oracle streams, with no hypothesis about chess. *)
From Coq Require Import ZArith List.
Require Import Base Generated Position Make Gen Search SearchImp LatencyProofs.
Import ListNotations.
Open Scope Z_scope.

(* a stop that becomes visible at the k-th poll ends the whole `go` within (k + 1 + max_depth) * 64 node evaluations: at most 64
   evaluations lie between two polls (one leftmost capture chain), one more chain unwinds after the flag is latched *)
Theorem C12_stop_latency : forall order log_interval max_depth st0 stf k rest,
  st_polls st0 = repeat false k ++ true :: rest ->
  iterate_i order log_interval max_depth st0 = Ok stf ->
  st_nodes stf <= (Z.of_nat k + 1 + Z.of_nat (Nat.max 1 max_depth)) * Z.of_nat qfuel.
Proof. exact stop_latency_iterate. Qed.
(* bounded work between consecutive polls, counted over a whole alpha-beta call (P polls really consumed) *)
Theorem C12_work_per_poll : forall order log_interval d cand st a b depth r,
  alpha_beta_i order log_interval d cand st a b depth = Ok r -> (0 < length (st_polls (ist r)))%nat ->
  (length (st_polls (ist r)) <= length (st_polls st))%nat /\
  st_nodes (ist r) - st_nodes st <= (Z.of_nat (length (st_polls st) - length (st_polls (ist r))) + 1) * Z.of_nat qfuel.
Proof. exact gap_alpha_beta. Qed.
(* once the interruption flag is set the search only unwinds *)
Theorem C12_latched_flag_unwinds : forall order log_interval d cand st a b depth r,
  st_intr st = true -> alpha_beta_i order log_interval d cand st a b depth = Ok r ->
  st_intr (ist r) = true /\ st_nodes st <= st_nodes (ist r) <= st_nodes st + match d with O => Z.of_nat qfuel | S _ => 1 end.
Proof. exact latch_alpha_beta. Qed.
(* the quiescence loop as it was before fix 67f3a87 never looked at the stop channel: no bound of this kind existed *)
Theorem C12_prefix_quiescence_never_polled : forall order log_interval fuel cand st a b depth r,
  quiesce_old order log_interval fuel cand st a b depth = Ok r -> st_polls (ist r) = st_polls st /\ st_intr (ist r) = st_intr st.
Proof. exact quiesce_old_never_polls. Qed.
Print Assumptions C12_stop_latency.
Print Assumptions C12_work_per_poll.
Print Assumptions C12_latched_flag_unwinds.
Print Assumptions C12_prefix_quiescence_never_polled.
