(* A small deep-embedded fragment of Go -- integer expressions, assignments, if/else, return -- with the meaning Go gives it:
   `int` is int64 and wraps, `/` truncates toward zero and panics on a zero divisor, `%` is the remainder of that division,
   conversions reduce modulo their width.  `verifh gen-fns` prints the SOURCE TEXT of a few functions of the engine in this
   syntax into GeneratedFns.v on every run; GoFnsProofs.v proves each one equal to the hand-written model the theorems use. *)
From Coq Require Import ZArith List String Bool.
Require Import Base Generated.
Import ListNotations.
Open Scope Z_scope.

Inductive gop := OAdd | OSub | OMul | OQuo | ORem | OLt | OGt | OLe | OGe | OEq | ONe | OLAnd | OLOr | OAnd.
Inductive gexp :=
| EVar (x : string) | EInt (z : Z) | EBin (o : gop) (a b : gexp) | ENeg (a : gexp) | ENot (a : gexp)
| ECall (f : string) (args : list gexp)
| EInput (src : string)                   (* a method call without arguments, e.g. a query of the position: a named input *)
| EOpaque (src : string).                 (* source text outside the fragment *)
Inductive gstmt :=
| SAssign (x : string) (e : gexp)          (* x = e  and  x := e *)
| SOpAssign (x : string) (o : gop) (e : gexp)   (* x -= e ... *)
| SVar (x : string)                        (* var x int *)
| SInput (x src : string)                  (* x := <something outside the fragment>: an input of the function *)
| SIf (c : gexp) (t e : list gstmt)
| SReturn (e : gexp)
| SOpaque (src : string).
Record gfunc := { gf_name : string; gf_params : list string; gf_body : list gstmt }.

Definition P_GO_UNSUPPORTED := 99.
Definition P_GO_UNBOUND := 98.

Definition env := list (string * Z).
Fixpoint lookup (x : string) (e : env) : option Z :=
  match e with [] => None | (y, v) :: r => if String.eqb x y then Some v else lookup x r end.
(* package-level constants the translated functions mention: the regenerated values *)
Definition gconst (x : string) : option Z :=
  if String.eqb x "antiflagMillis" then Some antiflagMillis
  else if String.eqb x "LostScore" then Some LostScore
  else if String.eqb x "ScoreCloseToMate" then Some ScoreCloseToMate
  else if String.eqb x "killerMovesMaxPly" then Some killerMovesMaxPly
  else if String.eqb x "DrawScore" then Some DrawScore
  else if String.eqb x "lastValidSquare" then Some lastValidSquare
  else None.
Definition b2z (b : bool) : Z := if b then 1 else 0.

Definition bin (o : gop) (a b : Z) : result Z :=
  match o with
  | OAdd => Ok (int64 (a + b)) | OSub => Ok (int64 (a - b)) | OMul => Ok (int64 (a * b))
  | OQuo => if b =? 0 then Panic P_DIV_ZERO else Ok (int64 (Z.quot a b))
  | ORem => if b =? 0 then Panic P_DIV_ZERO else Ok (Z.rem a b)
  | OLt => Ok (b2z (a <? b)) | OGt => Ok (b2z (a >? b)) | OLe => Ok (b2z (a <=? b)) | OGe => Ok (b2z (a >=? b))
  | OEq => Ok (b2z (a =? b)) | ONe => Ok (b2z (negb (a =? b)))
  | OLAnd => Ok (b2z (negb (a =? 0) && negb (b =? 0))) | OLOr => Ok (b2z (negb (a =? 0) || negb (b =? 0)))
  | OAnd => Ok (Z.land a b)
  end.

Definition call (f : string) (args : list Z) : result Z :=
  match args with
  | [a; b] => if String.eqb f "min" then Ok (Z.min a b) else if String.eqb f "max" then Ok (Z.max a b) else Panic P_GO_UNSUPPORTED
  | [a] =>
      if String.eqb f "abs" then Ok (if a <? 0 then int64 (- a) else a)       (* the engine's own abs(int) int *)
      else if String.eqb f "int" then Ok a
      else if String.eqb f "uint16" then Ok (a mod 65536)
      else if String.eqb f "int16" then Ok ((a + 32768) mod 65536 - 32768)
      else Panic P_GO_UNSUPPORTED
  | _ => Panic P_GO_UNSUPPORTED
  end.

Fixpoint eval (en : env) (e : gexp) : result Z :=
  match e with
  | EVar x => match lookup x en with Some v => Ok v | None => match gconst x with Some v => Ok v | None => Panic P_GO_UNBOUND end end
  | EInt z => Ok z
  | EBin o a b =>
      do va <- eval en a;
      match o with
      | OLAnd => if va =? 0 then Ok 0 else do vb <- eval en b; bin o va vb       (* short circuit *)
      | OLOr => if va =? 0 then do vb <- eval en b; bin o va vb else Ok 1
      | _ => do vb <- eval en b; bin o va vb
      end
  | ENeg a => do va <- eval en a; Ok (int64 (- va))
  | ENot a => do va <- eval en a; Ok (b2z (va =? 0))
  | ECall f args =>
      do vs <- (fix go (l : list gexp) : result (list Z) :=
                  match l with [] => Ok [] | x :: r => do v <- eval en x; do vr <- go r; Ok (v :: vr) end) args;
      call f vs
  | EInput src => match lookup src en with Some v => Ok v | None => Panic P_GO_UNBOUND end
  | EOpaque _ => Panic P_GO_UNSUPPORTED
  end.

Inductive outcome := Normal (e : env) | Returned (v : Z) | Stopped (e : env) (src : string).

(* inp: values of the SInput variables; an SInput without a value, or an opaque statement, stops the run there *)
Fixpoint exec (inp : env) (s : gstmt) (en : env) : result outcome :=
  match s with
  | SAssign x e => do v <- eval en e; Ok (Normal ((x, v) :: en))
  | SOpAssign x o e => do v <- eval en e; do old <- eval en (EVar x); do r <- bin o old v; Ok (Normal ((x, r) :: en))
  | SVar x => Ok (Normal ((x, 0) :: en))
  | SInput x src => match lookup x inp with Some v => Ok (Normal ((x, v) :: en)) | None => Ok (Stopped en src) end
  | SIf c t e =>
      do v <- eval en c;
      let run := fix run (l : list gstmt) (en : env) : result outcome :=
        match l with
        | [] => Ok (Normal en)
        | s :: r => do o <- exec inp s en; match o with Normal en' => run r en' | _ => Ok o end
        end in
      if v =? 0 then run e en else run t en
  | SReturn e => do v <- eval en e; Ok (Returned v)
  | SOpaque src => Ok (Stopped en src)
  end.
Fixpoint exec_list (inp : env) (l : list gstmt) (en : env) : result outcome :=
  match l with
  | [] => Ok (Normal en)
  | s :: r => do o <- exec inp s en; match o with Normal en' => exec_list inp r en' | _ => Ok o end
  end.
Definition run_fn (f : gfunc) (args : list Z) (inp : env) : result outcome :=
  exec_list inp (gf_body f) (combine (gf_params f) args).
(* with package-level variables and named inputs the function reads (their values when it is entered) *)
Definition run_fn_env (f : gfunc) (args : list Z) (globals : env) : result outcome :=
  exec_list [] (gf_body f) (combine (gf_params f) args ++ globals).
