(* Property C12: stop / isready at any moment: no deadlock, no lost stop, engine stays usable.
   Statements over every reachable state of the two-thread transition system of Protocol.v, i.e. over every interleaving
   of command-thread and search-thread operations at shared-operation granularity. *)
From Coq Require Import List.
Require Import Base Protocol ProtocolProofs.
Import ListNotations.

Theorem C12_main_never_blocks : forall s l, reachable s -> cmd_enabled s l = true -> exists s', step s l = Some s'.
Proof. exact never_blocks. Qed.
Theorem C12_one_bestmove_per_go : forall s, reachable s ->
  go_count s = (bestmoves s + (match sp s with SIdle => 0 | _ => 1 end) + (match cp s with CGoStored => 1 | _ => 0 end))%nat.
Proof. exact one_bestmove_per_go. Qed.
Theorem C12_ready_answered : forall s, reachable s -> readyoks s = isreadys s.
Proof. exact ready_answered. Qed.
Theorem C12_isready_transparent : forall s s', step s LIsReady = Some s' ->
  running s' = running s /\ chan s' = chan s /\ sp s' = sp s /\ cp s' = cp s /\ go_count s' = go_count s.
Proof. exact isready_transparent. Qed.
Theorem C12_no_stale_token : forall s, reachable s -> forall k t, In (k, t) (consumed s) -> t = k.
Proof. exact no_stale_token. Qed.
Theorem C12_stop_not_lost : forall s, reachable s -> stop_seen s = Some (go_count s) ->
  match sp s with SSpawned | SRunning false _ => chan s <> None | _ => True end.
Proof. exact stop_not_lost_any_phase. Qed.
Theorem C12_stop_taken_by_next_poll : forall s f, reachable s -> stop_seen s = Some (go_count s) -> sp s = SRunning false f ->
  exists s', step s LPoll = Some s' /\ sp s' = SRunning true (Nat.min f 100) /\ chan s' = None
             /\ consumed s' = (go_count s, go_count s) :: consumed s.
Proof. exact stop_taken_by_next_poll. Qed.
Theorem C12_prompt_after_stop : forall s f, reachable s -> sp s = SRunning true f -> run_labels s (repeat LWork 101) = None.
Proof. exact interrupted_work_bounded. Qed.
(* the protocol of the pinned tree (before the fix) fails in three ways: concrete schedules *)
Theorem C12_legacy_refuted_block : exists s, lrun linit [GGo; GEnter; GFinish; GStop] = Some s /\ l_blocked s = true.
Proof. exact legacy_stop_after_bestmove_blocks. Qed.
Theorem C12_legacy_refuted_lost_stop : exists s, lrun linit [GGo; GStop; GEnter] = Some s /\ l_blocked s = false /\ l_sp s = LgRunning 10 /\ l_interrupted s = false.
Proof. exact legacy_stop_right_after_go_is_dropped. Qed.
Theorem C12_legacy_refuted_orphan : exists s, lrun linit [GGo; GEnter; GIsReady; GStop] = Some s /\ l_interrupted s = true /\ l_sp s = LgRunning 10.
Proof. exact legacy_isready_orphans_search. Qed.

(* non-vacuity: a schedule with a stop sent while the search runs reaches a state that meets the hypotheses above *)
Example C12_example : exists s, run_labels init [LGoDrain; LGoStore; LGoSpawn; LEnter; LWork; LStopLoad; LIsReady] = None \/
  (run_labels init [LGoDrain; LGoStore; LGoSpawn; LEnter; LWork; LStopLoad; LStopSend; LIsReady] = Some s
   /\ stop_seen s = Some (go_count s) /\ chan s <> None /\ readyoks s = 1%nat).
Proof. eexists. right. split; [vm_compute; reflexivity|]. cbn. repeat split; discriminate. Qed.

Print Assumptions C12_main_never_blocks.
Print Assumptions C12_one_bestmove_per_go.
Print Assumptions C12_ready_answered.
Print Assumptions C12_isready_transparent.
Print Assumptions C12_no_stale_token.
Print Assumptions C12_stop_not_lost.
Print Assumptions C12_stop_taken_by_next_poll.
Print Assumptions C12_prompt_after_stop.
Print Assumptions C12_legacy_refuted_block.
Print Assumptions C12_legacy_refuted_lost_stop.
Print Assumptions C12_legacy_refuted_orphan.
