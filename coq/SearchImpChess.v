(* The legal-line / output / bestmove theorems of SearchImpProofs.v, (1) generalised from "every tactical move is a
   legal move at EVERY position" to a position invariant [Inv n p] ("p is fit for a search that descends n more
   plies") that is preserved by legal moves, and (2) instantiated for chess with
       chess_inv n p := wf_legal p = true /\ ply p + n + 1 < 32767
   using make_spec (MakeProofs), gen_guards_ok / gen_legal_sound (GenProofs), make_legal_generated,
   gen_tactical_guards_ok, gen_tactical_pure_filter (CountProofs).  The only remaining hypothesis of the chess_*
   theorems is that the move ordering returns a permutation.  No axioms. *)
From Coq Require Import ZArith List Bool Lia Permutation ZifyBool.
Require Import Base Generated Position Attack Make Gen Count Eval Search SearchImp SearchImpProofs WF.
Require Spec.
Require Import Abs MakeSpec.
Require MakeProofs GenProofs CountProofs.
Open Scope Z_scope.

Lemma push_top st m stp p : push st m = Ok stp -> top st = Ok p ->
  exists p', make_legal p m = Ok p' /\ top stp = Ok p'.
Proof.
  intros P T. apply push_inv in P as (p0 & p' & T0 & M & ->).
  assert (p0 = p) by congruence. subst p0. exists p'. split; [exact M|]. eapply top_app. reflexivity.
Qed.

(* ---------- the loops, with a child hypothesis that is conditional on the child's position ---------- *)
Section LoopsQ.
Variable Q : pos -> Prop.          (* what is known about the positions after one legal move *)
Variable p : pos.
Variable lms : list rmove.
Hypothesis G : gen_legal p = Ok lms.
Hypothesis Qstep : forall m p', In m (map rm lms) -> make_legal p m = Ok p' -> Q p'.

Lemma q_loop_okI child beta :
  (forall stp x y c p', top stp = Ok p' -> Q p' -> child stp x y = Ok c -> node_ok stp c) ->
  forall ms alpha line st r, (forall m, In m ms -> In (rm m) (map rm lms)) -> top st = Ok p -> line_ok p line ->
    q_loop child beta ms alpha line st = Ok r -> oframe st (ist r) /\ line_ok p (iline r).
Proof.
  intros HC. induction ms as [|m l IH]; intros alpha line st r HI T L H.
  - cbn [q_loop] in H. inversion H. sst_simpl. split; [apply oframe_refl | exact L].
  - apply q_loop_cons in H as (stp & c & st'' & P & C & S & H).
    assert (Im : In (rm m) (map rm lms)) by (apply HI; left; reflexivity).
    destruct (push_top _ _ _ _ P T) as (q & Mq & Tq).
    apply (HC _ _ _ _ q Tq (Qstep _ _ Im Mq)) in C.
    destruct (step_ok _ _ _ _ _ _ P C S T) as (F & T'' & p' & M & Lc).
    assert (HI' : forall m, In m l -> In (rm m) (map rm lms)) by (intros; apply HI; right; assumption).
    destruct H as [-> | [-> | [(cl & E & H) | H]]]; sst_simpl; auto.
    + apply IH in H; auto.
      * destruct H as (F2 & L2). split; [eapply oframe_trans; eauto | exact L2].
      * rewrite E in Lc. eapply line_ok_cons; eauto.
    + apply IH in H; auto. destruct H as (F2 & L2). split; [eapply oframe_trans; eauto | exact L2].
Qed.

Lemma ab_loop_i_okI child beta plyp :
  (forall stp x y c p', top stp = Ok p' -> Q p' -> child stp x y = Ok c -> node_ok stp c) ->
  forall ms alpha line st r, (forall m, In m ms -> In (rm m) (map rm lms)) -> top st = Ok p -> line_ok p line ->
    ab_loop_i child beta plyp ms alpha line st = Ok r -> oframe st (ist r) /\ line_ok p (iline r).
Proof.
  intros HC. induction ms as [|m l IH]; intros alpha line st r HI T L H.
  - cbn [ab_loop_i] in H. inversion H. sst_simpl. split; [apply oframe_refl | exact L].
  - apply ab_loop_i_cons in H as [(_ & ->) | (_ & stp & c & P & C & H)]; [sst_simpl; split; [apply oframe_refl | exact L]|].
    assert (Im : In (rm m) (map rm lms)) by (apply HI; left; reflexivity).
    destruct (push_top _ _ _ _ P T) as (q & Mq & Tq).
    apply (HC _ _ _ _ q Tq (Qstep _ _ Im Mq)) in C.
    assert (HI' : forall m, In m l -> In (rm m) (map rm lms)) by (intros; apply HI; right; assumption).
    destruct H as [(st2 & S & ->) | (alpha' & line' & st'' & LL & S & H)].
    + destruct (step_ok _ _ _ _ _ _ P C S T) as (F & _). sst_simpl. auto.
    + destruct (step_ok _ _ _ _ _ _ P C S T) as (F & T'' & p' & M & Lc).
      assert (L' : line_ok p line').
      { destruct LL as [-> | (cl & E & ->)]; [exact L|]. rewrite E in Lc. eapply line_ok_cons; eauto. }
      destruct H as [-> | H]; [sst_simpl; auto|].
      apply IH in H; auto.
      * destruct H as (F2 & L2). split; [|exact L2].
        eapply oframe_trans; [exact F|]. eapply oframe_trans; [apply oframe_same, same_poll | exact F2].
      * rewrite (same_top _ _ (same_poll st'')). exact T''.
Qed.

Lemma root_loop_i_okI child target sorted :
  Permutation sorted lms ->
  (forall stp nb c p', top stp = Ok p' -> Q p' -> child stp nb = Ok c -> node_ok stp c) ->
  forall l idx alpha line st r, (forall m, In m l -> In m sorted) -> 0 <= idx -> top st = Ok p -> rline_ok p line ->
    root_loop_i child target sorted l idx alpha line st = Ok r ->
    outext (root_ev_ok p lms) st (ist r) /\ rline_ok p (iline r).
Proof.
  intros PM HC. induction l as [|m l IH]; intros idx alpha line st r HI I0 T L H.
  - cbn [root_loop_i] in H. inversion H. sst_simpl. split; [apply outext_eq; reflexivity | exact L].
  - apply root_loop_i_cons in H. cbv zeta in H.
    destruct H as [(_ & ->) | (_ & stp & c & alpha' & line' & st1 & st'' & P & C & A & S & H)];
      [sst_simpl; split; [apply outext_eq; reflexivity | exact L]|].
    assert (T0 : top (set_first st idx sorted) = Ok p) by exact T.
    assert (Im : In (rm m) (map rm lms)).
    { apply in_map. eapply Permutation_in; [exact PM|]. apply HI. left; reflexivity. }
    destruct (push_top _ _ _ _ P T0) as (q & Mq & Tq).
    apply (HC _ _ _ q Tq (Qstep _ _ Im Mq)) in C.
    assert (FR : forall x, oframe (set_first st idx sorted) x -> outext (root_ev_ok p lms) st x).
    { intros x (_ & _ & O). apply outext_src with (a := set_first st idx sorted); [reflexivity|].
      eapply outext_mono; [|exact O]. intros e. sst_simpl. apply cm_root; assumption. }
    assert (X : outext (root_ev_ok p lms) st st1 /\ top st1 = Ok p /\ rline_ok p line').
    { destruct A as [(_ & _ & -> & ->) | (_ & cl & st2 & E & _ & -> & S2 & A)].
      - destruct (step_ok _ _ _ _ _ _ P C (same_refl _) T0) as (F & T1 & _). auto.
      - destruct (step_ok _ _ _ _ _ _ P C S2 T0) as (F & T1 & p' & M & Lc).
        assert (LL : legal_line p (rm m :: cl)).
        { rewrite E in Lc. eapply line_ok_cons; eauto. }
        destruct A as [-> | ->].
        + split; [auto|]. split; [exact T1|]. split; [discriminate | exact LL].
        + split; [|split].
          * eapply outext_trans; [apply FR; exact F|]. apply outext_emit. cbn. split; [discriminate | exact LL].
          * exact T1.
          * split; [discriminate | exact LL]. }
    destruct X as (O1 & T1 & L').
    assert (O2 : outext (root_ev_ok p lms) st st'').
    { eapply outext_trans; [exact O1|]. apply outext_eq. apply S. }
    assert (T2 : top st'' = Ok p) by (rewrite (same_top _ _ S); exact T1).
    destruct H as [-> | H]; [sst_simpl; auto|].
    apply IH in H; auto.
    + destruct H as (O3 & L3). split; [|exact L3].
      eapply outext_trans; [exact O2|]. eapply outext_src; [|exact O3]. symmetry. apply (same_poll st'').
    + intros; apply HI; right; assumption.
    + lia.
    + rewrite (same_top _ _ (same_poll st'')). exact T2.
Qed.
End LoopsQ.

(* ================= 1. the theorems for an arbitrary position invariant ================= *)
Section Generic.
Variable order : killer_table -> list move -> Z -> pos -> list rmove -> list rmove.
Variable log_interval : Z.
Notation quiesce_i := (quiesce_i order log_interval).
Notation alpha_beta_i := (alpha_beta_i order log_interval).
Notation root_search_i := (root_search_i order log_interval).
Notation iterate_i := (iterate_i order log_interval).
Notation deepen_i := (deepen_i order log_interval).
Notation iter_ev_ok := (iter_ev_ok order log_interval).
Notation depth_prov := (depth_prov order log_interval).

Variable Inv : nat -> pos -> Prop.     (* index: number of further plies the search may still descend *)
Hypothesis inv_mono : forall n p, Inv (S n) p -> Inv n p.
Hypothesis inv_legal_step : forall n p ms m p',
  Inv (S n) p -> gen_legal p = Ok ms -> In m (map rm ms) -> make_legal p m = Ok p' -> Inv n p'.
Hypothesis tactical_sub_inv : forall n p tms,
  Inv (S n) p -> gen_tactical p = Ok tms -> exists ms, gen_legal p = Ok ms /\ incl (map rm tms) (map rm ms).
Hypothesis order_perm : forall k c d p l, Permutation (order k c d p l) l.

Lemma inv_le : forall n m p, (m <= n)%nat -> Inv n p -> Inv m p.
Proof. intros n m p H. induction H as [|n H IH]; intros I; [exact I|]. apply IH, inv_mono, I. Qed.

Lemma quiesce_i_okI : forall fuel n cand st a b depth r p,
  (fuel <= n)%nat -> top st = Ok p -> Inv n p -> quiesce_i fuel cand st a b depth = Ok r -> node_ok st r.
Proof.
  induction fuel as [|f IH]; intros n cand st a b depth r p0 LE T0 I H; [discriminate H|].
  destruct n as [|n']; [lia|].
  split; [eapply quiesce_i_stack; exact H|].
  apply quiesce_i_inv in H as (score & st1 & st2 & L & C & H).
  apply lazy_eval_st_same in L.
  assert (F : oframe st st2) by (eapply oframe_trans; [apply oframe_same; exact L | apply oframe_currmove; exact C]).
  assert (E : st_stack st2 = st_stack st) by (rewrite (currmove_step_stack _ _ C); apply L).
  destruct H as [-> | (alpha1 & line1 & p & tms & L1 & T & G & H)].
  - sst_simpl. split; [exact F|]. intros; apply line_ok_none.
  - assert (p = p0) by (rewrite (top_stack_eq _ _ E) in T; congruence). subst p0.
    destruct (tactical_sub_inv _ _ _ I G) as (lms & GL & IN).
    apply q_loop_okI with (Q := Inv n') (p := p) (lms := lms) in H; auto.
    + destruct H as (F2 & L2). split; [eapply oframe_trans; eauto|].
      intros q Tq. assert (q = p) by congruence. subst q. exact L2.
    + intros m p' Im M. eapply inv_legal_step; eauto.
    + intros stp x y c p' Tp Ip Hc. eapply (IH n'); [lia | exact Tp | exact Ip | exact Hc].
    + intros m Hm. apply IN. apply in_map. eapply Permutation_in; [apply order_perm | exact Hm].
    + destruct L1 as [-> | ->]; [apply line_ok_none | apply line_ok_nil].
Qed.

Lemma alpha_beta_i_okI : forall d n cand st a b depth r p,
  (d + qfuel <= n)%nat -> top st = Ok p -> Inv n p -> alpha_beta_i d cand st a b depth = Ok r -> node_ok st r.
Proof.
  induction d as [|k IH]; intros n cand st a b depth r p0 LE T0 I H.
  - apply alpha_beta_i_0 in H. eapply quiesce_i_okI; [| exact T0 | exact I | exact H]. lia.
  - destruct n as [|n']; [lia|].
    split; [eapply alpha_beta_i_stack; exact H|].
    apply alpha_beta_i_inv in H as (p & ms & T & G & [(_ & v & ->) | (_ & H)]).
    + sst_simpl. split; [apply oframe_same, same_set_nodes|]. intros; apply line_ok_nil.
    + assert (p = p0) by congruence. subst p0.
      apply ab_loop_i_okI with (Q := Inv n') (p := p) (lms := ms) in H; auto.
      * destruct H as (F2 & L2). split; [exact F2|].
        intros q Tq. assert (q = p) by congruence. subst q. exact L2.
      * intros m p' Im M. eapply inv_legal_step; eauto.
      * intros stp x y c p' Tp Ip Hc. eapply (IH n'); [lia | exact Tp | exact Ip | exact Hc].
      * intros m Hm. apply in_map. eapply Permutation_in; [apply order_perm | exact Hm].
      * apply line_ok_none.
Qed.

Theorem quiesce_i_legal : forall fuel n cand st a b depth r p l,
  (fuel <= n)%nat -> Inv n p ->
  quiesce_i fuel cand st a b depth = Ok r -> top st = Ok p -> iline r = Some l -> legal_line p l.
Proof. intros fuel n cand st a b depth r p l LE I H T E. eapply (quiesce_i_okI _ _ _ _ _ _ _ _ _ LE T I H); eauto. Qed.

Theorem alpha_beta_i_legal : forall d n cand st a b depth r p l,
  (d + qfuel <= n)%nat -> Inv n p ->
  alpha_beta_i d cand st a b depth = Ok r -> top st = Ok p -> iline r = Some l -> legal_line p l.
Proof. intros d n cand st a b depth r p l LE I H T E. eapply (alpha_beta_i_okI _ _ _ _ _ _ _ _ _ LE T I H); eauto. Qed.

(* the root: the children are searched to depth [pred t] *)
Theorem root_search_i_okI : forall t n cand st r one p,
  (S (pred t + qfuel) <= n)%nat -> Inv n p ->
  root_search_i t cand st = Ok (r, one) -> top st = Ok p ->
  exists ms, gen_legal p = Ok ms /\ one = (length ms =? 1)%nat /\
    outext (root_ev_ok p ms) st (ist r) /\
    (ms = [] -> iline r = Some [] /\ st_out (ist r) = st_out st) /\
    (ms <> [] -> rline_ok p (iline r)).
Proof.
  intros t n cand st r one p LE I H T.
  destruct n as [|n']; [lia|].
  apply root_search_i_inv in H as (p0 & ms & T0 & G & O & H).
  assert (p0 = p) by congruence. subst p0.
  exists ms. split; [exact G|]. split; [exact O|].
  destruct H as [(-> & v & ->) | (N & H)].
  - sst_simpl. split; [apply outext_eq; reflexivity|]. split; [auto | congruence].
  - apply root_loop_i_okI with (Q := Inv n') (p := p) (lms := ms) in H; auto.
    + destruct H as (O1 & L1). split; [exact O1|]. split; [congruence | auto].
    + intros m p' Im M. eapply inv_legal_step; eauto.
    + intros stp nb c p' Tp Ip Hc. eapply (alpha_beta_i_okI (pred t) n'); [lia | exact Tp | exact Ip | exact Hc].
    + lia.
    + exact Logic.I.
Qed.

Theorem root_search_i_legal : forall t n cand st r one p l,
  (S (pred t + qfuel) <= n)%nat -> Inv n p ->
  root_search_i t cand st = Ok (r, one) -> top st = Ok p -> iline r = Some l -> legal_line p l.
Proof.
  intros t n cand st r one p l LE I H T E.
  destruct (root_search_i_okI _ _ _ _ _ _ _ LE I H T) as (ms & _ & _ & _ & H0 & H1).
  destruct ms as [|m0 r0].
  - destruct (H0 eq_refl) as (E0 & _). rewrite E0 in E. inversion E. constructor.
  - assert (R : rline_ok p (iline r)) by (apply H1; discriminate). rewrite E in R. apply R.
Qed.

Theorem root_search_i_events : forall t n cand st r one p,
  (S (pred t + qfuel) <= n)%nat -> Inv n p ->
  root_search_i t cand st = Ok (r, one) -> top st = Ok p ->
  exists ms evs, gen_legal p = Ok ms /\ st_out (ist r) = evs ++ st_out st /\ Forall (root_ev_ok p ms) evs.
Proof.
  intros t n cand st r one p LE I H T.
  destruct (root_search_i_okI _ _ _ _ _ _ _ LE I H T) as (ms & G & _ & (evs & E & F) & _). eauto.
Qed.

(* ---- iterative deepening ---- *)
Lemma deepen_i_cons' max_depth f d score done_ best st res :
  deepen_i max_depth (S f) d score done_ best st = Ok res ->
  res = (score, done_, best, st) \/
  ((d <= max_depth)%nat /\
   exists s one' up st', root_search_i d best st = Ok (s, one') /\ time_up (ist s) = (up, st') /\
    ((res = (score, done_, best, st') /\ (up = true \/ st_intr st' = true)) \/
     (up = false /\ st_intr st' = false /\ exists m l, iline s = Some (m :: l) /\
        let st'' := emit st' (EvInfoDepth (Z.of_nat d) (iv s) (st_nodes st') (m :: l)) in
        (res = (iv s, Z.of_nat d, m :: l, st'') \/ deepen_i max_depth f (S d) (iv s) (Z.of_nat d) (m :: l) st'' = Ok res)))).
Proof.
  intros H. destruct (max_depth <? d)%nat eqn:E.
  - left. rewrite deepen_i_S, E in H. inversion H; reflexivity.
  - apply deepen_i_cons in H as [H | H]; [left; exact H | right; split; [apply Nat.ltb_ge; exact E | exact H]].
Qed.

Lemma deepen_i_okI max_depth n p ms : gen_legal p = Ok ms -> Inv n p -> (max_depth + qfuel + 1 <= n)%nat ->
  forall fuel d score done_ best st sc' dn' best' st',
    top st = Ok p -> best <> [] -> legal_line p best ->
    deepen_i max_depth fuel d score done_ best st = Ok (sc', dn', best', st') ->
    exists evs, st_out st' = evs ++ st_out st /\ Forall (iter_ev_ok p ms) evs /\
      best' = match last_depth_pv evs with Some pv => pv | None => best end /\
      best' <> [] /\ legal_line p best'.
Proof.
  intros G I LE. induction fuel as [|f IH]; intros d score done_ best st sc' dn' best' st' T N L H.
  - rewrite deepen_i_O in H. inversion H; subst. exists []. repeat split; auto.
  - apply deepen_i_cons' in H as [H | (LD & s & one' & up & st1 & R & TU & H)].
    { inversion H; subst. exists []. repeat split; auto. }
    assert (LE' : (S (pred d + qfuel) <= n)%nat) by lia.
    destruct (root_search_i_okI _ _ _ _ _ _ _ LE' I R T) as (ms0 & G0 & _ & (evs1 & E1 & F1) & _ & _).
    assert (ms0 = ms) by (eapply gen_legal_inj; eauto). subst ms0.
    pose proof (time_up_snd _ _ _ TU) as S1.
    assert (O1 : st_out st1 = evs1 ++ st_out st) by (rewrite <- E1; apply S1).
    assert (T1 : top st1 = Ok p).
    { rewrite (same_top _ _ S1). rewrite (top_stack_eq _ _ (root_search_i_stack _ _ _ _ _ _ _ R)). exact T. }
    assert (FI : Forall (iter_ev_ok p ms) evs1) by (eapply Forall_impl; [|exact F1]; apply root_iter_ev).
    destruct H as [(H & _) | (U & II & m & l & E & H)].
    + inversion H; subst. exists evs1. rewrite (last_depth_root _ _ _ F1). repeat split; auto.
    + cbv zeta in H.
      assert (LL : legal_line p (m :: l)) by (eapply root_search_i_legal; eauto).
      assert (EV : iter_ev_ok p ms (EvInfoDepth (Z.of_nat d) (iv s) (st_nodes st1) (m :: l))).
      { cbn. split; [discriminate|]. split; [exact LL|].
        exists best, st, s, one', st1. rewrite Nat2Z.id. subst up. repeat split; auto. }
      destruct H as [H | H].
      * inversion H; subst. exists (EvInfoDepth (Z.of_nat d) (iv s) (st_nodes st1) (m :: l) :: evs1).
        sst_simpl. rewrite O1. split; [reflexivity|]. split; [constructor; assumption|].
        split; [reflexivity|]. split; [discriminate | exact LL].
      * apply IH in H; [|exact T1 | discriminate | exact LL].
        destruct H as (evs2 & E2 & F2 & B2 & N2 & L2).
        exists (evs2 ++ EvInfoDepth (Z.of_nat d) (iv s) (st_nodes st1) (m :: l) :: evs1).
        split; [|split; [|split; [|split]]]; auto.
        -- rewrite E2. sst_simpl. rewrite O1, <- app_assoc. reflexivity.
        -- apply Forall_app. split; [exact F2 | constructor; assumption].
        -- rewrite last_depth_app. cbn [last_depth_pv]. rewrite B2. destruct (last_depth_pv evs2); reflexivity.
Qed.

(* The complete description of the output of a search (as SearchImpProofs.iterate_i_spec) *)
Theorem iterate_i_spec : forall n max_depth st stf p,
  (max_depth + qfuel + 1 <= n)%nat -> Inv n p ->
  iterate_i max_depth st = Ok stf -> top st = Ok p ->
  exists ms s1 one best1 evs,
    gen_legal p = Ok ms /\
    root_search_i 1 [] (set_nodes (set_intr st false) 0) = Ok (s1, one) /\ iline s1 = Some best1 /\
    Forall (iter_ev_ok p ms) evs /\
    let best := match last_depth_pv evs with Some pv => pv | None => best1 end in
    (ms = [] -> best = [] /\ evs = [] /\ st_out stf = EvBestMoveNone :: st_out st) /\
    (ms <> [] -> exists b l sc dn nd,
        best = b :: l /\ legal_line p best /\ In b (map rm ms) /\
        st_out stf = EvBestMove b :: EvInfoScore sc dn nd best :: evs ++ st_out st).
Proof.
  intros n max_depth st0 stf p LE I H T. rewrite iterate_i_eq in H. cbv zeta in H.
  apply bind_ok in H as ([s1 one] & R & H).
  assert (T' : top (set_nodes (set_intr st0 false) 0) = Ok p) by exact T.
  assert (LE1 : (S (pred 1 + qfuel) <= n)%nat) by (cbn [pred]; lia).
  destruct (root_search_i_okI _ _ _ _ _ _ _ LE1 I R T') as (ms & G & _ & (evs1 & E1 & F1) & H0 & H1).
  sst_simpl_in E1.
  destruct (iline s1) as [best1|] eqn:EL; [|discriminate].
  destruct (time_up (ist s1)) as [up1 st1] eqn:TU.
  pose proof (time_up_snd _ _ _ TU) as S1.
  apply bind_ok in H as ([[[score done_] best] stf'] & F & H).
  exists ms, s1, one, best1.
  destruct ms as [|m0 r0].
  - destruct (H0 eq_refl) as (E0 & EO). inversion E0; subst best1. sst_simpl_in EO.
    rewrite orb_true_r in F. inversion F; subst. inversion H; subst. sst_simpl.
    exists []. split; [exact G|]. split; [exact R|]. split; [exact EL|]. split; [constructor|].
    cbn [last_depth_pv]. split; [|intros C; congruence].
    intros _. split; [reflexivity|]. split; [reflexivity|]. f_equal. rewrite <- EO. apply S1.
  - assert (RL : rline_ok p (Some best1)) by (apply H1; discriminate). destruct RL as (N1 & L1).
    assert (O1 : st_out st1 = evs1 ++ st_out st0) by (rewrite <- E1; apply S1).
    assert (T1 : top st1 = Ok p).
    { rewrite (same_top _ _ S1). rewrite (top_stack_eq _ _ (root_search_i_stack _ _ _ _ _ _ _ R)). exact T'. }
    assert (X : exists evs, st_out stf' = evs ++ st_out st0 /\ Forall (iter_ev_ok p (m0 :: r0)) evs /\
                  best = match last_depth_pv evs with Some pv => pv | None => best1 end /\ best <> [] /\ legal_line p best).
    { destruct (up1 || st_intr st1 || one || match best1 with [] => true | _ :: _ => false end).
      - inversion F; subst. exists evs1. rewrite (last_depth_root _ _ _ F1). repeat split; auto.
        eapply Forall_impl; [|exact F1]; apply root_iter_ev.
      - apply deepen_i_okI with (n := n) (p := p) (ms := m0 :: r0) in F; auto.
        destruct F as (evs2 & E2 & F2 & B2 & N2 & L2).
        exists (evs2 ++ evs1). split; [|split; [|split; [|split]]]; auto.
        + rewrite E2, O1. apply app_assoc.
        + apply Forall_app. split; [exact F2|]. eapply Forall_impl; [|exact F1]; apply root_iter_ev.
        + rewrite last_depth_app, (last_depth_root _ _ _ F1). rewrite B2. destruct (last_depth_pv evs2); reflexivity. }
    destruct X as (evs & EO & FO & B & NB & LB).
    exists evs. split; [exact G|]. split; [exact R|]. split; [exact EL|]. split; [exact FO|].
    cbv zeta. rewrite <- B. split; [intros C; discriminate|]. intros _.
    destruct best as [|b l]; [congruence|]. inversion H; subst stf. sst_simpl.
    exists b, l, score, done_, (st_nodes stf'). split; [reflexivity|]. split; [exact LB|].
    split; [eapply legal_line_head; eauto|]. rewrite EO. reflexivity.
Qed.

(* ---- the corollaries ---- *)
Theorem iterate_i_one_bestmove : forall n max_depth st stf p,
  (max_depth + qfuel + 1 <= n)%nat -> Inv n p -> top st = Ok p ->
  iterate_i max_depth st = Ok stf -> st_out st = [] ->
  n_bestmoves (st_out stf) = 1%nat /\ exists e r, st_out stf = e :: r /\ is_bestmove e = true.
Proof.
  intros n max_depth st stf p LE I T H O.
  destruct (iterate_i_spec _ _ _ _ _ LE I H T) as (ms & s1 & one & best1 & evs & G & R & EL & F & H0 & H1). cbv zeta in H0, H1.
  destruct ms as [|m0 r0].
  - destruct (H0 eq_refl) as (_ & _ & E). rewrite E, O. cbn. eauto.
  - destruct H1 as (b & l & sc & dn & nd & _ & _ & _ & E); [discriminate|]. rewrite E, O, app_nil_r.
    cbn [n_bestmoves is_bestmove]. rewrite (iter_ev_not_best _ _ _ _ _ F). split; [reflexivity | eauto].
Qed.

Theorem iterate_i_bestmove_legal : forall n max_depth st stf p ms,
  (max_depth + qfuel + 1 <= n)%nat -> Inv n p ->
  iterate_i max_depth st = Ok stf -> top st = Ok p -> gen_legal p = Ok ms ->
  (ms = [] -> st_out stf = EvBestMoveNone :: st_out st) /\
  (ms <> [] -> exists b l sc dn nd rest,
      st_out stf = EvBestMove b :: EvInfoScore sc dn nd (b :: l) :: rest ++ st_out st /\
      legal_line p (b :: l) /\ In b (map rm ms)).
Proof.
  intros n max_depth st stf p ms LE I H T G.
  destruct (iterate_i_spec _ _ _ _ _ LE I H T) as (ms0 & s1 & one & best1 & evs & G0 & R & EL & F & H0 & H1). cbv zeta in H0, H1.
  assert (ms0 = ms) by (eapply gen_legal_inj; eauto). subst ms0.
  split.
  - intros N. apply H0 in N. apply N.
  - intros N. destruct (H1 N) as (b & l & sc & dn & nd & B & L & II & E).
    rewrite B in *. exists b, l, sc, dn, nd, evs. auto.
Qed.

Theorem iterate_i_no_leak : forall n max_depth st stf p ms,
  (max_depth + qfuel + 1 <= n)%nat -> Inv n p ->
  iterate_i max_depth st = Ok stf -> top st = Ok p -> gen_legal p = Ok ms -> ms <> [] -> last_depth_pv (st_out st) = None ->
  exists s1 one best1 b l sc dn nd rest,
    root_search_i 1 [] (set_nodes (set_intr st false) 0) = Ok (s1, one) /\ iline s1 = Some best1 /\
    st_out stf = EvBestMove b :: EvInfoScore sc dn nd (b :: l) :: rest /\
    b :: l = match last_depth_pv (st_out stf) with Some pv => pv | None => best1 end /\
    (forall pv, last_depth_pv (st_out stf) = Some pv ->
       exists d sc' nd', In (EvInfoDepth d sc' nd' pv) (st_out stf) /\ depth_prov p d sc' nd' pv).
Proof.
  intros n max_depth st stf p ms LE I H T G N LO.
  destruct (iterate_i_spec _ _ _ _ _ LE I H T) as (ms0 & s1 & one & best1 & evs & G0 & R & EL & F & H0 & H1). cbv zeta in H0, H1.
  assert (ms0 = ms) by (eapply gen_legal_inj; eauto). subst ms0.
  destruct (H1 N) as (b & l & sc & dn & nd & B & L & II & E).
  assert (LD : last_depth_pv (st_out stf) = last_depth_pv evs).
  { rewrite E. cbn [last_depth_pv]. rewrite last_depth_app, LO. destruct (last_depth_pv evs); reflexivity. }
  exists s1, one, best1, b, l, sc, dn, nd, (evs ++ st_out st).
  split; [exact R|]. split; [exact EL|]. split; [rewrite E, B; reflexivity|]. split; [rewrite LD; auto|].
  intros pv. rewrite LD. intros LP.
  assert (X : exists d sc' nd', In (EvInfoDepth d sc' nd' pv) evs /\ depth_prov p d sc' nd' pv).
  { clear - F LP. induction F as [|e evs He _ IH]; [discriminate|].
    destruct e; cbn [last_depth_pv] in LP;
      try (destruct (IH LP) as (d & sc' & nd' & II & Pv); exists d, sc', nd'; split; [right; exact II | exact Pv]).
    inversion LP; subst. cbn in He. destruct He as (_ & _ & Pv). do 3 eexists. split; [left; reflexivity | exact Pv]. }
  destruct X as (d & sc' & nd' & I' & Pv). exists d, sc', nd'. split; [|exact Pv].
  rewrite E. right; right. apply in_or_app. left; exact I'.
Qed.

Theorem iterate_i_events : forall n max_depth st stf p,
  (max_depth + qfuel + 1 <= n)%nat -> Inv n p ->
  iterate_i max_depth st = Ok stf -> top st = Ok p ->
  exists ms evs, gen_legal p = Ok ms /\ st_out stf = evs ++ st_out st /\ Forall (out_ev_ok p ms) evs.
Proof.
  intros n max_depth st stf p LE I H T.
  destruct (iterate_i_spec _ _ _ _ _ LE I H T) as (ms & s1 & one & best1 & evs & G & R & EL & F & H0 & H1). cbv zeta in H0, H1.
  exists ms. destruct ms as [|m0 r0].
  - destruct (H0 eq_refl) as (_ & _ & E). exists [EvBestMoveNone]. split; [exact G|]. split; [exact E|].
    repeat constructor.
  - destruct H1 as (b & l & sc & dn & nd & B & L & II & E); [discriminate|].
    exists (EvBestMove b :: EvInfoScore sc dn nd (match last_depth_pv evs with Some pv => pv | None => best1 end) :: evs).
    split; [exact G|]. split; [exact E|].
    constructor; [exact II|]. constructor; [cbn; rewrite B; split; [discriminate | rewrite <- B; exact L]|].
    eapply Forall_impl; [|exact F]. intros e. destruct e; cbn; tauto.
Qed.
End Generic.

(* ================= 2. the chess instance ================= *)
Definition chess_inv (n : nat) (p : pos) : Prop := wf_legal p = true /\ ply p + Z.of_nat n + 1 < 32767.

Lemma chess_inv_mono : forall n p, chess_inv (S n) p -> chess_inv n p.
Proof. intros n p [W B]. split; [exact W | lia]. Qed.

Lemma chess_gen_legal : forall p ms, wf_legal p = true -> ply p + 1 < 32767 -> gen_legal p = Ok ms -> ms = gen_legal_pure p.
Proof. intros p ms W B G. rewrite (GenProofs.gen_guards_ok MakeProofs.make_spec p W B) in G. inversion G. reflexivity. Qed.

(* a generated legal move leads to a well-formed position in which the side that moved is not in check, one ply later *)
Lemma chess_inv_legal_step : forall n p ms m p',
  chess_inv (S n) p -> gen_legal p = Ok ms -> In m (map rm ms) -> make_legal p m = Ok p' -> chess_inv n p'.
Proof.
  intros n p ms m p' [W B] G I M. assert (Hp : ply p + 1 < 32767) by lia.
  rewrite (chess_gen_legal p ms W Hp G) in I. apply in_map_iff in I as (r & E & Hr). subst m.
  destruct (CountProofs.make_legal_generated MakeProofs.make_spec p r W Hp Hr) as (p'' & E & W' & Pl & _).
  rewrite E in M. inversion M; subst p''. split; [exact W' | lia].
Qed.

(* the quiescence move list is a sub-list of the legal move list *)
Lemma chess_tactical_sub_inv : forall n p tms,
  chess_inv (S n) p -> gen_tactical p = Ok tms -> exists ms, gen_legal p = Ok ms /\ incl (map rm tms) (map rm ms).
Proof.
  intros n p tms [W B] G. assert (Hp : ply p + 1 < 32767) by lia.
  rewrite (CountProofs.gen_tactical_guards_ok MakeProofs.make_spec p W Hp) in G. inversion G; subst tms.
  exists (gen_legal_pure p). split; [exact (GenProofs.gen_guards_ok MakeProofs.make_spec p W Hp)|].
  rewrite CountProofs.gen_tactical_pure_filter. intros x Hx.
  apply in_map_iff in Hx as (r & E & Hr). apply filter_In in Hr as (Hr & _). subst x. apply in_map. exact Hr.
Qed.

(* a generated move is legal by the rules of chess *)
Lemma chess_gen_legal_rules : forall p ms b, wf_legal p = true -> ply p + 1 < 32767 ->
  gen_legal p = Ok ms -> In b (map rm ms) -> Spec.legal (abs p) (absm b) = true.
Proof.
  intros p ms b W Hp G I. rewrite (chess_gen_legal p ms W Hp G) in I. apply in_map_iff in I as (r & E & Hr). subst b.
  exact (GenProofs.gen_legal_sound MakeProofs.make_spec p r W Hp Hr).
Qed.

Section Chess.
Variable order : killer_table -> list move -> Z -> pos -> list rmove -> list rmove.
Variable log_interval : Z.
Hypothesis order_perm : forall k c d p l, Permutation (order k c d p l) l.
Notation quiesce_i := (quiesce_i order log_interval).
Notation alpha_beta_i := (alpha_beta_i order log_interval).
Notation root_search_i := (root_search_i order log_interval).
Notation iterate_i := (iterate_i order log_interval).

Lemma chess_inv_root max_depth p :
  wf_legal p = true -> ply p + Z.of_nat max_depth + Z.of_nat qfuel + 2 < 32767 -> chess_inv (max_depth + qfuel + 1) p.
Proof. intros W B. split; [exact W | lia]. Qed.

(* ---- per node ---- *)
Theorem chess_quiesce_i_legal : forall fuel cand st a b depth r p l,
  wf_legal p = true -> ply p + Z.of_nat fuel + 1 < 32767 ->
  quiesce_i fuel cand st a b depth = Ok r -> top st = Ok p -> iline r = Some l -> legal_line p l.
Proof.
  intros fuel cand st a b depth r p l W B.
  apply (quiesce_i_legal order log_interval chess_inv chess_inv_mono chess_inv_legal_step chess_tactical_sub_inv order_perm fuel fuel);
    [lia | split; assumption].
Qed.

Theorem chess_alpha_beta_i_legal : forall d cand st a b depth r p l,
  wf_legal p = true -> ply p + Z.of_nat d + Z.of_nat qfuel + 1 < 32767 ->
  alpha_beta_i d cand st a b depth = Ok r -> top st = Ok p -> iline r = Some l -> legal_line p l.
Proof.
  intros d cand st a b depth r p l W B.
  apply (alpha_beta_i_legal order log_interval chess_inv chess_inv_mono chess_inv_legal_step chess_tactical_sub_inv order_perm d (d + qfuel));
    [lia | split; [assumption | lia]].
Qed.

Theorem chess_root_search_i_legal : forall t cand st r one p l,
  wf_legal p = true -> ply p + Z.of_nat (pred t) + Z.of_nat qfuel + 2 < 32767 ->
  root_search_i t cand st = Ok (r, one) -> top st = Ok p -> iline r = Some l -> legal_line p l.
Proof.
  intros t cand st r one p l W B.
  apply (root_search_i_legal order log_interval chess_inv chess_inv_mono chess_inv_legal_step chess_tactical_sub_inv order_perm t (S (pred t + qfuel)));
    [lia | split; [assumption | lia]].
Qed.

Theorem chess_root_search_i_events : forall t cand st r one p,
  wf_legal p = true -> ply p + Z.of_nat (pred t) + Z.of_nat qfuel + 2 < 32767 ->
  root_search_i t cand st = Ok (r, one) -> top st = Ok p ->
  exists ms evs, gen_legal p = Ok ms /\ st_out (ist r) = evs ++ st_out st /\ Forall (root_ev_ok p ms) evs.
Proof.
  intros t cand st r one p W B.
  apply (root_search_i_events order log_interval chess_inv chess_inv_mono chess_inv_legal_step chess_tactical_sub_inv order_perm t (S (pred t + qfuel)));
    [lia | split; [assumption | lia]].
Qed.

(* ---- the whole search ---- *)
Theorem chess_iterate_i_spec : forall max_depth st stf p,
  wf_legal p = true -> ply p + Z.of_nat max_depth + Z.of_nat qfuel + 2 < 32767 ->
  iterate_i max_depth st = Ok stf -> top st = Ok p ->
  exists ms s1 one best1 evs,
    gen_legal p = Ok ms /\
    root_search_i 1 [] (set_nodes (set_intr st false) 0) = Ok (s1, one) /\ iline s1 = Some best1 /\
    Forall (iter_ev_ok order log_interval p ms) evs /\
    let best := match last_depth_pv evs with Some pv => pv | None => best1 end in
    (ms = [] -> best = [] /\ evs = [] /\ st_out stf = EvBestMoveNone :: st_out st) /\
    (ms <> [] -> exists b l sc dn nd,
        best = b :: l /\ legal_line p best /\ In b (map rm ms) /\
        st_out stf = EvBestMove b :: EvInfoScore sc dn nd best :: evs ++ st_out st).
Proof.
  intros max_depth st stf p W B.
  apply (iterate_i_spec order log_interval chess_inv chess_inv_mono chess_inv_legal_step chess_tactical_sub_inv order_perm
           (max_depth + qfuel + 1)%nat max_depth); [lia | apply chess_inv_root; assumption].
Qed.

Theorem chess_iterate_i_events : forall max_depth st stf p,
  wf_legal p = true -> ply p + Z.of_nat max_depth + Z.of_nat qfuel + 2 < 32767 ->
  iterate_i max_depth st = Ok stf -> top st = Ok p ->
  exists ms evs, gen_legal p = Ok ms /\ st_out stf = evs ++ st_out st /\ Forall (out_ev_ok p ms) evs.
Proof.
  intros max_depth st stf p W B.
  apply (iterate_i_events order log_interval chess_inv chess_inv_mono chess_inv_legal_step chess_tactical_sub_inv order_perm
           (max_depth + qfuel + 1)%nat max_depth); [lia | apply chess_inv_root; assumption].
Qed.

Theorem chess_iterate_i_one_bestmove : forall max_depth st stf p,
  wf_legal p = true -> ply p + Z.of_nat max_depth + Z.of_nat qfuel + 2 < 32767 -> top st = Ok p ->
  iterate_i max_depth st = Ok stf -> st_out st = [] ->
  n_bestmoves (st_out stf) = 1%nat /\ exists e r, st_out stf = e :: r /\ is_bestmove e = true.
Proof.
  intros max_depth st stf p W B.
  apply (iterate_i_one_bestmove order log_interval chess_inv chess_inv_mono chess_inv_legal_step chess_tactical_sub_inv order_perm
           (max_depth + qfuel + 1)%nat max_depth); [lia | apply chess_inv_root; assumption].
Qed.

Theorem chess_iterate_i_bestmove_legal : forall max_depth st stf p ms,
  wf_legal p = true -> ply p + Z.of_nat max_depth + Z.of_nat qfuel + 2 < 32767 ->
  iterate_i max_depth st = Ok stf -> top st = Ok p -> gen_legal p = Ok ms ->
  (ms = [] -> st_out stf = EvBestMoveNone :: st_out st) /\
  (ms <> [] -> exists b l sc dn nd rest,
      st_out stf = EvBestMove b :: EvInfoScore sc dn nd (b :: l) :: rest ++ st_out st /\
      legal_line p (b :: l) /\ In b (map rm ms)).
Proof.
  intros max_depth st stf p ms W B.
  apply (iterate_i_bestmove_legal order log_interval chess_inv chess_inv_mono chess_inv_legal_step chess_tactical_sub_inv order_perm
           (max_depth + qfuel + 1)%nat max_depth); [lia | apply chess_inv_root; assumption].
Qed.

Theorem chess_iterate_i_no_leak : forall max_depth st stf p ms,
  wf_legal p = true -> ply p + Z.of_nat max_depth + Z.of_nat qfuel + 2 < 32767 ->
  iterate_i max_depth st = Ok stf -> top st = Ok p -> gen_legal p = Ok ms -> ms <> [] -> last_depth_pv (st_out st) = None ->
  exists s1 one best1 b l sc dn nd rest,
    root_search_i 1 [] (set_nodes (set_intr st false) 0) = Ok (s1, one) /\ iline s1 = Some best1 /\
    st_out stf = EvBestMove b :: EvInfoScore sc dn nd (b :: l) :: rest /\
    b :: l = match last_depth_pv (st_out stf) with Some pv => pv | None => best1 end /\
    (forall pv, last_depth_pv (st_out stf) = Some pv ->
       exists d sc' nd', In (EvInfoDepth d sc' nd' pv) (st_out stf) /\ depth_prov order log_interval p d sc' nd' pv).
Proof.
  intros max_depth st stf p ms W B.
  apply (iterate_i_no_leak order log_interval chess_inv chess_inv_mono chess_inv_legal_step chess_tactical_sub_inv order_perm
           (max_depth + qfuel + 1)%nat max_depth); [lia | apply chess_inv_root; assumption].
Qed.

(* ---- the bestmove is legal BY THE RULES OF CHESS; without a legal move the answer is 'bestmove 0000' ---- *)
Theorem chess_iterate_i_bestmove_rules : forall max_depth st stf p,
  wf_legal p = true -> ply p + Z.of_nat max_depth + Z.of_nat qfuel + 2 < 32767 ->
  iterate_i max_depth st = Ok stf -> top st = Ok p ->
  (exists b rest, st_out stf = EvBestMove b :: rest /\ Spec.legal (abs p) (absm b) = true) \/
  (st_out stf = EvBestMoveNone :: st_out st /\ forall sm, Spec.legal (abs p) sm = false).
Proof.
  intros max_depth st stf p W B H T. assert (Hp : ply p + 1 < 32767) by lia.
  pose proof (GenProofs.gen_guards_ok MakeProofs.make_spec p W Hp) as G.
  destruct (chess_iterate_i_bestmove_legal _ _ _ _ _ W B H T G) as (H0 & H1).
  destruct (gen_legal_pure p) as [|r0 l0] eqn:EG.
  - right. split; [apply H0; reflexivity|]. intros sm.
    destruct (Spec.legal (abs p) sm) eqn:E; [|reflexivity].
    destruct (GenProofs.gen_legal_complete MakeProofs.make_spec p sm W Hp E) as (r & Hr & _).
    rewrite EG in Hr. destruct Hr.
  - left. destruct H1 as (b & l & sc & dn & nd & rest & E & _ & I); [discriminate|].
    exists b. eexists. split; [exact E|]. eapply chess_gen_legal_rules; eauto.
Qed.

(* every line printed ('info ... pv', 'info depth') starts with a move that is legal by the rules, as is every currmove *)
Theorem chess_iterate_i_events_rules : forall max_depth st stf p,
  wf_legal p = true -> ply p + Z.of_nat max_depth + Z.of_nat qfuel + 2 < 32767 ->
  iterate_i max_depth st = Ok stf -> top st = Ok p ->
  exists evs, st_out stf = evs ++ st_out st /\
    Forall (fun e => match e with
                     | EvCurrMove m _ _ | EvBestMove m => Spec.legal (abs p) (absm m) = true
                     | EvInfoScore _ _ _ pv | EvInfoDepth _ _ _ pv => exists m l, pv = m :: l /\ Spec.legal (abs p) (absm m) = true
                     | EvBestMoveNone => forall sm, Spec.legal (abs p) sm = false
                     end) evs.
Proof.
  intros max_depth st stf p W B H T. assert (Hp : ply p + 1 < 32767) by lia.
  destruct (chess_iterate_i_events _ _ _ _ W B H T) as (ms & evs & G & E & F).
  exists evs. split; [exact E|]. eapply Forall_impl; [|exact F].
  assert (HL : forall m l, legal_line p (m :: l) -> Spec.legal (abs p) (absm m) = true).
  { intros m l L. eapply chess_gen_legal_rules; eauto. eapply legal_line_head; eauto. }
  intros e. destruct e; cbn [out_ev_ok].
  - intros (N & L). destruct pv as [|m l]; [congruence|]. exists m, l. split; [reflexivity | eapply HL; exact L].
  - intros (N & L). destruct pv as [|m l]; [congruence|]. exists m, l. split; [reflexivity | eapply HL; exact L].
  - intros (I & _). eapply chess_gen_legal_rules; eauto.
  - intros I. eapply chess_gen_legal_rules; eauto.
  - intros -> sm. destruct (Spec.legal (abs p) sm) eqn:EL; [|reflexivity].
    destruct (GenProofs.gen_legal_complete MakeProofs.make_spec p sm W Hp EL) as (r & Hr & _).
    rewrite <- (chess_gen_legal p [] W Hp G) in Hr. destruct Hr.
Qed.
End Chess.

Print Assumptions chess_inv_mono.
Print Assumptions chess_inv_legal_step.
Print Assumptions chess_tactical_sub_inv.
Print Assumptions chess_quiesce_i_legal.
Print Assumptions chess_alpha_beta_i_legal.
Print Assumptions chess_root_search_i_legal.
Print Assumptions chess_root_search_i_events.
Print Assumptions chess_iterate_i_spec.
Print Assumptions chess_iterate_i_events.
Print Assumptions chess_iterate_i_one_bestmove.
Print Assumptions chess_iterate_i_bestmove_legal.
Print Assumptions chess_iterate_i_no_leak.
Print Assumptions chess_iterate_i_bestmove_rules.
Print Assumptions chess_iterate_i_events_rules.
