(* Property C03: every `go` yields exactly one `bestmove`, and it is a legal move -- for every stop timing, every clock
   behaviour (the three oracle streams inside the search state), every move ordering, every logging interval. *)
From Coq Require Import ZArith List.
Require Import Base Generated Position Make Gen SearchImp SearchImpProofs SearchStmt.
Import ListNotations.

Theorem C03_one_bestmove : forall order log_interval, is_ordering2 order -> tactical_sub ->
  forall n st stf, iterate_i order log_interval n st = Ok stf -> st_out st = [] ->
  n_bestmoves (st_out stf) = 1%nat /\ (exists e r, st_out stf = e :: r /\ is_bestmove e = true).
Proof. exact iterate_i_one_bestmove. Qed.
Theorem C03_bestmove_legal : forall order log_interval, is_ordering2 order -> tactical_sub ->
  forall n st stf p ms, iterate_i order log_interval n st = Ok stf -> top st = Ok p -> gen_legal p = Ok ms ->
  (ms = [] -> st_out stf = EvBestMoveNone :: st_out st) /\
  (ms <> [] -> exists b l sc dn nd rest,
      st_out stf = EvBestMove b :: EvInfoScore sc dn nd (b :: l) :: rest ++ st_out st /\ legal_line p (b :: l) /\ In b (map rm ms)).
Proof. exact iterate_i_bestmove_legal. Qed.
(* when the depth-1 iteration could not produce a line the model panics instead of printing garbage; that cannot happen
   as long as leaf values stay below +Infinity (C05's evaluation band) *)
Theorem C03_stale_is_a_panic : forall order log_interval n st s1 one,
  root_search_i order log_interval 1 [] (set_nodes (set_intr st false) 0) = Ok (s1, one) -> iline s1 = None ->
  iterate_i order log_interval n st = Panic Search.P_STALE_PV.
Proof. exact iterate_i_stale. Qed.
Print Assumptions C03_one_bestmove.
Print Assumptions C03_bestmove_legal.
Print Assumptions C03_stale_is_a_panic.
