(* Perft in all its forms (model: Perft.perft_tactical, perft_divide, tperft_divide) against the rules of chess.
   Uses the proved statement about MakeMove (MakeProofs.make_spec), so everything here is hypothesis-free:
     perft_tactical_exact   PerftTactical n = tpaths n: legal paths of length n whose last move captures or promotes
                            (n = 0 answers like n = 1, as the engine does)
     perft_divide_exact     Perftd n: one row per legal move in generation order, each with the perft below it; total = paths n
     tperft_divide_exact    PerftDivTactical n: depth 1 rows carry 1/0 for tactical / quiet, deeper rows tpaths below the move
     perft_total_holds, tperft_total_holds   the two premises of the interpreter-totality theorems of SessionProofs
   No axioms, nothing admitted. *)
From Coq Require Import ZArith List Bool Lia ZifyBool Permutation.
Require Import Base Generated Position Attack Make Gen Count Perft WF.
Require Spec.
Require Import Abs MakeSpec ListProofs AttackProofs GenProofs CountProofs.
Require MakeProofs.
Require SessionProofs.
Import ListNotations.
Open Scope Z_scope.

Definition make_spec : make_spec_statement := MakeProofs.make_spec.

(* ================= the specification of PerftTactical ================= *)

(* number of legal move paths of length n whose final move captures or promotes; depth 0 is answered like depth 1 *)
Fixpoint tpaths (n : nat) (a : Spec.position) : Z :=
  match n with
  | O => Z.of_nat (length (Spec.tactical_moves a))
  | S O => Z.of_nat (length (Spec.tactical_moves a))
  | S k => fold_left (fun acc m => acc + tpaths k (Spec.apply a m)) (Spec.legal_moves a) 0
  end.

Lemma tpaths_SS : forall k a, tpaths (S (S k)) a =
  fold_left (fun acc m => acc + tpaths (S k) (Spec.apply a m)) (Spec.legal_moves a) 0.
Proof. reflexivity. Qed.

Lemma is_tactical_ext : forall a a' m, pos_equiv a a' -> Spec.is_tactical a m = Spec.is_tactical a' m.
Proof.
  intros a a' m [Hb [Ht _]]. unfold Spec.is_tactical, Spec.is_capture.
  rewrite <- Ht, (owned_ext _ _ Hb), (has_ext _ _ Hb), (empty_ext _ _ Hb). reflexivity.
Qed.
Lemma tactical_moves_ext : forall a a', pos_equiv a a' -> Spec.tactical_moves a = Spec.tactical_moves a'.
Proof.
  intros a a' E. unfold Spec.tactical_moves. rewrite (legal_moves_ext a a' E). apply filter_ext.
  intros m. apply is_tactical_ext. exact E.
Qed.
Lemma tpaths_ext : forall n a a', pos_equiv a a' -> tpaths n a = tpaths n a'.
Proof.
  induction n as [|k IH]; intros a a' E.
  - cbn [tpaths]. rewrite (tactical_moves_ext a a' E). reflexivity.
  - destruct k as [|k'].
    + cbn [tpaths]. rewrite (tactical_moves_ext a a' E). reflexivity.
    + rewrite !tpaths_SS, (legal_moves_ext a a' E). apply fold_left_ext. intros acc m.
      rewrite (IH _ _ (apply_ext a a' E m)). reflexivity.
Qed.

(* ================= monadic folds over a move list ================= *)

Section Folds.
Variable p : pos.
Variable sub : pos -> result Z.
Variable h : rmove -> Z.

Lemma rows_fold : forall l, (forall r, In r l -> exists p', make_legal p (rm r) = Ok p' /\ sub p' = Ok (h r)) -> forall a0,
  fold_left (fun acc r => do a <- acc; do p' <- make_legal p (rm r); do v <- sub p'; Ok (a ++ [(rm r, v)])) l (Ok a0)
  = Ok (a0 ++ map (fun r => (rm r, h r)) l).
Proof.
  induction l as [|r l IH]; intros H a0; cbn [fold_left map].
  - rewrite app_nil_r. reflexivity.
  - destruct (H r (or_introl eq_refl)) as [p' [E1 E2]]. cbn [bind]. rewrite E1. cbn [bind]. rewrite E2. cbn [bind].
    rewrite IH by (intros r' Hr'; apply H; right; exact Hr'). rewrite <- app_assoc. reflexivity.
Qed.

Lemma sum_fold : forall l, (forall r, In r l -> exists p', make_legal p (rm r) = Ok p' /\ sub p' = Ok (h r)) -> forall a0,
  fold_left (fun acc r => do a <- acc; do p' <- make_legal p (rm r); do v <- sub p'; Ok (a + v)) l (Ok a0)
  = Ok (a0 + zsum (map h l)).
Proof.
  induction l as [|r l IH]; intros H a0; cbn [fold_left map].
  - rewrite zsum_nil, Z.add_0_r. reflexivity.
  - destruct (H r (or_introl eq_refl)) as [p' [E1 E2]]. cbn [bind]. rewrite E1. cbn [bind]. rewrite E2. cbn [bind].
    rewrite IH by (intros r' Hr'; apply H; right; exact Hr'). rewrite zsum_cons. apply f_equal. lia.
Qed.
End Folds.

Lemma flag_fold : forall (l : list rmove) a0,
  fold_left (fun acc r => do a <- acc; Ok (a ++ [(rm r, b2z (tactical r))])) l (Ok a0)
  = Ok (a0 ++ map (fun r => (rm r, b2z (tactical r))) l).
Proof.
  induction l as [|r l IH]; intros a0; cbn [fold_left map].
  - rewrite app_nil_r. reflexivity.
  - cbn [bind]. rewrite IH, <- app_assoc. reflexivity.
Qed.

Lemma zsum_b2z_filter {A} (f : A -> bool) l : zsum (map (fun x => b2z (f x)) l) = Z.of_nat (length (filter f l)).
Proof.
  induction l as [|x l IH]; cbn [map filter]; [reflexivity|]. rewrite zsum_cons, IH.
  destruct (f x); cbn [b2z length]; lia.
Qed.

(* a child position: the sub-computation on it answers by the rules *)
Lemma child : forall p (sub : pos -> result Z) (G : Spec.position -> Z),
  wf_legal p = true -> ply p + 1 < 32767 ->
  (forall a a', pos_equiv a a' -> G a = G a') ->
  (forall p', wf_legal p' = true -> ply p' = ply p + 1 -> sub p' = Ok (G (abs p'))) ->
  forall r, In r (gen_legal_pure p) ->
  exists p', make_legal p (rm r) = Ok p' /\ sub p' = Ok (G (Spec.apply (abs p) (absm (rm r)))).
Proof.
  intros p sub G Hl Hp Gext Hsub r Hr.
  destruct (make_legal_generated make_spec p r Hl Hp Hr) as [p' [E [W [Pl Q]]]].
  exists p'. split; [exact E|]. rewrite (Hsub p' W Pl), (Gext _ _ Q). reflexivity.
Qed.

(* the quiescence list against the rules' tactical moves *)
Lemma tactical_count : forall p, wf_legal p = true -> ply p + 1 < 32767 ->
  Z.of_nat (length (filter tactical (gen_legal_pure p))) = Z.of_nat (length (Spec.tactical_moves (abs p))).
Proof.
  intros p Hl Hp. destruct (gen_tactical_exact make_spec p Hl Hp) as [l [E [ND M]]].
  rewrite (gen_tactical_guards_ok make_spec p Hl Hp) in E. inversion E; subst l. clear E.
  rewrite gen_tactical_pure_filter in ND, M.
  rewrite <- (map_length (fun r => absm (rm r))). apply f_equal. apply Permutation_length.
  apply NoDup_Permutation; [exact ND| |].
  - unfold Spec.tactical_moves. apply NoDup_filter. apply legal_moves_NoDup.
  - intros x. rewrite M. unfold Spec.tactical_moves. rewrite filter_In. split.
    + intros [L T]. split; [apply legal_moves_In; exact L|exact T].
    + intros [L T]. split; [|exact T]. unfold Spec.legal_moves in L. apply filter_In in L as [_ L]. exact L.
Qed.

Lemma count_tactical_spec : forall p, wf_legal p = true -> ply p + 1 < 32767 ->
  count_tactical p = Z.of_nat (length (Spec.tactical_moves (abs p))).
Proof.
  intros p Hl Hp. rewrite (count_tactical_exact make_spec p _ Hl Hp (gen_tactical_guards_ok make_spec p Hl Hp)).
  rewrite gen_tactical_pure_filter. apply tactical_count; assumption.
Qed.

(* ================= PerftTactical ================= *)

Lemma perft_tactical_SS : forall k p, perft_tactical (S (S k)) p =
  do ms <- gen_legal p;
  fold_left (fun acc r => do a <- acc; do p' <- make_legal p (rm r); do v <- perft_tactical (S k) p'; Ok (a + v)) ms (Ok 0).
Proof. reflexivity. Qed.

Lemma sum_perm : forall p (g : Spec.move -> Z), wf_legal p = true -> ply p + 1 < 32767 ->
  zsum (map (fun r => g (absm (rm r))) (gen_legal_pure p)) = fold_left (fun acc m => acc + g m) (Spec.legal_moves (abs p)) 0.
Proof.
  intros p g Hl Hp. rewrite fold_add_zsum, Z.add_0_l. rewrite <- (map_map (fun r => absm (rm r)) g).
  apply zsum_perm. apply Permutation_map. exact (gen_perm make_spec p Hl Hp).
Qed.

(* the engine needs one ply of room even at depth 0 (the legality test plays the move), hence the side condition *)
Theorem perft_tactical_exact : forall n p, wf_legal p = true -> ply p + Z.of_nat n < 32767 -> ply p + 1 < 32767 ->
  perft_tactical n p = Ok (tpaths n (abs p)).
Proof.
  induction n as [|n IH]; intros p Hl Hp Hp1.
  - cbn [perft_tactical tpaths]. apply f_equal. apply count_tactical_spec; assumption.
  - destruct n as [|k].
    + cbn [perft_tactical tpaths]. apply f_equal. apply count_tactical_spec; assumption.
    + rewrite perft_tactical_SS, (gen_guards_ok make_spec p Hl Hp1). cbn [bind].
      rewrite (sum_fold p (perft_tactical (S k)) (fun r => tpaths (S k) (Spec.apply (abs p) (absm (rm r))))).
      * rewrite Z.add_0_l, tpaths_SS. apply f_equal.
        exact (sum_perm p (fun m => tpaths (S k) (Spec.apply (abs p) m)) Hl Hp1).
      * apply (child p (perft_tactical (S k)) (tpaths (S k)) Hl Hp1 (tpaths_ext (S k))).
        intros p' W Pl. apply IH; [exact W|lia|lia].
Qed.

Corollary perft_tactical_exact_pos : forall n p, (1 <= n)%nat -> wf_legal p = true -> ply p + Z.of_nat n < 32767 ->
  perft_tactical n p = Ok (tpaths n (abs p)).
Proof. intros n p Hn Hl Hp. apply perft_tactical_exact; [exact Hl|exact Hp|lia]. Qed.

(* ================= Perftd ================= *)

Lemma perft_divide_S : forall k p, perft_divide (S k) p =
  do ms <- gen_legal p;
  do rows <- fold_left (fun acc r => do a <- acc; do p' <- make_legal p (rm r); do v <- perft k p'; Ok (a ++ [(rm r, v)])) ms (Ok []);
  Ok (rows, zsum (map snd rows)).
Proof. reflexivity. Qed.

Lemma zsum_rows : forall (h : rmove -> Z) l, zsum (map snd (map (fun r => (rm r, h r)) l)) = zsum (map h l).
Proof. intros h l. rewrite map_map. reflexivity. Qed.

(* one row per generated legal move (these are exactly the legal moves of the rules, each once: gen_legal_exact),
   in generation order, with the number of legal paths of length n-1 below it; the total is the number of paths of length n *)
Theorem perft_divide_exact : forall n p l, wf_legal p = true -> ply p + Z.of_nat n < 32767 -> (1 <= n)%nat ->
  gen_legal p = Ok l ->
  perft_divide n p = Ok (map (fun r => (rm r, Spec.paths (n - 1) (Spec.apply (abs p) (absm (rm r))))) l,
                         Spec.paths n (abs p)).
Proof.
  intros n p l Hl Hp Hn E. destruct n as [|k]; [lia|]. assert (Hp1 : ply p + 1 < 32767) by lia.
  replace (S k - 1)%nat with k by lia.
  rewrite perft_divide_S, E. cbn [bind].
  rewrite (gen_guards_ok make_spec p Hl Hp1) in E. inversion E; subst l. clear E.
  rewrite (rows_fold p (perft k) (fun r => Spec.paths k (Spec.apply (abs p) (absm (rm r))))).
  - cbn [bind app]. rewrite zsum_rows, paths_S. apply f_equal. apply f_equal.
    exact (sum_perm p (fun m => Spec.paths k (Spec.apply (abs p) m)) Hl Hp1).
  - apply (child p (perft k) (Spec.paths k) Hl Hp1 (paths_ext k)).
    intros p' W Pl. apply (perft_exact make_spec); [exact W|lia].
Qed.

(* ================= PerftDivTactical ================= *)

Lemma tperft_divide_1 : forall p, tperft_divide 1 p =
  do ms <- gen_legal p;
  do rows <- fold_left (fun acc r => do a <- acc; Ok (a ++ [(rm r, b2z (tactical r))])) ms (Ok []);
  Ok (rows, zsum (map snd rows)).
Proof. reflexivity. Qed.
Lemma tperft_divide_SS : forall k p, tperft_divide (S (S k)) p =
  do ms <- gen_legal p;
  do rows <- fold_left (fun acc r => do a <- acc; do p' <- make_legal p (rm r); do v <- perft_tactical (S k) p'; Ok (a ++ [(rm r, v)])) ms (Ok []);
  Ok (rows, zsum (map snd rows)).
Proof. reflexivity. Qed.

(* the number a row of PerftDivTactical n carries for the move m *)
Definition trow (n : nat) (a : Spec.position) (m : Spec.move) : Z :=
  if (n <=? 1)%nat then b2z (Spec.is_tactical a m) else tpaths (n - 1) (Spec.apply a m).

Theorem tperft_divide_exact : forall n p l, wf_legal p = true -> ply p + Z.of_nat n < 32767 -> (1 <= n)%nat ->
  gen_legal p = Ok l ->
  tperft_divide n p = Ok (map (fun r => (rm r, trow n (abs p) (absm (rm r)))) l, tpaths n (abs p)).
Proof.
  intros n p l Hl Hp Hn E. destruct n as [|k]; [lia|]. assert (Hp1 : ply p + 1 < 32767) by lia.
  destruct k as [|k].
  - rewrite tperft_divide_1, E. cbn [bind]. rewrite flag_fold. cbn [bind app].
    assert (R : map (fun r => (rm r, b2z (tactical r))) l = map (fun r => (rm r, trow 1 (abs p) (absm (rm r)))) l).
    { apply map_ext_in. intros r Hr. unfold trow. cbn [Nat.leb].
      rewrite (tactical_flag_exact make_spec p l r Hl Hp1 E Hr). reflexivity. }
    rewrite <- R. rewrite (zsum_rows (fun r => b2z (tactical r))), zsum_b2z_filter.
    rewrite (gen_guards_ok make_spec p Hl Hp1) in E. inversion E; subst l.
    cbn [tpaths]. rewrite (tactical_count p Hl Hp1). reflexivity.
  - rewrite tperft_divide_SS, E. cbn [bind].
    rewrite (gen_guards_ok make_spec p Hl Hp1) in E. inversion E; subst l. clear E.
    rewrite (rows_fold p (perft_tactical (S k)) (fun r => tpaths (S k) (Spec.apply (abs p) (absm (rm r))))).
    + cbn [bind app]. rewrite zsum_rows, tpaths_SS. apply f_equal. apply f_equal2.
      * apply map_ext. intros r. unfold trow. replace (S (S k) - 1)%nat with (S k) by lia. reflexivity.
      * exact (sum_perm p (fun m => tpaths (S k) (Spec.apply (abs p) m)) Hl Hp1).
    + apply (child p (perft_tactical (S k)) (tpaths (S k)) Hl Hp1 (tpaths_ext (S k))).
      intros p' W Pl. apply perft_tactical_exact; [exact W|lia|lia].
Qed.

(* what the rows are: every legal move of the rules exactly once *)
Corollary divide_rows_legal : forall p l, wf_legal p = true -> ply p + 1 < 32767 -> gen_legal p = Ok l ->
  NoDup (map (fun r => absm (rm r)) l) /\ (forall sm, In sm (map (fun r => absm (rm r)) l) <-> Spec.legal (abs p) sm = true).
Proof.
  intros p l Hl Hp E. destruct (gen_legal_exact make_spec p Hl Hp) as [l' [E' [ND [M _]]]].
  rewrite E in E'. inversion E'; subst l'. split; assumption.
Qed.

(* ================= the perft premises of the interpreter-totality theorems ================= *)

Lemma pos_ok_depth : forall d p, SessionProofs.pos_ok p -> 0 < d < plyBufferCapacity ->
  wf_legal p = true /\ ply p + Z.of_nat (Z.to_nat d) < 32767 /\ (1 <= Z.to_nat d)%nat.
Proof.
  intros d p [Hl Hm] Hd. unfold SessionProofs.ply_margin in Hm. unfold plyBufferCapacity in Hd.
  split; [exact Hl|]. split; lia.
Qed.

Theorem perft_total_holds : SessionProofs.perft_total.
Proof.
  intros d p Hok Hd. destruct (pos_ok_depth d p Hok Hd) as [Hl [Hp Hn]].
  assert (Hp1 : ply p + 1 < 32767) by lia.
  eexists. exact (perft_divide_exact _ p _ Hl Hp Hn (gen_guards_ok make_spec p Hl Hp1)).
Qed.

Theorem tperft_total_holds : SessionProofs.tperft_total.
Proof.
  intros d p Hok Hd. destruct (pos_ok_depth d p Hok Hd) as [Hl [Hp Hn]].
  assert (Hp1 : ply p + 1 < 32767) by lia.
  eexists. exact (tperft_divide_exact _ p _ Hl Hp Hn (gen_guards_ok make_spec p Hl Hp1)).
Qed.

Print Assumptions perft_tactical_exact.
Print Assumptions perft_divide_exact.
Print Assumptions tperft_divide_exact.
Print Assumptions perft_total_holds.
Print Assumptions tperft_total_holds.
Check perft_tactical_exact.
Check perft_divide_exact.
Check tperft_divide_exact.
Check perft_total_holds.
Check tperft_total_holds.
