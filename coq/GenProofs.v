(* The move generator (model: Gen.gen_pseudo / gen_legal) against the rules of chess (Spec.pseudo / Spec.legal).
   Under well-formedness the generated pseudo-legal moves are sound and, up to king steps onto attacked squares,
   complete for Spec.pseudo; no move is generated twice; the guards of gen_legal hold; and, given the statement
   about MakeMove (make_spec_statement, a Section hypothesis proved elsewhere), the generated legal moves are
   exactly the legal moves of the rules, each once (gen_legal_exact).
   Geometry is settled by kernel computation over the 64 (x 64) valid squares; everything that depends on the
   board contents is proved generically.  No axioms, every lemma proved. *)
From Coq Require Import ZArith List Bool Lia ZifyBool.
Require Import Base Generated Position Attack Make Gen WF.
Require Spec.
Require Import Abs MakeSpec ListProofs AttackProofs.
Import ListNotations.
Open Scope Z_scope.

(* ================= generic list helpers ================= *)

Lemma in_map_flat_map {A B C} (g : B -> C) (f : A -> list B) l y :
  In y (map g (flat_map f l)) <-> exists x, In x l /\ In y (map g (f x)).
Proof.
  rewrite in_map_iff. split.
  - intros [b [E Hb]]. apply in_flat_map in Hb as [x [Hx Hb]]. exists x. split; [exact Hx|].
    apply in_map_iff. exists b. split; assumption.
  - intros [x [Hx Hy]]. apply in_map_iff in Hy as [b [E Hb]]. exists b. split; [exact E|].
    apply in_flat_map. exists x. split; assumption.
Qed.

Inductive sub {A} : list A -> list A -> Prop :=
| sub_nil : sub [] []
| sub_skip x l1 l2 : sub l1 l2 -> sub l1 (x :: l2)
| sub_keep x l1 l2 : sub l1 l2 -> sub (x :: l1) (x :: l2).

Lemma sub_refl {A} (l : list A) : sub l l.
Proof. induction l; constructor; assumption. Qed.
Lemma sub_nil_l {A} (l : list A) : sub [] l.
Proof. induction l; constructor; assumption. Qed.
Lemma sub_app {A} (a a' b b' : list A) : sub a a' -> sub b b' -> sub (a ++ b) (a' ++ b').
Proof. intros H1 H2. induction H1; cbn [app]; try constructor; assumption. Qed.
Lemma sub_map {A B} (f : A -> B) l1 l2 : sub l1 l2 -> sub (map f l1) (map f l2).
Proof. intros H. induction H; cbn [map]; constructor; assumption. Qed.
Lemma sub_in {A} (l1 l2 : list A) x : sub l1 l2 -> In x l1 -> In x l2.
Proof. intros H. induction H; cbn [In]; intros Hi; tauto. Qed.
Lemma sub_NoDup {A} (l1 l2 : list A) : sub l1 l2 -> NoDup l2 -> NoDup l1.
Proof.
  intros H. induction H; intros Hn.
  - constructor.
  - inversion Hn; subst. auto.
  - inversion Hn; subst. constructor; [|auto]. intro Hi. apply (sub_in _ _ _ H) in Hi. contradiction.
Qed.
Lemma sub_flat_map {A B} (f g : A -> list B) l : (forall x, In x l -> sub (f x) (g x)) -> sub (flat_map f l) (flat_map g l).
Proof.
  induction l as [|x l IH]; intros H; cbn [flat_map]; [constructor|].
  apply sub_app; [apply H; left; reflexivity|]. apply IH. intros y Hy. apply H. right. exact Hy.
Qed.
Lemma sub_filter {A} (f : A -> bool) l : sub (filter f l) l.
Proof. induction l as [|x l IH]; cbn [filter]; [constructor|]. destruct (f x); constructor; assumption. Qed.
Lemma sub_if {A} (c : bool) (l : list A) : sub (if c then l else []) l.
Proof. destruct c; [apply sub_refl|apply sub_nil_l]. Qed.
Lemma sub_trans {A} (l1 l2 l3 : list A) : sub l1 l2 -> sub l2 l3 -> sub l1 l3.
Proof.
  intros H12 H23. revert l1 H12. induction H23; intros l0 H12.
  - exact H12.
  - constructor. auto.
  - inversion H12; subst; [apply sub_skip|apply sub_keep]; auto.
Qed.

Lemma NoDup_app_intro {A} (l1 l2 : list A) :
  NoDup l1 -> NoDup l2 -> (forall x, In x l1 -> In x l2 -> False) -> NoDup (l1 ++ l2).
Proof.
  induction l1 as [|a l1 IH]; intros H1 H2 HD; cbn [app]; [exact H2|].
  inversion H1; subst. constructor.
  - rewrite in_app_iff. intros [Hi|Hi]; [contradiction|]. apply (HD a); [left; reflexivity|exact Hi].
  - apply IH; try assumption. intros x Hx. apply HD. right. exact Hx.
Qed.

Lemma NoDup_flat_map_disj {A B} (f : A -> list B) l :
  NoDup l -> (forall x, In x l -> NoDup (f x)) ->
  (forall x y z, In x l -> In y l -> In z (f x) -> In z (f y) -> x = y) -> NoDup (flat_map f l).
Proof.
  induction l as [|a l IH]; intros Hn Hf Hd; cbn [flat_map]; [constructor|].
  inversion Hn; subst. apply NoDup_app_intro.
  - apply Hf. left. reflexivity.
  - apply IH; try assumption.
    + intros x Hx. apply Hf. right. exact Hx.
    + intros x y z Hx Hy. apply Hd; right; assumption.
  - intros z Hz1 Hz2. apply in_flat_map in Hz2 as [y [Hy Hz2]].
    assert (a = y) by (apply (Hd a y z); [left; reflexivity|right; exact Hy|exact Hz1|exact Hz2]).
    subst y. contradiction.
Qed.

Lemma NoDup_map_inj_in {A B} (f : A -> B) l :
  NoDup l -> (forall x y, In x l -> In y l -> f x = f y -> x = y) -> NoDup (map f l).
Proof.
  induction l as [|a l IH]; intros Hn Hi; cbn [map]; [constructor|].
  inversion Hn; subst. constructor.
  - intro H. apply in_map_iff in H as [y [E Hy]].
    assert (y = a) by (apply Hi; [right; exact Hy|left; reflexivity|exact E]). subst y. contradiction.
  - apply IH; [assumption|]. intros x y Hx Hy. apply Hi; right; assumption.
Qed.

Lemma forallb_imp {A} (f g : A -> bool) l : (forall x, In x l -> f x = true -> g x = true) -> forallb f l = true -> forallb g l = true.
Proof. intros H Hf. rewrite forallb_forall in *. intros x Hx. apply H; auto. Qed.

(* ================= bytes and squares ================= *)

Definition bytes256 : list Z := map Z.of_nat (seq 0 256).
Lemma byte_in : forall z, In (byte z) bytes256.
Proof.
  intros z. unfold bytes256, byte. apply in_map_iff. exists (Z.to_nat (z mod 256)).
  pose proof (Z.mod_pos_bound z 256 ltac:(lia)). split; [lia|]. apply in_seq. lia.
Qed.
Lemma byte_sweep (P : Z -> bool) : forallb P bytes256 = true -> forall z, P (byte z) = true.
Proof. intros H z. rewrite forallb_forall in H. apply H. apply byte_in. Qed.
Lemma byte_nonneg : forall z, 0 <= byte z < 256.
Proof. intros z. unfold byte. apply Z.mod_pos_bound. lia. Qed.
Lemma onb_byte_valid : forall z, onb (byte z) = true -> validb (byte z) = true.
Proof.
  intros z. pose proof (byte_sweep (fun s => implb (onb s) (validb s)) ltac:(vm_compute; reflexivity) z) as H.
  cbv beta in H. destruct (onb (byte z)); [intros _; exact H|discriminate].
Qed.
Lemma byte_id : forall s, validb s = true -> byte s = s.
Proof. intros s H. apply validb_range in H as [H _]. unfold byte. apply Z.mod_small. lia. Qed.

Lemma coords_inj : forall a b, validb a = true -> validb b = true -> coords a = coords b -> a = b.
Proof.
  intros a b Ha Hb E. destruct (valid_coords a Ha) as [_ E1]. destruct (valid_coords b Hb) as [_ E2]. congruence.
Qed.

Lemma on_in_all : forall s, Spec.on s = true -> In s Spec.all_sq.
Proof.
  intros [f r] H. unfold Spec.on in H. cbn [fst snd] in H.
  unfold Spec.all_sq. apply in_flat_map. exists (Z.to_nat r). split; [apply in_seq; lia|].
  apply in_map_iff. exists (Z.to_nat f). split; [f_equal; lia|apply in_seq; lia].
Qed.
Lemma on_valid : forall s, Spec.on s = true -> validb (sq88 s) = true /\ coords (sq88 s) = s.
Proof. intros s H. apply all_sq_valid. apply on_in_all. exact H. Qed.

(* ================= abstraction of cells ================= *)

Lemma abs_owned : forall b t c, validb t = true -> Spec.owned (abs_board b) (coords t) c = is_col c (get b t).
Proof. intros b t c H. unfold Spec.owned. rewrite (abs_at b t H). destruct (get b t); reflexivity. Qed.
Lemma abs_empty : forall b t, validb t = true -> Spec.empty (abs_board b) (coords t) = is_empty (get b t).
Proof. intros b t H. unfold Spec.empty. rewrite (abs_at b t H). destruct (get b t); reflexivity. Qed.
Lemma abs_has : forall b t c k, validb t = true -> Spec.has (abs_board b) (coords t) c k = is_pc c k (get b t).
Proof. intros b t c k H. unfold Spec.has. rewrite (abs_at b t H). destruct (get b t); reflexivity. Qed.

Lemma kind_eqb_eq : forall a b, kind_eqb a b = true -> a = b.
Proof. destruct a, b; cbn; intros H; try discriminate; reflexivity. Qed.
Lemma is_pc_eq : forall c k x, is_pc c k x = true -> x = Pc c k.
Proof.
  intros c k [|c' k'] H; cbn in H; [discriminate|]. apply andb_prop in H as [H1 H2].
  apply color_eqb_eq in H1. apply kind_eqb_eq in H2. congruence.
Qed.
Lemma cell_eqb_eq : forall x y, cell_eqb x y = true -> x = y.
Proof.
  intros [|c k] [|c' k'] H; cbn in H; try discriminate; [reflexivity|].
  apply andb_prop in H as [H1 H2]. apply color_eqb_eq in H1. apply kind_eqb_eq in H2. congruence.
Qed.
Lemma color_opp_neq : forall c, color_eqb c (opp c) = false.
Proof. destruct c; reflexivity. Qed.
Lemma color_eqb_opp : forall c c', color_eqb (opp c) c' = negb (color_eqb c c').
Proof. destruct c, c'; reflexivity. Qed.

(* ================= what wf gives ================= *)

Definition colw (w : bool) : color := if w then White else Black.
Definition advw (w : bool) : Z := if w then 16 else -16.
Definition startw (w : bool) : Z := if w then 16 else 96.
Definition promow (w : bool) : Z := if w then 112 else 0.
Definition midrank (s : Z) : bool := negb ((rankof s =? 0) || (rankof s =? 112)).

Lemma wf_parts : forall p, wf p = true ->
  length (board p) = 128%nat /\
  (forall s, In s squares128 -> onb s = false -> get (board p) s = Empty) /\
  lists_ok (board p) White (wpieces p) (wpawns p) (wking p) = true /\
  lists_ok (board p) Black (bpieces p) (bpawns p) (bking p) = true /\
  (forall s, In s (wpawns p ++ bpawns p) -> midrank s = true) /\
  castle_flags_ok p = true /\ ep_ok p = true.
Proof.
  intros p H. unfold wf in H. cbv zeta in H.
  repeat (apply andb_prop in H as [H ?]).
  repeat split; try assumption.
  - apply Nat.eqb_eq. assumption.
  - intros s Hs Hon. match goal with X : forallb _ squares128 = true |- _ => rewrite forallb_forall in X; specialize (X s Hs);
      rewrite Hon in X; cbn [orb] in X; destruct (get (board p) s); [reflexivity|discriminate X] end.
  - intros s Hs. match goal with X : forallb _ (wpawns p ++ bpawns p) = true |- _ => rewrite forallb_forall in X; exact (X s Hs) end.
Qed.

Lemma wf_lists_cur : forall p, wf p = true ->
  lists_ok (board p) (cur_color p) (cur_pieces p) (cur_pawns p) (cur_king p) = true.
Proof.
  intros p H. destruct (wf_parts p H) as [_ [_ [HW [HB _]]]].
  unfold cur_color, cur_pieces, cur_pawns, cur_king. destruct (wturn p); assumption.
Qed.
Lemma wf_lists_en : forall p, wf p = true ->
  lists_ok (board p) (opp (cur_color p)) (en_pieces p) (en_pawns p) (en_king p) = true.
Proof.
  intros p H. destruct (wf_parts p H) as [_ [_ [HW [HB _]]]].
  unfold cur_color, en_pieces, en_pawns, en_king. destruct (wturn p); assumption.
Qed.
Lemma wf_pawn_mid : forall p s, wf p = true -> In s (cur_pawns p) -> midrank s = true.
Proof.
  intros p s H Hs. destruct (wf_parts p H) as [_ [_ [_ [_ [HM _]]]]]. apply HM. apply in_app_iff.
  unfold cur_pawns in Hs. destruct (wturn p); [left|right]; exact Hs.
Qed.
Lemma wf_offboard : forall p s, wf p = true -> 0 <= s -> onb s = false -> get (board p) s = Empty.
Proof.
  intros p s H H0 Hon. destruct (wf_parts p H) as [HL [HO _]].
  destruct (Z_lt_ge_dec s 128) as [Hlt|Hge].
  - apply HO; [|exact Hon]. apply squares128_In. lia.
  - unfold get. apply nth_overflow. lia.
Qed.
Lemma wf_ep : forall p, wf p = true ->
  ep p = INVALID \/ (validb (ep p) = true /\ is_empty (get (board p) (ep p)) = true).
Proof.
  intros p H. destruct (wf_parts p H) as [_ [_ [_ [_ [_ [_ HE]]]]]]. unfold ep_ok in HE.
  apply orb_prop in HE as [HE|HE]; [left; apply Z.eqb_eq; exact HE|right].
  cbv zeta in HE. destruct (wturn p); repeat (apply andb_prop in HE as [HE ?]); split; assumption.
Qed.

Lemma cur_color_w : forall p, cur_color p = colw (wturn p). Proof. reflexivity. Qed.
Lemma adv_of_w : forall p, adv_of p = advw (wturn p). Proof. reflexivity. Qed.
Lemma start_rank_of_w : forall p, start_rank_of p = startw (wturn p). Proof. reflexivity. Qed.
Lemma promo_rank_of_w : forall p, promo_rank_of p = promow (wturn p). Proof. reflexivity. Qed.

(* the position on the specification side, field by field *)
Lemma abs_brd : forall p, Spec.brd (abs p) = abs_board (board p). Proof. reflexivity. Qed.
Lemma abs_turn : forall p, Spec.turn (abs p) = cur_color p. Proof. reflexivity. Qed.


(* ================= the generator, split by origin square ================= *)

Definition mk (f t : Z) (pr : option kind) (e : Z) : move := {| mfrom := f; mto := t; mpromo := pr; mep := e |}.

Definition pawn_from (p : pos) (from : Z) : list rmove :=
  let c := cur_color p in let e := opp c in let b := board p in
  let adv := adv_of p in let start_rank := start_rank_of p in let promo_rank := promo_rank_of p in
      let tq := byte (from + adv - 1) in
      let q := if onb tq && is_col e (get b tq) then pawn_capture from tq promo_rank
               else if tq =? ep p then pawn_capture from tq promo_rank else [] in
      let tk := byte (from + adv + 1) in
      let k := if is_col e (get b tk) then pawn_capture from tk promo_rank
               else if tk =? ep p then pawn_capture from tk promo_rank else [] in
      let t1 := byte (from + adv) in
      let pu := match get b t1 with
                | Empty =>
                    let t2 := byte (t1 + adv) in
                    pawn_push from t1 promo_rank ++
                    (if (rankof from =? start_rank) then
                       match get b t2 with Empty => [{| rm := {| mfrom := from; mto := t2; mpromo := None; mep := t1 |}; tactical := false |}] | _ => [] end
                     else [])
                | _ => [] end in
      q ++ k ++ pu.

Definition steps (b : list cell) (filt : Z -> bool) (from : Z) (dirs : list Z) : list rmove :=
  flat_map (fun d => let t := byte (from + d) in if filt t then [move_or_capture b from t] else []) dirs.

Definition piece_from (p : pos) (from : Z) : list rmove :=
  let c := cur_color p in let b := board p in
      match get b from with
      | Pc _ Knight => steps b (fun t => onb t && negb (is_col c (get b t))) from knight_dirs
      | Pc _ Bishop => flat_map (slide 7 b c from from) bishop_dirs
      | Pc _ Rook => flat_map (slide 7 b c from from) rook_dirs
      | Pc _ Queen => flat_map (slide 7 b c from from) queen_dirs
      | _ => []
      end.

Definition king_steps (p : pos) : list rmove :=
  let c := cur_color p in let b := board p in
  steps b (fun t => onb t && negb (is_col c (get b t)) && safe_sq p t) (cur_king p) king_dirs.
Definition castle_q (p : pos) : list rmove :=
  if can_castle_q p then [{| rm := new_move (cur_king p) (cur_king p - 2); tactical := false |}] else [].
Definition castle_k (p : pos) : list rmove :=
  if can_castle_k p then [{| rm := new_move (cur_king p) (cur_king p + 2); tactical := false |}] else [].

Lemma gen_pseudo_eq : forall p, gen_pseudo p =
  flat_map (pawn_from p) (cur_pawns p) ++ flat_map (piece_from p) (cur_pieces p) ++ king_steps p ++ castle_q p ++ castle_k p.
Proof. reflexivity. Qed.

(* ================= pawns ================= *)

Definition pok (islast : bool) (pr : option kind) : bool :=
  if islast
  then match pr with Some Knight | Some Bishop | Some Rook | Some Queen => true | _ => false end
  else match pr with None => true | Some _ => false end.

Lemma in_pawn_capture : forall f t R m,
  In m (map rm (pawn_capture f t R)) <-> m = mk f t (mpromo m) INVALID /\ pok (rankof t =? R) (mpromo m) = true.
Proof.
  intros f t R m. unfold pawn_capture, promo4, new_move, mk. destruct (rankof t =? R); cbn [map In rm pok]; split.
  - intros [H|[H|[H|[H|[]]]]]; subst m; cbn; auto.
  - intros [E H]. destruct m as [f' t' pr e]; cbn in *. inversion E; subst. destruct pr as [[]|]; try discriminate; auto 10.
  - intros [H|[]]; subst m; cbn; auto.
  - intros [E H]. destruct m as [f' t' pr e]; cbn in *. inversion E; subst. destruct pr as [[]|]; try discriminate; auto 10.
Qed.
Lemma in_pawn_push : forall f t R m,
  In m (map rm (pawn_push f t R)) <-> m = mk f t (mpromo m) INVALID /\ pok (rankof t =? R) (mpromo m) = true.
Proof.
  intros f t R m. unfold pawn_push, promo4, new_move, mk. destruct (rankof t =? R); cbn [map In rm pok]; split.
  - intros [H|[H|[H|[H|[]]]]]; subst m; cbn; auto.
  - intros [E H]. destruct m as [f' t' pr e]; cbn in *. inversion E; subst. destruct pr as [[]|]; try discriminate; auto 10.
  - intros [H|[]]; subst m; cbn; auto.
  - intros [E H]. destruct m as [f' t' pr e]; cbn in *. inversion E; subst. destruct pr as [[]|]; try discriminate; auto 10.
Qed.

Section PawnTargets.
Variables (p : pos) (from : Z).
Let c := cur_color p.
Let e := opp c.
Let b := board p.
Let w := wturn p.
Definition ptq := byte (from + advw (wturn p) - 1).
Definition ptk := byte (from + advw (wturn p) + 1).
Definition pt1 := byte (from + advw (wturn p)).
Definition pt2 := byte (pt1 + advw (wturn p)).

Lemma in_pawn_from : forall m, In m (map rm (pawn_from p from)) <->
     (((onb ptq && is_col e (get b ptq)) || (ptq =? ep p)) = true /\ In m (map rm (pawn_capture from ptq (promow w))))
  \/ ((is_col e (get b ptk) || (ptk =? ep p)) = true /\ In m (map rm (pawn_capture from ptk (promow w))))
  \/ (is_empty (get b pt1) = true /\ In m (map rm (pawn_push from pt1 (promow w))))
  \/ (is_empty (get b pt1) = true /\ (rankof from =? startw w) = true /\ is_empty (get b pt2) = true /\ m = mk from pt2 None pt1).
Proof.
  intros m. unfold pawn_from. cbv zeta. rewrite adv_of_w, start_rank_of_w, promo_rank_of_w.
  fold ptq ptk pt1. fold pt2. fold c e b w.
  rewrite !map_app, !in_app_iff.
  assert (Q : forall (A B : bool) (X : list rmove), In m (map rm (if A then X else if B then X else [])) <-> ((A || B) = true /\ In m (map rm X))).
  { intros A B X. destruct A, B; cbn [orb map In]; intuition congruence. }
  rewrite !Q. clear Q.
  destruct (get b pt1) eqn:E1; cbn [is_empty].
  - rewrite map_app, in_app_iff.
    destruct (rankof from =? startw w); [destruct (get b pt2) eqn:E2|]; cbn [is_empty map In rm]; unfold mk; intuition congruence.
  - cbn [map In]. intuition congruence.
Qed.
End PawnTargets.

Definition mepz (from to : Z) : Z := if (to - from =? 32) || (from - to =? 32) then (from + to) / 2 else INVALID.

Definition cdf (from to : Z) : Z := fst (coords to) - fst (coords from).
Definition cdr (from to : Z) : Z := snd (coords to) - snd (coords from).

Definition pawn_geo1 (w : bool) (from : Z) : bool :=
  implb (midrank from)
   (let adv := advw w in let c := colw w in let s := coords from in
    let tq := byte (from + adv - 1) in let tk := byte (from + adv + 1) in
    let t1 := byte (from + adv) in let t2 := byte (t1 + adv) in
    let start := rankof from =? startw w in
    negb (tq =? 136) && negb (tk =? 136) && validb t1
    && Spec.sq_eqb (coords t1) (fst s, snd s + Spec.fwd c)
    && implb start (validb t2 && negb (rankof t2 =? promow w) && (mepz from t2 =? t1))
    && (mepz from tq =? 136) && (mepz from tk =? 136) && (mepz from t1 =? 136)
    && (tk <? 128) && (t1 <? 128) && (negb start || (byte (from + 2 * adv) <? 128))).

Definition pawn_geo2 (w : bool) (from to : Z) : bool :=
  implb (midrank from)
   (let adv := advw w in let c := colw w in
    let df := cdf from to in let dr := cdr from to in
    Bool.eqb (to =? byte (from + adv - 1)) ((df =? -1) && (dr =? Spec.fwd c))
    && Bool.eqb (to =? byte (from + adv + 1)) ((df =? 1) && (dr =? Spec.fwd c))
    && Bool.eqb (to =? byte (from + adv)) ((df =? 0) && (dr =? Spec.fwd c))
    && Bool.eqb ((rankof from =? startw w) && (to =? byte (byte (from + adv) + adv)))
                ((df =? 0) && (dr =? 2 * Spec.fwd c) && (snd (coords from) =? Spec.start_rank c))
    && Bool.eqb (rankof to =? promow w) (snd (coords to) =? Spec.last_rank c)).

Lemma pawn_geo1_sweep : forallb (fun w => forallb (pawn_geo1 w) valid_squares) [true; false] = true.
Proof. vm_compute. reflexivity. Qed.
Lemma pawn_geo2_sweep : forallb (fun w => forallb (fun a => forallb (pawn_geo2 w a) valid_squares) valid_squares) [true; false] = true.
Proof. vm_compute. reflexivity. Qed.

Lemma pawn_facts1 : forall w from, validb from = true -> midrank from = true ->
  let adv := advw w in let c := colw w in let s := coords from in
  let tq := byte (from + adv - 1) in let tk := byte (from + adv + 1) in
  let t1 := byte (from + adv) in let t2 := byte (t1 + adv) in
  let start := rankof from =? startw w in
  tq <> 136 /\ tk <> 136 /\ validb t1 = true /\ coords t1 = (fst s, snd s + Spec.fwd c)
  /\ (start = true -> validb t2 = true /\ (rankof t2 =? promow w) = false /\ mepz from t2 = t1)
  /\ mepz from tq = 136 /\ mepz from tk = 136 /\ mepz from t1 = 136
  /\ (tk <? 128) = true /\ (t1 <? 128) = true /\ (negb start || (byte (from + 2 * adv) <? 128)) = true.
Proof.
  intros w from Hv Hm. cbv zeta.
  assert (H : pawn_geo1 w from = true).
  { pose proof pawn_geo1_sweep as S. cbn [forallb] in S. apply andb_prop in S as [S1 S2]. apply andb_prop in S2 as [S2 _].
    destruct w; [exact (sweep1 _ S1 from Hv)|exact (sweep1 _ S2 from Hv)]. }
  unfold pawn_geo1 in H. rewrite Hm in H. cbn [implb] in H. cbv zeta in H.
  repeat (apply andb_prop in H as [H ?]).
  repeat match goal with X : negb (_ =? _) = true |- _ => apply negb_true_iff, Z.eqb_neq in X end.
  repeat match goal with X : (_ =? _) = true |- _ => apply Z.eqb_eq in X end.
  repeat split; try assumption.
  - match goal with X : Spec.sq_eqb _ _ = true |- _ => unfold Spec.sq_eqb in X; apply andb_prop in X as [X1 X2];
      apply Z.eqb_eq in X1, X2; cbn [fst snd] in X1, X2 end.
    destruct (coords (byte (from + advw w))) as [a1 a2]. cbn [fst snd] in *. congruence.
  - match goal with X : implb _ _ = true |- _ => rewrite H10 in X; cbn [implb] in X;
      apply andb_prop in X as [X _]; apply andb_prop in X as [X _]; exact X end.
  - match goal with X : implb _ _ = true |- _ => rewrite H10 in X; cbn [implb] in X;
      apply andb_prop in X as [X _]; apply andb_prop in X as [_ X]; apply negb_true_iff in X; exact X end.
  - match goal with X : implb _ _ = true |- _ => rewrite H10 in X; cbn [implb] in X;
      apply andb_prop in X as [_ X]; apply Z.eqb_eq in X; exact X end.
Qed.

Lemma pawn_facts2 : forall w from to, validb from = true -> validb to = true -> midrank from = true ->
  let adv := advw w in let c := colw w in
  let df := cdf from to in let dr := cdr from to in
  (to =? byte (from + adv - 1)) = ((df =? -1) && (dr =? Spec.fwd c))
  /\ (to =? byte (from + adv + 1)) = ((df =? 1) && (dr =? Spec.fwd c))
  /\ (to =? byte (from + adv)) = ((df =? 0) && (dr =? Spec.fwd c))
  /\ ((rankof from =? startw w) && (to =? byte (byte (from + adv) + adv)))
     = ((df =? 0) && (dr =? 2 * Spec.fwd c) && (snd (coords from) =? Spec.start_rank c))
  /\ (rankof to =? promow w) = (snd (coords to) =? Spec.last_rank c).
Proof.
  intros w from to Hf Ht Hm. cbv zeta.
  assert (H : pawn_geo2 w from to = true).
  { pose proof pawn_geo2_sweep as S. cbn [forallb] in S. apply andb_prop in S as [S1 S2]. apply andb_prop in S2 as [S2 _].
    destruct w; [exact (sweep2 _ S1 from to Hf Ht)|exact (sweep2 _ S2 from to Hf Ht)]. }
  unfold pawn_geo2 in H. rewrite Hm in H. cbn [implb] in H. cbv zeta in H.
  repeat (apply andb_prop in H as [H ?]).
  repeat match goal with X : Bool.eqb _ _ = true |- _ => apply eqb_prop in X end.
  repeat split; assumption.
Qed.
Definition capt_ok (p : pos) (to : Z) : bool :=
  is_col (opp (cur_color p)) (get (board p) to) || (is_empty (get (board p) to) && (to =? ep p)).

Definition pawn_rule (p : pos) (from to : Z) (pr : option kind) : Prop :=
  pok (rankof to =? promow (wturn p)) pr = true /\
  ((to = ptq p from /\ capt_ok p to = true) \/ (to = ptk p from /\ capt_ok p to = true)
   \/ (to = pt1 p from /\ is_empty (get (board p) to) = true)
   \/ ((rankof from =? startw (wturn p)) = true /\ to = pt2 p from
       /\ is_empty (get (board p) (pt1 p from)) = true /\ is_empty (get (board p) to) = true)).

Lemma ep_match : forall p to, wf p = true -> validb to = true ->
  match Spec.ep (abs p) with Some e => Spec.sq_eqb e (coords to) | None => false end = (to =? ep p).
Proof.
  intros p to Hwf Hv. cbn [Spec.ep abs]. destruct (wf_ep p Hwf) as [E|[E _]].
  - rewrite E. change (onb INVALID) with false. cbv iota. symmetry. apply Z.eqb_neq.
    apply validb_range in Hv as [Hv _]. unfold INVALID. lia.
  - pose proof (validb_range _ E) as [_ On]. rewrite On.
    destruct (to =? ep p) eqn:Q.
    + apply Z.eqb_eq in Q. subst to. unfold Spec.sq_eqb. rewrite !Z.eqb_refl. reflexivity.
    + apply Z.eqb_neq in Q. destruct (Spec.sq_eqb (coords (ep p)) (coords to)) eqn:S; [|reflexivity].
      exfalso. apply Q. apply coords_inj; try assumption.
      unfold Spec.sq_eqb in S. apply andb_prop in S as [S1 S2]. apply Z.eqb_eq in S1, S2.
      destruct (coords (ep p)), (coords to). cbn [fst snd] in *. congruence.
Qed.

Lemma abs1_split : forall df dr f, ((Z.abs df =? 1) && (dr =? f)) = ((df =? -1) && (dr =? f)) || ((df =? 1) && (dr =? f)).
Proof. intros. lia. Qed.

Section PawnRule.
Variable p : pos.
Hypothesis Hwf : wf p = true.
Variable from : Z.
Hypothesis Hin : In from (cur_pawns p).

Lemma pawn_spec : forall to pr, validb to = true ->
  Spec.pseudo (abs p) {| Spec.mfrom := coords from; Spec.mto := coords to; Spec.promo := pr |} = true <-> pawn_rule p from to pr.
Proof.
  intros to pr Hvt.
  destruct (lo_pawn _ _ _ _ _ _ (wf_lists_cur p Hwf) Hin) as [Hvf Hg].
  pose proof (wf_pawn_mid p from Hwf Hin) as Hm.
  destruct (valid_coords from Hvf) as [Onf _]. destruct (valid_coords to Hvt) as [Ont _].
  destruct (pawn_facts1 (wturn p) from Hvf Hm) as [F1 [F2 [F3 [F4 [F5 _]]]]].
  destruct (pawn_facts2 (wturn p) from to Hvf Hvt Hm) as [G1 [G2 [G3 [G4 G5]]]]. unfold cdf, cdr in *.
  unfold Spec.pseudo. cbn [Spec.mfrom Spec.mto Spec.promo]. rewrite abs_brd, abs_turn. cbv zeta.
  rewrite Onf, Ont, (abs_owned _ _ _ Hvt), (abs_at _ _ Hvf), Hg. cbn [abs_cell]. rewrite color_eqb_refl.
  rewrite !(abs_owned _ _ _ Hvt), !(abs_empty _ _ Hvt).
  rewrite (ep_match p to Hwf Hvt).
  rewrite cur_color_w in *. rewrite <- F4, (abs_empty _ _ F3).
  change (Spec.promo_ok (colw (wturn p)) (coords to) pr) with (pok (snd (coords to) =? Spec.last_rank (colw (wturn p))) pr).
  rewrite <- G5, <- G4, <- G3, abs1_split, <- G1, <- G2.
  fold (pt1 p from) (ptq p from) (ptk p from). fold (pt2 p from).
  change (is_col (opp (colw (wturn p))) (get (board p) to) || is_empty (get (board p) to) && (to =? ep p)) with (capt_ok p to).
  assert (N1 : capt_ok p to = true -> negb (is_col (colw (wturn p)) (get (board p) to)) = true).
  { unfold capt_ok. rewrite cur_color_w. destruct (get (board p) to) as [|c' k']; cbn; [reflexivity|].
    destruct (colw (wturn p)), c'; cbn; intros; congruence. }
  assert (N2 : is_empty (get (board p) to) = true -> negb (is_col (colw (wturn p)) (get (board p) to)) = true).
  { destruct (get (board p) to); cbn; congruence. }
  unfold pawn_rule. cbn [andb]. rewrite !andb_true_iff, !orb_true_iff, !andb_true_iff, !orb_true_iff, !Z.eqb_eq.
  tauto.
Qed.

Lemma pawn_model : forall m, In m (map rm (pawn_from p from)) <->
  mfrom m = from /\ validb (mto m) = true /\ mep m = mepz from (mto m) /\ pawn_rule p from (mto m) (mpromo m).
Proof.
  intros m.
  destruct (lo_pawn _ _ _ _ _ _ (wf_lists_cur p Hwf) Hin) as [Hvf Hg].
  pose proof (wf_pawn_mid p from Hwf Hin) as Hm.
  destruct (pawn_facts1 (wturn p) from Hvf Hm) as [F1 [F2 [F3 [F4 [F5 [F6 [F7 [F8 _]]]]]]]].
  fold (pt1 p from) (ptq p from) (ptk p from) in *. fold (pt2 p from) in *.
  rewrite in_pawn_from. unfold pawn_rule. split.
  - intros [[C H]|[[C H]|[[C H]|[C1 [C2 [C3 H]]]]]].
    + apply in_pawn_capture in H as [E P]. rewrite E. unfold mk. cbn [mfrom mto mep mpromo].
      assert (V : validb (ptq p from) = true /\ capt_ok p (ptq p from) = true).
      { apply orb_prop in C as [C|C].
        - apply andb_prop in C as [C1 C2]. split; [apply onb_byte_valid; exact C1|].
          unfold capt_ok. rewrite C2. reflexivity.
        - apply Z.eqb_eq in C. destruct (wf_ep p Hwf) as [E'|[E1 E2]].
          + exfalso. apply F1. rewrite C, E'. reflexivity.
          + rewrite <- C in E1, E2. split; [exact E1|]. unfold capt_ok. rewrite E2, C, Z.eqb_refl. apply orb_true_r. }
      destruct V as [V1 V2]. rewrite F6. repeat split; auto.
    + apply in_pawn_capture in H as [E P]. rewrite E. unfold mk. cbn [mfrom mto mep mpromo].
      assert (V : validb (ptk p from) = true /\ capt_ok p (ptk p from) = true).
      { apply orb_prop in C as [C|C].
        - assert (On : onb (ptk p from) = true).
          { destruct (onb (ptk p from)) eqn:On; [reflexivity|].
            rewrite (wf_offboard p (ptk p from) Hwf) in C; [discriminate C| |exact On].
            unfold ptk. pose proof (byte_nonneg (from + advw (wturn p) + 1)). lia. }
          split; [apply onb_byte_valid; exact On|]. unfold capt_ok. rewrite C. reflexivity.
        - apply Z.eqb_eq in C. destruct (wf_ep p Hwf) as [E'|[E1 E2]].
          + exfalso. apply F2. rewrite C, E'. reflexivity.
          + rewrite <- C in E1, E2. split; [exact E1|]. unfold capt_ok. rewrite E2, C, Z.eqb_refl. apply orb_true_r. }
      destruct V as [V1 V2]. rewrite F7. repeat split; auto.
    + apply in_pawn_push in H as [E P]. rewrite E. unfold mk. cbn [mfrom mto mep mpromo].
      rewrite F8. repeat split; auto.
    + rewrite H. unfold mk. cbn [mfrom mto mep mpromo]. destruct (F5 C2) as [V2 [R2 M2]].
      rewrite R2, M2. cbn [pok]. repeat split; auto 10.
  - destruct m as [f t pr e]. cbn [mfrom mto mep mpromo]. intros [Ef [Vt [Ee [P R]]]]. subst f.
    destruct R as [[E C]|[[E C]|[[E C]|[C1 [E [C2 C3]]]]]]; subst t.
    + left. split.
      * unfold capt_ok in C. apply orb_prop in C as [C|C].
        -- apply validb_range in Vt as [_ On]. rewrite On, C. reflexivity.
        -- apply andb_prop in C as [_ C]. rewrite C. apply orb_true_r.
      * apply in_pawn_capture. cbn [mpromo]. rewrite F6 in Ee. subst e. split; [reflexivity|exact P].
    + right. left. split.
      * unfold capt_ok in C. apply orb_prop in C as [C|C].
        -- rewrite C. reflexivity.
        -- apply andb_prop in C as [_ C]. rewrite C. apply orb_true_r.
      * apply in_pawn_capture. cbn [mpromo]. rewrite F7 in Ee. subst e. split; [reflexivity|exact P].
    + right. right. left. split; [exact C|].
      apply in_pawn_push. cbn [mpromo]. rewrite F8 in Ee. subst e. split; [reflexivity|exact P].
    + right. right. right. destruct (F5 C1) as [V2 [R2 M2]]. rewrite R2 in P. rewrite M2 in Ee. subst e.
      destruct pr; [discriminate P|]. repeat split; auto.
Qed.
End PawnRule.


(* ================= step pieces: knight, king ================= *)

Lemma new_move_inj : forall f t f' t', new_move f t = new_move f' t' -> f = f' /\ t = t'.
Proof. intros f t f' t' H. inversion H. split; reflexivity. Qed.

Lemma in_steps : forall b filt from dirs m, In m (map rm (steps b filt from dirs)) <->
  exists d, In d dirs /\ filt (byte (from + d)) = true /\ m = new_move from (byte (from + d)).
Proof.
  intros b filt from dirs m. unfold steps. rewrite in_map_flat_map. split.
  - intros [d [Hd H]]. cbv zeta in H. destruct (filt (byte (from + d))) eqn:F; cbn [map In rm move_or_capture] in H; [|contradiction].
    destruct H as [H|[]]. exists d. repeat split; auto.
  - intros [d [Hd [F E]]]. exists d. split; [exact Hd|]. cbv zeta. rewrite F. cbn [map In rm move_or_capture]. left. auto.
Qed.

Definition step_ok (k : kind) (dirs : list Z) (from to : Z) : bool :=
  Bool.eqb (existsb (fun d => to =? byte (from + d)) dirs) (Spec.piece_attacks nob White k (coords from) (coords to)).
Lemma knight_sweep : forallb (fun a => forallb (step_ok Knight knight_dirs a) valid_squares) valid_squares = true.
Proof. vm_compute. reflexivity. Qed.
Lemma kingstep_sweep : forallb (fun a => forallb (step_ok King king_dirs a) valid_squares) valid_squares = true.
Proof. vm_compute. reflexivity. Qed.

Lemma step_hit : forall k dirs, forallb (fun a => forallb (step_ok k dirs a) valid_squares) valid_squares = true ->
  forall from to, validb from = true -> validb to = true ->
  ((exists d, In d dirs /\ to = byte (from + d)) <-> Spec.piece_attacks nob White k (coords from) (coords to) = true).
Proof.
  intros k dirs S from to Hf Ht. pose proof (sweep2 _ S from to Hf Ht) as H. unfold step_ok in H. apply eqb_prop in H.
  rewrite <- H, existsb_exists. split; intros [d [Hd E]]; exists d; split; auto; apply Z.eqb_eq; auto.
Qed.

(* moves of a step piece whose filter implies "on the board" *)
Lemma steps_shape : forall b filt from dirs m, (forall t, filt t = true -> onb t = true) ->
  In m (map rm (steps b filt from dirs)) -> exists to, validb to = true /\ filt to = true /\ m = new_move from to.
Proof.
  intros b filt from dirs m Hon H. apply in_steps in H as [d [Hd [F E]]].
  exists (byte (from + d)). split; [apply onb_byte_valid, Hon, F|]. split; assumption.
Qed.

Lemma steps_iff : forall k dirs, forallb (fun a => forallb (step_ok k dirs a) valid_squares) valid_squares = true ->
  forall b filt from to, validb from = true -> validb to = true ->
  (In (new_move from to) (map rm (steps b filt from dirs)) <->
   Spec.piece_attacks nob White k (coords from) (coords to) = true /\ filt to = true).
Proof.
  intros k dirs S b filt from to Hf Ht. rewrite in_steps, <- (step_hit k dirs S from to Hf Ht). split.
  - intros [d [Hd [F E]]]. apply new_move_inj in E as [_ E]. split; [exists d; auto|]. rewrite E. exact F.
  - intros [[d [Hd E]] F]. exists d. subst to. auto.
Qed.

(* ================= sliders ================= *)

Fixpoint ray (fuel : nat) (s d : Z) : list Z :=
  match fuel with O => [] | S k => let t := byte (s + d) in if onb t then t :: ray k t d else [] end.
Fixpoint scan (b : list cell) (c : color) (f : Z) (l : list Z) : list rmove :=
  match l with
  | [] => []
  | t :: l' => match get b t with
               | Empty => move_or_capture b f t :: scan b c f l'
               | Pc c' _ => if color_eqb c c' then [] else [move_or_capture b f t]
               end
  end.
Lemma slide_scan : forall fuel b c f s d, slide fuel b c f s d = scan b c f (ray fuel s d).
Proof.
  induction fuel as [|k IH]; intros b c f s d; cbn [slide ray]; [reflexivity|]. cbv zeta.
  destruct (onb (byte (s + d))); [|reflexivity]. cbn [scan].
  destruct (get b (byte (s + d))); [rewrite IH; reflexivity|reflexivity].
Qed.

Fixpoint before (t : Z) (l : list Z) : option (list Z) :=
  match l with [] => None | x :: r => if x =? t then Some [] else option_map (cons x) (before t r) end.

Lemma before_in : forall t l l1, before t l = Some l1 -> In t l.
Proof.
  intros t. induction l as [|x r IH]; intros l1 H; cbn [before] in H; [discriminate|].
  destruct (x =? t) eqn:E; [apply Z.eqb_eq in E; left; exact E|].
  destruct (before t r) as [l'|]; [|discriminate]. right. eapply IH. reflexivity.
Qed.

Lemma in_scan : forall b c f l m, In m (map rm (scan b c f l)) <->
  exists t l1, before t l = Some l1 /\ forallb (fun z => is_empty (get b z)) l1 = true
               /\ negb (is_col c (get b t)) = true /\ m = new_move f t.
Proof.
  intros b c f. induction l as [|x r IH]; intros m; cbn [scan before].
  - cbn [map In]. split; [contradiction|]. intros [t [l1 [H _]]]. discriminate.
  - destruct (get b x) as [|c' k'] eqn:G.
    + cbn [map In rm move_or_capture]. split.
      * intros [H|H].
        -- exists x, []. rewrite Z.eqb_refl, G. cbn. auto.
        -- apply IH in H as [t [l1 [Hb [He [Hc E]]]]]. destruct (x =? t) eqn:Q.
           ++ exists t, []. rewrite Q. cbn [forallb]. auto.
           ++ exists t, (x :: l1). rewrite Q, Hb. cbn [option_map forallb]. rewrite G. cbn [is_empty andb]. auto.
      * intros [t [l1 [Hb [He [Hc E]]]]]. destruct (x =? t) eqn:Q.
        -- apply Z.eqb_eq in Q. subst t. left. auto.
        -- right. apply IH. destruct (before t r) as [l'|] eqn:B; [|discriminate]. cbn [option_map] in Hb. inversion Hb; subst l1.
           cbn [forallb] in He. apply andb_prop in He as [_ He]. exists t, l'. auto.
    + assert (X : forall t l1, (if x =? t then Some [] else option_map (cons x) (before t r)) = Some l1 ->
                   forallb (fun z => is_empty (get b z)) l1 = true -> x = t /\ l1 = []).
      { intros t l1 Hb He. destruct (x =? t) eqn:Q; [apply Z.eqb_eq in Q; inversion Hb; auto|].
        destruct (before t r); [|discriminate]. inversion Hb; subst l1. cbn [forallb] in He. rewrite G in He. discriminate. }
      destruct (color_eqb c c') eqn:CC.
      * cbn [map In]. split; [contradiction|]. intros [t [l1 [Hb [He [Hc E]]]]].
        destruct (X t l1 Hb He) as [-> _]. rewrite G in Hc. cbn [is_col] in Hc. rewrite CC in Hc. discriminate.
      * cbn [map In rm move_or_capture]. split.
        -- intros [H|[]]. exists x, []. rewrite Z.eqb_refl, G. cbn [is_col]. rewrite CC. cbn. auto.
        -- intros [t [l1 [Hb [He [Hc E]]]]]. destruct (X t l1 Hb He) as [-> _]. left. auto.
Qed.

Lemma ray_valid : forall fuel s d t, In t (ray fuel s d) -> validb t = true.
Proof.
  induction fuel as [|k IH]; intros s d t H; cbn [ray] in H; [contradiction|]. cbv zeta in H.
  destruct (onb (byte (s + d))) eqn:On; [|contradiction]. destruct H as [H|H].
  - subst t. apply onb_byte_valid. exact On.
  - eapply IH. exact H.
Qed.

Definition slider_ok (dirs : list Z) (k : kind) (from to : Z) : bool :=
  let s := coords from in let t := coords to in
  forallb (fun d => match before to (ray 7 from d) with
                    | Some l1 => zleqb l1 (map sq88 (betw s t)) && forallb Spec.on (betw s t) && Spec.piece_attacks nob White k s t
                    | None => true end) dirs
  && implb (Spec.piece_attacks nob White k s t)
           (existsb (fun d => match before to (ray 7 from d) with Some _ => true | None => false end) dirs).

Definition dirs_of (k : kind) : list Z :=
  match k with Bishop => bishop_dirs | Rook => rook_dirs | Queen => queen_dirs | _ => [] end.

Lemma slider_sweep : forallb (fun k => forallb (fun a => forallb (slider_ok (dirs_of k) k a) valid_squares) valid_squares) [Bishop; Rook; Queen] = true.
Proof. vm_compute. reflexivity. Qed.

Lemma slider_facts : forall k from to, is_slider k = true -> validb from = true -> validb to = true ->
  let s := coords from in let t := coords to in
  (forall d l1, In d (dirs_of k) -> before to (ray 7 from d) = Some l1 ->
     l1 = map sq88 (betw s t) /\ forallb Spec.on (betw s t) = true /\ Spec.piece_attacks nob White k s t = true)
  /\ (Spec.piece_attacks nob White k s t = true -> exists d l1, In d (dirs_of k) /\ before to (ray 7 from d) = Some l1).
Proof.
  intros k from to Hk Hf Ht. cbv zeta.
  assert (H : slider_ok (dirs_of k) k from to = true).
  { pose proof slider_sweep as S. cbn [forallb] in S. apply andb_prop in S as [S1 S]. apply andb_prop in S as [S2 S].
    apply andb_prop in S as [S3 _].
    destruct k; try discriminate Hk; [exact (sweep2 _ S1 from to Hf Ht)|exact (sweep2 _ S2 from to Hf Ht)|exact (sweep2 _ S3 from to Hf Ht)]. }
  unfold slider_ok in H. cbv zeta in H. apply andb_prop in H as [H1 H2]. split.
  - intros d l1 Hd Hb. rewrite forallb_forall in H1. specialize (H1 d Hd). rewrite Hb in H1.
    apply andb_prop in H1 as [H1 Hc]. apply andb_prop in H1 as [Ha Hb']. apply zleqb_eq in Ha. auto.
  - intros Hp. rewrite Hp in H2. cbn [implb] in H2. apply existsb_exists in H2 as [d [Hd H2]].
    destruct (before to (ray 7 from d)) as [l1|] eqn:E; [|discriminate]. exists d, l1. auto.
Qed.

Lemma slider_iff : forall b c k from to, is_slider k = true -> validb from = true -> validb to = true ->
  (In (new_move from to) (map rm (flat_map (slide 7 b c from from) (dirs_of k))) <->
   Spec.piece_attacks (abs_board b) c k (coords from) (coords to) = true /\ negb (is_col c (get b to)) = true).
Proof.
  intros b c k from to Hk Hf Ht. destruct (slider_facts k from to Hk Hf Ht) as [F1 F2].
  rewrite in_map_flat_map, (pa_split _ c k _ _ Hk), between_empty_betw. split.
  - intros [d [Hd H]]. rewrite slide_scan in H. apply in_scan in H as [t [l1 [Hb [He [Hc E]]]]].
    apply new_move_inj in E as [_ E]. subst t. destruct (F1 d l1 Hd Hb) as [E1 [On Pa]].
    rewrite Pa, (betw_abs b _ On), <- E1, He. auto.
  - intros [H Hc]. apply andb_prop in H as [Pa He]. destruct (F2 Pa) as [d [l1 [Hd Hb]]].
    destruct (F1 d l1 Hd Hb) as [E1 [On _]]. exists d. split; [exact Hd|]. rewrite slide_scan. apply in_scan.
    exists to, l1. rewrite (betw_abs b _ On), <- E1 in He. auto.
Qed.

Lemma slider_shape : forall b c from dirs m, In m (map rm (flat_map (slide 7 b c from from) dirs)) ->
  exists to, validb to = true /\ m = new_move from to.
Proof.
  intros b c from dirs m H. apply in_map_flat_map in H as [d [_ H]]. rewrite slide_scan in H.
  apply in_scan in H as [t [l1 [Hb [_ [_ E]]]]]. exists t. split; [|exact E].
  apply before_in in Hb. eapply ray_valid. exact Hb.
Qed.

(* ================= a piece-list entry ================= *)

Section PieceFrom.
Variable p : pos.
Hypothesis Hwf : wf p = true.
Variable from : Z.
Hypothesis Hin : In from (cur_pieces p).

Lemma piece_shape : forall m, In m (map rm (piece_from p from)) -> exists to, validb to = true /\ m = new_move from to.
Proof.
  intros m H. unfold piece_from in H. cbv zeta in H.
  destruct (get (board p) from) as [|c0 k]; [contradiction|].
  destruct k; try contradiction.
  - apply steps_shape in H.
    + destruct H as [to [V [_ E]]]. exists to. auto.
    + intros t F. apply andb_prop in F as [F _]. exact F.
  - eapply slider_shape. exact H.
  - eapply slider_shape. exact H.
  - eapply slider_shape. exact H.
Qed.

Lemma piece_iff : forall to, validb to = true ->
  (In (new_move from to) (map rm (piece_from p from)) <->
   Spec.attacks (abs_board (board p)) (coords from) (coords to) = true /\ negb (is_col (cur_color p) (get (board p) to)) = true).
Proof.
  intros to Ht. destruct (lo_piece _ _ _ _ _ _ (wf_lists_cur p Hwf) Hin) as [Hf [k [Hk Hg]]].
  unfold Spec.attacks. rewrite (abs_at _ _ Hf), Hg. cbn [abs_cell]. unfold piece_from. cbv zeta. rewrite Hg.
  destruct k; try discriminate Hk.
  - rewrite (steps_iff Knight knight_dirs knight_sweep _ _ from to Hf Ht).
    apply validb_range in Ht as [_ On]. rewrite On. cbn [andb].
    change (Spec.piece_attacks (abs_board (board p)) (cur_color p) Knight (coords from) (coords to))
      with (Spec.piece_attacks nob White Knight (coords from) (coords to)). tauto.
  - exact (slider_iff (board p) (cur_color p) Bishop from to eq_refl Hf Ht).
  - exact (slider_iff (board p) (cur_color p) Rook from to eq_refl Hf Ht).
  - exact (slider_iff (board p) (cur_color p) Queen from to eq_refl Hf Ht).
Qed.
End PieceFrom.


Lemma safe_spec : forall p t, wf p = true -> validb t = true ->
  safe_sq p t = negb (Spec.attacked (abs_board (board p)) (opp (cur_color p)) (coords t)).
Proof.
  intros p t Hwf Ht. unfold safe_sq. rewrite (is_under_check_spec _ _ _ _ _ _ (wf_lists_en p Hwf) Ht). reflexivity.
Qed.

Lemma wf_flags : forall p, wf p = true ->
  (wK p = true -> get (board p) 4 = Pc White King /\ get (board p) 7 = Pc White Rook /\ wking p = 4) /\
  (wQ p = true -> get (board p) 4 = Pc White King /\ get (board p) 0 = Pc White Rook /\ wking p = 4) /\
  (bK p = true -> get (board p) 116 = Pc Black King /\ get (board p) 119 = Pc Black Rook /\ bking p = 116) /\
  (bQ p = true -> get (board p) 116 = Pc Black King /\ get (board p) 112 = Pc Black Rook /\ bking p = 116).
Proof.
  intros p Hwf. destruct (wf_parts p Hwf) as [_ [_ [HW [HB [_ [HF _]]]]]].
  unfold castle_flags_ok in HF. cbv zeta in HF.
  apply andb_prop in HF as [HF F4]. apply andb_prop in HF as [HF F3]. apply andb_prop in HF as [F1 F2].
  split; [|split; [|split]]; intros E; rewrite E in *; cbn [negb orb] in *.
  - apply andb_prop in F1 as [X1 X2]. apply cell_eqb_eq in X1, X2. repeat split; try assumption.
    symmetry. exact (lo_cell _ _ _ _ _ 4 King HW eq_refl X1).
  - apply andb_prop in F2 as [X1 X2]. apply cell_eqb_eq in X1, X2. repeat split; try assumption.
    symmetry. exact (lo_cell _ _ _ _ _ 4 King HW eq_refl X1).
  - apply andb_prop in F3 as [X1 X2]. apply cell_eqb_eq in X1, X2. repeat split; try assumption.
    symmetry. exact (lo_cell _ _ _ _ _ 116 King HB eq_refl X1).
  - apply andb_prop in F4 as [X1 X2]. apply cell_eqb_eq in X1, X2. repeat split; try assumption.
    symmetry. exact (lo_cell _ _ _ _ _ 116 King HB eq_refl X1).
Qed.

Lemma castle_q_spec : forall p, wf p = true -> can_castle_q p = Spec.castle_ok (abs p) false.
Proof.
  intros p Hwf. destruct (wf_flags p Hwf) as [_ [FQ [_ FBQ]]].
  unfold can_castle_q, Spec.castle_ok. cbv zeta. rewrite abs_brd, abs_turn. cbn [Spec.rQ abs].
  unfold cur_king. destruct (wturn p) eqn:W.
  - destruct (wQ p) eqn:Q; [|unfold cur_color; rewrite W; reflexivity]. destruct (FQ eq_refl) as [G4 [G0 K]]. rewrite K.
    change (byte (4 - 1)) with 3. change (byte (4 - 2)) with 2. change (4 - 1) with 3. change (4 - 2) with 2. change (4 - 3) with 1.
    rewrite !(safe_spec p _ Hwf) by reflexivity.
    unfold cur_color. rewrite W.
    cbn [andb Spec.home_rank].
    change (4, 0) with (coords 4). change (0, 0) with (coords 0). change (3, 0) with (coords 3).
    change (2, 0) with (coords 2). change (1, 0) with (coords 1).
    rewrite !abs_has, !abs_empty by reflexivity. rewrite G4, G0. cbn [is_pc color_eqb kind_eqb andb].
    reflexivity.
  - destruct (bQ p) eqn:Q; [|unfold cur_color; rewrite W; reflexivity]. destruct (FBQ eq_refl) as [G4 [G0 K]]. rewrite K.
    change (byte (116 - 1)) with 115. change (byte (116 - 2)) with 114. change (116 - 1) with 115. change (116 - 2) with 114. change (116 - 3) with 113.
    rewrite !(safe_spec p _ Hwf) by reflexivity.
    unfold cur_color. rewrite W.
    cbn [andb Spec.home_rank].
    change (4, 7) with (coords 116). change (0, 7) with (coords 112). change (3, 7) with (coords 115).
    change (2, 7) with (coords 114). change (1, 7) with (coords 113).
    rewrite !abs_has, !abs_empty by reflexivity. rewrite G4, G0. cbn [is_pc color_eqb kind_eqb andb].
    reflexivity.
Qed.

Lemma castle_k_spec : forall p, wf p = true -> can_castle_k p = Spec.castle_ok (abs p) true.
Proof.
  intros p Hwf. destruct (wf_flags p Hwf) as [FK [_ [FBK _]]].
  unfold can_castle_k, Spec.castle_ok. cbv zeta. rewrite abs_brd, abs_turn. cbn [Spec.rK abs].
  unfold cur_king. destruct (wturn p) eqn:W.
  - destruct (wK p) eqn:Q; [|unfold cur_color; rewrite W; reflexivity]. destruct (FK eq_refl) as [G4 [G0 K]]. rewrite K.
    change (byte (4 + 1)) with 5. change (byte (4 + 2)) with 6. change (4 + 1) with 5. change (4 + 2) with 6.
    rewrite !(safe_spec p _ Hwf) by reflexivity.
    unfold cur_color. rewrite W.
    cbn [andb Spec.home_rank].
    change (4, 0) with (coords 4). change (7, 0) with (coords 7). change (5, 0) with (coords 5).
    change (6, 0) with (coords 6).
    rewrite !abs_has, !abs_empty by reflexivity. rewrite G4, G0. cbn [is_pc color_eqb kind_eqb andb].
    reflexivity.
  - destruct (bK p) eqn:Q; [|unfold cur_color; rewrite W; reflexivity]. destruct (FBK eq_refl) as [G4 [G0 K]]. rewrite K.
    change (byte (116 + 1)) with 117. change (byte (116 + 2)) with 118. change (116 + 1) with 117. change (116 + 2) with 118.
    rewrite !(safe_spec p _ Hwf) by reflexivity.
    unfold cur_color. rewrite W.
    cbn [andb Spec.home_rank].
    change (4, 7) with (coords 116). change (7, 7) with (coords 119). change (5, 7) with (coords 117).
    change (6, 7) with (coords 118).
    rewrite !abs_has, !abs_empty by reflexivity. rewrite G4, G0. cbn [is_pc color_eqb kind_eqb andb].
    reflexivity.
Qed.

(* a castling right of the side to move pins down the king square *)
Lemma castle_home : forall p, wf p = true ->
  (if wturn p then wQ p || wK p else bQ p || bK p) = true ->
  cur_king p = 4 + castle_rank (cur_color p) /\ coords (cur_king p) = (4, Spec.home_rank (cur_color p)).
Proof.
  intros p Hwf H. destruct (wf_flags p Hwf) as [FK [FQ [FBK FBQ]]]. unfold cur_king, cur_color.
  destruct (wturn p).
  - assert (K : wking p = 4). { apply orb_prop in H as [H|H]; [apply FQ in H|apply FK in H]; tauto. }
    rewrite K. split; reflexivity.
  - assert (K : bking p = 116). { apply orb_prop in H as [H|H]; [apply FBQ in H|apply FBK in H]; tauto. }
    rewrite K. split; reflexivity.
Qed.
Lemma can_q_flag : forall p, can_castle_q p = true -> (if wturn p then wQ p || wK p else bQ p || bK p) = true.
Proof.
  intros p H. unfold can_castle_q in H. cbv zeta in H. repeat (apply andb_prop in H as [H _]).
  destruct (wturn p); rewrite H; reflexivity.
Qed.
Lemma can_k_flag : forall p, can_castle_k p = true -> (if wturn p then wQ p || wK p else bQ p || bK p) = true.
Proof.
  intros p H. unfold can_castle_k in H. cbv zeta in H. repeat (apply andb_prop in H as [H _]).
  destruct (wturn p); rewrite H; apply orb_true_r.
Qed.

(* ================= Spec.pseudo seen from the model ================= *)

Lemma pseudo_piece : forall p from to pr k, validb from = true -> validb to = true ->
  get (board p) from = Pc (cur_color p) k -> is_piece_kind k = true ->
  Spec.pseudo (abs p) {| Spec.mfrom := coords from; Spec.mto := coords to; Spec.promo := pr |} =
  negb (is_col (cur_color p) (get (board p) to)) &&
  (Spec.no_promo pr && Spec.attacks (abs_board (board p)) (coords from) (coords to)).
Proof.
  intros p from to pr k Hf Ht Hg Hk.
  destruct (valid_coords from Hf) as [Onf _]. destruct (valid_coords to Ht) as [Ont _].
  unfold Spec.pseudo. cbn [Spec.mfrom Spec.mto Spec.promo]. rewrite abs_brd, abs_turn. cbv zeta.
  rewrite Onf, Ont, (abs_owned _ _ _ Ht), (abs_at _ _ Hf), Hg. cbn [abs_cell]. rewrite color_eqb_refl.
  destruct k; try discriminate Hk; reflexivity.
Qed.

Lemma pseudo_king : forall p from to pr, validb from = true -> validb to = true ->
  get (board p) from = Pc (cur_color p) King ->
  Spec.pseudo (abs p) {| Spec.mfrom := coords from; Spec.mto := coords to; Spec.promo := pr |} =
  negb (is_col (cur_color p) (get (board p) to)) &&
  (Spec.no_promo pr &&
   (Spec.attacks (abs_board (board p)) (coords from) (coords to)
    || (snd (coords from) =? Spec.home_rank (cur_color p)) && (fst (coords from) =? 4) && (cdr from to =? 0) && (cdf from to =? 2)
       && Spec.castle_ok (abs p) true
    || (snd (coords from) =? Spec.home_rank (cur_color p)) && (fst (coords from) =? 4) && (cdr from to =? 0) && (cdf from to =? -2)
       && Spec.castle_ok (abs p) false)).
Proof.
  intros p from to pr Hf Ht Hg.
  destruct (valid_coords from Hf) as [Onf _]. destruct (valid_coords to Ht) as [Ont _].
  unfold Spec.pseudo. cbn [Spec.mfrom Spec.mto Spec.promo]. rewrite abs_brd, abs_turn. cbv zeta.
  rewrite Onf, Ont, (abs_owned _ _ _ Ht), (abs_at _ _ Hf), Hg. cbn [abs_cell]. rewrite color_eqb_refl.
  reflexivity.
Qed.

Lemma mep_pawn : forall p from to, get (board p) from = Pc (cur_color p) Pawn -> mep_of p from to = mepz from to.
Proof. intros p from to Hg. unfold mep_of, mepz. rewrite Hg. cbn [is_pc]. rewrite color_eqb_refl. reflexivity. Qed.
Lemma mep_nonpawn : forall p from to k, get (board p) from = Pc (cur_color p) k -> k <> Pawn -> mep_of p from to = INVALID.
Proof.
  intros p from to k Hg Hk. unfold mep_of. rewrite Hg. cbn [is_pc]. rewrite color_eqb_refl.
  destruct k; try reflexivity. congruence.
Qed.

Lemma empty_not_own : forall c x, is_empty x = true -> negb (is_col c x) = true.
Proof. intros c [|c' k]; cbn; congruence. Qed.

Lemma king_iff : forall p to, wf p = true -> validb to = true ->
  (In (new_move (cur_king p) to) (map rm (king_steps p)) <->
   Spec.piece_attacks nob White King (coords (cur_king p)) (coords to) = true
   /\ negb (is_col (cur_color p) (get (board p) to)) = true /\ safe_sq p to = true).
Proof.
  intros p to Hwf Ht. destruct (lo_king _ _ _ _ _ (wf_lists_cur p Hwf)) as [Hk _].
  unfold king_steps. cbv zeta. rewrite (steps_iff King king_dirs kingstep_sweep _ _ _ to Hk Ht).
  apply validb_range in Ht as [_ On]. rewrite On. cbn [andb]. rewrite andb_true_iff. tauto.
Qed.

Lemma king_shape : forall p m, In m (map rm (king_steps p)) ->
  exists to, validb to = true /\ m = new_move (cur_king p) to.
Proof.
  intros p m H. unfold king_steps in H. cbv zeta in H. apply steps_shape in H.
  - destruct H as [to [V [_ E]]]. exists to. auto.
  - intros t F. apply andb_prop in F as [F _]. apply andb_prop in F as [F _]. exact F.
Qed.

Lemma castle_home' : forall p, wf p = true ->
  (if wturn p then wQ p || wK p else bQ p || bK p) = true -> cur_king p = if wturn p then 4 else 116.
Proof.
  intros p Hwf H. destruct (castle_home p Hwf H) as [K _]. rewrite K. unfold cur_color. destruct (wturn p); reflexivity.
Qed.

(* ================= soundness of the pseudo-legal generator ================= *)

Theorem gen_pseudo_sound : forall p m, wf p = true -> In m (map rm (gen_pseudo p)) ->
  validb (mfrom m) = true /\ validb (mto m) = true /\ mep_ok p m /\ Spec.pseudo (abs p) (absm m) = true.
Proof.
  intros p m Hwf H. rewrite gen_pseudo_eq, !map_app, !in_app_iff in H.
  pose proof (wf_lists_cur p Hwf) as HL.
  destruct H as [H|[H|[H|[H|H]]]].
  - (* pawns *)
    apply in_map_flat_map in H as [from [Hin H]].
    destruct (lo_pawn _ _ _ _ _ _ HL Hin) as [Hvf Hg].
    apply (pawn_model p Hwf from Hin) in H as [Ef [Vt [Ee R]]].
    destruct m as [f t pr e]. cbn [mfrom mto mep mpromo] in *. subst f.
    repeat split; try assumption.
    + unfold mep_ok. cbn [mfrom mto mep]. rewrite (mep_pawn p from t Hg). exact Ee.
    + unfold absm. cbn [mfrom mto mpromo]. apply (pawn_spec p Hwf from Hin t pr Vt). exact R.
  - (* pieces *)
    apply in_map_flat_map in H as [from [Hin H]].
    destruct (lo_piece _ _ _ _ _ _ HL Hin) as [Hvf [k [Hk Hg]]].
    destruct (piece_shape p from m H) as [to [Vt E]]. subst m.
    apply (piece_iff p Hwf from Hin to Vt) in H as [Ha Hc].
    cbn [new_move mfrom mto]. repeat split; try assumption.
    + unfold mep_ok, new_move. cbn [mfrom mto mep]. symmetry. apply (mep_nonpawn p from to k Hg).
      destruct k; try discriminate Hk; discriminate.
    + unfold absm, new_move. cbn [mfrom mto mpromo]. rewrite (pseudo_piece p from to None k Hvf Vt Hg Hk), Hc, Ha. reflexivity.
  - (* king steps *)
    destruct (lo_king _ _ _ _ _ HL) as [Hvf Hg].
    destruct (king_shape p m H) as [to [Vt E]]. subst m.
    apply (king_iff p to Hwf Vt) in H as [Ha [Hc Hs]].
    cbn [new_move mfrom mto]. repeat split; try assumption.
    + unfold mep_ok, new_move. cbn [mfrom mto mep]. symmetry. apply (mep_nonpawn p _ to King Hg). discriminate.
    + unfold absm, new_move. cbn [mfrom mto mpromo]. rewrite (pseudo_king p _ to None Hvf Vt Hg), Hc.
      unfold Spec.attacks. rewrite (abs_at _ _ Hvf), Hg. cbn [abs_cell].
      change (Spec.piece_attacks (abs_board (board p)) (cur_color p) King (coords (cur_king p)) (coords to))
        with (Spec.piece_attacks nob White King (coords (cur_king p)) (coords to)).
      rewrite Ha. reflexivity.
  - (* queenside castling *)
    destruct (lo_king _ _ _ _ _ HL) as [Hvf Hg].
    unfold castle_q in H. destruct (can_castle_q p) eqn:C; [|contradiction]. destruct H as [H|[]]. subst m. cbn [rm].
    pose proof (castle_home' p Hwf (can_q_flag p C)) as K.
    pose proof C as C'. rewrite (castle_q_spec p Hwf) in C'.
    unfold can_castle_q in C. cbv zeta in C. repeat (apply andb_prop in C as [C ?]).
    assert (Vt : validb (cur_king p - 2) = true) by (rewrite K; destruct (wturn p); reflexivity).
    cbn [new_move mfrom mto]. repeat split; try assumption.
    + unfold mep_ok, new_move. cbn [mfrom mto mep]. symmetry. apply (mep_nonpawn p _ _ King Hg). discriminate.
    + unfold absm, new_move. cbn [mfrom mto mpromo]. rewrite (pseudo_king p _ _ None Hvf Vt Hg), C'.
      rewrite (empty_not_own _ _ H3). unfold cdf, cdr, cur_color. rewrite K. destruct (wturn p); cbn; apply orb_true_r.
  - (* kingside castling *)
    destruct (lo_king _ _ _ _ _ HL) as [Hvf Hg].
    unfold castle_k in H. destruct (can_castle_k p) eqn:C; [|contradiction]. destruct H as [H|[]]. subst m. cbn [rm].
    pose proof (castle_home' p Hwf (can_k_flag p C)) as K.
    pose proof C as C'. rewrite (castle_k_spec p Hwf) in C'.
    unfold can_castle_k in C. cbv zeta in C. repeat (apply andb_prop in C as [C ?]).
    assert (Vt : validb (cur_king p + 2) = true) by (rewrite K; destruct (wturn p); reflexivity).
    cbn [new_move mfrom mto]. repeat split; try assumption.
    + unfold mep_ok, new_move. cbn [mfrom mto mep]. symmetry. apply (mep_nonpawn p _ _ King Hg). discriminate.
    + unfold absm, new_move. cbn [mfrom mto mpromo]. rewrite (pseudo_king p _ _ None Hvf Vt Hg), C'.
      rewrite (empty_not_own _ _ H2). unfold cdf, cdr, cur_color. rewrite K. destruct (wturn p); cbn; rewrite orb_true_r; reflexivity.
Qed.

(* ================= completeness of the pseudo-legal generator ================= *)

Lemma pseudo_origin : forall p from to pr, validb from = true -> validb to = true ->
  Spec.pseudo (abs p) {| Spec.mfrom := coords from; Spec.mto := coords to; Spec.promo := pr |} = true ->
  exists k, get (board p) from = Pc (cur_color p) k.
Proof.
  intros p from to pr Hf Ht H. unfold Spec.pseudo in H. cbn [Spec.mfrom Spec.mto Spec.promo] in H.
  rewrite abs_brd, abs_turn in H. cbv zeta in H. rewrite (abs_at _ _ Hf) in H.
  apply andb_prop in H as [_ H].
  destruct (get (board p) from) as [|c' k]; cbn [abs_cell] in H; [discriminate|].
  apply andb_prop in H as [H _]. apply color_eqb_eq in H. subst c'. exists k. reflexivity.
Qed.

Lemma no_promo_None : forall pr, Spec.no_promo pr = true -> pr = None.
Proof. intros [k|]; cbn; congruence. Qed.

Lemma complete_aux : forall p from to pr, wf p = true -> validb from = true -> validb to = true ->
  Spec.pseudo (abs p) {| Spec.mfrom := coords from; Spec.mto := coords to; Spec.promo := pr |} = true ->
  (exists m, In m (map rm (gen_pseudo p)) /\ mfrom m = from /\ mto m = to /\ mpromo m = pr) \/
  (get (board p) from = Pc (cur_color p) King /\
   Spec.attacks (abs_board (board p)) (coords from) (coords to) = true /\
   Spec.attacked (abs_board (board p)) (opp (cur_color p)) (coords to) = true).
Proof.
  intros p from to pr Hwf Hf Ht H.
  pose proof (wf_lists_cur p Hwf) as HL.
  destruct (pseudo_origin p from to pr Hf Ht H) as [k Hg].
  pose proof (lo_cell _ _ _ _ _ _ _ HL Hf Hg) as Hmem.
  assert (PC : is_piece_kind k = true -> In from (cur_pieces p) ->
          exists m, In m (map rm (gen_pseudo p)) /\ mfrom m = from /\ mto m = to /\ mpromo m = pr).
  { intros Hk Hin. rewrite (pseudo_piece p from to pr k Hf Ht Hg Hk) in H.
    apply andb_prop in H as [Hc H]. apply andb_prop in H as [Hp Ha]. apply no_promo_None in Hp. subst pr.
    exists (new_move from to). split; [|cbn; auto].
    rewrite gen_pseudo_eq, !map_app, !in_app_iff. right. left. apply in_map_flat_map. exists from. split; [exact Hin|].
    apply (piece_iff p Hwf from Hin to Ht). auto. }
  destruct k.
  - (* pawn *)
    left. exists (mk from to pr (mepz from to)). split; [|cbn; auto].
    rewrite gen_pseudo_eq, !map_app, !in_app_iff. left. apply in_map_flat_map. exists from. split; [exact Hmem|].
    apply (pawn_model p Hwf from Hmem). cbn [mk mfrom mto mep mpromo].
    split; [reflexivity|split; [exact Ht|split; [reflexivity|]]].
    apply (pawn_spec p Hwf from Hmem to pr Ht). exact H.
  - left. apply PC; auto.
  - left. apply PC; auto.
  - left. apply PC; auto.
  - left. apply PC; auto.
  - (* king *)
    subst from. rewrite (pseudo_king p _ to pr Hf Ht Hg) in H.
    apply andb_prop in H as [Hc H]. apply andb_prop in H as [Hp H]. apply no_promo_None in Hp. subst pr.
    apply orb_prop in H as [H|H]; [apply orb_prop in H as [H|H]|].
    + (* a king step *)
      destruct (safe_sq p to) eqn:S.
      * left. exists (new_move (cur_king p) to). split; [|cbn; auto].
        rewrite gen_pseudo_eq, !map_app, !in_app_iff. right. right. left.
        apply (king_iff p to Hwf Ht). repeat split; auto.
        unfold Spec.attacks in H. rewrite (abs_at _ _ Hf), Hg in H. exact H.
      * right. repeat split; auto. rewrite (safe_spec p to Hwf Ht) in S. apply negb_false_iff in S. exact S.
    + (* kingside castling *)
      left. apply andb_prop in H as [H Hco]. apply andb_prop in H as [H Hdf]. apply andb_prop in H as [_ Hdr].
      assert (C : can_castle_k p = true) by (rewrite (castle_k_spec p Hwf); assumption).
      pose proof (castle_home' p Hwf (can_k_flag p C)) as K.
      exists (new_move (cur_king p) (cur_king p + 2)).
      split; [rewrite gen_pseudo_eq, !map_app, !in_app_iff; right; right; right; right; unfold castle_k; rewrite C; left; reflexivity|].
      cbn [new_move mfrom mto mpromo]. repeat split; auto.
      apply coords_inj; [rewrite K; destruct (wturn p); reflexivity|exact Ht|].
      apply Z.eqb_eq in Hdf, Hdr. unfold cdf, cdr in Hdf, Hdr. rewrite K in Hdf, Hdr |- *.
      clear - Hdf Hdr. destruct (coords to) as [tf tr]. cbn [fst snd] in Hdf, Hdr.
      destruct (wturn p).
      * change (coords (4 + 2)) with (6, 0). change (coords 4) with (4, 0) in Hdf, Hdr. cbn [fst snd] in Hdf, Hdr. f_equal; lia.
      * change (coords (116 + 2)) with (6, 7). change (coords 116) with (4, 7) in Hdf, Hdr. cbn [fst snd] in Hdf, Hdr. f_equal; lia.
    + left. apply andb_prop in H as [H Hco]. apply andb_prop in H as [H Hdf]. apply andb_prop in H as [_ Hdr].
      assert (C : can_castle_q p = true) by (rewrite (castle_q_spec p Hwf); assumption).
      pose proof (castle_home' p Hwf (can_q_flag p C)) as K.
      exists (new_move (cur_king p) (cur_king p - 2)).
      split; [rewrite gen_pseudo_eq, !map_app, !in_app_iff; right; right; right; left; unfold castle_q; rewrite C; left; reflexivity|].
      cbn [new_move mfrom mto mpromo]. repeat split; auto.
      apply coords_inj; [rewrite K; destruct (wturn p); reflexivity|exact Ht|].
      apply Z.eqb_eq in Hdf, Hdr. unfold cdf, cdr in Hdf, Hdr. rewrite K in Hdf, Hdr |- *.
      clear - Hdf Hdr. destruct (coords to) as [tf tr]. cbn [fst snd] in Hdf, Hdr.
      destruct (wturn p).
      * change (coords (4 - 2)) with (2, 0). change (coords 4) with (4, 0) in Hdf, Hdr. cbn [fst snd] in Hdf, Hdr. f_equal; lia.
      * change (coords (116 - 2)) with (2, 7). change (coords 116) with (4, 7) in Hdf, Hdr. cbn [fst snd] in Hdf, Hdr. f_equal; lia.
Qed.

Theorem gen_pseudo_complete : forall p sm, wf p = true -> Spec.pseudo (abs p) sm = true ->
  (exists m, In m (map rm (gen_pseudo p)) /\ absm m = sm) \/
  (Spec.has (abs_board (board p)) (Spec.mfrom sm) (cur_color p) King = true /\
   Spec.attacks (abs_board (board p)) (Spec.mfrom sm) (Spec.mto sm) = true /\
   Spec.attacked (abs_board (board p)) (opp (cur_color p)) (Spec.mto sm) = true).
Proof.
  intros p [s t pr] Hwf H. cbn [Spec.mfrom Spec.mto].
  assert (On : Spec.on s = true /\ Spec.on t = true).
  { pose proof H as H0. unfold Spec.pseudo in H0. cbv zeta in H0. cbn [Spec.mfrom Spec.mto] in H0.
    apply andb_prop in H0 as [H0 _]. apply andb_prop in H0 as [H0 _]. apply andb_prop in H0 as [H1 H2]. auto. }
  destruct On as [Ons Ont]. destruct (on_valid s Ons) as [Vf Es]. destruct (on_valid t Ont) as [Vt Et].
  rewrite <- Es, <- Et in H. destruct (complete_aux p _ _ pr Hwf Vf Vt H) as [[m [Hin [E1 [E2 E3]]]]|[Hg [Ha Hd]]].
  - left. exists m. split; [exact Hin|]. unfold absm. rewrite E1, E2, E3, Es, Et. reflexivity.
  - right. rewrite Es, Et in *. rewrite <- Es at 1. rewrite (abs_has _ _ _ _ Vf), Hg. cbn [is_pc].
    rewrite color_eqb_refl. auto.
Qed.


(* ================= the king pre-filter only removes illegal moves (specification level) ================= *)

Lemma sq_eqb_eq : forall x y, Spec.sq_eqb x y = true <-> x = y.
Proof.
  intros [a b] [c d]. unfold Spec.sq_eqb. cbn [fst snd]. rewrite andb_true_iff, !Z.eqb_eq. split.
  - intros [-> ->]. reflexivity.
  - intros E. inversion E. auto.
Qed.
Lemma sq_eqb_refl : forall x, Spec.sq_eqb x x = true.
Proof. intros x. apply sq_eqb_eq. reflexivity. Qed.
Lemma sq_eqb_neq : forall x y, x <> y -> Spec.sq_eqb x y = false.
Proof. intros x y H. destruct (Spec.sq_eqb x y) eqn:E; [apply sq_eqb_eq in E; contradiction|reflexivity]. Qed.

Lemma find_unique {A} (f : A -> bool) (l : list A) (t : A) :
  (forall x, In x l -> f x = true -> x = t) -> In t l -> f t = true -> find f l = Some t.
Proof.
  induction l as [|a l IH]; intros U Hin Ht; [contradiction|]. cbn [find].
  destruct (f a) eqn:E.
  - f_equal. apply U; [left; reflexivity|exact E].
  - apply IH.
    + intros x Hx. apply U. right. exact Hx.
    + destruct Hin as [->|Hin]; [congruence|exact Hin].
    + exact Ht.
Qed.

Lemma betw_not_end : forall x t, In x Spec.all_sq -> In t Spec.all_sq -> forall y, In y (betw x t) -> y <> t.
Proof.
  intros x t Hx Ht y Hy.
  assert (S : forallb (fun x => forallb (fun t => forallb (fun y => negb (Spec.sq_eqb y t)) (betw x t)) Spec.all_sq) Spec.all_sq = true)
    by (vm_compute; reflexivity).
  rewrite forallb_forall in S. specialize (S x Hx). rewrite forallb_forall in S. specialize (S t Ht).
  rewrite forallb_forall in S. specialize (S y Hy). apply negb_true_iff in S. intro E. subst y.
  rewrite sq_eqb_refl in S. discriminate.
Qed.

Lemma self_attack : forall b c k t, Spec.piece_attacks b c k t t = false.
Proof.
  intros b c k t. unfold Spec.piece_attacks. cbv zeta. rewrite !Z.sub_diag. cbn [Z.abs].
  destruct k; cbn; try reflexivity.
Qed.

Section KingStep.
Variable a : Spec.position.
Let b := Spec.brd a.
Let c := Spec.turn a.
Variables s t : Spec.sq.
Hypothesis Hk : b s = Some (c, King).
Hypothesis Huniq : forall x, In x Spec.all_sq -> Spec.has b x c King = true -> x = s.
Hypothesis Hs : In s Spec.all_sq.
Hypothesis Ht : In t Spec.all_sq.
Hypothesis Hstep : Spec.piece_attacks b c King s t = true.
Hypothesis Hatt : Spec.attacked b (opp c) t = true.

Let m := {| Spec.mfrom := s; Spec.mto := t; Spec.promo := None |}.
Let b1 := Spec.set (Spec.set b s None) t (b s).

Lemma king_step_board : Spec.brd (Spec.apply a m) = b1.
Proof.
  unfold Spec.apply. cbv zeta. cbn [Spec.mfrom Spec.mto Spec.promo m Spec.brd]. fold b c.
  assert (P : Spec.has b s c Pawn = false). { unfold Spec.has. rewrite Hk, color_eqb_refl. reflexivity. }
  rewrite P. cbn [andb].
  unfold Spec.piece_attacks in Hstep. cbv zeta in Hstep.
  assert (D2 : (fst t - fst s =? 2) = false) by lia.
  assert (D3 : (fst t - fst s =? -2) = false) by lia.
  rewrite D2, D3, !andb_false_r. reflexivity.
Qed.

Lemma b1_other : forall x, x <> s -> x <> t -> b1 x = b x.
Proof.
  intros x H1 H2. unfold b1, Spec.set. rewrite (sq_eqb_neq _ _ H1), (sq_eqb_neq _ _ H2). reflexivity.
Qed.
Lemma b1_t : b1 t = Some (c, King).
Proof. unfold b1, Spec.set. rewrite sq_eqb_refl. exact Hk. Qed.

Lemma king_step_king_sq : Spec.king_sq b1 c = Some t.
Proof.
  unfold Spec.king_sq. apply find_unique; [|exact Ht|].
  - intros x Hx Hh. destruct (Spec.sq_eqb x t) eqn:E1; [apply sq_eqb_eq; exact E1|].
    exfalso. unfold Spec.has, b1, Spec.set in Hh. rewrite E1 in Hh.
    destruct (Spec.sq_eqb x s) eqn:E2; [discriminate Hh|].
    assert (x = s) by (apply Huniq; [exact Hx|exact Hh]). subst x. rewrite sq_eqb_refl in E2. discriminate.
  - unfold Spec.has. rewrite b1_t, color_eqb_refl. reflexivity.
Qed.

Lemma king_step_attacked : Spec.attacked b1 (opp c) t = true.
Proof.
  unfold Spec.attacked in *. apply existsb_exists in Hatt as [x [Hx H]]. apply andb_prop in H as [Ho Ha].
  apply existsb_exists. exists x. split; [exact Hx|].
  assert (N1 : x <> s).
  { intro E. subst x. unfold Spec.owned in Ho. rewrite Hk in Ho. rewrite color_eqb_opp, color_eqb_refl in Ho. discriminate. }
  assert (N2 : x <> t).
  { intro E. subst x. unfold Spec.attacks in Ha. destruct (b t) as [[c' k]|]; [|discriminate]. rewrite self_attack in Ha. discriminate. }
  unfold Spec.owned, Spec.attacks in *. rewrite (b1_other x N1 N2).
  destruct (b x) as [[c' k]|]; [|discriminate]. rewrite Ho. cbn [andb].
  assert (BE : Spec.between_empty b x t = true -> Spec.between_empty b1 x t = true).
  { rewrite !between_empty_betw, !forallb_forall. intros H y Hy. specialize (H y Hy).
    pose proof (betw_not_end x t Hx Ht y Hy) as Ny.
    unfold Spec.empty in *. unfold b1, Spec.set. rewrite (sq_eqb_neq _ _ Ny).
    destruct (Spec.sq_eqb y s); [reflexivity|exact H]. }
  destruct k; unfold Spec.piece_attacks in *; cbv zeta in *; try exact Ha;
    apply andb_prop in Ha as [Ha1 Ha2]; rewrite Ha1, (BE Ha2); reflexivity.
Qed.

Lemma king_step_in_check : Spec.in_check (Spec.brd (Spec.apply a m)) c = true.
Proof.
  rewrite king_step_board. unfold Spec.in_check. rewrite king_step_king_sq. exact king_step_attacked.
Qed.
End KingStep.

(* model-level wrapper *)
Theorem king_prefilter_harmless : forall p sm, wf p = true -> Spec.pseudo (abs p) sm = true ->
  Spec.has (abs_board (board p)) (Spec.mfrom sm) (cur_color p) King = true ->
  Spec.attacks (abs_board (board p)) (Spec.mfrom sm) (Spec.mto sm) = true ->
  Spec.attacked (abs_board (board p)) (opp (cur_color p)) (Spec.mto sm) = true ->
  Spec.in_check (Spec.brd (Spec.apply (abs p) sm)) (cur_color p) = true.
Proof.
  intros p [s t pr] Hwf H Hh Ha Hd. cbn [Spec.mfrom Spec.mto] in *.
  assert (Hk : abs_board (board p) s = Some (cur_color p, King)).
  { unfold Spec.has in Hh. destruct (abs_board (board p) s) as [[c' k]|]; [|discriminate].
    apply andb_prop in Hh as [H1 H2]. apply color_eqb_eq in H1. destruct k; try discriminate H2. subst c'. reflexivity. }
  pose proof H as H0. unfold Spec.pseudo in H0. cbv zeta in H0. cbn [Spec.mfrom Spec.mto Spec.promo] in H0.
  rewrite abs_brd, abs_turn, Hk in H0.
  apply andb_prop in H0 as [H0 H1]. apply andb_prop in H0 as [H0 _]. apply andb_prop in H0 as [Ons Ont].
  apply andb_prop in H1 as [_ H1]. apply andb_prop in H1 as [Hp _]. apply no_promo_None in Hp. subst pr.
  assert (Hstep : Spec.piece_attacks (abs_board (board p)) (cur_color p) King s t = true).
  { unfold Spec.attacks in Ha. rewrite Hk in Ha. exact Ha. }
  apply (king_step_in_check (abs p) s t); try assumption; try (apply on_in_all; assumption).
  intros x Hx Hxk. destruct (all_sq_valid x Hx) as [Vx Ex]. destruct (on_valid s Ons) as [Vs Es].
    rewrite abs_brd in Hxk. rewrite <- Ex, (abs_has _ _ _ _ Vx) in Hxk. apply is_pc_eq in Hxk.
    rewrite <- Es, (abs_at _ _ Vs) in Hk.
    destruct (get (board p) (sq88 s)) as [|c' k'] eqn:G; cbn [abs_cell] in Hk; [discriminate|]. inversion Hk; subst c' k'.
    pose proof (lo_cell _ _ _ _ _ _ _ (wf_lists_cur p Hwf) Vx Hxk) as E1.
    pose proof (lo_cell _ _ _ _ _ _ _ (wf_lists_cur p Hwf) Vs G) as E2. cbv iota in E1, E2.
    rewrite <- Ex, <- Es. congruence.
Qed.


(* ================= no move is generated twice ================= *)

Lemma okind_eqb_eq' : forall a b, okind_eqb a b = true -> a = b.
Proof. destruct a as [[]|], b as [[]|]; cbn; congruence. Qed.
Lemma move_eqb_eq' : forall a b, move_eqb a b = true -> a = b.
Proof.
  destruct a, b. unfold move_eqb. cbn. intros H.
  apply andb_prop in H as [H H4]. apply andb_prop in H as [H H3]. apply andb_prop in H as [H1 H2].
  apply Z.eqb_eq in H1, H2, H4. apply okind_eqb_eq' in H3. congruence.
Qed.
Fixpoint nodupm (l : list move) : bool :=
  match l with [] => true | x :: r => negb (existsb (move_eqb x) r) && nodupm r end.
Lemma move_eqb_refl : forall a, move_eqb a a = true.
Proof. intros [f t [[]|] e]; unfold move_eqb; cbn; rewrite !Z.eqb_refl; reflexivity. Qed.
Lemma nodupm_NoDup : forall l, nodupm l = true -> NoDup l.
Proof.
  induction l as [|x r IH]; cbn [nodupm]; intros H; [constructor|].
  apply andb_prop in H as [H1 H2]. constructor; [|apply IH; exact H2].
  intro Hin. apply negb_true_iff in H1. assert (existsb (move_eqb x) r = true); [|congruence].
  apply existsb_exists. exists x. split; [exact Hin|apply move_eqb_refl].
Qed.

Lemma map_flat_map {A B C} (g : B -> C) (f : A -> list B) l : map g (flat_map f l) = flat_map (fun x => map g (f x)) l.
Proof. induction l as [|x l IH]; cbn [flat_map map]; [reflexivity|]. rewrite map_app, IH. reflexivity. Qed.

(* ----- pawns ----- *)
Definition pc_all (f t : Z) : list move :=
  map (fun k => mk f t (Some k) INVALID) [Queen; Rook; Bishop; Knight] ++ [mk f t None INVALID].
Lemma sub_pawn_capture : forall f t R, sub (map rm (pawn_capture f t R)) (pc_all f t).
Proof.
  intros f t R. unfold pawn_capture, pc_all, promo4. destruct (rankof t =? R).
  - cbn [map app rm]. unfold mk. repeat apply sub_keep. apply sub_nil_l.
  - cbn [map app rm]. unfold new_move, mk. do 4 apply sub_skip. apply sub_refl.
Qed.
Lemma sub_pawn_push : forall f t R, sub (map rm (pawn_push f t R)) (pc_all f t).
Proof.
  intros f t R. unfold pawn_push, pc_all, promo4. destruct (rankof t =? R).
  - cbn [map app rm]. unfold mk. repeat apply sub_keep. apply sub_nil_l.
  - cbn [map app rm]. unfold new_move, mk. do 4 apply sub_skip. apply sub_refl.
Qed.
Definition pawn_max (w : bool) (from : Z) : list move :=
  let adv := advw w in
  let tq := byte (from + adv - 1) in let tk := byte (from + adv + 1) in
  let t1 := byte (from + adv) in let t2 := byte (t1 + adv) in
  pc_all from tq ++ pc_all from tk ++ pc_all from t1 ++ [mk from t2 None t1].
Lemma sub_pawn_from : forall p from, sub (map rm (pawn_from p from)) (pawn_max (wturn p) from).
Proof.
  intros p from. unfold pawn_from, pawn_max. cbv zeta. rewrite adv_of_w. rewrite !map_app.
  repeat apply sub_app.
  - destruct (_ && _); [apply sub_pawn_capture|]. destruct (_ =? _); [apply sub_pawn_capture|apply sub_nil_l].
  - destruct (is_col _ _); [apply sub_pawn_capture|]. destruct (_ =? _); [apply sub_pawn_capture|apply sub_nil_l].
  - destruct (get (board p) (byte (from + advw (wturn p)))); [|apply sub_nil_l].
    rewrite map_app. apply sub_app; [apply sub_pawn_push|].
    destruct (_ =? _); [|apply sub_nil_l]. destruct (get _ _); [apply sub_refl|apply sub_nil_l].
Qed.
Lemma pawn_max_sweep : forallb (fun w => forallb (fun a => implb (midrank a) (nodupm (pawn_max w a))) valid_squares) [true; false] = true.
Proof. vm_compute. reflexivity. Qed.
Lemma pawn_from_NoDup : forall p from, validb from = true -> midrank from = true -> NoDup (map rm (pawn_from p from)).
Proof.
  intros p from Hv Hm. eapply sub_NoDup; [apply sub_pawn_from|]. apply nodupm_NoDup.
  pose proof pawn_max_sweep as S. cbn [forallb] in S. apply andb_prop in S as [S1 S2]. apply andb_prop in S2 as [S2 _].
  assert (X : implb (midrank from) (nodupm (pawn_max (wturn p) from)) = true)
    by (destruct (wturn p); [exact (sweep1 _ S1 from Hv)|exact (sweep1 _ S2 from Hv)]).
  rewrite Hm in X. exact X.
Qed.

(* ----- step pieces ----- *)
Lemma sub_steps : forall b filt from dirs,
  sub (map rm (steps b filt from dirs)) (map (new_move from) (map (fun d => byte (from + d)) dirs)).
Proof.
  intros b filt from dirs. unfold steps. induction dirs as [|d dirs IH]; cbn [flat_map map]; [constructor|].
  rewrite map_app. change (new_move from (byte (from + d)) :: ?l) with ([new_move from (byte (from + d))] ++ l).
  apply sub_app; [|exact IH]. cbv zeta. destruct (filt _); [apply sub_refl|apply sub_nil_l].
Qed.
Lemma new_move_NoDup : forall from l, NoDup l -> NoDup (map (new_move from) l).
Proof.
  intros from l H. apply NoDup_map_inj_in; [exact H|]. intros x y _ _ E. apply new_move_inj in E as [_ E]. exact E.
Qed.
Lemma knight_targets_sweep : forallb (fun a => nodupb (map (fun d => byte (a + d)) knight_dirs)) valid_squares = true.
Proof. vm_compute. reflexivity. Qed.
Lemma king_targets_sweep : forallb (fun a => nodupb (map (fun d => byte (a + d)) king_dirs ++ [a - 2; a + 2])) valid_squares = true.
Proof. vm_compute. reflexivity. Qed.

(* ----- sliders ----- *)
Lemma sub_scan : forall b c f l, sub (map rm (scan b c f l)) (map (new_move f) l).
Proof.
  intros b c f. induction l as [|x l IH]; cbn [scan map]; [constructor|].
  destruct (get b x) as [|c' k'].
  - cbn [map rm move_or_capture]. apply sub_keep. exact IH.
  - destruct (color_eqb c c'); [apply sub_nil_l|]. cbn [map rm move_or_capture]. apply sub_keep. apply sub_nil_l.
Qed.
Lemma sub_slides : forall b c from dirs,
  sub (map rm (flat_map (slide 7 b c from from) dirs)) (map (new_move from) (flat_map (ray 7 from) dirs)).
Proof.
  intros b c from dirs. rewrite !map_flat_map. apply sub_flat_map. intros d _. rewrite slide_scan. apply sub_scan.
Qed.
Lemma ray_targets_sweep :
  forallb (fun dirs => forallb (fun a => nodupb (flat_map (ray 7 a) dirs)) valid_squares) [bishop_dirs; rook_dirs; queen_dirs] = true.
Proof. vm_compute. reflexivity. Qed.

Lemma piece_from_NoDup : forall p from, validb from = true -> NoDup (map rm (piece_from p from)).
Proof.
  intros p from Hv. unfold piece_from. cbv zeta.
  pose proof ray_targets_sweep as S. cbn [forallb] in S. apply andb_prop in S as [S1 S]. apply andb_prop in S as [S2 S].
  apply andb_prop in S as [S3 _].
  destruct (get (board p) from) as [|c0 k]; [constructor|]. destruct k; try constructor.
  - eapply sub_NoDup; [apply sub_steps|]. apply new_move_NoDup. apply nodupb_NoDup. exact (sweep1 _ knight_targets_sweep from Hv).
  - eapply sub_NoDup; [apply sub_slides|]. apply new_move_NoDup. apply nodupb_NoDup. exact (sweep1 _ S1 from Hv).
  - eapply sub_NoDup; [apply sub_slides|]. apply new_move_NoDup. apply nodupb_NoDup. exact (sweep1 _ S2 from Hv).
  - eapply sub_NoDup; [apply sub_slides|]. apply new_move_NoDup. apply nodupb_NoDup. exact (sweep1 _ S3 from Hv).
Qed.

Lemma king_part_NoDup : forall p, validb (cur_king p) = true -> NoDup (map rm (king_steps p ++ castle_q p ++ castle_k p)).
Proof.
  intros p Hv. set (k := cur_king p) in *.
  apply (sub_NoDup _ (map (new_move k) (map (fun d => byte (k + d)) king_dirs ++ [k - 2; k + 2]))).
  - rewrite !map_app. apply sub_app; [apply sub_steps|].
    change (map (new_move k) [k - 2; k + 2]) with ([new_move k (k - 2)] ++ [new_move k (k + 2)]).
    apply sub_app; [unfold castle_q; fold k; destruct (can_castle_q p)|unfold castle_k; fold k; destruct (can_castle_k p)];
      try apply sub_nil_l; apply sub_refl.
  - apply new_move_NoDup. apply nodupb_NoDup. exact (sweep1 _ king_targets_sweep k Hv).
Qed.

Lemma lists_ok_nodup : forall b c pieces pawns king, lists_ok b c pieces pawns king = true -> NoDup pieces /\ NoDup pawns.
Proof.
  intros b c pieces pawns king H. unfold lists_ok in H. repeat (apply andb_prop in H as [H ?]).
  split; apply nodupb_NoDup; assumption.
Qed.

Theorem gen_pseudo_NoDup : forall p, wf p = true -> NoDup (map rm (gen_pseudo p)).
Proof.
  intros p Hwf. pose proof (wf_lists_cur p Hwf) as HL. destruct (lists_ok_nodup _ _ _ _ _ HL) as [NDpc NDpw].
  destruct (lo_king _ _ _ _ _ HL) as [Vk Gk].
  assert (P1 : forall m, In m (map rm (flat_map (pawn_from p) (cur_pawns p))) -> get (board p) (mfrom m) = Pc (cur_color p) Pawn).
  { intros m H. apply in_map_flat_map in H as [from [Hin H]]. apply (pawn_model p Hwf from Hin) in H as [E _].
    rewrite E. exact (proj2 (lo_pawn _ _ _ _ _ _ HL Hin)). }
  assert (P2 : forall m, In m (map rm (flat_map (piece_from p) (cur_pieces p))) ->
                 exists k, is_piece_kind k = true /\ get (board p) (mfrom m) = Pc (cur_color p) k).
  { intros m H. apply in_map_flat_map in H as [from [Hin H]]. destruct (piece_shape p from m H) as [to [_ E]]. subst m.
    exact (proj2 (lo_piece _ _ _ _ _ _ HL Hin)). }
  assert (P3 : forall m, In m (map rm (king_steps p ++ castle_q p ++ castle_k p)) -> mfrom m = cur_king p).
  { intros m H. rewrite !map_app, !in_app_iff in H. destruct H as [H|[H|H]].
    - destruct (king_shape p m H) as [to [_ E]]. subst m. reflexivity.
    - unfold castle_q in H. destruct (can_castle_q p); [|contradiction]. destruct H as [H|[]]. subst m. reflexivity.
    - unfold castle_k in H. destruct (can_castle_k p); [|contradiction]. destruct H as [H|[]]. subst m. reflexivity. }
  rewrite gen_pseudo_eq. rewrite map_app. apply NoDup_app_intro; [| |].
  - rewrite map_flat_map. apply NoDup_flat_map_disj; [exact NDpw| |].
    + intros from Hin. apply pawn_from_NoDup; [exact (proj1 (lo_pawn _ _ _ _ _ _ HL Hin))|exact (wf_pawn_mid p from Hwf Hin)].
    + intros x y z Hx Hy Hzx Hzy. apply (pawn_model p Hwf x Hx) in Hzx as [E1 _]. apply (pawn_model p Hwf y Hy) in Hzy as [E2 _]. congruence.
  - rewrite map_app. apply NoDup_app_intro.
    + rewrite map_flat_map. apply NoDup_flat_map_disj; [exact NDpc| |].
      * intros from Hin. apply piece_from_NoDup. exact (proj1 (lo_piece _ _ _ _ _ _ HL Hin)).
      * intros x y z Hx Hy Hzx Hzy. destruct (piece_shape p x z Hzx) as [t1 [_ E1]]. destruct (piece_shape p y z Hzy) as [t2 [_ E2]].
        rewrite E1 in E2. apply new_move_inj in E2 as [E2 _]. exact E2.
    + apply king_part_NoDup. exact Vk.
    + intros m H2 H3. apply P2 in H2 as [k [Hk G]]. apply P3 in H3. rewrite H3, Gk in G. inversion G; subst k. discriminate Hk.
  - intros m H1 H23. apply P1 in H1. rewrite map_app, in_app_iff in H23. destruct H23 as [H2|H3].
    + apply P2 in H2 as [k [Hk G]]. rewrite H1 in G. inversion G; subst k. discriminate Hk.
    + apply P3 in H3. rewrite H3, Gk in H1. discriminate H1.
Qed.

(* absm is injective on moves that carry the right en-passant square *)
Lemma absm_inj : forall p m1 m2,
  validb (mfrom m1) = true -> validb (mto m1) = true -> mep_ok p m1 ->
  validb (mfrom m2) = true -> validb (mto m2) = true -> mep_ok p m2 ->
  absm m1 = absm m2 -> m1 = m2.
Proof.
  intros p [f1 t1 p1 e1] [f2 t2 p2 e2]. unfold mep_ok, absm. cbn [mfrom mto mpromo mep]. intros V1 V2 M1 V3 V4 M2 E.
  pose proof (f_equal Spec.mfrom E) as E1. pose proof (f_equal Spec.mto E) as E2. pose proof (f_equal Spec.promo E) as E3.
  cbn [Spec.mfrom Spec.mto Spec.promo] in E1, E2, E3.
  apply coords_inj in E1; try assumption. apply coords_inj in E2; try assumption.
  subst. reflexivity.
Qed.


(* ================= the guards of gen_legal that do not depend on make ================= *)

Lemma wf_of_legal : forall p, wf_legal p = true -> wf p = true.
Proof. intros p H. unfold wf_legal in H. apply andb_prop in H as [H _]. exact H. Qed.

Theorem pieces_ok_wf : forall p, wf p = true -> pieces_ok p = true.
Proof.
  intros p Hwf. unfold pieces_ok. apply forallb_forall. intros from Hin.
  destruct (lo_piece _ _ _ _ _ _ (wf_lists_cur p Hwf) Hin) as [_ [k [Hk Hg]]]. rewrite Hg.
  destruct k; try discriminate Hk; reflexivity.
Qed.

Theorem board_index_safe_wf : forall p, wf p = true -> board_index_safe p = true.
Proof.
  intros p Hwf. pose proof (wf_lists_cur p Hwf) as HL. pose proof (wf_lists_en p Hwf) as HE.
  destruct (lo_king _ _ _ _ _ HL) as [Vk _]. destruct (lo_king _ _ _ _ _ HE) as [Ve _].
  unfold board_index_safe. rewrite !andb_true_iff. repeat split.
  - apply forallb_forall. intros from Hin. destruct (lo_pawn _ _ _ _ _ _ HL Hin) as [Hv _].
    destruct (pawn_facts1 (wturn p) from Hv (wf_pawn_mid p from Hwf Hin)) as [_ [_ [_ [_ [_ [_ [_ [_ [A [B C]]]]]]]]]].
    rewrite adv_of_w, start_rank_of_w. rewrite A, B, C. reflexivity.
  - apply forallb_forall. intros s Hin. rewrite !in_app_iff in Hin.
    assert (V : validb s = true).
    { destruct Hin as [H|[H|H]].
      - exact (proj1 (lo_pawn _ _ _ _ _ _ HL H)).
      - exact (proj1 (lo_piece _ _ _ _ _ _ HL H)).
      - destruct H as [<-|[<-|[]]]; assumption. }
    apply validb_range in V as [V _]. lia.
  - destruct (if wturn p then wQ p else bQ p) eqn:F; [|reflexivity]. cbn [negb orb].
    assert (K : cur_king p = if wturn p then 4 else 116).
    { apply (castle_home' p Hwf). destruct (wturn p); rewrite F; reflexivity. }
    rewrite K. destruct (wturn p); reflexivity.
  - destruct (if wturn p then wK p else bK p) eqn:F; [|reflexivity]. cbn [negb orb].
    assert (K : cur_king p = if wturn p then 4 else 116).
    { apply (castle_home' p Hwf). destruct (wturn p); rewrite F; apply orb_true_r. }
    rewrite K. destruct (wturn p); reflexivity.
Qed.

Section GenProofs.
Hypothesis make_spec : make_spec_statement.

Lemma make_generated : forall p m, wf_legal p = true -> Position.ply p + 1 < 32767 -> In m (map rm (gen_pseudo p)) ->
  is_ok (make p m) = true /\
  is_legal p m = negb (Spec.in_check (Spec.brd (Spec.apply (abs p) (absm m))) (cur_color p)).
Proof.
  intros p m Hl Hp Hin. destruct (gen_pseudo_sound p m (wf_of_legal p Hl) Hin) as [V1 [V2 [M P]]].
  destruct (make_spec p m Hl Hp V1 V2 P M) as [p' [E _]]. unfold is_legal. rewrite E. split; reflexivity.
Qed.

Theorem gen_guards_ok : forall p, wf_legal p = true -> Position.ply p + 1 < 32767 -> gen_legal p = Ok (gen_legal_pure p).
Proof.
  intros p Hl Hp. pose proof (wf_of_legal p Hl) as Hwf. unfold gen_legal.
  rewrite (board_index_safe_wf p Hwf), (pieces_ok_wf p Hwf). cbn [negb].
  assert (A : all_ok p (gen_pseudo p) = true).
  { unfold all_ok. apply forallb_forall. intros r Hr. apply (make_generated p (rm r) Hl Hp). apply in_map. exact Hr. }
  rewrite A. reflexivity.
Qed.

(* every generated move is legal by the rules *)
Theorem gen_legal_sound : forall p r, wf_legal p = true -> Position.ply p + 1 < 32767 -> In r (gen_legal_pure p) ->
  Spec.legal (abs p) (absm (rm r)) = true.
Proof.
  intros p r Hl Hp Hin. unfold gen_legal_pure in Hin. apply filter_In in Hin as [Hin Hleg].
  assert (Hm : In (rm r) (map rm (gen_pseudo p))) by (apply in_map; exact Hin).
  destruct (gen_pseudo_sound p _ (wf_of_legal p Hl) Hm) as [_ [_ [_ P]]].
  destruct (make_generated p _ Hl Hp Hm) as [_ E]. rewrite E in Hleg.
  unfold Spec.legal. rewrite P, abs_turn, Hleg. reflexivity.
Qed.

(* every legal move of the rules is generated *)
Theorem gen_legal_complete : forall p sm, wf_legal p = true -> Position.ply p + 1 < 32767 -> Spec.legal (abs p) sm = true ->
  exists r, In r (gen_legal_pure p) /\ absm (rm r) = sm.
Proof.
  intros p sm Hl Hp H. pose proof (wf_of_legal p Hl) as Hwf. unfold Spec.legal in H. apply andb_prop in H as [P C].
  rewrite abs_turn in C.
  destruct (gen_pseudo_complete p sm Hwf P) as [[m [Hin E]]|[Hk [Ha Hd]]].
  - pose proof Hin as Hin'. apply in_map_iff in Hin' as [r [Er Hr]]. exists r. split; [|rewrite Er; exact E].
    unfold gen_legal_pure. apply filter_In. split; [exact Hr|].
    destruct (make_generated p m Hl Hp Hin) as [_ L]. rewrite Er, L, E. exact C.
  - rewrite (king_prefilter_harmless p sm Hwf P Hk Ha Hd) in C. discriminate C.
Qed.

(* the generated legal moves are exactly the legal moves of the rules, each once *)
Theorem gen_legal_exact : forall p, wf_legal p = true -> Position.ply p + 1 < 32767 ->
  exists l, gen_legal p = Ok l
    /\ NoDup (map (fun r => absm (rm r)) l)
    /\ (forall sm, In sm (map (fun r => absm (rm r)) l) <-> Spec.legal (abs p) sm = true)
    /\ (forall r, In r l -> mep_ok p (rm r) /\ validb (mfrom (rm r)) = true /\ validb (mto (rm r)) = true).
Proof.
  intros p Hl Hp. pose proof (wf_of_legal p Hl) as Hwf. exists (gen_legal_pure p).
  assert (S : forall r, In r (gen_legal_pure p) -> In (rm r) (map rm (gen_pseudo p))).
  { intros r Hr. unfold gen_legal_pure in Hr. apply filter_In in Hr as [Hr _]. apply in_map. exact Hr. }
  split; [exact (gen_guards_ok p Hl Hp)|]. split; [|split].
  - rewrite <- (map_map rm absm). apply NoDup_map_inj_in.
    + apply (sub_NoDup _ (map rm (gen_pseudo p))); [|exact (gen_pseudo_NoDup p Hwf)].
      apply sub_map. unfold gen_legal_pure. apply sub_filter.
    + intros m1 m2 H1 H2 E. apply in_map_iff in H1 as [r1 [E1 H1]]. apply in_map_iff in H2 as [r2 [E2 H2]].
      subst m1 m2.
      destruct (gen_pseudo_sound p _ Hwf (S r1 H1)) as [A1 [A2 [A3 _]]].
      destruct (gen_pseudo_sound p _ Hwf (S r2 H2)) as [B1 [B2 [B3 _]]].
      exact (absm_inj p _ _ A1 A2 A3 B1 B2 B3 E).
  - intros sm. split.
    + intros H. apply in_map_iff in H as [r [E Hr]]. subst sm. exact (gen_legal_sound p r Hl Hp Hr).
    + intros H. destruct (gen_legal_complete p sm Hl Hp H) as [r [Hr E]]. apply in_map_iff. exists r. split; assumption.
  - intros r Hr. destruct (gen_pseudo_sound p _ Hwf (S r Hr)) as [A1 [A2 [A3 _]]]. auto.
Qed.
End GenProofs.

Print Assumptions gen_pseudo_sound.
Print Assumptions gen_pseudo_complete.
Print Assumptions gen_pseudo_NoDup.
Print Assumptions king_prefilter_harmless.
Print Assumptions board_index_safe_wf.
Print Assumptions pieces_ok_wf.
Print Assumptions gen_guards_ok.
Print Assumptions gen_legal_sound.
Print Assumptions gen_legal_complete.
Print Assumptions gen_legal_exact.
Check gen_legal_exact.
