(* List lemmas used by the proofs about make: reflection of the boolean predicates of WF, the Go array idioms
   (upd, index_of, replace_first, swap_remove, kill, append_cap), permutation-invariance of sums, valid squares.
   No axioms. *)
From Coq Require Import ZArith List Bool Lia ZifyBool ZifyNat Permutation.
Require Import Base Generated Position Attack Make WF.
Import ListNotations.
Open Scope Z_scope.

(* ---------- reflection ---------- *)

Lemma memb_In : forall x l, memb x l = true <-> In x l.
Proof.
  intros x l. unfold memb. rewrite existsb_exists. split.
  - intros [y [Hy He]]. apply Z.eqb_eq in He. subst. exact Hy.
  - intros H. exists x. split; [exact H | apply Z.eqb_refl].
Qed.

Lemma memb_false : forall x l, memb x l = false <-> ~ In x l.
Proof.
  intros x l. rewrite <- memb_In. destruct (memb x l); split; intros; congruence.
Qed.

Lemma nodupb_NoDup : forall l, nodupb l = true <-> NoDup l.
Proof.
  induction l as [|x r IH]; cbn [nodupb].
  - split; [constructor | reflexivity].
  - fold (memb x r). rewrite andb_true_iff, negb_true_iff, IH, memb_false. split.
    + intros [Hm Hn]. constructor; assumption.
    + intros H. inversion H; subst. split; assumption.
Qed.

(* ---------- upd / get / set ---------- *)

Lemma upd_length : forall A (l : list A) i v, length (upd l i v) = length l.
Proof.
  induction l as [|x r IH]; intros [|i] v; cbn [upd length]; try reflexivity.
  rewrite IH. reflexivity.
Qed.

Lemma nth_upd_same : forall A (l : list A) i v d, (i < length l)%nat -> nth i (upd l i v) d = v.
Proof.
  induction l as [|x r IH]; intros [|i] v d H; cbn [upd length nth] in *; try lia; try reflexivity.
  apply IH. lia.
Qed.

Lemma nth_upd_other : forall A (l : list A) i j v d, i <> j -> nth j (upd l i v) d = nth j l d.
Proof.
  induction l as [|x r IH]; intros [|i] [|j] v d H; cbn [upd nth]; try reflexivity; try congruence.
  apply IH. congruence.
Qed.

Lemma upd_oob : forall A (l : list A) i v, (length l <= i)%nat -> upd l i v = l.
Proof.
  induction l as [|x r IH]; intros [|i] v H; cbn [upd length] in *; try reflexivity; try lia.
  rewrite IH by lia. reflexivity.
Qed.

Lemma upd_app_l : forall A (l r : list A) i v, (i < length l)%nat -> upd (l ++ r) i v = upd l i v ++ r.
Proof.
  induction l as [|x l IH]; intros r [|i] v H; cbn [upd length app] in *; try lia; try reflexivity.
  rewrite IH by lia. reflexivity.
Qed.

Lemma upd_app_r : forall A (l r : list A) i v, (length l <= i)%nat -> upd (l ++ r) i v = l ++ upd r (i - length l) v.
Proof.
  induction l as [|x l IH]; intros r i v H; cbn [length app] in *.
  - rewrite Nat.sub_0_r. reflexivity.
  - destruct i as [|i]; [lia|]. cbn [upd]. rewrite IH by lia. reflexivity.
Qed.

Lemma set_length : forall b s v, length (set b s v) = length b.
Proof. intros. unfold set. apply upd_length. Qed.

Lemma get_set_same : forall b s v, 0 <= s < Z.of_nat (length b) -> get (set b s v) s = v.
Proof. intros b s v H. unfold get, set. apply nth_upd_same. lia. Qed.

Lemma get_set_other : forall b s t v, 0 <= s -> 0 <= t -> s <> t -> get (set b s v) t = get b t.
Proof. intros b s t v Hs Ht H. unfold get, set. apply nth_upd_other. lia. Qed.

(* ---------- index_of ---------- *)

Lemma index_of_Some : forall k l i, index_of k l = Some i ->
  (i < length l)%nat /\ nth i l 0 = k /\ (forall j, (j < i)%nat -> nth j l 0 <> k).
Proof.
  intros k. induction l as [|x r IH]; intros i H; cbn [index_of] in H.
  - discriminate.
  - destruct (x =? k) eqn:E.
    + inversion H; subst. apply Z.eqb_eq in E. cbn [length nth].
      split; [lia|]. split; [assumption|]. intros j Hj. lia.
    + destruct (index_of k r) as [j|] eqn:Ej; cbn [option_map] in H; [|discriminate].
      inversion H; subst. destruct (IH j eq_refl) as [H1 [H2 H3]]. cbn [length nth].
      split; [lia|]. split; [assumption|].
      intros [|j'] Hj; cbn [nth].
      * apply Z.eqb_neq in E. assumption.
      * apply H3. lia.
Qed.

Lemma index_of_None : forall k l, index_of k l = None <-> ~ In k l.
Proof.
  intros k. induction l as [|x r IH]; cbn [index_of In].
  - split; [intros _ []|reflexivity].
  - destruct (x =? k) eqn:E.
    + apply Z.eqb_eq in E. split; [discriminate|]. intros H. exfalso. apply H. left. assumption.
    + apply Z.eqb_neq in E. destruct (index_of k r) as [j|]; cbn [option_map].
      * split; [discriminate|]. intros H. exfalso. destruct IH as [_ IH2].
        assert (Hn : ~ In k r) by (intro; apply H; right; assumption).
        specialize (IH2 Hn). discriminate.
      * split; [|reflexivity]. intros _ [H|H]; [contradiction|]. destruct IH as [IH1 _]. apply IH1; [reflexivity|assumption].
Qed.

Lemma index_of_In : forall k l, In k l -> exists i, index_of k l = Some i.
Proof.
  intros k l H. destruct (index_of k l) as [i|] eqn:E.
  - exists i. reflexivity.
  - apply index_of_None in E. contradiction.
Qed.

Lemma index_of_Some_In : forall k l i, index_of k l = Some i -> In k l.
Proof.
  intros k l i H. apply index_of_Some in H. destruct H as [H1 [H2 _]]. subst k. apply nth_In. assumption.
Qed.

(* ---------- replace_first ---------- *)

Lemma replace_first_length : forall l a b, length (replace_first l a b) = length l.
Proof.
  intros l a b. unfold replace_first. destruct (index_of a l); [apply upd_length|reflexivity].
Qed.

Lemma replace_first_absent : forall l a b, ~ In a l -> replace_first l a b = l.
Proof.
  intros l a b H. unfold replace_first. apply index_of_None in H. rewrite H. reflexivity.
Qed.

(* overwriting slot i: the multiset loses the old value and gains the new one *)
Lemma upd_perm : forall (l : list Z) i v, (i < length l)%nat ->
  exists l', Permutation l (nth i l 0 :: l') /\ Permutation (upd l i v) (v :: l').
Proof.
  induction l as [|x r IH]; intros [|i] v H; cbn [length upd nth] in *; try lia.
  - exists r. split; apply Permutation_refl.
  - destruct (IH i v ltac:(lia)) as [l' [P1 P2]]. exists (x :: l'). split.
    + eapply perm_trans; [apply perm_skip; exact P1|apply perm_swap].
    + eapply perm_trans; [apply perm_skip; exact P2|apply perm_swap].
Qed.

(* strengthened: NoDup is not needed *)
Lemma replace_first_perm_gen : forall l a b, In a l ->
  exists l', Permutation l (a :: l') /\ Permutation (replace_first l a b) (b :: l').
Proof.
  intros l a b Hin. destruct (index_of_In _ _ Hin) as [i Hi]. unfold replace_first. rewrite Hi.
  apply index_of_Some in Hi. destruct Hi as [H1 [H2 _]].
  destruct (upd_perm l i b H1) as [l' [P1 P2]]. rewrite H2 in P1. exists l'. split; assumption.
Qed.

Lemma replace_first_perm : forall l a b, NoDup l -> In a l ->
  exists l', Permutation l (a :: l') /\ Permutation (replace_first l a b) (b :: l').
Proof. intros l a b _ Hin. apply replace_first_perm_gen. assumption. Qed.

Lemma replace_first_In : forall l a b x, NoDup l -> In a l ->
  (In x (replace_first l a b) <-> (In x l /\ x <> a) \/ x = b).
Proof.
  intros l a b x Hnd Hin. destruct (replace_first_perm_gen l a b Hin) as [l' [P1 P2]].
  assert (Hnd' : NoDup (a :: l')) by (eapply Permutation_NoDup; eassumption).
  inversion Hnd' as [|? ? Hna _]; subst.
  assert (E1 : In x l <-> In x (a :: l')) by (split; apply Permutation_in; [|apply Permutation_sym]; assumption).
  assert (E2 : In x (replace_first l a b) <-> In x (b :: l'))
    by (split; apply Permutation_in; [|apply Permutation_sym]; assumption).
  rewrite E1, E2. cbn [In]. split.
  - intros [H|H]; [right; congruence|]. left. split; [right; assumption|]. intro; subst; contradiction.
  - intros [[[H|H] Hne]|H]; [congruence|right; assumption|left; congruence].
Qed.

Lemma replace_first_NoDup : forall l a b, NoDup l -> ~ In b l -> NoDup (replace_first l a b).
Proof.
  intros l a b Hnd Hb. destruct (in_dec Z.eq_dec a l) as [Hin|Hin].
  - destruct (replace_first_perm_gen l a b Hin) as [l' [P1 P2]].
    assert (Hnd' : NoDup (a :: l')) by (eapply Permutation_NoDup; eassumption).
    inversion Hnd' as [|? ? _ Hl']; subst.
    eapply Permutation_NoDup; [apply Permutation_sym; exact P2|]. constructor; [|assumption].
    intro H. apply Hb. eapply Permutation_in; [apply Permutation_sym; exact P1|]. right. assumption.
  - rewrite replace_first_absent by assumption. assumption.
Qed.

(* ---------- swap_remove / kill ---------- *)

Lemma last_snoc : forall (l : list Z) z d, last (l ++ [z]) d = z.
Proof. intros. apply last_last. Qed.

Lemma swap_remove_snoc_last : forall (l : list Z) z, swap_remove (l ++ [z]) (length l) = l.
Proof.
  intros l z. unfold swap_remove. rewrite last_snoc.
  rewrite upd_app_r by lia. rewrite Nat.sub_diag. cbn [upd]. apply removelast_last.
Qed.

Lemma swap_remove_snoc_inner : forall (l : list Z) z i, (i < length l)%nat -> swap_remove (l ++ [z]) i = upd l i z.
Proof.
  intros l z i H. unfold swap_remove. rewrite last_snoc.
  rewrite upd_app_l by assumption. apply removelast_last.
Qed.

Lemma snoc_cases : forall (l : list Z), l = [] \/ exists l' z, l = l' ++ [z].
Proof.
  intros l. destruct l as [|x r]; [left; reflexivity|right].
  exists (removelast (x :: r)), (last (x :: r) 0). apply app_removelast_last. discriminate.
Qed.

Lemma swap_remove_perm : forall l i, (i < length l)%nat -> Permutation (nth i l 0 :: swap_remove l i) l.
Proof.
  intros l i H. destruct (snoc_cases l) as [->|[l' [z ->]]]; [cbn [length] in H; lia|].
  rewrite app_length in H. cbn [length] in H.
  destruct (Nat.eq_dec i (length l')) as [->|Hne].
  - rewrite swap_remove_snoc_last. rewrite app_nth2 by lia. rewrite Nat.sub_diag. cbn [nth].
    apply Permutation_cons_append.
  - assert (Hi : (i < length l')%nat) by lia.
    rewrite swap_remove_snoc_inner by assumption. rewrite app_nth1 by assumption.
    destruct (upd_perm l' i z Hi) as [m [P1 P2]].
    eapply perm_trans; [apply perm_skip; exact P2|].
    eapply perm_trans; [apply perm_swap|].
    eapply perm_trans; [apply perm_skip; apply Permutation_sym; exact P1|].
    apply Permutation_cons_append.
Qed.

Lemma swap_remove_length : forall l i, (i < length l)%nat -> length (swap_remove l i) = pred (length l).
Proof.
  intros l i H. apply swap_remove_perm in H. apply Permutation_length in H. cbn [length] in H. lia.
Qed.

Lemma kill_inv : forall why l k l', kill why l k = Ok l' ->
  exists i, index_of k l = Some i /\ l' = swap_remove l i /\ (i < length l)%nat /\ nth i l 0 = k.
Proof.
  intros why l k l' H. unfold kill in H. destruct (index_of k l) as [i|] eqn:E; [|discriminate].
  inversion H; subst. exists i. apply index_of_Some in E. destruct E as [H1 [H2 _]]. repeat split; assumption.
Qed.

Lemma kill_Ok : forall why l k, In k l -> exists l', kill why l k = Ok l'.
Proof.
  intros why l k H. destruct (index_of_In _ _ H) as [i Hi]. unfold kill. rewrite Hi. eexists. reflexivity.
Qed.

Lemma kill_Panic : forall why l k, ~ In k l -> kill why l k = Panic why.
Proof.
  intros why l k H. unfold kill. apply index_of_None in H. rewrite H. reflexivity.
Qed.

Lemma kill_perm : forall why l k l', kill why l k = Ok l' -> Permutation (k :: l') l.
Proof.
  intros why l k l' H. destruct (kill_inv _ _ _ _ H) as [i [_ [-> [Hi Hn]]]].
  rewrite <- Hn. apply swap_remove_perm. assumption.
Qed.

Lemma kill_In : forall why l k l' x, NoDup l -> kill why l k = Ok l' -> (In x l' <-> In x l /\ x <> k).
Proof.
  intros why l k l' x Hnd H. apply kill_perm in H.
  assert (Hnd' : NoDup (k :: l')) by (eapply Permutation_NoDup; [apply Permutation_sym|]; eassumption).
  inversion Hnd' as [|? ? Hk _]; subst. split.
  - intros Hx. split.
    + eapply Permutation_in; [exact H|]. right. assumption.
    + intro; subst; contradiction.
  - intros [Hx Hne]. apply Permutation_sym in H. apply (Permutation_in _ H) in Hx.
    destruct Hx as [Hx|Hx]; [congruence|assumption].
Qed.

Lemma kill_NoDup : forall why l k l', NoDup l -> kill why l k = Ok l' -> NoDup l'.
Proof.
  intros why l k l' Hnd H. apply kill_perm in H.
  assert (Hnd' : NoDup (k :: l')) by (eapply Permutation_NoDup; [apply Permutation_sym|]; eassumption).
  inversion Hnd'; assumption.
Qed.

Lemma kill_length : forall why l k l', kill why l k = Ok l' -> length l = S (length l').
Proof.
  intros why l k l' H. apply kill_perm in H. apply Permutation_length in H. cbn [length] in H. lia.
Qed.

Lemma kill_In_self : forall why l k l', kill why l k = Ok l' -> In k l.
Proof.
  intros why l k l' H. apply kill_perm in H. eapply Permutation_in; [exact H|]. left. reflexivity.
Qed.

(* ---------- append_cap ---------- *)

Lemma append_cap_Ok : forall why cap l s, (length l < cap)%nat -> append_cap why cap l s = Ok (l ++ [s]).
Proof.
  intros why cap l s H. unfold append_cap. apply Nat.ltb_lt in H. rewrite H. reflexivity.
Qed.

Lemma append_cap_inv : forall why cap l s l', append_cap why cap l s = Ok l' -> l' = l ++ [s] /\ (length l < cap)%nat.
Proof.
  intros why cap l s l' H. unfold append_cap in H. destruct (length l <? cap)%nat eqn:E; [|discriminate].
  inversion H; subst. apply Nat.ltb_lt in E. split; [reflexivity|assumption].
Qed.

Lemma append_cap_Panic : forall why cap l s, (cap <= length l)%nat -> append_cap why cap l s = Panic why.
Proof.
  intros why cap l s H. unfold append_cap. apply Nat.ltb_ge in H. rewrite H. reflexivity.
Qed.

(* ---------- sums ---------- *)

Lemma fold_add_acc : forall l a, fold_left Z.add l a = a + fold_left Z.add l 0.
Proof.
  induction l as [|x r IH]; intros a; cbn [fold_left].
  - lia.
  - rewrite (IH (a + x)), (IH (0 + x)). lia.
Qed.

Lemma zsum_nil : zsum [] = 0.
Proof. reflexivity. Qed.

Lemma zsum_cons : forall x l, zsum (x :: l) = x + zsum l.
Proof.
  intros x l. unfold zsum. cbn [fold_left]. rewrite fold_add_acc. lia.
Qed.

Lemma zsum_app : forall l l', zsum (l ++ l') = zsum l + zsum l'.
Proof.
  induction l as [|x r IH]; intros l'; cbn [app].
  - rewrite zsum_nil. lia.
  - rewrite !zsum_cons, IH. lia.
Qed.

Lemma zsum_perm : forall l l', Permutation l l' -> zsum l = zsum l'.
Proof.
  intros l l' H. induction H.
  - reflexivity.
  - rewrite !zsum_cons. lia.
  - rewrite !zsum_cons. lia.
  - congruence.
Qed.

Lemma zsum_map_perm : forall (f : Z -> Z) l l', Permutation l l' -> zsum (map f l) = zsum (map f l').
Proof.
  intros f l l' H. apply zsum_perm. apply Permutation_map. assumption.
Qed.

(* ---------- valid squares ---------- *)

Lemma squares128_In : forall s, In s squares128 <-> 0 <= s < 128.
Proof.
  intros s. unfold squares128. rewrite in_map_iff. split.
  - intros [n [Hn Hi]]. apply in_seq in Hi. lia.
  - intros H. exists (Z.to_nat s). split; [lia|]. apply in_seq. lia.
Qed.

Lemma validb_In : forall s, validb s = true <-> In s valid_squares.
Proof.
  intros s. unfold valid_squares, validb. rewrite filter_In, squares128_In, !andb_true_iff. split.
  - intros [[H1 H2] H3]. split; [lia|assumption].
  - intros [H1 H2]. split; [lia|assumption].
Qed.

Lemma valid_squares_length : length valid_squares = 64%nat.
Proof. vm_compute. reflexivity. Qed.

Lemma valid_squares_NoDup : NoDup valid_squares.
Proof. apply nodupb_NoDup. vm_compute. reflexivity. Qed.

Lemma forallb_valid : forall (P : Z -> bool), forallb P valid_squares = true -> forall s, validb s = true -> P s = true.
Proof.
  intros P H s Hs. rewrite forallb_forall in H. apply H. apply validb_In. assumption.
Qed.

Lemma validb_range : forall s, validb s = true -> 0 <= s < 128 /\ onb s = true.
Proof.
  intros s H. unfold validb in H. rewrite !andb_true_iff in H. destruct H as [[H1 H2] H3].
  split; [lia|assumption].
Qed.

Print Assumptions kill_In.
Print Assumptions replace_first_In.
