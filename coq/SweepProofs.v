(* Finite facts decided by the kernel (vm_compute), lifted to universally quantified statements. *)
From Coq Require Import ZArith List Bool Lia.
Require Import Str.
Require Import Base Generated Position Attack Make Gen WF Uci ListProofs.
Import ListNotations.
Open Scope Z_scope.

Lemma validb_In1 : forall s, validb s = true -> In s valid_squares.
Proof. intros s H. apply validb_In. exact H. Qed.

(* ---------- C07: every move the engine can print parses back to the same move ---------- *)
Definition promo_opts : list (option kind) := [None; Some Knight; Some Bishop; Some Rook; Some Queen].
Definition printable_moves : list move :=
  flat_map (fun f => flat_map (fun t => map (fun pr => {| mfrom := f; mto := t; mpromo := pr; mep := INVALID |}) promo_opts) valid_squares) valid_squares.
Definition upper (c : ascii) : ascii := let n := code c in if (97 <=? n) && (n <=? 122) then ascii_of_N (Z.to_N (n - 32)) else c.
Fixpoint to_upper (s : string) : string := match s with EmptyString => EmptyString | String c r => String (upper c) (to_upper r) end.
(* upper-case promotion suffix only, as some GUIs send it *)
Definition upper_suffix (s : string) : string := (take 4 s ++ to_upper (drop 4 s))%string.
Definition parses_back (f : string -> string) (m : move) : bool :=
  match parse_move (f (move_string m)) with Some m' => move_eqb m m' | None => false end.

Lemma roundtrip_sweep : forallb (parses_back (fun s => s)) printable_moves = true.
Proof. vm_compute. reflexivity. Qed.
Lemma roundtrip_upper_suffix_sweep : forallb (parses_back upper_suffix) printable_moves = true.
Proof. vm_compute. reflexivity. Qed.
Lemma roundtrip_upper_sweep : forallb (parses_back to_upper) printable_moves = true.
Proof. vm_compute. reflexivity. Qed.
Lemma printable_count : Z.of_nat (length printable_moves) = 20480.
Proof. vm_compute. reflexivity. Qed.

Definition promo_printable (pr : option kind) : bool :=
  match pr with None | Some Knight | Some Bishop | Some Rook | Some Queen => true | _ => false end.
Lemma in_printable : forall m, validb (mfrom m) = true -> validb (mto m) = true -> promo_printable (mpromo m) = true -> mep m = INVALID ->
  In m printable_moves.
Proof.
  intros [f t pr e] Hf Ht Hp He. cbn in Hf, Ht, Hp, He. subst e.
  unfold printable_moves. apply in_flat_map. exists f. split; [apply validb_In1; exact Hf|].
  apply in_flat_map. exists t. split; [apply validb_In1; exact Ht|].
  apply in_map_iff. exists pr. split; [reflexivity|].
  unfold promo_opts. destruct pr as [[]|]; cbn in Hp; try discriminate; cbn; tauto.
Qed.

Lemma okind_eqb_eq a b : okind_eqb a b = true -> a = b.
Proof. destruct a as [[]|], b as [[]|]; cbn; congruence. Qed.
Lemma move_eqb_eq a b : move_eqb a b = true -> a = b.
Proof.
  destruct a, b. unfold move_eqb. cbn. intros H.
  apply andb_prop in H as [H H4]. apply andb_prop in H as [H H3]. apply andb_prop in H as [H1 H2].
  apply Z.eqb_eq in H1, H2, H4. apply okind_eqb_eq in H3. congruence.
Qed.

Lemma move_roundtrip (f : string -> string) : forallb (parses_back f) printable_moves = true ->
  forall m, validb (mfrom m) = true -> validb (mto m) = true -> promo_printable (mpromo m) = true -> mep m = INVALID ->
  parse_move (f (move_string m)) = Some m.
Proof.
  intros Hs m Hf Ht Hp He. rewrite forallb_forall in Hs. specialize (Hs m (in_printable m Hf Ht Hp He)).
  unfold parses_back in Hs. destruct (parse_move (f (move_string m))) as [m'|]; [|discriminate].
  apply move_eqb_eq in Hs. congruence.
Qed.

(* ---------- C15: the white and black piece-square tables are mirror images ---------- *)
Definition mirror_sq (s : Z) : Z := Z.lxor s 112.      (* s xor 0x70: rank r <-> rank 7-r *)
Definition pst_pairs : list (list Z * list Z) :=
  [(pst_pawn_w, pst_pawn_b); (pst_knight_w, pst_knight_b); (pst_bishop_w, pst_bishop_b); (pst_rook_w, pst_rook_b);
   (pst_queen_w, pst_queen_b); (pst_kingmid_w, pst_kingmid_b); (pst_kingend_w, pst_kingend_b)].
Lemma pst_mirror_sweep :
  forallb (fun '(w, b) => forallb (fun s => tabz w s =? tabz b (mirror_sq s)) valid_squares) pst_pairs = true.
Proof. vm_compute. reflexivity. Qed.
Lemma pst_mirror : forall w b s, In (w, b) pst_pairs -> validb s = true -> tabz w s = tabz b (mirror_sq s).
Proof.
  intros w b s Hin Hs. pose proof pst_mirror_sweep as H. rewrite forallb_forall in H. specialize (H _ Hin). cbn beta iota in H.
  rewrite forallb_forall in H. apply Z.eqb_eq. apply H. apply validb_In1. exact Hs.
Qed.
Lemma mirror_sq_valid : forall s, validb s = true -> validb (mirror_sq s) = true /\ mirror_sq (mirror_sq s) = s.
Proof.
  intros s Hs. assert (H : forallb (fun s => validb (mirror_sq s) && (mirror_sq (mirror_sq s) =? s)) valid_squares = true) by (vm_compute; reflexivity).
  rewrite forallb_forall in H. specialize (H s (validb_In1 s Hs)). apply andb_prop in H as [H1 H2]. apply Z.eqb_eq in H2. tauto.
Qed.
