(* Translation validation: the functions printed from the Go source (GeneratedFns.v, regenerated on every run) mean, under the
   semantics of GoLang.v, exactly what the hand-written model says.  An edit of one of these functions in engine/*.go breaks
   the corresponding proof here (and the property files that cite it). *)
From Coq Require Import ZArith List String Bool Lia ZifyBool.
Require Import Base Generated Position Attack Uci Search SearchImp GoLang GeneratedFns.
Import ListNotations.
Open Scope Z_scope.

Definition in_int64 (z : Z) : Prop := -9223372036854775808 <= z <= 9223372036854775807.
Lemma int64_id z : in_int64 z -> int64 z = z.
Proof. unfold in_int64, int64. intros H. rewrite Z.mod_small; lia. Qed.

Theorem pliesToMate_translated : forall score, in_int64 score -> -9223372036854775807 <= score ->
  run_fn fn_pliesToMate [score] [] = Ok (Returned (int64 (int64 (- LostScore) - Z.abs score))).
Proof.
  intros score H H'. unfold run_fn, fn_pliesToMate. cbn -[int64 Z.abs LostScore Z.ltb].
  destruct (score <? 0) eqn:E.
  - rewrite (int64_id (- score)) by (unfold in_int64 in *; lia). replace (Z.abs score) with (- score) by lia. reflexivity.
  - replace (Z.abs score) with score by lia. reflexivity.
Qed.

Lemma int64_int64_add a b : int64 (int64 a + b) = int64 (a + b).
Proof.
  unfold int64. f_equal.
  replace ((a + 9223372036854775808) mod 18446744073709551616 - 9223372036854775808 + b + 9223372036854775808)
    with ((a + 9223372036854775808) mod 18446744073709551616 + b) by lia.
  rewrite Z.add_mod_idemp_l by lia. f_equal. lia.
Qed.

Theorem killerSlot_translated : forall ply, -32768 <= ply <= 32767 ->
  run_fn fn_killerSlot [ply] [] = Ok (Returned (killer_slot ply)).
Proof.
  intros ply H. unfold run_fn, fn_killerSlot, killer_slot, uint16. cbn -[Z.rem Z.modulo killerMovesMaxPly].
  change (killerMovesMaxPly =? 0) with false. cbn [bind]. do 2 f_equal.
  apply Z.rem_mod_nonneg; [apply Z.mod_pos_bound; lia | unfold killerMovesMaxPly; lia].
Qed.

Theorem nextMoveWins_translated : forall score, in_int64 score ->
  run_fn fn_nextMoveWins [score] [] = Ok (Returned (b2z (next_move_wins score))).
Proof.
  intros score H. unfold run_fn, fn_nextMoveWins, next_move_wins. cbn -[int64 LostScore Z.eqb].
  replace (int64 (int64 (- LostScore) - 1)) with (- LostScore - 1) by (vm_compute; reflexivity). reflexivity.
Qed.

Theorem closeToMate_translated : forall score, in_int64 score -> -9223372036854775807 <= score ->
  run_fn fn_closeToMate [score] [] = Ok (Returned (b2z (close_to_mate score))).
Proof.
  intros score H H'. unfold run_fn, fn_closeToMate, close_to_mate. cbn -[int64 Z.abs ScoreCloseToMate Z.ltb Z.gtb].
  destruct (score <? 0) eqn:E.
  - rewrite (int64_id (- score)) by (unfold in_int64 in *; lia). replace (Z.abs score) with (- score) by lia. reflexivity.
  - replace (Z.abs score) with score by lia. reflexivity.
Qed.

Lemma quot2_bound x : -9000000000000000000 <= x <= 9000000000000000000 -> -9000000000000000000 <= x ÷ 2 <= 9000000000000000000.
Proof.
  intros H. destruct (Z_le_dec 0 x) as [P|N].
  - pose proof (Z.quot_pos x 2 P ltac:(lia)). destruct (Z.eq_dec x 0) as [->|NZ]; [cbn; lia|].
    pose proof (Z.quot_lt x 2 ltac:(lia) ltac:(lia)). lia.
  - replace x with (- (- x)) by lia. rewrite Z.quot_opp_l by lia.
    pose proof (Z.quot_pos (- x) 2 ltac:(lia) ltac:(lia)). pose proof (Z.quot_lt (- x) 2 ltac:(lia) ltac:(lia)). lia.
Qed.

Theorem fullMovesToMate_translated : forall score, -4000000000000000000 <= score <= 4000000000000000000 ->
  run_fn fn_fullMovesToMate [score] [] = Ok (Returned (full_moves_to_mate score)).
Proof.
  intros score H. unfold run_fn, fn_fullMovesToMate, full_moves_to_mate. cbn -[int64 Z.abs LostScore Z.ltb Z.quot Z.mul].
  assert (L : - LostScore = 100000) by reflexivity.
  assert (I : forall z, -9000000000000000000 <= z <= 9000000000000000000 -> int64 z = z)
    by (intros z Hz; apply int64_id; unfold in_int64; lia).
  destruct (score <? 0) eqn:E; cbn -[int64 Z.abs LostScore Z.ltb Z.quot Z.mul]; rewrite L.
  - replace (Z.abs score) with (- score) by lia.
    rewrite (I (-1)) by lia. rewrite (I 100000) by lia. rewrite (I (- score)) by lia.
    rewrite (I (100000 - - score)) by lia. rewrite (I (100000 - - score + 1)) by lia.
    rewrite (I (-1 * (100000 - - score + 1))) by lia.
    rewrite I; [reflexivity|]. apply quot2_bound. lia.
  - replace (Z.abs score) with score by lia.
    rewrite (I 100000) by lia. rewrite (I (100000 - score)) by lia. rewrite (I (100000 - score + 1)) by lia.
    rewrite (I (1 * (100000 - score + 1))) by lia.
    rewrite I; [reflexivity|]. apply quot2_bound. lia.
Qed.

(* calcEndtime: the milliseconds allotted (the variable millisForMove when the function reaches the statement that turns it
   into a time.Time, which lies outside the fragment); the side to move is the function's only input besides its parameters *)
Definition final_var (x : string) (r : result outcome) : result Z :=
  match r with
  | Ok (Stopped e _) => match lookup x e with Some v => Ok v | None => Panic P_GO_UNBOUND end
  | Ok _ => Panic P_GO_UNSUPPORTED
  | Panic w => Panic w
  end.
Theorem calcEndtime_translated : forall start black a,
  final_var "millisForMove"
    (run_fn fn_calcEndtime [start; ga_bleft a; ga_binc a; ga_wleft a; ga_winc a; ga_mtg a] [("isBlackTurn"%string, b2z black)])
  = millis_for_move (negb black) a.
Proof.
  intros start black a. unfold run_fn, fn_calcEndtime, millis_for_move.
  Local Arguments Z.eqb : simpl nomatch.
  Local Arguments Z.gtb : simpl nomatch.
  Local Arguments Z.ltb : simpl nomatch.
  Local Arguments int64 : simpl never.
  Local Arguments Z.quot : simpl never.
  Local Arguments Z.min : simpl never.
  Local Arguments Z.max : simpl never.
  Local Arguments Z.sub : simpl never.
  Local Arguments Z.add : simpl never.
  destruct black; cbn -[antiflagMillis].
  - destruct (ga_bleft a >? ga_binc a) eqn:G; cbn -[antiflagMillis].
    + destruct (ga_mtg a =? 0) eqn:Zr; cbn -[antiflagMillis]; [reflexivity|].
      rewrite int64_int64_add. reflexivity.
    + reflexivity.
  - destruct (ga_wleft a >? ga_winc a) eqn:G; cbn -[antiflagMillis].
    + destruct (ga_mtg a =? 0) eqn:Zr; cbn -[antiflagMillis]; [reflexivity|].
      rewrite int64_int64_add. reflexivity.
    + reflexivity.
Qed.

(* terminalNodeScore: mate score by the distance from the root when the side to move is in check, the draw score otherwise;
   the check test itself is the position query `isCurrentKingUnderCheck` (model: Attack.in_check, tied by C09) *)
Theorem terminalNodeScore_translated : forall position depth nodes (in_check : bool), in_int64 depth -> 0 <= depth <= 1000000 ->
  run_fn_env fn_terminalNodeScore [position; depth]
    [("position.isCurrentKingUnderCheck()"%string, b2z in_check); ("evaluatedNodes"%string, nodes)]
  = Ok (Returned (if in_check then LostScore + depth else DrawScore)).
Proof.
  intros position depth nodes ic H H'. unfold run_fn_env, fn_terminalNodeScore.
  destruct ic; cbn -[int64 LostScore DrawScore Z.add]; [|reflexivity].
  rewrite int64_id; [reflexivity|]. unfold in_int64, LostScore. lia.
Qed.

(* the engine's own helpers abs, min and max, which `call` above gives a built-in meaning when another translated function
   uses them: their source text means exactly that built-in *)
Theorem abs_translated : forall a, run_fn fn_abs [a] [] = do v <- call "abs" [a]; Ok (Returned v).
Proof. intros a. unfold run_fn, fn_abs. cbn -[int64 Z.ltb]. destruct (a <? 0); reflexivity. Qed.
Theorem min_translated : forall a b, run_fn fn_min [a; b] [] = do v <- call "min" [a; b]; Ok (Returned v).
Proof.
  intros a b. unfold run_fn, fn_min. cbn -[int64 Z.ltb Z.min].
  destruct (a <? b) eqn:E; cbn -[Z.min]; do 2 f_equal; lia.
Qed.
Theorem max_translated : forall a b, run_fn fn_max [a; b] [] = do v <- call "max" [a; b]; Ok (Returned v).
Proof.
  intros a b. unfold run_fn, fn_max. cbn -[int64 Z.gtb Z.max].
  destruct (a >? b) eqn:E; cbn -[Z.max]; do 2 f_equal; lia.
Qed.

(* moveIndex (index of the attack and direction tables): for squares that fit a byte every intermediate value lies inside
   int16, so the untyped int64 arithmetic of the fragment and Go's int16 arithmetic agree *)
Theorem moveIndex_translated : forall from to, 0 <= from <= 255 -> 0 <= to <= 255 ->
  run_fn fn_moveIndex [from; to] [] = Ok (Returned (Attack.move_index from to)).
Proof.
  intros from to Hf Ht. unfold run_fn, fn_moveIndex, Attack.move_index. cbn -[int64 Z.modulo lastValidSquare Z.add Z.sub].
  replace ((to + 32768) mod 65536 - 32768) with to by (rewrite Z.mod_small; lia).
  replace ((from + 32768) mod 65536 - 32768) with from by (rewrite Z.mod_small; lia).
  assert (L : lastValidSquare = 119) by reflexivity. rewrite L.
  rewrite (int64_id (119 + to)) by (unfold in_int64; lia). rewrite int64_id by (unfold in_int64; lia). reflexivity.
Qed.

Print Assumptions terminalNodeScore_translated.
Print Assumptions pliesToMate_translated.
Print Assumptions killerSlot_translated.
Print Assumptions nextMoveWins_translated.
Print Assumptions closeToMate_translated.
Print Assumptions fullMovesToMate_translated.
Print Assumptions calcEndtime_translated.
Print Assumptions abs_translated.
Print Assumptions min_translated.
Print Assumptions max_translated.
Print Assumptions moveIndex_translated.
