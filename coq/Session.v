(* engine/uci.go ParseInputLine and its handlers as a sequential session machine: one input line -> new state + output.
   A `go` runs the search model (SearchImp.iterate_i) to completion under the oracle streams given for that go; the
   concurrency between command thread and search thread is the subject of Protocol.v. *)
Require Import Str.
Require Import Base Generated Position Attack Make Gen Count Eval Perft Fen Uci Search SearchImp.
Open Scope Z_scope.

Inductive out :=
| OReadyOk
| ONoPositionEval                      (* "No position set to evaluate" *)
| OEval (v : Z)                        (* debug line + the value *)
| OInvalidFen
| OInvalidMove                         (* "Invalid position command: ..." *)
| OUciInfo                             (* id name / id author / option / uciok *)
| ONoPositionGo                        (* "No position set to start search from" *)
| OSearch (evs : list event)           (* everything the search printed, oldest first *)
| OInvalidDepth                        (* "Invalid depth:  <arg>" *)
| ONoPositionPerft
| OPerft (rows : list (move * Z)) (total : Z)
| OTPerft (rows : list (move * Z)) (total : Z)
| OTostr
| OHelp.

Record sess := { s_pos : option pos; s_search : bool; s_log : Z; s_quit : bool; s_killers : killer_table }.
Definition sess0 : sess := {| s_pos := None; s_search := false; s_log := currmoveLogIntervalDefault; s_quit := false; s_killers := no_killers |}.

(* what the environment decides during one search *)
Record env := { e_polls : list bool; e_clock : list bool; e_pvclock : list bool }.
Definition quiet_env : env := {| e_polls := []; e_clock := []; e_pvclock := [] |}.

Definition with_pos s p k := {| s_pos := p; s_search := s_search s; s_log := s_log s; s_quit := s_quit s; s_killers := k |}.
Definition with_search s := {| s_pos := s_pos s; s_search := true; s_log := s_log s; s_quit := s_quit s; s_killers := s_killers s |}.
Definition with_log s v := {| s_pos := s_pos s; s_search := s_search s; s_log := v; s_quit := s_quit s; s_killers := s_killers s |}.
Definition with_quit s := {| s_pos := s_pos s; s_search := s_search s; s_log := s_log s; s_quit := true; s_killers := s_killers s |}.
Definition with_killers s k := {| s_pos := s_pos s; s_search := s_search s; s_log := s_log s; s_quit := s_quit s; s_killers := k |}.

Section Session.
(* the search started by `go`: log interval, target depth, initial search state -> final search state.
   Instantiated with SearchImp.iterate_i (for an ordering) in the theorems; the correspondence oracle uses a depth-1 stub. *)
Variable run_search : Z -> nat -> sst -> result sst.

(* doPosition: on success the killer table is cleared; a rejected FEN leaves everything as it was; a bad move text stops
   the replay where it is (precondition of UCI: move lists are legal, so this is outside the properties) *)
Definition do_position_cmd (s : sess) (arg : string) : result (sess * list out) :=
  do r <- do_position arg;
  match r with
  | PosSet p => Ok (with_pos s (Some p) no_killers, [])
  | PosInvalidFen => Ok (s, [OInvalidFen])
  | PosInvalidMove (Some p) => Ok (with_pos s (Some p) (s_killers s), [OInvalidMove])
  | PosInvalidMove None => Ok (s, [OInvalidMove])
  end.

(* doGo; the deadline itself is not part of the sequential semantics (it is what the clock oracle abstracts) but it is
   computed, so a panic in its computation is a panic of the command *)
Definition do_go_cmd (s : sess) (e : env) (arg : string) : result (sess * list out) :=
  match s_pos s with
  | None => Ok (s, [ONoPositionGo])
  | Some p =>
      let s1 := with_search s in
      match parse_go (split_on " "%char arg) go_defaults with
      | None => Ok (s1, [])
      | Some a =>
          do _ns <- allotted_ns (wturn p) a;
          do stf <- run_search (s_log s) (Z.to_nat (ga_depth a)) (sst0 p (s_killers s) (e_polls e) (e_clock e) (e_pvclock e));
          Ok (with_killers s1 (st_killers stf), [OSearch (rev (st_out stf))])
      end
  end.

Definition do_setoption_cmd (s : sess) (arg : string) : sess :=
  match split_on " "%char arg with
  | [t0; t1; t2; t3] =>
      if str_eqb t0 "name" && str_eqb t2 "value" && str_eqb t1 "currmoveLogInterval" then
        match atoi t3 with
        | Some v => if (currmoveLogIntervalMin <=? v) && (v <=? currmoveLogIntervalMax) then with_log s v else s
        | None => s end
      else s
  | _ => s
  end.

Definition do_perft_cmd (tactical_ : bool) (s : sess) (arg : string) : result (list out) :=
  match atoi arg with
  | None => Ok [OInvalidDepth]
  | Some d =>
      if (d <=? 0) || (plyBufferCapacity <=? d) then Ok [OInvalidDepth] else
      match s_pos s with
      | None => Ok [ONoPositionPerft]
      | Some p =>
          if tactical_ then do r <- tperft_divide (Z.to_nat d) p; Ok [OTPerft (fst r) (snd r)]
          else do r <- perft_divide (Z.to_nat d) p; Ok [OPerft (fst r) (snd r)]
      end
  end.

(* ParseInputLine: the dispatch order matters (prefix tests) *)
Definition handle (s : sess) (e : env) (line : string) : result (sess * list out) :=
  if str_eqb line "isready" then Ok (with_search s, [OReadyOk])
  else if str_eqb line "eval" then
    match s_pos s with None => Ok (s, [ONoPositionEval]) | Some p => Ok (s, [OEval (evaluate p 0)]) end
  else if str_eqb line "quit" then Ok (with_quit s, [])
  else if has_prefix line "position" then do_position_cmd s (trim_space (trim_prefix line "position"))
  else if str_eqb line "uci" then Ok (s, [OUciInfo])
  else if has_prefix line "go" then do_go_cmd s e (trim_space (trim_prefix line "go"))
  else if str_eqb line "stop" then Ok (s, [])        (* no search is running between two lines of the sequential session *)
  else if has_prefix line "setoption" then Ok (do_setoption_cmd s (trim_space (trim_prefix line "setoption")), [])
  else if str_eqb line "tostr" then Ok (s, [OTostr])
  else if has_prefix line "perft" then do o <- do_perft_cmd false s (trim_space (trim_prefix line "perft")); Ok (s, o)
  else if has_prefix line "tperft" then do o <- do_perft_cmd true s (trim_space (trim_prefix line "tperft")); Ok (s, o)
  else if str_eqb line "help" then Ok (s, [OHelp])
  else Ok (s, []).

(* a whole script: each line with the environment of the search it may start *)
Fixpoint run (s : sess) (script : list (string * env)) : result (sess * list (list out)) :=
  match script with
  | [] => Ok (s, [])
  | (l, e) :: rest =>
      do r <- handle s e l;
      if s_quit (fst r) then Ok (fst r, [snd r]) else
      do r2 <- run (fst r) rest; Ok (fst r2, snd r :: snd r2)
  end.
End Session.

(* main.go: for !Quit { if !scanner.Scan() { break }; ParseInputLine(scanner.Text()) } -- as a loop with explicit
   iteration count, so that "the loop ends" is a statement and not a consequence of structural recursion *)
Inductive loop_end := Exited (s : sess) | StillRunning (s : sess) | Crashed (w : Z).
Fixpoint main_loop (run_search : Z -> nat -> sst -> result sst)
                   (iterations : nat) (s : sess) (input : list (string * env)) : loop_end :=
  match iterations with
  | O => StillRunning s
  | S n =>
      if s_quit s then Exited s else
      match input with
      | [] => Exited s                                 (* Scan() = false: end of input *)
      | (l, e) :: rest => match handle run_search s e l with
                          | Ok (s', _) => main_loop run_search n s' rest
                          | Panic w => Crashed w end
      end
  end.

(* the engine's own instantiation: iterative deepening under some ordering *)
Definition engine_search (order : killer_table -> list move -> Z -> pos -> list rmove -> list rmove) : Z -> nat -> sst -> result sst :=
  fun log depth st => iterate_i order log depth st.
(* stub for the correspondence oracle: the depth-1 iteration only (enough to classify the answer: a move or none) *)
Definition stub_search : Z -> nat -> sst -> result sst := fun log depth st => iterate_i plain_order log 1 st.
