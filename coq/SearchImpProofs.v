(* Properties of the search state machine SearchImp.v, for ALL oracle streams (stop polls, deadline clock, pv clock),
   all killer tables, all log intervals and all move orderings (that are permutations, where this matters):
     1. stack discipline (C16): every node and every iteration leaves the position stack as it found it;
     2. legal lines (C10): every line returned by a node and every line / currmove printed is legal from the node / root;
     3. bestmove (C03, C10, C11): exactly one bestmove, it is the last output, it is the head of the line reported just
        before it, and that line is the line of the newest completed iteration (never of an interrupted one).
   gen_legal / gen_tactical / make_legal / count_moves / psq_score are never unfolded.  No axioms. *)
From Coq Require Import ZArith List Bool Lia Permutation ZifyBool.
Require Import Base Generated Position Attack Make Gen Count Eval Search SearchImp.
Open Scope Z_scope.

(* ---------- the panic monad ---------- *)
Lemma bind_ok {A B} (r : result A) (f : A -> result B) x : bind r f = Ok x -> exists y, r = Ok y /\ f y = Ok x.
Proof. destruct r; cbn; intros H; [eauto | discriminate]. Qed.

Ltac sst_simpl :=
  cbn [st_stack st_nodes st_intr st_killers st_polls st_clock st_pvclock st_first st_root_moves st_out
       set_stack set_nodes set_intr set_killers set_first emit pop replace_top ist iv iline ir fst snd].
Ltac sst_simpl_in H :=
  cbn [st_stack st_nodes st_intr st_killers st_polls st_clock st_pvclock st_first st_root_moves st_out
       set_stack set_nodes set_intr set_killers set_first emit pop replace_top ist iv iline ir fst snd] in H.

(* ---------- positions and the stack ---------- *)
Lemma flip_turn_invol p : flip_turn (flip_turn p) = p.
Proof. destruct p; unfold flip_turn; cbn. rewrite negb_involutive. reflexivity. Qed.

Lemma top_app st l p : st_stack st = l ++ [p] -> top st = Ok p.
Proof. unfold top. intros ->. rewrite rev_app_distr. reflexivity. Qed.

Lemma top_inv st p : top st = Ok p -> st_stack st = removelast (st_stack st) ++ [p].
Proof.
  unfold top. destruct (rev (st_stack st)) as [|q l] eqn:E; [discriminate|]. intros H; inversion H; subst q.
  assert (S : st_stack st = rev l ++ [p]).
  { rewrite <- (rev_involutive (st_stack st)). rewrite E. reflexivity. }
  rewrite S at 2. rewrite removelast_last. exact S.
Qed.

Lemma top_stack_eq a b : st_stack a = st_stack b -> top a = top b.
Proof. unfold top. intros ->. reflexivity. Qed.

Lemma top_replace_top st q : top (replace_top st q) = Ok q.
Proof. apply top_app with (l := removelast (st_stack st)). reflexivity. Qed.

(* [same a b]: b differs from a at most in the counters, flags, killers and oracle streams *)
Definition same (a b : sst) : Prop :=
  st_stack b = st_stack a /\ st_first b = st_first a /\ st_root_moves b = st_root_moves a /\ st_out b = st_out a.

Lemma same_refl a : same a a.
Proof. repeat split. Qed.
Lemma same_trans a b c : same a b -> same b c -> same a c.
Proof. unfold same. intros (A1 & A2 & A3 & A4) (B1 & B2 & B3 & B4). repeat split; congruence. Qed.
Lemma same_time a : same a (snd (time_up a)).
Proof. unfold time_up. destruct (st_clock a); repeat split. Qed.
Lemma same_pv a : same a (snd (pv_print_due a)).
Proof. unfold pv_print_due. destruct (st_pvclock a); repeat split. Qed.
Lemma same_poll a : same a (poll a).
Proof. unfold poll. destruct (st_polls a); repeat split. Qed.
Lemma same_set_nodes a n : same a (set_nodes a n).
Proof. repeat split. Qed.
Lemma same_set_intr a b : same a (set_intr a b).
Proof. repeat split. Qed.
Lemma same_set_killers a k : same a (set_killers a k).
Proof. repeat split. Qed.
Lemma same_stack a b : same a b -> st_stack b = st_stack a.
Proof. intros H; apply H. Qed.
Lemma same_top a b : same a b -> top b = top a.
Proof. intros H. apply top_stack_eq, H. Qed.

Lemma time_up_snd a up b : time_up a = (up, b) -> same a b.
Proof. intros H. replace b with (snd (time_up a)) by (rewrite H; reflexivity). apply same_time. Qed.
Lemma pv_due_snd a due b : pv_print_due a = (due, b) -> same a b.
Proof. intros H. replace b with (snd (pv_print_due a)) by (rewrite H; reflexivity). apply same_pv. Qed.

Lemma push_inv st m stp : push st m = Ok stp ->
  exists p p', top st = Ok p /\ make_legal p m = Ok p' /\ stp = set_stack st (st_stack st ++ [p']).
Proof.
  unfold push. destruct (plyBufferCapacity <=? ply_idx st + 1); [discriminate|]. intros H.
  apply bind_ok in H as (p & T & H). apply bind_ok in H as (p' & M & H). inversion H. eauto.
Qed.

(* what a push / search the child / pop round trip does to the stack *)
Lemma push_pop_stack st m stp s : push st m = Ok stp -> st_stack s = st_stack stp -> st_stack (pop s) = st_stack st.
Proof.
  intros P S. apply push_inv in P as (p & p' & _ & _ & ->). sst_simpl. rewrite S. sst_simpl. apply removelast_last.
Qed.

Lemma ok_pair_inj {A B} (a c : A) (b d : B) : Ok (a, b) = Ok (c, d) -> a = c /\ b = d.
Proof. intros H; inversion H; auto. Qed.

(* evaluation flips the turn flag of the top slot and flips it back *)
Lemma lazy_eval_st_same st depth a b v st1 : lazy_eval_st st depth a b = Ok (v, st1) -> same st st1.
Proof.
  unfold lazy_eval_st. intros H. apply bind_ok in H as (p & T & H).
  destruct (is_checkmate p); [apply ok_pair_inj in H as [_ <-]; apply same_set_nodes|].
  destruct ((psq_score p >? b + fullEvalScoreMargin) || (psq_score p <? a - fullEvalScoreMargin));
    [apply ok_pair_inj in H as [_ <-]; apply same_set_nodes|].
  destruct (count_moves p * MobilityScoreFactor =? 0); [apply ok_pair_inj in H as [_ <-]; apply same_set_nodes|].
  rewrite top_replace_top in H. cbn [bind] in H.
  apply ok_pair_inj in H as [_ <-].
  unfold same. sst_simpl. repeat split.
  rewrite removelast_last, flip_turn_invol. symmetry. apply top_inv. exact T.
Qed.

Lemma terminal_score_st_inv st depth r : terminal_score_st st depth = Ok r -> snd r = set_nodes st (st_nodes st + 1).
Proof. unfold terminal_score_st. intros H. apply bind_ok in H as (p & _ & H). inversion H. reflexivity. Qed.

(* ---------- the inner loops as named fixpoints ---------- *)
Section QLoop.
Variable child : sst -> Z -> Z -> result ires.
Variable beta : Z.

Fixpoint q_loop (ms : list rmove) (alpha : Z) (line : option (list move)) (st : sst) : result ires :=
  match ms with
  | [] => Ok (ir alpha line st)
  | m :: r =>
      do stp <- push st (rm m);
      do c <- child stp (- beta) (- alpha);
      let st' := poll (pop (ist c)) in
      let s := - iv c in
      let '(up, st'') := if st_intr st' then (true, st') else time_up st' in
      if up then Ok (ir alpha line st'')
      else if s >=? beta then Ok (ir beta line st'')
      else if s >? alpha then do l <- extend (rm m) (iline c); q_loop r s l st''
      else q_loop r alpha line st''
  end.

Lemma q_loop_cons m l alpha line st r :
  q_loop (m :: l) alpha line st = Ok r ->
  exists stp c st'', push st (rm m) = Ok stp /\ child stp (- beta) (- alpha) = Ok c /\ same (pop (ist c)) st'' /\
    (r = ir alpha line st'' \/ r = ir beta line st'' \/
     (exists cl, iline c = Some cl /\ q_loop l (- iv c) (Some (rm m :: cl)) st'' = Ok r) \/
     q_loop l alpha line st'' = Ok r).
Proof.
  cbn [q_loop]. intros H.
  apply bind_ok in H as (stp & H1 & H). apply bind_ok in H as (c & H2 & H). cbv zeta in H.
  exists stp, c.
  destruct (st_intr (poll (pop (ist c)))) eqn:EI.
  - exists (poll (pop (ist c))). cbv beta iota in H. inversion H. repeat split; auto using same_refl; apply same_poll.
  - destruct (time_up (poll (pop (ist c)))) as [up st''] eqn:T. exists st''.
    split; [assumption|]. split; [assumption|].
    split; [eapply same_trans; [apply same_poll | eapply time_up_snd; eassumption]|].
    destruct up.
    + left. inversion H; reflexivity.
    + destruct (- iv c >=? beta).
      * right; left. inversion H; reflexivity.
      * destruct (- iv c >? alpha).
        -- right; right; left. apply bind_ok in H as (ln & E & H). unfold extend in E.
           destruct (iline c) as [cl|]; [|discriminate]. inversion E; subst ln. eauto.
        -- right; right; right. exact H.
Qed.
End QLoop.

Section ABLoop.
Variable child : sst -> Z -> Z -> result ires.
Variable beta : Z.
Variable plyp : Z.

Fixpoint ab_loop_i (ms : list rmove) (alpha : Z) (line : option (list move)) (st : sst) : result ires :=
  match ms with
  | [] => Ok (ir alpha line st)
  | m :: r =>
      if st_intr st then Ok (ir alpha line st) else
      do stp <- push st (rm m);
      do c <- child stp (- beta) (- alpha);
      let st' := pop (ist c) in
      let s := - iv c in
      if s >=? beta then
        Ok (ir beta line (if tactical m then st' else set_killers st' (update_killers (st_killers st') plyp (rm m))))
      else
        do al <- (if s >? alpha then do l <- extend (rm m) (iline c); Ok (s, l) else Ok (alpha, line));
        let '(alpha', line') := al in
        let '(up, st'') := if st_intr st' then (true, st') else time_up st' in
        if up then Ok (ir alpha' line' st'')
        else ab_loop_i r alpha' line' (poll st'')
  end.

Lemma ab_loop_i_cons m l alpha line st r :
  ab_loop_i (m :: l) alpha line st = Ok r ->
  (st_intr st = true /\ r = ir alpha line st) \/
  (st_intr st = false /\ exists stp c, push st (rm m) = Ok stp /\ child stp (- beta) (- alpha) = Ok c /\
    ((exists st2, same (pop (ist c)) st2 /\ r = ir beta line st2) \/
     (exists alpha' line' st'',
        (line' = line \/ exists cl, iline c = Some cl /\ line' = Some (rm m :: cl)) /\ same (pop (ist c)) st'' /\
        (r = ir alpha' line' st'' \/ ab_loop_i l alpha' line' (poll st'') = Ok r)))).
Proof.
  cbn [ab_loop_i]. intros H.
  destruct (st_intr st) eqn:EI0; [left; inversion H; auto|]. right. split; [reflexivity|].
  apply bind_ok in H as (stp & H1 & H). apply bind_ok in H as (c & H2 & H). cbv zeta in H.
  exists stp, c. split; [assumption|]. split; [assumption|].
  destruct (- iv c >=? beta).
  - left. inversion H. destruct (tactical m); eexists; (split; [|reflexivity]); [apply same_refl | apply same_set_killers].
  - right. apply bind_ok in H as (al & A & H). destruct al as [alpha' line'].
    assert (L : line' = line \/ exists cl, iline c = Some cl /\ line' = Some (rm m :: cl)).
    { destruct (- iv c >? alpha).
      - apply bind_ok in A as (ln & E & A). unfold extend in E. destruct (iline c) as [cl|]; [|discriminate].
        inversion E; subst ln. inversion A; subst. right; eauto.
      - inversion A; subst. left; reflexivity. }
    exists alpha', line'.
    destruct (st_intr (pop (ist c))) eqn:EI.
    + exists (pop (ist c)). cbv beta iota in H. inversion H. split; [assumption|]. split; [apply same_refl|]. left; reflexivity.
    + destruct (time_up (pop (ist c))) as [up st''] eqn:T. exists st''.
      split; [assumption|]. split; [eapply time_up_snd; eassumption|].
      destruct up; [left; inversion H; reflexivity | right; exact H].
Qed.
End ABLoop.

Section RootLoop.
Variable child : sst -> Z -> result ires.
Variable target : nat.
Variable sorted : list rmove.

Fixpoint root_loop_i (ms : list rmove) (idx : Z) (alpha : Z) (line : option (list move)) (st : sst) : result ires :=
  match ms with
  | [] => Ok (ir alpha line (set_first st idx sorted))
  | m :: r =>
      let st := set_first st idx sorted in
      if st_intr st then Ok (ir alpha line st) else
      do stp <- push st (rm m);
      do c <- child stp (- alpha);
      let st' := pop (ist c) in
      let s := - iv c in
      do al <- (if s >? alpha then
                  do l <- extend (rm m) (iline c);
                  let '(due, st2) := pv_print_due st' in
                  match l with
                  | Some pv => Ok (s, l, if due then emit st2 (EvInfoScore s (Z.of_nat target) (st_nodes st2) pv) else st2)
                  | None => Panic P_STALE_PV end
                else Ok (alpha, line, st'));
      let '(alpha', line', st1) := al in
      let '(up, st'') := if st_intr st1 then (true, st1) else time_up st1 in
      if up then Ok (ir alpha' line' st'')
      else if next_move_wins s then Ok (ir alpha' line' st'')
      else root_loop_i r (idx + 1) alpha' line' (poll st'')
  end.

Lemma root_loop_i_cons m l idx alpha line st r :
  root_loop_i (m :: l) idx alpha line st = Ok r ->
  let st0 := set_first st idx sorted in
  (st_intr st = true /\ r = ir alpha line st0) \/
  (st_intr st = false /\ exists stp c alpha' line' st1 st'',
     push st0 (rm m) = Ok stp /\ child stp (- alpha) = Ok c /\
     ((- iv c <= alpha /\ alpha' = alpha /\ line' = line /\ st1 = pop (ist c)) \/
      (- iv c > alpha /\ exists cl st2, iline c = Some cl /\ alpha' = - iv c /\ line' = Some (rm m :: cl) /\ same (pop (ist c)) st2 /\
         (st1 = st2 \/ st1 = emit st2 (EvInfoScore (- iv c) (Z.of_nat target) (st_nodes st2) (rm m :: cl))))) /\
     same st1 st'' /\
     (r = ir alpha' line' st'' \/ root_loop_i l (idx + 1) alpha' line' (poll st'') = Ok r)).
Proof.
  cbn [root_loop_i]. cbv zeta. intros H.
  change (st_intr (set_first st idx sorted)) with (st_intr st) in H.
  destruct (st_intr st) eqn:EI0; [left; inversion H; auto|]. right. split; [reflexivity|].
  apply bind_ok in H as (stp & H1 & H). apply bind_ok in H as (c & H2 & H).
  apply bind_ok in H as (al & A & H). destruct al as [[alpha' line'] st1].
  exists stp, c, alpha', line', st1.
  assert (L : (- iv c <= alpha /\ alpha' = alpha /\ line' = line /\ st1 = pop (ist c)) \/
      (- iv c > alpha /\ exists cl st2, iline c = Some cl /\ alpha' = - iv c /\ line' = Some (rm m :: cl) /\ same (pop (ist c)) st2 /\
         (st1 = st2 \/ st1 = emit st2 (EvInfoScore (- iv c) (Z.of_nat target) (st_nodes st2) (rm m :: cl))))).
  { destruct (- iv c >? alpha) eqn:EG.
    - right. split; [lia|]. apply bind_ok in A as (ln & E & A). unfold extend in E.
      destruct (iline c) as [cl|]; [|discriminate]. inversion E; subst ln. clear E.
      destruct (pv_print_due (pop (ist c))) as [due st2] eqn:D.
      exists cl, st2. inversion A; subst. split; [reflexivity|]. split; [reflexivity|]. split; [reflexivity|].
      split; [eapply pv_due_snd; eassumption|]. destruct due; auto.
    - left. inversion A; subst. repeat split. lia. }
  clear A.
  destruct (st_intr st1) eqn:EI.
  - exists st1. cbv beta iota in H. inversion H. repeat split; auto.
  - destruct (time_up st1) as [up st''] eqn:T. exists st''.
    split; [assumption|]. split; [assumption|]. split; [assumption|]. split; [eapply time_up_snd; eassumption|].
    destruct up; [left; inversion H; reflexivity|].
    destruct (next_move_wins (- iv c)); [left; inversion H; reflexivity | right; exact H].
Qed.
End RootLoop.

(* ---------- the nodes in terms of the named loops ---------- *)
Section Nodes.
Variable order : killer_table -> list move -> Z -> pos -> list rmove -> list rmove.
Variable log_interval : Z.

Notation quiesce_i := (quiesce_i order log_interval).
Notation alpha_beta_i := (alpha_beta_i order log_interval).
Notation root_search_i := (root_search_i order log_interval).
Notation iterate_i := (iterate_i order log_interval).

(* the currmove log line of quiescence *)
Definition currmove_step (st1 st2 : sst) : Prop :=
  st2 = st1 \/ exists rmv, nth_error (st_root_moves st1) (Z.to_nat (st_first st1)) = Some rmv /\
                           st2 = emit st1 (EvCurrMove (rm rmv) (st_first st1 + 1) (st_nodes st1)).

Lemma quiesce_i_eq f cand st a b depth :
  quiesce_i (S f) cand st a b depth =
    if negb (row_ok depth) then Panic P_PV_ROW else
    do r <- lazy_eval_st st depth a b;
    let '(score, st1) := r in
    do st2 <- (if log_interval =? 0 then Panic P_DIV_ZERO else
               if st_nodes st1 mod log_interval =? 0 then
                 match nth_error (st_root_moves st1) (Z.to_nat (st_first st1)) with
                 | Some rmv => Ok (emit st1 (EvCurrMove (rm rmv) (st_first st1 + 1) (st_nodes st1)))
                 | None => Panic P_TOKEN_INDEX
                 end
               else Ok st1);
    if score >=? b then Ok (ir b None st2) else
    let '(alpha1, line1) := if score >? a then (score, Some []) else (a, None) in
    do p <- top st2;
    do tms <- gen_tactical p;
    q_loop (fun stp x y => quiesce_i f cand stp x y (depth + 1)) b (order (st_killers st2) cand depth p tms) alpha1 line1 st2.
Proof. reflexivity. Qed.

Lemma quiesce_i_inv f cand st a b depth r :
  quiesce_i (S f) cand st a b depth = Ok r ->
  exists score st1 st2, lazy_eval_st st depth a b = Ok (score, st1) /\ currmove_step st1 st2 /\
    (r = ir b None st2 \/
     exists alpha1 line1 p tms, (line1 = None \/ line1 = Some []) /\ top st2 = Ok p /\ gen_tactical p = Ok tms /\
       q_loop (fun stp x y => quiesce_i f cand stp x y (depth + 1)) b (order (st_killers st2) cand depth p tms) alpha1 line1 st2 = Ok r).
Proof.
  rewrite quiesce_i_eq. intros H.
  destruct (negb (row_ok depth)); [discriminate|].
  apply bind_ok in H as ([score st1] & L & H). apply bind_ok in H as (st2 & C & H).
  exists score, st1, st2. split; [assumption|]. split.
  - destruct (log_interval =? 0); [discriminate|].
    destruct (st_nodes st1 mod log_interval =? 0).
    + destruct (nth_error (st_root_moves st1) (Z.to_nat (st_first st1))) as [rmv|] eqn:N; [|discriminate].
      inversion C. right. eauto.
    + inversion C. left; reflexivity.
  - destruct (score >=? b); [left; inversion H; reflexivity|]. right.
    destruct (score >? a); cbv beta iota in H;
      apply bind_ok in H as (p & T & H); apply bind_ok in H as (tms & G & H); do 4 eexists; eauto.
Qed.

Lemma alpha_beta_i_0 cand st a b depth r :
  alpha_beta_i 0 cand st a b depth = Ok r -> quiesce_i qfuel cand st a b depth = Ok r.
Proof. cbn [SearchImp.alpha_beta_i]. destruct (negb (row_ok depth)); [discriminate | auto]. Qed.

Lemma alpha_beta_i_eq k cand st a b depth :
  alpha_beta_i (S k) cand st a b depth =
    if negb (row_ok depth) then Panic P_PV_ROW else
    do p <- top st;
    do ms <- gen_legal p;
    match ms with
    | [] => do r <- terminal_score_st st depth; Ok (ir (fst r) (Some []) (snd r))
    | _ => ab_loop_i (fun stp x y => alpha_beta_i k cand stp x y (depth + 1)) b (ply p) (order (st_killers st) cand depth p ms) a None st
    end.
Proof. reflexivity. Qed.

Lemma alpha_beta_i_inv k cand st a b depth r :
  alpha_beta_i (S k) cand st a b depth = Ok r ->
  exists p ms, top st = Ok p /\ gen_legal p = Ok ms /\
    ((ms = [] /\ exists v, r = ir v (Some []) (set_nodes st (st_nodes st + 1))) \/
     (ms <> [] /\ ab_loop_i (fun stp x y => alpha_beta_i k cand stp x y (depth + 1)) b (ply p)
                   (order (st_killers st) cand depth p ms) a None st = Ok r)).
Proof.
  rewrite alpha_beta_i_eq. intros H. destruct (negb (row_ok depth)); [discriminate|].
  apply bind_ok in H as (p & T & H). apply bind_ok in H as (ms & G & H).
  exists p, ms. split; [assumption|]. split; [assumption|].
  destruct ms as [|m0 r0].
  - left. split; [reflexivity|]. apply bind_ok in H as (t & E & H). apply terminal_score_st_inv in E.
    inversion H. rewrite E. eauto.
  - right. split; [discriminate | exact H].
Qed.

Lemma root_search_i_eq t cand st :
  root_search_i t cand st =
    if negb (row_ok 0) then Panic P_PV_ROW else
    do p <- top st;
    do ms <- gen_legal p;
    match ms with
    | [] => do r <- terminal_score_st st 0; Ok (ir (fst r) (Some []) (snd r), false)
    | _ => do r <- root_loop_i (fun stp nb => alpha_beta_i (pred t) cand stp (- InfinityScore) nb 1) t
                     (order (st_killers st) cand 0 p ms) (order (st_killers st) cand 0 p ms) 0 (- InfinityScore) None st;
           Ok (r, (length ms =? 1)%nat)
    end.
Proof. reflexivity. Qed.

Lemma root_search_i_inv t cand st r one :
  root_search_i t cand st = Ok (r, one) ->
  exists p ms, top st = Ok p /\ gen_legal p = Ok ms /\ one = (length ms =? 1)%nat /\
    ((ms = [] /\ exists v, r = ir v (Some []) (set_nodes st (st_nodes st + 1))) \/
     (ms <> [] /\ root_loop_i (fun stp nb => alpha_beta_i (pred t) cand stp (- InfinityScore) nb 1) t
                   (order (st_killers st) cand 0 p ms) (order (st_killers st) cand 0 p ms) 0 (- InfinityScore) None st = Ok r)).
Proof.
  rewrite root_search_i_eq. intros H. destruct (negb (row_ok 0)); [discriminate|].
  apply bind_ok in H as (p & T & H). apply bind_ok in H as (ms & G & H).
  exists p, ms. split; [assumption|]. split; [assumption|].
  destruct ms as [|m0 r0].
  - apply bind_ok in H as (t' & E & H). apply terminal_score_st_inv in E. inversion H. split; [reflexivity|].
    left. split; [reflexivity|]. rewrite E. eauto.
  - apply bind_ok in H as (r' & L & H). inversion H; subst. split; [reflexivity|].
    right. split; [discriminate | exact L].
Qed.


(* the deepening loop of StartIterativeDeepening *)
Definition deepen_i (max_depth : nat) :=
  fix deepen (fuel d : nat) (score done_ : Z) (best : list move) (st : sst) {struct fuel} : result (Z * Z * list move * sst) :=
  match fuel with O => Ok (score, done_, best, st) | S f =>
    if (max_depth <? d)%nat then Ok (score, done_, best, st) else
    do r <- root_search_i d best st;
    let '(s, one') := r in
    let '(up, st') := time_up (ist s) in
    if up then Ok (score, done_, best, st') else
    if st_intr st' then Ok (score, done_, best, st') else
    match iline s with
    | None => Panic P_STALE_PV
    | Some [] => Panic P_EMPTY_LINE
    | Some pv =>
        let st'' := emit st' (EvInfoDepth (Z.of_nat d) (iv s) (st_nodes st') pv) in
        if (plies_to_mate (iv s) =? Z.of_nat d) || one' then Ok (iv s, Z.of_nat d, pv, st'')
        else deepen f (S d) (iv s) (Z.of_nat d) pv st''
    end
  end.

Lemma deepen_i_S max_depth f d score done_ best st :
  deepen_i max_depth (S f) d score done_ best st =
    if (max_depth <? d)%nat then Ok (score, done_, best, st) else
    do r <- root_search_i d best st;
    let '(s, one') := r in
    let '(up, st') := time_up (ist s) in
    if up then Ok (score, done_, best, st') else
    if st_intr st' then Ok (score, done_, best, st') else
    match iline s with
    | None => Panic P_STALE_PV
    | Some [] => Panic P_EMPTY_LINE
    | Some pv =>
        let st'' := emit st' (EvInfoDepth (Z.of_nat d) (iv s) (st_nodes st') pv) in
        if (plies_to_mate (iv s) =? Z.of_nat d) || one' then Ok (iv s, Z.of_nat d, pv, st'')
        else deepen_i max_depth f (S d) (iv s) (Z.of_nat d) pv st''
    end.
Proof. reflexivity. Qed.
Lemma deepen_i_O max_depth d score done_ best st : deepen_i max_depth 0 d score done_ best st = Ok (score, done_, best, st).
Proof. reflexivity. Qed.

Lemma iterate_i_eq max_depth st0 :
  iterate_i max_depth st0 =
    let st := set_nodes (set_intr st0 false) 0 in
    do r1 <- root_search_i 1 [] st;
    let '(s1, one) := r1 in
    match iline s1 with
    | None => Panic P_STALE_PV
    | Some best1 =>
      let terminal := match best1 with [] => true | _ => false end in
      let '(up1, st1) := time_up (ist s1) in
      do fin <- (if up1 || st_intr st1 || one || terminal then Ok (iv s1, 1, best1, st1)
                 else deepen_i max_depth max_depth 2%nat (iv s1) 1 best1 st1);
      let '(score, done_, best, stf) := fin in
      match best with
      | [] => Ok (emit stf EvBestMoveNone)
      | b :: _ => Ok (emit (emit stf (EvInfoScore score done_ (st_nodes stf) best)) (EvBestMove b))
      end
    end.
Proof. reflexivity. Qed.

(* one step of the deepening loop *)
Lemma deepen_i_cons max_depth f d score done_ best st res :
  deepen_i max_depth (S f) d score done_ best st = Ok res ->
  res = (score, done_, best, st) \/
  exists s one' up st', root_search_i d best st = Ok (s, one') /\ time_up (ist s) = (up, st') /\
    ((res = (score, done_, best, st') /\ (up = true \/ st_intr st' = true)) \/
     (up = false /\ st_intr st' = false /\ exists m l, iline s = Some (m :: l) /\
        let st'' := emit st' (EvInfoDepth (Z.of_nat d) (iv s) (st_nodes st') (m :: l)) in
        (res = (iv s, Z.of_nat d, m :: l, st'') \/ deepen_i max_depth f (S d) (iv s) (Z.of_nat d) (m :: l) st'' = Ok res))).
Proof.
  rewrite deepen_i_S. intros H.
  destruct (max_depth <? d)%nat; [left; inversion H; reflexivity|]. right.
  apply bind_ok in H as ([s one'] & R & H).
  destruct (time_up (ist s)) as [up st'] eqn:T.
  exists s, one', up, st'. split; [assumption|]. split; [exact T|].
  destruct up; [left; inversion H; auto|].
  destruct (st_intr st') eqn:EI; [left; inversion H; auto|].
  right. split; [reflexivity|]. split; [reflexivity|].
  destruct (iline s) as [[|m l]|]; try discriminate.
  exists m, l. split; [reflexivity|]. cbv zeta in H |- *.
  destruct ((plies_to_mate (iv s) =? Z.of_nat d) || one'); [left; inversion H; reflexivity | right; exact H].
Qed.

(* ================= 1. STACK DISCIPLINE (C16) ================= *)
Lemma q_loop_stack child beta :
  (forall stp x y c, child stp x y = Ok c -> st_stack (ist c) = st_stack stp) ->
  forall ms alpha line st r, q_loop child beta ms alpha line st = Ok r -> st_stack (ist r) = st_stack st.
Proof.
  intros HC. induction ms as [|m l IH]; intros alpha line st r H.
  - cbn [q_loop] in H. inversion H. reflexivity.
  - apply q_loop_cons in H as (stp & c & st'' & P & C & S & H).
    assert (E : st_stack st'' = st_stack st).
    { rewrite (same_stack _ _ S). eapply push_pop_stack; eauto. }
    destruct H as [-> | [-> | [(cl & _ & H) | H]]]; sst_simpl; auto; apply IH in H; congruence.
Qed.

Lemma ab_loop_i_stack child beta plyp :
  (forall stp x y c, child stp x y = Ok c -> st_stack (ist c) = st_stack stp) ->
  forall ms alpha line st r, ab_loop_i child beta plyp ms alpha line st = Ok r -> st_stack (ist r) = st_stack st.
Proof.
  intros HC. induction ms as [|m l IH]; intros alpha line st r H.
  - cbn [ab_loop_i] in H. inversion H. reflexivity.
  - apply ab_loop_i_cons in H as [(_ & ->) | (_ & stp & c & P & C & H)]; [reflexivity|].
    assert (E : st_stack (pop (ist c)) = st_stack st) by (eapply push_pop_stack; eauto).
    destruct H as [(st2 & S & ->) | (alpha' & line' & st'' & _ & S & H)].
    + sst_simpl. rewrite (same_stack _ _ S). exact E.
    + assert (E2 : st_stack st'' = st_stack st) by (rewrite (same_stack _ _ S); exact E).
      destruct H as [-> | H]; [exact E2|].
      apply IH in H. rewrite H, (same_stack _ _ (same_poll st'')). exact E2.
Qed.

Lemma root_loop_i_stack child target sorted :
  (forall stp nb c, child stp nb = Ok c -> st_stack (ist c) = st_stack stp) ->
  forall ms idx alpha line st r, root_loop_i child target sorted ms idx alpha line st = Ok r -> st_stack (ist r) = st_stack st.
Proof.
  intros HC. induction ms as [|m l IH]; intros idx alpha line st r H.
  - cbn [root_loop_i] in H. inversion H. reflexivity.
  - apply root_loop_i_cons in H. cbv zeta in H.
    destruct H as [(_ & ->) | (_ & stp & c & alpha' & line' & st1 & st'' & P & C & A & S & H)]; [reflexivity|].
    assert (E : st_stack (pop (ist c)) = st_stack st).
    { change (st_stack st) with (st_stack (set_first st idx sorted)). eapply push_pop_stack; eauto. }
    assert (E1 : st_stack st1 = st_stack st).
    { destruct A as [(_ & _ & _ & ->) | (_ & cl & st2 & _ & _ & _ & S2 & [-> | ->])]; sst_simpl;
        [exact E | | ]; rewrite (same_stack _ _ S2); exact E. }
    assert (E2 : st_stack st'' = st_stack st) by (rewrite (same_stack _ _ S); exact E1).
    destruct H as [-> | H]; [exact E2|].
    apply IH in H. rewrite H, (same_stack _ _ (same_poll st'')). exact E2.
Qed.

Lemma currmove_step_stack st1 st2 : currmove_step st1 st2 -> st_stack st2 = st_stack st1.
Proof. intros [-> | (rmv & _ & ->)]; reflexivity. Qed.

Theorem quiesce_i_stack : forall fuel cand st a b depth r,
  quiesce_i fuel cand st a b depth = Ok r -> st_stack (ist r) = st_stack st.
Proof.
  induction fuel as [|f IH]; intros cand st a b depth r H; [discriminate H|].
  apply quiesce_i_inv in H as (score & st1 & st2 & L & C & H).
  apply lazy_eval_st_same, same_stack in L. apply currmove_step_stack in C.
  assert (E : st_stack st2 = st_stack st) by congruence.
  destruct H as [-> | (alpha1 & line1 & p & tms & _ & _ & _ & H)]; [exact E|].
  apply q_loop_stack in H; [congruence|]. intros stp x y c Hc. eapply IH; exact Hc.
Qed.

Theorem alpha_beta_i_stack : forall d cand st a b depth r,
  alpha_beta_i d cand st a b depth = Ok r -> st_stack (ist r) = st_stack st.
Proof.
  induction d as [|k IH]; intros cand st a b depth r H.
  - apply alpha_beta_i_0 in H. eapply quiesce_i_stack; exact H.
  - apply alpha_beta_i_inv in H as (p & ms & _ & _ & [(_ & v & ->) | (_ & H)]); [reflexivity|].
    apply ab_loop_i_stack in H; [exact H|]. intros stp x y c Hc. eapply IH; exact Hc.
Qed.

Theorem root_search_i_stack : forall t cand st r one,
  root_search_i t cand st = Ok (r, one) -> st_stack (ist r) = st_stack st.
Proof.
  intros t cand st r one H.
  apply root_search_i_inv in H as (p & ms & _ & _ & _ & [(_ & v & ->) | (_ & H)]); [reflexivity|].
  apply root_loop_i_stack in H; [exact H|]. intros stp nb c Hc. eapply alpha_beta_i_stack; exact Hc.
Qed.

Lemma deepen_i_stack max_depth : forall fuel d score done_ best st res,
  deepen_i max_depth fuel d score done_ best st = Ok res -> st_stack (snd res) = st_stack st.
Proof.
  induction fuel as [|f IH]; intros d score done_ best st res H.
  - rewrite deepen_i_O in H. inversion H. reflexivity.
  - apply deepen_i_cons in H as [-> | (s & one' & up & st' & R & T & H)]; [reflexivity|].
    apply root_search_i_stack in R. apply time_up_snd, same_stack in T.
    assert (E : st_stack st' = st_stack st) by congruence.
    destruct H as [(-> & _) | (_ & _ & m & l & _ & H)]; [exact E|]. cbv zeta in H.
    destruct H as [-> | H]; [exact E|]. apply IH in H. rewrite H. exact E.
Qed.

Theorem iterate_i_stack : forall n st stf, iterate_i n st = Ok stf -> st_stack stf = st_stack st.
Proof.
  intros n st stf H. rewrite iterate_i_eq in H. cbv zeta in H.
  apply bind_ok in H as ([s1 one] & R & H).
  destruct (iline s1) as [best1|]; [|discriminate].
  destruct (time_up (ist s1)) as [up1 st1] eqn:T.
  apply bind_ok in H as ([[[score done_] best] stf'] & F & H).
  apply root_search_i_stack in R. apply time_up_snd, same_stack in T.
  assert (E : st_stack stf' = st_stack st).
  { destruct (up1 || st_intr st1 || one || match best1 with [] => true | _ :: _ => false end).
    - inversion F; subst. rewrite T, R. reflexivity.
    - apply deepen_i_stack in F. cbn [snd] in F. rewrite F, T, R. reflexivity. }
  destruct best; inversion H; sst_simpl; exact E.
Qed.

(* ================= 2. LEGAL LINES (C10) ================= *)
Inductive legal_line : pos -> list move -> Prop :=
| ll_nil : forall p, legal_line p []
| ll_cons : forall p m l ms p', gen_legal p = Ok ms -> In m (map rm ms) -> make_legal p m = Ok p' -> legal_line p' l ->
    legal_line p (m :: l).

Definition line_ok (p : pos) (line : option (list move)) : Prop := forall l, line = Some l -> legal_line p l.

(* [outext P a b]: the output of b is the output of a plus new events, all satisfying P *)
Definition outext (P : event -> Prop) (a b : sst) : Prop := exists evs, st_out b = evs ++ st_out a /\ Forall P evs.

Lemma outext_refl (P : event -> Prop) a : outext P a a.
Proof. exists []. split; [reflexivity | constructor]. Qed.
Lemma outext_trans (P : event -> Prop) a b c : outext P a b -> outext P b c -> outext P a c.
Proof.
  intros (e1 & E1 & F1) (e2 & E2 & F2). exists (e2 ++ e1). split.
  - rewrite E2, E1. apply app_assoc.
  - apply Forall_app. split; assumption.
Qed.
Lemma outext_eq (P : event -> Prop) a b : st_out b = st_out a -> outext P a b.
Proof. intros E. exists []. split; [exact E | constructor]. Qed.
Lemma outext_emit (P : event -> Prop) a e : P e -> outext P a (emit a e).
Proof. intros H. exists [e]. split; [reflexivity | repeat constructor; exact H]. Qed.
Lemma outext_mono (P Q : event -> Prop) a b : (forall e, P e -> Q e) -> outext P a b -> outext Q a b.
Proof. intros I (e & E & F). exists e. split; [exact E|]. eapply Forall_impl; eauto. Qed.
Lemma outext_src (P : event -> Prop) a a' b : st_out a' = st_out a -> outext P a b -> outext P a' b.
Proof. intros E (e & E1 & F). exists e. rewrite E. auto. Qed.

(* the only events an inner node emits: currmove lines for the root move under search *)
Definition cm_ok (f : Z) (rms : list rmove) (e : event) : Prop :=
  match e with
  | EvCurrMove m n _ => exists rmv, nth_error rms (Z.to_nat f) = Some rmv /\ m = rm rmv /\ n = f + 1
  | _ => False
  end.

Definition oframe (a b : sst) : Prop :=
  st_first b = st_first a /\ st_root_moves b = st_root_moves a /\ outext (cm_ok (st_first a) (st_root_moves a)) a b.

Lemma oframe_eq a b : st_first b = st_first a -> st_root_moves b = st_root_moves a -> st_out b = st_out a -> oframe a b.
Proof. intros. repeat split; auto. apply outext_eq; assumption. Qed.
Lemma oframe_refl a : oframe a a.
Proof. apply oframe_eq; reflexivity. Qed.
Lemma oframe_same a b : same a b -> oframe a b.
Proof. intros (_ & A & B & C). apply oframe_eq; assumption. Qed.
Lemma oframe_trans a b c : oframe a b -> oframe b c -> oframe a c.
Proof.
  intros (A1 & A2 & A3) (B1 & B2 & B3). rewrite A1, A2 in B3. repeat split; try congruence.
  eapply outext_trans; eassumption.
Qed.
Lemma oframe_currmove st1 st2 : currmove_step st1 st2 -> oframe st1 st2.
Proof.
  intros [-> | (rmv & N & ->)]; [apply oframe_refl|]. repeat split. apply outext_emit. cbn. eauto.
Qed.

Definition node_ok (st : sst) (r : ires) : Prop :=
  st_stack (ist r) = st_stack st /\ oframe st (ist r) /\ forall p, top st = Ok p -> line_ok p (iline r).

Lemma top_inj st p q : top st = Ok p -> top st = Ok q -> p = q.
Proof. congruence. Qed.

(* push, search the child, pop, (maybe) look at the clock *)
Lemma step_ok st m stp c st'' p :
  push st m = Ok stp -> node_ok stp c -> same (pop (ist c)) st'' -> top st = Ok p ->
  oframe st st'' /\ top st'' = Ok p /\ exists p', make_legal p m = Ok p' /\ line_ok p' (iline c).
Proof.
  intros P (S1 & F1 & L1) S T.
  assert (E : st_stack st'' = st_stack st).
  { rewrite (same_stack _ _ S). eapply push_pop_stack; eauto. }
  apply push_inv in P as (p0 & p' & T0 & M & ->).
  assert (p0 = p) by (eapply top_inj; eauto). subst p0.
  split; [|split].
  - eapply oframe_trans; [|apply oframe_same; exact S].
    eapply oframe_trans; [|apply oframe_eq with (a := ist c); reflexivity].
    eapply oframe_trans; [|exact F1]. apply oframe_eq; reflexivity.
  - rewrite (top_stack_eq _ _ E). exact T.
  - exists p'. split; [exact M|]. apply L1. eapply top_app. reflexivity.
Qed.

Lemma line_ok_none p : line_ok p None.
Proof. intros l H; discriminate. Qed.
Lemma line_ok_nil p : line_ok p (Some []).
Proof. intros l H; inversion H. constructor. Qed.
Lemma line_ok_cons p lms m p' cl :
  gen_legal p = Ok lms -> In m (map rm lms) -> make_legal p m = Ok p' -> line_ok p' (Some cl) -> line_ok p (Some (m :: cl)).
Proof. intros G I M L l H. inversion H; subst. econstructor; eauto. Qed.

Lemma q_loop_ok child beta p lms :
  gen_legal p = Ok lms ->
  (forall stp x y c, child stp x y = Ok c -> node_ok stp c) ->
  forall ms alpha line st r, (forall m, In m ms -> In (rm m) (map rm lms)) -> top st = Ok p -> line_ok p line ->
    q_loop child beta ms alpha line st = Ok r -> oframe st (ist r) /\ line_ok p (iline r).
Proof.
  intros G HC. induction ms as [|m l IH]; intros alpha line st r HI T L H.
  - cbn [q_loop] in H. inversion H. sst_simpl. split; [apply oframe_refl | exact L].
  - apply q_loop_cons in H as (stp & c & st'' & P & C & S & H).
    apply HC in C. destruct (step_ok _ _ _ _ _ _ P C S T) as (F & T'' & p' & M & Lc).
    assert (HI' : forall m, In m l -> In (rm m) (map rm lms)) by (intros; apply HI; right; assumption).
    destruct H as [-> | [-> | [(cl & E & H) | H]]]; sst_simpl; auto.
    + apply IH in H; auto.
      * destruct H as (F2 & L2). split; [eapply oframe_trans; eauto | exact L2].
      * rewrite E in Lc. eapply line_ok_cons; eauto. apply HI. left; reflexivity.
    + apply IH in H; auto. destruct H as (F2 & L2). split; [eapply oframe_trans; eauto | exact L2].
Qed.

Lemma ab_loop_i_ok child beta plyp p lms :
  gen_legal p = Ok lms ->
  (forall stp x y c, child stp x y = Ok c -> node_ok stp c) ->
  forall ms alpha line st r, (forall m, In m ms -> In (rm m) (map rm lms)) -> top st = Ok p -> line_ok p line ->
    ab_loop_i child beta plyp ms alpha line st = Ok r -> oframe st (ist r) /\ line_ok p (iline r).
Proof.
  intros G HC. induction ms as [|m l IH]; intros alpha line st r HI T L H.
  - cbn [ab_loop_i] in H. inversion H. sst_simpl. split; [apply oframe_refl | exact L].
  - apply ab_loop_i_cons in H as [(_ & ->) | (_ & stp & c & P & C & H)]; [sst_simpl; split; [apply oframe_refl | exact L]|].
    apply HC in C.
    assert (HI' : forall m, In m l -> In (rm m) (map rm lms)) by (intros; apply HI; right; assumption).
    destruct H as [(st2 & S & ->) | (alpha' & line' & st'' & LL & S & H)].
    + destruct (step_ok _ _ _ _ _ _ P C S T) as (F & _). sst_simpl. auto.
    + destruct (step_ok _ _ _ _ _ _ P C S T) as (F & T'' & p' & M & Lc).
      assert (L' : line_ok p line').
      { destruct LL as [-> | (cl & E & ->)]; [exact L|]. rewrite E in Lc. eapply line_ok_cons; eauto. apply HI. left; reflexivity. }
      destruct H as [-> | H]; [sst_simpl; auto|].
      apply IH in H; auto.
      * destruct H as (F2 & L2). split; [|exact L2].
        eapply oframe_trans; [exact F|]. eapply oframe_trans; [apply oframe_same, same_poll | exact F2].
      * rewrite (same_top _ _ (same_poll st'')). exact T''.
Qed.

Section Legal.
Hypothesis order_perm : forall k c d p l, Permutation (order k c d p l) l.
Hypothesis tactical_sub : forall p tms, gen_tactical p = Ok tms -> exists ms, gen_legal p = Ok ms /\ incl (map rm tms) (map rm ms).

Lemma quiesce_i_ok : forall fuel cand st a b depth r, quiesce_i fuel cand st a b depth = Ok r -> node_ok st r.
Proof.
  induction fuel as [|f IH]; intros cand st a b depth r H; [discriminate H|].
  split; [eapply quiesce_i_stack; exact H|].
  apply quiesce_i_inv in H as (score & st1 & st2 & L & C & H).
  apply lazy_eval_st_same in L.
  assert (F : oframe st st2) by (eapply oframe_trans; [apply oframe_same; exact L | apply oframe_currmove; exact C]).
  assert (E : st_stack st2 = st_stack st) by (rewrite (currmove_step_stack _ _ C); apply L).
  destruct H as [-> | (alpha1 & line1 & p & tms & L1 & T & G & H)].
  - sst_simpl. split; [exact F|]. intros; apply line_ok_none.
  - destruct (tactical_sub _ _ G) as (lms & GL & I).
    apply q_loop_ok with (p := p) (lms := lms) in H; auto.
    + destruct H as (F2 & L2). split; [eapply oframe_trans; eauto|].
      intros p0 T0. rewrite <- (top_stack_eq _ _ E) in T0. assert (p0 = p) by (eapply top_inj; eauto). subst p0. exact L2.
    + intros stp x y c Hc. eapply IH; exact Hc.
    + intros m Hm. apply I. apply in_map. eapply Permutation_in; [apply order_perm | exact Hm].
    + destruct L1 as [-> | ->]; [apply line_ok_none | apply line_ok_nil].
Qed.

Lemma alpha_beta_i_ok : forall d cand st a b depth r, alpha_beta_i d cand st a b depth = Ok r -> node_ok st r.
Proof.
  induction d as [|k IH]; intros cand st a b depth r H.
  - apply alpha_beta_i_0 in H. eapply quiesce_i_ok; exact H.
  - split; [eapply alpha_beta_i_stack; exact H|].
    apply alpha_beta_i_inv in H as (p & ms & T & G & [(_ & v & ->) | (_ & H)]).
    + sst_simpl. split; [apply oframe_same, same_set_nodes|]. intros; apply line_ok_nil.
    + apply ab_loop_i_ok with (p := p) (lms := ms) in H; auto.
      * destruct H as (F2 & L2). split; [exact F2|].
        intros p0 T0. assert (p0 = p) by (eapply top_inj; eauto). subst p0. exact L2.
      * intros stp x y c Hc. eapply IH; exact Hc.
      * intros m Hm. apply in_map. eapply Permutation_in; [apply order_perm | exact Hm].
      * apply line_ok_none.
Qed.

(* ---- the requested per-node statements ---- *)
Theorem quiesce_i_legal : forall fuel cand st a b depth r p l,
  quiesce_i fuel cand st a b depth = Ok r -> top st = Ok p -> iline r = Some l -> legal_line p l.
Proof. intros. eapply quiesce_i_ok; eauto. Qed.

Theorem alpha_beta_i_legal : forall d cand st a b depth r p l,
  alpha_beta_i d cand st a b depth = Ok r -> top st = Ok p -> iline r = Some l -> legal_line p l.
Proof. intros. eapply alpha_beta_i_ok; eauto. Qed.

(* ---- the root ---- *)
Definition root_ev_ok (p : pos) (ms : list rmove) (e : event) : Prop :=
  match e with
  | EvCurrMove m n _ => In m (map rm ms) /\ 1 <= n <= Z.of_nat (length ms)
  | EvInfoScore _ _ _ pv => pv <> [] /\ legal_line p pv
  | _ => False
  end.
(* the root never reports the empty line while it has moves *)
Definition rline_ok (p : pos) (line : option (list move)) : Prop :=
  match line with None => True | Some l => l <> [] /\ legal_line p l end.

Lemma cm_root p ms sorted f e : Permutation sorted ms -> 0 <= f -> cm_ok f sorted e -> root_ev_ok p ms e.
Proof.
  intros PM F. destruct e; cbn [cm_ok root_ev_ok]; try tauto.
  intros (rmv & N & -> & ->). split.
  - apply in_map. eapply Permutation_in; [exact PM|]. eapply nth_error_In; exact N.
  - assert (Z.to_nat f < length sorted)%nat by (apply nth_error_Some; congruence).
    rewrite <- (Permutation_length PM). lia.
Qed.

Lemma root_loop_i_ok child target sorted p ms :
  gen_legal p = Ok ms -> Permutation sorted ms ->
  (forall stp nb c, child stp nb = Ok c -> node_ok stp c) ->
  forall l idx alpha line st r, (forall m, In m l -> In m sorted) -> 0 <= idx -> top st = Ok p -> rline_ok p line ->
    root_loop_i child target sorted l idx alpha line st = Ok r ->
    outext (root_ev_ok p ms) st (ist r) /\ rline_ok p (iline r).
Proof.
  intros G PM HC. induction l as [|m l IH]; intros idx alpha line st r HI I0 T L H.
  - cbn [root_loop_i] in H. inversion H. sst_simpl. split; [apply outext_eq; reflexivity | exact L].
  - apply root_loop_i_cons in H. cbv zeta in H.
    destruct H as [(_ & ->) | (_ & stp & c & alpha' & line' & st1 & st'' & P & C & A & S & H)];
      [sst_simpl; split; [apply outext_eq; reflexivity | exact L]|].
    apply HC in C.
    assert (T0 : top (set_first st idx sorted) = Ok p) by exact T.
    assert (FR : forall x, oframe (set_first st idx sorted) x -> outext (root_ev_ok p ms) st x).
    { intros x (_ & _ & O). apply outext_src with (a := set_first st idx sorted); [reflexivity|].
      eapply outext_mono; [|exact O]. intros e. sst_simpl. apply cm_root; assumption. }
    assert (Im : In (rm m) (map rm ms)).
    { apply in_map. eapply Permutation_in; [exact PM|]. apply HI. left; reflexivity. }
    assert (X : outext (root_ev_ok p ms) st st1 /\ top st1 = Ok p /\ rline_ok p line').
    { destruct A as [(_ & _ & -> & ->) | (_ & cl & st2 & E & _ & -> & S2 & A)].
      - destruct (step_ok _ _ _ _ _ _ P C (same_refl _) T0) as (F & T1 & _). auto.
      - destruct (step_ok _ _ _ _ _ _ P C S2 T0) as (F & T1 & p' & M & Lc).
        assert (LL : legal_line p (rm m :: cl)).
        { rewrite E in Lc. eapply line_ok_cons; eauto. }
        destruct A as [-> | ->].
        + split; [auto|]. split; [exact T1|]. split; [discriminate | exact LL].
        + split; [|split].
          * eapply outext_trans; [apply FR; exact F|]. apply outext_emit. cbn. split; [discriminate | exact LL].
          * exact T1.
          * split; [discriminate | exact LL]. }
    destruct X as (O1 & T1 & L').
    assert (O2 : outext (root_ev_ok p ms) st st'').
    { eapply outext_trans; [exact O1|]. apply outext_eq. apply S. }
    assert (T2 : top st'' = Ok p) by (rewrite (same_top _ _ S); exact T1).
    destruct H as [-> | H]; [sst_simpl; auto|].
    apply IH in H; auto.
    + destruct H as (O3 & L3). split; [|exact L3].
      eapply outext_trans; [exact O2|]. eapply outext_src; [|exact O3]. symmetry. apply (same_poll st'').
    + intros; apply HI; right; assumption.
    + lia.
    + rewrite (same_top _ _ (same_poll st'')). exact T2.
Qed.

Theorem root_search_i_ok : forall t cand st r one p,
  root_search_i t cand st = Ok (r, one) -> top st = Ok p ->
  exists ms, gen_legal p = Ok ms /\ one = (length ms =? 1)%nat /\
    outext (root_ev_ok p ms) st (ist r) /\
    (ms = [] -> iline r = Some [] /\ st_out (ist r) = st_out st) /\
    (ms <> [] -> rline_ok p (iline r)).
Proof.
  intros t cand st r one p H T.
  apply root_search_i_inv in H as (p0 & ms & T0 & G & O & H).
  assert (p0 = p) by (eapply top_inj; eauto). subst p0.
  exists ms. split; [exact G|]. split; [exact O|].
  destruct H as [(-> & v & ->) | (N & H)].
  - sst_simpl. split; [apply outext_eq; reflexivity|]. split; [auto | congruence].
  - apply root_loop_i_ok with (p := p) (ms := ms) in H; auto.
    + destruct H as (O1 & L1). split; [exact O1|]. split; [congruence | auto].
    + intros stp nb c Hc. eapply alpha_beta_i_ok; exact Hc.
    + lia.
    + exact I.
Qed.

Theorem root_search_i_legal : forall t cand st r one p l,
  root_search_i t cand st = Ok (r, one) -> top st = Ok p -> iline r = Some l -> legal_line p l.
Proof.
  intros t cand st r one p l H T E.
  destruct (root_search_i_ok _ _ _ _ _ _ H T) as (ms & _ & _ & _ & H0 & H1).
  destruct ms as [|m0 r0].
  - destruct (H0 eq_refl) as (E0 & _). rewrite E0 in E. inversion E. constructor.
  - assert (R : rline_ok p (iline r)) by (apply H1; discriminate). rewrite E in R. apply R.
Qed.


(* ================= 3. ITERATIVE DEEPENING: OUTPUT AND BESTMOVE (C03, C10, C11) ================= *)
(* where an 'info depth' line comes from: a root search on the same root position that was completed and then passed
   the deadline test (oracle answered false) and the interruption test (flag clear) *)
Definition depth_prov (p : pos) (d sc nd : Z) (pv : list move) : Prop :=
  exists cand st s one st',
    top st = Ok p /\ root_search_i (Z.to_nat d) cand st = Ok (s, one) /\ iline s = Some pv /\ iv s = sc /\
    time_up (ist s) = (false, st') /\ st_intr st' = false /\ st_nodes st' = nd.

Definition iter_ev_ok (p : pos) (ms : list rmove) (e : event) : Prop :=
  match e with
  | EvCurrMove m n _ => In m (map rm ms) /\ 1 <= n <= Z.of_nat (length ms)
  | EvInfoScore _ _ _ pv => pv <> [] /\ legal_line p pv
  | EvInfoDepth d sc nd pv => pv <> [] /\ legal_line p pv /\ depth_prov p d sc nd pv
  | _ => False
  end.

Lemma root_iter_ev p ms e : root_ev_ok p ms e -> iter_ev_ok p ms e.
Proof. destruct e; cbn; tauto. Qed.

(* the line of the newest 'info depth' event (output lists are newest first) *)
Fixpoint last_depth_pv (out : list event) : option (list move) :=
  match out with
  | [] => None
  | EvInfoDepth _ _ _ pv :: _ => Some pv
  | _ :: r => last_depth_pv r
  end.

Lemma last_depth_app a b :
  last_depth_pv (a ++ b) = match last_depth_pv a with Some x => Some x | None => last_depth_pv b end.
Proof. induction a as [|e a IH]; [reflexivity|]. destruct e; cbn [app last_depth_pv]; auto. Qed.

Lemma last_depth_root p ms evs : Forall (root_ev_ok p ms) evs -> last_depth_pv evs = None.
Proof. induction 1 as [|e l H _ IH]; [reflexivity|]. destruct e; cbn in H |- *; tauto. Qed.

Lemma gen_legal_inj p a b : gen_legal p = Ok a -> gen_legal p = Ok b -> a = b.
Proof. congruence. Qed.

Lemma deepen_i_ok max_depth p ms : gen_legal p = Ok ms ->
  forall fuel d score done_ best st sc' dn' best' st',
    top st = Ok p -> best <> [] -> legal_line p best ->
    deepen_i max_depth fuel d score done_ best st = Ok (sc', dn', best', st') ->
    exists evs, st_out st' = evs ++ st_out st /\ Forall (iter_ev_ok p ms) evs /\
      best' = match last_depth_pv evs with Some pv => pv | None => best end /\
      best' <> [] /\ legal_line p best'.
Proof.
  intros G. induction fuel as [|f IH]; intros d score done_ best st sc' dn' best' st' T N L H.
  - rewrite deepen_i_O in H. inversion H; subst. exists []. repeat split; auto.
  - apply deepen_i_cons in H as [H | (s & one' & up & st1 & R & TU & H)].
    { inversion H; subst. exists []. repeat split; auto. }
    destruct (root_search_i_ok _ _ _ _ _ _ R T) as (ms0 & G0 & _ & (evs1 & E1 & F1) & _ & _).
    assert (ms0 = ms) by (eapply gen_legal_inj; eauto). subst ms0.
    pose proof (time_up_snd _ _ _ TU) as S1.
    assert (O1 : st_out st1 = evs1 ++ st_out st) by (rewrite <- E1; apply S1).
    assert (T1 : top st1 = Ok p).
    { rewrite (same_top _ _ S1). rewrite (top_stack_eq _ _ (root_search_i_stack _ _ _ _ _ R)). exact T. }
    assert (FI : Forall (iter_ev_ok p ms) evs1) by (eapply Forall_impl; [|exact F1]; apply root_iter_ev).
    destruct H as [(H & _) | (U & I & m & l & E & H)].
    + inversion H; subst. exists evs1. rewrite (last_depth_root _ _ _ F1). repeat split; auto.
    + cbv zeta in H.
      assert (LL : legal_line p (m :: l)) by (eapply root_search_i_legal; eauto).
      assert (EV : iter_ev_ok p ms (EvInfoDepth (Z.of_nat d) (iv s) (st_nodes st1) (m :: l))).
      { cbn. split; [discriminate|]. split; [exact LL|].
        exists best, st, s, one', st1. rewrite Nat2Z.id. subst up. repeat split; auto. }
      destruct H as [H | H].
      * inversion H; subst. exists (EvInfoDepth (Z.of_nat d) (iv s) (st_nodes st1) (m :: l) :: evs1).
        sst_simpl. rewrite O1. split; [reflexivity|]. split; [constructor; assumption|].
        split; [reflexivity|]. split; [discriminate | exact LL].
      * apply IH in H; [|exact T1 | discriminate | exact LL].
        destruct H as (evs2 & E2 & F2 & B2 & N2 & L2).
        exists (evs2 ++ EvInfoDepth (Z.of_nat d) (iv s) (st_nodes st1) (m :: l) :: evs1).
        split; [|split; [|split; [|split]]]; auto.
        -- rewrite E2. sst_simpl. rewrite O1, <- app_assoc. reflexivity.
        -- apply Forall_app. split; [exact F2 | constructor; assumption].
        -- rewrite last_depth_app. cbn [last_depth_pv]. rewrite B2. destruct (last_depth_pv evs2); reflexivity.
Qed.

Lemma legal_line_head p b l ms : legal_line p (b :: l) -> gen_legal p = Ok ms -> In b (map rm ms).
Proof. intros H G. inversion H; subst. assert (ms0 = ms) by (eapply gen_legal_inj; eauto). subst. assumption. Qed.

(* The complete description of the output of a search.  [evs] are the events before the final summary line. *)
Theorem iterate_i_spec : forall n st stf p,
  iterate_i n st = Ok stf -> top st = Ok p ->
  exists ms s1 one best1 evs,
    gen_legal p = Ok ms /\
    root_search_i 1 [] (set_nodes (set_intr st false) 0) = Ok (s1, one) /\ iline s1 = Some best1 /\
    Forall (iter_ev_ok p ms) evs /\
    let best := match last_depth_pv evs with Some pv => pv | None => best1 end in
    (ms = [] -> best = [] /\ evs = [] /\ st_out stf = EvBestMoveNone :: st_out st) /\
    (ms <> [] -> exists b l sc dn nd,
        best = b :: l /\ legal_line p best /\ In b (map rm ms) /\
        st_out stf = EvBestMove b :: EvInfoScore sc dn nd best :: evs ++ st_out st).
Proof.
  intros n st0 stf p H T. rewrite iterate_i_eq in H. cbv zeta in H.
  apply bind_ok in H as ([s1 one] & R & H).
  assert (T' : top (set_nodes (set_intr st0 false) 0) = Ok p) by exact T.
  destruct (root_search_i_ok _ _ _ _ _ _ R T') as (ms & G & _ & (evs1 & E1 & F1) & H0 & H1).
  sst_simpl_in E1.
  destruct (iline s1) as [best1|] eqn:EL; [|discriminate].
  destruct (time_up (ist s1)) as [up1 st1] eqn:TU.
  pose proof (time_up_snd _ _ _ TU) as S1.
  apply bind_ok in H as ([[[score done_] best] stf'] & F & H).
  exists ms, s1, one, best1.
  destruct ms as [|m0 r0].
  - destruct (H0 eq_refl) as (E0 & EO). inversion E0; subst best1. sst_simpl_in EO.
    rewrite orb_true_r in F. inversion F; subst. inversion H; subst. sst_simpl.
    exists []. split; [exact G|]. split; [exact R|]. split; [exact EL|]. split; [constructor|].
    cbn [last_depth_pv]. split; [|intros C; congruence].
    intros _. split; [reflexivity|]. split; [reflexivity|]. f_equal. rewrite <- EO. apply S1.
  - assert (RL : rline_ok p (Some best1)) by (apply H1; discriminate). destruct RL as (N1 & L1).
    assert (O1 : st_out st1 = evs1 ++ st_out st0) by (rewrite <- E1; apply S1).
    assert (T1 : top st1 = Ok p).
    { rewrite (same_top _ _ S1). rewrite (top_stack_eq _ _ (root_search_i_stack _ _ _ _ _ R)). exact T'. }
    assert (X : exists evs, st_out stf' = evs ++ st_out st0 /\ Forall (iter_ev_ok p (m0 :: r0)) evs /\
                  best = match last_depth_pv evs with Some pv => pv | None => best1 end /\ best <> [] /\ legal_line p best).
    { destruct (up1 || st_intr st1 || one || match best1 with [] => true | _ :: _ => false end).
      - inversion F; subst. exists evs1. rewrite (last_depth_root _ _ _ F1). repeat split; auto.
        eapply Forall_impl; [|exact F1]; apply root_iter_ev.
      - apply deepen_i_ok with (p := p) (ms := m0 :: r0) in F; auto.
        destruct F as (evs2 & E2 & F2 & B2 & N2 & L2).
        exists (evs2 ++ evs1). split; [|split; [|split; [|split]]]; auto.
        + rewrite E2, O1. apply app_assoc.
        + apply Forall_app. split; [exact F2|]. eapply Forall_impl; [|exact F1]; apply root_iter_ev.
        + rewrite last_depth_app, (last_depth_root _ _ _ F1). rewrite B2. destruct (last_depth_pv evs2); reflexivity. }
    destruct X as (evs & EO & FO & B & NB & LB).
    exists evs. split; [exact G|]. split; [exact R|]. split; [exact EL|]. split; [exact FO|].
    cbv zeta. rewrite <- B. split; [intros C; discriminate|]. intros _.
    destruct best as [|b l]; [congruence|]. inversion H; subst stf. sst_simpl.
    exists b, l, score, done_, (st_nodes stf'). split; [reflexivity|]. split; [exact LB|].
    split; [eapply legal_line_head; eauto|]. rewrite EO. reflexivity.
Qed.


(* ---- corollaries in the requested forms ---- *)
Definition is_bestmove (e : event) : bool := match e with EvBestMove _ | EvBestMoveNone => true | _ => false end.
Fixpoint n_bestmoves (l : list event) : nat :=
  match l with [] => O | e :: r => ((if is_bestmove e then 1 else 0) + n_bestmoves r)%nat end.

Lemma iter_ev_not_best p ms evs : Forall (iter_ev_ok p ms) evs -> n_bestmoves evs = O.
Proof. induction 1 as [|e l H _ IH]; [reflexivity|]. destruct e; cbn in H |- *; tauto. Qed.

Lemma iterate_i_top n st stf : iterate_i n st = Ok stf -> exists p, top st = Ok p.
Proof.
  intros H. rewrite iterate_i_eq in H. cbv zeta in H. apply bind_ok in H as ([s1 one] & R & _).
  apply root_search_i_inv in R as (p & _ & T & _). exists p. exact T.
Qed.

(* events an unfinished depth-1 iteration can never be skipped over: a missing depth-1 line is the model panic *)
Lemma iterate_i_stale n st s1 one :
  root_search_i 1 [] (set_nodes (set_intr st false) 0) = Ok (s1, one) -> iline s1 = None -> iterate_i n st = Panic P_STALE_PV.
Proof. intros R E. rewrite iterate_i_eq. cbv zeta. rewrite R. cbn [bind]. rewrite E. reflexivity. Qed.

(* 3a (C03): exactly one bestmove event, and it is the newest event *)
Theorem iterate_i_one_bestmove : forall n st stf,
  iterate_i n st = Ok stf -> st_out st = [] ->
  n_bestmoves (st_out stf) = 1%nat /\ exists e r, st_out stf = e :: r /\ is_bestmove e = true.
Proof.
  intros n st stf H O. destruct (iterate_i_top _ _ _ H) as (p & T).
  destruct (iterate_i_spec _ _ _ _ H T) as (ms & s1 & one & best1 & evs & G & R & EL & F & H0 & H1). cbv zeta in H0, H1.
  destruct ms as [|m0 r0].
  - destruct (H0 eq_refl) as (_ & _ & E). rewrite E, O. cbn. eauto.
  - destruct H1 as (b & l & sc & dn & nd & _ & _ & _ & E); [discriminate|]. rewrite E, O, app_nil_r.
    cbn [n_bestmoves is_bestmove]. rewrite (iter_ev_not_best _ _ _ F). split; [reflexivity | eauto].
Qed.

(* 3b (C03 + C10): the bestmove is a legal root move, the head of the non-empty legal line reported just before it;
   without root moves it is 'bestmove 0000' and nothing else is printed *)
Theorem iterate_i_bestmove_legal : forall n st stf p ms,
  iterate_i n st = Ok stf -> top st = Ok p -> gen_legal p = Ok ms ->
  (ms = [] -> st_out stf = EvBestMoveNone :: st_out st) /\
  (ms <> [] -> exists b l sc dn nd rest,
      st_out stf = EvBestMove b :: EvInfoScore sc dn nd (b :: l) :: rest ++ st_out st /\
      legal_line p (b :: l) /\ In b (map rm ms)).
Proof.
  intros n st stf p ms H T G.
  destruct (iterate_i_spec _ _ _ _ H T) as (ms0 & s1 & one & best1 & evs & G0 & R & EL & F & H0 & H1). cbv zeta in H0, H1.
  assert (ms0 = ms) by (eapply gen_legal_inj; eauto). subst ms0.
  split.
  - intros N. apply H0 in N. apply N.
  - intros N. destruct (H1 N) as (b & l & sc & dn & nd & B & L & I & E).
    rewrite B in *. exists b, l, sc, dn, nd, evs. auto.
Qed.

(* 3c (C11): the bestmove is the head of the line of the newest 'info depth' event, if there is one, and otherwise of
   the depth-1 iteration's line; and every 'info depth' event stems from an iteration that was completed and passed
   the deadline test and the interruption test (depth_prov).  So an interrupted iteration never supplies the move. *)
Theorem iterate_i_no_leak : forall n st stf p ms,
  iterate_i n st = Ok stf -> top st = Ok p -> gen_legal p = Ok ms -> ms <> [] -> last_depth_pv (st_out st) = None ->
  exists s1 one best1 b l sc dn nd rest,
    root_search_i 1 [] (set_nodes (set_intr st false) 0) = Ok (s1, one) /\ iline s1 = Some best1 /\
    st_out stf = EvBestMove b :: EvInfoScore sc dn nd (b :: l) :: rest /\
    b :: l = match last_depth_pv (st_out stf) with Some pv => pv | None => best1 end /\
    (forall pv, last_depth_pv (st_out stf) = Some pv ->
       exists d sc' nd', In (EvInfoDepth d sc' nd' pv) (st_out stf) /\ depth_prov p d sc' nd' pv).
Proof.
  intros n st stf p ms H T G N LO.
  destruct (iterate_i_spec _ _ _ _ H T) as (ms0 & s1 & one & best1 & evs & G0 & R & EL & F & H0 & H1). cbv zeta in H0, H1.
  assert (ms0 = ms) by (eapply gen_legal_inj; eauto). subst ms0.
  destruct (H1 N) as (b & l & sc & dn & nd & B & L & I & E).
  assert (LD : last_depth_pv (st_out stf) = last_depth_pv evs).
  { rewrite E. cbn [last_depth_pv]. rewrite last_depth_app, LO. destruct (last_depth_pv evs); reflexivity. }
  exists s1, one, best1, b, l, sc, dn, nd, (evs ++ st_out st).
  split; [exact R|]. split; [exact EL|]. split; [rewrite E, B; reflexivity|]. split; [rewrite LD; auto|].
  intros pv. rewrite LD. intros LP.
  assert (X : exists d sc' nd', In (EvInfoDepth d sc' nd' pv) evs /\ depth_prov p d sc' nd' pv).
  { clear - F LP. induction F as [|e evs He _ IH]; [discriminate|].
    destruct e; cbn [last_depth_pv] in LP;
      try (destruct (IH LP) as (d & sc' & nd' & I & Pv); exists d, sc', nd'; split; [right; exact I | exact Pv]).
    inversion LP; subst. cbn in He. destruct He as (_ & _ & Pv). do 3 eexists. split; [left; reflexivity | exact Pv]. }
  destruct X as (d & sc' & nd' & I' & Pv). exists d, sc', nd'. split; [|exact Pv].
  rewrite E. right; right. apply in_or_app. left; exact I'.
Qed.

(* 2, output form: every event printed by a root search / by a whole search *)
Theorem root_search_i_events : forall t cand st r one p,
  root_search_i t cand st = Ok (r, one) -> top st = Ok p ->
  exists ms evs, gen_legal p = Ok ms /\ st_out (ist r) = evs ++ st_out st /\ Forall (root_ev_ok p ms) evs.
Proof.
  intros t cand st r one p H T.
  destruct (root_search_i_ok _ _ _ _ _ _ H T) as (ms & G & _ & (evs & E & F) & _). eauto.
Qed.

Definition out_ev_ok (p : pos) (ms : list rmove) (e : event) : Prop :=
  match e with
  | EvCurrMove m n _ => In m (map rm ms) /\ 1 <= n <= Z.of_nat (length ms)
  | EvInfoScore _ _ _ pv | EvInfoDepth _ _ _ pv => pv <> [] /\ legal_line p pv
  | EvBestMove b => In b (map rm ms)
  | EvBestMoveNone => ms = []
  end.

Theorem iterate_i_events : forall n st stf p,
  iterate_i n st = Ok stf -> top st = Ok p ->
  exists ms evs, gen_legal p = Ok ms /\ st_out stf = evs ++ st_out st /\ Forall (out_ev_ok p ms) evs.
Proof.
  intros n st stf p H T.
  destruct (iterate_i_spec _ _ _ _ H T) as (ms & s1 & one & best1 & evs & G & R & EL & F & H0 & H1). cbv zeta in H0, H1.
  exists ms. destruct ms as [|m0 r0].
  - destruct (H0 eq_refl) as (_ & _ & E). exists [EvBestMoveNone]. split; [exact G|]. split; [exact E|].
    repeat constructor.
  - destruct H1 as (b & l & sc & dn & nd & B & L & I & E); [discriminate|].
    exists (EvBestMove b :: EvInfoScore sc dn nd (match last_depth_pv evs with Some pv => pv | None => best1 end) :: evs).
    split; [exact G|]. split; [exact E|].
    constructor; [exact I|]. constructor; [cbn; rewrite B; split; [discriminate | rewrite <- B; exact L]|].
    eapply Forall_impl; [|exact F]. intros e. destruct e; cbn; tauto.
Qed.

(* ---- the depth-1 iteration always searches the first root move; its line is written as soon as the value of that
        move is not the sentinel -Infinity.  The latter is a fact about evaluation bounds and is assumed here (only here). *)
Lemma root_loop_i_line child target sorted : forall l idx alpha line st r,
  (exists m t, line = Some (m :: t)) -> root_loop_i child target sorted l idx alpha line st = Ok r ->
  exists m t, iline r = Some (m :: t).
Proof.
  induction l as [|m l IH]; intros idx alpha line st r L H.
  - cbn [root_loop_i] in H. inversion H. exact L.
  - apply root_loop_i_cons in H. cbv zeta in H.
    destruct H as [(_ & ->) | (_ & stp & c & alpha' & line' & st1 & st'' & _ & _ & A & _ & H)]; [exact L|].
    assert (L' : exists m t, line' = Some (m :: t)).
    { destruct A as [(_ & _ & -> & _) | (_ & cl & st2 & _ & _ & -> & _)]; eauto. }
    destruct H as [-> | H]; [exact L'|]. eapply IH; eauto.
Qed.

Section FirstMove.
Hypothesis leaf_value_lt_inf : forall cand stp c,
  alpha_beta_i 0 cand stp (- InfinityScore) (- - InfinityScore) 1 = Ok c -> iv c < InfinityScore.

Theorem root_search_i_1_line : forall cand st r one p ms,
  st_intr st = false -> top st = Ok p -> gen_legal p = Ok ms -> ms <> [] ->
  root_search_i 1 cand st = Ok (r, one) -> exists m t, iline r = Some (m :: t).
Proof.
  intros cand st r one p ms I T G N H.
  apply root_search_i_inv in H as (p0 & ms0 & T0 & G0 & _ & H).
  assert (p0 = p) by (eapply top_inj; eauto). subst p0.
  assert (ms0 = ms) by (eapply gen_legal_inj; eauto). subst ms0.
  destruct H as [(E & _) | (_ & H)]; [congruence|].
  pose proof (order_perm (st_killers st) cand 0 p ms) as PM.
  remember (order (st_killers st) cand 0 p ms) as sorted eqn:ES. clear ES.
  assert (EM : exists m l, sorted = m :: l).
  { destruct sorted as [|m l]; [apply Permutation_nil in PM; congruence | eauto]. }
  destruct EM as (m & l & EM). rewrite EM in H at 2.
  apply root_loop_i_cons in H. cbv zeta in H.
  destruct H as [(I' & _) | (_ & stp & c & alpha' & line' & st1 & st'' & _ & C & A & _ & H)]; [congruence|].
  cbn [pred] in C. apply leaf_value_lt_inf in C.
  assert (L' : exists m t, line' = Some (m :: t)).
  { destruct A as [(A & _) | (_ & cl & st2 & _ & _ & -> & _)]; [lia | eauto]. }
  destruct H as [-> | H]; [exact L'|]. eapply root_loop_i_line; eauto.
Qed.

(* hence the depth-1 line read by StartIterativeDeepening exists whenever the root has a move *)
Corollary iterate_i_depth1_line : forall st s1 one p ms,
  top st = Ok p -> gen_legal p = Ok ms -> ms <> [] ->
  root_search_i 1 [] (set_nodes (set_intr st false) 0) = Ok (s1, one) -> exists m t, iline s1 = Some (m :: t).
Proof.
  intros st s1 one p ms T G N H.
  eapply (root_search_i_1_line [] (set_nodes (set_intr st false) 0)); [reflexivity | exact T | exact G | exact N | exact H].
Qed.
End FirstMove.

End Legal.
End Nodes.

Print Assumptions quiesce_i_stack.
Print Assumptions alpha_beta_i_stack.
Print Assumptions root_search_i_stack.
Print Assumptions iterate_i_stack.
Print Assumptions quiesce_i_legal.
Print Assumptions alpha_beta_i_legal.
Print Assumptions root_search_i_legal.
Print Assumptions root_search_i_events.
Print Assumptions iterate_i_events.
Print Assumptions iterate_i_spec.
Print Assumptions iterate_i_stale.
Print Assumptions iterate_i_one_bestmove.
Print Assumptions iterate_i_bestmove_legal.
Print Assumptions iterate_i_no_leak.
Print Assumptions root_search_i_1_line.
Print Assumptions iterate_i_depth1_line.
