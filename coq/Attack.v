(* engine/attackLookup.go (tables: from the running code via Generated.v), position.go isUnderCheck. *)
Require Import Base Generated Position.

Definition move_index (from to : Z) : Z := lastValidSquare + to - from.
Definition att (i : Z) : Z := tabz gen_attack_table i.
Definition dirt (i : Z) : Z := tabz gen_direction_table i.

(* checkedBySlidingPiece: for sq := from+dir; sq != dest; sq += dir { if board[sq] != 0 return false }; return true.
   The Go loop has no bound of its own; 8 steps of fuel cover every ray of the board, running out means the loop
   would have walked off (index panic or endless) and is reported as "not attacked" only under the guard proved in
   Proofs (direction table consistent with attack table). *)
Fixpoint slide_clear (fuel : nat) (b : list cell) (sq dir dest : Z) : bool :=
  match fuel with
  | O => false
  | S f => if sq =? dest then true else
           match get b sq with Empty => slide_clear f b (byte (sq + dir)) dir dest | _ => false end
  end.

Definition is_under_check (b : list cell) (epieces epawns : list Z) (eking dest : Z) : bool :=
  let pflag := match get b eking with Pc Black _ => enc_BPawnAttacks | _ => enc_WPawnAttacks end in
  existsb (fun from => negb (Z.land (att (move_index from dest)) pflag =? 0)) epawns
  || existsb (fun from =>
        let idx := move_index from dest in
        match get b from with
        | Empty => false
        | Pc _ k =>
            if Z.land (att idx) (kind_bit k) =? 0 then false
            else if kind_eqb k Knight then true
            else slide_clear 8 b (byte (from + dirt idx)) (dirt idx) dest
        end) epieces
  || negb (Z.land (att (move_index eking dest)) enc_KingAttacks =? 0).

(* isCurrentKingUnderCheck *)
Definition in_check (p : pos) : bool :=
  is_under_check (board p) (en_pieces p) (en_pawns p) (en_king p) (cur_king p).
(* square attacked by the pieces of colour c, as the hook VerifAttacked asks *)
Definition attacked_by (p : pos) (white : bool) (s : Z) : bool :=
  if white then is_under_check (board p) (wpieces p) (wpawns p) (wking p) s
  else is_under_check (board p) (bpieces p) (bpawns p) (bking p) s.
