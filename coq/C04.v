(* Property C04: the reported search score equals the exact minimax value (pruning, ordering, lazy evaluation are transparent). *)
From Coq Require Import ZArith List Bool Permutation.
Require Import Base Generated Position Attack Make Gen Count Eval Search SearchProofs SearchImp SearchImpValue SearchStmt.
Open Scope Z_scope.

(* any move ordering (killers, PV bonus, any sort): only its being a permutation is used *)
Definition ordering := pos -> list rmove -> list rmove.
Definition is_ordering (order : ordering) : Prop := forall p l, Permutation (order p l) l.

(* quiescence and alpha-beta below the root: bound-consistent with plain minimax of the full tree under the full evaluation,
   for every window inside [-Inf, Inf] (all windows the engine creates), when no visited node is lazy-sensitive *)
Theorem C04_alpha_beta : forall order, is_ordering order -> forall d p a b depth r v,
  a < b -> - InfinityScore <= a -> b <= InfinityScore ->
  alpha_beta order d p a b depth = Ok r -> minimax d p depth = Ok v -> ssens r = false -> bc a b (sv r) v.
Proof. exact alpha_beta_value. Qed.
Theorem C04_quiescence : forall order, is_ordering order -> forall fuel p a b depth r v,
  a < b -> - InfinityScore <= a -> b <= InfinityScore ->
  quiesce order fuel p a b depth = Ok r -> mm_quiesce fuel p depth = Ok v -> ssens r = false -> bc a b (sv r) v.
Proof. exact quiesce_value. Qed.
(* fail-hard: values never leave the window (full-width nodes without moves return the terminal score unclamped) *)
Theorem C04_in_window : forall order d p a b depth r, a <= b ->
  alpha_beta order d p a b depth = Ok r -> (exists ms, gen_legal p = Ok ms /\ ms <> nil) \/ d = O -> a <= sv r <= b.
Proof. exact alpha_beta_in_window. Qed.
(* the root iteration of depth d+1 returns exactly the minimax value (the early exit after a mate in one cannot change it) *)
Theorem C04_root_value : forall order, is_ordering order -> forall d p r one v,
  root_search order (S d) p = Ok (r, one) -> minimax (S d) p 0 = Ok v -> ssens r = false ->
  (forall ms m p' w, gen_legal p = Ok ms -> In m ms -> make_legal p (rm m) = Ok p' -> minimax d p' 1 = Ok w -> - w <= - LostScore - 1) ->
  - InfinityScore < v -> sv r = v.
Proof. exact root_search_value. Qed.

(* the same on the state machine with position stack, killer table, oracles (never interrupted: all consumed oracle values false) *)
Theorem C04_state_machine : forall order, is_ordering2 order -> forall log_interval d cand st a b depth r p v,
  a < b -> - InfinityScore <= a -> b <= InfinityScore -> quiet st -> top st = Ok p ->
  alpha_beta_i order log_interval d cand st a b depth = Ok r -> minimax d p depth = Ok v -> tree_ok d p depth -> bc a b (iv r) v.
Proof. exact alpha_beta_i_value. Qed.
Theorem C04_state_machine_root : forall order, is_ordering2 order -> forall log_interval d cand st r one p v,
  quiet st -> top st = Ok p -> root_search_i order log_interval (S d) cand st = Ok (r, one) -> minimax (S d) p 0 = Ok v -> tree_ok (S d) p 0 ->
  (forall ms m p' w, gen_legal p = Ok ms -> In m ms -> make_legal p (rm m) = Ok p' -> minimax d p' 1 = Ok w -> - w <= - LostScore - 1) ->
  - InfinityScore < v -> iv r = v.
Proof. exact root_search_i_value. Qed.
(* the side condition is decidable by running the reference: minimax_s returns the value and whether the tree has a sensitive node *)
Theorem C04_side_condition_computable : forall d p depth v s, minimax_s d p depth = Ok (v, s) -> minimax d p depth = Ok v /\ (s = false -> tree_ok d p depth).
Proof. exact minimax_s_ok. Qed.

Print Assumptions C04_alpha_beta.
Print Assumptions C04_state_machine.
Print Assumptions C04_state_machine_root.
Print Assumptions C04_side_condition_computable.
Print Assumptions C04_quiescence.
Print Assumptions C04_in_window.
Print Assumptions C04_root_value.
