(* Property C16, session level: no command other than `position` changes the game position -- go (whatever the search does,
   however it ends), perft, tperft, eval, tostr, isready, setoption, stop, uci, help, junk.  And the search started by `go`
   hands the position stack back exactly as it received it (one slot, the game position). *)
From Coq Require Import ZArith List Bool String.
Require Import Str.
Require Import Base Generated Position Make Gen Eval Perft Uci SearchImp SearchImpProofs Session.
Import ListNotations.
Open Scope Z_scope.

Lemma setoption_keeps_pos s arg : s_pos (do_setoption_cmd s arg) = s_pos s.
Proof.
  unfold do_setoption_cmd.
  destruct (split_on " " arg) as [|t0 [|t1 [|t2 [|t3 [|t4 r]]]]]; try reflexivity.
  destruct (str_eqb t0 "name" && str_eqb t2 "value" && str_eqb t1 "currmoveLogInterval"); [|reflexivity].
  destruct (atoi t3) as [v|]; [|reflexivity].
  destruct ((currmoveLogIntervalMin <=? v) && (v <=? currmoveLogIntervalMax)); reflexivity.
Qed.

Theorem C16_only_position_changes_the_position : forall run_search s e line s' o,
  has_prefix line "position" = false ->
  handle run_search s e line = Ok (s', o) -> s_pos s' = s_pos s.
Proof.
  intros rs s e line s' o NP H. unfold handle in H.
  destruct (str_eqb line "isready"); [inversion H; reflexivity|].
  destruct (str_eqb line "eval"); [destruct (s_pos s) eqn:E; inversion H; subst; congruence|].
  destruct (str_eqb line "quit"); [inversion H; reflexivity|].
  rewrite NP in H.
  destruct (str_eqb line "uci"); [inversion H; reflexivity|].
  destruct (has_prefix line "go").
  { unfold do_go_cmd in H. destruct (s_pos s) as [p|] eqn:P; [|inversion H; subst; congruence].
    destruct (parse_go _ _) as [a|]; [|inversion H; subst; cbn; congruence].
    destruct (allotted_ns _ a); [|discriminate]. cbn [bind] in H.
    destruct (rs _ _ _) as [stf|]; [|discriminate]. cbn [bind] in H. inversion H; subst. cbn. congruence. }
  destruct (str_eqb line "stop"); [inversion H; reflexivity|].
  destruct (has_prefix line "setoption"); [inversion H; apply setoption_keeps_pos|].
  destruct (str_eqb line "tostr"); [inversion H; reflexivity|].
  destruct (has_prefix line "perft"); [destruct (do_perft_cmd _ _ _); [cbn [bind] in H; inversion H; reflexivity|discriminate]|].
  destruct (has_prefix line "tperft"); [destruct (do_perft_cmd _ _ _); [cbn [bind] in H; inversion H; reflexivity|discriminate]|].
  destruct (str_eqb line "help"); inversion H; reflexivity.
Qed.

(* the engine's own search returns the one-slot stack it was given: the position object `go` searched is the game position again *)
Theorem C16_search_hands_the_stack_back : forall order log depth p k polls clock pvclock stf,
  engine_search order log depth (sst0 p k polls clock pvclock) = Ok stf -> st_stack stf = [p].
Proof.
  intros order log depth p k polls clock pvclock stf H. unfold engine_search in H.
  apply iterate_i_stack in H. rewrite H. reflexivity.
Qed.
Print Assumptions C16_only_position_changes_the_position.
Print Assumptions C16_search_hands_the_stack_back.
