(* Property C14: analysis is deterministic and independent of session history and of the logging option. *)
From Coq Require Import ZArith List.
Require Import Str.
Require Import Base Generated Position Make Gen SearchImp Session SessionProofs SearchImpValue.
Open Scope string_scope.

(* an accepted `position` command leaves exactly the same search-relevant state whatever the session was before:
   the position it names and an EMPTY killer table *)
Theorem C14_position_resets : forall run_search s1 s2 e1 e2 arg s1' o1 s2' o2 p,
  handle run_search s1 e1 ("position " ++ arg) = Ok (s1', o1) -> handle run_search s2 e2 ("position " ++ arg) = Ok (s2', o2) ->
  s_pos s1' = Some p -> o1 = nil ->
  s_pos s2' = Some p /\ o2 = nil /\ s_killers s1' = no_killers /\ s_killers s2' = no_killers.
Proof. exact position_resets. Qed.
(* `go` reads only (position, killer table, logging interval); the interval affects nothing but the currmove lines *)
Theorem C14_go_reads_only_position_and_killers : forall order s1 s2 e goline s1' o1 s2' o2,
  s_pos s1 = s_pos s2 -> s_killers s1 = s_killers s2 -> s_log s1 <> 0%Z -> s_log s2 <> 0%Z ->
  has_prefix goline "go" = true -> has_prefix goline "position" = false ->
  handle (engine_search order) s1 e goline = Ok (s1', o1) -> handle (engine_search order) s2 e goline = Ok (s2', o2) ->
  strip_out o1 = strip_out o2 /\ s_killers s1' = s_killers s2' /\ s_pos s1' = s_pos s1.
Proof. exact go_after_position_history_independent. Qed.
(* the search itself: scores, lines, node counts, killer table, final stack are independent of the logging interval *)
Theorem C14_logging_option_irrelevant : forall order l1 l2 n st, l1 <> 0%Z -> l2 <> 0%Z ->
  smap_obs (iterate_i order l1 n st) = smap_obs (iterate_i order l2 n st).
Proof. exact iterate_i_log_independent. Qed.

Print Assumptions C14_position_resets.
Print Assumptions C14_go_reads_only_position_and_killers.
Print Assumptions C14_logging_option_irrelevant.
