(* Property C18, tie to the source: killerSlot of engine/search.go, translated from the source text on every run, is the model's
   killer_slot for every int16 ply (negative ones included), hence always inside the table. *)
From Coq Require Import ZArith List String.
Require Import Base Generated SearchImp GoLang GeneratedFns GoFnsProofs.
Import ListNotations.
Open Scope Z_scope.

Theorem C18_source_killerSlot : forall ply, -32768 <= ply <= 32767 ->
  run_fn fn_killerSlot [ply] [] = Ok (Returned (killer_slot ply)).
Proof. exact killerSlot_translated. Qed.
Theorem C18_killer_slot_in_table : forall ply, 0 <= killer_slot ply < killerMovesMaxPly.
Proof. intros ply. unfold killer_slot. apply Z.mod_pos_bound. reflexivity. Qed.
Print Assumptions C18_source_killerSlot.
Print Assumptions C18_killer_slot_in_table.
