(* The few functions of Go's strings / strconv packages the engine uses, over Coq strings (bytes). *)
From Coq Require Export String Ascii.
Require Import Base.
Open Scope string_scope.
Open Scope Z_scope.

Definition code (c : ascii) : Z := Z.of_N (N_of_ascii c).
Definition ascii_eqb (a b : ascii) : bool := (code a =? code b).

Fixpoint str_eqb (a b : string) : bool :=
  match a, b with
  | EmptyString, EmptyString => true
  | String x a', String y b' => ascii_eqb x y && str_eqb a' b'
  | _, _ => false end.
Fixpoint has_prefix (s pre : string) : bool :=
  match pre with
  | EmptyString => true
  | String c pre' => match s with String d s' => ascii_eqb c d && has_prefix s' pre' | EmptyString => false end
  end.
Fixpoint drop (n : nat) (s : string) : string :=
  match n, s with O, _ => s | S k, String _ s' => drop k s' | S _, EmptyString => EmptyString end.
Fixpoint take (n : nat) (s : string) : string :=
  match n, s with O, _ => EmptyString | S k, String c s' => String c (take k s') | S _, EmptyString => EmptyString end.
Definition trim_prefix (s pre : string) : string := if has_prefix s pre then drop (String.length pre) s else s.
(* strings.CutPrefix *)
Definition cut_prefix (s pre : string) : option string := if has_prefix s pre then Some (drop (String.length pre) s) else None.

(* strings.Index: byte offset of the first occurrence, None for -1 *)
Fixpoint index_str (s sub : string) : option nat :=
  if has_prefix s sub then Some O else
  match s with EmptyString => None | String _ s' => option_map S (index_str s' sub) end.
Definition contains (s sub : string) : bool := match index_str s sub with Some _ => true | None => false end.
Fixpoint contains_char (s : string) (c : ascii) : bool :=
  match s with EmptyString => false | String d s' => ascii_eqb c d || contains_char s' c end.

(* strings.Split(s, sep) for a one-byte separator: always at least one piece *)
Fixpoint split_on (sep : ascii) (s : string) : list string :=
  match s with
  | EmptyString => [EmptyString]
  | String c s' =>
      if ascii_eqb c sep then EmptyString :: split_on sep s'
      else match split_on sep s' with
           | [] => [String c EmptyString]            (* unreachable: split_on never returns [] *)
           | h :: t => String c h :: t end
  end.

(* ASCII white space as unicode.IsSpace sees single bytes: \t \n \v \f \r and space *)
Definition is_space (c : ascii) : bool := let n := code c in ((9 <=? n) && (n <=? 13)) || (n =? 32).
Fixpoint trim_left (s : string) : string :=
  match s with String c s' => if is_space c then trim_left s' else s | EmptyString => EmptyString end.
Fixpoint rev_str (s : string) (acc : string) : string :=
  match s with EmptyString => acc | String c s' => rev_str s' (String c acc) end.
Definition trim_space (s : string) : string := rev_str (trim_left (rev_str (trim_left s) EmptyString)) EmptyString.

Definition lower (c : ascii) : ascii :=
  let n := code c in if (65 <=? n) && (n <=? 90) then ascii_of_N (Z.to_N (n + 32)) else c.
Fixpoint to_lower (s : string) : string :=
  match s with EmptyString => EmptyString | String c s' => String (lower c) (to_lower s') end.
Fixpoint is_ascii (s : string) : bool :=
  match s with EmptyString => true | String c s' => (code c <=? 127) && is_ascii s' end.
Definition nth_char (s : string) (i : nat) : option ascii := String.get i s.

(* strconv.Atoi: optional sign, one or more decimal digits, value within int64 (int on amd64) *)
Definition is_digit (c : ascii) : bool := (48 <=? code c) && (code c <=? 57).
Fixpoint digits_val (s : string) (acc : Z) : option Z :=
  match s with
  | EmptyString => Some acc
  | String c s' => if is_digit c then digits_val s' (acc * 10 + (code c - 48)) else None
  end.
Definition atoi (s : string) : option Z :=
  let '(neg, body) := match s with
                      | String "-"%char r => (true, r)
                      | String "+"%char r => (false, r)
                      | _ => (false, s) end in
  match body with
  | EmptyString => None
  | _ => match digits_val body 0 with
         | Some v => let v' := if neg then - v else v in
                     if (- 9223372036854775808 <=? v') && (v' <=? 9223372036854775807) then Some v' else None
         | None => None end
  end.

(* decimal rendering of an integer (fmt %d) *)
Fixpoint pos_digits (fuel : nat) (n : Z) (acc : string) : string :=
  match fuel with O => acc | S f =>
    let acc' := String (ascii_of_N (Z.to_N (48 + n mod 10))) acc in
    if n / 10 =? 0 then acc' else pos_digits f (n / 10) acc' end.
Definition itoa (z : Z) : string :=
  if z <? 0 then String "-"%char (pos_digits 40 (- z) EmptyString) else pos_digits 40 z EmptyString.
