(* engine/position.go MakeMove, killPiece, killPawn, moveRook, appendPiece; movegen.go isLegal. *)
Require Import Base Generated Position Attack.

Record move := { mfrom : Z; mto : Z; mpromo : option kind; mep : Z }.
Definition new_move f t := {| mfrom := f; mto := t; mpromo := None; mep := INVALID |}.
Definition okind_eqb (a b : option kind) := match a, b with None, None => true | Some x, Some y => kind_eqb x y | _, _ => false end.
Definition move_eqb (a b : move) : bool :=
  (mfrom a =? mfrom b) && (mto a =? mto b) && okind_eqb (mpromo a) (mpromo b) && (mep a =? mep b).

Definition kill (why : Z) (l : list Z) (k : Z) : result (list Z) :=
  match index_of k l with Some i => Ok (swap_remove l i) | None => Panic why end.
Definition append_cap (why : Z) (cap : nat) (l : list Z) (s : Z) : result (list Z) :=
  if (length l <? cap)%nat then Ok (l ++ [s]) else Panic why.

(* MakeMove: returns the new position and the legality verdict (mover's king not attacked afterwards) *)
Definition make (p : pos) (m : move) : result (pos * bool) :=
  let c := cur_color p in let e := opp c in
  let b := board p in
  let from := mfrom m in let to := mto m in
  let cpieces := cur_pieces p in let cpawns := cur_pawns p in let cking := cur_king p in
  let epieces := en_pieces p in let epawns := en_pawns p in let eking := en_king p in
  let crank := castle_rank c in let erank := castle_rank e in
  let moved := get b from in
  let is_pawn := is_pc c Pawn moved in
  (* 1. mover's lists / king / rook *)
  do st1 <-
    (if is_pawn then
       match mpromo m with
       | None => Ok (cpieces, replace_first cpawns from to, cking, b, false)
       | Some _ =>
           match index_of from cpawns with
           | Some i => do cp <- append_cap P_APPEND_PIECE pieceCap cpieces to; Ok (cp, swap_remove cpawns i, cking, b, false)
           | None => Ok (cpieces, cpawns, cking, b, false)
           end
       end
     else if from =? cking then
       if fileof from =? 4 then
         if fileof to =? 2 then
           Ok (replace_first cpieces (0 + crank) (3 + crank), cpawns, to,
               set (set b (0 + crank) Empty) (3 + crank) (Pc c Rook), true)
         else if fileof to =? 6 then
           Ok (replace_first cpieces (7 + crank) (5 + crank), cpawns, to,
               set (set b (7 + crank) Empty) (5 + crank) (Pc c Rook), true)
         else Ok (cpieces, cpawns, to, b, true)
       else Ok (cpieces, cpawns, to, b, true)
     else Ok (replace_first cpieces from to, cpawns, cking, b, false));
  let '(cpieces1, cpawns1, cking1, b1, king_moved) := st1 in
  (* 2. castling rights *)
  let cK := (if wturn p then wK p else bK p) && negb king_moved && negb ((fileof from =? 7) && (rankof from =? crank)) in
  let cQ := (if wturn p then wQ p else bQ p) && negb king_moved && negb ((fileof from =? 0) && (rankof from =? crank)) in
  let eK := (if wturn p then bK p else wK p) && negb ((fileof to =? 7) && (rankof to =? erank)) in
  let eQ := (if wturn p then bQ p else wQ p) && negb ((fileof to =? 0) && (rankof to =? erank)) in
  (* 3. capture on the destination square *)
  let target := get b1 to in
  do st2 <-
    (match target with
     | Empty => Ok (epieces, epawns)
     | _ => if is_pc e King target then Ok (epieces, epawns)
            else if is_pc e Pawn target then do ep' <- kill P_KILL_PAWN epawns to; Ok (epieces, ep')
            else do ep' <- kill P_KILL_PIECE epieces to; Ok (ep', epawns)
     end);
  let '(epieces1, epawns1) := st2 in
  (* 4. board update, en passant kill *)
  do st3 <-
    (match mpromo m with
     | None =>
         let b2 := set b1 to (get b1 from) in
         if (ep p =? to) && is_pc c Pawn (get b2 from) then
           let ks := fileof to + rankof from in
           do ep' <- kill P_KILL_PAWN epawns1 ks; Ok (set b2 ks Empty, ep')
         else Ok (b2, epawns1)
     | Some k => Ok (set b1 to (Pc c k), epawns1)
     end);
  let '(b3, epawns2) := st3 in
  let b4 := set b3 from Empty in
  let ply' := int16 (ply p + 1) in
  let p' := if wturn p then
    {| board := b4; bpieces := epieces1; wpieces := cpieces1; bpawns := epawns2; wpawns := cpawns1; bking := eking; wking := cking1;
       wturn := false; wK := cK; wQ := cQ; bK := eK; bQ := eQ; ep := mep m; ply := ply' |}
  else
    {| board := b4; bpieces := cpieces1; wpieces := epieces1; bpawns := cpawns1; wpawns := epawns2; bking := cking1; wking := eking;
       wturn := true; wK := eK; wQ := eQ; bK := cK; bQ := cQ; ep := mep m; ply := ply' |} in
  Ok (p', negb (is_under_check b4 epieces1 epawns2 eking cking1)).

(* isLegal: MakeMove on a scratch copy.  A panic inside is propagated. *)
Definition is_legal_r (p : pos) (m : move) : result bool :=
  do r <- make p m; Ok (snd r).
(* total version used by the pure generators; agrees with is_legal_r whenever that is Ok (lemma) *)
Definition is_legal (p : pos) (m : move) : bool :=
  match make p m with Ok (_, ok) => ok | Panic _ => false end.

(* PushMove / ApplyUciMove: panic when the move turns out illegal *)
Definition make_legal (p : pos) (m : move) : result pos :=
  do r <- make p m; if snd r then Ok (fst r) else Panic P_ILLEGAL_PUSH.
