(* Property C07, main statement: the `position` command sets up exactly the position the rules of chess define.
   The engine replays the move texts with ApplyUciMove / MakeMove on its own representation (Uci.apply_moves); the
   rules replay them with Spec.apply on (file, rank) boards (spec_play below).  For a legal move list the two end in
   the same position (pos_equiv: boards extensionally, turn, castling rights, en-passant square, ply).
   Uses the proved statement about MakeMove (MakeProofs.make_spec) and the invariance of the rules under pos_equiv
   (CountProofs.apply_ext / legal_ext).  No axioms, no hypotheses. *)
From Coq Require Import ZArith List Bool Lia ZifyBool.
Require Import Str.
Require Import Base Generated Position Attack Make Gen Fen Uci WF SearchImp Session.
Require Spec.
Require Import Abs MakeSpec.
Require FenProofs MakeProofs CountProofs.
Require Import SessionProofs.
Import ListNotations.
Open Scope Z_scope.

(* ====================================================================== *)
(* the rules' side: replaying move texts with Spec.apply                   *)
(* ====================================================================== *)
(* the rules' move a text denotes (absm forgets the en-passant target the engine attaches to its moves) *)
Definition text_move (s : string) : option Spec.move := option_map absm (parse_move s).

(* None when a text does not parse *)
Fixpoint spec_play (a : Spec.position) (ms : list string) : option Spec.position :=
  match ms with
  | [] => Some a
  | s :: rest => match text_move s with Some m => spec_play (Spec.apply a m) rest | None => None end
  end.

(* legality of the list stated on the rules' side alone *)
Fixpoint spec_moves_legal (a : Spec.position) (ms : list string) : Prop :=
  match ms with
  | [] => True
  | s :: rest => exists m, text_move s = Some m /\ Spec.legal a m = true /\ spec_moves_legal (Spec.apply a m) rest
  end.

Lemma pos_equiv_refl a : pos_equiv a a.
Proof. unfold pos_equiv. repeat split; reflexivity. Qed.
Lemma pos_equiv_trans a b c : pos_equiv a b -> pos_equiv b c -> pos_equiv a c.
Proof.
  unfold pos_equiv. intros (B1 & T1 & K1 & Q1 & E1 & P1) (B2 & T2 & K2 & Q2 & E2 & P2).
  split; [intros x; rewrite B1; apply B2|]. split; [congruence|].
  split; [intros x; rewrite K1; apply K2|]. split; [intros x; rewrite Q1; apply Q2|]. split; congruence.
Qed.

Lemma spec_play_ext : forall ms a b, pos_equiv a b ->
  match spec_play a ms, spec_play b ms with Some a', Some b' => pos_equiv a' b' | None, None => True | _, _ => False end.
Proof.
  induction ms as [|s rest IH]; intros a b E; cbn [spec_play]; [exact E|].
  destruct (text_move s) as [m|]; [|exact I]. apply IH. apply CountProofs.apply_ext. exact E.
Qed.

(* ====================================================================== *)
(* 1. the move list                                                        *)
(* ====================================================================== *)
(* one step, with the proved make_spec *)
Lemma apply_uci_step p m : wf_legal p = true -> Position.ply p + 1 < 32767 ->
  validb (mfrom m) = true -> validb (mto m) = true -> mep m = INVALID ->
  Spec.legal (abs p) (absm m) = true ->
  exists p', apply_uci p m = Ok p' /\ wf_legal p' = true /\ Position.ply p' = Position.ply p + 1
             /\ pos_equiv (abs p') (Spec.apply (abs p) (absm m)).
Proof. exact (apply_uci_legal MakeProofs.make_spec p m). Qed.

Lemma apply_moves_refines_gen : forall ms p a p', wf_legal p = true -> Position.ply p + Z.of_nat (List.length ms) < 32767 ->
  pos_equiv (abs p) a -> moves_legal p ms -> apply_moves p ms = Ok (PosSet p') ->
  exists a', spec_play a ms = Some a' /\ pos_equiv (abs p') a'.
Proof.
  induction ms as [|s rest IH]; intros p a p' W B E ML H.
  - cbn in H. injection H as <-. exists a. split; [reflexivity | exact E].
  - cbn [List.length] in B. destruct ML as (m & PM & L & K). destruct (parse_move_ok _ _ PM) as (Hf & Ht & He).
    destruct (apply_uci_step p m W ltac:(lia) Hf Ht He L) as (p1 & A & W1 & P1 & Q1).
    cbn [apply_moves] in H. rewrite PM, A in H. cbn [bind] in H.
    cbn [spec_play]. unfold text_move. rewrite PM. cbn [option_map].
    apply (IH p1 (Spec.apply a (absm m)) p' W1 ltac:(lia)); [|exact (K p1 A) | exact H].
    eapply pos_equiv_trans; [exact Q1|]. apply CountProofs.apply_ext. exact E.
Qed.

Theorem apply_moves_refines : forall ms p p', wf_legal p = true -> Position.ply p + Z.of_nat (List.length ms) < 32767 ->
  moves_legal p ms -> apply_moves p ms = Ok (PosSet p') ->
  exists a', spec_play (abs p) ms = Some a' /\ pos_equiv (abs p') a'.
Proof. intros ms p p' W B ML H. eapply apply_moves_refines_gen; eauto. apply pos_equiv_refl. Qed.

(* existence and refinement together *)
Theorem apply_moves_correct : forall ms p, wf_legal p = true -> Position.ply p + Z.of_nat (List.length ms) < 32767 ->
  moves_legal p ms ->
  exists p' a', apply_moves p ms = Ok (PosSet p') /\ wf_legal p' = true
                /\ Position.ply p' = Position.ply p + Z.of_nat (List.length ms)
                /\ spec_play (abs p) ms = Some a' /\ pos_equiv (abs p') a'.
Proof.
  intros ms p W B ML. destruct (apply_moves_legal MakeProofs.make_spec ms p W B ML) as (p' & A & W' & P').
  destruct (apply_moves_refines ms p p' W B ML A) as (a' & S & Q). exists p', a'. auto.
Qed.

(* legality stated on the rules' side implies the (mixed) moves_legal of SessionProofs *)
Lemma spec_moves_legal_model : forall ms p a, wf_legal p = true -> Position.ply p + Z.of_nat (List.length ms) < 32767 ->
  pos_equiv (abs p) a -> spec_moves_legal a ms -> moves_legal p ms.
Proof.
  induction ms as [|s rest IH]; intros p a W B E SL; [exact I|].
  cbn [List.length] in B. destruct SL as (sm & TM & L & K). unfold text_move in TM.
  destruct (parse_move s) as [m|] eqn:PM; [|discriminate]. cbn [option_map] in TM. injection TM as <-.
  rewrite <- (CountProofs.legal_ext _ _ E) in L.
  exists m. split; [exact PM|]. split; [exact L|]. intros p1 A.
  destruct (parse_move_ok _ _ PM) as (Hf & Ht & He).
  destruct (apply_uci_step p m W ltac:(lia) Hf Ht He L) as (p1' & A' & W1 & P1 & Q1).
  rewrite A in A'. injection A' as <-.
  apply (IH p1 (Spec.apply a (absm m)) W1 ltac:(lia)); [|exact K].
  eapply pos_equiv_trans; [exact Q1|]. apply CountProofs.apply_ext. exact E.
Qed.

Theorem apply_moves_correct_spec : forall ms p, wf_legal p = true -> Position.ply p + Z.of_nat (List.length ms) < 32767 ->
  spec_moves_legal (abs p) ms ->
  exists p' a', apply_moves p ms = Ok (PosSet p') /\ wf_legal p' = true
                /\ spec_play (abs p) ms = Some a' /\ pos_equiv (abs p') a'.
Proof.
  intros ms p W B SL. pose proof (spec_moves_legal_model ms p (abs p) W B (pos_equiv_refl _) SL) as ML.
  destruct (apply_moves_correct ms p W B ML) as (p' & a' & A & W' & _ & S & Q). exists p', a'. auto.
Qed.

(* ====================================================================== *)
(* 2. the command text                                                     *)
(* ====================================================================== *)
(* the two parts doPosition cuts the text into *)
Definition start_text (arg : string) : string :=
  match index_str arg "moves" with None => arg | Some i => trim_space (take i arg) end.
Definition move_texts (arg : string) : list string :=
  match index_str arg "moves" with None => [] | Some i => split_on " "%char (trim_space (drop (i + 5) arg)) end.
(* the FEN text parsePosition hands to the loader: the keyword "fen " is optional *)
Definition fen_text (s : string) : string := match cut_prefix s "fen " with Some r => trim_space r | None => s end.

Lemma do_position_eq arg : do_position arg =
  do r <- parse_position (start_text arg);
  match r with None => Ok PosInvalidFen | Some p => apply_moves p (move_texts arg) end.
Proof. unfold do_position, start_text, move_texts. destruct (index_str arg "moves"); reflexivity. Qed.

Lemma parse_position_startpos s : has_prefix s "startpos" = true -> parse_position s = Ok (Some startpos).
Proof. intros H. unfold parse_position. rewrite H. reflexivity. Qed.
Lemma parse_position_fen s p0 : has_prefix s "startpos" = false -> parse_fen (fen_text s) = Ok (FenOk p0) ->
  parse_position s = Ok (Some p0).
Proof. intros H F. unfold parse_position. rewrite H. fold (fen_text s). rewrite F. reflexivity. Qed.
(* and conversely: what parsePosition accepts is startpos or what the loader accepts *)
Lemma parse_position_inv s p0 : parse_position s = Ok (Some p0) ->
  (has_prefix s "startpos" = true /\ p0 = startpos) \/ (has_prefix s "startpos" = false /\ parse_fen (fen_text s) = Ok (FenOk p0)).
Proof.
  unfold parse_position. destruct (has_prefix s "startpos").
  - intros H; injection H as <-. left; auto.
  - fold (fen_text s). destruct (parse_fen (fen_text s)) as [[p|c]|w]; cbn [bind]; intros H; try discriminate.
    injection H as <-. right; auto.
Qed.

(* general form: any accepted start text, then a legal move list *)
Theorem do_position_refines : forall arg p0,
  parse_position (start_text arg) = Ok (Some p0) ->
  Position.ply p0 + Z.of_nat (List.length (move_texts arg)) < 32767 ->
  moves_legal p0 (move_texts arg) ->
  exists p' a', do_position arg = Ok (PosSet p') /\ wf_legal p' = true
                /\ Position.ply p' = Position.ply p0 + Z.of_nat (List.length (move_texts arg))
                /\ spec_play (abs p0) (move_texts arg) = Some a' /\ pos_equiv (abs p') a'.
Proof.
  intros arg p0 PP B ML. rewrite do_position_eq, PP. cbn [bind].
  destruct (parse_position_total (start_text arg)) as (r & E & P). rewrite PP in E. injection E as <-.
  destruct (P p0 eq_refl) as [W _]. apply apply_moves_correct; assumption.
Qed.

(* the same with legality stated by the rules alone *)
Theorem do_position_refines_spec : forall arg p0,
  parse_position (start_text arg) = Ok (Some p0) ->
  Position.ply p0 + Z.of_nat (List.length (move_texts arg)) < 32767 ->
  spec_moves_legal (abs p0) (move_texts arg) ->
  exists p' a', do_position arg = Ok (PosSet p') /\ wf_legal p' = true
                /\ spec_play (abs p0) (move_texts arg) = Some a' /\ pos_equiv (abs p') a'.
Proof.
  intros arg p0 PP B SL.
  destruct (parse_position_total (start_text arg)) as (r & E & P). rewrite PP in E. injection E as <-.
  destruct (P p0 eq_refl) as [W _].
  pose proof (spec_moves_legal_model _ p0 (abs p0) W B (pos_equiv_refl _) SL) as ML.
  destruct (do_position_refines arg p0 PP B ML) as (p' & a' & D & W' & _ & S & Q). exists p', a'. auto.
Qed.

(* ---------- the three syntactic forms of the start ---------- *)
(* "startpos [moves ...]": the ply bound is automatic for any list shorter than 32767 moves *)
Corollary do_position_startpos : forall arg,
  has_prefix (start_text arg) "startpos" = true ->
  Z.of_nat (List.length (move_texts arg)) < 32767 ->
  moves_legal startpos (move_texts arg) ->
  exists p' a', do_position arg = Ok (PosSet p') /\ wf_legal p' = true
                /\ spec_play (abs startpos) (move_texts arg) = Some a' /\ pos_equiv (abs p') a'.
Proof.
  intros arg HS B ML.
  destruct (do_position_refines arg startpos (parse_position_startpos _ HS) B ML) as (p' & a' & D & W & _ & S & Q).
  exists p', a'. auto.
Qed.

(* both FEN spellings load the same position *)
Lemma fen_keyword_same f : fen_text ("fen " ++ f) = trim_space f.
Proof. destruct f; reflexivity. Qed.

(* "fen <FEN> [moves ...]" *)
Corollary do_position_fen_keyword : forall arg f p0,
  start_text arg = ("fen " ++ f)%string -> parse_fen (trim_space f) = Ok (FenOk p0) ->
  Position.ply p0 + Z.of_nat (List.length (move_texts arg)) < 32767 ->
  moves_legal p0 (move_texts arg) ->
  exists p' a', do_position arg = Ok (PosSet p') /\ wf_legal p' = true
                /\ spec_play (abs p0) (move_texts arg) = Some a' /\ pos_equiv (abs p') a'.
Proof.
  intros arg f p0 ST PF B ML.
  assert (PP : parse_position (start_text arg) = Ok (Some p0)).
  { rewrite ST. apply parse_position_fen; [reflexivity|]. rewrite fen_keyword_same. exact PF. }
  destruct (do_position_refines arg p0 PP B ML) as (p' & a' & D & W & _ & S & Q). exists p', a'. auto.
Qed.

(* "<FEN> [moves ...]" without the keyword: the same p0 *)
Corollary do_position_bare_fen : forall arg p0,
  has_prefix (start_text arg) "startpos" = false -> has_prefix (start_text arg) "fen " = false ->
  parse_fen (start_text arg) = Ok (FenOk p0) ->
  Position.ply p0 + Z.of_nat (List.length (move_texts arg)) < 32767 ->
  moves_legal p0 (move_texts arg) ->
  exists p' a', do_position arg = Ok (PosSet p') /\ wf_legal p' = true
                /\ spec_play (abs p0) (move_texts arg) = Some a' /\ pos_equiv (abs p') a'.
Proof.
  intros arg p0 NS NF PF B ML.
  assert (PP : parse_position (start_text arg) = Ok (Some p0)).
  { apply parse_position_fen; [exact NS|]. unfold fen_text, cut_prefix. rewrite NF. exact PF. }
  destruct (do_position_refines arg p0 PP B ML) as (p' & a' & D & W & _ & S & Q). exists p', a'. auto.
Qed.

(* without a move list the position is the start itself *)
Corollary do_position_no_moves : forall arg p0, index_str arg "moves" = None ->
  parse_position arg = Ok (Some p0) -> do_position arg = Ok (PosSet p0) /\ wf_legal p0 = true.
Proof.
  intros arg p0 NM PP. unfold do_position. rewrite NM, PP. split; [reflexivity|].
  destruct (parse_position_total arg) as (r & E & P). rewrite PP in E. injection E as <-. apply (P p0 eq_refl).
Qed.

(* how the text is cut, on the literal startpos forms *)
Example start_text_startpos : start_text "startpos" = "startpos"%string /\ move_texts "startpos" = [].
Proof. split; reflexivity. Qed.
Example start_text_startpos_moves mv :
  start_text ("startpos moves " ++ mv) = "startpos"%string /\
  move_texts ("startpos moves " ++ mv) = split_on " "%char (trim_space (String " "%char mv)).
Proof. split; reflexivity. Qed.

(* ====================================================================== *)
(* 3. the input line                                                       *)
(* ====================================================================== *)
Theorem handle_position_refines : forall run_search s e arg p0,
  let cmd := trim_space (String " "%char arg) in
  parse_position (start_text cmd) = Ok (Some p0) ->
  Position.ply p0 + Z.of_nat (List.length (move_texts cmd)) < 32767 ->
  moves_legal p0 (move_texts cmd) ->
  exists s' p' a', handle run_search s e ("position " ++ arg) = Ok (s', [])
     /\ s_pos s' = Some p' /\ s_killers s' = no_killers /\ wf_legal p' = true
     /\ spec_play (abs p0) (move_texts cmd) = Some a' /\ pos_equiv (abs p') a'.
Proof.
  intros rs s e arg p0 cmd PP B ML. rewrite handle_position_literal. fold cmd.
  destruct (do_position_refines cmd p0 PP B ML) as (p' & a' & D & W & _ & S & Q).
  unfold do_position_cmd. rewrite D. cbn [bind].
  exists (with_pos s (Some p') no_killers), p', a'. do 3 (split; [reflexivity|]). auto.
Qed.

(* for any line the dispatcher sends to the position handler *)
Theorem handle_position_line_refines : forall run_search s e line p0,
  has_prefix line "position" = true ->
  let cmd := position_arg line in
  parse_position (start_text cmd) = Ok (Some p0) ->
  Position.ply p0 + Z.of_nat (List.length (move_texts cmd)) < 32767 ->
  moves_legal p0 (move_texts cmd) ->
  exists s' p' a', handle run_search s e line = Ok (s', [])
     /\ s_pos s' = Some p' /\ s_killers s' = no_killers /\ wf_legal p' = true
     /\ spec_play (abs p0) (move_texts cmd) = Some a' /\ pos_equiv (abs p') a'.
Proof.
  intros rs s e line p0 HP cmd PP B ML. rewrite handle_position_line by exact HP. fold (position_arg line). fold cmd.
  destruct (do_position_refines cmd p0 PP B ML) as (p' & a' & D & W & _ & S & Q).
  unfold do_position_cmd. rewrite D. cbn [bind].
  exists (with_pos s (Some p') no_killers), p', a'. do 3 (split; [reflexivity|]). auto.
Qed.

(* with legality stated by the rules alone *)
Theorem handle_position_refines_spec : forall run_search s e arg p0,
  let cmd := trim_space (String " "%char arg) in
  parse_position (start_text cmd) = Ok (Some p0) ->
  Position.ply p0 + Z.of_nat (List.length (move_texts cmd)) < 32767 ->
  spec_moves_legal (abs p0) (move_texts cmd) ->
  exists s' p' a', handle run_search s e ("position " ++ arg) = Ok (s', [])
     /\ s_pos s' = Some p' /\ s_killers s' = no_killers /\ wf_legal p' = true
     /\ spec_play (abs p0) (move_texts cmd) = Some a' /\ pos_equiv (abs p') a'.
Proof.
  intros rs s e arg p0 cmd PP B SL. rewrite handle_position_literal. fold cmd.
  destruct (do_position_refines_spec cmd p0 PP B SL) as (p' & a' & D & W & S & Q).
  unfold do_position_cmd. rewrite D. cbn [bind].
  exists (with_pos s (Some p') no_killers), p', a'. do 3 (split; [reflexivity|]). auto.
Qed.

(* a closed instance, end to end *)
Example position_startpos_e2e4_e7e5 : forall run_search s e,
  exists s' p' a', handle run_search s e "position startpos moves e2e4 e7e5" = Ok (s', [])
     /\ s_pos s' = Some p' /\ wf_legal p' = true
     /\ spec_play (abs startpos) ["e2e4"; "e7e5"]%string = Some a' /\ pos_equiv (abs p') a'.
Proof.
  intros rs s e.
  destruct (handle_position_refines_spec rs s e "startpos moves e2e4 e7e5" startpos) as (s' & p' & a' & H & P & _ & W & S & Q).
  - vm_compute. reflexivity.
  - vm_compute. reflexivity.
  - change (spec_moves_legal (abs startpos) ["e2e4"; "e7e5"]%string). cbn [spec_moves_legal].
    eexists. split; [reflexivity|]. split; [vm_compute; reflexivity|].
    eexists. split; [reflexivity|]. split; [vm_compute; reflexivity | exact I].
  - exists s', p', a'. auto.
Qed.

(* ====================================================================== *)
(* the rules' initial position                                             *)
(* ====================================================================== *)
Example startpos_legal_position : Spec.legal_position (abs startpos) = true.
Proof. vm_compute. reflexivity. Qed.
(* the path counts of the rules from the initial position, via the proved perft_exact (the direct evaluation of
   Spec.paths 2 enumerates 21 x 20480 candidate moves on functional boards and is too slow for the kernel) *)
Lemma startpos_paths n v : Z.of_nat n < 32767 -> Perft.perft n startpos = Ok v -> Spec.paths n (abs startpos) = v.
Proof.
  intros B H. assert (B' : Position.ply startpos + Z.of_nat n < 32767) by (cbn; lia).
  rewrite (CountProofs.perft_exact MakeProofs.make_spec n startpos startpos_wf_legal B') in H.
  injection H as <-. reflexivity.
Qed.
Example startpos_paths1 : Spec.paths 1 (abs startpos) = 20.
Proof. apply startpos_paths; [lia | vm_compute; reflexivity]. Qed.
Example startpos_paths2 : Spec.paths 2 (abs startpos) = 400.
Proof. apply startpos_paths; [lia | vm_compute; reflexivity]. Qed.
Example startpos_paths3 : Spec.paths 3 (abs startpos) = 8902.
Proof. apply startpos_paths; [lia | vm_compute; reflexivity]. Qed.

Print Assumptions apply_moves_refines.
Print Assumptions apply_moves_correct.
Print Assumptions apply_moves_correct_spec.
Print Assumptions do_position_refines.
Print Assumptions do_position_refines_spec.
Print Assumptions do_position_startpos.
Print Assumptions do_position_fen_keyword.
Print Assumptions do_position_bare_fen.
Print Assumptions do_position_no_moves.
Print Assumptions handle_position_refines.
Print Assumptions handle_position_line_refines.
Print Assumptions handle_position_refines_spec.
Print Assumptions position_startpos_e2e4_e7e5.
Print Assumptions startpos_legal_position.
Print Assumptions startpos_paths2.
