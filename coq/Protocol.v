(* The hand-shake between the command thread (engine/uci.go: isready / go / stop handlers) and the search thread
   (engine/search.go) at the granularity of single operations on shared state, after the protocol fix:
     running : atomic flag   (set by `go` before the spawn, cleared by the search thread just before `bestmove`)
     chan    : one-slot buffered channel of stop requests (non-blocking send by `stop`, non-blocking receive by the
               search thread's polls, drained by `go` before it sets running)
     search object: created once, never replaced.
   `interrupted` is private to the search thread.  Sequentially consistent interleaving; the Go memory model below that
   granularity is not modelled (the shared accesses are an atomic.Bool and channel operations). *)
Require Import Base.
From Coq Require Import Lia.
Open Scope Z_scope.

(* where the search thread is *)
Inductive sphase :=
| SIdle                      (* no search thread alive *)
| SSpawned                   (* `go` has returned, thread not yet entered StartIterativeDeepening *)
| SRunning (intr : bool) (fuel : nat)   (* inside the iterations; fuel bounds the work left once interrupted / at all *)
| SFinishing                 (* running := false done, `bestmove` not yet printed *).

(* where the command thread is inside a handler (handlers are sequences of shared operations) *)
Inductive cphase :=
| CIdle                      (* between two input lines *)
| CStopLoaded (r : bool)     (* `stop`: running.Load() returned r, the send is still to come *)
| CGoDrained                 (* `go`: channel drained, running.Store(true) still to come *)
| CGoStored.                 (* `go`: running = true, spawn still to come *)

Record pstate := {
  running : bool;
  chan : option nat;           (* pending stop request, tagged (ghost) with the number of the go it was meant for *)
  sp : sphase;
  cp : cphase;
  go_count : nat;              (* ghost: number of `go` commands accepted so far = id of the current/last search *)
  bestmoves : nat;             (* ghost: number of `bestmove` lines printed *)
  readyoks : nat; isreadys : nat;          (* ghost counters *)
  stop_seen : option nat;      (* ghost: a stop was handled while search #k had running = true *)
  consumed : list (nat * nat)  (* ghost: (search id, token tag) for every token a search received *)
}.

Definition init : pstate := {| running := false; chan := None; sp := SIdle; cp := CIdle; go_count := 0; bestmoves := 0;
  readyoks := 0; isreadys := 0; stop_seen := None; consumed := [] |}.

Inductive label :=
(* command thread *)
| LIsReady                     (* whole handler: no shared operation besides the nil test of its own variable *)
| LStopLoad | LStopSend        (* the two shared operations of `stop` *)
| LGoDrain | LGoStore | LGoSpawn
| LOther                       (* any other command: touches nothing shared *)
(* search thread *)
| LEnter                       (* StartIterativeDeepening entered: interrupted := false *)
| LWork                        (* search some more (a node, a move) *)
| LPoll                        (* select on the channel *)
| LComplete                    (* iterations ended (depth limit, deadline, mate found, interruption honoured) : running := false *)
| LPrint                       (* bestmove printed, thread exits *).

Definition upd_cp s c := {| running := running s; chan := chan s; sp := sp s; cp := c; go_count := go_count s; bestmoves := bestmoves s;
  readyoks := readyoks s; isreadys := isreadys s; stop_seen := stop_seen s; consumed := consumed s |}.

(* UCI precondition: while a search thread is alive the GUI sends no `go` *)
Definition step (s : pstate) (l : label) : option pstate :=
  match l, cp s, sp s with
  | LIsReady, CIdle, _ =>
      Some {| running := running s; chan := chan s; sp := sp s; cp := CIdle; go_count := go_count s; bestmoves := bestmoves s;
              readyoks := S (readyoks s); isreadys := S (isreadys s); stop_seen := stop_seen s; consumed := consumed s |}
  | LOther, CIdle, _ => Some s
  | LStopLoad, CIdle, _ => Some (upd_cp s (CStopLoaded (running s)))
  | LStopSend, CStopLoaded r, _ =>
      (* if r { select { case stop <- true: default: } } *)
      let ch := if r then match chan s with Some t => Some t | None => Some (go_count s) end else chan s in
      Some {| running := running s; chan := ch; sp := sp s; cp := CIdle; go_count := go_count s; bestmoves := bestmoves s;
              readyoks := readyoks s; isreadys := isreadys s;
              stop_seen := if r then Some (go_count s) else stop_seen s; consumed := consumed s |}
  | LGoDrain, CIdle, SIdle =>
      Some {| running := running s; chan := None; sp := sp s; cp := CGoDrained; go_count := go_count s; bestmoves := bestmoves s;
              readyoks := readyoks s; isreadys := isreadys s; stop_seen := stop_seen s; consumed := consumed s |}
  | LGoStore, CGoDrained, SIdle =>
      Some {| running := true; chan := chan s; sp := sp s; cp := CGoStored; go_count := S (go_count s); bestmoves := bestmoves s;
              readyoks := readyoks s; isreadys := isreadys s; stop_seen := stop_seen s; consumed := consumed s |}
  | LGoSpawn, CGoStored, SIdle =>
      Some {| running := running s; chan := chan s; sp := SSpawned; cp := CIdle; go_count := go_count s; bestmoves := bestmoves s;
              readyoks := readyoks s; isreadys := isreadys s; stop_seen := stop_seen s; consumed := consumed s |}
  | LEnter, _, SSpawned =>
      Some {| running := running s; chan := chan s; sp := SRunning false 1000; cp := cp s; go_count := go_count s; bestmoves := bestmoves s;
              readyoks := readyoks s; isreadys := isreadys s; stop_seen := stop_seen s; consumed := consumed s |}
  | LWork, _, SRunning i (S f) =>
      Some {| running := running s; chan := chan s; sp := SRunning i f; cp := cp s; go_count := go_count s; bestmoves := bestmoves s;
              readyoks := readyoks s; isreadys := isreadys s; stop_seen := stop_seen s; consumed := consumed s |}
  | LPoll, _, SRunning i f =>
      match chan s with
      | Some t => Some {| running := running s; chan := None; sp := SRunning true (Nat.min f 100); cp := cp s; go_count := go_count s; bestmoves := bestmoves s;
                          readyoks := readyoks s; isreadys := isreadys s; stop_seen := stop_seen s; consumed := (go_count s, t) :: consumed s |}
      | None => Some s
      end
  | LComplete, _, SRunning i f =>
      Some {| running := false; chan := chan s; sp := SFinishing; cp := cp s; go_count := go_count s; bestmoves := bestmoves s;
              readyoks := readyoks s; isreadys := isreadys s; stop_seen := stop_seen s; consumed := consumed s |}
  | LPrint, _, SFinishing =>
      Some {| running := running s; chan := chan s; sp := SIdle; cp := cp s; go_count := go_count s; bestmoves := S (bestmoves s);
              readyoks := readyoks s; isreadys := isreadys s; stop_seen := stop_seen s; consumed := consumed s |}
  | _, _, _ => None
  end.

Fixpoint run_labels (s : pstate) (ls : list label) : option pstate :=
  match ls with [] => Some s | l :: r => match step s l with Some s' => run_labels s' r | None => None end end.
Definition reachable (s : pstate) : Prop := exists ls, run_labels init ls = Some s.

(* command-thread labels that the GUI / the handler code may issue next in state s *)
Definition cmd_enabled (s : pstate) (l : label) : bool :=
  match l, cp s with
  | (LIsReady | LOther | LStopLoad), CIdle => true
  | LGoDrain, CIdle => match sp s with SIdle => true | _ => false end     (* UCI: no `go` while a search is alive *)
  | LStopSend, CStopLoaded _ => true
  | LGoStore, CGoDrained => true
  | LGoSpawn, CGoStored => true
  | _, _ => false
  end.

(* ---- the pre-fix protocol, kept for the refutation witnesses: unbuffered channel, flag shared, isready replaces the object ---- *)
Inductive lphase := LgIdle | LgSpawned | LgRunning (fuel : nat) | LgDone.
Record lstate := { l_interrupted : bool; l_sp : lphase; l_blocked : bool; l_bestmoves : nat; l_replaced : bool }.
Definition linit : lstate := {| l_interrupted := true; l_sp := LgIdle; l_blocked := false; l_bestmoves := 0; l_replaced := false |}.
Inductive llabel := GGo | GStop | GIsReady | GEnter | GPollTakes | GFinish.
Definition lstep (s : lstate) (l : llabel) : option lstate :=
  if l_blocked s then (match l with GEnter | GPollTakes | GFinish => Some s | _ => None end) else
  match l, l_sp s with
  | GGo, (LgIdle | LgDone) => Some {| l_interrupted := l_interrupted s; l_sp := LgSpawned; l_blocked := false; l_bestmoves := l_bestmoves s; l_replaced := l_replaced s |}
  | GEnter, LgSpawned => Some {| l_interrupted := false; l_sp := LgRunning 10; l_blocked := false; l_bestmoves := l_bestmoves s; l_replaced := l_replaced s |}
  | GFinish, LgRunning _ => Some {| l_interrupted := l_interrupted s; l_sp := LgDone; l_blocked := false; l_bestmoves := S (l_bestmoves s); l_replaced := l_replaced s |}
  | GIsReady, _ => Some {| l_interrupted := true; l_sp := l_sp s; l_blocked := false; l_bestmoves := l_bestmoves s; l_replaced := true |}
  | GStop, ph =>
      (* if search != nil && !search.interrupted { search.stop <- true }  : unbuffered send blocks until a receiver polls *)
      if l_interrupted s then Some s                                       (* request dropped *)
      else match ph with
           | LgRunning _ => if l_replaced s then Some {| l_interrupted := l_interrupted s; l_sp := ph; l_blocked := true; l_bestmoves := l_bestmoves s; l_replaced := true |}
                            else Some s                                    (* the running search will receive it *)
           | _ => Some {| l_interrupted := l_interrupted s; l_sp := ph; l_blocked := true; l_bestmoves := l_bestmoves s; l_replaced := l_replaced s |}
           end
  | _, _ => None
  end.
Fixpoint lrun (s : lstate) (ls : list llabel) : option lstate :=
  match ls with [] => Some s | l :: r => match lstep s l with Some s' => lrun s' r | None => None end end.
