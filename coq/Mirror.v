(* Colour flip of an engine position (ranks reversed, colours, lists, rights, side to move and ep swapped). *)
Require Import Base Generated Position Attack Make Gen Count Eval.
Open Scope Z_scope.

Definition msq (s : Z) : Z := Z.lxor s 112.                       (* s xor 0x70 *)
Definition mcell (x : cell) : cell := match x with Empty => Empty | Pc c k => Pc (opp c) k end.
Definition mirror_board (b : list cell) : list cell := map (fun i => mcell (get b (msq (Z.of_nat i)))) (seq 0 128).
Definition mirror_pos (p : pos) : pos :=
  {| board := mirror_board (board p);
     bpieces := map msq (wpieces p); wpieces := map msq (bpieces p);
     bpawns := map msq (wpawns p); wpawns := map msq (bpawns p);
     bking := msq (wking p); wking := msq (bking p);
     wturn := negb (wturn p); wK := bK p; wQ := bQ p; bK := wK p; bQ := wQ p;
     ep := if ep p =? INVALID then INVALID else msq (ep p); ply := ply p |}.
Definition mirror_move (m : move) : move :=
  {| mfrom := msq (mfrom m); mto := msq (mto m); mpromo := mpromo m; mep := if mep m =? INVALID then INVALID else msq (mep m) |}.
