(* Property C19: the engine terminates on quit and on end of input. *)
From Coq Require Import List ZArith.
Require Import Str.
Require Import Base Position SearchImp Session ProtocolProofs.
Import ListNotations.

(* whatever the input lines are, after at most one iteration per line plus one the read loop has ended (or a handler crashed,
   which C17 excludes); the search started by `go` is arbitrary *)
Theorem C19_terminates : forall run_search input s, exists r,
  main_loop run_search (S (length input)) s input = r /\ (forall s', r <> StillRunning s').
Proof. exact main_loop_ends. Qed.
Theorem C19_exit_or_crash : forall run_search input s,
  (exists s', main_loop run_search (S (length input)) s input = Exited s') \/ (exists w, main_loop run_search (S (length input)) s input = Crashed w).
Proof. exact main_loop_crash_or_exit. Qed.
(* end of input ends the loop at once, in any state *)
Theorem C19_eof : forall run_search n s, main_loop run_search (S n) s [] = Exited s.
Proof. exact main_loop_eof. Qed.
(* quit ends the loop where it stands: nothing after it is read *)
Theorem C19_quit : forall run_search pre e rest s s1 outs n,
  s_quit s = false -> Session.run run_search s pre = Ok (s1, outs) -> s_quit s1 = false ->
  main_loop run_search (S (S (length pre)) + n) s (pre ++ ("quit"%string, e) :: rest) = Exited (with_quit s1).
Proof. exact main_loop_quit. Qed.

Print Assumptions C19_terminates.
Print Assumptions C19_exit_or_crash.
Print Assumptions C19_eof.
Print Assumptions C19_quit.
