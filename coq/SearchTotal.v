(* The capstone of the search model: iterative deepening (SearchImp.iterate_i) from the initial state of a well-formed
   legal position NEVER panics -- for every move ordering that permutes, every killer table, every oracle stream
   (stop polls, deadline clock, pv clock), every admissible logging interval and every depth 1..MaxSearchDepth.
     PART 1  shape of Ok results (structural, no position hypotheses): the root-move index / root move list are
             untouched, and a value strictly inside the window comes with a written PV row (no stale PV read);
     PART 2  value bounds of alpha_beta_i for all depths (mate band), for all oracle streams;
     PART 3  "the only panics possible are capacity panics": under the chess invariant, every Panic w of
             quiesce_i / alpha_beta_i / root_search_i / iterate_i satisfies cap_panic w;
     PART 4  combination with SearchImpChess2.chess_iterate_i_capacity (no capacity panic): totality.
   No axioms. *)
From Coq Require Import ZArith List Bool Lia Permutation ZifyBool.
Require Import Base Generated Position Attack Make Gen Count Eval Search WF Abs MakeSpec.
Require Import ListProofs AttackProofs MakeProofs GenProofs CountProofs EvalProofs SearchProofs SearchImp SearchImpValue SearchImpChess2.
Require SearchImpProofs SessionProofs Session.
Open Scope Z_scope.

(* ================= PART 1: frames and the shape of Ok results ================= *)
(* [fr a b]: the root bookkeeping read by 'info currmove' is unchanged *)
Definition fr (a b : sst) : Prop := st_first b = st_first a /\ st_root_moves b = st_root_moves a.
(* the currmove index points into the root move list *)
Definition FI (st : sst) : Prop := exists rmv, nth_error (st_root_moves st) (Z.to_nat (st_first st)) = Some rmv.

Lemma fr_refl a : fr a a.
Proof. split; reflexivity. Qed.
Lemma fr_trans a b c : fr a b -> fr b c -> fr a c.
Proof. unfold fr. intros [A1 A2] [B1 B2]. split; congruence. Qed.
Lemma fr_FI a b : fr a b -> FI a -> FI b.
Proof. unfold fr, FI. intros [-> ->] H. exact H. Qed.
Lemma fr_set_nodes a n : fr a (set_nodes a n).
Proof. split; reflexivity. Qed.
Lemma fr_set_stack a s : fr a (set_stack a s).
Proof. split; reflexivity. Qed.
Lemma fr_set_killers a k : fr a (set_killers a k).
Proof. split; reflexivity. Qed.
Lemma fr_emit a e : fr a (emit a e).
Proof. split; reflexivity. Qed.
Lemma fr_pop a : fr a (pop a).
Proof. split; reflexivity. Qed.
Lemma fr_poll a : fr a (poll a).
Proof. unfold poll. destruct (st_polls a); split; reflexivity. Qed.
Lemma fr_time_up a : fr a (snd (time_up a)).
Proof. unfold time_up. destruct (st_clock a); split; reflexivity. Qed.
Lemma fr_check_up a : fr a (snd (check_up a)).
Proof. unfold check_up. destruct (st_intr a); [apply fr_refl | apply fr_time_up]. Qed.
Lemma fr_pv_due a : fr a (snd (pv_print_due a)).
Proof. unfold pv_print_due. destruct (st_pvclock a); split; reflexivity. Qed.
Lemma fr_push st m stp : push st m = Ok stp -> fr st stp.
Proof. intros H. apply push_ok in H. destruct H as (p & p' & _ & _ & ->). apply fr_set_stack. Qed.
Lemma intr_push st m stp : push st m = Ok stp -> st_intr stp = st_intr st.
Proof. intros H. apply push_ok in H. destruct H as (p & p' & _ & _ & ->). reflexivity. Qed.
Lemma intr_check_up st : fst (check_up st) = false -> st_intr (snd (check_up st)) = false.
Proof.
  unfold check_up. destruct (st_intr st) eqn:E; cbn [fst snd]; [discriminate|]. intros _.
  unfold time_up. destruct (st_clock st); cbn [snd st_intr]; exact E.
Qed.
Lemma intr_time_up st : st_intr (snd (time_up st)) = st_intr st.
Proof. unfold time_up. destruct (st_clock st); reflexivity. Qed.

Lemma currmove_step_fr li st1 st2 : currmove_step li st1 = Ok st2 -> fr st1 st2.
Proof.
  unfold currmove_step. destruct (li =? 0); [discriminate|].
  destruct (st_nodes st1 mod li =? 0).
  - destruct (nth_error _ _); intros H; inversion H. apply fr_emit.
  - intros H; inversion H. apply fr_refl.
Qed.
Lemma currmove_step_total li st1 : li <> 0 -> FI st1 -> exists st2, currmove_step li st1 = Ok st2.
Proof.
  intros N (rmv & E). unfold currmove_step. destruct (li =? 0) eqn:Z0; [lia|].
  destruct (st_nodes st1 mod li =? 0); [rewrite E|]; eauto.
Qed.

Lemma extend_some m l ln : extend m l = Ok ln -> ln <> None.
Proof. destruct l; intros H; inversion H. discriminate. Qed.
Lemma extend_ok m l : l <> None -> exists cl, extend m l = Ok (Some (m :: cl)).
Proof. destruct l as [cl|]; [intros _; exists cl; reflexivity | congruence]. Qed.

Section ShapeLoops.
Variable child : sst -> Z -> Z -> result ires.
Hypothesis child_shape : forall stp x y c, child stp x y = Ok c ->
  fr stp (ist c) /\ (x < iv c < y -> iline c <> None).

Lemma q_loop_shape beta l : forall alpha line st r a0,
  a0 <= alpha -> (a0 < alpha -> line <> None) ->
  q_loop child beta l alpha line st = Ok r -> fr st (ist r) /\ (a0 < iv r < beta -> iline r <> None).
Proof.
  induction l as [|m l IH]; intros alpha line st r a0 A0 L0 H.
  - inversion H. cbn [ist iv iline ir]. split; [apply fr_refl|]. intros [X _]. auto.
  - cbn [q_loop] in H. apply bind_ok in H. destruct H as (stp & P & H). apply bind_ok in H. destruct H as (c & C & H).
    cbv zeta in H. destruct (child_shape _ _ _ _ C) as [F1 LC].
    pose proof (fr_trans _ _ _ (fr_trans _ _ _ (fr_push _ _ _ P) F1) (fr_pop (ist c))) as F2.
    pose proof (fr_check_up (poll (pop (ist c)))) as F3. destruct (check_up (poll (pop (ist c)))) as [up st''].
    cbn [snd] in F3. pose proof (fr_trans _ _ _ (fr_trans _ _ _ F2 (fr_poll (pop (ist c)))) F3) as F.
    destruct up; [inversion H; cbn [ist iv iline ir]; split; [exact F | intros [X _]; auto]|].
    destruct (- iv c >=? beta) eqn:E1; [inversion H; cbn [ist iv iline ir]; split; [exact F | intros [_ X]; lia]|].
    destruct (- iv c >? alpha) eqn:E2.
    + apply bind_ok in H. destruct H as (ln & EX & H). apply extend_some in EX.
      apply (IH _ _ _ _ a0) in H; [ | lia | intros _; exact EX].
      destruct H as [F4 L4]. split; [eapply fr_trans; eauto | exact L4].
    + apply (IH _ _ _ _ a0) in H; [ | exact A0 | exact L0].
      destruct H as [F4 L4]. split; [eapply fr_trans; eauto | exact L4].
Qed.

Lemma ab_loop_i_shape beta p l : forall alpha line st r a0,
  a0 <= alpha -> (a0 < alpha -> line <> None) ->
  ab_loop_i child beta p l alpha line st = Ok r -> fr st (ist r) /\ (a0 < iv r < beta -> iline r <> None).
Proof.
  induction l as [|m l IH]; intros alpha line st r a0 A0 L0 H.
  - inversion H. cbn [ist iv iline ir]. split; [apply fr_refl|]. intros [X _]. auto.
  - cbn [ab_loop_i] in H. destruct (st_intr st).
    { inversion H. cbn [ist iv iline ir]. split; [apply fr_refl|]. intros [X _]. auto. }
    apply bind_ok in H. destruct H as (stp & P & H). apply bind_ok in H. destruct H as (c & C & H).
    cbv zeta in H. destruct (child_shape _ _ _ _ C) as [F1 LC].
    pose proof (fr_trans _ _ _ (fr_trans _ _ _ (fr_push _ _ _ P) F1) (fr_pop (ist c))) as F2.
    destruct (- iv c >=? beta) eqn:E1.
    { inversion H. cbn [ist iv iline ir]. split; [|intros [_ X]; lia].
      destruct (tactical m); [exact F2 | eapply fr_trans; [exact F2 | apply fr_set_killers]]. }
    apply bind_ok in H. destruct H as ([alpha' line'] & AL & H).
    assert (X : a0 <= alpha' /\ (a0 < alpha' -> line' <> None)).
    { destruct (- iv c >? alpha) eqn:E2.
      - apply bind_ok in AL. destruct AL as (ln & EX & AL). apply extend_some in EX. inversion AL; subst.
        split; [lia | intros _; exact EX].
      - inversion AL; subst. split; assumption. }
    destruct X as [A1 L1].
    pose proof (fr_check_up (pop (ist c))) as F3. destruct (check_up (pop (ist c))) as [up st''].
    cbn [snd] in F3. pose proof (fr_trans _ _ _ F2 F3) as F.
    destruct up; [inversion H; cbn [ist iv iline ir]; split; [exact F | intros [X _]; auto]|].
    apply (IH _ _ _ _ a0) in H; [ | exact A1 | exact L1].
    destruct H as [F4 L4]. split; [|exact L4].
    eapply fr_trans; [exact F|]. eapply fr_trans; [apply fr_poll | exact F4].
Qed.
End ShapeLoops.

Section Shape.
Variable order : killer_table -> list move -> Z -> pos -> list rmove -> list rmove.
Variable log_interval : Z.

Lemma quiesce_i_shape : forall fuel cand st a b depth r,
  quiesce_i order log_interval fuel cand st a b depth = Ok r ->
  fr st (ist r) /\ (a < iv r < b -> iline r <> None).
Proof.
  induction fuel as [|f IH]; intros cand st a b depth r H; [discriminate H|].
  rewrite quiesce_i_eq in H. destruct (negb (row_ok depth)); [discriminate|].
  apply bind_ok in H. destruct H as ([score st1] & L & H).
  apply lazy_eval_st_ok in L. destruct L as (p & T & L). inversion L; subst score st1. clear L.
  apply bind_ok in H. destruct H as (st2 & CM & H). apply currmove_step_fr in CM.
  pose proof (fr_trans _ _ _ (fr_set_nodes st (st_nodes st + 1)) CM) as K.
  destruct (lazy_eval p depth a b >=? b) eqn:E1; [inversion H; cbn [ist iv iline ir]; split; [exact K | intros [_ X]; lia]|].
  assert (X : exists alpha1 line1, a <= alpha1 /\ (a < alpha1 -> line1 <> None) /\
     (do p <- top st2; do tms <- gen_tactical p;
      q_loop (fun stp x y => quiesce_i order log_interval f cand stp x y (depth + 1)) b
        (order (st_killers st2) cand depth p tms) alpha1 line1 st2) = Ok r).
  { destruct (lazy_eval p depth a b >? a) eqn:E2; cbv beta iota in H; do 2 eexists; (split; [|split; [|exact H]]);
      [lia | intros _; discriminate | lia | lia]. }
  clear H. destruct X as (alpha1 & line1 & A1 & L1 & H).
  apply bind_ok in H. destruct H as (p2 & _ & H). apply bind_ok in H. destruct H as (tms & _ & H).
  apply (q_loop_shape _ (fun stp x y c Hc => IH _ _ _ _ _ _ Hc) _ _ _ _ _ _ a A1 L1) in H.
  destruct H as [F L]. split; [eapply fr_trans; eauto | exact L].
Qed.

Lemma alpha_beta_i_shape : forall d cand st a b depth r,
  alpha_beta_i order log_interval d cand st a b depth = Ok r ->
  fr st (ist r) /\ (a < iv r < b -> iline r <> None).
Proof.
  induction d as [|k IH]; intros cand st a b depth r H.
  - rewrite alpha_beta_i_eq0 in H. destruct (negb (row_ok depth)); [discriminate|]. eapply quiesce_i_shape; exact H.
  - rewrite alpha_beta_i_eq in H. destruct (negb (row_ok depth)); [discriminate|].
    apply bind_ok in H. destruct H as (p & T & H). apply bind_ok in H. destruct H as (ms & G & H).
    destruct ms as [|m0 ms].
    + apply bind_ok in H. destruct H as (r0 & TS & H). apply terminal_score_st_ok in TS.
      destruct TS as (q & _ & ->). inversion H. cbn [ist iv iline ir fst snd].
      split; [apply fr_set_nodes | intros _; discriminate].
    + apply (ab_loop_i_shape _ (fun stp x y c Hc => IH _ _ _ _ _ _ Hc) _ _ _ _ _ _ _ a (Z.le_refl a)) in H; [exact H|].
      intros X; lia.
Qed.
End Shape.

(* ================= PART 2: value bounds of alpha_beta_i, all depths, all oracle streams ================= *)
Lemma chess_inv_le n m p : (m <= n)%nat -> chess_inv n p -> chess_inv m p.
Proof. unfold chess_inv. intros H [A B]. split; [exact A | lia]. Qed.

Section BoundLoops.
Variable child : sst -> Z -> Z -> result ires.
Variable p : pos.
Variable okm : pos -> Prop.
Variable L : Z.                   (* lower end of the band of this ply *)
Hypothesis child_keeps : forall stp a b c, child stp a b = Ok c -> keeps stp (ist c).
Hypothesis child_lower : forall stp p' x y c, top stp = Ok p' -> okm p' -> st_intr stp = false ->
  child stp x y = Ok c -> Z.min y (L + 1) <= iv c.
Hypothesis child_upper : forall stp p' x y c, top stp = Ok p' -> okm p' ->
  child stp x y = Ok c -> iv c <= Z.max x (- L - 2).

Lemma ab_loop_i_lower_weak beta l : forall alpha line st r,
  ab_loop_i child beta p l alpha line st = Ok r -> Z.min beta alpha <= iv r.
Proof.
  induction l as [|m l IH]; intros alpha line st r H.
  - inversion H. cbn [iv ir]. lia.
  - cbn [ab_loop_i] in H. destruct (st_intr st); [inversion H; cbn [iv ir]; lia|].
    apply bind_ok in H. destruct H as (stp & _ & H). apply bind_ok in H. destruct H as (c & _ & H). cbv zeta in H.
    destruct (- iv c >=? beta) eqn:E1; [inversion H; cbn [iv ir]; lia|].
    apply bind_ok in H. destruct H as ([alpha' line'] & AL & H).
    assert (X : alpha <= alpha').
    { destruct (- iv c >? alpha) eqn:E2.
      - apply bind_ok in AL. destruct AL as (ln & _ & AL). inversion AL; subst. lia.
      - inversion AL; subst. lia. }
    destruct (check_up (pop (ist c))) as [up st''].
    destruct up; [inversion H; cbn [iv ir]; lia|].
    apply IH in H. lia.
Qed.

Lemma ab_loop_i_upper beta l : forall alpha line st r,
  top st = Ok p -> (forall m p', In m l -> make_legal p (rm m) = Ok p' -> okm p') ->
  ab_loop_i child beta p l alpha line st = Ok r -> iv r <= Z.max alpha (- L - 1).
Proof.
  induction l as [|m l IH]; intros alpha line st r T OK H.
  - inversion H. cbn [iv ir]. lia.
  - cbn [ab_loop_i] in H. destruct (st_intr st) eqn:EI; [inversion H; cbn [iv ir]; lia|].
    apply bind_ok in H. destruct H as (stp & P & H). apply bind_ok in H. destruct H as (c & C & H). cbv zeta in H.
    destruct (push_top _ _ _ _ P T) as (p' & M & T' & _).
    assert (EI' : st_intr stp = false) by (rewrite (intr_push _ _ _ P); exact EI).
    pose proof (child_lower stp p' _ _ c T' (OK m p' (or_introl eq_refl) M) EI' C) as LB.
    pose proof (keeps_push_pop _ _ _ _ P (child_keeps _ _ _ _ C)) as K1.
    assert (OK' : forall m p', In m l -> make_legal p (rm m) = Ok p' -> okm p') by (intros; eapply OK; eauto; right; assumption).
    destruct (- iv c >=? beta) eqn:E1; [inversion H; cbn [iv ir]; clear - LB E1; lia|].
    apply bind_ok in H. destruct H as ([alpha' line'] & AL & H).
    assert (X : alpha' <= Z.max alpha (- L - 1)).
    { destruct (- iv c >? alpha) eqn:E2.
      - apply bind_ok in AL. destruct AL as (ln & _ & AL). inversion AL; subst. clear - LB. lia.
      - inversion AL; subst. lia. }
    pose proof (keeps_check_up (pop (ist c))) as K2. destruct (check_up (pop (ist c))) as [up st''].
    cbn [snd] in K2.
    pose proof (keeps_top' _ _ _ (keeps_trans _ _ _ (keeps_trans _ _ _ K1 K2) (keeps_poll st'')) T) as T2.
    destruct up; [inversion H; cbn [iv ir]; exact X|].
    apply (IH _ _ _ _ T2 OK') in H. clear - H X. lia.
Qed.

Lemma ab_loop_i_lower_first beta m l : forall alpha line st r,
  st_intr st = false -> top st = Ok p -> (forall p', make_legal p (rm m) = Ok p' -> okm p') ->
  ab_loop_i child beta p (m :: l) alpha line st = Ok r -> Z.min beta (L + 2) <= iv r.
Proof.
  intros alpha line st r EI T OK H.
  cbn [ab_loop_i] in H. rewrite EI in H.
  apply bind_ok in H. destruct H as (stp & P & H). apply bind_ok in H. destruct H as (c & C & H). cbv zeta in H.
  destruct (push_top _ _ _ _ P T) as (p' & M & T' & _).
  pose proof (child_upper stp p' _ _ c T' (OK p' M) C) as UB.
  destruct (- iv c >=? beta) eqn:E1; [inversion H; cbn [iv ir]; lia|].
  apply bind_ok in H. destruct H as ([alpha' line'] & AL & H).
  assert (X : Z.min beta (L + 2) <= alpha').
  { destruct (- iv c >? alpha) eqn:E2.
    - apply bind_ok in AL. destruct AL as (ln & _ & AL). inversion AL; subst. clear - UB. lia.
    - inversion AL; subst. clear - UB E2. lia. }
  destruct (check_up (pop (ist c))) as [up st''].
  destruct up; [inversion H; cbn [iv ir]; exact X|].
  apply ab_loop_i_lower_weak in H. clear - H X. lia.
Qed.
End BoundLoops.

Section Bounds.
Variable order : killer_table -> list move -> Z -> pos -> list rmove -> list rmove.
Hypothesis order_perm : forall k c d p l, Permutation (order k c d p l) l.
Variable log_interval : Z.

Lemma order_incl : forall k c d p l m, In m (order k c d p l) -> In m l.
Proof. intros k c d p l m H. eapply Permutation_in; [apply order_perm | exact H]. Qed.

Theorem alpha_beta_i_bounds : forall d cand st a b depth r p n,
  top st = Ok p -> chess_inv n p -> (d + 1 <= n)%nat -> 0 <= depth -> depth + Z.of_nat d < bandDepth ->
  alpha_beta_i order log_interval d cand st a b depth = Ok r ->
  (st_intr st = false -> Z.min b (LostScore + depth) <= iv r) /\ iv r <= Z.max a (- LostScore - depth - 1).
Proof.
  induction d as [|k IH]; intros cand st a b depth r p n T I N D0 D1 H.
  - rewrite alpha_beta_i_eq0 in H. destruct (negb (row_ok depth)); [discriminate|]. split.
    + intros _. eapply quiesce_i_lower; [exact T | eapply chess_inv_wf; exact I | lia | exact H].
    + eapply (quiesce_i_upper order order_incl); [exact T | eapply chess_inv_le; [|exact I]; lia | lia | exact H].
  - destruct n as [|n']; [lia|].
    rewrite alpha_beta_i_eq in H. destruct (negb (row_ok depth)); [discriminate|].
    rewrite T in H. cbn [bind] in H. apply bind_ok in H. destruct H as (ms & G & H).
    destruct ms as [|m0 ms].
    + apply bind_ok in H. destruct H as (r0 & TS & H). apply terminal_score_st_ok in TS.
      destruct TS as (q & Tq & ->). assert (q = p) by congruence. subst q. inversion H. cbn [ist iv iline ir fst snd].
      pose proof (terminal_score_range p depth ltac:(unfold bandDepth in *; lia)) as R.
      unfold bandDepth, LostScore, DrawScore in *. clear - R D0 D1. split; [intros _|]; lia.
    + set (sorted := order (st_killers st) cand depth p (m0 :: ms)) in *.
      assert (OK : forall m p', In m sorted -> make_legal p (rm m) = Ok p' -> chess_inv n' p').
      { intros m p' In' M. apply order_incl in In'. eapply chess_inv_legal_step; eauto. }
      assert (CK : forall stp x y c, alpha_beta_i order log_interval k cand stp x y (depth + 1) = Ok c -> keeps stp (ist c))
        by (intros stp x y c Hc; eapply alpha_beta_i_keeps; exact Hc).
      assert (CL : forall stp p' x y c, top stp = Ok p' -> chess_inv n' p' -> st_intr stp = false ->
                alpha_beta_i order log_interval k cand stp x y (depth + 1) = Ok c -> Z.min y (LostScore + depth + 1) <= iv c).
      { intros stp p' x y c T' I' EI Hc.
        destruct (IH cand stp x y (depth + 1) c p' n' T' I' ltac:(lia) ltac:(lia) ltac:(lia) Hc) as [LB _]. specialize (LB EI). lia. }
      assert (CU : forall stp p' x y c, top stp = Ok p' -> chess_inv n' p' ->
                alpha_beta_i order log_interval k cand stp x y (depth + 1) = Ok c -> iv c <= Z.max x (- (LostScore + depth) - 2)).
      { intros stp p' x y c T' I' Hc.
        destruct (IH cand stp x y (depth + 1) c p' n' T' I' ltac:(lia) ltac:(lia) ltac:(lia) Hc) as [_ UB]. lia. }
      split.
      * intros EI. destruct sorted as [|m l] eqn:ES.
        { exfalso. pose proof (order_perm (st_killers st) cand depth p (m0 :: ms)) as PM. fold sorted in PM. rewrite ES in PM.
          apply Permutation_nil in PM. discriminate PM. }
        pose proof (ab_loop_i_lower_first _ p (chess_inv n') (LostScore + depth) CK CL CU b m l a None st r EI T
                      (fun p' M => OK m p' (or_introl eq_refl) M) H). lia.
      * pose proof (ab_loop_i_upper _ p (chess_inv n') (LostScore + depth) CK CL CU b sorted a None st r T OK H). lia.
Qed.
End Bounds.

(* ================= PART 3: the only panics possible are capacity panics ================= *)
Lemma cap_stack : cap_panic P_STACK.
Proof. right; left; reflexivity. Qed.
Lemma cap_row : cap_panic P_PV_ROW.
Proof. left; reflexivity. Qed.
Lemma cap_fuel : cap_panic P_FUEL.
Proof. right; right; reflexivity. Qed.

Lemma push_nc st m p p' w : top st = Ok p -> make_legal p m = Ok p' -> push st m = Panic w -> cap_panic w.
Proof.
  intros T M. unfold push. destruct (plyBufferCapacity <=? ply_idx st + 1).
  - intros H; inversion H. apply cap_stack.
  - rewrite T. cbn [bind]. rewrite M. cbn [bind]. discriminate.
Qed.

Section NcLoops.
Variable child : sst -> Z -> Z -> result ires.
Variable p : pos.
Variable okm : pos -> Prop.
Hypothesis child_keeps : forall stp a b c, child stp a b = Ok c -> keeps stp (ist c).
Hypothesis child_shape : forall stp x y c, child stp x y = Ok c ->
  fr stp (ist c) /\ (x < iv c < y -> iline c <> None).
Hypothesis child_nc : forall stp p' x y w, top stp = Ok p' -> okm p' -> FI stp ->
  child stp x y = Panic w -> cap_panic w.

Definition MO (l : list rmove) : Prop := forall m, In m l -> exists p', make_legal p (rm m) = Ok p' /\ okm p'.
Lemma MO_tail m l : MO (m :: l) -> MO l.
Proof. intros H x I. apply H. right; exact I. Qed.

(* one move: a capacity panic, or the push and the child both returned *)
Lemma step_nc st m x y (k : ires -> result ires) w :
  top st = Ok p -> FI st -> (exists p', make_legal p (rm m) = Ok p' /\ okm p') ->
  (do stp <- push st (rm m); do c <- child stp x y; k c) = Panic w ->
  cap_panic w \/ exists stp c p', push st (rm m) = Ok stp /\ top stp = Ok p' /\ okm p' /\ child stp x y = Ok c /\
                                keeps st (pop (ist c)) /\ fr st (pop (ist c)) /\ k c = Panic w.
Proof.
  intros T F (p' & M & O) H.
  apply bind_panic in H. destruct H as [H | (stp & P & H)]; [left; eapply push_nc; eauto|].
  destruct (push_top _ _ _ _ P T) as (q & Mq & Tq & _). assert (q = p') by congruence. subst q.
  apply bind_panic in H. destruct H as [H | (c & C & H)].
  - left. eapply (child_nc stp p'); [exact Tq | exact O | eapply fr_FI; [eapply fr_push; exact P | exact F] | exact H].
  - right. exists stp, c, p'. repeat (split; [assumption|]).
    split; [eapply keeps_push_pop; [exact P | eapply child_keeps; exact C]|].
    split; [|exact H].
    destruct (child_shape _ _ _ _ C) as [F1 _].
    exact (fr_trans _ _ _ (fr_trans _ _ _ (fr_push _ _ _ P) F1) (fr_pop (ist c))).
Qed.

Lemma q_loop_nc beta l : forall alpha line st w,
  top st = Ok p -> FI st -> MO l -> q_loop child beta l alpha line st = Panic w -> cap_panic w.
Proof.
  induction l as [|m l IH]; intros alpha line st w T F OK H; [discriminate H|].
  cbn [q_loop] in H. apply step_nc in H; [ | exact T | exact F | apply OK; left; reflexivity].
  destruct H as [H | (stp & c & p' & P & T' & O' & C & K & FR & H)]; [exact H|]. cbv zeta in H.
  destruct (child_shape _ _ _ _ C) as [_ LC].
  pose proof (keeps_check_up (poll (pop (ist c)))) as K2. pose proof (fr_check_up (poll (pop (ist c)))) as F2.
  destruct (check_up (poll (pop (ist c)))) as [up st'']. cbn [snd] in K2, F2.
  pose proof (keeps_top' _ _ _ (keeps_trans _ _ _ (keeps_trans _ _ _ K (keeps_poll (pop (ist c)))) K2) T) as T3.
  pose proof (fr_FI _ _ (fr_trans _ _ _ (fr_trans _ _ _ FR (fr_poll (pop (ist c)))) F2) F) as F3.
  destruct up; [discriminate H|]. destruct (- iv c >=? beta) eqn:E1; [discriminate H|].
  destruct (- iv c >? alpha) eqn:E2.
  - destruct (extend_ok (rm m) (iline c) (LC ltac:(lia))) as (cl & EX). rewrite EX in H. cbn [bind] in H.
    eapply IH; [exact T3 | exact F3 | eapply MO_tail; exact OK | exact H].
  - eapply IH; [exact T3 | exact F3 | eapply MO_tail; exact OK | exact H].
Qed.

Lemma ab_loop_i_nc beta l : forall alpha line st w,
  top st = Ok p -> FI st -> MO l -> ab_loop_i child beta p l alpha line st = Panic w -> cap_panic w.
Proof.
  induction l as [|m l IH]; intros alpha line st w T F OK H; [discriminate H|].
  cbn [ab_loop_i] in H. destruct (st_intr st); [discriminate H|].
  apply step_nc in H; [ | exact T | exact F | apply OK; left; reflexivity].
  destruct H as [H | (stp & c & p' & P & T' & O' & C & K & FR & H)]; [exact H|]. cbv zeta in H.
  destruct (child_shape _ _ _ _ C) as [_ LC].
  destruct (- iv c >=? beta) eqn:E1; [discriminate H|].
  apply bind_panic in H. destruct H as [H | ([alpha' line'] & _ & H)].
  { destruct (- iv c >? alpha) eqn:E2; [|discriminate H].
    destruct (extend_ok (rm m) (iline c) (LC ltac:(lia))) as (cl & EX). rewrite EX in H. discriminate H. }
  pose proof (keeps_check_up (pop (ist c))) as K2. pose proof (fr_check_up (pop (ist c))) as F2.
  destruct (check_up (pop (ist c))) as [up st'']. cbn [snd] in K2, F2.
  pose proof (keeps_top' _ _ _ (keeps_trans _ _ _ (keeps_trans _ _ _ K K2) (keeps_poll st'')) T) as T3.
  pose proof (fr_FI _ _ (fr_trans _ _ _ (fr_trans _ _ _ FR F2) (fr_poll st'')) F) as F3.
  destruct up; [discriminate H|].
  eapply IH; [exact T3 | exact F3 | eapply MO_tail; exact OK | exact H].
Qed.

(* the root: the window of a child is (-Infinity, -alpha); the child's value is above -Infinity *)
Hypothesis child_lower : forall stp p' x y c, top stp = Ok p' -> okm p' -> st_intr stp = false ->
  child stp x y = Ok c -> Z.min y (LostScore + 1) <= iv c.

Lemma root_loop_i_nc target sorted l : forall idx alpha line st w,
  top st = Ok p -> 0 <= idx -> (Z.to_nat idx + length l = length sorted)%nat -> alpha < InfinityScore -> MO l ->
  root_loop_i child target sorted l idx alpha line st = Panic w -> cap_panic w.
Proof.
  induction l as [|m l IH]; intros idx alpha line st w T I0 LEN AI OK H; [discriminate H|].
  cbn [root_loop_i] in H. cbv zeta in H.
  pose proof (keeps_set_first st idx sorted) as K0. pose proof (keeps_top' _ _ _ K0 T) as T0.
  assert (F0 : FI (set_first st idx sorted)).
  { unfold FI. cbn [st_first st_root_moves set_first].
    destruct (nth_error sorted (Z.to_nat idx)) as [x|] eqn:E; [eauto|].
    apply nth_error_None in E. cbn [length] in LEN. lia. }
  destruct (st_intr (set_first st idx sorted)) eqn:EI; [discriminate H|].
  apply step_nc in H; [ | exact T0 | exact F0 | apply OK; left; reflexivity].
  destruct H as [H | (stp & c & p' & P & T' & O' & C & K & FR & H)]; [exact H|].
  destruct (child_shape _ _ _ _ C) as [_ LC].
  assert (EI' : st_intr stp = false) by (rewrite (intr_push _ _ _ P); exact EI).
  pose proof (child_lower stp p' _ _ c T' O' EI' C) as LB.
  assert (GT : - InfinityScore < iv c) by (clear - LB AI; unfold InfinityScore, LostScore in *; lia).
  apply bind_panic in H. destruct H as [H | ([[alpha' line'] st1] & A & H)].
  { destruct (- iv c >? alpha) eqn:E2; [|discriminate H].
    destruct (extend_ok (rm m) (iline c) (LC ltac:(lia))) as (cl & EX). rewrite EX in H. cbn [bind] in H.
    destruct (pv_print_due (pop (ist c))) as [due st2]. discriminate H. }
  assert (X : keeps (pop (ist c)) st1 /\ fr (pop (ist c)) st1 /\ alpha' < InfinityScore).
  { destruct (- iv c >? alpha) eqn:E2.
    - apply bind_ok in A. destruct A as (ln & _ & A).
      pose proof (keeps_pv_due (pop (ist c))) as K3. pose proof (fr_pv_due (pop (ist c))) as F3.
      destruct (pv_print_due (pop (ist c))) as [due st2].
      cbn [snd] in K3, F3. destruct ln as [pv|]; [|discriminate]. inversion A. subst alpha' line' st1.
      split; [|split; [|clear - GT; lia]].
      + destruct due; [eapply keeps_trans; [exact K3 | apply keeps_emit] | exact K3].
      + destruct due; [eapply fr_trans; [exact F3 | apply fr_emit] | exact F3].
    - inversion A; subst. split; [apply keeps_refl | split; [apply fr_refl | exact AI]]. }
  destruct X as (K1 & F1 & AI').
  pose proof (keeps_check_up st1) as K2. destruct (check_up st1) as [up st''].
  cbn [snd] in K2.
  pose proof (keeps_trans _ _ _ (keeps_trans _ _ _ (keeps_trans _ _ _ K K1) K2) (keeps_poll st'')) as K3.
  pose proof (keeps_top' _ _ _ K3 T0) as T3.
  destruct up; [discriminate H|]. destruct (next_move_wins (- iv c)); [discriminate H|].
  eapply (IH (idx + 1)); [exact T3 | lia | cbn [length] in LEN; lia | exact AI' | eapply MO_tail; exact OK | exact H].
Qed.
End NcLoops.

Lemma chess_MO_legal n p m : chess_inv (S n) p -> In m (gen_legal_pure p) ->
  exists p', make_legal p (rm m) = Ok p' /\ chess_inv n p'.
Proof.
  intros [Hl Hp] I. assert (Hp1 : ply p + 1 < 32767) by lia.
  destruct (make_legal_generated make_spec p m Hl Hp1 I) as (q & ML & Hl' & PL & _).
  exists q. split; [exact ML|]. split; [exact Hl' | lia].
Qed.

Section Nc.
Variable order : killer_table -> list move -> Z -> pos -> list rmove -> list rmove.
Hypothesis order_perm : forall k c d p l, Permutation (order k c d p l) l.
Variable log_interval : Z.
Hypothesis log_nz : log_interval <> 0.

Let oincl := order_incl order order_perm.

Lemma quiesce_i_nc : forall fuel cand st a b depth p w n,
  top st = Ok p -> chess_inv n p -> (fuel <= n)%nat -> FI st ->
  quiesce_i order log_interval fuel cand st a b depth = Panic w -> cap_panic w.
Proof.
  induction fuel as [|f IH]; intros cand st a b depth p w n T I N F H.
  { change (@Panic ires P_FUEL = Panic w) in H. inversion H. apply cap_fuel. }
  destruct n as [|n']; [lia|].
  rewrite quiesce_i_eq in H. destruct (negb (row_ok depth)); [inversion H; apply cap_row|].
  rewrite (lazy_eval_st_eq _ _ _ _ _ T) in H. cbn [bind] in H. cbv beta iota in H.
  pose proof (fr_FI _ _ (fr_set_nodes st (st_nodes st + 1)) F) as F1.
  destruct (currmove_step_total log_interval _ log_nz F1) as (st2 & CM). rewrite CM in H. cbn [bind] in H.
  pose proof (fr_FI _ _ (currmove_step_fr _ _ _ CM) F1) as F2.
  apply currmove_step_keeps in CM.
  pose proof (keeps_top' _ _ _ (keeps_trans _ _ _ (keeps_set_nodes st (st_nodes st + 1)) CM) T) as T2.
  destruct (lazy_eval p depth a b >=? b); [discriminate H|].
  destruct (if lazy_eval p depth a b >? a then (lazy_eval p depth a b, Some []) else (a, None)) as [alpha1 line1].
  rewrite T2 in H. cbn [bind] in H.
  destruct I as [Hl Hp]. assert (Hp1 : ply p + 1 < 32767) by lia.
  rewrite (gen_tactical_guards_ok make_spec p Hl Hp1) in H. cbn [bind] in H.
  eapply q_loop_nc with (okm := chess_inv n'); [ | | | exact T2 | exact F2 | | exact H].
  - intros stp x y c Hc. eapply quiesce_i_keeps; exact Hc.
  - intros stp x y c Hc. eapply quiesce_i_shape; exact Hc.
  - intros stp p' x y w' T' I' F' Hc. eapply (IH _ _ _ _ _ p' w' n'); [exact T' | exact I' | clear - N; lia | exact F' | exact Hc].
  - intros m In'. apply oincl in In'. rewrite gen_tactical_pure_filter in In'. apply filter_In in In' as [In' _].
    apply chess_MO_legal; [split; assumption | exact In'].
Qed.

Lemma alpha_beta_i_nc : forall d cand st a b depth p w n,
  top st = Ok p -> chess_inv n p -> (d + qfuel <= n)%nat -> FI st ->
  alpha_beta_i order log_interval d cand st a b depth = Panic w -> cap_panic w.
Proof.
  induction d as [|k IH]; intros cand st a b depth p w n T I N F H.
  - rewrite alpha_beta_i_eq0 in H. destruct (negb (row_ok depth)); [inversion H; apply cap_row|].
    eapply (quiesce_i_nc qfuel); [exact T | exact I | lia | exact F | exact H].
  - destruct n as [|n']; [lia|].
    rewrite alpha_beta_i_eq in H. destruct (negb (row_ok depth)); [inversion H; apply cap_row|].
    rewrite T in H. cbn [bind] in H.
    pose proof I as [Hl Hp]. assert (Hp1 : ply p + 1 < 32767) by lia.
    rewrite (gen_guards_ok make_spec p Hl Hp1) in H. cbn [bind] in H.
    destruct (gen_legal_pure p) as [|m0 ms] eqn:EG.
    + unfold terminal_score_st in H. rewrite T in H. discriminate H.
    + eapply ab_loop_i_nc with (okm := chess_inv n'); [ | | | exact T | exact F | | exact H].
      * intros stp x y c Hc. eapply alpha_beta_i_keeps; exact Hc.
      * intros stp x y c Hc. eapply alpha_beta_i_shape; exact Hc.
      * intros stp p' x y w' T' I' F' Hc. eapply (IH _ _ _ _ _ p' w' n'); [exact T' | exact I' | clear - N; lia | exact F' | exact Hc].
      * intros m In'. apply oincl in In'. apply chess_MO_legal; [exact I | rewrite EG; exact In'].
Qed.

Lemma root_search_i_nc : forall t cand st p w n,
  top st = Ok p -> chess_inv n p -> (S (pred t + qfuel) <= n)%nat -> Z.of_nat (pred t) + 1 < bandDepth ->
  root_search_i order log_interval t cand st = Panic w -> cap_panic w.
Proof.
  intros t cand st p w n T I N B H.
  destruct n as [|n']; [lia|].
  rewrite root_search_i_eq in H. destruct (negb (row_ok 0)); [inversion H; apply cap_row|].
  rewrite T in H. cbn [bind] in H.
  pose proof I as [Hl Hp]. assert (Hp1 : ply p + 1 < 32767) by lia.
  rewrite (gen_guards_ok make_spec p Hl Hp1) in H. cbn [bind] in H.
  destruct (gen_legal_pure p) as [|m0 ms] eqn:EG.
  - unfold terminal_score_st in H. rewrite T in H. discriminate H.
  - cbv zeta in H. apply bind_panic in H. destruct H as [H | (r & _ & H)]; [|discriminate H].
    eapply root_loop_i_nc with (okm := chess_inv n'); [ | | | | exact T | | | | | exact H].
    + intros stp x y c Hc. eapply alpha_beta_i_keeps; exact Hc.
    + intros stp x y c Hc. eapply alpha_beta_i_shape; exact Hc.
    + intros stp p' x y w' T' I' F' Hc. eapply (alpha_beta_i_nc (pred t) _ _ _ _ _ p' w' n'); [exact T' | exact I' | lia | exact F' | exact Hc].
    + intros stp p' x y c T' I' EI Hc.
      destruct (alpha_beta_i_bounds order order_perm log_interval (pred t) cand stp x y 1 c p' n' T' I'
                  ltac:(unfold qfuel in *; lia) ltac:(lia) ltac:(lia) Hc) as [LB _].
      specialize (LB EI). lia.
    + lia.
    + cbn [Z.to_nat]. reflexivity.
    + unfold InfinityScore. lia.
    + intros m In'. apply oincl in In'. apply chess_MO_legal; [exact I | rewrite EG; exact In'].
Qed.

(* a root search that starts uninterrupted at a position with a legal move returns a non-empty line:
   SearchImpChess2.chess_root_search_i_1_line for every target depth *)
Lemma root_search_i_line : forall t cand st r one p ms n,
  top st = Ok p -> chess_inv n p -> (pred t + 3 <= n)%nat -> Z.of_nat (pred t) + 1 < bandDepth ->
  st_intr st = false -> gen_legal p = Ok ms -> ms <> [] ->
  root_search_i order log_interval t cand st = Ok (r, one) -> exists m l, iline r = Some (m :: l).
Proof.
  intros t cand st r one p ms n T I N B EI G NE H.
  destruct n as [|n']; [lia|].
  apply SearchImpProofs.root_search_i_inv in H as (p0 & ms0 & T0 & G0 & _ & H).
  assert (p0 = p) by congruence. subst p0. assert (ms0 = ms) by congruence. subst ms0.
  destruct H as [(E & _) | (_ & H)]; [congruence|].
  pose proof (order_perm (st_killers st) cand 0 p ms) as PM.
  remember (order (st_killers st) cand 0 p ms) as sorted eqn:ES. clear ES.
  assert (EM : exists m l, sorted = m :: l).
  { destruct sorted as [|m l]; [apply Permutation_nil in PM; congruence | eauto]. }
  destruct EM as (m & l & EM). rewrite EM in H at 2.
  apply SearchImpProofs.root_loop_i_cons in H. cbv zeta in H.
  destruct H as [(I' & _) | (_ & stp & c & alpha' & line' & st1 & st'' & P & C & A & _ & H)]; [congruence|].
  assert (IM : In m ms) by (eapply Permutation_in; [exact PM | rewrite EM; left; reflexivity]).
  assert (T1 : top (set_first st 0 sorted) = Ok p) by exact T.
  destruct (push_top _ _ _ _ P T1) as (p' & ML & T' & _).
  pose proof (chess_inv_legal_step _ _ _ _ _ I G IM ML) as I'.
  destruct (alpha_beta_i_bounds order order_perm log_interval (pred t) cand stp _ _ 1 c p' n' T' I'
              ltac:(lia) ltac:(lia) ltac:(lia) C) as [_ UB].
  assert (LT : iv c < InfinityScore) by (clear - UB; unfold InfinityScore, LostScore in *; lia).
  assert (L' : exists m t, line' = Some (m :: t)).
  { destruct A as [(A & _) | (_ & cl & st2 & _ & _ & -> & _)]; [lia | eauto]. }
  destruct H as [-> | H]; [exact L'|]. eapply SearchImpProofs.root_loop_i_line; eauto.
Qed.

Section IterNc.
Variable max_depth : nat.
Variable p : pos.
Variable n : nat.
Hypothesis inv_p : chess_inv n p.
Hypothesis n_ok : (max_depth + qfuel + 3 <= n)%nat.
Hypothesis band_ok : Z.of_nat max_depth + 1 < bandDepth.

Lemma deepen_i_nc ms : gen_legal p = Ok ms -> ms <> [] ->
  forall fuel d score done_ best st w,
  top st = Ok p -> st_intr st = false -> (1 <= d)%nat ->
  deepen_i order log_interval max_depth fuel d score done_ best st = Panic w -> cap_panic w.
Proof.
  intros G NE. induction fuel as [|f IH]; intros d score done_ best st w T EI D1 H; [discriminate H|].
  cbn [deepen_i] in H. destruct (max_depth <? d)%nat eqn:E; [discriminate H|].
  apply Nat.ltb_ge in E.
  apply bind_panic in H. destruct H as [H | ([s one'] & RS & H)].
  - eapply (root_search_i_nc d best st p w n); [exact T | exact inv_p | lia | lia | exact H].
  - pose proof (root_search_i_keeps _ _ _ _ _ _ _ RS) as K.
    destruct (root_search_i_line d best st s one' p ms n T inv_p ltac:(lia) ltac:(lia) EI G NE RS) as (m & l & EL).
    pose proof (keeps_time_up (ist s)) as K2. destruct (time_up (ist s)) as [up st']. cbn [snd] in K2.
    pose proof (keeps_trans _ _ _ K K2) as K3.
    destruct up; [discriminate H|]. destruct (st_intr st') eqn:EI'; [discriminate H|].
    rewrite EL in H. cbv zeta in H. destruct ((plies_to_mate (iv s) =? Z.of_nat d) || one'); [discriminate H|].
    pose proof (keeps_trans _ _ _ K3 (keeps_emit st' (EvInfoDepth (Z.of_nat d) (iv s) (st_nodes st') (m :: l)))) as K4.
    eapply IH; [ | | | exact H].
    + eapply keeps_top'; [exact K4 | exact T].
    + exact EI'.
    + lia.
Qed.

Theorem iterate_i_nc : forall st0 w, top st0 = Ok p ->
  iterate_i order log_interval max_depth st0 = Panic w -> cap_panic w.
Proof.
  intros st0 w T H. rewrite iterate_i_eq in H. cbv zeta in H.
  assert (T0 : top (set_nodes (set_intr st0 false) 0) = Ok p) by exact T.
  assert (EI0 : st_intr (set_nodes (set_intr st0 false) 0) = false) by reflexivity.
  set (st := set_nodes (set_intr st0 false) 0) in *. clearbody st.
  pose proof inv_p as [Hl Hp]. assert (Hp1 : ply p + 1 < 32767) by lia.
  pose proof (gen_guards_ok make_spec p Hl Hp1) as G.
  apply bind_panic in H. destruct H as [H | ([s1 one] & RS & H)].
  - eapply (root_search_i_nc 1%nat [] st p w n); [exact T0 | exact inv_p | cbn [pred]; lia | cbn [pred]; unfold bandDepth; lia | exact H].
  - pose proof (root_search_i_keeps _ _ _ _ _ _ _ RS) as K.
    assert (X : exists best1, iline s1 = Some best1 /\ (best1 <> [] -> gen_legal_pure p <> [])).
    { destruct (gen_legal_pure p) as [|m0 ms] eqn:EG.
      - apply SearchImpProofs.root_search_i_inv in RS as (p0 & ms0 & T1 & G0 & _ & RS).
        assert (p0 = p) by congruence. subst p0. assert (ms0 = []) by congruence. subst ms0.
        destruct RS as [(_ & v & ->) | (NE & _)]; [|congruence]. exists []. split; [reflexivity | congruence].
      - destruct (root_search_i_line 1%nat [] st s1 one p (m0 :: ms) n T0 inv_p ltac:(cbn [pred]; lia)
                    ltac:(cbn [pred]; unfold bandDepth; lia) EI0 G ltac:(discriminate) RS) as (m & l & EL).
        exists (m :: l). split; [exact EL | discriminate]. }
    destruct X as (best1 & EL & NE). rewrite EL in H.
    pose proof (keeps_time_up (ist s1)) as K2. destruct (time_up (ist s1)) as [up1 st1]. cbn [snd] in K2.
    pose proof (keeps_trans _ _ _ K K2) as K3.
    apply bind_panic in H. destruct H as [H | ([[[sc dn] bs] sf] & _ & H)].
    + destruct (up1 || st_intr st1 || one || match best1 with [] => true | _ :: _ => false end) eqn:CND; [discriminate H|].
      apply orb_false_elim in CND as [CND TM]. apply orb_false_elim in CND as [CND _]. apply orb_false_elim in CND as [_ EI1].
      eapply (deepen_i_nc (gen_legal_pure p) G); [ | | exact EI1 | | exact H].
      * apply NE. destruct best1; [discriminate TM | discriminate].
      * eapply keeps_top'; [exact K3 | exact T0].
      * lia.
    + destruct bs; discriminate H.
Qed.
End IterNc.
End Nc.

(* ================= PART 4: totality ================= *)
Theorem chess_iterate_i_total : forall order,
  (forall k c d p l, Permutation (order k c d p l) l) ->
  forall log_interval max_depth p st0,
  log_interval <> 0 -> wf_legal p = true -> ply p + 200 < 32767 -> (max_depth <= 40)%nat ->
  top st0 = Ok p -> ply_idx st0 = 0 ->
  exists stf, iterate_i order log_interval max_depth st0 = Ok stf.
Proof.
  intros order OP log_interval max_depth p st0 LN Hl Hp Hd T D.
  destruct (iterate_i order log_interval max_depth st0) as [stf|w] eqn:E; [eexists; reflexivity|].
  exfalso.
  apply (chess_iterate_i_capacity order (order_incl order OP) log_interval max_depth p st0 w Hl Hp Hd T D E).
  eapply (iterate_i_nc order OP log_interval LN max_depth p 150%nat); [ | | | exact T | exact E].
  - split; [exact Hl | lia].
  - unfold qfuel. lia.
  - unfold bandDepth. lia.
Qed.

Theorem engine_search_total : forall order,
  (forall k c d p l, Permutation (order k c d p l) l) ->
  SessionProofs.search_total (Session.engine_search order).
Proof.
  intros order OP log depth p k polls clock pvclock [Hl Hp] LG DP.
  unfold Session.engine_search.
  apply (chess_iterate_i_total order OP log depth p).
  - unfold currmoveLogIntervalMin in LG. lia.
  - exact Hl.
  - unfold SessionProofs.ply_margin in Hp. lia.
  - unfold MaxSearchDepth in DP. lia.
  - reflexivity.
  - reflexivity.
Qed.

Print Assumptions alpha_beta_i_shape.
Print Assumptions alpha_beta_i_bounds.
Print Assumptions alpha_beta_i_nc.
Print Assumptions root_search_i_nc.
Print Assumptions root_search_i_line.
Print Assumptions iterate_i_nc.
Print Assumptions chess_iterate_i_total.
Print Assumptions engine_search_total.
