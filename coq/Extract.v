(* Extraction of the executable model to OCaml for the correspondence oracle.
   Only ExtrOcamlBasic: bool, option, unit, list, prod, sumbool, sumor map to OCaml's, andb/orb are inlined;
   Z, positive, nat, N, ascii, string, spec_float stay the extracted inductive types; no Extract Constant of our own. *)
From Coq Require Extraction ExtrOcamlBasic.
From Magog Require Import Base Generated Position Attack Make Gen Count Eval Perft Str Fen Uci Search Spec Abs WF MakeSpec SearchImp Session Protocol.
Separate Extraction
  Position.startpos Position.cell_byte Position.flags_byte Position.flip_turn
  Attack.in_check Attack.attacked_by
  Make.make Make.make_legal Make.move_eqb
  Gen.gen_legal Gen.gen_tactical Gen.count_tactical Gen.gen_legal_pure
  Count.count_moves
  Eval.evaluate Eval.psq_score Eval.lazy_sensitive Eval.is_checkmate Eval.taper
  Perft.perft Perft.perft_tactical Perft.perft_divide Perft.tperft_divide
  Fen.parse_fen
  Uci.parse_move Uci.move_string Uci.apply_uci Uci.do_position Uci.parse_go Uci.go_defaults Uci.allotted_ns Uci.millis_for_move
  Search.iterate Search.minimax Search.minimax_s Search.root_search
  Abs.spec_legal_codes Abs.spec_tactical_codes Abs.spec_in_check Abs.spec_attacked Abs.spec_legal_position Abs.make_refines Abs.is_mirror_of Abs.att_case Abs.spec_mate_score Abs.line_legal Abs.model_mate_score
  WF.wf WF.wf_legal MakeSpec.make_spec_check
  Session.handle Session.stub_search Session.sess0 Session.quiet_env
  Protocol.step Protocol.init.
