(* Abstraction from the engine model to the specification, and executable comparisons used by the correspondence
   check (and as statements-under-test before they become theorems). *)
From Coq Require Import ZArith List Bool.
Import ListNotations.
Require Import Base Generated Position Attack Make Gen Count.
Require Spec.
Open Scope Z_scope.

Definition sq88 (s : Spec.sq) : Z := snd s * 16 + fst s.
Definition coords (s : Z) : Spec.sq := (Z.land s 15, Z.shiftr s 4).
Definition abs_cell (x : cell) : option Spec.piece := match x with Empty => None | Pc c k => Some (c, k) end.
Definition abs_board (b : list cell) : Spec.board := fun s => if Spec.on s then abs_cell (get b (sq88 s)) else None.
Definition abs (p : pos) : Spec.position :=
  {| Spec.brd := abs_board (board p);
     Spec.turn := cur_color p;
     Spec.rK := fun c => match c with White => wK p | Black => bK p end;
     Spec.rQ := fun c => match c with White => wQ p | Black => bQ p end;
     Spec.ep := if onb (ep p) then Some (coords (ep p)) else None;
     Spec.ply := ply p |}.
Definition absm (m : move) : Spec.move :=
  {| Spec.mfrom := coords (mfrom m); Spec.mto := coords (mto m); Spec.promo := mpromo m |}.

(* canonical number of a spec move, for sorting and comparison *)
Definition enc (m : Spec.move) : Z :=
  let k := match Spec.promo m with None => 0 | Some Knight => 1 | Some Bishop => 2 | Some Rook => 3 | Some Queen => 4 | Some _ => 5 end in
  ((sq88 (Spec.mfrom m)) * 256 + sq88 (Spec.mto m)) * 8 + k.

Definition spec_legal_codes (p : pos) : list Z := map enc (Spec.legal_moves (abs p)).
Definition spec_tactical_codes (p : pos) : list Z := map enc (Spec.tactical_moves (abs p)).
Definition spec_in_check (p : pos) : bool := Spec.in_check (Spec.brd (abs p)) (cur_color p).
Definition spec_attacked (p : pos) (white : bool) (s : Z) : bool :=
  Spec.attacked (Spec.brd (abs p)) (if white then White else Black) (coords s).
Definition spec_legal_position (p : pos) : bool := Spec.legal_position (abs p).

Definition pos_eqb (a b : Spec.position) : bool :=
  forallb (fun s => match Spec.brd a s, Spec.brd b s with
                    | None, None => true
                    | Some (c1, k1), Some (c2, k2) => color_eqb c1 c2 && kind_eqb k1 k2
                    | _, _ => false end) Spec.all_sq
  && color_eqb (Spec.turn a) (Spec.turn b)
  && Bool.eqb (Spec.rK a White) (Spec.rK b White) && Bool.eqb (Spec.rK a Black) (Spec.rK b Black)
  && Bool.eqb (Spec.rQ a White) (Spec.rQ b White) && Bool.eqb (Spec.rQ a Black) (Spec.rQ b Black)
  && match Spec.ep a, Spec.ep b with None, None => true | Some x, Some y => Spec.sq_eqb x y | _, _ => false end
  && (Spec.ply a =? Spec.ply b).
(* make agrees with Spec.apply for every generated legal move *)
Definition make_refines (p : pos) : bool :=
  forallb (fun r => match make p (rm r) with
                    | Ok (p', true) => pos_eqb (abs p') (Spec.apply (abs p) (absm (rm r)))
                    | _ => false end) (gen_legal_pure p).
(* the model position is the mirror image (up to list order) of another one, on the spec level *)
Definition is_mirror_of (p q : pos) : bool := pos_eqb (abs q) (Spec.mirror (abs p)).

(* one attacker (plus an optional blocker and the attackers' parked king) on an otherwise empty board: the case
   format of the exhaustive C09 enumeration.  Returns (model answer, specification answer). *)
Definition att_case (attacker : cell) (from to blocker kingsq : Z) : bool * bool :=
  let b0 := repeat Empty 128 in
  let b1 := set b0 from attacker in
  let b2 := if blocker <? 0 then b1 else set b1 blocker (Pc White Knight) in
  match attacker with
  | Empty => (false, false)
  | Pc c k =>
      let b3 := match k with King => b2 | _ => set b2 kingsq (Pc c King) end in
      let king := match k with King => from | _ => kingsq end in
      let pieces := match k with Pawn | King => [] | _ => [from] end in
      let pawns := match k with Pawn => [from] | _ => [] end in
      (is_under_check b3 pieces pawns king to, Spec.attacks (abs_board b3) (coords from) (coords to))
  end.

Definition spec_mate_score (n : nat) (p : pos) : option Z := Spec.mate_score n (abs p).
(* is the move list legal when played in order (model generator), returns the index of the first illegal move or -1 *)
Fixpoint line_legal (p : pos) (ms : list move) (i : Z) : Z :=
  match ms with
  | [] => -1
  | m :: rest =>
      match find (fun r => (mfrom (rm r) =? mfrom m) && (mto (rm r) =? mto m) && okind_eqb (mpromo (rm r)) (mpromo m)) (gen_legal_pure p) with
      | None => i
      | Some r => match make p (rm r) with Ok (p', _) => line_legal p' rest (i + 1) | Panic _ => i end
      end
  end.

(* the same AND/OR mate search as Spec.mate_score, over the engine model's generator (equal by C01/C02; much faster) *)
Fixpoint model_mate_score (n : nat) (p : pos) : option Z :=
  let ms := gen_legal_pure p in
  match ms with
  | [] => if in_check p then Some 0 else None
  | _ =>
    match n with
    | O => None
    | S k =>
        let vals := map (fun r => match make p (rm r) with
                                  | Ok (p', _) => match model_mate_score k p' with
                                                  | Some v => if v <=? 0 then Some (1 - v) else Some (- (v + 1))
                                                  | None => None end
                                  | Panic _ => None end) ms in
        if existsb (fun v => match v with Some x => 0 <? x | None => false end) vals
        then fold_left (fun acc v => match v with Some x => if 0 <? x then (match acc with Some y => Some (Z.min x y) | None => Some x end) else acc | None => acc end) vals None
        else if forallb (fun v => match v with Some _ => true | None => false end) vals
        then fold_left (fun acc v => match v, acc with Some x, Some y => Some (Z.min x y) | Some x, None => Some x | None, _ => acc end) vals None
        else None
    end
  end.
