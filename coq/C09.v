(* Property C09: attack / check detection matches chess geometry for every configuration. *)
From Coq Require Import ZArith List Bool.
Require Import Base Generated Position Attack Make WF AttackProofs.
Require Spec Abs.
Open Scope Z_scope.

(* one attacker of kind N/B/R/Q on any board whatsoever: table look-up + ray walk = geometry with blockers *)
Theorem C09_piece : forall b c k from dest,
  validb from = true -> validb dest = true -> is_piece_kind k = true -> get b from = Pc c k ->
  piece_hits b from dest = Spec.piece_attacks (Abs.abs_board b) c k (Abs.coords from) (Abs.coords dest).
Proof. exact piece_hits_spec. Qed.
(* pawns attack only the two squares diagonally ahead for their colour, never across the edge *)
Theorem C09_pawn : forall c from dest, validb from = true -> validb dest = true ->
  negb (Z.land (att (move_index from dest)) (match c with Black => enc_BPawnAttacks | White => enc_WPawnAttacks end) =? 0)
  = Spec.piece_attacks (fun _ => None) c Pawn (Abs.coords from) (Abs.coords dest).
Proof. exact pawn_hits_spec. Qed.
Theorem C09_king : forall c from dest, validb from = true -> validb dest = true ->
  negb (Z.land (att (move_index from dest)) enc_KingAttacks =? 0)
  = Spec.piece_attacks (fun _ => None) c King (Abs.coords from) (Abs.coords dest).
Proof. exact king_hits_spec. Qed.
(* isUnderCheck, with bookkeeping lists that agree with the board, says exactly "some piece of colour c attacks dest" *)
Theorem C09_under_check : forall b c pieces pawns king dest,
  lists_ok b c pieces pawns king = true -> validb dest = true ->
  is_under_check b pieces pawns king dest = Spec.attacked (Abs.abs_board b) c (Abs.coords dest).
Proof. exact is_under_check_spec. Qed.

Print Assumptions C09_piece.
Print Assumptions C09_pawn.
Print Assumptions C09_king.
Print Assumptions C09_under_check.
